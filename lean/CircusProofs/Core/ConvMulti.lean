import CircusProofs.Core.Conv
import CircusProofs.Core.HookFrame
import CircusProofs.Core.Init
import CircusProofs.Core.StopRun
/-!
C01 convergence, part C: **several watchers**.  `Arbiter.manage_watchers` runs `manage_processes` of every
registered watcher under one `gen.multi`; each watcher that misses workers parks its own `spawn_processes`
loop on its own timer; `wake` fires the earliest timer, whichever watcher it belongs to.  The theorem: from an
idle state with any number of active watchers, each listing `m_j ≤ N_j` running workers, in a still kernel,
`check` followed by exactly `Σ (N_j - m_j)` timer firings ends idle with every watcher at its `N_j` running
workers, the old ones kept.

Part 1: the per-watcher lemmas of Core/Conv.lean for a watcher inside a list of watchers.
-/
namespace Circus.Core

/-- a watcher of the theorem: active, respawning, no hooks, no max_age, not on-demand, `numprocesses ≥ 0`,
    `max_retry ≠ 0` -/
structure WOkK (w : Watcher) : Prop where
  status : w.status = .active
  respawn : w.respawn = true
  maxAge : w.maxAge = 0
  onDemand : w.onDemand = false
  hooks : w.hooks = []
  np : 0 ≤ w.np
  retry : w.maxRetry ≠ 0

/-- the number of workers a watcher misses -/
def missing (w : Watcher) : Nat := w.np.toNat - w.pids.length

/-- the data part: any number of watcher objects with pairwise different identities, each as in `WOkK` and
    listing running processes only; a still kernel; the daemon not hung -/
def DatK (s : State) : Prop :=
  s.blocked = false ∧ s.k.Still ∧ (s.ws.map (·.uid)).Nodup ∧
    ∀ w ∈ s.ws, WOkK w ∧ ∀ pid ∈ w.pids, ∃ p, s.k.find pid = some p ∧ p.st = .run

/-- watcher `u` lists one more pid -/
def addPid (u pid : Nat) (ws : List Watcher) : List Watcher :=
  ws.map fun w => if w.uid = u then { w with pids := w.pids ++ [pid] } else w

theorem addPid_uids (u pid : Nat) (ws : List Watcher) : (addPid u pid ws).map (·.uid) = ws.map (·.uid) := by
  unfold addPid
  rw [List.map_map]
  apply List.map_congr_left
  intro w _
  simp only [Function.comp]
  split <;> rfl

theorem mem_addPid {u pid : Nat} {ws : List Watcher} {w' : Watcher} (h : w' ∈ addPid u pid ws) :
    ∃ w ∈ ws, (w.uid = u ∧ w' = { w with pids := w.pids ++ [pid] }) ∨ (w.uid ≠ u ∧ w' = w) := by
  unfold addPid at h
  obtain ⟨w, hw, rfl⟩ := List.mem_map.mp h
  refine ⟨w, hw, ?_⟩
  by_cases hu : w.uid = u
  · exact Or.inl ⟨hu, by simp [hu]⟩
  · exact Or.inr ⟨hu, by simp [hu]⟩

theorem find_uid_of_mem {ws : List Watcher} (hn : (ws.map (·.uid)).Nodup) {w : Watcher} (hw : w ∈ ws) :
    ws.find? (fun x => decide (x.uid = w.uid)) = some w := by
  induction ws with
  | nil => cases hw
  | cons x xs ih =>
    simp only [List.map_cons, List.nodup_cons] at hn
    rcases List.mem_cons.mp hw with rfl | hw'
    · simp
    · have hne : ¬ x.uid = w.uid := fun he => hn.1 (he ▸ List.mem_map_of_mem hw')
      simp only [List.find?_cons, hne, decide_false]
      exact ih hn.2 hw'

theorem getW_mem {s : State} (hn : (s.ws.map (·.uid)).Nodup) {w : Watcher} (hw : w ∈ s.ws) : getW w.uid s = (w, s) := by
  simp [getW, find_uid_of_mem hn hw]

/-- the new entry of watcher `w` after `addPid` -/
theorem mem_addPid_self {ws : List Watcher} {w : Watcher} (hw : w ∈ ws) (pid : Nat) :
    ({ w with pids := w.pids ++ [pid] } : Watcher) ∈ addPid w.uid pid ws := by
  unfold addPid
  exact List.mem_map.mpr ⟨w, hw, by simp⟩

theorem mem_addPid_other {ws : List Watcher} {w : Watcher} (hw : w ∈ ws) {u : Nat} (hne : w.uid ≠ u) (pid : Nat) :
    w ∈ addPid u pid ws := by
  unfold addPid
  exact List.mem_map.mpr ⟨w, hw, by simp [hne]⟩

/-- the state after `Popen()` + registration of the new process in watcher `u` -/
def adoptedK (u wid : Nat) (wname : String) (s : State) : State :=
  { s with k := s.k.spawned,
           objs := s.objs ++ [{ pid := s.k.nextPid, wid := wid, started := s.k.now }],
           log := if s.blocked then s.log else s.log ++ [Obs.spawn s.k.nextPid wname wid],
           ws := addPid u s.k.nextPid s.ws }

theorem spawnAdopt_K (wid : Nat) (w : Watcher) (s : State) (hn : (s.ws.map (·.uid)).Nodup) (hw : w ∈ s.ws) (hk : s.k.Still) :
    spawnAdopt w.uid wid s = (some s.k.nextPid, adoptedK w.uid wid w.name s) := by
  unfold spawnAdopt adoptedK addPid
  simp only [Kernel.spawn_still hk, find_uid_of_mem hn hw, Option.getD_some]

theorem adoptedK_datK (wid : Nat) (w : Watcher) (s : State) (hd : DatK s) (hw : w ∈ s.ws) :
    DatK (adoptedK w.uid wid w.name s) := by
  obtain ⟨hb, hk, hn, hall⟩ := hd
  refine ⟨hb, Kernel.spawned_still hk, by show ((addPid _ _ _).map _).Nodup; rw [addPid_uids]; exact hn, ?_⟩
  intro w' hw'
  obtain ⟨w0, hw0, h | h⟩ := mem_addPid (show w' ∈ addPid w.uid s.k.nextPid s.ws from hw')
  · obtain ⟨_, rfl⟩ := h
    obtain ⟨hok, hrun⟩ := hall w0 hw0
    refine ⟨⟨hok.status, hok.respawn, hok.maxAge, hok.onDemand, hok.hooks, hok.np, hok.retry⟩, ?_⟩
    intro pid hp
    simp only [List.mem_append, List.mem_cons, List.mem_nil_iff, or_false] at hp
    rcases hp with hp | rfl
    · obtain ⟨p, hf, hr⟩ := hrun pid hp
      exact ⟨p, Kernel.spawned_find_old hf, hr⟩
    · exact ⟨s.k.newProc, Kernel.spawned_find_new hk, rfl⟩
  · obtain ⟨_, rfl⟩ := h
    obtain ⟨hok, hrun⟩ := hall w' hw0
    refine ⟨hok, ?_⟩
    intro pid hp
    obtain ⟨p, hf, hr⟩ := hrun pid hp
    exact ⟨p, Kernel.spawned_find_old hf, hr⟩

theorem notify_log_only (u : Nat) (t : String) (p : Option Nat) (x : String) (s : State) :
    ∃ l, notify u t p x s = ((), { s with log := l }) := by
  obtain ⟨l, hl⟩ := notify_log u t p x s
  exact ⟨l, by
    have : (notify u t p x s) = ((notify u t p x s).1, (notify u t p x s).2) := rfl
    rw [this, hl]⟩

/-- **`spawn_process` of one watcher among several**: one more listed running worker of that watcher; the other
    watchers, the control state and everybody's kernel entries are untouched -/
theorem spawnProcess_K (rec : Rec) (w : Watcher) (s : State) (hd : DatK s) (hw : w ∈ s.ws)
    (hlt : w.pids.length < w.np.toNat) :
    ∃ s', spawnProcess rec w.uid s = (.started s.k.now, s') ∧ DatK s' ∧ SameCtl s s' ∧
      s'.ws = addPid w.uid s.k.nextPid s.ws ∧ s.k.nextPid < s'.k.nextPid := by
  have hd0 := hd
  obtain ⟨hb, hk, hn, hall⟩ := hd
  obtain ⟨hok, hrun⟩ := hall w hw
  have hg := getW_mem hn hw
  have hnp : w.np = ((w.np.toNat : Nat) : Int) := (Int.toNat_of_nonneg hok.np).symm
  obtain ⟨wid, hwid⟩ := nextWid_some w.np.toNat ((usedWids w.uid s).1) (by
    simp only [usedWids, bind, hg, getS, pure, List.length_map]; omega)
  rw [← hnp] at hwid
  obtain ⟨t, ht⟩ : ∃ t, (if w.maxRetry < 0 then 100000 else w.maxRetry.toNat) = t + 1 := by
    by_cases h : w.maxRetry < 0
    · exact ⟨99999, by simp [h]⟩
    · have := hok.retry
      exact ⟨w.maxRetry.toNat - 1, by simp only [h, if_false]; omega⟩
  have hns : ¬ w.status = Status.stopped := by rw [hok.status]; decide
  have hdat := adoptedK_datK wid w s hd0 hw
  have hw' : ({ w with pids := w.pids ++ [s.k.nextPid] } : Watcher) ∈ (adoptedK w.uid wid w.name s).ws :=
    mem_addPid_self hw s.k.nextPid
  have hg' := getW_mem (s := adoptedK w.uid wid w.name s) hdat.2.2.1 hw'
  obtain ⟨l, hl⟩ := notify_log_only w.uid "spawn" (some s.k.nextPid) "-" (adoptedK w.uid wid w.name s)
  refine ⟨{ adoptedK w.uid wid w.name s with log := l }, ?_, ?_, ?_, rfl, ?_⟩
  · unfold spawnProcess
    simp only [bind]
    rw [hg]
    erw [if_neg hns]
    rw [callHook_nohooks w.uid "before_spawn" s (by rw [hg]; exact hok.hooks)]
    simp only [Bool.not_true, Bool.false_eq_true, if_false, ht]
    unfold spawnTry
    simp only [bind]
    rw [hg]
    have hu2 : (usedWids w.uid s).2 = s := rfl
    simp only [hu2, hwid]
    have hnw : nowMs s = (s.k.now, s) := rfl
    rw [hnw]
    simp only
    rw [spawnAdopt_K wid w s hn hw hk]
    simp only
    rw [callHook_nohooks w.uid "after_spawn" (adoptedK w.uid wid w.name s) (by
      have : (getW w.uid (adoptedK w.uid wid w.name s)) = _ := hg'
      rw [this]; exact hok.hooks)]
    erw [if_neg (by simp)]
    simp only [hl]
    rfl
  · obtain ⟨h1, h2, h3, h4⟩ := hdat
    exact ⟨h1, h2, h3, h4⟩
  · exact ⟨rfl, rfl, rfl, rfl, rfl, rfl, rfl⟩
  · show s.k.nextPid < s.k.nextPid + 1 + (s.k.bump 1).behavAt.kids
    omega

/-- **one round of `spawn_processes` of one watcher among several** -/
theorem spawnLoop_K (rec : Rec) (w : Watcher) (r : Nat) (wt : Waiter) (s : State) (hd : DatK s) (hw : w ∈ s.ws)
    (hlt : w.pids.length < w.np.toNat) (hfresh : ∀ g ∈ s.frames, g.fid ≠ s.nextId) :
    ∃ s' dl, spawnLoop rec w.uid (r + 1) wt s = ((), s') ∧ DatK s' ∧
      s'.ws = addPid w.uid s.k.nextPid s.ws ∧
      s'.frames = s.frames ++ [{ fid := s.nextId, k := .spawnLoop w.uid r, parent := wt, armed := true }] ∧
      s'.sleepers = s.sleepers ++ [{ sid := s.nextId + 1, deadline := dl, waiter := .frame s.nextId 0 }] ∧
      s'.nextId = s.nextId + 2 ∧ s'.tops = s.tops ∧ s'.ready = s.ready ∧ s'.a = s.a ∧ s'.doneVals = s.doneVals ∧
      s.k.nextPid < s'.k.nextPid := by
  obtain ⟨s1, hsp, hd1, hc, hws1, hnp⟩ := spawnProcess_K rec w s hd hw hlt
  have hsl : spawnLoop rec w.uid (r + 1) wt s =
      awaitSleep ((getW w.uid s1).1.warmup - (s1.k.now - s.k.now)) (.spawnLoop w.uid r) wt s1 := by
    unfold spawnLoop
    simp only [bind]
    rw [hsp]
    rfl
  rw [hsl, awaitSleep_eq]
  refine ⟨_, s1.k.now + ((getW w.uid s1).1.warmup - (s1.k.now - s.k.now)), rfl, ?_, hws1, ?_, ?_, ?_, ?_, ?_, ?_, ?_, hnp⟩
  · obtain ⟨h1, h2, h3, h4⟩ := hd1
    exact ⟨h1, h2, h3, h4⟩
  · simp only [hc.frames, hc.nextId]
    exact arm_fresh s.frames { fid := s.nextId, k := .spawnLoop w.uid r, parent := wt } hfresh
  · simp only [hc.sleepers, hc.nextId]
  · simp only [hc.nextId]
  · exact hc.tops
  · exact hc.ready
  · exact hc.a
  · exact hc.doneVals

theorem DatK.of_kernel {s t : State} (h : DatK s) (hk : t.k.Still) (hp : t.k.procs = s.k.procs)
    (hws : t.ws = s.ws) (hb : t.blocked = s.blocked) : DatK t := by
  obtain ⟨h1, _, h3, h4⟩ := h
  refine ⟨by rw [hb, h1], hk, by rw [hws]; exact h3, ?_⟩
  intro w hw
  rw [hws] at hw
  obtain ⟨hok, hrun⟩ := h4 w hw
  refine ⟨hok, ?_⟩
  intro pid hpid
  obtain ⟨p, hf, hr⟩ := hrun pid hpid
  exact ⟨p, by unfold Kernel.find at hf ⊢; rw [hp]; exact hf, hr⟩

theorem spawnProcesses_loopK (rec : Rec) (w : Watcher) (wt : Waiter) (s : State) (hn : (s.ws.map (·.uid)).Nodup)
    (hw : w ∈ s.ws) (hok : WOkK w) (hlt : w.pids.length < w.np.toNat) :
    spawnProcesses rec w.uid wt s = spawnLoop rec w.uid (missing w - 1 + 1) wt s := by
  have hg := getW_mem hn hw
  have hpe : pendingSocketEvent w.uid s = (false, s) := by
    simp only [pendingSocketEvent, bind, hg, getA, pure, hok.onDemand, Bool.false_and]
  unfold spawnProcesses
  simp only [bind]
  rw [hpe]
  erw [if_neg (by simp)]
  rw [hg]
  have hnp := hok.np
  have hnn : ¬ (w.np - (w.pids.length : Int) ≤ 0) := by omega
  have htn : (w.np - (w.pids.length : Int)).toNat = (missing w - 1) + 1 := by unfold missing; omega
  erw [if_neg hnn]
  rw [htn]

/-- **`manage_processes` of a watcher that misses workers, among several watchers** -/
theorem manageProcesses_K_missing (n : Nat) (w : Watcher) (wt : Waiter) (s : State) (hd : DatK s) (hw : w ∈ s.ws)
    (hlt : w.pids.length < w.np.toNat) (hfresh : ∀ g ∈ s.frames, g.fid < s.nextId) :
    ∃ s' dl, manageProcesses (exec (n + 1)) w.uid wt s = ((), s') ∧ DatK s' ∧
      s'.ws = addPid w.uid s.k.nextPid s.ws ∧
      s'.frames = s.frames ++ [
        { fid := s.nextId, k := .manageTail w.uid, parent := wt, armed := true },
        { fid := s.nextId + 1, k := .spawnLoop w.uid (missing w - 1), parent := .frame s.nextId 0, armed := true }] ∧
      s'.sleepers = s.sleepers ++ [{ sid := s.nextId + 2, deadline := dl, waiter := .frame (s.nextId + 1) 0 }] ∧
      s'.nextId = s.nextId + 3 ∧ s'.tops = s.tops ∧ s'.ready = s.ready ∧ s'.a = s.a ∧ s'.doneVals = s.doneVals ∧
      s.k.nextPid < s'.k.nextPid := by
  have hd0 := hd
  obtain ⟨hb, hk, hn, hall⟩ := hd
  obtain ⟨hok, hrun⟩ := hall w hw
  let s1 := s.bump (2 * w.pids.length)
  have hd1 : DatK s1 := hd0.of_kernel (hk.bump _) rfl rfl rfl
  let s2 : State := { s1 with frames := s1.frames ++ [{ fid := s.nextId, k := .manageTail w.uid, parent := wt }],
                              nextId := s.nextId + 1 }
  have hd2 : DatK s2 := hd1.of_kernel (hk.bump _) rfl rfl rfl
  have hfresh2 : ∀ g ∈ s2.frames, g.fid ≠ s2.nextId := by
    intro g hg
    simp only [s2, s1, State.bump, List.mem_append, List.mem_cons, List.mem_nil_iff, or_false] at hg
    show g.fid ≠ s.nextId + 1
    rcases hg with hg | rfl
    · have := hfresh g hg; omega
    · simp
  obtain ⟨s3, dl, hloop, hd3, hws3, hf3, hsl3, hn3, ht3, hr3, ha3, hdv3, hnp3⟩ :=
    spawnLoop_K (exec n) w (missing w - 1) (.frame s.nextId 0) s2 hd2 hw hlt hfresh2
  refine ⟨(armFrame s.nextId s3).2, dl, ?_, ?_, ?_, ?_, ?_, ?_, ?_, ?_, ?_, ?_, ?_⟩
  · unfold manageProcesses
    simp only [bind]
    rw [getW_mem hn hw]
    have hns : ¬ w.status = Status.stopped := by rw [hok.status]; decide
    erw [if_neg hns]
    have hl := manageLoop_still w.uid w.pids s hk hrun
    simp only [bind] at hl
    erw [hl]
    have hage : ¬ (w.maxAge > 0) := by rw [hok.maxAge]; decide
    erw [if_neg hage]
    unfold manageAfterExpire
    simp only [bind]
    rw [getW_mem (s := s1) hn hw]
    have hnp := hok.np
    have hlt' : (decide ((w.pids.length : Int) < w.np) && decide (w.status ≠ Status.stopping)) = true := by
      rw [hok.status]
      simp
      omega
    simp only [hlt', if_true, hok.respawn]
    show armFrame s1.nextId (exec (n + 1) (.call (.spawnProcesses w.uid) (.frame s1.nextId 0)) s2).2 = _
    rw [exec_call n _ _ s2 hb]
    simp only [runCall]
    rw [spawnProcesses_loopK (exec n) w _ s2 hn hw hok hlt]
    show armFrame s.nextId (spawnLoop (exec n) w.uid (missing w - 1 + 1) (.frame s.nextId 0) s2).2 = _
    rw [hloop]
  · obtain ⟨a1, a2, a3, a4⟩ := hd3
    exact ⟨a1, a2, a3, a4⟩
  · show s3.ws = _
    rw [hws3]; rfl
  · show s3.frames.map (fun (g : Frame) => if g.fid = s.nextId then { g with armed := true } else g) = _
    rw [hf3]
    simp only [s2, s1, State.bump, List.map_append, List.map_cons, List.map_nil, if_true]
    have hid : s.frames.map (fun (g : Frame) => if g.fid = s.nextId then { g with armed := true } else g) = s.frames := by
      conv => rhs; rw [← List.map_id s.frames]
      apply List.map_congr_left
      intro g hg
      have := hfresh g hg
      simp; omega
    rw [hid]
    simp
  · show s3.sleepers = _
    rw [hsl3]; rfl
  · show s3.nextId = _
    rw [hn3]
  · show s3.tops = _; rw [ht3]; rfl
  · show s3.ready = _; rw [hr3]; rfl
  · show s3.a = _; rw [ha3]; rfl
  · show s3.doneVals = _; rw [hdv3]; rfl
  · exact hnp3

/-- **`manage_processes` of a watcher that has all its workers, among several watchers**: only the status reads -/
theorem manageProcesses_K_full (rec : Rec) (w : Watcher) (wt : Waiter) (s : State) (hd : DatK s) (hw : w ∈ s.ws)
    (hfull : w.pids.length = w.np.toNat) :
    manageProcesses rec w.uid wt s = deliver rec wt .unit (s.bump (2 * w.pids.length)) := by
  obtain ⟨hb, hk, hn, hall⟩ := hd
  obtain ⟨hok, hrun⟩ := hall w hw
  unfold manageProcesses
  simp only [bind]
  rw [getW_mem hn hw]
  have hns : ¬ w.status = Status.stopped := by rw [hok.status]; decide
  erw [if_neg hns]
  have hl := manageLoop_still w.uid w.pids s hk hrun
  simp only [bind] at hl
  erw [hl]
  have hage : ¬ (w.maxAge > 0) := by rw [hok.maxAge]; decide
  erw [if_neg hage]
  unfold manageAfterExpire
  simp only [bind]
  rw [getW_mem (s := s.bump (2 * w.pids.length)) hn hw]
  have hnp := hok.np
  have hlt : (decide ((w.pids.length : Int) < w.np) && decide (w.status ≠ Status.stopping)) = false := by
    simp; omega
  simp only [hlt, Bool.false_eq_true, if_false]
  unfold manageTail
  simp only [bind]
  rw [getW_mem (s := s.bump (2 * w.pids.length)) hn hw]
  have hgt : ¬ ((w.pids.length : Int) > w.np) := by omega
  erw [if_neg hgt]

/-! ## Part 2: `manage_watchers` over several watchers -/

theorem registered_all (s : State) (hn : (s.ws.map (·.uid)).Nodup) (hwat : s.a.watchers = s.ws.map (·.uid)) :
    registered s = (s.ws, s) := by
  have key : ∀ (l : List Watcher), (∀ w ∈ l, w ∈ s.ws) →
      (l.map (·.uid)).filterMap (fun u => s.ws.find? (fun x => decide (x.uid = u))) = l := by
    intro l
    induction l with
    | nil => intro _; rfl
    | cons w r ih =>
      intro hl
      simp only [List.map_cons, List.filterMap_cons, find_uid_of_mem hn (hl w (by simp))]
      rw [ih (fun x hx => hl x (by simp [hx]))]
  simp only [registered, bind, getS, pure, hwat]
  rw [key s.ws (fun _ h => h)]

/-- `manage_watchers` with every registered watcher as in `DatK`: nothing to reap, then the `gen.multi` over the
    `manage_processes` of the watchers in `iter_watchers()` order -/
theorem manageWatchers_eq_K_gen (rec : Rec) (wt : Waiter) (s s1 : State) (hstp : s.a.stopping = false)
    (hreap : arbReapProcesses s = ((), s1)) (hd1 : DatK s1) (hwat : s1.a.watchers = s1.ws.map (·.uid)) :
    manageWatchers rec wt s =
      awaitMulti rec ((sortWatchers s1.ws true).map fun w => Call.manageProcesses w.uid) (.manageWatchersTail false) wt s1 := by
  obtain ⟨hb, hk, hn, hall⟩ := hd1
  unfold manageWatchers
  simp only [bind, getA]
  erw [if_neg (by simp [hstp])]
  rw [hreap]
  simp only
  have hreg := registered_all s1 hn hwat
  have hiw : iterWatchers true s1 = ((sortWatchers s1.ws true).map (·.uid), s1) := by
    simp only [iterWatchers, bind, hreg, pure]
  rw [hiw]
  simp only [getS]
  have hgen : ∀ (b : Bool) (cs : List Call), b = false →
      awaitMulti rec cs (.manageWatchersTail b) wt s1 = awaitMulti rec cs (.manageWatchersTail false) wt s1 := by
    intro b cs hb; rw [hb]
  refine (hgen _ _ ?_).trans ?_
  · apply List.any_eq_false.mpr
    intro u hu
    obtain ⟨w, hw, rfl⟩ := List.mem_map.mp hu
    have hw' : w ∈ s1.ws := (sortWatchers_perm s1.ws true).mem_iff.mp hw
    have hf : List.find? (fun x => decide (x.uid = w.uid)) s1.ws = some w := find_uid_of_mem hn hw'
    simp only [hf, (hall w hw').1.onDemand, Bool.false_and, Bool.false_eq_true, not_false_eq_true]
  · rw [List.map_map]
    rfl

theorem manageWatchers_eq_K (rec : Rec) (wt : Waiter) (s : State) (hd : DatK s) (hstp : s.a.stopping = false)
    (hwat : s.a.watchers = s.ws.map (·.uid)) :
    manageWatchers rec wt s =
      awaitMulti rec ((sortWatchers s.ws true).map fun w => Call.manageProcesses w.uid) (.manageWatchersTail false) wt
        { s with k := s.k.bump 1 } :=
  manageWatchers_eq_K_gen rec wt s { s with k := s.k.bump 1 } hstp (arbReapProcesses_still s hd.1 hd.2.1)
    (hd.of_kernel (hd.2.1.bump 1) rfl rfl rfl) hwat

/-- a parked `spawn_processes` loop of one watcher: its slot in the `gen.multi`, the watcher, the frame of
    `manage_processes`' continuation, the frame of the loop, its timer, how many spawns remain -/
structure PK where
  slot : Nat
  uid : Nat
  mt : Nat
  sl : Nat
  sid : Nat
  dl : Nat
  rem : Nat

def PK.mtFrame (i : Nat) (p : PK) : Frame :=
  { fid := p.mt, k := .manageTail p.uid, parent := .frame (i + 2) p.slot, armed := true }
def PK.slFrame (p : PK) : Frame :=
  { fid := p.sl, k := .spawnLoop p.uid p.rem, parent := .frame p.mt 0, armed := true }
def PK.timer (p : PK) : Sleeper := { sid := p.sid, deadline := p.dl, waiter := .frame p.sl 0 }
def pkFrames (i : Nat) (P : List PK) : List Frame := P.flatMap fun p => [p.mtFrame i, p.slFrame]

theorem pkFrames_snoc (i : Nat) (P : List PK) (p : PK) : pkFrames i (P ++ [p]) = pkFrames i P ++ [p.mtFrame i, p.slFrame] := by
  simp [pkFrames]

theorem mem_pkFrames {i : Nat} {P : List PK} {g : Frame} (h : g ∈ pkFrames i P) :
    ∃ p ∈ P, g = p.mtFrame i ∨ g = p.slFrame := by
  simp only [pkFrames, List.mem_flatMap, List.mem_cons, List.mem_nil_iff, or_false] at h
  exact h

/-- the per-watcher accounting of the parked loops: the loop of `p` belongs to a watcher that still misses `p.rem`
    workers; watchers without a parked loop (other than those in `todo`, not looked at yet) are complete -/
structure Acct (todo : List Nat) (P : List PK) (s : State) : Prop where
  parked : ∀ p ∈ P, ∃ w ∈ s.ws, w.uid = p.uid ∧ w.pids.length + p.rem = w.np.toNat
  nodupU : (P.map (·.uid)).Nodup
  full : ∀ w ∈ s.ws, w.uid ∉ todo → (∀ p ∈ P, p.uid ≠ w.uid) → w.pids.length = w.np.toNat
  notyet : ∀ p ∈ P, p.uid ∉ todo

/-- the check while `manage_watchers` is still building its `gen.multi` (nothing armed yet) -/
structure Building (K i idx : Nat) (results : List (Nat × Val)) (P : List PK) (s : State) : Prop where
  frames : s.frames = { fid := i + 1, k := .manageWatchersTail false, parent := .top i } ::
    { fid := i + 2, k := .multi K results, parent := .frame (i + 1) 0 } :: pkFrames i P
  sleepers : s.sleepers = P.map PK.timer
  tops : s.tops = [{ tid := i, cbs := [.release] }]
  ready : s.ready = []
  doneVals : s.doneVals = []
  count : results.length + P.length = idx
  units : ∀ r ∈ results, r.2 = Val.unit
  nid : i + 3 ≤ s.nextId
  ids : ∀ p ∈ P, i + 2 < p.mt ∧ p.mt < p.sl ∧ p.sl < p.sid ∧ p.sid < s.nextId
  sorted : P.Pairwise (fun p q => p.sid < q.mt)
  slot : s.a.slot = some "manage_watchers"
  loopStop : s.a.loopStop = false
  stopping : s.a.stopping = false
  restarting : s.a.restarting = false

theorem sum_missing_addPid (ws : List Watcher) (w : Watcher) (pid : Nat) (hn : (ws.map (·.uid)).Nodup) (hw : w ∈ ws)
    (hlt : w.pids.length < w.np.toNat) :
    ((addPid w.uid pid ws).map missing).sum + 1 = (ws.map missing).sum := by
  induction ws with
  | nil => cases hw
  | cons x xs ih =>
    simp only [List.map_cons, List.nodup_cons] at hn
    rcases List.mem_cons.mp hw with rfl | hw'
    · have hrest : addPid w.uid pid xs = xs := by
        unfold addPid
        conv => rhs; rw [← List.map_id xs]
        apply List.map_congr_left
        intro y hy
        have : y.uid ≠ w.uid := fun he => hn.1 (he ▸ List.mem_map_of_mem hy)
        simp [this]
      have : addPid w.uid pid (w :: xs) = { w with pids := w.pids ++ [pid] } :: addPid w.uid pid xs := by
        simp [addPid]
      rw [this, hrest]
      simp only [List.map_cons, List.sum_cons, missing, List.length_append, List.length_cons, List.length_nil]
      omega
    · have hne : x.uid ≠ w.uid := fun he => hn.1 (he ▸ List.mem_map_of_mem hw')
      have : addPid w.uid pid (x :: xs) = x :: addPid w.uid pid xs := by simp [addPid, hne]
      rw [this]
      simp only [List.map_cons, List.sum_cons]
      have := ih hn.2 hw'
      omega

/-- every watcher keeps its identity, its options and its listed pids, possibly with more pids appended -/
inductive Grow : List Watcher → List Watcher → Prop
  | nil : Grow [] []
  | cons (w : Watcher) (extra : List Nat) {r r' : List Watcher} :
      Grow r r' → Grow (w :: r) ({ w with pids := w.pids ++ extra } :: r')

theorem Grow.refl (ws : List Watcher) : Grow ws ws := by
  induction ws with
  | nil => exact Grow.nil
  | cons w r ih =>
    have := Grow.cons w [] ih
    simpa using this

theorem Grow.trans {a b c : List Watcher} (h1 : Grow a b) (h2 : Grow b c) : Grow a c := by
  induction h1 generalizing c with
  | nil => cases h2; exact Grow.nil
  | cons w e1 _ ih =>
    cases h2 with
    | cons _ e2 hr =>
      have := Grow.cons w (e1 ++ e2) (ih hr)
      simpa using this

theorem Grow.addPid (u pid : Nat) (ws : List Watcher) : Grow ws (addPid u pid ws) := by
  induction ws with
  | nil => exact Grow.nil
  | cons w r ih =>
    have hc : Circus.Core.addPid u pid (w :: r) =
        (if w.uid = u then { w with pids := w.pids ++ [pid] } else w) :: Circus.Core.addPid u pid r := by
      simp [Circus.Core.addPid]
    rw [hc]
    by_cases h : w.uid = u
    · rw [if_pos h]
      exact Grow.cons w [pid] ih
    · simp only [h, if_false]
      have := Grow.cons w [] ih
      simpa using this

/-- what `Grow` says about a single watcher -/
theorem Grow.mem {a b : List Watcher} (h : Grow a b) : ∀ w ∈ a, ∃ extra, ({ w with pids := w.pids ++ extra } : Watcher) ∈ b := by
  induction h with
  | nil => intro w hw; cases hw
  | cons w0 e _ ih =>
    intro w hw
    rcases List.mem_cons.mp hw with rfl | hw
    · exact ⟨e, by simp⟩
    · obtain ⟨e', he'⟩ := ih w hw
      exact ⟨e', List.mem_cons_of_mem _ he'⟩

/-- the measure: workers still missing plus loops still parked = timer firings to go -/
def toGo (P : List PK) (s : State) : Nat := (s.ws.map missing).sum + P.length

theorem Building.fresh {K i idx : Nat} {results : List (Nat × Val)} {P : List PK} {s : State}
    (h : Building K i idx results P s) : ∀ g ∈ s.frames, g.fid < s.nextId := by
  intro g hg
  rw [h.frames] at hg
  have hn := h.nid
  simp only [List.mem_cons] at hg
  rcases hg with rfl | rfl | hg
  · show i + 1 < s.nextId; omega
  · show i + 2 < s.nextId; omega
  · obtain ⟨p, hp, hgp | hgp⟩ := mem_pkFrames hg
    · have := h.ids p hp; rw [hgp]; show p.mt < _; omega
    · have := h.ids p hp; rw [hgp]; show p.sl < _; omega

theorem pkFrames_fid_ne {i : Nat} {P : List PK} (hids : ∀ p ∈ P, i + 2 < p.mt ∧ p.mt < p.sl) :
    ∀ g ∈ pkFrames i P, g.fid ≠ i + 2 ∧ g.fid ≠ i + 1 := by
  intro g hg
  obtain ⟨p, hp, hgp | hgp⟩ := mem_pkFrames hg
  · have := hids p hp; rw [hgp]; show p.mt ≠ _ ∧ p.mt ≠ _; omega
  · have := hids p hp; rw [hgp]; show p.sl ≠ _ ∧ p.sl ≠ _; omega

/-- a complete watcher's `manage_processes` returns into the `gen.multi` that is still being built and is not the
    last result: it is recorded -/
theorem deliver_record_B (rec : Rec) (K i idx : Nat) (results : List (Nat × Val)) (P : List PK) (s : State)
    (hfr : s.frames = { fid := i + 1, k := .manageWatchersTail false, parent := .top i } ::
      { fid := i + 2, k := .multi K results, parent := .frame (i + 1) 0 } :: pkFrames i P)
    (hids : ∀ p ∈ P, i + 2 < p.mt ∧ p.mt < p.sl) (hlt : results.length + 1 < K) :
    deliver rec (.frame (i + 2) idx) .unit s =
      ((), { s with frames := { fid := i + 1, k := .manageWatchersTail false, parent := .top i } ::
        { fid := i + 2, k := .multi K (results ++ [(idx, Val.unit)]), parent := .frame (i + 1) 0 } :: pkFrames i P }) := by
  have hn : ¬ K ≤ results.length + 1 := by omega
  have hmap : (pkFrames i P).map (fun g => if g.fid = i + 2 then { g with k := Kont.multi K (results ++ [(idx, Val.unit)]) } else g) =
      pkFrames i P := by
    conv => rhs; rw [← List.map_id (pkFrames i P)]
    apply List.map_congr_left
    intro g hg
    have := (pkFrames_fid_ne hids g hg).1
    simp [this]
  simp only [deliver, bind, getS, hfr, List.find?_cons]
  simp [setFrameK, modS, hn, hfr, hmap]

theorem same_uid_eq {ws : List Watcher} (hn : (ws.map (·.uid)).Nodup) {a b : Watcher} (ha : a ∈ ws) (hb : b ∈ ws)
    (h : a.uid = b.uid) : a = b := by
  have h1 := find_uid_of_mem hn ha
  have h2 := find_uid_of_mem hn hb
  rw [h] at h1
  rw [h1] at h2
  exact Option.some.inj h2

/-- **the children of `manage_watchers`' `gen.multi`, at least one watcher missing workers**: every watcher that
    misses workers spawns one and parks its loop; the `manage_processes` of the complete ones return at once and are
    recorded; nothing completes the `gen.multi` yet -/
theorem children_park (n K i : Nat) : ∀ (us : List Watcher) (idx : Nat) (results : List (Nat × Val)) (P : List PK) (s : State),
    Building K i idx results P s → DatK s → Acct (us.map (·.uid)) P s → (us.map (·.uid)).Nodup →
    (∀ w ∈ us, w ∈ s.ws ∧ w.pids.length ≤ w.np.toNat) → idx + us.length = K →
    (P ≠ [] ∨ ∃ w ∈ us, w.pids.length < w.np.toNat) →
    ∃ results' P' s',
      (forIn (us.map fun w => Call.manageProcesses w.uid) idx (multiBody (exec (n + 2)) (i + 2)) : M Nat) s = (K, s') ∧
      Building K i K results' P' s' ∧ DatK s' ∧ Acct [] P' s' ∧ P' ≠ [] ∧ toGo P' s' = toGo P s ∧ Grow s.ws s'.ws ∧
      s'.a = s.a ∧ s'.log.length ≥ 0 := by
  intro us
  induction us with
  | nil =>
    intro idx results P s hB hd hA _ _ hidx hpark
    have hK : idx = K := by simpa using hidx
    subst hK
    have hP : P ≠ [] := by
      rcases hpark with h | ⟨w, hw, _⟩
      · exact h
      · cases hw
    exact ⟨results, P, s, rfl, hB, hd, hA, hP, rfl, Grow.refl _, rfl, Nat.zero_le _⟩
  | cons w0 rest ih =>
    intro idx results P s hB hd hA hnd hus hidx hpark
    have hnd' := List.nodup_cons.mp (by simpa using hnd : (w0.uid :: rest.map (·.uid)).Nodup)
    obtain ⟨hw0, hle0⟩ := hus w0 (by simp)
    have hd0 := hd
    obtain ⟨hb, hk, hn, hall⟩ := hd
    have hfresh := hB.fresh
    rw [List.map_cons, List.forIn_cons]
    simp only [bind, multiBody]
    rw [exec_call (n + 1) _ _ s hb]
    simp only [runCall]
    by_cases hlt : w0.pids.length < w0.np.toNat
    · -- the watcher misses workers: it spawns one and parks
      obtain ⟨s1, dl, hmp, hd1, hws1, hf1, hsl1, hn1, ht1, hr1, ha1, hdv1, _⟩ :=
        manageProcesses_K_missing n w0 (.frame (i + 2) idx) s hd0 hw0 hlt hfresh
      rw [hmp]
      simp only
      let p0 : PK := { slot := idx, uid := w0.uid, mt := s.nextId, sl := s.nextId + 1, sid := s.nextId + 2, dl := dl,
                       rem := missing w0 - 1 }
      have hB1 : Building K i (idx + 1) results (P ++ [p0]) s1 := by
        refine ⟨?_, ?_, by rw [ht1]; exact hB.tops, by rw [hr1]; exact hB.ready, by rw [hdv1]; exact hB.doneVals, ?_,
          hB.units, by rw [hn1]; have := hB.nid; omega, ?_, ?_, by rw [ha1]; exact hB.slot, by rw [ha1]; exact hB.loopStop,
          by rw [ha1]; exact hB.stopping, by rw [ha1]; exact hB.restarting⟩
        · rw [hf1, hB.frames, pkFrames_snoc]
          rfl
        · rw [hsl1, hB.sleepers, List.map_append]
          rfl
        · have := hB.count
          simp only [List.length_append, List.length_cons, List.length_nil]
          omega
        · intro p hp
          rw [hn1]
          rcases List.mem_append.mp hp with hp | hp
          · have := hB.ids p hp; omega
          · simp only [List.mem_cons, List.mem_nil_iff, or_false] at hp
            subst hp
            have := hB.nid
            show i + 2 < s.nextId ∧ s.nextId < s.nextId + 1 ∧ s.nextId + 1 < s.nextId + 2 ∧ s.nextId + 2 < s.nextId + 3
            omega
        · apply List.pairwise_append.mpr
          refine ⟨hB.sorted, List.pairwise_singleton _ _, ?_⟩
          intro p hp q hq
          simp only [List.mem_cons, List.mem_nil_iff, or_false] at hq
          subst hq
          have := (hB.ids p hp).2.2.2
          exact this
      have hA1 : Acct (rest.map (·.uid)) (P ++ [p0]) s1 := by
        refine ⟨?_, ?_, ?_, ?_⟩
        · intro p hp
          rcases List.mem_append.mp hp with hp | hp
          · obtain ⟨w, hw, hwu, hwl⟩ := hA.parked p hp
            have hne : w.uid ≠ w0.uid := by
              intro he
              exact hA.notyet p hp (by rw [← hwu, he]; simp)
            exact ⟨w, by rw [hws1]; exact mem_addPid_other hw hne _, hwu, hwl⟩
          · simp only [List.mem_cons, List.mem_nil_iff, or_false] at hp
            subst hp
            refine ⟨{ w0 with pids := w0.pids ++ [s.k.nextPid] }, by rw [hws1]; exact mem_addPid_self hw0 _, rfl, ?_⟩
            show (w0.pids ++ [s.k.nextPid]).length + (missing w0 - 1) = w0.np.toNat
            simp only [List.length_append, List.length_cons, List.length_nil, missing]
            omega
        · rw [List.map_append]
          apply List.nodup_append.mpr
          refine ⟨hA.nodupU, by simp, ?_⟩
          intro a ha b hb
          simp only [List.map_cons, List.map_nil, List.mem_cons, List.mem_nil_iff, or_false] at hb
          subst hb
          intro he
          subst he
          obtain ⟨p, hp, hpu⟩ := List.mem_map.mp ha
          exact hA.notyet p hp (by rw [hpu]; show w0.uid ∈ _; simp)
        · intro w' hw' hnt hnp
          rw [hws1] at hw'
          obtain ⟨w, hw, h | h⟩ := mem_addPid hw'
          · exfalso
            obtain ⟨hwu, rfl⟩ := h
            exact hnp p0 (by simp) hwu.symm
          · obtain ⟨hwu, rfl⟩ := h
            apply hA.full w' hw
            · intro hm
              simp only [List.map_cons, List.mem_cons] at hm
              rcases hm with hm | hm
              · exact hwu hm
              · exact hnt hm
            · intro p hp
              exact hnp p (by simp [hp])
        · intro p hp
          rcases List.mem_append.mp hp with hp | hp
          · intro hm
            exact hA.notyet p hp (by simp [hm])
          · simp only [List.mem_cons, List.mem_nil_iff, or_false] at hp
            subst hp
            exact hnd'.1
      have hus1 : ∀ w ∈ rest, w ∈ s1.ws ∧ w.pids.length ≤ w.np.toNat := by
        intro w hw
        obtain ⟨h1, h2⟩ := hus w (by simp [hw])
        have hne : w.uid ≠ w0.uid := fun he => hnd'.1 (he ▸ List.mem_map_of_mem hw)
        exact ⟨by rw [hws1]; exact mem_addPid_other h1 hne _, h2⟩
      obtain ⟨results', P', s', hloop, hB', hd', hA', hP', hgo, hgr, ha', _⟩ :=
        ih (idx + 1) results (P ++ [p0]) s1 hB1 hd1 hA1 hnd'.2 hus1 (by simp at hidx ⊢; omega) (Or.inl (by simp))
      refine ⟨results', P', s', hloop, hB', hd', hA', hP', ?_, ?_, ha'.trans ha1, Nat.zero_le _⟩
      · rw [hgo]
        unfold toGo
        rw [hws1]
        have := sum_missing_addPid s.ws w0 s.k.nextPid hn hw0 hlt
        simp only [List.length_append, List.length_cons, List.length_nil]
        omega
      · rw [hws1] at hgr
        exact (Grow.addPid w0.uid s.k.nextPid s.ws).trans hgr
    · -- the watcher is complete: its result is recorded
      have hfull : w0.pids.length = w0.np.toNat := by omega
      rw [manageProcesses_K_full (exec (n + 1)) w0 _ s hd0 hw0 hfull]
      have hrest : rest ≠ [] ∨ P ≠ [] := by
        rcases hpark with h | ⟨w, hw, hwl⟩
        · exact Or.inr h
        · rcases List.mem_cons.mp hw with rfl | hw
          · exact absurd hwl hlt
          · exact Or.inl (List.ne_nil_of_mem hw)
      have hnot : results.length + 1 < K := by
        have := hB.count
        simp only [List.length_cons] at hidx
        rcases hrest with h | h
        · have := List.length_pos_iff.mpr h; omega
        · have := List.length_pos_iff.mpr h; omega
      rw [deliver_record_B (exec (n + 1)) K i idx results P (s.bump (2 * w0.pids.length)) hB.frames
        (fun p hp => ⟨(hB.ids p hp).1, (hB.ids p hp).2.1⟩) hnot]
      simp only
      let s1 : State := { s.bump (2 * w0.pids.length) with frames :=
        { fid := i + 1, k := .manageWatchersTail false, parent := .top i } ::
        { fid := i + 2, k := .multi K (results ++ [(idx, Val.unit)]), parent := .frame (i + 1) 0 } :: pkFrames i P }
      have hB1 : Building K i (idx + 1) (results ++ [(idx, Val.unit)]) P s1 := by
        refine ⟨rfl, hB.sleepers, hB.tops, hB.ready, hB.doneVals, ?_, ?_, hB.nid, hB.ids, hB.sorted, hB.slot, hB.loopStop,
          hB.stopping, hB.restarting⟩
        · have := hB.count
          simp only [List.length_append, List.length_cons, List.length_nil]
          omega
        · intro r hr
          rcases List.mem_append.mp hr with hr | hr
          · exact hB.units r hr
          · simp only [List.mem_cons, List.mem_nil_iff, or_false] at hr
            subst hr; rfl
      have hd1 : DatK s1 := hd0.of_kernel (hk.bump _) rfl rfl rfl
      have hA1 : Acct (rest.map (·.uid)) P s1 := by
        refine ⟨hA.parked, hA.nodupU, ?_, ?_⟩
        · intro w' hw' hnt hnp
          by_cases he : w'.uid = w0.uid
          · have : w' = w0 := same_uid_eq hn hw' hw0 he
            subst this
            exact hfull
          · apply hA.full w' hw' _ hnp
            intro hm
            simp only [List.map_cons, List.mem_cons] at hm
            rcases hm with hm | hm
            · exact he hm
            · exact hnt hm
        · intro p hp hm
          exact hA.notyet p hp (by simp [hm])
      have hus1 : ∀ w ∈ rest, w ∈ s1.ws ∧ w.pids.length ≤ w.np.toNat := fun w hw => hus w (by simp [hw])
      have hpark1 : P ≠ [] ∨ ∃ w ∈ rest, w.pids.length < w.np.toNat := by
        rcases hpark with h | ⟨w, hw, hwl⟩
        · exact Or.inl h
        · rcases List.mem_cons.mp hw with rfl | hw
          · exact absurd hwl hlt
          · exact Or.inr ⟨w, hw, hwl⟩
      obtain ⟨results', P', s', hloop, hB', hd', hA', hP', hgo, hgr, ha', _⟩ :=
        ih (idx + 1) (results ++ [(idx, Val.unit)]) P s1 hB1 hd1 hA1 hnd'.2 hus1 (by simp at hidx ⊢; omega) hpark1
      exact ⟨results', P', s', hloop, hB', hd', hA', hP', hgo, hgr, ha', Nat.zero_le _⟩

/-! ## Part 3: the check with several watchers, some of them missing workers -/

/-- nothing is in flight; every watcher object is registered, in list order -/
structure IdleK (s : State) : Prop where
  frames : s.frames = []
  sleepers : s.sleepers = []
  tops : s.tops = []
  ready : s.ready = []
  slot : s.a.slot = none
  loopStop : s.a.loopStop = false
  stopping : s.a.stopping = false
  restarting : s.a.restarting = false
  watchers : s.a.watchers = s.ws.map (·.uid)

def pkIds (P : List PK) : List Nat := P.flatMap fun p => [p.mt, p.sl]

/-- the check is parked in the `spawn_processes` loops of the watchers `P`: the frames of `manage_watchers` and its
    `gen.multi` (with the results of the watchers that are done), and — in whatever order the timer firings have
    left them — for each parked watcher the frame of `manage_processes`' continuation, the frame of its loop and
    the timer of the latter; the future of the check with its two callbacks; the slot taken -/
structure ParkedK (K i : Nat) (results : List (Nat × Val)) (P : List PK) (s : State) : Prop where
  frames : ∃ rest, s.frames = { fid := i + 1, k := .manageWatchersTail false, parent := .top i, armed := true } ::
    { fid := i + 2, k := .multi K results, parent := .frame (i + 1) 0, armed := true } :: rest ∧ rest.Perm (pkFrames i P)
  sleepers : s.sleepers.Perm (P.map PK.timer)
  tops : s.tops = [{ tid := i, cbs := [.release, .watch], armed := true }]
  ready : s.ready = []
  count : results.length + P.length = K
  units : ∀ r ∈ results, r.2 = Val.unit
  ids : ∀ p ∈ P, i + 2 < p.mt ∧ i + 2 < p.sl ∧ p.mt < s.nextId ∧ p.sl < s.nextId ∧ p.sid < s.nextId
  nodupF : (pkIds P).Nodup
  nodupS : (P.map (·.sid)).Nodup
  slot : s.a.slot = some "manage_watchers"
  loopStop : s.a.loopStop = false
  stopping : s.a.stopping = false
  restarting : s.a.restarting = false
  watchers : s.a.watchers = s.ws.map (·.uid)
  sockReady : True

theorem pkIds_nodup_of_sorted (P : List PK) (hids : ∀ p ∈ P, p.mt < p.sl ∧ p.sl < p.sid)
    (hs : P.Pairwise (fun p q => p.sid < q.mt)) : (pkIds P).Nodup ∧ (P.map (·.sid)).Nodup := by
  induction P with
  | nil => exact ⟨by simp [pkIds], by simp⟩
  | cons p r ih =>
    have hp := List.pairwise_cons.mp hs
    obtain ⟨h1, h2⟩ := ih (fun q hq => hids q (by simp [hq])) hp.2
    have hpi := hids p (by simp)
    constructor
    · show ([p.mt, p.sl] ++ pkIds r).Nodup
      apply List.nodup_append.mpr
      refine ⟨by simp; omega, h1, ?_⟩
      intro a ha b hb hab
      subst hab
      simp only [pkIds, List.mem_flatMap, List.mem_cons, List.mem_nil_iff, or_false] at hb
      obtain ⟨q, hq, hbq⟩ := hb
      have := hp.1 q hq
      have := hids q (by simp [hq])
      simp only [List.mem_cons, List.mem_nil_iff, or_false] at ha
      rcases ha with rfl | rfl <;> rcases hbq with h | h <;> omega
    · simp only [List.map_cons]
      apply List.nodup_cons.mpr
      refine ⟨?_, h2⟩
      intro hm
      obtain ⟨q, hq, hqs⟩ := List.mem_map.mp hm
      have := hp.1 q hq
      have := hids q (by simp [hq])
      omega

theorem map_arm_pkFrames {i x : Nat} {P : List PK} (hx : ∀ g ∈ pkFrames i P, g.fid ≠ x) :
    (pkFrames i P).map (fun g => if g.fid = x then { g with armed := true } else g) = pkFrames i P := by
  conv => rhs; rw [← List.map_id (pkFrames i P)]
  apply List.map_congr_left
  intro g hg
  simp [hx g hg]

/-- **the periodic check with several watchers, at least one of them missing workers, after whatever
    `Arbiter.reap_processes` did** (`K O ws1 L1`: the kernel, the `Process` objects, the watcher records — same
    identities — and the log afterwards): every watcher that misses workers spawns its first missing one and parks its
    `spawn_processes` loop on its own timer; the complete ones are done; the check stays parked with the slot taken; as
    many timer firings remain as workers are missing after the reaping -/
theorem check_parks_K_gen (s : State) (hi : IdleK s) (hb : s.blocked = false)
    (K : Kernel) (O : List PObj) (ws1 : List Watcher) (L1 : List Obs)
    (hreap : arbReapProcesses (checkEntry s) = ((), { checkEntry s with k := K, objs := O, ws := ws1, log := L1 }))
    (hd : DatK { checkEntry s with k := K, objs := O, ws := ws1, log := L1 }) (huids : ws1.map (·.uid) = s.ws.map (·.uid))
    (hle : ∀ w ∈ ws1, w.pids.length ≤ w.np.toNat) (hmiss : ∃ w ∈ ws1, w.pids.length < w.np.toNat) :
    ∃ results P, ParkedK ws1.length s.nextId results P (step s .check) ∧ DatK (step s .check) ∧
      Acct [] P (step s .check) ∧ P ≠ [] ∧ toGo P (step s .check) = (ws1.map missing).sum ∧ Grow ws1 (step s .check).ws := by
  have hd0 := hd
  obtain ⟨_, hk, hn, hall⟩ := hd
  obtain ⟨hfr, hsl, htops, hrd, hslot, hls, hstp, hrst, hwat⟩ := hi
  obtain ⟨k, a, objs, ws, frames, sleepers, tops, ready, dv, i, log, blocked⟩ := s
  simp only at hb hfr hsl htops hrd hslot hls hstp hrst hwat huids
  subst hb hfr hsl htops hrd
  simp only [checkEntry] at hreap hd0 hk hn hall
  -- the watchers in `iter_watchers()` order
  have hperm := sortWatchers_perm ws1 true
  have hord_mem : ∀ w ∈ sortWatchers ws1 true, w ∈ ws1 := fun w hw => hperm.mem_iff.mp hw
  have hord_nd : ((sortWatchers ws1 true).map (·.uid)).Nodup := (hperm.map (·.uid)).nodup_iff.mpr hn
  have hord_len : (sortWatchers ws1 true).length = ws1.length := hperm.length_eq
  have hne : (sortWatchers ws1 true).map (fun w => Call.manageProcesses w.uid) ≠ [] := by
    obtain ⟨w, hw, _⟩ := hmiss
    have : w ∈ sortWatchers ws1 true := hperm.mem_iff.mpr hw
    intro h
    have h2 := congrArg List.length h
    simp only [List.length_map, List.length_nil] at h2
    have := List.length_pos_of_mem this
    omega
  -- the state in which the children of the gen.multi start
  let S2 : State := ⟨K, { a with slot := some "manage_watchers" }, O, ws1,
    [{ fid := i + 1, k := .manageWatchersTail false, parent := .top i },
     { fid := i + 2, k := .multi ws1.length [], parent := .frame (i + 1) 0 }], [],
    [{ tid := i, cbs := [.release] }], [], [], i + 3, L1, false⟩
  have hB2 : Building ws1.length i 0 [] [] S2 :=
    ⟨rfl, rfl, rfl, rfl, rfl, rfl, (fun r hr => by cases hr), Nat.le_refl _, (fun p hp => by cases hp), List.Pairwise.nil, rfl,
      hls, hstp, hrst⟩
  have hd2 : DatK S2 := ⟨rfl, hk, hn, hall⟩
  have hA2 : Acct ((sortWatchers ws1 true).map (·.uid)) [] S2 := by
    refine ⟨(fun p hp => by cases hp), (by simp), ?_, (fun p hp => by cases hp)⟩
    intro w hw hnt _
    exfalso
    exact hnt (List.mem_map_of_mem (hperm.mem_iff.mpr hw))
  obtain ⟨results, P, s', hloop, hB', hd', hA', hP', hgo, hgr, ha', _⟩ :=
    children_park 99997 ws1.length i (sortWatchers ws1 true) 0 [] [] S2 hB2 hd2 hA2 hord_nd
      (fun w hw => ⟨hord_mem w hw, hle w (hord_mem w hw)⟩) (by omega)
      (Or.inr (by obtain ⟨w, hw, hwl⟩ := hmiss; exact ⟨w, hperm.mem_iff.mpr hw, hwl⟩))
  have hpkne := pkFrames_fid_ne (i := i) (P := P) (fun p hp => ⟨(hB'.ids p hp).1, (hB'.ids p hp).2.1⟩)
  have hwat1 : ({ a with slot := some "manage_watchers" } : Arbiter).watchers = ws1.map (·.uid) := by
    show a.watchers = _
    rw [hwat, huids]
  -- the step
  have hop : stepOp .check (updK Kernel.beginStep (⟨k, a, objs, ws, [], [], [], [], dv, i, log, false⟩ : State)).2 =
      ((), (⟨s'.k, s'.a, s'.objs, s'.ws,
        { fid := i + 1, k := .manageWatchersTail false, parent := .top i, armed := true } ::
          { fid := i + 2, k := .multi ws1.length results, parent := .frame (i + 1) 0, armed := true } :: pkFrames i P,
        s'.sleepers, [{ tid := i, cbs := [.release, .watch], armed := true }], s'.ready, s'.doneVals, s'.nextId, s'.log,
        s'.blocked⟩ : State)) := by
    simp only [stepOp, bind, clearDone, modS, updK, runK]
    rw [syncCoroutine_free _ _ _ hrst hslot]
    simp only [fuelDefault]
    have e1 : (100000 : Nat) = 99999 + 1 := rfl
    rw [e1, exec_call_mk]
    simp only [runCall, List.nil_append]
    rw [manageWatchers_eq_K_gen (exec 99999) _ _ _ hstp hreap hd0 hwat1]
    rw [awaitMulti_ne _ _ hne]
    simp only [List.length_map, hord_len, List.nil_append]
    have hS2 : (⟨K, { a with slot := some "manage_watchers" }, O, ws1,
        [{ fid := i + 1, k := .manageWatchersTail false, parent := .top i },
         { fid := i + 1 + 1, k := .multi ws1.length [], parent := .frame (i + 1) 0 }],
        [], [{ tid := i, cbs := [.release] }], [], [], i + 1 + 2, L1, false⟩ : State) = S2 := rfl
    rw [hS2]
    erw [hloop]
    simp only [armFrame, armTop, addDoneCallback, modS, bind, getS, hB'.frames, hB'.tops, List.map_cons, List.map_nil,
      List.find?_cons, decide_true, Option.isSome_some, if_true, topAddCb]
    have h1 : ¬ i + 1 = i + 1 + 1 := by omega
    have h2 : ¬ i + 2 = i + 1 := by omega
    simp only [h1, h2, if_false, if_true, show i + 1 + 1 = i + 2 from rfl,
      map_arm_pkFrames (fun g hg => (hpkne g hg).1), map_arm_pkFrames (fun g hg => (hpkne g hg).2)]
    erw [if_pos (by simp [hB'.tops])]
    simp [modS]
  let F : State := ⟨s'.k, s'.a, s'.objs, s'.ws,
    { fid := i + 1, k := .manageWatchersTail false, parent := .top i, armed := true } ::
      { fid := i + 2, k := .multi ws1.length results, parent := .frame (i + 1) 0, armed := true } :: pkFrames i P,
    s'.sleepers, [{ tid := i, cbs := [.release, .watch], armed := true }], s'.ready, s'.doneVals, s'.nextId, s'.log,
    s'.blocked⟩
  have hstep : stepM .check (⟨k, a, objs, ws, [], [], [], [], dv, i, log, false⟩ : State) = ((), F) := by
    rw [stepM_eq _ _ rfl, hop]
    have hs : settle 100000 F = ((), F) := settle_nil 99999 F hB'.ready
    rw [stepTail_eq _ (by rw [hs]; show s'.a.loopStop = false; exact hB'.loopStop), hs]
  have hres : step (⟨k, a, objs, ws, [], [], [], [], dv, i, log, false⟩ : State) .check = F := by
    unfold step; rw [hstep]
  rw [hres]
  obtain ⟨hnF, hnS⟩ := pkIds_nodup_of_sorted P (fun p hp => ⟨(hB'.ids p hp).2.1, (hB'.ids p hp).2.2.1⟩) hB'.sorted
  have hgr' : Grow ws1 s'.ws := hgr
  have huid' : ∀ {x y : List Watcher}, Grow x y → y.map (·.uid) = x.map (·.uid) := by
    intro x y h
    induction h with
    | nil => rfl
    | cons w e _ ih => simp [ih]
  have hwat' : s'.a.watchers = s'.ws.map (·.uid) := by
    rw [ha']
    show a.watchers = _
    rw [hwat, ← huids]
    exact (huid' hgr').symm
  refine ⟨results, P, ⟨⟨pkFrames i P, rfl, List.Perm.refl _⟩, ?_, rfl, hB'.ready, hB'.count, hB'.units, ?_, hnF, hnS,
    hB'.slot, hB'.loopStop, hB'.stopping, hB'.restarting, hwat', trivial⟩, ?_, ?_, hP', ?_, hgr'⟩
  · show s'.sleepers.Perm _
    rw [hB'.sleepers]
  · intro p hp
    have := hB'.ids p hp
    show i + 2 < p.mt ∧ i + 2 < p.sl ∧ p.mt < s'.nextId ∧ p.sl < s'.nextId ∧ p.sid < s'.nextId
    omega
  · exact hd'.of_kernel hd'.2.1 rfl rfl rfl
  · exact ⟨hA'.parked, hA'.nodupU, hA'.full, hA'.notyet⟩
  · show toGo P F = _
    have : toGo P F = toGo P s' := rfl
    rw [this, hgo]
    simp [toGo, S2]

/-- **the periodic check with several watchers, at least one of them missing workers**: nothing to reap; every
    watcher that misses workers spawns its first missing one and parks its `spawn_processes` loop on its own timer;
    the complete ones are done; the check stays parked with the slot taken; as many timer firings remain as
    workers were missing -/
theorem check_parks_K (s : State) (hi : IdleK s) (hd : DatK s) (hle : ∀ w ∈ s.ws, w.pids.length ≤ w.np.toNat)
    (hmiss : ∃ w ∈ s.ws, w.pids.length < w.np.toNat) :
    ∃ results P, ParkedK s.ws.length s.nextId results P (step s .check) ∧ DatK (step s .check) ∧
      Acct [] P (step s .check) ∧ P ≠ [] ∧ toGo P (step s .check) = (s.ws.map missing).sum ∧ Grow s.ws (step s .check).ws := by
  obtain ⟨hb, hk, hn, hall⟩ := hd
  have hreap : arbReapProcesses (checkEntry s) =
      ((), { checkEntry s with k := s.k.beginStep.bump 1, objs := s.objs, ws := s.ws, log := s.log }) := by
    rw [arbReapProcesses_still (checkEntry s) hb hk.beginStep]
    rfl
  obtain ⟨results, P, h1, h2, h3, h4, h5, h6⟩ := check_parks_K_gen s hi hb (s.k.beginStep.bump 1) s.objs s.ws s.log hreap
    ⟨hb, hk.beginStep.bump 1, hn, hall⟩ rfl hle hmiss
  exact ⟨results, P, h1, h2, h3, h4, h5, h6⟩

/-! ## Part 4: the check when no watcher misses a worker -/

/-- a `gen.multi` whose children all returned `None` delivers a list, not an exception -/
theorem multiResult_units (m : Nat) (results : List (Nat × Val)) (h : ∀ r ∈ results, r.2 = Val.unit) :
    ∃ vs, multiResult m results = .list vs := by
  unfold multiResult
  simp only
  have hnone : ((List.range m).map fun i => (results.lookup i).getD .unit).find? isExc = none := by
    apply List.find?_eq_none.mpr
    intro v hv
    obtain ⟨i, _, rfl⟩ := List.mem_map.mp hv
    cases hl : results.lookup i with
    | none => simp [isExc]
    | some x =>
      have := h _ (lookup_mem hl)
      simp only at this
      simp [this, isExc]
  rw [hnone]
  exact ⟨_, rfl⟩

/-- **the children of `manage_watchers`' `gen.multi`, every watcher complete**: every `manage_processes` returns at
    once; the last result completes the `gen.multi`, `manage_watchers` ends, its future completes and releases the slot -/
theorem children_full (n K i : Nat) : ∀ (us : List Watcher) (idx : Nat) (results : List (Nat × Val)) (s : State),
    Building K i idx results [] s → DatK s → (∀ w ∈ us, w ∈ s.ws ∧ w.pids.length = w.np.toNat) → idx + us.length = K →
    us ≠ [] →
    ∃ c, (forIn (us.map fun w => Call.manageProcesses w.uid) idx (multiBody (exec (n + 4)) (i + 2)) : M Nat) s =
      (K, { s with k := s.k.bump c, a := { s.a with slot := none }, frames := [], tops := [],
                   doneVals := [(i, Val.unit)] }) := by
  intro us
  induction us with
  | nil => intro idx results s _ _ _ _ hne; exact absurd rfl hne
  | cons w0 rest ih =>
    intro idx results s hB hd hus hidx _
    obtain ⟨hw0, hfull⟩ := hus w0 (by simp)
    have hd0 := hd
    obtain ⟨hb, hk, hn, hall⟩ := hd
    have hcount : results.length = idx := by have := hB.count; simpa using this
    rw [List.map_cons, List.forIn_cons]
    simp only [bind, multiBody]
    rw [exec_call (n + 3) _ _ s hb]
    simp only [runCall]
    rw [manageProcesses_K_full (exec (n + 3)) w0 _ s hd0 hw0 hfull]
    by_cases hr : rest = []
    · -- the last one: everything unwinds
      subst hr
      have hK : K = idx + 1 := by simpa using hidx.symm
      obtain ⟨vs, hvs⟩ := multiResult_units K (results ++ [(idx, Val.unit)]) (by
        intro r hr
        rcases List.mem_append.mp hr with hr | hr
        · exact hB.units r hr
        · simp only [List.mem_cons, List.mem_nil_iff, or_false] at hr
          subst hr; rfl)
      refine ⟨2 * w0.pids.length, ?_⟩
      have hge : K ≤ results.length + 1 := by omega
      have hfr := hB.frames
      have hps : pkFrames i ([] : List PK) = [] := rfl
      rw [hps] at hfr
      obtain ⟨k, a, objs, ws, frames, sleepers, tops, ready, dv, nid, log, blocked⟩ := s
      have htops := hB.tops
      have hready := hB.ready
      have hdv := hB.doneVals
      simp only at hfr htops hready hdv hb
      subst hfr htops hready hdv hb
      simp only [State.bump, deliver, bind, getS, List.find?_cons]
      simp [removeFrame, modS, hge, hvs]
      rw [exec_resume_mk]
      simp [runResume, deliver, bind, getS, removeFrame, modS]
      rw [exec_resume_mk]
      simp [runResume, manageWatchersTail, deliver, deliverTop, finishTop, deliverCbs, runTopCb, setSlot, bind, getS,
        getA, modS, modA, pure]
      omega
    · -- not the last one: recorded
      have hnot : results.length + 1 < K := by
        have := List.length_pos_iff.mpr hr
        simp only [List.length_cons] at hidx
        omega
      rw [deliver_record_B (exec (n + 3)) K i idx results [] (s.bump (2 * w0.pids.length)) hB.frames
        (fun p hp => by cases hp) hnot]
      simp only
      let s1 : State := { s.bump (2 * w0.pids.length) with frames :=
        { fid := i + 1, k := .manageWatchersTail false, parent := .top i } ::
        { fid := i + 2, k := .multi K (results ++ [(idx, Val.unit)]), parent := .frame (i + 1) 0 } :: pkFrames i [] }
      have hB1 : Building K i (idx + 1) (results ++ [(idx, Val.unit)]) [] s1 := by
        refine ⟨rfl, hB.sleepers, hB.tops, hB.ready, hB.doneVals, ?_, ?_, hB.nid, hB.ids, hB.sorted, hB.slot, hB.loopStop,
          hB.stopping, hB.restarting⟩
        · simp only [List.length_append, List.length_cons, List.length_nil]; omega
        · intro r hr
          rcases List.mem_append.mp hr with hr | hr
          · exact hB.units r hr
          · simp only [List.mem_cons, List.mem_nil_iff, or_false] at hr
            subst hr; rfl
      have hd1 : DatK s1 := hd0.of_kernel (hk.bump _) rfl rfl rfl
      obtain ⟨c, hc⟩ := ih (idx + 1) (results ++ [(idx, Val.unit)]) s1 hB1 hd1 (fun w hw => hus w (by simp [hw]))
        (by simp at hidx ⊢; omega) hr
      refine ⟨2 * w0.pids.length + c, ?_⟩
      rw [hc]
      simp [s1, State.bump, Kernel.bump_bump]

/-- **the periodic check with several watchers, none of them missing a worker, after whatever
    `Arbiter.reap_processes` did**: it completes within the step; besides what the reaping changed only the kernel's
    call counter moves -/
theorem check_idle_K_gen (s : State) (hi : IdleK s) (hb : s.blocked = false)
    (K : Kernel) (O : List PObj) (ws1 : List Watcher) (L1 : List Obs)
    (hreap : arbReapProcesses (checkEntry s) = ((), { checkEntry s with k := K, objs := O, ws := ws1, log := L1 }))
    (hd : DatK { checkEntry s with k := K, objs := O, ws := ws1, log := L1 }) (huids : ws1.map (·.uid) = s.ws.map (·.uid))
    (hfull : ∀ w ∈ ws1, w.pids.length = w.np.toNat) (hne : ws1 ≠ []) :
    IdleK (step s .check) ∧ DatK (step s .check) ∧ (step s .check).ws = ws1 ∧ (step s .check).log = L1 := by
  have hd0 := hd
  obtain ⟨_, hk, hn, hall⟩ := hd
  obtain ⟨hfr, hsl, htops, hrd, hslot, hls, hstp, hrst, hwat⟩ := hi
  obtain ⟨k, a, objs, ws, frames, sleepers, tops, ready, dv, i, log, blocked⟩ := s
  simp only at hb hfr hsl htops hrd hslot hls hstp hrst hwat huids
  subst hb hfr hsl htops hrd
  simp only [checkEntry] at hreap hd0 hk hn hall
  have hperm := sortWatchers_perm ws1 true
  have hord_mem : ∀ w ∈ sortWatchers ws1 true, w ∈ ws1 := fun w hw => hperm.mem_iff.mp hw
  have hord_len : (sortWatchers ws1 true).length = ws1.length := hperm.length_eq
  have hordne : sortWatchers ws1 true ≠ [] := by
    intro h
    have := congrArg List.length h
    rw [hord_len] at this
    exact hne (List.length_eq_zero_iff.mp this)
  have hcne : (sortWatchers ws1 true).map (fun w => Call.manageProcesses w.uid) ≠ [] := by
    intro h
    exact hordne (List.map_eq_nil_iff.mp h)
  let S2 : State := ⟨K, { a with slot := some "manage_watchers" }, O, ws1,
    [{ fid := i + 1, k := .manageWatchersTail false, parent := .top i },
     { fid := i + 2, k := .multi ws1.length [], parent := .frame (i + 1) 0 }], [],
    [{ tid := i, cbs := [.release] }], [], [], i + 3, L1, false⟩
  have hB2 : Building ws1.length i 0 [] [] S2 :=
    ⟨rfl, rfl, rfl, rfl, rfl, rfl, (fun r hr => by cases hr), Nat.le_refl _, (fun p hp => by cases hp), List.Pairwise.nil, rfl,
      hls, hstp, hrst⟩
  have hd2 : DatK S2 := ⟨rfl, hk, hn, hall⟩
  have hwat1 : ({ a with slot := some "manage_watchers" } : Arbiter).watchers = ws1.map (·.uid) := by
    show a.watchers = _
    rw [hwat, huids]
  obtain ⟨c, hloop⟩ := children_full 99995 ws1.length i (sortWatchers ws1 true) 0 [] S2 hB2 hd2
    (fun w hw => ⟨hord_mem w hw, hfull w (hord_mem w hw)⟩) (by omega) hordne
  have hstep : stepM .check (⟨k, a, objs, ws, [], [], [], [], dv, i, log, false⟩ : State) =
      ((), ⟨K.bump c, { a with slot := none }, O, ws1, [], [], [], [], [(i, Val.unit)], i + 3, L1, false⟩) := by
    rw [stepM_eq _ _ rfl]
    have hop : stepOp .check (updK Kernel.beginStep (⟨k, a, objs, ws, [], [], [], [], dv, i, log, false⟩ : State)).2 =
        ((), ⟨K.bump c, { a with slot := none }, O, ws1, [], [], [],
          [.topCb .watch .unit], [(i, Val.unit)], i + 3, L1, false⟩) := by
      simp only [stepOp, bind, clearDone, modS, updK, runK]
      rw [syncCoroutine_free _ _ _ hrst hslot]
      simp only [fuelDefault]
      have e1 : (100000 : Nat) = 99999 + 1 := rfl
      rw [e1, exec_call_mk]
      simp only [runCall, List.nil_append]
      rw [manageWatchers_eq_K_gen (exec 99999) _ _ _ hstp hreap hd0 hwat1]
      rw [awaitMulti_ne _ _ hcne]
      simp only [List.length_map, hord_len, List.nil_append]
      have hS2 : (⟨K, { a with slot := some "manage_watchers" }, O, ws1,
          [{ fid := i + 1, k := .manageWatchersTail false, parent := .top i },
           { fid := i + 1 + 1, k := .multi ws1.length [], parent := .frame (i + 1) 0 }],
          [], [{ tid := i, cbs := [.release] }], [], [], i + 1 + 2, L1, false⟩ : State) = S2 := rfl
      rw [hS2]
      erw [hloop]
      simp [S2, armFrame, armTop, addDoneCallback, modS, bind, getS, enqueue]
    rw [hop]
    have e1 : (100000 : Nat) = 99999 + 1 := rfl
    have e2 : (99999 : Nat) = 99998 + 1 := rfl
    have hs : settle 100000 (⟨K.bump c, { a with slot := none }, O, ws1, [], [], [],
          [.topCb .watch .unit], [(i, Val.unit)], i + 3, L1, false⟩ : State) =
        ((), ⟨K.bump c, { a with slot := none }, O, ws1, [], [], [], [], [(i, Val.unit)], i + 3, L1, false⟩) := by
      rw [e1, settle_cons_mk]
      simp [runReady1, runTopCb, pure]
      rw [e2]
      exact settle_nil _ _ rfl
    rw [stepTail_eq _ (by rw [hs]; exact hls), hs]
  have hres : step (⟨k, a, objs, ws, [], [], [], [], dv, i, log, false⟩ : State) .check =
      ⟨K.bump c, { a with slot := none }, O, ws1, [], [], [], [], [(i, Val.unit)], i + 3, L1, false⟩ := by
    unfold step; rw [hstep]
  rw [hres]
  exact ⟨⟨rfl, rfl, rfl, rfl, rfl, hls, hstp, hrst, by show a.watchers = _; rw [hwat, huids]⟩, ⟨rfl, hk.bump c, hn, hall⟩, rfl, rfl⟩

/-- **the periodic check with several watchers, none of them missing a worker**: it completes within the step
    and changes nothing but the kernel's call counter -/
theorem check_idle_K (s : State) (hi : IdleK s) (hd : DatK s) (hfull : ∀ w ∈ s.ws, w.pids.length = w.np.toNat)
    (hne : s.ws ≠ []) :
    IdleK (step s .check) ∧ DatK (step s .check) ∧ (step s .check).ws = s.ws ∧ (step s .check).log = s.log := by
  obtain ⟨hb, hk, hn, hall⟩ := hd
  have hreap : arbReapProcesses (checkEntry s) =
      ((), { checkEntry s with k := s.k.beginStep.bump 1, objs := s.objs, ws := s.ws, log := s.log }) := by
    rw [arbReapProcesses_still (checkEntry s) hb hk.beginStep]
    rfl
  exact check_idle_K_gen s hi hb (s.k.beginStep.bump 1) s.objs s.ws s.log hreap ⟨hb, hk.beginStep.bump 1, hn, hall⟩ rfl hfull hne

/-! ## Part 5: a timer fires — general lemmas -/

theorem earliest_memK_aux (l : List Sleeper) : ∀ (acc : Option Sleeper) (sl : Sleeper),
    l.foldl (fun acc s => match acc with
      | none => some s
      | some b => if s.deadline < b.deadline || (s.deadline = b.deadline && s.sid < b.sid) then some s else some b) acc = some sl →
    sl ∈ l ∨ acc = some sl := by
  induction l with
  | nil => intro acc sl h; exact Or.inr h
  | cons x xs ih =>
    intro acc sl h
    simp only [List.foldl_cons] at h
    rcases ih _ sl h with h1 | h1
    · exact Or.inl (List.mem_cons_of_mem _ h1)
    · cases acc with
      | none => simp only at h1; exact Or.inl (by simp [Option.some.inj h1])
      | some b =>
        simp only at h1
        split at h1
        · exact Or.inl (by simp [Option.some.inj h1])
        · exact Or.inr h1

theorem earliest_memK {l : List Sleeper} {sl : Sleeper} (h : earliest l = some sl) : sl ∈ l := by
  rcases earliest_memK_aux l none sl h with h1 | h1
  · exact h1
  · cases h1

theorem earliest_some_of_ne {l : List Sleeper} (h : l ≠ []) : ∃ sl, earliest l = some sl := by
  cases l with
  | nil => exact absurd rfl h
  | cons x xs =>
    unfold earliest
    simp only [List.foldl_cons]
    have key : ∀ (ys : List Sleeper) (b : Sleeper), ∃ sl, ys.foldl (fun acc s => match acc with
        | none => some s
        | some b => if s.deadline < b.deadline || (s.deadline = b.deadline && s.sid < b.sid) then some s else some b) (some b) = some sl := by
      intro ys
      induction ys with
      | nil => intro b; exact ⟨b, rfl⟩
      | cons y ys ih =>
        intro b
        simp only [List.foldl_cons]
        split
        · exact ih y
        · exact ih b
    exact key xs x

theorem find_fid_of_mem {l : List Frame} (hn : (l.map (·.fid)).Nodup) {g : Frame} (hg : g ∈ l) :
    l.find? (fun x => decide (x.fid = g.fid)) = some g := by
  induction l with
  | nil => cases hg
  | cons x xs ih =>
    simp only [List.map_cons, List.nodup_cons] at hn
    rcases List.mem_cons.mp hg with rfl | hg'
    · simp
    · have hne : ¬ x.fid = g.fid := fun he => hn.1 (he ▸ List.mem_map_of_mem hg')
      simp only [List.find?_cons, hne, decide_false]
      exact ih hn.2 hg'

/-- a result arrives for an armed, suspended coroutine that is not a `gen.multi`: its frame is released, the
    continuation goes on the ready queue -/
theorem deliver_armed_of (rec : Rec) (fid slot : Nat) (v : Val) (s : State) (f : Frame)
    (hf : s.frames.find? (fun g => decide (g.fid = fid)) = some f) (ha : f.armed = true) (hk : ∀ n r, f.k ≠ .multi n r) :
    deliver rec (.frame fid slot) v s =
      ((), { s with frames := s.frames.filter (fun g => decide (g.fid ≠ fid)), ready := s.ready ++ [.resume f.k v f.parent] }) := by
  unfold deliver
  simp only [bind, getS, hf]
  cases hfk : f.k <;> first | (exfalso; exact hk _ _ hfk) | simp [removeFrame, enqueue, modS, ha]

/-- **the stimulus `wake`**: the earliest timer leaves the list, the clock jumps to its deadline (nothing dies in a
    still kernel), the coroutine it belongs to is resumed through the ready queue -/
theorem wake_op_K (s : State) (sl : Sleeper) (fid : Nat) (f : Frame) (hk : s.k.Still)
    (he : earliest s.sleepers = some sl) (hw : sl.waiter = .frame fid 0)
    (hf : s.frames.find? (fun g => decide (g.fid = fid)) = some f) (ha : f.armed = true) (hnm : ∀ n r, f.k ≠ .multi n r) :
    (stepOp .wake (updK Kernel.beginStep s).2).2 =
      { s with k := { s.k.beginStep with now := max s.k.beginStep.now sl.deadline },
               sleepers := s.sleepers.filter (fun x => decide (x.sid ≠ sl.sid)),
               frames := s.frames.filter (fun g => decide (g.fid ≠ fid)),
               ready := s.ready ++ [.resume f.k .unit f.parent] } := by
  simp only [stepOp, bind, getS, updK, runK, he, fireSleeper, modS, hw, hk.beginStep.setNow]
  have hd := deliver_armed_of (exec fuelDefault) fid 0 .unit
    { s with k := { s.k.beginStep with now := max s.k.beginStep.now sl.deadline },
             sleepers := s.sleepers.filter (fun x => decide (x.sid ≠ sl.sid)) } f hf ha hnm
  rw [hd]

theorem pkFrames_split (i : Nat) (pre post : List PK) (p : PK) :
    pkFrames i (pre ++ p :: post) = pkFrames i pre ++ ([p.mtFrame i, p.slFrame] ++ pkFrames i post) := by
  simp [pkFrames]

theorem pkIds_split (pre post : List PK) (p : PK) : pkIds (pre ++ p :: post) = pkIds pre ++ ([p.mt, p.sl] ++ pkIds post) := by
  simp [pkIds]

theorem pkFrames_fids (i : Nat) (P : List PK) : (pkFrames i P).map (·.fid) = pkIds P := by
  induction P with
  | nil => rfl
  | cons p r ih =>
    have h1 : pkFrames i (p :: r) = [p.mtFrame i, p.slFrame] ++ pkFrames i r := rfl
    have h2 : pkIds (p :: r) = [p.mt, p.sl] ++ pkIds r := rfl
    rw [h1, h2, List.map_append, ih]
    rfl

theorem mem_pkIds {P : List PK} {x : Nat} : x ∈ pkIds P ↔ ∃ q ∈ P, x = q.mt ∨ x = q.sl := by
  simp [pkIds]

/-- what pairwise different frame ids say about one parked loop among the others -/
theorem pkIds_nodup_split {pre post : List PK} {p : PK} (h : (pkIds (pre ++ p :: post)).Nodup) :
    p.mt ≠ p.sl ∧ (∀ q ∈ pre ++ post, q.mt ≠ p.mt ∧ q.mt ≠ p.sl ∧ q.sl ≠ p.mt ∧ q.sl ≠ p.sl) ∧ (pkIds (pre ++ post)).Nodup := by
  rw [pkIds_split] at h
  have h1 := List.nodup_append.mp h
  have h2 := List.nodup_append.mp h1.2.1
  have hmid : ([p.mt, p.sl] : List Nat).Nodup := h2.1
  refine ⟨by simpa using hmid, ?_, ?_⟩
  · intro q hq
    rcases List.mem_append.mp hq with hq | hq
    · have hm : q.mt ∈ pkIds pre := mem_pkIds.mpr ⟨q, hq, Or.inl rfl⟩
      have hs : q.sl ∈ pkIds pre := mem_pkIds.mpr ⟨q, hq, Or.inr rfl⟩
      have a1 := h1.2.2 q.mt hm p.mt (by simp)
      have a2 := h1.2.2 q.mt hm p.sl (by simp)
      have a3 := h1.2.2 q.sl hs p.mt (by simp)
      have a4 := h1.2.2 q.sl hs p.sl (by simp)
      exact ⟨a1, a2, a3, a4⟩
    · have hm : q.mt ∈ pkIds post := mem_pkIds.mpr ⟨q, hq, Or.inl rfl⟩
      have hs : q.sl ∈ pkIds post := mem_pkIds.mpr ⟨q, hq, Or.inr rfl⟩
      have a1 := h2.2.2 p.mt (by simp) q.mt hm
      have a2 := h2.2.2 p.sl (by simp) q.mt hm
      have a3 := h2.2.2 p.mt (by simp) q.sl hs
      have a4 := h2.2.2 p.sl (by simp) q.sl hs
      exact ⟨fun e => a1 e.symm, fun e => a2 e.symm, fun e => a3 e.symm, fun e => a4 e.symm⟩
  · have : pkIds (pre ++ post) = pkIds pre ++ pkIds post := by simp [pkIds]
    rw [this]
    apply List.nodup_append.mpr
    refine ⟨h1.1, h2.2.1, ?_⟩
    intro a ha b hb
    exact h1.2.2 a ha b (by simp [hb])

theorem filter_pkFrames_id {i x : Nat} {Q : List PK} (h : ∀ q ∈ Q, q.mt ≠ x ∧ q.sl ≠ x) :
    (pkFrames i Q).filter (fun g => decide (g.fid ≠ x)) = pkFrames i Q := by
  apply List.filter_eq_self.mpr
  intro g hg
  obtain ⟨q, hq, hgq | hgq⟩ := mem_pkFrames hg
  · have := (h q hq).1; rw [hgq]; simp [PK.mtFrame, this]
  · have := (h q hq).2; rw [hgq]; simp [PK.slFrame, this]

/-- the frames after the loop of `p` has been resumed and parked again as `p'` -/
theorem rest_respawn (i : Nat) (pre post : List PK) (p p' : PK) (rest : List Frame)
    (hperm : rest.Perm (pkFrames i (pre ++ p :: post))) (hnd : (pkIds (pre ++ p :: post)).Nodup)
    (hmt : p'.mtFrame i = p.mtFrame i) :
    (rest.filter (fun g => decide (g.fid ≠ p.sl)) ++ [p'.slFrame]).Perm (pkFrames i (pre ++ p' :: post)) := by
  obtain ⟨hne, hoth, _⟩ := pkIds_nodup_split hnd
  have h1 := hperm.filter (fun g => decide (g.fid ≠ p.sl))
  rw [pkFrames_split, List.filter_append, List.filter_append,
    filter_pkFrames_id (fun q hq => ⟨(hoth q (by simp [hq])).2.1, (hoth q (by simp [hq])).2.2.2⟩),
    filter_pkFrames_id (fun q hq => ⟨(hoth q (by simp [hq])).2.1, (hoth q (by simp [hq])).2.2.2⟩)] at h1
  have hmid : [p.mtFrame i, p.slFrame].filter (fun g => decide (g.fid ≠ p.sl)) = [p.mtFrame i] := by
    simp [PK.mtFrame, PK.slFrame, hne]
  rw [hmid] at h1
  rw [pkFrames_split, hmt]
  refine (h1.append_right _).trans ?_
  rw [List.append_assoc]
  apply List.Perm.append_left
  simp only [List.cons_append, List.nil_append]
  exact List.Perm.cons _ (List.perm_append_singleton _ _)

/-- the frames after the loop of `p` and the continuation of its `manage_processes` have been released -/
theorem rest_finish (i : Nat) (pre post : List PK) (p : PK) (rest : List Frame)
    (hperm : rest.Perm (pkFrames i (pre ++ p :: post))) (hnd : (pkIds (pre ++ p :: post)).Nodup) :
    ((rest.filter (fun g => decide (g.fid ≠ p.sl))).filter (fun g => decide (g.fid ≠ p.mt))).Perm (pkFrames i (pre ++ post)) := by
  obtain ⟨hne, hoth, _⟩ := pkIds_nodup_split hnd
  have h1 := (hperm.filter (fun g => decide (g.fid ≠ p.sl))).filter (fun g => decide (g.fid ≠ p.mt))
  rw [pkFrames_split, List.filter_append, List.filter_append, List.filter_append, List.filter_append,
    filter_pkFrames_id (fun q hq => ⟨(hoth q (by simp [hq])).2.1, (hoth q (by simp [hq])).2.2.2⟩),
    filter_pkFrames_id (fun q hq => ⟨(hoth q (by simp [hq])).2.1, (hoth q (by simp [hq])).2.2.2⟩),
    filter_pkFrames_id (fun q hq => ⟨(hoth q (by simp [hq])).1, (hoth q (by simp [hq])).2.2.1⟩),
    filter_pkFrames_id (fun q hq => ⟨(hoth q (by simp [hq])).1, (hoth q (by simp [hq])).2.2.1⟩)] at h1
  have hmid : ([p.mtFrame i, p.slFrame].filter (fun g => decide (g.fid ≠ p.sl))).filter (fun g => decide (g.fid ≠ p.mt)) = [] := by
    simp [PK.mtFrame, PK.slFrame, hne]
  rw [hmid] at h1
  have : pkFrames i (pre ++ post) = pkFrames i pre ++ pkFrames i post := by simp [pkFrames]
  rw [this]
  simpa using h1

theorem timers_split (pre post : List PK) (p : PK) :
    (pre ++ p :: post).map PK.timer = pre.map PK.timer ++ (p.timer :: post.map PK.timer) := by simp

theorem sids_nodup_split {pre post : List PK} {p : PK} (h : ((pre ++ p :: post).map (·.sid)).Nodup) :
    (∀ q ∈ pre ++ post, q.sid ≠ p.sid) ∧ ((pre ++ post).map (·.sid)).Nodup := by
  rw [List.map_append, List.map_cons] at h
  have h1 := List.nodup_append.mp h
  have h2 := List.nodup_cons.mp h1.2.1
  refine ⟨?_, ?_⟩
  · intro q hq
    rcases List.mem_append.mp hq with hq | hq
    · exact h1.2.2 q.sid (List.mem_map_of_mem hq) p.sid (by simp)
    · intro he
      exact h2.1 (he ▸ List.mem_map_of_mem hq)
  · rw [List.map_append]
    apply List.nodup_append.mpr
    refine ⟨h1.1, h2.2, ?_⟩
    intro a ha b hb
    exact h1.2.2 a ha b (by simp [hb])

/-- the timers after the timer of `p` fired -/
theorem timers_fired (pre post : List PK) (p : PK) (sls : List Sleeper)
    (hperm : sls.Perm ((pre ++ p :: post).map PK.timer)) (hnd : ((pre ++ p :: post).map (·.sid)).Nodup) :
    (sls.filter (fun x => decide (x.sid ≠ p.timer.sid))).Perm ((pre ++ post).map PK.timer) := by
  obtain ⟨hoth, _⟩ := sids_nodup_split hnd
  have h1 := hperm.filter (fun x => decide (x.sid ≠ p.timer.sid))
  rw [timers_split, List.filter_append, List.filter_cons] at h1
  have hself : decide (p.timer.sid ≠ p.timer.sid) = false := by simp
  have hpre : (pre.map PK.timer).filter (fun x => decide (x.sid ≠ p.timer.sid)) = pre.map PK.timer := by
    apply List.filter_eq_self.mpr
    intro x hx
    obtain ⟨q, hq, rfl⟩ := List.mem_map.mp hx
    have := hoth q (by simp [hq])
    simp [PK.timer, this]
  have hpost : (post.map PK.timer).filter (fun x => decide (x.sid ≠ p.timer.sid)) = post.map PK.timer := by
    apply List.filter_eq_self.mpr
    intro x hx
    obtain ⟨q, hq, rfl⟩ := List.mem_map.mp hx
    have := hoth q (by simp [hq])
    simp [PK.timer, this]
  rw [hself, hpre, hpost] at h1
  simpa using h1

/-- … and after `p` parked again as `p'` -/
theorem timers_reparked (pre post : List PK) (p p' : PK) (sls : List Sleeper)
    (hperm : sls.Perm ((pre ++ p :: post).map PK.timer)) (hnd : ((pre ++ p :: post).map (·.sid)).Nodup) :
    (sls.filter (fun x => decide (x.sid ≠ p.timer.sid)) ++ [p'.timer]).Perm ((pre ++ p' :: post).map PK.timer) := by
  have h1 := timers_fired pre post p sls hperm hnd
  rw [timers_split]
  refine (h1.append_right _).trans ?_
  rw [List.map_append, List.append_assoc]
  apply List.Perm.append_left
  exact List.perm_append_singleton _ _

/-! ## Part 6: a timer of a parked loop fires -/

theorem ParkedK.find_sl {K i : Nat} {results : List (Nat × Val)} {P : List PK} {s : State} (h : ParkedK K i results P s)
    {p : PK} (hp : p ∈ P) : s.frames.find? (fun g => decide (g.fid = p.sl)) = some p.slFrame := by
  obtain ⟨rest, hfr, hperm⟩ := h.frames
  have hids := h.ids p hp
  have hmem : p.slFrame ∈ rest := hperm.mem_iff.mpr (by
    simp only [pkFrames, List.mem_flatMap, List.mem_cons, List.mem_nil_iff, or_false]
    exact ⟨p, hp, Or.inr rfl⟩)
  have hnd : (rest.map (·.fid)).Nodup := by
    have := (hperm.map (·.fid)).nodup_iff.mpr (by rw [pkFrames_fids]; exact h.nodupF)
    exact this
  have h1 : ¬ i + 1 = p.sl := by omega
  have h2 : ¬ i + 2 = p.sl := by omega
  rw [hfr]
  simp only [List.find?_cons, h1, h2, decide_false]
  exact find_fid_of_mem hnd hmem

theorem ParkedK.find_mt {K i : Nat} {results : List (Nat × Val)} {P : List PK} {s : State} (h : ParkedK K i results P s)
    {p : PK} (hp : p ∈ P) : s.frames.find? (fun g => decide (g.fid = p.mt)) = some (p.mtFrame i) := by
  obtain ⟨rest, hfr, hperm⟩ := h.frames
  have hids := h.ids p hp
  have hmem : p.mtFrame i ∈ rest := hperm.mem_iff.mpr (by
    simp only [pkFrames, List.mem_flatMap, List.mem_cons, List.mem_nil_iff, or_false]
    exact ⟨p, hp, Or.inl rfl⟩)
  have hnd : (rest.map (·.fid)).Nodup := by
    have := (hperm.map (·.fid)).nodup_iff.mpr (by rw [pkFrames_fids]; exact h.nodupF)
    exact this
  have h1 : ¬ i + 1 = p.mt := by omega
  have h2 : ¬ i + 2 = p.mt := by omega
  rw [hfr]
  simp only [List.find?_cons, h1, h2, decide_false]
  exact find_fid_of_mem hnd hmem

theorem ParkedK.nid {K i : Nat} {results : List (Nat × Val)} {P : List PK} {s : State} (h : ParkedK K i results P s)
    (hP : P ≠ []) : i + 3 < s.nextId := by
  obtain ⟨p, hp⟩ := List.exists_mem_of_ne_nil P hP
  have := h.ids p hp
  omega

theorem ParkedK.fresh {K i : Nat} {results : List (Nat × Val)} {P : List PK} {s : State} (h : ParkedK K i results P s)
    (hP : P ≠ []) : ∀ g ∈ s.frames, g.fid < s.nextId := by
  obtain ⟨rest, hfr, hperm⟩ := h.frames
  have hn := h.nid hP
  intro g hg
  rw [hfr] at hg
  simp only [List.mem_cons] at hg
  rcases hg with rfl | rfl | hg
  · show i + 1 < _; omega
  · show i + 2 < _; omega
  · obtain ⟨q, hq, hgq | hgq⟩ := mem_pkFrames (hperm.mem_iff.mp hg)
    · have := h.ids q hq; rw [hgq]; show q.mt < _; omega
    · have := h.ids q hq; rw [hgq]; show q.sl < _; omega

/-- **a timer of a parked loop fires while its watcher still misses workers**: that watcher gets one more worker and
    its loop parks again on a fresh timer; the other watchers, their loops and timers are untouched -/
theorem wake_spawn_K (K i : Nat) (results : List (Nat × Val)) (pre post : List PK) (p : PK) (r : Nat) (s : State)
    (hP : ParkedK K i results (pre ++ p :: post) s) (hd : DatK s) (hA : Acct [] (pre ++ p :: post) s)
    (he : earliest s.sleepers = some p.timer) (hr : p.rem = r + 1) :
    ∃ p', ParkedK K i results (pre ++ p' :: post) (step s .wake) ∧ DatK (step s .wake) ∧
      Acct [] (pre ++ p' :: post) (step s .wake) ∧
      toGo (pre ++ p' :: post) (step s .wake) + 1 = toGo (pre ++ p :: post) s ∧ Grow s.ws (step s .wake).ws := by
  have hpm : p ∈ pre ++ p :: post := by simp
  have hPne : pre ++ p :: post ≠ [] := by simp
  have hd0 := hd
  obtain ⟨hb, hk, hn, hall⟩ := hd
  obtain ⟨w, hw, hwu, hwl⟩ := hA.parked p hpm
  obtain ⟨rest, hfr, hperm⟩ := hP.frames
  have hidp := hP.ids p hpm
  have hnid := hP.nid hPne
  -- the stimulus
  have hop := wake_op_K s p.timer p.sl p.slFrame hk he rfl (hP.find_sl hpm) rfl (by intro n r h; cases h)
  -- the state in which the loop body runs again
  let S1 : State := { s with k := { s.k.beginStep with now := max s.k.beginStep.now p.timer.deadline },
                             sleepers := s.sleepers.filter (fun x => decide (x.sid ≠ p.timer.sid)),
                             frames := s.frames.filter (fun g => decide (g.fid ≠ p.sl)) }
  have hd1 : DatK S1 := hd0.of_kernel (hk.beginStep.setNow_still _) rfl rfl rfl
  have hfresh1 : ∀ g ∈ S1.frames, g.fid ≠ S1.nextId := by
    intro g hg
    have : g ∈ s.frames := (List.mem_filter.mp hg).1
    have := hP.fresh hPne g this
    show g.fid ≠ s.nextId
    omega
  have hlt : w.pids.length < w.np.toNat := by omega
  obtain ⟨S2, dl, hloop, hd2, hws2, hf2, hsl2, hn2, ht2, hr2, ha2, hdv2, _⟩ :=
    spawnLoop_K (exec 99999) w r (.frame p.mt 0) S1 hd1 hw hlt hfresh1
  -- the step
  have hstep : stepM .wake s = ((), S2) := by
    rw [stepM_eq _ _ hb, hop]
    have hrd : ({ S1 with ready := s.ready ++ [Ready.resume p.slFrame.k Val.unit p.slFrame.parent] } : State).ready =
        Ready.resume (.spawnLoop w.uid (r + 1)) .unit (.frame p.mt 0) :: [] := by
      show s.ready ++ _ = _
      rw [hP.ready, hwu]
      simp [PK.slFrame, hr]
    have hset : settle 100000 { S1 with ready := s.ready ++ [Ready.resume p.slFrame.k Val.unit p.slFrame.parent] } = ((), S2) := by
      have e1 : (100000 : Nat) = 99999 + 1 := rfl
      have e2 : (99999 : Nat) = 99998 + 1 := rfl
      rw [e1, settle_cons 99999 ({ S1 with ready := s.ready ++ [Ready.resume p.slFrame.k Val.unit p.slFrame.parent] } : State)
        _ [] hb hrd]
      simp only [runReady1]
      have hS1' : ({ ({ S1 with ready := s.ready ++ [Ready.resume p.slFrame.k Val.unit p.slFrame.parent] } : State) with ready := [] } : State) = S1 := by
        show ({ S1 with ready := [] } : State) = S1
        have : S1.ready = [] := hP.ready
        cases hS : S1
        simp_all
      rw [hS1', e1, exec_resume 99999 _ _ _ S1 hb]
      simp only [runResume]
      rw [hloop, e2]
      exact settle_nil 99998 S2 (by rw [hr2]; exact hP.ready)
    rw [stepTail_eq _ (by rw [hset, ha2]; exact hP.loopStop), hset]
  have hres : step s .wake = S2 := by unfold step; rw [hstep]
  rw [hres]
  let p' : PK := { p with sl := s.nextId, sid := s.nextId + 1, dl := dl, rem := r }
  have hmt' : p'.mtFrame i = p.mtFrame i := rfl
  obtain ⟨hne, hoth, hndrest⟩ := pkIds_nodup_split hP.nodupF
  obtain ⟨hsoth, hsnd⟩ := sids_nodup_split hP.nodupS
  refine ⟨p', ⟨?_, ?_, by rw [ht2]; exact hP.tops, by rw [hr2]; exact hP.ready, ?_, hP.units, ?_, ?_, ?_,
    by rw [ha2]; exact hP.slot, by rw [ha2]; exact hP.loopStop, by rw [ha2]; exact hP.stopping,
    by rw [ha2]; exact hP.restarting, ?_, trivial⟩, hd2, ?_, ?_, ?_⟩
  · -- frames
    refine ⟨rest.filter (fun g => decide (g.fid ≠ p.sl)) ++ [p'.slFrame], ?_, rest_respawn i pre post p p' rest hperm hP.nodupF hmt'⟩
    rw [hf2]
    show s.frames.filter _ ++ _ = _
    rw [hfr]
    have h1 : ¬ i + 1 = p.sl := by omega
    have h2 : ¬ i + 2 = p.sl := by omega
    simp only [List.filter_cons, h1, h2, ne_eq, not_false_eq_true, decide_true, if_true, List.cons_append]
    rw [hwu]
    rfl
  · -- timers
    rw [hsl2]
    exact timers_reparked pre post p p' s.sleepers hP.sleepers hP.nodupS
  · have := hP.count
    simpa using this
  · intro q hq
    rw [hn2]
    show i + 2 < q.mt ∧ i + 2 < q.sl ∧ q.mt < s.nextId + 2 ∧ q.sl < s.nextId + 2 ∧ q.sid < s.nextId + 2
    rcases List.mem_append.mp hq with hq | hq
    · have := hP.ids q (by simp [hq]); omega
    · rcases List.mem_cons.mp hq with rfl | hq
      · show i + 2 < p.mt ∧ i + 2 < s.nextId ∧ p.mt < s.nextId + 2 ∧ s.nextId < s.nextId + 2 ∧ s.nextId + 1 < s.nextId + 2
        omega
      · have := hP.ids q (by simp [hq]); omega
  · -- frame ids pairwise different
    rw [pkIds_split]
    have hsplit : pkIds (pre ++ post) = pkIds pre ++ pkIds post := by simp [pkIds]
    rw [hsplit] at hndrest
    have h1 := List.nodup_append.mp hndrest
    have hlt_all : ∀ x ∈ pkIds pre ++ pkIds post, x < s.nextId ∧ x ≠ p.mt := by
      intro x hx
      have hx' : x ∈ pkIds (pre ++ post) := by rw [hsplit]; exact hx
      obtain ⟨q, hq, hxq⟩ := mem_pkIds.mp hx'
      have hqP : q ∈ pre ++ p :: post := by
        rcases List.mem_append.mp hq with h | h
        · simp [h]
        · simp [h]
      have := hP.ids q hqP
      have ho := hoth q hq
      rcases hxq with rfl | rfl
      · exact ⟨by omega, ho.1⟩
      · exact ⟨by omega, ho.2.2.1⟩
    apply List.nodup_append.mpr
    refine ⟨h1.1, ?_, ?_⟩
    · apply List.nodup_append.mpr
      refine ⟨by show ([p.mt, s.nextId] : List Nat).Nodup; simp; omega, h1.2.1, ?_⟩
      intro a ha b hb hab
      subst hab
      have := hlt_all a (by simp [hb])
      simp only [List.mem_cons, List.mem_nil_iff, or_false] at ha
      rcases ha with rfl | rfl
      · exact this.2 rfl
      · show False
        have h3 := this.1
        exact Nat.lt_irrefl _ h3
    · intro a ha b hb hab
      subst hab
      simp only [List.mem_append, List.mem_cons, List.mem_nil_iff, or_false] at hb
      rcases hb with (rfl | rfl) | hb
      · exact (hlt_all _ (List.mem_append_left _ ha)).2 rfl
      · exact Nat.lt_irrefl _ (hlt_all _ (List.mem_append_left _ ha)).1
      · exact h1.2.2 a ha a hb rfl
  · -- timer ids pairwise different
    rw [List.map_append, List.map_cons]
    rw [List.map_append] at hsnd
    have h1 := List.nodup_append.mp hsnd
    have hlt_all : ∀ q ∈ pre ++ post, q.sid < s.nextId := by
      intro q hq
      have hqP : q ∈ pre ++ p :: post := by
        rcases List.mem_append.mp hq with h | h
        · simp [h]
        · simp [h]
      exact (hP.ids q hqP).2.2.2.2
    apply List.nodup_append.mpr
    refine ⟨h1.1, ?_, ?_⟩
    · apply List.nodup_cons.mpr
      refine ⟨?_, h1.2.1⟩
      intro hm
      obtain ⟨q, hq, hqs⟩ := List.mem_map.mp hm
      have := hlt_all q (by simp [hq])
      have : q.sid = s.nextId + 1 := hqs
      omega
    · intro a ha b hb hab
      subst hab
      rcases List.mem_cons.mp hb with rfl | hb
      · obtain ⟨q, hq, hqs⟩ := List.mem_map.mp ha
        have := hlt_all q (by simp [hq])
        have : q.sid = s.nextId + 1 := hqs
        omega
      · exact h1.2.2 a ha a hb rfl
  · -- the registered watchers
    rw [ha2, hws2]
    show s.a.watchers = (addPid w.uid s.k.nextPid s.ws).map (·.uid)
    rw [addPid_uids]
    exact hP.watchers
  · -- accounting
    have huid : (pre ++ p' :: post).map (·.uid) = (pre ++ p :: post).map (·.uid) := by simp [p']
    refine ⟨?_, by rw [huid]; exact hA.nodupU, ?_, fun q _ h => by cases h⟩
    · intro q hq
      rw [hws2]
      have hcases : q = p' ∨ q ∈ pre ++ post := by
        rcases List.mem_append.mp hq with h | h
        · exact Or.inr (by simp [h])
        · rcases List.mem_cons.mp h with h | h
          · exact Or.inl h
          · exact Or.inr (by simp [h])
      rcases hcases with rfl | hq'
      · refine ⟨{ w with pids := w.pids ++ [s.k.nextPid] }, mem_addPid_self hw _, hwu, ?_⟩
        show (w.pids ++ [s.k.nextPid]).length + r = w.np.toNat
        simp only [List.length_append, List.length_cons, List.length_nil]
        omega
      · have hqP : q ∈ pre ++ p :: post := by
          rcases List.mem_append.mp hq' with h | h
          · simp [h]
          · simp [h]
        obtain ⟨wq, hwq, hwqu, hwql⟩ := hA.parked q hqP
        have hne' : wq.uid ≠ w.uid := by
          rw [hwqu, hwu]
          -- uids of parked loops are pairwise different
          have hnu := hA.nodupU
          rw [List.map_append, List.map_cons] at hnu
          have g1 := List.nodup_append.mp hnu
          have g2 := List.nodup_cons.mp g1.2.1
          rcases List.mem_append.mp hq' with h | h
          · exact g1.2.2 q.uid (List.mem_map_of_mem h) p.uid (by simp)
          · intro heq
            exact g2.1 (heq ▸ List.mem_map_of_mem h)
        exact ⟨wq, mem_addPid_other hwq hne' _, hwqu, hwql⟩
    · intro w' hw' _ hnp
      rw [hws2] at hw'
      obtain ⟨w0, hw0, h | h⟩ := mem_addPid hw'
      · exfalso
        obtain ⟨hu0, rfl⟩ := h
        exact hnp p' (by simp) (by show p.uid = w0.uid; rw [hu0, hwu])
      · obtain ⟨_, rfl⟩ := h
        apply hA.full w' hw0 (by simp)
        intro q hq
        rcases List.mem_append.mp hq with h | h
        · exact hnp q (by simp [h])
        · rcases List.mem_cons.mp h with rfl | h
          · exact hnp p' (by simp)
          · exact hnp q (by simp [h])
  · -- the measure
    unfold toGo
    rw [hws2]
    have e1 : S1.ws = s.ws := rfl
    have e2 : S1.k.nextPid = s.k.nextPid := rfl
    rw [e1, e2]
    have := sum_missing_addPid s.ws w s.k.nextPid hn hw hlt
    simp only [List.length_append, List.length_cons]
    omega
  · rw [hws2]
    exact Grow.addPid _ _ _

/-! ## Part 7: the loop of a watcher ends -/

/-- a result arrives for an armed `gen.multi`: its per-child callback goes on the ready queue -/
theorem deliver_multi_armed (rec : Rec) (fid slot : Nat) (v : Val) (s : State) (f : Frame) (n : Nat) (results : List (Nat × Val))
    (hf : s.frames.find? (fun g => decide (g.fid = fid)) = some f) (hk : f.k = .multi n results) (ha : f.armed = true) :
    deliver rec (.frame fid slot) v s = ((), { s with ready := s.ready ++ [.resume (.multiSlot fid slot) v .none] }) := by
  unfold deliver
  simp only [bind, getS, hf, hk, ha, if_true]
  rfl

theorem multiCollect_record (rec : Rec) (fid slot : Nat) (v : Val) (s : State) (f : Frame) (n : Nat) (results : List (Nat × Val))
    (hf : s.frames.find? (fun g => decide (g.fid = fid)) = some f) (hk : f.k = .multi n results)
    (hlt : results.length + 1 < n) :
    multiCollect rec fid slot v s =
      ((), { s with frames := s.frames.map fun g => if g.fid = fid then { g with k := .multi n (results ++ [(slot, v)]) } else g }) := by
  have hn : ¬ n ≤ results.length + 1 := by omega
  unfold multiCollect
  simp only [bind, getS, hf, hk]
  simp [hn, setFrameK, modS]

theorem multiCollect_last (rec : Rec) (fid slot : Nat) (v : Val) (s : State) (f : Frame) (n : Nat) (results : List (Nat × Val))
    (hf : s.frames.find? (fun g => decide (g.fid = fid)) = some f) (hk : f.k = .multi n results)
    (hge : n ≤ results.length + 1) :
    multiCollect rec fid slot v s =
      rec (.resume .pass (multiResult n (results ++ [(slot, v)])) f.parent)
        { s with frames := s.frames.filter fun g => decide (g.fid ≠ fid) } := by
  unfold multiCollect
  simp only [bind, getS, hf, hk]
  simp [hge, removeFrame, modS]

/-- `manage_processes`' last part for a watcher that is complete: nothing to remove -/
theorem manageTail_full_K (rec : Rec) (w : Watcher) (wt : Waiter) (s : State) (hn : (s.ws.map (·.uid)).Nodup) (hw : w ∈ s.ws)
    (hok : WOkK w) (hfull : w.pids.length = w.np.toNat) : manageTail rec w.uid wt s = deliver rec wt .unit s := by
  unfold manageTail
  simp only [bind]
  rw [getW_mem hn hw]
  have hnp := hok.np
  have hgt : ¬ ((w.pids.length : Int) > w.np) := by omega
  erw [if_neg hgt]

theorem ParkedK.frames_nodup {K i : Nat} {results : List (Nat × Val)} {P : List PK} {s : State} (h : ParkedK K i results P s) :
    (s.frames.map (·.fid)).Nodup := by
  obtain ⟨rest, hfr, hperm⟩ := h.frames
  have hnd : (rest.map (·.fid)).Nodup := (hperm.map (·.fid)).nodup_iff.mpr (by rw [pkFrames_fids]; exact h.nodupF)
  have hgt : ∀ x ∈ rest.map (·.fid), i + 2 < x := by
    intro x hx
    obtain ⟨g, hg, rfl⟩ := List.mem_map.mp hx
    obtain ⟨q, hq, hgq | hgq⟩ := mem_pkFrames (hperm.mem_iff.mp hg)
    · have := h.ids q hq; rw [hgq]; show i + 2 < q.mt; omega
    · have := h.ids q hq; rw [hgq]; show i + 2 < q.sl; omega
  rw [hfr]
  simp only [List.map_cons]
  apply List.nodup_cons.mpr
  refine ⟨?_, List.nodup_cons.mpr ⟨?_, hnd⟩⟩
  · intro hm
    rcases List.mem_cons.mp hm with h1 | h1
    · omega
    · have := hgt _ h1; omega
  · intro hm
    have := hgt _ hm; omega

/-- the `gen.multi` of `manage_watchers` is complete and armed: its result resumes `manage_watchers` through the
    ready queue -/
theorem multi_done_mk (n i : Nat) (vs : List Val) (k : Kernel) (a : Arbiter) (objs : List PObj) (ws : List Watcher)
    (sleepers : List Sleeper) (tops : List TopFut) (dv : List (Nat × Val)) (nid : Nat) (log : List Obs) :
    exec (n + 1) (.resume .pass (.list vs) (.frame (i + 1) 0))
        ⟨k, a, objs, ws, [{ fid := i + 1, k := .manageWatchersTail false, parent := .top i, armed := true }], sleepers, tops,
          [], dv, nid, log, false⟩ =
      ((), ⟨k, a, objs, ws, [], sleepers, tops, [.resume (.manageWatchersTail false) (.list vs) (.top i)], dv, nid, log, false⟩) := by
  rw [exec_resume_mk]
  simp [runResume, deliver, bind, getS, removeFrame, enqueue, modS]

/-- `manage_watchers` is resumed for the last time: its future completes, the callbacks run, the slot is released -/
theorem check_finishes_mk (n i : Nat) (vs : List Val) (k : Kernel) (a : Arbiter) (objs : List PObj) (ws : List Watcher)
    (sleepers : List Sleeper) (dv : List (Nat × Val)) (nid : Nat) (log : List Obs) :
    settle (n + 4) ⟨k, a, objs, ws, [], sleepers, [{ tid := i, cbs := [.release, .watch], armed := true }],
        [.resume (.manageWatchersTail false) (.list vs) (.top i)], dv, nid, log, false⟩ =
      ((), ⟨k, { a with slot := none }, objs, ws, [], sleepers, [], [], (i, Val.unit) :: dv, nid, log, false⟩) := by
  have e1 : (100000 : Nat) = 99999 + 1 := rfl
  rw [show n + 4 = (n + 3) + 1 from rfl, settle_cons_mk]
  simp only [runReady1]
  rw [e1, exec_resume_mk]
  simp [runResume, manageWatchersTail, deliver, deliverTop, finishTop, deliverCbs, bind, getS, getA, enqueue, modS, pure]
  rw [show n + 3 = (n + 2) + 1 from rfl, settle_cons_mk]
  simp [runReady1, runTopCb, setSlot, modA, modS]
  rw [show n + 2 = (n + 1) + 1 from rfl, settle_cons_mk]
  simp [runReady1, runTopCb, pure]
  exact settle_nil _ _ rfl

theorem spawnLoop_zero (rec : Rec) (u : Nat) (wt : Waiter) (s : State) : spawnLoop rec u 0 wt s = deliver rec wt .unit s := by
  unfold spawnLoop
  rfl

/-- **the last timer of a watcher's loop fires**: no worker of that watcher is missing any more; the loop and the
    `manage_processes` of the watcher end, the result goes to the `gen.multi` of `manage_watchers`.  If other loops are
    still parked the result is recorded and the check stays parked; if it was the last one the `gen.multi`,
    `manage_watchers` and the future of the check complete through the ready queue and the slot is released -/
theorem wake_finish_K (K i : Nat) (results : List (Nat × Val)) (pre post : List PK) (p : PK) (s : State)
    (hP : ParkedK K i results (pre ++ p :: post) s) (hd : DatK s) (hA : Acct [] (pre ++ p :: post) s)
    (he : earliest s.sleepers = some p.timer) (hr : p.rem = 0) :
    DatK (step s .wake) ∧ (step s .wake).ws = s.ws ∧ Acct [] (pre ++ post) (step s .wake) ∧
    (pre ++ post ≠ [] → ParkedK K i (results ++ [(p.slot, Val.unit)]) (pre ++ post) (step s .wake)) ∧
    (pre ++ post = [] → IdleK (step s .wake)) := by
  have hpm : p ∈ pre ++ p :: post := by simp
  have hPne : pre ++ p :: post ≠ [] := by simp
  have hd0 := hd
  obtain ⟨hb, hk, hn, hall⟩ := hd
  obtain ⟨w, hw, hwu, hwl⟩ := hA.parked p hpm
  have hfull : w.pids.length = w.np.toNat := by omega
  obtain ⟨rest, hfr, hperm⟩ := hP.frames
  have hidp := hP.ids p hpm
  have hnid := hP.nid hPne
  obtain ⟨hne, hoth, hndrest⟩ := pkIds_nodup_split hP.nodupF
  obtain ⟨hsoth, hsnd⟩ := sids_nodup_split hP.nodupS
  have hfnd := hP.frames_nodup
  -- the stimulus
  have hop := wake_op_K s p.timer p.sl p.slFrame hk he rfl (hP.find_sl hpm) rfl (by intro n r h; cases h)
  let S1 : State := { s with k := { s.k.beginStep with now := max s.k.beginStep.now p.timer.deadline },
                             sleepers := s.sleepers.filter (fun x => decide (x.sid ≠ p.timer.sid)),
                             frames := s.frames.filter (fun g => decide (g.fid ≠ p.sl)) }
  have hS1r : S1.ready = [] := hP.ready
  have hd1 : DatK S1 := hd0.of_kernel (hk.beginStep.setNow_still _) rfl rfl rfl
  -- the frames once the loop and the continuation of `manage_processes` are released
  let rest2 := (rest.filter (fun g => decide (g.fid ≠ p.sl))).filter (fun g => decide (g.fid ≠ p.mt))
  have hrest2 : rest2.Perm (pkFrames i (pre ++ post)) := rest_finish i pre post p rest hperm hP.nodupF
  have h1sl : ¬ i + 1 = p.sl := by omega
  have h2sl : ¬ i + 2 = p.sl := by omega
  have h1mt : ¬ i + 1 = p.mt := by omega
  have h2mt : ¬ i + 2 = p.mt := by omega
  have hS1f : S1.frames = { fid := i + 1, k := .manageWatchersTail false, parent := .top i, armed := true } ::
      { fid := i + 2, k := .multi K results, parent := .frame (i + 1) 0, armed := true } ::
      rest.filter (fun g => decide (g.fid ≠ p.sl)) := by
    show s.frames.filter _ = _
    rw [hfr]
    simp only [List.filter_cons, h1sl, h2sl, ne_eq, not_false_eq_true, decide_true, if_true]
  -- 1: the loop ends, `manage_processes`' continuation is resumed
  have hfindmt : S1.frames.find? (fun g => decide (g.fid = p.mt)) = some (p.mtFrame i) := by
    have hmem : p.mtFrame i ∈ S1.frames := by
      apply List.mem_filter.mpr
      refine ⟨List.mem_of_find?_eq_some (hP.find_mt hpm), ?_⟩
      simp [PK.mtFrame, hne]
    have hnd1 : (S1.frames.map (·.fid)).Nodup := (List.Sublist.map _ List.filter_sublist).nodup hfnd
    exact find_fid_of_mem hnd1 hmem
  let S2 : State := { S1 with frames := S1.frames.filter (fun g => decide (g.fid ≠ p.mt)) }
  have hS2f : S2.frames = { fid := i + 1, k := .manageWatchersTail false, parent := .top i, armed := true } ::
      { fid := i + 2, k := .multi K results, parent := .frame (i + 1) 0, armed := true } :: rest2 := by
    show S1.frames.filter _ = _
    rw [hS1f]
    simp only [List.filter_cons, h1mt, h2mt, ne_eq, not_false_eq_true, decide_true, if_true]
    rfl
  have hd2 : DatK S2 := hd1.of_kernel hd1.2.1 rfl rfl rfl
  have hstep1 : spawnLoop (exec 99999) p.uid 0 (.frame p.mt 0) S1 =
      ((), { S2 with ready := [Ready.resume (.manageTail p.uid) .unit (.frame (i + 2) p.slot)] }) := by
    rw [spawnLoop_zero, deliver_armed_of (exec 99999) p.mt 0 .unit S1 (p.mtFrame i) hfindmt rfl (by intro n r h; cases h)]
    rw [hS1r]
    rfl
  -- 2: `manage_processes` has nothing to remove; its result goes to the `gen.multi`
  have hfind2 : S2.frames.find? (fun g => decide (g.fid = i + 2)) =
      some { fid := i + 2, k := .multi K results, parent := .frame (i + 1) 0, armed := true } := by
    rw [hS2f]
    simp
  have hstep2 : manageTail (exec 99999) p.uid (.frame (i + 2) p.slot) S2 =
      ((), { S2 with ready := [Ready.resume (.multiSlot (i + 2) p.slot) .unit .none] }) := by
    rw [← hwu, manageTail_full_K (exec 99999) w _ S2 hn hw (hall w hw).1 hfull,
      deliver_multi_armed (exec 99999) (i + 2) p.slot .unit S2 _ K results hfind2 rfl rfl]
    have hS2r : S2.ready = [] := hP.ready
    rw [hS2r]
    rfl
  -- the first two rounds of the ready queue
  have hrd0 : ({ S1 with ready := s.ready ++ [Ready.resume p.slFrame.k Val.unit p.slFrame.parent] } : State).ready =
      Ready.resume (.spawnLoop p.uid 0) .unit (.frame p.mt 0) :: [] := by
    show s.ready ++ _ = _
    rw [hP.ready]
    simp [PK.slFrame, hr]
  have e1 : (100000 : Nat) = 99999 + 1 := rfl
  have e2 : (99999 : Nat) = 99998 + 1 := rfl
  have e3 : (99998 : Nat) = 99997 + 1 := rfl
  have hS1' : ({ ({ S1 with ready := s.ready ++ [Ready.resume p.slFrame.k Val.unit p.slFrame.parent] } : State) with ready := [] } : State) = S1 := by
    show ({ S1 with ready := [] } : State) = S1
    cases hS : S1
    simp_all
  have hS2' : ({ ({ S2 with ready := [Ready.resume (.manageTail p.uid) .unit (.frame (i + 2) p.slot)] } : State) with ready := [] } : State) = S2 := by
    show ({ S2 with ready := [] } : State) = S2
    have : S2.ready = [] := hP.ready
    cases hS : S2
    simp_all
  have hS3' : ({ ({ S2 with ready := [Ready.resume (.multiSlot (i + 2) p.slot) .unit .none] } : State) with ready := [] } : State) = S2 := by
    show ({ S2 with ready := [] } : State) = S2
    have : S2.ready = [] := hP.ready
    cases hS : S2
    simp_all
  have hsettle : settle 100000 { S1 with ready := s.ready ++ [Ready.resume p.slFrame.k Val.unit p.slFrame.parent] } =
      settle 99997 (multiCollect (exec 99999) (i + 2) p.slot .unit S2).2 := by
    rw [e1, settle_cons 99999 ({ S1 with ready := s.ready ++ [Ready.resume p.slFrame.k Val.unit p.slFrame.parent] } : State)
      _ [] hb hrd0]
    simp only [runReady1]
    rw [hS1', e1, exec_resume 99999 _ _ _ S1 hb]
    simp only [runResume]
    rw [hstep1, e2, settle_cons 99998 ({ S2 with ready := [Ready.resume (.manageTail p.uid) .unit (.frame (i + 2) p.slot)] } : State)
      _ [] hb rfl]
    simp only [runReady1]
    rw [hS2', e1, exec_resume 99999 _ _ _ S2 hb]
    simp only [runResume]
    rw [hstep2, e3, settle_cons 99997 ({ S2 with ready := [Ready.resume (.multiSlot (i + 2) p.slot) .unit .none] } : State)
      _ [] hb rfl]
    simp only [runReady1]
    rw [hS3', e1, exec_resume 99999 _ _ _ S2 hb]
    simp only [runResume]
  -- the accounting afterwards (the watchers are untouched)
  have hAcct : ∀ t : State, t.ws = s.ws → Acct [] (pre ++ post) t := by
    intro t ht
    refine ⟨?_, ?_, ?_, fun q _ h => by cases h⟩
    · intro q hq
      rw [ht]
      exact hA.parked q (by rcases List.mem_append.mp hq with h | h <;> simp [h])
    · have hnu := hA.nodupU
      rw [List.map_append, List.map_cons] at hnu
      have g1 := List.nodup_append.mp hnu
      have g2 := List.nodup_cons.mp g1.2.1
      rw [List.map_append]
      apply List.nodup_append.mpr
      exact ⟨g1.1, g2.2, fun a ha b hb => g1.2.2 a ha b (by simp [hb])⟩
    · intro w' hw' _ hnp
      rw [ht] at hw'
      by_cases hu : w'.uid = p.uid
      · have : w' = w := same_uid_eq hn hw' hw (by rw [hu, hwu])
        subst this
        exact hfull
      · apply hA.full w' hw' (by simp)
        intro q hq
        rcases List.mem_append.mp hq with h | h
        · exact hnp q (by simp [h])
        · rcases List.mem_cons.mp h with rfl | h
          · exact fun he => hu he.symm
          · exact hnp q (by simp [h])
  have hcount := hP.count
  simp only [List.length_append, List.length_cons] at hcount
  by_cases hlast : pre ++ post = []
  · -- the last loop: everything unwinds
    have hpre : pre = [] := (List.append_eq_nil_iff.mp hlast).1
    have hpost : post = [] := (List.append_eq_nil_iff.mp hlast).2
    have hge : K ≤ results.length + 1 := by
      rw [hpre, hpost] at hcount
      simp at hcount
      omega
    have hr2nil : rest2 = [] := by
      have := hrest2
      rw [hlast] at this
      exact List.Perm.eq_nil (by simpa [pkFrames] using this)
    have hslnil : s.sleepers.filter (fun x => decide (x.sid ≠ p.timer.sid)) = [] := by
      have := timers_fired pre post p s.sleepers hP.sleepers hP.nodupS
      rw [hlast] at this
      exact List.Perm.eq_nil (by simpa using this)
    obtain ⟨vs, hvs⟩ := multiResult_units K (results ++ [(p.slot, Val.unit)]) (by
      intro r hr'
      rcases List.mem_append.mp hr' with h | h
      · exact hP.units r h
      · simp only [List.mem_cons, List.mem_nil_iff, or_false] at h
        subst h; rfl)
    have hmc := multiCollect_last (exec 99999) (i + 2) p.slot .unit S2 _ K results hfind2 rfl hge
    let S5 : State := { S2 with frames := S2.frames.filter fun g => decide (g.fid ≠ i + 2) }
    have hS5f : S5.frames = [{ fid := i + 1, k := .manageWatchersTail false, parent := .top i, armed := true }] := by
      show S2.frames.filter _ = _
      rw [hS2f, hr2nil]
      simp
    have hS5 : S5 = ⟨S1.k, s.a, s.objs, s.ws,
        [{ fid := i + 1, k := .manageWatchersTail false, parent := .top i, armed := true }], [],
        [{ tid := i, cbs := [.release, .watch], armed := true }], [], s.doneVals, s.nextId, s.log, false⟩ := by
      have h0 : S5 = ⟨S5.k, S5.a, S5.objs, S5.ws, S5.frames, S5.sleepers, S5.tops, S5.ready, S5.doneVals, S5.nextId, S5.log,
        S5.blocked⟩ := rfl
      rw [h0, hS5f]
      have h1 : S5.sleepers = [] := hslnil
      have h2 : S5.tops = [{ tid := i, cbs := [.release, .watch], armed := true }] := hP.tops
      have h3 : S5.ready = [] := hP.ready
      have h4 : S5.blocked = false := hb
      rw [h1, h2, h3, h4]
    let S9 : State := ⟨S1.k, { s.a with slot := none }, s.objs, s.ws, [], [], [], [], (i, Val.unit) :: s.doneVals, s.nextId, s.log, false⟩
    have hstep : stepM .wake s = ((), S9) := by
      rw [stepM_eq _ _ hb, hop]
      have hset : settle 100000 { S1 with ready := s.ready ++ [Ready.resume p.slFrame.k Val.unit p.slFrame.parent] } = ((), S9) := by
        rw [hsettle, hmc, hvs]
        show settle 99997 (exec 99999 (.resume .pass (.list vs) (.frame (i + 1) 0)) S5).2 = _
        rw [hS5, show (99999 : Nat) = 99998 + 1 from rfl, multi_done_mk 99998 i vs]
        exact check_finishes_mk 99993 i vs _ _ _ _ _ _ _ _
      rw [stepTail_eq _ (by rw [hset]; exact hP.loopStop), hset]
    have hres : step s .wake = S9 := by unfold step; rw [hstep]
    rw [hres]
    refine ⟨⟨rfl, hk.beginStep.setNow_still _, hn, hall⟩, rfl, hAcct S9 rfl, fun h => absurd hlast h, ?_⟩
    intro _
    exact ⟨rfl, rfl, rfl, rfl, rfl, hP.loopStop, hP.stopping, hP.restarting, hP.watchers⟩
  · -- other loops are still parked: the result is recorded
    have hlen : 0 < (pre ++ post).length := List.length_pos_iff.mpr hlast
    simp only [List.length_append] at hlen
    have hlt : results.length + 1 < K := by omega
    have hmc := multiCollect_record (exec 99999) (i + 2) p.slot .unit S2 _ K results hfind2 rfl hlt
    let S4 : State := { S2 with frames := S2.frames.map fun g =>
      if g.fid = i + 2 then { g with k := .multi K (results ++ [(p.slot, Val.unit)]) } else g }
    have hS4f : S4.frames = { fid := i + 1, k := .manageWatchersTail false, parent := .top i, armed := true } ::
        { fid := i + 2, k := .multi K (results ++ [(p.slot, Val.unit)]), parent := .frame (i + 1) 0, armed := true } :: rest2 := by
      show S2.frames.map _ = _
      rw [hS2f]
      have hmap : rest2.map (fun g => if g.fid = i + 2 then { g with k := Kont.multi K (results ++ [(p.slot, Val.unit)]) } else g) = rest2 := by
        conv => rhs; rw [← List.map_id rest2]
        apply List.map_congr_left
        intro g hg
        obtain ⟨q, hq, hgq | hgq⟩ := mem_pkFrames (hrest2.mem_iff.mp hg)
        · have := hP.ids q (by rcases List.mem_append.mp hq with h | h <;> simp [h])
          have : ¬ g.fid = i + 2 := by rw [hgq]; show ¬ q.mt = _; omega
          simp [this]
        · have := hP.ids q (by rcases List.mem_append.mp hq with h | h <;> simp [h])
          have : ¬ g.fid = i + 2 := by rw [hgq]; show ¬ q.sl = _; omega
          simp [this]
      simp only [List.map_cons, hmap]
      simp
    have hstep : stepM .wake s = ((), S4) := by
      rw [stepM_eq _ _ hb, hop]
      have hset : settle 100000 { S1 with ready := s.ready ++ [Ready.resume p.slFrame.k Val.unit p.slFrame.parent] } = ((), S4) := by
        rw [hsettle, hmc]
        exact settle_nil 99996 S4 hP.ready
      rw [stepTail_eq _ (by rw [hset]; exact hP.loopStop), hset]
    have hres : step s .wake = S4 := by unfold step; rw [hstep]
    rw [hres]
    refine ⟨hd2.of_kernel hd2.2.1 rfl rfl rfl, rfl, hAcct S4 rfl, ?_, fun h => absurd h hlast⟩
    intro _
    refine ⟨⟨rest2, hS4f, hrest2⟩, timers_fired pre post p s.sleepers hP.sleepers hP.nodupS, hP.tops, hP.ready, ?_, ?_, ?_,
      hndrest, hsnd, hP.slot, hP.loopStop, hP.stopping, hP.restarting, hP.watchers, trivial⟩
    · simp only [List.length_append, List.length_cons, List.length_nil]; omega
    · intro r hr'
      rcases List.mem_append.mp hr' with h | h
      · exact hP.units r h
      · simp only [List.mem_cons, List.mem_nil_iff, or_false] at h
        subst h; rfl
    · intro q hq
      exact hP.ids q (by rcases List.mem_append.mp hq with h | h <;> simp [h])

/-! ## Part 8: convergence -/

theorem sum_missing_zero {ws : List Watcher} (h : ∀ w ∈ ws, w.pids.length = w.np.toNat) : (ws.map missing).sum = 0 := by
  induction ws with
  | nil => rfl
  | cons w r ih =>
    simp only [List.map_cons, List.sum_cons, ih (fun x hx => h x (by simp [hx])), missing, h w (by simp)]
    omega

theorem Acct.all_full {s : State} (h : Acct [] [] s) : ∀ w ∈ s.ws, w.pids.length = w.np.toNat :=
  fun w hw => h.full w hw (by simp) (fun p hp => by cases hp)

/-- **any timer firing while the check is parked**: the earliest timer belongs to one of the parked loops; either its
    watcher gets one more worker and the loop parks again, or the loop ends — and with the last loop the check.  One
    firing less remains. -/
theorem wake_K (K i : Nat) (results : List (Nat × Val)) (P : List PK) (s : State)
    (hP : ParkedK K i results P s) (hd : DatK s) (hA : Acct [] P s) (hne : P ≠ []) :
    ∃ results' P', DatK (step s .wake) ∧ Acct [] P' (step s .wake) ∧ toGo P' (step s .wake) + 1 = toGo P s ∧
      Grow s.ws (step s .wake).ws ∧ (P' ≠ [] → ParkedK K i results' P' (step s .wake)) ∧ (P' = [] → IdleK (step s .wake)) := by
  have hsne : s.sleepers ≠ [] := by
    intro h
    have := hP.sleepers
    rw [h] at this
    have := this.symm.eq_nil
    exact hne (List.map_eq_nil_iff.mp this)
  obtain ⟨sl, he⟩ := earliest_some_of_ne hsne
  have hmem : sl ∈ P.map PK.timer := hP.sleepers.mem_iff.mp (earliest_memK he)
  obtain ⟨p, hp, rfl⟩ := List.mem_map.mp hmem
  obtain ⟨pre, post, rfl⟩ := List.append_of_mem hp
  cases hr : p.rem with
  | succ r =>
    obtain ⟨p', h1, h2, h3, h4, h5⟩ := wake_spawn_K K i results pre post p r s hP hd hA he hr
    exact ⟨results, pre ++ p' :: post, h2, h3, h4, h5, fun _ => h1, fun h => by simp at h⟩
  | zero =>
    obtain ⟨h1, h2, h3, h4, h5⟩ := wake_finish_K K i results pre post p s hP hd hA he hr
    refine ⟨results ++ [(p.slot, Val.unit)], pre ++ post, h1, h3, ?_, by rw [h2]; exact Grow.refl _, h4, h5⟩
    unfold toGo
    rw [h2]
    simp only [List.length_append, List.length_cons]
    omega

/-- the parked check with `n + 1` firings to go needs exactly `n + 1` timer firings -/
theorem wakes_converge_K (K i : Nat) : ∀ (n : Nat) (results : List (Nat × Val)) (P : List PK) (s : State),
    ParkedK K i results P s → DatK s → Acct [] P s → P ≠ [] → toGo P s = n + 1 →
    IdleK (run s (List.replicate (n + 1) .wake)) ∧ DatK (run s (List.replicate (n + 1) .wake)) ∧
    (∀ w ∈ (run s (List.replicate (n + 1) .wake)).ws, w.pids.length = w.np.toNat) ∧
    Grow s.ws (run s (List.replicate (n + 1) .wake)).ws := by
  intro n
  induction n with
  | zero =>
    intro results P s hP hd hA hne hgo
    obtain ⟨results', P', h1, h2, h3, h4, _, h6⟩ := wake_K K i results P s hP hd hA hne
    have hP' : P' = [] := by
      unfold toGo at h3 hgo
      have : P'.length = 0 := by omega
      exact List.length_eq_zero_iff.mp this
    subst hP'
    simp only [List.replicate_succ, List.replicate_zero]
    show IdleK (step s .wake) ∧ _
    exact ⟨h6 rfl, h1, h2.all_full, h4⟩
  | succ n ih =>
    intro results P s hP hd hA hne hgo
    obtain ⟨results', P', h1, h2, h3, h4, h5, _⟩ := wake_K K i results P s hP hd hA hne
    have hP' : P' ≠ [] := by
      intro h
      subst h
      have := sum_missing_zero h2.all_full
      unfold toGo at h3 hgo
      simp only [List.length_nil] at h3
      omega
    rw [List.replicate_succ, run_cons]
    obtain ⟨g1, g2, g3, g4⟩ := ih results' P' (step s .wake) (h5 hP') h1 h2 hP' (by omega)
    exact ⟨g1, g2, g3, h4.trans g4⟩

/-- **convergence with several watchers**: from an idle state with any number (≥ 1) of registered active watchers,
    each listing at most `numprocesses` running workers, in a still kernel, the check followed by exactly as many
    timer firings as workers are missing altogether ends idle, every watcher at its `numprocesses` running workers,
    the workers that were there kept (`Grow`) -/
theorem check_converges_K (s : State) (hi : IdleK s) (hd : DatK s) (hle : ∀ w ∈ s.ws, w.pids.length ≤ w.np.toNat)
    (hne : s.ws ≠ []) :
    IdleK (run s (.check :: List.replicate (s.ws.map missing).sum .wake)) ∧
    DatK (run s (.check :: List.replicate (s.ws.map missing).sum .wake)) ∧
    (∀ w ∈ (run s (.check :: List.replicate (s.ws.map missing).sum .wake)).ws, w.pids.length = w.np.toNat) ∧
    Grow s.ws (run s (.check :: List.replicate (s.ws.map missing).sum .wake)).ws := by
  rw [run_cons]
  by_cases hmiss : ∃ w ∈ s.ws, w.pids.length < w.np.toNat
  · obtain ⟨results, P, hP, hd', hA, hPne, hgo, hgr⟩ := check_parks_K s hi hd hle hmiss
    have hpos : 0 < (s.ws.map missing).sum := by
      rw [← hgo]
      unfold toGo
      have := List.length_pos_iff.mpr hPne
      omega
    obtain ⟨n, hn⟩ : ∃ n, (s.ws.map missing).sum = n + 1 := ⟨_, (Nat.succ_pred_eq_of_pos hpos).symm⟩
    rw [hn]
    obtain ⟨g1, g2, g3, g4⟩ := wakes_converge_K s.ws.length s.nextId n results P _ hP hd' hA hPne (by rw [hgo, hn])
    exact ⟨g1, g2, g3, hgr.trans g4⟩
  · have hfull : ∀ w ∈ s.ws, w.pids.length = w.np.toNat := by
      intro w hw
      have := hle w hw
      by_cases h : w.pids.length < w.np.toNat
      · exact absurd ⟨w, hw, h⟩ hmiss
      · omega
    rw [sum_missing_zero hfull]
    simp only [List.replicate_zero]
    obtain ⟨h1, h2, h3, _⟩ := check_idle_K s hi hd hfull hne
    exact ⟨h1, h2, by simpa [run, h3] using hfull, by simp only [run, List.foldl_nil]; rw [h3]; exact Grow.refl _⟩

/-- … and there it stays -/
theorem checks_stay_K : ∀ (n : Nat) (s : State), IdleK s → DatK s → (∀ w ∈ s.ws, w.pids.length = w.np.toNat) → s.ws ≠ [] →
    IdleK (run s (List.replicate n .check)) ∧ DatK (run s (List.replicate n .check)) ∧
    (run s (List.replicate n .check)).ws = s.ws ∧ (run s (List.replicate n .check)).log = s.log := by
  intro n
  induction n with
  | zero => intro s hi hd _ _; exact ⟨hi, hd, rfl, rfl⟩
  | succ n ih =>
    intro s hi hd hfull hne
    obtain ⟨h1, h2, h3, h4⟩ := check_idle_K s hi hd hfull hne
    rw [List.replicate_succ, run_cons]
    obtain ⟨g1, g2, g3, g4⟩ := ih _ h1 h2 (by rw [h3]; exact hfull) (by rw [h3]; exact hne)
    exact ⟨g1, g2, g3.trans h3, g4.trans h4⟩

end Circus.Core
