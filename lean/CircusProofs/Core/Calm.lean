import CircusModel.Core.Step
/-!
A *calm* kernel: no armed fault, no death due.  In a calm kernel system calls only advance the
call counter; used for the fixpoint theorem of C01 and the accounting theorems.
-/
namespace Circus.Core

def Kernel.Calm (k : Kernel) : Prop :=
  k.armed = [] ∧ ∀ p ∈ k.procs, p.st = .run → ∀ d st, p.doom = some (d, st) → k.now < d

def Kernel.bump (k : Kernel) (n : Nat) : Kernel := { k with calls := k.calls + n }

theorem Kernel.find_mem {k : Kernel} {pid : Nat} {p : KProc} (h : k.find pid = some p) : p ∈ k.procs := by
  unfold Kernel.find at h
  exact List.mem_of_find?_eq_some h

theorem Kernel.resolve_calm (k : Kernel) (h : k.Calm) : k.resolve = k := by
  unfold Kernel.resolve
  have key : ∀ (l : List KProc) (k : Kernel), k.Calm → l.foldl (fun k p0 =>
      match k.find p0.pid with
      | some p => match p.doom with
        | some (dl, st) => if p.st = .run && dl ≤ k.now then k.dead p.pid st else k
        | none => k
      | none => k) k = k := by
    intro l
    induction l with
    | nil => intro k _; rfl
    | cons x xs ih =>
      intro k hk
      simp only [List.foldl_cons]
      have : (match k.find x.pid with
        | some p => match p.doom with
          | some (dl, st) => if p.st = .run && dl ≤ k.now then k.dead p.pid st else k
          | none => k
        | none => k) = k := by
        cases hf : k.find x.pid with
        | none => rfl
        | some p =>
          simp only
          cases hd : p.doom with
          | none => rfl
          | some ds =>
            obtain ⟨dl, st⟩ := ds
            simp only
            by_cases hr : p.st = .run
            · have := hk.2 p (Kernel.find_mem hf) hr dl st hd
              have hle : ¬ dl ≤ k.now := by omega
              simp [hr, hle]
            · simp [hr]
      rw [this]
      exact ih k hk
  exact key k.procs k h

theorem Kernel.bump_calm (k : Kernel) (n : Nat) (h : k.Calm) : (k.bump n).Calm := h

theorem Kernel.tick_calm (k : Kernel) (h : k.Calm) : k.tick = k.bump 1 := by
  unfold Kernel.tick
  simp only [h.1, List.filter_nil, List.foldl_nil]
  have : ({ k with calls := k.calls + 1, armed := [] } : Kernel) = k.bump 1 := by
    unfold Kernel.bump
    cases k; simp_all [Kernel.Calm]
  rw [this]
  exact Kernel.resolve_calm _ (Kernel.bump_calm k 1 h)

theorem Kernel.bump_bump (k : Kernel) (a b : Nat) : (k.bump a).bump b = k.bump (a + b) := by
  simp [Kernel.bump, Nat.add_assoc]

theorem Kernel.bump_find (k : Kernel) (n pid : Nat) : (k.bump n).find pid = k.find pid := rfl

end Circus.Core

namespace Circus.Core

def State.bump (s : State) (n : Nat) : State := { s with k := s.k.bump n }

theorem State.bump_bump (s : State) (a b : Nat) : (s.bump a).bump b = s.bump (a + b) := by
  simp [State.bump, Kernel.bump_bump]

theorem State.bump_zero (s : State) : s.bump 0 = s := by
  simp [State.bump, Kernel.bump]

theorem kStateOf_calm (s : State) (pid : Nat) (h : s.k.Calm) :
    kStateOf pid s = ((match s.k.find pid with | some p => p.st | none => .gone), s.bump 1) := by
  simp only [kStateOf, runK, Kernel.stateOf, Kernel.tick_calm _ h, Kernel.bump_find, State.bump]
  rfl

theorem procStatus_running (s : State) (pid : Nat) (p : KProc) (h : s.k.Calm)
    (hf : s.k.find pid = some p) (hr : p.st = .run) : procStatus pid s = (.running, s.bump 2) := by
  unfold procStatus
  simp only [bind, pure]
  rw [kStateOf_calm s pid h]
  simp only [hf, hr]
  have h1 : (s.bump 1).k.Calm := Kernel.bump_calm _ 1 h
  rw [kStateOf_calm (s.bump 1) pid h1]
  have : (s.bump 1).k.find pid = some p := hf
  simp only [this, hr, State.bump_bump]
  rfl

/-- a loop whose body, on every element, only advances the call counter by `c` -/
theorem forIn_bump {γ : Type} (l : List γ) (c : Nat) (f : γ → PUnit → M (ForInStep PUnit))
    (Q : State → Prop) (hQ : ∀ s n, Q s → Q (s.bump n))
    (hf : ∀ x ∈ l, ∀ s, Q s → f x PUnit.unit s = (ForInStep.yield PUnit.unit, s.bump c)) (s : State) (hs : Q s) :
    (forIn l PUnit.unit f : M PUnit) s = (PUnit.unit, s.bump (c * l.length)) := by
  induction l generalizing s with
  | nil => simp [State.bump_zero]; rfl
  | cons x xs ih =>
    simp only [List.forIn_cons]
    simp only [bind]
    rw [hf x (by simp) s hs]
    simp only
    rw [ih (fun y hy => hf y (by simp [hy])) (s.bump c) (hQ s c hs)]
    simp only [State.bump_bump, List.length_cons]
    congr 2
    rw [Nat.mul_succ, Nat.add_comm]

end Circus.Core
