import CircusModel.Core.Step
/-!
Invariant preservation for monadic programs of the core model.

`Pres I m` : running `m` from any state satisfying `I` ends in a state satisfying `I`.
Closed under `pure`, `bind`, `ite`, `match`, `forIn`; so a lemma per primitive suffices and
every coroutine body is handled by unfolding.
-/
namespace Circus.Core

def Pres (I : State → Prop) (m : M α) : Prop := ∀ s, I s → I (m s).2

theorem Pres.pure {I : State → Prop} (a : α) : Pres I (pure a : M α) := fun _ h => h

theorem Pres.bind {I : State → Prop} {m : M α} {f : α → M β}
    (hm : Pres I m) (hf : ∀ a, Pres I (f a)) : Pres I (m >>= f) := by
  intro s hs
  have := hm s hs
  exact hf (m s).1 (m s).2 this

theorem Pres.ite {I : State → Prop} {c : Prop} [Decidable c] {a b : M α}
    (ha : Pres I a) (hb : Pres I b) : Pres I (if c then a else b) := by
  split <;> assumption

/-- running a conditional program -/
theorem ite_run {α : Type} (c : Prop) [Decidable c] (a b : M α) (s : State) :
    (if c then a else b) s = if c then a s else b s := by
  split <;> rfl

theorem Pres.getS {I : State → Prop} : Pres I getS := fun _ h => h
theorem Pres.getK {I : State → Prop} : Pres I getK := fun _ h => h
theorem Pres.getA {I : State → Prop} : Pres I getA := fun _ h => h
theorem Pres.getW {I : State → Prop} (u : Nat) : Pres I (getW u) := fun _ h => h
theorem Pres.getO {I : State → Prop} (p : Nat) : Pres I (getO p) := fun _ h => h
theorem Pres.nowMs {I : State → Prop} : Pres I nowMs := fun _ h => h

theorem Pres.modS {I : State → Prop} {f : State → State} (h : ∀ s, I s → I (f s)) : Pres I (modS f) :=
  fun s hs => h s hs

/-- `for x in l do …` with mutable state `β` -/
theorem Pres.for_in {I : State → Prop} {γ β : Type} (l : List γ) (init : β) (f : γ → β → M (ForInStep β))
    (hf : ∀ a b, Pres I (f a b)) : Pres I (ForIn.forIn l init f) := by
  induction l generalizing init with
  | nil => exact fun _ h => h
  | cons x xs ih =>
    intro s hs
    simp only [List.forIn_cons]
    show I ((f x init >>= fun r => match r with
      | ForInStep.done b => Pure.pure b
      | ForInStep.yield b => ForIn.forIn xs b f) s).2
    apply Pres.bind (hf x init) _ s hs
    intro r
    cases r with
    | done b => exact fun _ h => h
    | yield b => exact ih b

end Circus.Core
