import CircusProofs.Core.SlotFree
/-!
Invariants of the form "every watcher object satisfies `P`" (`WsAll P`), for any `P` that is
stable under the field updates the model performs.  Instance: `NpOk` (C01: numprocesses is never
negative and at most 1 for a singleton).
-/
namespace Circus.Core

def WsAll (P : Watcher → Prop) (s : State) : Prop := ∀ w ∈ s.ws, P w

structure WStable (P : Watcher → Prop) : Prop where
  status : ∀ (w : Watcher) st, P w → P { w with status := st }
  pids : ∀ (w : Watcher) l, P w → P { w with pids := l }
  hookCalls : ∀ (w : Watcher) l, P w → P { w with hookCalls := l }
  opt : ∀ w c, P w → P (applyOpt c w)
  np : ∀ (w : Watcher) (n : Int), P w → 0 ≤ n → (w.singleton = true → n ≤ 1) → P { w with np := n }
  fresh : ∀ (w : Watcher) (u : Nat), 0 ≤ w.np → (w.singleton = true → w.np = 0 ∨ w.np = 1) → P { w with uid := u }

section
variable {P : Watcher → Prop}

theorem wsAll_same {m : M α} (h : ∀ s, (m s).2.ws = s.ws) : Pres (WsAll P) m := by
  intro s hs; unfold WsAll; rw [h s]; exact hs

theorem wsAll_modW (u : Nat) (f : Watcher → Watcher) (hf : ∀ w, P w → P (f w)) : Pres (WsAll P) (modW u f) := by
  intro s hs w hw
  simp only [modW, modS] at hw
  obtain ⟨w0, hw0, rfl⟩ := List.mem_map.mp hw
  split
  · exact hf w0 (hs w0 hw0)
  · exact hs w0 hw0

macro "ws_same" : tactic =>
  `(tactic| (apply wsAll_same; intro s; first
      | (simp only [modS, modA, modO, emit]; done)
      | (simp only [modS, modA, modO, emit]; split <;> rfl)
      | (simp [modS, modA, modO, emit]; done)))

theorem wsAll_trySetNp (S : WStable P) (u : Nat) (n : Int) : Pres (WsAll P) (trySetNp u n) := by
  intro s hs
  unfold trySetNp
  simp only
  generalize hn' : (if n < 0 then 0 else n) = n'
  have hn0 : 0 ≤ n' := by subst hn'; split <;> omega
  by_cases h : (((s.ws.find? (·.uid = u)).getD defaultWatcher).singleton && decide (n' > 1)) = true
  · simp only [h, if_true]; exact hs
  · have h' := Bool.eq_false_iff.mpr h
    simp only [h', Bool.false_eq_true, if_false]
    intro w hw
    obtain ⟨w0, hw0, rfl⟩ := List.mem_map.mp hw
    by_cases hu : (w0.uid = u && !(w0.singleton && decide (n' > 1))) = true
    · simp only [hu, if_true]
      refine S.np w0 n' (hs w0 hw0) hn0 ?_
      intro hsing
      simp only [Bool.and_eq_true, decide_eq_true_eq, Bool.not_eq_true', Bool.and_eq_false_imp] at hu
      have := hu.2 hsing
      simp only [decide_eq_false_iff_not] at this
      omega
    · have hu' := Bool.eq_false_iff.mpr hu
      simp only [hu', Bool.false_eq_true, if_false]; exact hs w0 hw0

theorem wsAll_spawnAdopt (S : WStable P) (u wid : Nat) : Pres (WsAll P) (spawnAdopt u wid) := by
  intro s hs
  unfold spawnAdopt
  simp only
  cases h : s.k.spawn with
  | mk k' r =>
    cases r with
    | none => exact hs
    | some pid =>
      intro w hw
      simp only at hw
      obtain ⟨w0, hw0, rfl⟩ := List.mem_map.mp hw
      split
      · exact S.pids w0 _ (hs w0 hw0)
      · exact hs w0 hw0

theorem wsAll_registerNew (S : WStable P) (w : Watcher) : Pres (WsAll P) (registerNew w) := by
  intro s hs
  unfold registerNew registerChecked
  by_cases hlook : (s.a.names.lookup (pyLower (clampNp w).name)).isSome
  · simp only [hlook, if_true]; exact hs
  · have hl := Bool.eq_false_iff.mpr hlook
    simp only [hl, Bool.false_eq_true, if_false]
    by_cases hsing : ((clampNp w).singleton && !(decide ((clampNp w).np = 0) || decide ((clampNp w).np = 1))) = true
    · simp only [hsing, if_true]; exact hs
    · have hsg := Bool.eq_false_iff.mpr hsing
      simp only [hsg, Bool.false_eq_true, if_false]
      intro x hx
      simp only [List.mem_append, List.mem_cons, List.mem_nil_iff, or_false] at hx
      rcases hx with hx | rfl
      · exact hs x hx
      · refine S.fresh (clampNp w) s.nextId ?_ ?_
        · simp only [clampNp]; split <;> omega
        · intro h1
          simp only [h1, Bool.true_and, Bool.not_eq_false', Bool.or_eq_true, decide_eq_true_eq] at hsg
          exact hsg

theorem wsAllLeafX (S : WStable P) : LeafX (WsAll P) where
  emit := fun o => by ws_same
  emitRep := fun c i a b d => by unfold emitRep; ws_same
  emitEv := fun w t p x => by unfold emitEv; ws_same
  runK := fun f _ => by apply wsAll_same; intro s; rfl
  setStatus := fun u st => wsAll_modW _ _ (fun w h => S.status w st h)
  trySetNp := wsAll_trySetNp S
  spawnAdopt := wsAll_spawnAdopt S
  popPid := fun u p => wsAll_modW _ _ (fun w h => S.pids w _ h)
  bumpHook := fun u h i => wsAll_modW _ _ (fun w hw => S.hookCalls w _ hw)
  setWOpt := fun u c => wsAll_modW _ _ (fun w h => S.opt w c h)
  setObjStopping := fun p b => by unfold setObjStopping; ws_same
  setRc := fun p rc => by unfold setRc; ws_same
  markBlocked := by unfold markBlocked; ws_same
  freshId := by apply wsAll_same; intro s; rfl
  pushFrame := fun f => by unfold pushFrame; ws_same
  removeFrame := fun f => by unfold removeFrame; ws_same
  setFrameK := fun f k => by unfold setFrameK; ws_same
  armFrame := fun f => by unfold armFrame; ws_same
  pushSleeper := fun sl => by unfold pushSleeper; ws_same
  armTop := fun t => by unfold armTop; ws_same
  setClosed := by unfold setClosed; ws_same
  setStopping := by unfold setStopping; ws_same
  setRestarting := by unfold setRestarting; ws_same
  clearRestarting := fun b => by unfold clearRestarting; ws_same
  setLoopStop := fun b => by unfold setLoopStop; ws_same
  setSocketEvent := fun b => by unfold setSocketEvent; ws_same
  setSockReady := fun b => by unfold setSockReady; ws_same
  clearDone := by unfold clearDone; ws_same
  unregister := fun u => by unfold unregisterWatcher; ws_same
  registerNew := fun w _ => wsAll_registerNew S w
  fireSleeper := fun sl => by unfold fireSleeper; ws_same
  enqueueResume := fun k v w => by unfold enqueue; ws_same
  enqueueCallback := fun n => by unfold enqueue; ws_same
  setSlot := fun v => by unfold setSlot; ws_same
  pushTop := fun t => by unfold pushTop; ws_same
  finishTop := fun t v => by unfold finishTop; ws_same
  topAddCb := fun t cb => by unfold topAddCb; ws_same
  enqueue := fun r => by unfold enqueue; ws_same
  dequeue := by unfold dequeue; ws_same

theorem wsAll_run (S : WStable P) (s : State) (ops : List Op) (h : WsAll P s) : WsAll P (run s ops) :=
  run_pres (Spec.ofLeafX (wsAllLeafX S)) s ops h

end
end Circus.Core
