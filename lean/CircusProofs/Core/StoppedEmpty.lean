import CircusProofs.Core.SlotFree
import CircusProofs.Core.Init
import CircusProofs.Props.C02
/-!
`StoppedEmpty`: a watcher that reports `stopped` lists no process (unless the daemon hangs).

This is not an invariant of every writer: `setStatus u .stopped` breaks it on a watcher that still
lists a pid, `spawnAdopt u` on a stopped watcher.  The model writes `stopped` only in `stopCore`
(`_stop`, right after `reap_processes` emptied the dict) and in `guardedStop` (`spawn_processes` of
an on-demand watcher, behind `pids.isEmpty`), and adopts a process only in `spawnProcess`, behind
`status = stopped → return`.  So the proof goes through the weak chain of Generic.lean
(`LeafXR` for the writers, the three guarded places by hand: `se_stopCore`, `se_guardedStop`,
`se_spawnProcess`).

The status write addresses the watcher by identity, the emptiness check reads the *first* object
with that identity: the invariant carries "identities are pairwise distinct" along (`SEInv`).
-/
namespace Circus.Core

/-- a stopped watcher lists no process — or the daemon hangs -/
def StoppedEmpty (s : State) : Prop := s.blocked = true ∨ ∀ w ∈ s.ws, w.status = .stopped → w.pids = []

/-- `StoppedEmpty` made inductive: watcher identities are pairwise distinct and below the counter -/
structure SEInv (s : State) : Prop where
  uidNodup : (s.ws.map (·.uid)).Nodup
  uidLt : ∀ w ∈ s.ws, w.uid < s.nextId
  good : StoppedEmpty s

/-- the heap is rewritten object by object: identities kept, no object becomes "stopped with
    processes"; `blocked` is never reset; identities are not reused -/
theorem SEInv.wsmap {s t : State} (h : SEInv s) (g : Watcher → Watcher)
    (hu : ∀ w, (g w).uid = w.uid)
    (hg : ¬ s.blocked = true → ∀ w ∈ s.ws, (w.status = .stopped → w.pids = []) → (g w).status = .stopped → (g w).pids = [])
    (hws : t.ws = s.ws.map g) (hn : s.nextId ≤ t.nextId) (hb : s.blocked = true → t.blocked = true) :
    SEInv t := by
  refine ⟨?_, ?_, ?_⟩
  · have : t.ws.map (·.uid) = s.ws.map (·.uid) := by
      rw [hws, List.map_map]
      apply List.map_congr_left
      intro w _
      exact hu w
    rw [this]; exact h.uidNodup
  · intro w' hw'
    rw [hws] at hw'
    obtain ⟨w, hw, rfl⟩ := List.mem_map.mp hw'
    rw [hu w]
    exact Nat.lt_of_lt_of_le (h.uidLt w hw) hn
  · by_cases hbl : s.blocked = true
    · exact Or.inl (hb hbl)
    · rcases h.good with hbl' | hgood
      · exact absurd hbl' hbl
      · right
        intro w' hw' hst
        rw [hws] at hw'
        obtain ⟨w, hw, rfl⟩ := List.mem_map.mp hw'
        exact hg hbl w hw (hgood w hw) hst

theorem SEInv.same {s t : State} (h : SEInv s) (hws : t.ws = s.ws) (hn : s.nextId ≤ t.nextId)
    (hb : s.blocked = true → t.blocked = true) : SEInv t :=
  h.wsmap id (fun _ => rfl) (fun _ _ _ h => h) (by rw [hws, List.map_id]) hn hb

/-- writers that touch neither `ws`, `nextId` nor `blocked` -/
theorem se_frame {m : M α} (h : ∀ s, (m s).2.ws = s.ws ∧ (m s).2.nextId = s.nextId ∧ (m s).2.blocked = s.blocked) :
    Pres SEInv m := by
  intro s hs
  obtain ⟨h1, h2, h3⟩ := h s
  exact hs.same h1 (by rw [h2]; exact Nat.le_refl _) (by rw [h3]; exact fun h => h)

macro "se_frame_tac" : tactic =>
  `(tactic| (apply se_frame; intro s; first
      | (simp only [modS, modA, modO, emit, emitEv, emitRep]; done)
      | (simp only [modS, modA, modO, emit, emitEv, emitRep]; split <;> exact ⟨rfl, rfl, rfl⟩)
      | (simp [modS, modA, modO, emit, emitEv, emitRep]; done)))

theorem se_modW (u : Nat) (f : Watcher → Watcher) (hu : ∀ w, (f w).uid = w.uid)
    (hf : ∀ w, (w.status = .stopped → w.pids = []) → (f w).status = .stopped → (f w).pids = []) :
    Pres SEInv (modW u f) := by
  intro s hs
  refine hs.wsmap (fun w => if w.uid = u then f w else w) ?_ ?_ rfl (Nat.le_refl _) (fun h => h)
  · intro w; split
    · exact hu w
    · rfl
  · intro _ w _ hw; split
    · exact hf w hw
    · exact hw

theorem se_trySetNp (u : Nat) (n : Int) : Pres SEInv (trySetNp u n) := by
  intro s hs
  unfold trySetNp
  simp only
  generalize (if n < 0 then 0 else n) = n'
  by_cases h : (((s.ws.find? (·.uid = u)).getD defaultWatcher).singleton && decide (n' > 1)) = true
  · simp only [h, if_true]; exact hs
  · have h' := Bool.eq_false_iff.mpr h
    simp only [h', Bool.false_eq_true, if_false]
    refine hs.wsmap (fun w => if (w.uid = u && !(w.singleton && decide (n' > 1))) = true then { w with np := n' } else w)
      ?_ ?_ rfl (Nat.le_refl _) (fun h => h)
    · intro w; split <;> rfl
    · intro _ w _ hw; split <;> exact hw

theorem se_registerNew (w : Watcher) (hw : w.pids = []) : Pres SEInv (registerNew w) := by
  intro s hs
  unfold registerNew registerChecked
  by_cases hlook : (s.a.names.lookup (pyLower (clampNp w).name)).isSome
  · simp only [hlook, if_true]; exact hs
  · have hl := Bool.eq_false_iff.mpr hlook
    simp only [hl, Bool.false_eq_true, if_false]
    by_cases hsing : ((clampNp w).singleton && !(decide ((clampNp w).np = 0) || decide ((clampNp w).np = 1))) = true
    · simp only [hsing, if_true]; exact hs
    · have hsg := Bool.eq_false_iff.mpr hsing
      simp only [hsg, Bool.false_eq_true, if_false]
      have hnew : ({ clampNp w with uid := s.nextId } : Watcher).pids = [] := by simp [clampNp, hw]
      refine ⟨?_, ?_, ?_⟩
      · simp only [List.map_append, List.map_cons, List.map_nil]
        rw [List.nodup_append]
        refine ⟨hs.uidNodup, by simp, ?_⟩
        intro a ha b hb
        simp only [List.mem_cons, List.mem_nil_iff, or_false] at hb
        subst hb
        obtain ⟨x, hx, rfl⟩ := List.mem_map.mp ha
        have := hs.uidLt x hx
        omega
      · intro x hx
        simp only
        rcases List.mem_append.mp hx with hx | hx
        · have := hs.uidLt x hx; omega
        · simp only [List.mem_cons, List.mem_nil_iff, or_false] at hx
          subst hx
          simp
      · rcases hs.good with hb | hg
        · exact Or.inl hb
        · right
          intro x hx hst
          rcases List.mem_append.mp hx with hx | hx
          · exact hg x hx hst
          · simp only [List.mem_cons, List.mem_nil_iff, or_false] at hx
            subst hx
            exact hnew

theorem applyOpt_status_pids (c : OptChange) (w : Watcher) :
    (applyOpt c w).uid = w.uid ∧ (applyOpt c w).status = w.status ∧ (applyOpt c w).pids = w.pids := by
  cases c <;> simp [applyOpt]

/-- the writers of Watcher.lean: `popPid` only empties, `markBlocked` only blocks -/
theorem seLeafW : LeafW SEInv where
  emit := fun o => by se_frame_tac
  runK := fun f _ => by apply se_frame; intro s; exact ⟨rfl, rfl, rfl⟩
  emitEv := fun w t p x => by se_frame_tac
  popPid := fun u p => se_modW _ _ (fun _ => rfl) (fun w hw hst => by
    have := hw hst
    simp only [this, List.filter_nil])
  bumpHook := fun u h i => se_modW _ _ (fun _ => rfl) (fun _ hw => hw)
  setObjStopping := fun p b => by unfold setObjStopping; se_frame_tac
  setRc := fun p rc => by unfold setRc; se_frame_tac
  markBlocked := fun s hs => ⟨hs.uidNodup, hs.uidLt, Or.inl rfl⟩

/-- every writer a coroutine or `dispatch` may use anywhere -/
theorem seLeafXR : LeafXR SEInv where
  toLeafW := seLeafW
  emitRep := fun c i a b d => by se_frame_tac
  setStatus := fun u st hne => se_modW _ _ (fun _ => rfl) (fun _ _ hst => absurd hst hne)
  trySetNp := se_trySetNp
  setWOpt := fun u c => se_modW _ _ (fun w => (applyOpt_status_pids c w).1) (fun w hw hst => by
    rw [(applyOpt_status_pids c w).2.2]
    rw [(applyOpt_status_pids c w).2.1] at hst
    exact hw hst)
  freshId := fun s hs => hs.same rfl (Nat.le_succ _) (fun h => h)
  pushFrame := fun f => by unfold pushFrame; se_frame_tac
  removeFrame := fun f => by unfold removeFrame; se_frame_tac
  setFrameK := fun f k => by unfold setFrameK; se_frame_tac
  armFrame := fun f => by unfold armFrame; se_frame_tac
  pushSleeper := fun sl => by unfold pushSleeper; se_frame_tac
  armTop := fun t => by unfold armTop; se_frame_tac
  setStopping := by unfold setStopping; se_frame_tac
  setRestarting := by unfold setRestarting; se_frame_tac
  clearRestarting := fun b => by unfold clearRestarting; se_frame_tac
  setLoopStop := fun b => by unfold setLoopStop; se_frame_tac
  setSocketEvent := fun b => by unfold setSocketEvent; se_frame_tac
  setSockReady := fun b => by unfold setSockReady; se_frame_tac
  clearDone := by unfold clearDone; se_frame_tac
  unregister := fun u => by unfold unregisterWatcher; se_frame_tac
  registerNew := se_registerNew
  fireSleeper := fun sl => by unfold fireSleeper; se_frame_tac
  enqueueResume := fun k v w => by unfold enqueue; se_frame_tac
  enqueueCallback := fun n => by unfold enqueue; se_frame_tac
  setSlot := fun v => by unfold setSlot; se_frame_tac
  pushTop := fun t => by unfold pushTop; se_frame_tac
  finishTop := fun t v => by unfold finishTop; se_frame_tac
  topAddCb := fun t cb => by unfold topAddCb; se_frame_tac
  enqueue := fun r => by unfold enqueue; se_frame_tac
  dequeue := by unfold dequeue; se_frame_tac

/-! ### the guarded places -/

theorem find_of_mem_nodup (ws : List Watcher) (hnd : (ws.map (·.uid)).Nodup) {w : Watcher} (hw : w ∈ ws) :
    ws.find? (fun x => decide (x.uid = w.uid)) = some w := by
  induction ws with
  | nil => cases hw
  | cons x xs ih =>
    simp only [List.map_cons, List.nodup_cons] at hnd
    simp only [List.find?_cons]
    rcases List.mem_cons.mp hw with rfl | hw'
    · simp
    · have hne : x.uid ≠ w.uid := fun h => hnd.1 (List.mem_map.mpr ⟨w, hw', h.symm⟩)
      simp only [hne, decide_false]
      exact ih hnd.2 hw'

/-- with pairwise distinct identities `getW` finds the object itself -/
theorem getW_of_mem {s : State} (hnd : (s.ws.map (·.uid)).Nodup) {w : Watcher} (hw : w ∈ s.ws) :
    (getW w.uid s).1 = w := by
  simp only [getW, find_of_mem_nodup s.ws hnd hw, Option.getD_some]

/-- what `getW` returns for a stopped watcher lists nothing -/
theorem getW_stopped_empty {s : State} (hg : ∀ w ∈ s.ws, w.status = .stopped → w.pids = []) (u : Nat)
    (hst : (getW u s).1.status = .stopped) : (getW u s).1.pids = [] := by
  simp only [getW] at hst ⊢
  cases hf : s.ws.find? (fun w => decide (w.uid = u)) with
  | none => rfl
  | some w =>
    rw [hf] at hst
    exact hg w (List.mem_of_find?_eq_some hf) hst

/-- writing `stopped` into a watcher whose dict is empty -/
theorem se_setStopped (u : Nat) (s : State) (hs : SEInv s)
    (hempty : s.blocked = true ∨ (getW u s).1.pids = []) : SEInv (setStatus u .stopped s).2 := by
  refine hs.wsmap (fun w => if w.uid = u then { w with status := .stopped } else w) ?_ ?_ rfl (Nat.le_refl _) (fun h => h)
  · intro w; split <;> rfl
  · intro hnb w hw hgw hst
    by_cases hu : w.uid = u
    · rw [if_pos hu]
      show w.pids = []
      rcases hempty with hb | he
      · exact absurd hb hnb
      · rw [← hu, getW_of_mem hs.uidNodup hw] at he
        exact he
    · rw [if_neg hu] at hst ⊢
      exact hgw hst

/-- `stopCore`: `reap_processes` empties the dict (or the daemon hangs), then the status is written -/
theorem se_stopCore (u : Nat) : Pres SEInv (stopCore u) := by
  intro s hs
  have h1 : SEInv (reapProcesses u s).2 := reapProcesses_pres seLeafW u s hs
  have he1 : (reapProcesses u s).2.blocked = true ∨ (getW u (reapProcesses u s).2).1.pids = [] := by
    by_cases hst : (getW u s).1.status = .stopped
    · rw [C02_stopped_reap_noop u s hst]
      rcases hs.good with hb | hg
      · exact Or.inl hb
      · exact Or.inr (getW_stopped_empty hg u hst)
    · exact C02_reap_processes_clears u s hst
  have h2 : SEInv (notify u "stop" none "-" (reapProcesses u s).2).2 := notify_pres seLeafW u "stop" none "-" _ h1
  have he2 : (notify u "stop" none "-" (reapProcesses u s).2).2.blocked = true ∨
      (getW u (notify u "stop" none "-" (reapProcesses u s).2).2).1.pids = [] := by
    rcases he1 with hb | hp
    · exact Or.inl (notify_pres blockedLeafW u "stop" none "-" _ hb)
    · right
      have hQ : QStable (fun w : Watcher => w.pids = []) := by
        refine ⟨?_, fun _ _ h => h⟩
        intro w l hl h
        simp only at h ⊢
        apply List.eq_nil_iff_forall_not_mem.mpr
        intro x hx
        have hm := hl x hx
        rw [h] at hm
        exact absurd hm (List.not_mem_nil)
      exact notify_pres (wpropLeafW u _ hQ) u "stop" none "-" _ hp
  exact se_setStopped u _ h2 he2

/-- `guardedStop`: the status is written only behind `pids.isEmpty` -/
theorem se_guardedStop (u : Nat) : Pres SEInv (guardedStop u) := by
  intro s hs
  unfold guardedStop
  simp only [bind]
  have h0 : (getW u s).2 = s := rfl
  rw [h0]
  by_cases he : (getW u s).1.pids.isEmpty = true
  · erw [if_pos he]
    exact se_setStopped u s hs (Or.inr (List.isEmpty_iff.mp he))
  · erw [if_neg he]
    exact hs

/-- `spawnAdopt` for a watcher that is not stopped; it stays not stopped -/
theorem se_spawnAdopt (u wid : Nat) (s : State) (hs : SEInv s) (hst : (getW u s).1.status ≠ .stopped) :
    SEInv (spawnAdopt u wid s).2 ∧ (getW u (spawnAdopt u wid s).2).1.status ≠ .stopped := by
  unfold spawnAdopt
  simp only
  cases hsp : s.k.spawn with
  | mk k' r =>
    cases r with
    | none => exact ⟨hs.same rfl (Nat.le_refl _) (fun h => h), hst⟩
    | some pid =>
      simp only
      refine ⟨?_, ?_⟩
      · refine hs.wsmap (fun w => if w.uid = u then { w with pids := w.pids ++ [pid] } else w) ?_ ?_ rfl (Nat.le_refl _) (fun h => h)
        · intro w; split <;> rfl
        · intro _ w hw hgw hstw
          by_cases hu : w.uid = u
          · rw [if_pos hu] at hstw
            exfalso
            apply hst
            rw [← hu, getW_of_mem hs.uidNodup hw]
            exact hstw
          · rw [if_neg hu] at hstw ⊢
            exact hgw hstw
      · have hQ : Pres (WProp u (fun w => w.status ≠ .stopped))
            (modW u fun w => { w with pids := w.pids ++ [pid] }) :=
          wprop_modW u u _ _ (fun _ => rfl) (fun _ h => h)
        exact hQ s hst

/-- the rest of an attempt once `Popen()` succeeded: only ordinary writers and the interpreter -/
def spawnTail (rec : Rec) (wuid pid now : Nat) : M SpawnRes := do
  let r ← callHook wuid "after_spawn"
  if !r then
    let tid ← newTop [.popProc wuid pid]
    rec (.call (.killProcess wuid pid none none) (.top tid))
    armTop tid
    pure .rFalse
  else
    notify wuid "spawn" (some pid)
    pure (.started now)

theorem se_spawnTail (rec : Rec) (hrec : ∀ t, Pres SEInv (rec t)) (u pid now : Nat) :
    Pres SEInv (spawnTail rec u pid now) := by
  have X := seLeafXR
  have Y := X.toLeafYR
  have L := Y.toLeafR
  have hnew : ∀ cbs, Pres SEInv (newTop cbs) := newTop_presR Y
  unfold spawnTail
  aesop (add safe apply hrec, safe apply hnew) (rule_sets := [Pres])
    (config := { terminal := true, useDefaultSimpSet := false, useSimpAll := false, maxRuleApplications := 3000 })

theorem se_spawnTry (rec : Rec) (hrec : ∀ t, Pres SEInv (rec t)) (u n : Nat) (s : State)
    (hs : SEInv s) (hst : (getW u s).1.status ≠ .stopped) : SEInv (spawnTry rec u n s).2 := by
  induction n generalizing s with
  | zero => exact hs
  | succ n ih =>
    unfold spawnTry
    simp only [bind]
    have h1 : (getW u s).2 = s := rfl
    have h2 : (usedWids u s).2 = s := rfl
    rw [h1, h2]
    cases hw : nextWid (getW u s).1.np (usedWids u s).1 with
    | none => exact hs
    | some wid =>
      simp only
      have h3 : (nowMs s).2 = s := rfl
      rw [h3]
      obtain ⟨ha, hb⟩ := se_spawnAdopt u wid s hs hst
      cases hsp : spawnAdopt u wid s with
      | mk p s2 =>
        rw [hsp] at ha hb
        cases p with
        | none => exact ih s2 ha hb
        | some pid => exact se_spawnTail rec hrec u pid (nowMs s).1 s2 ha

/-- `spawn_process`: nothing on a stopped watcher, otherwise the hook and the attempts -/
theorem se_spawnProcess (rec : Rec) (hrec : ∀ t, Pres SEInv (rec t)) (u : Nat) : Pres SEInv (spawnProcess rec u) := by
  intro s hs
  unfold spawnProcess
  simp only [bind]
  have h1 : (getW u s).2 = s := rfl
  rw [h1]
  by_cases hst : (getW u s).1.status = .stopped
  · erw [if_pos hst]; exact hs
  · erw [if_neg hst]
    have hs1 : SEInv (callHook u "before_spawn" s).2 := callHook_pres seLeafW u "before_spawn" s hs
    have hQ : QStable (fun w : Watcher => w.status ≠ .stopped) := ⟨fun _ _ _ h => h, fun _ _ h => h⟩
    have hst1 : (getW u (callHook u "before_spawn" s).2).1.status ≠ .stopped :=
      callHook_pres (wpropLeafW u _ hQ) u "before_spawn" s hst
    by_cases hr : (!(callHook u "before_spawn" s).1) = true
    · erw [if_pos hr]; exact hs1
    · erw [if_neg hr]
      exact se_spawnTry rec hrec u _ _ hs1 hst1

/-! ### along all runs -/

theorem seSpecR : SpecR SEInv :=
  SpecR.ofLeafXR seLeafXR se_spawnProcess se_stopCore se_guardedStop
    (stopController_of seLeafXR.toLeafR (by unfold setClosed; se_frame_tac))

theorem seInv_run (s : State) (ops : List Op) (h : SEInv s) : SEInv (run s ops) :=
  run_presR seSpecR s ops h

/-- the initial state of a configuration in which no watcher is configured "stopped with processes"
    (`initState` keeps the configured `status` and `pids`; `Watcher.__init__` gives `stopped`, `{}`) -/
theorem seInv_init (cfg : List Watcher) (bs : List Behav) (aw : Nat)
    (hcfg : ∀ w ∈ cfg, w.status = .stopped → w.pids = []) : SEInv (initState cfg bs aw) := by
  have huids : (assignUids cfg 1).map (·.uid) = List.range' 1 cfg.length := assignUids_uids cfg 1
  have key : ∀ (l : List Watcher) (n : Nat), (∀ w ∈ l, w.status = .stopped → w.pids = []) →
      ∀ w ∈ assignUids l n, w.status = .stopped → w.pids = [] := by
    intro l
    induction l with
    | nil => intro n _ w hw; cases hw
    | cons x xs ih =>
      intro n h w hw
      simp only [assignUids, List.mem_cons] at hw
      rcases hw with rfl | hw
      · exact h x (by simp)
      · exact ih (n + 1) (fun w hw => h w (by simp [hw])) w hw
  refine ⟨?_, ?_, Or.inr (key cfg 1 hcfg)⟩
  · show ((assignUids cfg 1).map (·.uid)).Nodup
    rw [huids]; exact List.nodup_range'
  · intro w hw
    have : w.uid ∈ List.range' 1 cfg.length := by rw [← huids]; exact List.mem_map.mpr ⟨w, hw, rfl⟩
    simp only [List.mem_range'_1] at this
    show w.uid < cfg.length + 1
    omega

/-- **a watcher that reports `stopped` lists no process**, in every reachable state in which the
    daemon does not hang -/
theorem stoppedEmpty_run (cfg : List Watcher) (bs : List Behav) (aw : Nat)
    (hcfg : ∀ w ∈ cfg, w.status = .stopped → w.pids = []) (ops : List Op) :
    StoppedEmpty (run (initState cfg bs aw) ops) :=
  (seInv_run _ ops (seInv_init cfg bs aw hcfg)).good

end Circus.Core
