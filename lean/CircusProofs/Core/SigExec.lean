import CircusProofs.Core.SigKill
/-!
The signal invariant through every coroutine body and the interpreter: `exec_si : RecSI J (exec n)`.
The bodies that hand a pid to `kill_process` show that the pid has its `Process` object (it is listed,
or was listed when the sequential reload began, or has just been spawned); the others are
compositions (`unfold; sg`).
-/
set_option linter.unusedSimpArgs false
set_option linter.unusedVariables false
namespace Circus.Core

variable {J : JMode}

/-! ### bodies that call `kill_process` -/

theorem killProcesses_si {rec : Rec} (hrec : RecSI J rec) (u : Nat) (sig gt : Option Nat) (wt : Waiter)
    (hsig : J.isSome = true → sig ≠ some 9) : Pres (SI J) (killProcesses rec u sig gt wt) := by
  intro s h
  unfold killProcesses
  simp only [bind]
  have hq := squiet_activeProcs u s
  refine awaitMulti_kill_si hrec u sig gt _ .ignore wt rfl _ (activeProcs_s (siLeafS0 J) u s h) ?_ hsig
  intro q hq'
  exact hq.ext.obj q (listed_hasObj h.pid (activeProcs_subset u s q hq'))

@[aesop safe apply (rule_sets := [Sg])]
theorem removeExpired_si {rec : Rec} (hrec : RecSI J rec) (u : Nat) (wt : Waiter) : Pres (SI J) (removeExpired rec u wt) := by
  intro s h
  unfold removeExpired
  simp only [bind]
  refine awaitMulti_kill_si hrec u none none _ _ wt rfl s h ?_ (fun _ => by simp)
  intro q hq'
  exact listed_hasObj h.pid (List.mem_filter.mp hq').1

/-- the loop of `manage_processes` over the surplus workers -/
def mtBody (u : Nat) : PObj → List Nat → M (ForInStep (List Nat)) := fun o r => do
  let st ← procStatus o.pid
  if isDead st then do
    reapProcess u o.pid none
    pure (ForInStep.yield r)
  else pure (ForInStep.yield (r ++ [o.pid]))

theorem manageTail_eq (rec : Rec) (u : Nat) (wt : Waiter) :
    manageTail rec u wt = (do
      let w ← getW u
      if (w.pids.length : Int) > w.np then do
        let s ← getS
        let objs := w.pids.filterMap fun pid => s.objs.find? (·.pid = pid)
        let extra := (sortByStartedDesc objs).drop w.np.toNat
        let toKill ← forIn extra [] (mtBody u)
        awaitMulti rec (toKill.map fun p => .killProcess u p none none) (.manageAfterKill u toKill) wt
      else deliver rec wt .unit) := rfl

theorem mem_insertObj {x o : PObj} {l : List PObj} (h : o ∈ insertObj x l) : o = x ∨ o ∈ l := by
  induction l with
  | nil => simp only [insertObj, List.mem_singleton] at h; exact Or.inl h
  | cons y ys ih =>
    simp only [insertObj] at h
    split at h
    · rcases List.mem_cons.mp h with h | h
      · exact Or.inl h
      · exact Or.inr h
    · rcases List.mem_cons.mp h with h | h
      · exact Or.inr (by rw [h]; exact List.mem_cons_self)
      · rcases ih h with h | h
        · exact Or.inl h
        · exact Or.inr (List.mem_cons_of_mem _ h)

theorem mem_sortByStartedDesc {o : PObj} {l : List PObj} (h : o ∈ sortByStartedDesc l) : o ∈ l := by
  induction l with
  | nil => exact h
  | cons x xs ih =>
    simp only [sortByStartedDesc, List.foldr_cons] at h
    rcases mem_insertObj h with h | h
    · rw [h]; exact List.mem_cons_self
    · exact List.mem_cons_of_mem _ (ih h)

@[aesop safe apply (rule_sets := [Sg])]
theorem manageTail_si {rec : Rec} (hrec : RecSI J rec) (u : Nat) (wt : Waiter) : Pres (SI J) (manageTail rec u wt) := by
  intro s h
  rw [manageTail_eq]
  simp only [bind]
  simp only [show (getW u s).2 = s from rfl, show ∀ t : State, (getS t).1 = t from fun _ => rfl,
    show ∀ t : State, (getS t).2 = t from fun _ => rfl]
  by_cases hgt : ((getW u s).1.pids.length : Int) > (getW u s).1.np
  · erw [if_pos hgt]
    generalize hex : List.drop (getW u s).1.np.toNat (sortByStartedDesc
      (List.filterMap (fun pid => List.find? (fun x => decide (x.pid = pid)) s.objs) (getW u s).1.pids)) = extra
    have hextra : ∀ o ∈ extra, HasObj s o.pid := by
      intro o ho
      rw [← hex] at ho
      have h1 := mem_sortByStartedDesc (List.mem_of_mem_drop ho)
      obtain ⟨pid, _, hf⟩ := List.mem_filterMap.mp h1
      exact List.mem_map.mpr ⟨o, List.mem_of_find?_eq_some hf, rfl⟩
    have key := forIn_inv (fun (r : List Nat) s' => SI J s' ∧ (∀ o ∈ extra, HasObj s' o.pid) ∧ ∀ q ∈ r, HasObj s' q)
      extra (mtBody u) (by
        intro o ho r s' ⟨hs', he', hr'⟩
        unfold mtBody
        simp only [bind]
        have hq1 := squiet_procStatus o.pid s'
        have h1 := procStatus_s (siLeafS0 J) o.pid s' hs'
        by_cases hd : isDead (procStatus o.pid s').1 = true
        · erw [if_pos hd]
          have hq2 := squiet_reapProcess u o.pid none (procStatus o.pid s').2
          have e := hq1.trans hq2
          exact ⟨reapProcess_s (siLeafS0 J) u o.pid none _ h1, fun o' ho' => e.ext.obj _ (he' o' ho'),
            fun q hq => e.ext.obj _ (hr' q hq)⟩
        · erw [if_neg hd]
          refine ⟨h1, fun o' ho' => hq1.ext.obj _ (he' o' ho'), ?_⟩
          intro q hq
          rcases List.mem_append.mp hq with hq | hq
          · exact hq1.ext.obj _ (hr' q hq)
          · simp only [List.mem_singleton] at hq
            rw [hq]; exact hq1.ext.obj _ (he' o ho)) [] s ⟨h, hextra, fun q hq => by cases hq⟩
    exact awaitMulti_kill_si hrec u none none _ _ wt rfl _ key.1 key.2.2 (fun _ => by simp)
  · erw [if_neg hgt]
    exact deliver_si hrec wt _ s h

theorem spawnAdopt_hasObj (u wid : Nat) (s : State) (pid : Nat) (h : (spawnAdopt u wid s).1 = some pid) :
    HasObj (spawnAdopt u wid s).2 pid := by
  cases hr : (s.k.spawn).2 with
  | none => rw [spawnAdopt_none u wid s hr] at h; cases h
  | some pid' =>
    rw [spawnAdopt_some u wid s pid' hr] at h ⊢
    simp only [Option.some.injEq] at h
    subst h
    show pid' ∈ (s.objs ++ _).map (·.pid)
    simp

@[aesop safe apply (rule_sets := [Sg])]
theorem spawnTry_si {rec : Rec} (hrec : RecSI J rec) (u n : Nat) : Pres (SI J) (spawnTry rec u n) := by
  induction n with
  | zero => unfold spawnTry; sg
  | succ n ih =>
    intro s h
    unfold spawnTry
    simp only [bind]
    simp only [show (getW u s).2 = s from rfl, show ∀ t : State, (nowMs t).2 = t from fun _ => rfl]
    have h0 := usedWids_s (siLeafS0 J) u s h
    generalize usedWids u s = r0 at h0 ⊢
    obtain ⟨used, s0⟩ := r0
    cases hw : nextWid (getW u s).1.np used with
    | none => exact h0
    | some wid =>
      dsimp only
      have h1 := spawnAdopt_si u wid s0 h0
      have ho := spawnAdopt_hasObj u wid s0
      generalize spawnAdopt u wid s0 = r1 at h1 ho ⊢
      obtain ⟨op, s1⟩ := r1
      cases op with
      | none => exact ih s1 h1
      | some pid =>
        dsimp only
        have ho1 : HasObj s1 pid := ho pid rfl
        have hq2 := squiet_callHook u "after_spawn" s1
        have h2 := callHook_s (siLeafS0 J) u "after_spawn" s1 h1
        generalize callHook u "after_spawn" s1 = r2 at hq2 h2 ⊢
        obtain ⟨rv, s2⟩ := r2
        have ho2 : HasObj s2 pid := hq2.ext.obj pid ho1
        by_cases hr : (!rv) = true
        · erw [if_pos hr]
          have h3 := newTop_si [TopCb.popProc u pid] s2 h2
          have ho3 : HasObj (newTop [TopCb.popProc u pid] s2).2 pid := by
            unfold newTop
            simp only [bind, pure]
            exact ho2
          generalize newTop [TopCb.popProc u pid] s2 = r3 at h3 ho3 ⊢
          obtain ⟨tid, s3⟩ := r3
          have h4 := hrec.run (.call (.killProcess u pid none none) (.top tid)) s3 h3 ⟨ho3, fun _ => by simp⟩
          exact armTop_si tid _ h4
        · erw [if_neg hr]
          exact notify_s (siLeafS0 J) u "spawn" (some pid) "-" s2 h2

@[aesop safe apply (rule_sets := [Sg])]
theorem spawnProcess_si {rec : Rec} (hrec : RecSI J rec) (u : Nat) : Pres (SI J) (spawnProcess rec u) := by
  unfold spawnProcess; sg

/-- the start of a sequential reload: the active workers all have their `Process` object -/
def reloadSeqStart (rec : Rec) (u : Nat) (wt : Waiter) : M Unit := do
  let act ← activeProcs u
  rec (.resume (.reloadSeqAfterSleep u act) .unit wt)

theorem reloadW_eq (rec : Rec) (wuid : Nat) (graceful sequential : Bool) (wt : Waiter) :
    reloadW rec wuid graceful sequential wt = (do
      let w ← getW wuid
      if !graceful then await rec (.restart_ wuid) .startTail wt
      else if w.status = .stopped then await rec (.start_ wuid) (.reloadTail wuid) wt
      else if w.sendHup then
        let mut err : Option Exc := none
        for pid in w.pids do
          if err.isNone then
            let r ← kKill pid 1
            err := r.exc
        match err with
        | none => rec (.resume (.reloadTail wuid) .unit wt)
        | some e => deliver rec wt (.exc e)
      else if sequential then reloadSeqStart rec wuid wt
      else
        let mut err : Option String := none
        for _ in List.range w.np.toNat do
          if err.isNone then
            let r ← spawnProcess rec wuid
            match r with
            | .raised e => err := some e
            | _ => pure ()
        match err with
        | some e => deliver rec wt (excVal e)
        | none => await rec (.manageProcesses wuid) (.reloadTail wuid) wt) := rfl

theorem reloadSeqStart_si {rec : Rec} (hrec : RecSI J rec) (u : Nat) (wt : Waiter) : Pres (SI J) (reloadSeqStart rec u wt) := by
  intro s h
  unfold reloadSeqStart
  simp only [bind]
  have hq := squiet_activeProcs u s
  refine hrec.run _ _ (activeProcs_s (siLeafS0 J) u s h) ⟨?_, fun p hp => by cases hp⟩
  intro q hq'
  exact hq.ext.obj q (listed_hasObj h.pid (activeProcs_subset u s q hq'))

@[aesop safe apply (rule_sets := [Sg])]
theorem reloadW_si {rec : Rec} (hrec : RecSI J rec) (u : Nat) (g sq : Bool) (wt : Waiter) : Pres (SI J) (reloadW rec u g sq wt) := by
  have h1 := reloadSeqStart_si hrec u wt
  rw [reloadW_eq]
  aesop (add safe apply h1) (rule_sets := [Sg]) (config := { terminal := true, useDefaultSimpSet := false, useSimpAll := false, maxRuleApplications := 3000 })

theorem reloadSeqNext_si {rec : Rec} (hrec : RecSI J rec) (u : Nat) (rest : List Nat) (wt : Waiter) (s : State) (h : SI J s)
    (hr : ∀ q ∈ rest, HasObj s q) : SI J (reloadSeqNext rec u rest wt s).2 := by
  unfold reloadSeqNext
  cases rest with
  | nil => exact hrec.res_free _ _ _ rfl s h
  | cons p rest' =>
    exact await_si_ctx hrec _ _ wt s h ⟨hr p List.mem_cons_self, fun _ => by simp⟩ (fun q hq => hr q (List.mem_cons_of_mem _ hq))
      (fun q hq => by cases hq)

theorem spawnProcess_hasObj {rec : Rec} (hrec : RecSI J rec) (u : Nat) (s : State) (p : Nat) (h : HasObj s p) :
    HasObj (spawnProcess rec u s).2 p :=
  spawnProcess_pres (hasObjSpec p).toSpecCore rec (fun t s' h' => hrec.obj t s' p h') u s h

theorem reloadSeqAfterKill_si {rec : Rec} (hrec : RecSI J rec) (u pid : Nat) (rest : List Nat) (wt : Waiter) (s : State) (h : SI J s)
    (hr : ∀ q ∈ rest, HasObj s q) : SI J (reloadSeqAfterKill rec u pid rest wt s).2 := by
  unfold reloadSeqAfterKill
  simp only [bind]
  have hq1 := squiet_reapProcess u pid none s
  have h1 := reapProcess_s (siLeafS0 J) u pid none s h
  have h2 := spawnProcess_si hrec u _ h1
  have hr2 : ∀ q ∈ rest, HasObj (spawnProcess rec u (reapProcess u pid none s).2).2 q :=
    fun q hq => spawnProcess_hasObj hrec u _ q (hq1.ext.obj q (hr q hq))
  generalize spawnProcess rec u (reapProcess u pid none s).2 = r at h2 hr2
  obtain ⟨res, s2⟩ := r
  cases res with
  | raised e => exact deliver_si hrec wt _ _ h2
  | rTrue => exact awaitSleep_si_ctx _ _ wt _ h2 hr2 (fun p hp => by cases hp)
  | rFalse => exact awaitSleep_si_ctx _ _ wt _ h2 hr2 (fun p hp => by cases hp)
  | started t => exact awaitSleep_si_ctx _ _ wt _ h2 hr2 (fun p hp => by cases hp)

/-! ### the other bodies: compositions -/

attribute [aesop safe apply (rule_sets := [Sg])] stopCore_ofE

@[aesop safe apply (rule_sets := [Sg])]
theorem stopW_si {rec : Rec} (hrec : RecSI J rec) (u : Nat) (close : Bool) (wt : Waiter) : Pres (SI J) (stopW rec u close wt) := by
  unfold stopW; sg
@[aesop safe apply (rule_sets := [Sg])]
theorem stopAfterKill_si {rec : Rec} (hrec : RecSI J rec) (u : Nat) (close : Bool) (wt : Waiter) : Pres (SI J) (stopAfterKill rec u close wt) := by
  unfold stopAfterKill; sg
@[aesop safe apply (rule_sets := [Sg])]
theorem spawnLoop_si {rec : Rec} (hrec : RecSI J rec) (u rem : Nat) (wt : Waiter) : Pres (SI J) (spawnLoop rec u rem wt) := by
  unfold spawnLoop; sg
@[aesop safe apply (rule_sets := [Sg])]
theorem spawnProcesses_si {rec : Rec} (hrec : RecSI J rec) (u : Nat) (wt : Waiter) : Pres (SI J) (spawnProcesses rec u wt) := by
  unfold spawnProcesses; sg
@[aesop safe apply (rule_sets := [Sg])]
theorem popKilled_si {rec : Rec} (hrec : RecSI J rec) (u : Nat) (tk : List Nat) (v : Val) (wt : Waiter) : Pres (SI J) (popKilled rec u tk v wt) := by
  unfold popKilled; sg
@[aesop safe apply (rule_sets := [Sg])]
theorem manageAfterExpire_si {rec : Rec} (hrec : RecSI J rec) (u : Nat) (wt : Waiter) : Pres (SI J) (manageAfterExpire rec u wt) := by
  unfold manageAfterExpire; sg
@[aesop safe apply (rule_sets := [Sg])]
theorem manageProcesses_si {rec : Rec} (hrec : RecSI J rec) (u : Nat) (wt : Waiter) : Pres (SI J) (manageProcesses rec u wt) := by
  unfold manageProcesses; sg
@[aesop safe apply (rule_sets := [Sg])]
theorem startW_si {rec : Rec} (hrec : RecSI J rec) (u : Nat) (wt : Waiter) : Pres (SI J) (startW rec u wt) := by
  unfold startW; sg
@[aesop safe apply (rule_sets := [Sg])]
theorem startAfterSpawn_si {rec : Rec} (hrec : RecSI J rec) (u : Nat) (wt : Waiter) : Pres (SI J) (startAfterSpawn rec u wt) := by
  unfold startAfterSpawn; sg
@[aesop safe apply (rule_sets := [Sg])]
theorem setNumprocesses_si {rec : Rec} (hrec : RecSI J rec) (u : Nat) (n : Int) (wt : Waiter) : Pres (SI J) (setNumprocesses rec u n wt) := by
  unfold setNumprocesses; sg
@[aesop safe apply (rule_sets := [Sg])]
theorem doAction_si {rec : Rec} (hrec : RecSI J rec) (u : Nat) (n : Int) (wt : Waiter) : Pres (SI J) (doAction rec u n wt) := by
  unfold doAction; sg
@[aesop safe apply (rule_sets := [Sg])]
theorem pubInfo_si {rec : Rec} (hrec : RecSI J rec) (u : Nat) (b : List Nat) (wt : Waiter) : Pres (SI J) (pubInfo rec u b wt) := by
  unfold pubInfo; sg
@[aesop safe apply (rule_sets := [Sg])]
theorem arbStartNext_si {rec : Rec} (hrec : RecSI J rec) (ws : List Nat) (wt : Waiter) : Pres (SI J) (arbStartNext rec ws wt) := by
  unfold arbStartNext; sg
@[aesop safe apply (rule_sets := [Sg])]
theorem arbStartAfterStart_si {rec : Rec} (hrec : RecSI J rec) (ws : List Nat) (wt : Waiter) : Pres (SI J) (arbStartAfterStart rec ws wt) := by
  unfold arbStartAfterStart; sg
@[aesop safe apply (rule_sets := [Sg])]
theorem arbStopTail_si {rec : Rec} (hrec : RecSI J rec) (wt : Waiter) : Pres (SI J) (arbStopTail rec wt) := by
  unfold arbStopTail; sg
@[aesop safe apply (rule_sets := [Sg])]
theorem arbStop_si {rec : Rec} (hrec : RecSI J rec) (wt : Waiter) : Pres (SI J) (arbStop rec wt) := by
  unfold arbStop; sg
@[aesop safe apply (rule_sets := [Sg])]
theorem arbRestartInside_si {rec : Rec} (hrec : RecSI J rec) (wt : Waiter) : Pres (SI J) (arbRestartInside rec wt) := by
  unfold arbRestartInside; sg
@[aesop safe apply (rule_sets := [Sg])]
theorem arbReloadNext_si {rec : Rec} (hrec : RecSI J rec) (ws : List Nat) (g sq : Bool) (wt : Waiter) : Pres (SI J) (arbReloadNext rec ws g sq wt) := by
  unfold arbReloadNext; sg
@[aesop safe apply (rule_sets := [Sg])]
theorem arbReloadAfter_si {rec : Rec} (hrec : RecSI J rec) (ws : List Nat) (g sq : Bool) (wt : Waiter) : Pres (SI J) (arbReloadAfter rec ws g sq wt) := by
  unfold arbReloadAfter; sg
@[aesop safe apply (rule_sets := [Sg])]
theorem manageWatchers_si {rec : Rec} (hrec : RecSI J rec) (wt : Waiter) : Pres (SI J) (manageWatchers rec wt) := by
  unfold manageWatchers; sg
@[aesop safe apply (rule_sets := [Sg])]
theorem rmWatcher_si {rec : Rec} (hrec : RecSI J rec) (uid : Nat) (ns : Bool) (wt : Waiter) : Pres (SI J) (rmWatcher rec uid ns wt) := by
  unfold rmWatcher; sg
@[aesop safe apply (rule_sets := [Sg])]
theorem manageWatchersTail_si {rec : Rec} (hrec : RecSI J rec) (need : Bool) (wt : Waiter) : Pres (SI J) (manageWatchersTail rec need wt) := by
  unfold manageWatchersTail; sg

/-! ### the interpreter -/

theorem runCall_si {rec : Rec} (hrec : RecSI J rec) (c : Call) (wt : Waiter) (s : State) (h : SI J s) (ht : CallOk J s c) :
    SI J (runCall rec c wt s).2 := by
  unfold runCall
  split
  all_goals first
    | exact killProcess_si hrec _ _ _ _ wt s h ht
    | exact awaitMulti_kill_si hrec _ _ _ _ .ignore wt rfl s h ht.1 ht.2
    | exact killProcesses_si hrec _ _ _ wt ht s h
    | (refine (?_ : Pres (SI J) _) s h; sg)

theorem runResume_si {rec : Rec} (hrec : RecSI J rec) (k : Kont) (v : Val) (wt : Waiter) (s : State) (h : SI J s)
    (ht : TaskOk J s (.resume k v wt)) : SI J (runResume rec k v wt s).2 := by
  unfold runResume
  split
  all_goals first
    | exact killLoop_si hrec _ _ _ _ _ wt s h (LoopOk.le ht.1) (LoopOk.obj ht.1) (LoopOk.began ht.1) (LoopOk.stopping ht.1) (ht.2 _ rfl)
    | exact reloadSeqAfterKill_si hrec _ _ _ wt s h ht.1
    | exact reloadSeqNext_si hrec _ _ wt s h ht.1
    | (refine (?_ : Pres (SI J) _) s h; sg)

/-- **the interpreter keeps the signal invariant** for every task that is `TaskOk`, at any fuel -/
theorem exec_si : ∀ n, RecSI J (exec n) := by
  intro n
  induction n with
  | zero =>
    refine ⟨fun t s h _ => ?_, fun t s p hp => exec_hasObj 0 t s p hp⟩
    unfold exec
    exact emit_si .outOfFuel rfl rfl s h
  | succ n ih =>
    refine ⟨?_, fun t s p hp => exec_hasObj _ t s p hp⟩
    intro t s h ht
    unfold exec
    simp only [bind, getS]
    by_cases hb : s.blocked = true
    · erw [if_pos hb]; exact h
    · erw [if_neg hb]
      cases t with
      | call c w => exact runCall_si ih c w s h ht
      | resume k v w => exact runResume_si ih k v w s h ht

end Circus.Core
