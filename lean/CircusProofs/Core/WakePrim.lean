import CircusProofs.Core.WakeDefs
import CircusProofs.Core.WakeAttr
/-!
Token algebra of the primitive writers of the coroutine machinery: how each of them moves tokens
between the state (frames / sleepers / ready queue) and the hand.
-/
set_option linter.unusedSimpArgs false
namespace Circus.Core

/-- the invariant with the hand fixed, as a state predicate -/
abbrev W (h : List Tgt) : State → Prop := fun s => Wake s h

/-- Hoare triple (result ignored) -/
def HTr {α : Type} (P : State → Prop) (m : M α) (Q : State → Prop) : Prop := ∀ s, P s → Q (m s).2

/-- Hoare triple with a post-condition that sees the result -/
def HTrR {α : Type} (P : State → Prop) (m : M α) (Q : α → State → Prop) : Prop := ∀ s, P s → Q (m s).1 (m s).2

/-! ### lists -/

theorem filter_ne_self {α : Type} (key : α → Nat) (xs : List α) (k : Nat) (h : ∀ y ∈ xs, ¬ key y = k) :
    xs.filter (fun x => !decide (key x = k)) = xs := by
  apply List.filter_eq_self.mpr
  intro y hy
  simp [h y hy]

theorem perm_filter_ne {α : Type} (key : α → Nat) (l : List α) (a : α) (ha : a ∈ l) (hnd : (l.map key).Nodup) :
    l.Perm (a :: l.filter (fun x => !decide (key x = key a))) := by
  induction l with
  | nil => cases ha
  | cons x xs ih =>
    simp only [List.map_cons, List.nodup_cons, List.mem_map, not_exists, not_and] at hnd
    rcases List.mem_cons.mp ha with rfl | hmem
    · have hall := filter_ne_self key xs (key a) (fun y hy => hnd.1 y hy)
      simp only [List.filter_cons, decide_true, Bool.not_true, Bool.false_eq_true, if_false, hall]
      exact List.Perm.refl _
    · have hne : ¬ key x = key a := fun h => hnd.1 a hmem h.symm
      have h1 := ih hmem hnd.2
      simp only [List.filter_cons, hne, decide_false, Bool.not_false, if_true]
      exact (List.Perm.cons x h1).trans (List.Perm.swap a x _)

theorem eraseP_eq_filter {α : Type} (key : α → Nat) (l : List α) (k : Nat) (hnd : (l.map key).Nodup) :
    l.eraseP (fun x => decide (key x = k)) = l.filter (fun x => !decide (key x = k)) := by
  induction l with
  | nil => rfl
  | cons x xs ih =>
    simp only [List.map_cons, List.nodup_cons, List.mem_map, not_exists, not_and] at hnd
    by_cases hx : key x = k
    · have hall := filter_ne_self key xs k (fun y hy => by subst hx; exact hnd.1 y hy)
      simp only [List.eraseP_cons, List.filter_cons, hx, decide_true, Bool.not_true, Bool.false_eq_true, if_false,
        cond_true, hall]
    · simp only [List.eraseP_cons, List.filter_cons, hx, decide_false, Bool.not_false, cond_false,
        if_true, ih hnd.2]

theorem wk_find_frame {l : List Frame} {fid : Nat} {f : Frame} (h : l.find? (fun x => decide (x.fid = fid)) = some f) :
    f ∈ l ∧ f.fid = fid := by
  refine ⟨List.mem_of_find?_eq_some h, ?_⟩
  have := List.find?_some h
  simpa using this

theorem wk_find_frame_none {l : List Frame} {fid : Nat} (h : l.find? (fun x => decide (x.fid = fid)) = none) :
    ∀ f ∈ l, f.fid ≠ fid := by
  intro f hf
  have := List.find?_eq_none.mp h f hf
  simpa using this

theorem wk_find_top {l : List TopFut} {tid : Nat} {t : TopFut} (h : l.find? (fun x => decide (x.tid = tid)) = some t) :
    t ∈ l ∧ t.tid = tid := by
  refine ⟨List.mem_of_find?_eq_some h, ?_⟩
  have := List.find?_some h
  simpa using this

theorem wk_find_top_none {l : List TopFut} {tid : Nat} (h : l.find? (fun x => decide (x.tid = tid)) = none) :
    ∀ t ∈ l, t.tid ≠ tid := by
  intro t ht
  have := List.find?_eq_none.mp h t ht
  simpa using this

/-! ### the escape -/

theorem Esc.of_eq {s s' : State} (hb : s'.blocked = s.blocked) (hl : s'.log = s.log) (h : Esc s) : Esc s' := by
  unfold Esc at *; rw [hb, hl]; exact h

theorem Wake.lift {s s' : State} {h h' : List Tgt} (he : Esc s → Esc s') (hc : WakeCore s h → WakeCore s' h')
    (hw : Wake s h) : Wake s' h' := by
  rcases hw with e | c
  · exact Or.inl (he e)
  · exact Or.inr (hc c)

/-! ### writers that touch none of frames / sleepers / tops / ready -/

theorem WakeCore.quiet {s s' : State} {h : List Tgt} (c : WakeCore s h)
    (hf : s'.frames = s.frames) (hsl : s'.sleepers = s.sleepers) (ht : s'.tops = s.tops)
    (hr : s'.ready = s.ready) (hn : s.nextId ≤ s'.nextId) : WakeCore s' h := by
  have htk : s'.toks = s.toks := by simp [State.toks, hf, hsl, hr]
  constructor <;> simp only [hf, hsl, ht, hr, htk]
  · exact fun f hf' => Nat.lt_of_lt_of_le (c.fidLt f hf') hn
  · exact c.fidNd
  · exact fun t ht' => Nat.lt_of_lt_of_le (c.tidLt t ht') hn
  · exact c.tidNd
  · exact fun t ht' => Nat.lt_of_lt_of_le (c.sidLt t ht') hn
  · exact c.sidNd
  · exact fun t ht' => Nat.lt_of_lt_of_le (c.tokLt t ht') hn
  · exact c.parLt
  · exact c.noSlot
  · exact c.room
  · exact c.held
  · exact c.topHeld
  · exact c.slotOk

theorem Wake.quiet {s s' : State} {h : List Tgt} (hw : Wake s h)
    (hf : s'.frames = s.frames) (hsl : s'.sleepers = s.sleepers) (ht : s'.tops = s.tops)
    (hr : s'.ready = s.ready) (hn : s.nextId ≤ s'.nextId) (he : Esc s → Esc s') : Wake s' h :=
  Wake.lift he (fun c => c.quiet hf hsl ht hr hn) hw

/-- a state writer that keeps the coroutine heap, never unblocks and never shortens the log -/
theorem W.modS {h : List Tgt} (f : State → State)
    (hf : ∀ s, (f s).frames = s.frames ∧ (f s).sleepers = s.sleepers ∧ (f s).tops = s.tops ∧ (f s).ready = s.ready ∧
      (f s).nextId = s.nextId ∧ (f s).blocked = s.blocked ∧ (f s).log = s.log) : Pres (W h) (modS f) := by
  intro s hw
  obtain ⟨h1, h2, h3, h4, h5, h6, h7⟩ := hf s
  exact Wake.quiet hw h1 h2 h3 h4 (Nat.le_of_eq h5.symm) (Esc.of_eq h6 h7)


/-! ### frames / tops rewritten in place (armed flag, callbacks) -/

theorem WakeCore.frameMap {s : State} {h : List Tgt} (c : WakeCore s h) (upd : Frame → Frame)
    (hu : ∀ g, (upd g).fid = g.fid ∧ (upd g).k = g.k ∧ (upd g).parent = g.parent) :
    WakeCore { s with frames := s.frames.map upd } h := by
  have h1 : (s.frames.map upd).map (·.fid) = s.frames.map (·.fid) := by
    rw [List.map_map]; apply List.map_congr_left; intro g _; exact (hu g).1
  have h2 : (s.frames.map upd).flatMap (fun f => f.parent.tl) = s.frames.flatMap (fun f => f.parent.tl) := by
    rw [List.flatMap_map]; congr 1; funext g; simp [(hu g).2.2]
  have htk : State.toks { s with frames := s.frames.map upd } = s.toks := by simp [State.toks, h2]
  constructor <;> simp only [htk, h1]
  · intro f hf
    obtain ⟨g, hg, rfl⟩ := List.mem_map.mp hf
    rw [(hu g).1]; exact c.fidLt g hg
  · exact c.fidNd
  · exact c.tidLt
  · exact c.tidNd
  · exact c.sidLt
  · exact c.sidNd
  · exact c.tokLt
  · intro f hf
    obtain ⟨g, hg, rfl⟩ := List.mem_map.mp hf
    rw [(hu g).1, (hu g).2.2]; exact c.parLt g hg
  · intro f hf
    obtain ⟨g, hg, rfl⟩ := List.mem_map.mp hf
    rw [(hu g).2.1]; exact c.noSlot g hg
  · intro f hf
    obtain ⟨g, hg, rfl⟩ := List.mem_map.mp hf
    rw [(hu g).2.1]; exact c.room g hg
  · intro f hf
    obtain ⟨g, hg, rfl⟩ := List.mem_map.mp hf
    rw [(hu g).1, (hu g).2.1]; exact c.held g hg
  · exact c.topHeld
  · intro r hr f hf
    obtain ⟨g, hg, rfl⟩ := List.mem_map.mp hf
    rw [(hu g).1, (hu g).2.1]; exact c.slotOk r hr g hg

theorem WakeCore.topMap {s : State} {h : List Tgt} (c : WakeCore s h) (upd : TopFut → TopFut)
    (hu : ∀ g, (upd g).tid = g.tid) : WakeCore { s with tops := s.tops.map upd } h := by
  have h1 : (s.tops.map upd).map (·.tid) = s.tops.map (·.tid) := by
    rw [List.map_map]; apply List.map_congr_left; intro g _; exact hu g
  have htk : State.toks { s with tops := s.tops.map upd } = s.toks := rfl
  constructor <;> simp only [htk, h1]
  · exact c.fidLt
  · exact c.fidNd
  · intro t ht
    obtain ⟨g, hg, rfl⟩ := List.mem_map.mp ht
    rw [hu g]; exact c.tidLt g hg
  · exact c.tidNd
  · exact c.sidLt
  · exact c.sidNd
  · exact c.tokLt
  · exact c.parLt
  · exact c.noSlot
  · exact c.room
  · exact c.held
  · intro t ht
    obtain ⟨g, hg, rfl⟩ := List.mem_map.mp ht
    rw [hu g]; exact c.topHeld g hg
  · exact c.slotOk

/-- a step that neither unblocks nor touches the log: only `Core` has to be looked at -/
theorem HTr.ofCore {α : Type} {m : M α} {h h' : List Tgt} (hb : ∀ s, (m s).2.blocked = s.blocked)
    (hl : ∀ s, (m s).2.log = s.log) (hc : ∀ s, WakeCore s h → WakeCore (m s).2 h') : HTr (W h) m (W h') :=
  fun s hw => Wake.lift (fun e => Esc.of_eq (hb s) (hl s) e) (hc s) hw

theorem armFrame_w (h : List Tgt) (fid : Nat) : Pres (W h) (armFrame fid) :=
  HTr.ofCore (by intro s; rfl) (by intro s; rfl) (fun s c => c.frameMap _ (fun g => by split <;> simp))

theorem armTop_w (h : List Tgt) (tid : Nat) : Pres (W h) (armTop tid) :=
  HTr.ofCore (by intro s; rfl) (by intro s; rfl) (fun s c => c.topMap _ (fun g => by split <;> simp))

theorem topAddCb_w (h : List Tgt) (tid : Nat) (cb : TopCb) : Pres (W h) (topAddCb tid cb) :=
  HTr.ofCore (by intro s; rfl) (by intro s; rfl) (fun s c => c.topMap _ (fun g => by split <;> simp))


/-! ### token moves -/

theorem mem_of_count_le {l l' x : List Tgt} (h : ∀ t, l'.count t ≤ l.count t + x.count t) :
    ∀ t ∈ l', t ∈ l ∨ t ∈ x := by
  intro t ht
  have h1 := List.count_pos_iff.mpr ht
  have h2 := h t
  by_cases hl : t ∈ l
  · exact Or.inl hl
  · right
    have : l.count t = 0 := List.count_eq_zero.mpr hl
    exact List.count_pos_iff.mp (by omega)

theorem mem_of_count_le0 {l l' : List Tgt} (h : ∀ t, l'.count t ≤ l.count t) : ∀ t ∈ l', t ∈ l := by
  intro t ht
  have h1 := List.count_pos_iff.mpr ht
  have h2 := h t
  exact List.count_pos_iff.mp (by omega)

theorem slotFid_mem_tl {r : Ready} {fid : Nat} (h : r.slotFid = some fid) : Tgt.frame fid ∈ r.tl := by
  cases r with
  | resume k v w =>
    cases k <;> simp [Ready.slotFid] at h
    subst h; simp [Ready.tl, tokOf]
  | _ => simp [Ready.slotFid] at h

theorem mem_toks_of_ready {s : State} {r : Ready} {t : Tgt} (hr : r ∈ s.ready) (ht : t ∈ r.tl) : t ∈ s.toks := by
  unfold State.toks
  exact List.mem_append_right _ (List.mem_flatMap.mpr ⟨r, hr, ht⟩)

theorem WakeCore.newFrame {s : State} {h : List Tgt} (k : Kont) (parent : Waiter) (hk : k.isSlot = false)
    (hr : k.got < k.need) (c : WakeCore s (parent.tl ++ h)) :
    WakeCore { s with nextId := s.nextId + 1, frames := s.frames ++ [({ fid := s.nextId, k := k, parent := parent } : Frame)] }
      (List.replicate k.need (Tgt.frame s.nextId) ++ h) := by
  have hcnt : ∀ t, (State.toks { s with nextId := s.nextId + 1, frames := s.frames ++ [({ fid := s.nextId, k := k, parent := parent } : Frame)] }
        ++ (List.replicate k.need (Tgt.frame s.nextId) ++ h)).count t =
      (s.toks ++ (parent.tl ++ h)).count t + (List.replicate k.need (Tgt.frame s.nextId)).count t := by
    intro t
    simp only [State.toks, List.flatMap_append, List.flatMap_cons, List.flatMap_nil, List.count_append, List.append_nil]
    omega
  constructor
  · intro f hf
    simp only [List.mem_append, List.mem_singleton] at hf
    rcases hf with hf | rfl
    · exact Nat.lt_succ_of_lt (c.fidLt f hf)
    · exact Nat.lt_succ_self _
  · simp only [List.map_append, List.map_cons, List.map_nil]
    rw [List.nodup_append]
    refine ⟨c.fidNd, by simp, ?_⟩
    intro a ha b hb
    simp only [List.mem_singleton] at hb
    obtain ⟨f, hf, rfl⟩ := List.mem_map.mp ha
    have := c.fidLt f hf
    omega
  · exact fun t ht => Nat.lt_succ_of_lt (c.tidLt t ht)
  · exact c.tidNd
  · exact fun t ht => Nat.lt_succ_of_lt (c.sidLt t ht)
  · exact c.sidNd
  · intro t ht
    rcases mem_of_count_le (fun t => Nat.le_of_eq (hcnt t)) t ht with ht | ht
    · exact Nat.lt_succ_of_lt (c.tokLt t ht)
    · obtain ⟨_, rfl⟩ := List.mem_replicate.mp ht
      exact Nat.lt_succ_self _
  · intro f hf
    simp only [List.mem_append, List.mem_singleton] at hf
    rcases hf with hf | rfl
    · exact c.parLt f hf
    · intro t ht
      exact c.tokLt t (List.mem_append_right _ (List.mem_append_left _ ht))
  · intro f hf
    simp only [List.mem_append, List.mem_singleton] at hf
    rcases hf with hf | rfl
    · exact c.noSlot f hf
    · exact hk
  · intro f hf
    simp only [List.mem_append, List.mem_singleton] at hf
    rcases hf with hf | rfl
    · exact c.room f hf
    · exact hr
  · intro f hf
    simp only [List.mem_append, List.mem_singleton] at hf
    rcases hf with hf | rfl
    · have := c.held f hf; have := hcnt (Tgt.frame f.fid); omega
    · have := hcnt (Tgt.frame s.nextId)
      simp only [List.count_replicate_self] at this
      simp only; omega
  · intro t ht
    have := c.topHeld t ht; have := hcnt (Tgt.top t.tid); omega
  · intro r hr f hf e
    simp only [List.mem_append, List.mem_singleton] at hf
    rcases hf with hf | rfl
    · exact c.slotOk r hr f hf e
    · exfalso
      have := c.tokLt _ (List.mem_append_left _ (mem_toks_of_ready hr (slotFid_mem_tl e)))
      exact Nat.lt_irrefl _ this


theorem nodup_key_inj {α : Type} (key : α → Nat) {l : List α} (hnd : (l.map key).Nodup) {a b : α}
    (ha : a ∈ l) (hb : b ∈ l) (h : key a = key b) : a = b := by
  induction l with
  | nil => cases ha
  | cons x xs ih =>
    simp only [List.map_cons, List.nodup_cons, List.mem_map, not_exists, not_and] at hnd
    rcases List.mem_cons.mp ha with rfl | ha' <;> rcases List.mem_cons.mp hb with rfl | hb'
    · rfl
    · exact absurd h.symm (hnd.1 b hb')
    · exact absurd h (hnd.1 a ha')
    · exact ih hnd.2 ha' hb'

theorem WakeCore.addSleeper {s : State} {h : List Tgt} (dl : Nat) (w : Waiter) (c : WakeCore s (w.tl ++ h)) :
    WakeCore { s with nextId := s.nextId + 1, sleepers := s.sleepers ++ [({ sid := s.nextId, deadline := dl, waiter := w } : Sleeper)] } h := by
  have hcnt : ∀ t, (State.toks { s with nextId := s.nextId + 1, sleepers := s.sleepers ++ [({ sid := s.nextId, deadline := dl, waiter := w } : Sleeper)] } ++ h).count t =
      (s.toks ++ (w.tl ++ h)).count t := by
    intro t
    simp only [State.toks, List.flatMap_append, List.flatMap_cons, List.flatMap_nil, List.count_append, List.append_nil]
    omega
  constructor
  · exact fun f hf => Nat.lt_succ_of_lt (c.fidLt f hf)
  · exact c.fidNd
  · exact fun t ht => Nat.lt_succ_of_lt (c.tidLt t ht)
  · exact c.tidNd
  · intro sl hsl
    simp only [List.mem_append, List.mem_singleton] at hsl
    rcases hsl with hsl | rfl
    · exact Nat.lt_succ_of_lt (c.sidLt sl hsl)
    · exact Nat.lt_succ_self _
  · simp only [List.map_append, List.map_cons, List.map_nil]
    rw [List.nodup_append]
    refine ⟨c.sidNd, by simp, ?_⟩
    intro a ha b hb
    simp only [List.mem_singleton] at hb
    obtain ⟨f, hf, rfl⟩ := List.mem_map.mp ha
    have := c.sidLt f hf
    omega
  · intro t ht
    exact Nat.lt_succ_of_lt (c.tokLt t (mem_of_count_le0 (fun t => Nat.le_of_eq (hcnt t)) t ht))
  · exact c.parLt
  · exact c.noSlot
  · exact c.room
  · intro f hf
    have := c.held f hf; have := hcnt (Tgt.frame f.fid); omega
  · intro t ht
    have := c.topHeld t ht; have := hcnt (Tgt.top t.tid); omega
  · exact c.slotOk

theorem WakeCore.enqueue {s : State} {h : List Tgt} (r : Ready) (c : WakeCore s (r.tl ++ h))
    (hsl : ∀ f ∈ s.frames, r.slotFid = some f.fid → f.k.isMulti = true) :
    WakeCore { s with ready := s.ready ++ [r] } h := by
  have hcnt : ∀ t, (State.toks { s with ready := s.ready ++ [r] } ++ h).count t = (s.toks ++ (r.tl ++ h)).count t := by
    intro t
    simp only [State.toks, List.flatMap_append, List.flatMap_cons, List.flatMap_nil, List.count_append, List.append_nil]
    omega
  constructor
  · exact c.fidLt
  · exact c.fidNd
  · exact c.tidLt
  · exact c.tidNd
  · exact c.sidLt
  · exact c.sidNd
  · intro t ht
    exact c.tokLt t (mem_of_count_le0 (fun t => Nat.le_of_eq (hcnt t)) t ht)
  · exact c.parLt
  · exact c.noSlot
  · exact c.room
  · intro f hf
    have := c.held f hf; have := hcnt (Tgt.frame f.fid); omega
  · intro t ht
    have := c.topHeld t ht; have := hcnt (Tgt.top t.tid); omega
  · intro r' hr' f hf e
    simp only [List.mem_append, List.mem_singleton] at hr'
    rcases hr' with hr' | rfl
    · exact c.slotOk r' hr' f hf e
    · exact hsl f hf e

theorem WakeCore.dequeue {s : State} {h : List Tgt} (r : Ready) (rest : List Ready) (hr : s.ready = r :: rest)
    (c : WakeCore s h) : WakeCore { s with ready := s.ready.tail } (r.tl ++ h) := by
  have hcnt : ∀ t, (State.toks { s with ready := s.ready.tail } ++ (r.tl ++ h)).count t = (s.toks ++ h).count t := by
    intro t
    simp only [State.toks, hr, List.tail_cons, List.flatMap_append, List.flatMap_cons, List.flatMap_nil, List.count_append, List.append_nil]
    omega
  constructor
  · exact c.fidLt
  · exact c.fidNd
  · exact c.tidLt
  · exact c.tidNd
  · exact c.sidLt
  · exact c.sidNd
  · intro t ht
    exact c.tokLt t (mem_of_count_le0 (fun t => Nat.le_of_eq (hcnt t)) t ht)
  · exact c.parLt
  · exact c.noSlot
  · exact c.room
  · intro f hf
    have := c.held f hf; have := hcnt (Tgt.frame f.fid); omega
  · intro t ht
    have := c.topHeld t ht; have := hcnt (Tgt.top t.tid); omega
  · exact fun r' hr' => c.slotOk r' (List.mem_of_mem_tail hr')

theorem WakeCore.fireSleeper {s : State} {h : List Tgt} (sl : Sleeper) (k' : Kernel) (hsl : sl ∈ s.sleepers) (c : WakeCore s h) :
    WakeCore { s with sleepers := s.sleepers.filter (fun x => !decide (x.sid = sl.sid)), k := k' } (sl.waiter.tl ++ h) := by
  have hp := perm_filter_ne (·.sid) s.sleepers sl hsl c.sidNd
  have hcnt : ∀ t, (State.toks { s with sleepers := s.sleepers.filter (fun x => !decide (x.sid = sl.sid)), k := k' } ++ (sl.waiter.tl ++ h)).count t = (s.toks ++ h).count t := by
    intro t
    have := (hp.flatMap_right (fun sl => sl.waiter.tl)).count_eq t
    simp only [State.toks, List.flatMap_append, List.flatMap_cons, List.flatMap_nil, List.count_append, List.append_nil] at this ⊢
    omega
  constructor
  · exact c.fidLt
  · exact c.fidNd
  · exact c.tidLt
  · exact c.tidNd
  · exact fun x hx => c.sidLt x ((List.mem_filter.mp hx).1)
  · exact (List.filter_sublist.map _).nodup c.sidNd
  · intro t ht
    exact c.tokLt t (mem_of_count_le0 (fun t => Nat.le_of_eq (hcnt t)) t ht)
  · exact c.parLt
  · exact c.noSlot
  · exact c.room
  · intro f hf
    have := c.held f hf; have := hcnt (Tgt.frame f.fid); omega
  · intro t ht
    have := c.topHeld t ht; have := hcnt (Tgt.top t.tid); omega
  · exact c.slotOk

theorem WakeCore.removeFrame {s : State} {h : List Tgt} (f : Frame) (hf : f ∈ s.frames) (c : WakeCore s (Tgt.frame f.fid :: h)) :
    WakeCore { s with frames := s.frames.filter (fun x => !decide (x.fid = f.fid)) } (f.parent.tl ++ h) := by
  have hp := perm_filter_ne (·.fid) s.frames f hf c.fidNd
  have hcnt : ∀ t, (State.toks { s with frames := s.frames.filter (fun x => !decide (x.fid = f.fid)) } ++ (f.parent.tl ++ h)).count t + [Tgt.frame f.fid].count t
      = (s.toks ++ (Tgt.frame f.fid :: h)).count t := by
    intro t
    have := (hp.flatMap_right (fun f => f.parent.tl)).count_eq t
    simp only [State.toks, List.flatMap_append, List.flatMap_cons, List.flatMap_nil, List.count_append, List.append_nil,
      List.count_cons, List.count_nil] at this ⊢
    omega
  constructor
  · exact fun x hx => c.fidLt x ((List.mem_filter.mp hx).1)
  · exact (List.filter_sublist.map _).nodup c.fidNd
  · exact c.tidLt
  · exact c.tidNd
  · exact c.sidLt
  · exact c.sidNd
  · intro t ht
    exact c.tokLt t (mem_of_count_le0 (fun t => by have := hcnt t; omega) t ht)
  · exact fun x hx => c.parLt x ((List.mem_filter.mp hx).1)
  · exact fun x hx => c.noSlot x ((List.mem_filter.mp hx).1)
  · exact fun x hx => c.room x ((List.mem_filter.mp hx).1)
  · intro g hg
    have hg' := List.mem_filter.mp hg
    have hne : ¬ g.fid = f.fid := by simpa using hg'.2
    have := c.held g hg'.1; have := hcnt (Tgt.frame g.fid)
    simp only [List.count_cons, List.count_nil, beq_iff_eq, Tgt.frame.injEq] at this
    have hne' : ¬ f.fid = g.fid := fun e => hne e.symm
    simp only [hne', if_false] at this
    omega
  · intro t ht
    have := c.topHeld t ht; have := hcnt (Tgt.top t.tid)
    simp only [List.count_cons, List.count_nil, beq_iff_eq, reduceCtorEq, if_false] at this
    omega
  · exact fun r hr g hg => c.slotOk r hr g (List.mem_filter.mp hg).1


/-- one more result recorded in an unfinished `gen.multi` frame -/
theorem WakeCore.setFrameK {s : State} {h : List Tgt} (f : Frame) (n : Nat) (rs : List (Nat × Val)) (x : Nat × Val)
    (hf : f ∈ s.frames) (hk : f.k = .multi n rs) (hlt : (rs ++ [x]).length < n) (c : WakeCore s (Tgt.frame f.fid :: h)) :
    WakeCore { s with frames := s.frames.map fun g => if g.fid = f.fid then { g with k := .multi n (rs ++ [x]) } else g } h := by
  have h1 : (s.frames.map fun g => if g.fid = f.fid then { g with k := Kont.multi n (rs ++ [x]) } else g).map (·.fid) = s.frames.map (·.fid) := by
    rw [List.map_map]; apply List.map_congr_left; intro g _; simp only [Function.comp]; split <;> rfl
  have h2 : (s.frames.map fun g => if g.fid = f.fid then { g with k := Kont.multi n (rs ++ [x]) } else g).flatMap (fun f => f.parent.tl)
      = s.frames.flatMap (fun f => f.parent.tl) := by
    rw [List.flatMap_map]; congr 1; funext g; split <;> rfl
  have hcnt : ∀ t, (State.toks { s with frames := s.frames.map fun g => if g.fid = f.fid then { g with k := Kont.multi n (rs ++ [x]) } else g } ++ h).count t + [Tgt.frame f.fid].count t
      = (s.toks ++ (Tgt.frame f.fid :: h)).count t := by
    intro t
    simp only [State.toks, h2, List.count_append, List.count_cons, List.count_nil]
    omega
  constructor
  · intro g' hg'
    obtain ⟨g, hg, rfl⟩ := List.mem_map.mp hg'
    have := c.fidLt g hg
    split <;> exact this
  · rw [h1]; exact c.fidNd
  · exact c.tidLt
  · exact c.tidNd
  · exact c.sidLt
  · exact c.sidNd
  · intro t ht
    exact c.tokLt t (mem_of_count_le0 (fun t => by have := hcnt t; omega) t ht)
  · intro g' hg'
    obtain ⟨g, hg, rfl⟩ := List.mem_map.mp hg'
    have := c.parLt g hg
    split <;> exact this
  · intro g' hg'
    obtain ⟨g, hg, rfl⟩ := List.mem_map.mp hg'
    have := c.noSlot g hg
    split
    · rfl
    · exact this
  · intro g' hg'
    obtain ⟨g, hg, rfl⟩ := List.mem_map.mp hg'
    have := c.room g hg
    split
    · simpa [Kont.got, Kont.need] using hlt
    · exact this
  · intro g' hg'
    obtain ⟨g, hg, rfl⟩ := List.mem_map.mp hg'
    have hh := c.held g hg
    have hc := hcnt (Tgt.frame g.fid)
    by_cases hgf : g.fid = f.fid
    · have hgf' : g = f := nodup_key_inj (·.fid) c.fidNd hg hf hgf
      subst hgf'
      simp only [hk, Kont.need, Kont.got] at hh
      simp only [if_true, Kont.need, Kont.got, List.length_append, List.length_cons, List.length_nil]
      simp only [List.count_cons, List.count_nil, beq_self_eq_true, if_true] at hc
      omega
    · simp only [hgf, if_false]
      have hne' : ¬ f.fid = g.fid := fun e => hgf e.symm
      simp only [List.count_cons, List.count_nil, beq_iff_eq, Tgt.frame.injEq, hne', if_false] at hc
      omega
  · intro t ht
    have := c.topHeld t ht; have := hcnt (Tgt.top t.tid)
    simp only [List.count_cons, List.count_nil, beq_iff_eq, reduceCtorEq, if_false] at this
    omega
  · intro r hr g' hg' e
    obtain ⟨g, hg, rfl⟩ := List.mem_map.mp hg'
    split
    · rfl
    · rename_i hne
      simp only [hne, if_false] at e
      exact c.slotOk r hr g hg e

theorem WakeCore.newTop {s : State} {h : List Tgt} (cbs : List TopCb) (c : WakeCore s h) :
    WakeCore { s with nextId := s.nextId + 1, tops := s.tops ++ [({ tid := s.nextId, cbs := cbs } : TopFut)] } (Tgt.top s.nextId :: h) := by
  have hcnt : ∀ t, (State.toks { s with nextId := s.nextId + 1, tops := s.tops ++ [({ tid := s.nextId, cbs := cbs } : TopFut)] } ++ (Tgt.top s.nextId :: h)).count t
      = (s.toks ++ h).count t + [Tgt.top s.nextId].count t := by
    intro t
    simp only [State.toks, List.count_append, List.count_cons, List.count_nil]
    omega
  constructor
  · exact fun f hf => Nat.lt_succ_of_lt (c.fidLt f hf)
  · exact c.fidNd
  · intro t ht
    simp only [List.mem_append, List.mem_singleton] at ht
    rcases ht with ht | rfl
    · exact Nat.lt_succ_of_lt (c.tidLt t ht)
    · exact Nat.lt_succ_self _
  · simp only [List.map_append, List.map_cons, List.map_nil]
    rw [List.nodup_append]
    refine ⟨c.tidNd, by simp, ?_⟩
    intro a ha b hb
    simp only [List.mem_singleton] at hb
    obtain ⟨f, hf, rfl⟩ := List.mem_map.mp ha
    have := c.tidLt f hf
    omega
  · exact fun t ht => Nat.lt_succ_of_lt (c.sidLt t ht)
  · exact c.sidNd
  · intro t ht
    rcases mem_of_count_le (fun t => Nat.le_of_eq (hcnt t)) t ht with ht | ht
    · exact Nat.lt_succ_of_lt (c.tokLt t ht)
    · simp only [List.mem_singleton] at ht
      subst ht
      exact Nat.lt_succ_self _
  · exact c.parLt
  · exact c.noSlot
  · exact c.room
  · intro f hf
    have := c.held f hf; have := hcnt (Tgt.frame f.fid); omega
  · intro t ht
    simp only [List.mem_append, List.mem_singleton] at ht
    rcases ht with ht | rfl
    · have := c.topHeld t ht; have := hcnt (Tgt.top t.tid); omega
    · have := hcnt (Tgt.top s.nextId)
      simp only [List.count_cons, List.count_nil, beq_self_eq_true, if_true] at this
      simp only; omega
  · exact c.slotOk

theorem WakeCore.finishTop {s : State} {h : List Tgt} (tid : Nat) (dv : List (Nat × Val)) (c : WakeCore s (Tgt.top tid :: h)) :
    WakeCore { s with tops := s.tops.eraseP (fun x => decide (x.tid = tid)), doneVals := dv } h := by
  rw [eraseP_eq_filter (·.tid) s.tops tid c.tidNd]
  have hcnt : ∀ t, (State.toks { s with tops := s.tops.filter (fun x => !decide (x.tid = tid)), doneVals := dv } ++ h).count t + [Tgt.top tid].count t
      = (s.toks ++ (Tgt.top tid :: h)).count t := by
    intro t
    simp only [State.toks, List.count_append, List.count_cons, List.count_nil]
    omega
  constructor
  · exact c.fidLt
  · exact c.fidNd
  · exact fun x hx => c.tidLt x (List.mem_filter.mp hx).1
  · exact (List.filter_sublist.map _).nodup c.tidNd
  · exact c.sidLt
  · exact c.sidNd
  · intro t ht
    exact c.tokLt t (mem_of_count_le0 (fun t => by have := hcnt t; omega) t ht)
  · exact c.parLt
  · exact c.noSlot
  · exact c.room
  · intro f hf
    have := c.held f hf; have := hcnt (Tgt.frame f.fid)
    simp only [List.count_cons, List.count_nil, beq_iff_eq, reduceCtorEq, if_false] at this
    omega
  · intro t ht
    have ht' := List.mem_filter.mp ht
    have hne : ¬ t.tid = tid := by simpa using ht'.2
    have hne' : ¬ tid = t.tid := fun e => hne e.symm
    have := c.topHeld t ht'.1; have := hcnt (Tgt.top t.tid)
    simp only [List.count_cons, List.count_nil, beq_iff_eq, Tgt.top.injEq, hne', if_false] at this
    omega
  · exact c.slotOk

/-- a token for something that does not exist (any more) is dropped -/
theorem WakeCore.drop {s : State} {h : List Tgt} (t0 : Tgt) (c : WakeCore s (t0 :: h))
    (hfr : ∀ f ∈ s.frames, Tgt.frame f.fid ≠ t0) (htp : ∀ t ∈ s.tops, Tgt.top t.tid ≠ t0) : WakeCore s h := by
  have hcnt : ∀ t, (s.toks ++ h).count t + [t0].count t = (s.toks ++ (t0 :: h)).count t := by
    intro t
    simp only [List.count_append, List.count_cons, List.count_nil]
    omega
  constructor
  · exact c.fidLt
  · exact c.fidNd
  · exact c.tidLt
  · exact c.tidNd
  · exact c.sidLt
  · exact c.sidNd
  · intro t ht
    exact c.tokLt t (mem_of_count_le0 (fun t => by have := hcnt t; omega) t ht)
  · exact c.parLt
  · exact c.noSlot
  · exact c.room
  · intro f hf
    have := c.held f hf; have := hcnt (Tgt.frame f.fid)
    have hne : ¬ t0 = Tgt.frame f.fid := fun e => hfr f hf e.symm
    simp only [List.count_cons, List.count_nil, beq_iff_eq, hne, if_false] at this
    omega
  · intro t ht
    have := c.topHeld t ht; have := hcnt (Tgt.top t.tid)
    have hne : ¬ t0 = Tgt.top t.tid := fun e => htp t ht e.symm
    simp only [List.count_cons, List.count_nil, beq_iff_eq, hne, if_false] at this
    omega
  · exact c.slotOk

end Circus.Core
