import CircusProofs.Core.PidInv
/-!
Kernel facts for the signal invariants (C03 along runs): a process the kernel has marked *gone*
(collected by `waitpid`, or dead without being a child of the daemon) stays gone under every
kernel function — pids are never reused, `dead` only acts on running processes, `waitpid` only
turns zombies into gone.  Mirror of `KMono` (PidInv.lean) for the state `gone`.
-/
namespace Circus.Core

/-- the process table knows `pid`, and as gone (no signal reaches it, `children()` raises) -/
def Kernel.GoneIn (k : Kernel) (pid : Nat) : Prop := ∃ p, k.find pid = some p ∧ p.st = .gone

/-- gone stays gone -/
def KGMono (k k' : Kernel) : Prop := ∀ pid, k.GoneIn pid → k'.GoneIn pid

def KGMonoOp {α : Type} (f : Kernel → Kernel × α) : Prop := ∀ k, KGMono k (f k).1

namespace KGMono

theorem refl (k : Kernel) : KGMono k k := fun _ h => h

theorem trans {a b c : Kernel} (h1 : KGMono a b) (h2 : KGMono b c) : KGMono a c :=
  fun pid h => h2 pid (h1 pid h)

/-- mapping the table with a function that keeps pids and keeps gone processes gone -/
theorem map (k : Kernel) (f : KProc → KProc) (hf : ∀ p, (f p).pid = p.pid ∧ (p.st = .gone → (f p).st = .gone))
    (k' : Kernel) (hk : k'.procs = k.procs.map f) : KGMono k k' := by
  intro pid ⟨p, hp, hg⟩
  refine ⟨f p, ?_, (hf p).2 hg⟩
  simp only [Kernel.find] at hp ⊢
  rw [hk, KMono.find_map _ _ (fun p => (hf p).1), hp]
  rfl

theorem same (k k' : Kernel) (h : k'.procs = k.procs) : KGMono k k' :=
  map k id (fun _ => ⟨rfl, fun h => h⟩) k' (by rw [h, List.map_id])

theorem upd (k : Kernel) (pid : Nat) (f : KProc → KProc) (hf : ∀ p, (f p).pid = p.pid ∧ (p.st = .gone → (f p).st = .gone)) :
    KGMono k (k.upd pid f) := by
  apply map k (fun p => if p.pid = pid then f p else p) _ _ rfl
  intro p
  split
  · exact hf p
  · exact ⟨rfl, fun h => h⟩

theorem dead_of_run (k : Kernel) (pid st : Nat) (hr : ∀ p, k.find pid = some p → p.st = .run) :
    KGMono k (k.dead pid st) := by
  intro q ⟨p, hp, hg⟩
  by_cases hq : q = pid
  · subst hq
    have := hr p hp
    rw [this] at hg; cases hg
  · refine ⟨if p.ppid = some pid then { p with ppid := none } else p, ?_, ?_⟩
    · simp only [Kernel.find, Kernel.dead] at hp ⊢
      rw [KMono.find_map _ _ (by
        intro x; split
        · rfl
        · split <;> rfl), hp]
      have hpq : p.pid = q := by
        have := List.find?_some hp
        simpa using this
      have : ¬ p.pid = pid := by rw [hpq]; exact hq
      simp [this]
    · split <;> exact hg

theorem die (k : Kernel) (pid st : Nat) : KGMono k (k.die pid st) := by
  unfold Kernel.die
  split
  · rename_i p hp
    split
    · rename_i hrun
      apply dead_of_run
      intro p' hp'
      rw [hp] at hp'; cases hp'
      exact hrun
    · exact refl k
  · exact refl k

theorem foldl {β : Type} (l : List β) (f : Kernel → β → Kernel) (hf : ∀ k b, KGMono k (f k b)) (k : Kernel) :
    KGMono k (l.foldl f k) := by
  induction l generalizing k with
  | nil => exact refl k
  | cons x xs ih => exact trans (hf k x) (ih (f k x))

theorem resolve (k : Kernel) : KGMono k k.resolve := by
  unfold Kernel.resolve
  apply foldl
  intro k p0
  split
  · rename_i p hp
    split
    · split
      · rename_i hc
        apply dead_of_run
        intro p' hp'
        have hpid : p.pid = p0.pid := by
          have := List.find?_some hp
          simpa using this
        rw [hpid] at hp'
        rw [hp] at hp'; cases hp'
        simp only [Bool.and_eq_true, decide_eq_true_eq] at hc
        exact hc.1
      · exact refl _
    · exact refl _
  · exact refl _

theorem tick (k : Kernel) : KGMono k k.tick := by
  unfold Kernel.tick
  refine trans (b := { k with calls := k.calls + 1, armed := k.armed.filter (fun f => ¬ (f.1 ≤ k.calls + 1)) }) (same _ _ rfl) ?_
  refine trans ?_ (resolve _)
  apply foldl
  intro k f; exact die _ _ _

theorem doomAt (k : Kernel) (pid dl st : Nat) : KGMono k (k.doomAt pid dl st) := by
  unfold Kernel.doomAt
  apply upd
  intro p
  split
  · split
    · exact ⟨rfl, fun h => h⟩
    · exact ⟨rfl, fun h => h⟩
  · exact ⟨rfl, fun h => h⟩

theorem kill (pid sig : Nat) : KGMonoOp (fun k => Kernel.kill k pid sig) := by
  intro k
  simp only [Kernel.kill]
  refine trans (tick k) ?_
  generalize k.tick = k1
  split
  · exact refl _
  · split
    · exact refl _
    · split
      · simp only
        refine trans ?_ (resolve _)
        split
        · exact doomAt _ _ _ _
        · split
          · exact refl _
          · split
            · exact doomAt _ _ _ _
            · exact refl _
      · exact refl _

theorem waitpid (pid : Option Nat) : KGMonoOp (fun k => Kernel.waitpid k pid) := by
  intro k
  simp only [Kernel.waitpid]
  refine trans (tick k) ?_
  generalize k.tick = k1
  split
  · exact refl _
  · exact refl _
  · split
    · exact refl _
    · split
      · exact refl _
      · split
        · exact refl _
        · apply upd; intro p; exact ⟨rfl, fun _ => rfl⟩

theorem stateOf (pid : Nat) : KGMonoOp (fun k => Kernel.stateOf k pid) := by
  intro k; exact tick k

theorem children (pid : Nat) (r : Bool) : KGMonoOp (fun k => Kernel.children k pid r) := by
  intro k
  simp only [Kernel.children]
  refine trans (tick k) ?_
  generalize k.tick = k1
  split
  · exact refl _
  · split
    · exact refl _
    · split <;> exact refl _

theorem sleep (k : Kernel) (ms : Nat) : KGMono k (Kernel.sleep k ms) := by
  simp only [Kernel.sleep]
  exact trans (b := { k with now := k.now + (if ms = 0 then 1 else ms), slept := k.slept + (if ms = 0 then 1 else ms), spins := k.spins + 1 }) (same _ _ rfl) (tick _)

theorem beginStep (k : Kernel) : KGMono k k.beginStep := same _ _ rfl

theorem advance (k : Kernel) (ms : Nat) (ds : List Nat) : KGMono k (k.advance ms ds) := by
  unfold Kernel.advance
  exact trans (b := { k with now := max k.now (min (k.now + ms) (ds.foldl min (k.now + ms))) }) (same _ _ rfl) (resolve _)

theorem addFault (k : Kernel) (n pid st : Nat) : KGMono k (k.addFault n pid st) := same _ _ rfl

theorem setNow (k : Kernel) (t : Nat) : KGMono k ({ k with now := t }).resolve :=
  trans (b := { k with now := t }) (same _ _ rfl) (resolve _)

/-- appending processes to the table does not hide the old entries -/
theorem append (k k' : Kernel) (l : List KProc) (h : k'.procs = k.procs ++ l) : KGMono k k' := by
  intro pid ⟨p, hp, hg⟩
  refine ⟨p, ?_, hg⟩
  simp only [Kernel.find] at hp ⊢
  rw [h, List.find?_append, hp]
  rfl

theorem spawn (k : Kernel) : KGMono k k.spawn.1 := by
  simp only [Kernel.spawn]
  refine trans (tick k) ?_
  generalize k.tick = k1
  split
  · exact same _ _ rfl
  · exact append _ _ _ (List.append_assoc _ _ _)

end KGMono

/-- the process `waitpid` hands back is gone afterwards -/
theorem Kernel.waitpid_got_gone (k : Kernel) (pid : Option Nat) (p st : Nat)
    (h : (k.waitpid pid).2 = .got p st) : (k.waitpid pid).1.GoneIn p := by
  simp only [Kernel.waitpid] at h ⊢
  generalize k.tick = k1 at h ⊢
  split at h
  · cases h
  · cases h
  · rename_i q hq
    split at h
    · cases h
    · rename_i kp hkp
      split at h
      · cases h
      · split at h
        · cases h
        · simp only [Kernel.WaitRes.got.injEq] at h
          obtain ⟨rfl, _⟩ := h
          rename_i h1 h2 _
          rw [if_neg h1, if_neg h2]
          refine ⟨{ kp with st := .gone }, ?_, rfl⟩
          simp only [Kernel.find, Kernel.upd] at hkp ⊢
          rw [KMono.find_map _ _ (by intro x; split <;> rfl), hkp]
          have hpq : kp.pid = q := by
            have := List.find?_some hkp
            simpa using this
          simp [hpq]

/-- `children()` of a gone process raises `NoSuchProcess` -/
theorem Kernel.children_gone (k : Kernel) (pid : Nat) (r : Bool) (h : k.GoneIn pid) :
    (k.children pid r).2 = none := by
  have ht := KGMono.tick k pid h
  obtain ⟨p, hp, hg⟩ := ht
  simp only [Kernel.children, hp, hg, if_true]

/-- … and when it raises for a process of the table, that process is gone -/
theorem Kernel.children_none_gone (k : Kernel) (pid : Nat) (r : Bool)
    (hin : pid ∈ k.procs.map (·.pid)) (h : (k.children pid r).2 = none) : (k.children pid r).1.GoneIn pid := by
  have hstep := KStep.tick k
  have hin' : pid ∈ k.tick.procs.map (·.pid) := by rw [hstep.pids]; exact hin
  simp only [Kernel.children] at h ⊢
  generalize k.tick = k1 at h hin' ⊢
  cases hf : k1.find pid with
  | none =>
    exfalso
    obtain ⟨x, hx, hxp⟩ := List.mem_map.mp hin'
    have := List.find?_eq_none.mp hf x hx
    simp [hxp] at this
  | some p =>
    simp only [hf] at h ⊢
    split at h
    · rename_i hg
      simp only [hg, if_true]
      exact ⟨p, hf, hg⟩
    · split at h <;> cases h

end Circus.Core
