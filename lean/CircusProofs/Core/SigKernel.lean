import CircusProofs.Core.PidInv
/-!
Kernel facts for the signal invariants (C03 along runs): a process the kernel has marked *gone*
(collected by `waitpid`, or dead without being a child of the daemon) stays gone under every
kernel function — pids are never reused, `dead` only acts on running processes, `waitpid` only
turns zombies into gone.  Mirror of `KMono` (PidInv.lean) for the state `gone`.
-/
namespace Circus.Core

/-- the process table knows `pid`, and as gone (no signal reaches it, `children()` raises) -/
def Kernel.GoneIn (k : Kernel) (pid : Nat) : Prop := ∃ p, k.find pid = some p ∧ p.st = .gone

/-- gone stays gone -/
def KGMono (k k' : Kernel) : Prop := ∀ pid, k.GoneIn pid → k'.GoneIn pid

def KGMonoOp {α : Type} (f : Kernel → Kernel × α) : Prop := ∀ k, KGMono k (f k).1

namespace KGMono

theorem refl (k : Kernel) : KGMono k k := fun _ h => h

theorem trans {a b c : Kernel} (h1 : KGMono a b) (h2 : KGMono b c) : KGMono a c :=
  fun pid h => h2 pid (h1 pid h)

/-- mapping the table with a function that keeps pids and keeps gone processes gone -/
theorem map (k : Kernel) (f : KProc → KProc) (hf : ∀ p, (f p).pid = p.pid ∧ (p.st = .gone → (f p).st = .gone))
    (k' : Kernel) (hk : k'.procs = k.procs.map f) : KGMono k k' := by
  intro pid ⟨p, hp, hg⟩
  refine ⟨f p, ?_, (hf p).2 hg⟩
  simp only [Kernel.find] at hp ⊢
  rw [hk, KMono.find_map _ _ (fun p => (hf p).1), hp]
  rfl

theorem same (k k' : Kernel) (h : k'.procs = k.procs) : KGMono k k' :=
  map k id (fun _ => ⟨rfl, fun h => h⟩) k' (by rw [h, List.map_id])

theorem upd (k : Kernel) (pid : Nat) (f : KProc → KProc) (hf : ∀ p, (f p).pid = p.pid ∧ (p.st = .gone → (f p).st = .gone)) :
    KGMono k (k.upd pid f) := by
  apply map k (fun p => if p.pid = pid then f p else p) _ _ rfl
  intro p
  split
  · exact hf p
  · exact ⟨rfl, fun h => h⟩

theorem dead_of_run (k : Kernel) (pid st : Nat) (hr : ∀ p, k.find pid = some p → p.st = .run) :
    KGMono k (k.dead pid st) := by
  intro q ⟨p, hp, hg⟩
  by_cases hq : q = pid
  · subst hq
    have := hr p hp
    rw [this] at hg; cases hg
  · refine ⟨if p.ppid = some pid then { p with ppid := none } else p, ?_, ?_⟩
    · simp only [Kernel.find, Kernel.dead] at hp ⊢
      rw [KMono.find_map _ _ (by
        intro x; split
        · rfl
        · split <;> rfl), hp]
      have hpq : p.pid = q := by
        have := List.find?_some hp
        simpa using this
      have : ¬ p.pid = pid := by rw [hpq]; exact hq
      simp [this]
    · split <;> exact hg

theorem die (k : Kernel) (pid st : Nat) : KGMono k (k.die pid st) := by
  unfold Kernel.die
  split
  · rename_i p hp
    split
    · rename_i hrun
      apply dead_of_run
      intro p' hp'
      rw [hp] at hp'; cases hp'
      exact hrun
    · exact refl k
  · exact refl k

theorem foldl {β : Type} (l : List β) (f : Kernel → β → Kernel) (hf : ∀ k b, KGMono k (f k b)) (k : Kernel) :
    KGMono k (l.foldl f k) := by
  induction l generalizing k with
  | nil => exact refl k
  | cons x xs ih => exact trans (hf k x) (ih (f k x))

theorem resolve (k : Kernel) : KGMono k k.resolve := by
  unfold Kernel.resolve
  apply foldl
  intro k p0
  split
  · rename_i p hp
    split
    · split
      · rename_i hc
        apply dead_of_run
        intro p' hp'
        have hpid : p.pid = p0.pid := by
          have := List.find?_some hp
          simpa using this
        rw [hpid] at hp'
        rw [hp] at hp'; cases hp'
        simp only [Bool.and_eq_true, decide_eq_true_eq] at hc
        exact hc.1
      · exact refl _
    · exact refl _
  · exact refl _

theorem tick (k : Kernel) : KGMono k k.tick := by
  unfold Kernel.tick
  refine trans (b := { k with calls := k.calls + 1, armed := k.armed.filter (fun f => ¬ (f.1 ≤ k.calls + 1)) }) (same _ _ rfl) ?_
  refine trans ?_ (resolve _)
  apply foldl
  intro k f; exact die _ _ _

theorem doomAt (k : Kernel) (pid dl st : Nat) : KGMono k (k.doomAt pid dl st) := by
  unfold Kernel.doomAt
  apply upd
  intro p
  split
  · split
    · exact ⟨rfl, fun h => h⟩
    · exact ⟨rfl, fun h => h⟩
  · exact ⟨rfl, fun h => h⟩

theorem kill (pid sig : Nat) : KGMonoOp (fun k => Kernel.kill k pid sig) := by
  intro k
  simp only [Kernel.kill]
  refine trans (tick k) ?_
  generalize k.tick = k1
  split
  · exact refl _
  · split
    · exact refl _
    · split
      · simp only
        refine trans ?_ (resolve _)
        split
        · exact doomAt _ _ _ _
        · split
          · exact refl _
          · split
            · exact doomAt _ _ _ _
            · exact refl _
      · exact refl _


/-- the daemon's own `kill`: refused with EPERM (only the tick happened) or the plain `kill` -/
theorem killD (pid sig : Nat) : KGMonoOp (fun k => Kernel.killD k pid sig) := by
  intro k
  simp only [Kernel.killD]
  split
  · exact tick k
  · exact kill pid sig k

theorem waitpid (pid : Option Nat) : KGMonoOp (fun k => Kernel.waitpid k pid) := by
  intro k
  simp only [Kernel.waitpid]
  refine trans (tick k) ?_
  generalize k.tick = k1
  split
  · exact refl _
  · exact refl _
  · split
    · exact refl _
    · split
      · exact refl _
      · split
        · exact refl _
        · apply upd; intro p; exact ⟨rfl, fun _ => rfl⟩

theorem stateOf (pid : Nat) : KGMonoOp (fun k => Kernel.stateOf k pid) := by
  intro k; exact tick k

theorem children (pid : Nat) (r : Bool) : KGMonoOp (fun k => Kernel.children k pid r) := by
  intro k
  simp only [Kernel.children]
  refine trans (tick k) ?_
  generalize k.tick = k1
  split
  · exact refl _
  · split
    · exact refl _
    · split <;> exact refl _

theorem sleep (k : Kernel) (ms : Nat) : KGMono k (Kernel.sleep k ms) := by
  simp only [Kernel.sleep]
  exact trans (b := { k with now := k.now + (if ms = 0 then 1 else ms), slept := k.slept + (if ms = 0 then 1 else ms), spins := k.spins + 1 }) (same _ _ rfl) (tick _)

theorem beginStep (k : Kernel) : KGMono k k.beginStep := same _ _ rfl

theorem advance (k : Kernel) (ms : Nat) (ds : List Nat) : KGMono k (k.advance ms ds) := by
  unfold Kernel.advance
  exact trans (b := { k with now := max k.now (min (k.now + ms) (ds.foldl min (k.now + ms))) }) (same _ _ rfl) (resolve _)

theorem addFault (k : Kernel) (n pid st : Nat) : KGMono k (k.addFault n pid st) := same _ _ rfl

theorem setNow (k : Kernel) (t : Nat) : KGMono k ({ k with now := t }).resolve :=
  trans (b := { k with now := t }) (same _ _ rfl) (resolve _)

/-- appending processes to the table does not hide the old entries -/
theorem append (k k' : Kernel) (l : List KProc) (h : k'.procs = k.procs ++ l) : KGMono k k' := by
  intro pid ⟨p, hp, hg⟩
  refine ⟨p, ?_, hg⟩
  simp only [Kernel.find] at hp ⊢
  rw [h, List.find?_append, hp]
  rfl

theorem spawn (k : Kernel) : KGMono k k.spawn.1 := by
  simp only [Kernel.spawn]
  refine trans (tick k) ?_
  generalize k.tick = k1
  split
  · exact same _ _ rfl
  · exact append _ _ _ (List.append_assoc _ _ _)

end KGMono

/-- the process `waitpid` hands back is gone afterwards -/
theorem Kernel.waitpid_got_gone (k : Kernel) (pid : Option Nat) (p st : Nat)
    (h : (k.waitpid pid).2 = .got p st) : (k.waitpid pid).1.GoneIn p := by
  simp only [Kernel.waitpid] at h ⊢
  generalize k.tick = k1 at h ⊢
  split at h
  · cases h
  · cases h
  · rename_i q hq
    split at h
    · cases h
    · rename_i kp hkp
      split at h
      · cases h
      · split at h
        · cases h
        · simp only [Kernel.WaitRes.got.injEq] at h
          obtain ⟨rfl, _⟩ := h
          rename_i h1 h2 _
          rw [if_neg h1, if_neg h2]
          refine ⟨{ kp with st := .gone }, ?_, rfl⟩
          simp only [Kernel.find, Kernel.upd] at hkp ⊢
          rw [KMono.find_map _ _ (by intro x; split <;> rfl), hkp]
          have hpq : kp.pid = q := by
            have := List.find?_some hkp
            simpa using this
          simp [hpq]

/-- `children()` of a gone process raises `NoSuchProcess` -/
theorem Kernel.children_gone (k : Kernel) (pid : Nat) (r : Bool) (h : k.GoneIn pid) :
    (k.children pid r).2 = none := by
  have ht := KGMono.tick k pid h
  obtain ⟨p, hp, hg⟩ := ht
  simp only [Kernel.children, hp, hg, if_true]

/-- … and when it raises for a process of the table, that process is gone -/
theorem Kernel.children_none_gone (k : Kernel) (pid : Nat) (r : Bool)
    (hin : pid ∈ k.procs.map (·.pid)) (h : (k.children pid r).2 = none) : (k.children pid r).1.GoneIn pid := by
  have hstep := KStep.tick k
  have hin' : pid ∈ k.tick.procs.map (·.pid) := by rw [hstep.pids]; exact hin
  simp only [Kernel.children] at h ⊢
  generalize k.tick = k1 at h hin' ⊢
  cases hf : k1.find pid with
  | none =>
    exfalso
    obtain ⟨x, hx, hxp⟩ := List.mem_map.mp hin'
    have := List.find?_eq_none.mp hf x hx
    simp [hxp] at this
  | some p =>
    simp only [hf] at h ⊢
    split at h
    · rename_i hg
      simp only [hg, if_true]
      exact ⟨p, hf, hg⟩
    · split at h <;> cases h

/-! ### not a child of the daemon

Workers are forked by the daemon (`ppid = some 0`) and stay its children; the processes a worker forks
have `ppid = some worker` until the worker dies (`none`).  "Not a child of the daemon" is therefore
stable: it is how the signal entries for a worker's children are told from those for workers. -/

/-- the process table knows `pid`, and not as a child of the daemon -/
def Kernel.NDC (k : Kernel) (pid : Nat) : Prop := ∃ p, k.find pid = some p ∧ p.ppid ≠ some 0

def KNMono (k k' : Kernel) : Prop := ∀ pid, k.NDC pid → k'.NDC pid

def KNMonoOp {α : Type} (f : Kernel → Kernel × α) : Prop := ∀ k, KNMono k (f k).1

namespace KNMono

theorem refl (k : Kernel) : KNMono k k := fun _ h => h

theorem trans {a b c : Kernel} (h1 : KNMono a b) (h2 : KNMono b c) : KNMono a c :=
  fun pid h => h2 pid (h1 pid h)

theorem map (k : Kernel) (f : KProc → KProc) (hf : ∀ p, (f p).pid = p.pid ∧ (p.ppid ≠ some 0 → (f p).ppid ≠ some 0))
    (k' : Kernel) (hk : k'.procs = k.procs.map f) : KNMono k k' := by
  intro pid ⟨p, hp, hg⟩
  refine ⟨f p, ?_, (hf p).2 hg⟩
  simp only [Kernel.find] at hp ⊢
  rw [hk, KMono.find_map _ _ (fun p => (hf p).1), hp]
  rfl

theorem same (k k' : Kernel) (h : k'.procs = k.procs) : KNMono k k' :=
  map k id (fun _ => ⟨rfl, fun h => h⟩) k' (by rw [h, List.map_id])

theorem upd (k : Kernel) (pid : Nat) (f : KProc → KProc) (hf : ∀ p, (f p).pid = p.pid ∧ (f p).ppid = p.ppid) :
    KNMono k (k.upd pid f) := by
  apply map k (fun p => if p.pid = pid then f p else p) _ _ rfl
  intro p
  split
  · exact ⟨(hf p).1, fun h => by rw [(hf p).2]; exact h⟩
  · exact ⟨rfl, fun h => h⟩

theorem dead (k : Kernel) (pid st : Nat) : KNMono k (k.dead pid st) := by
  apply map k _ _ _ rfl
  intro p
  split
  · exact ⟨rfl, fun h => h⟩
  · split
    · exact ⟨rfl, fun _ => by simp⟩
    · exact ⟨rfl, fun h => h⟩

theorem die (k : Kernel) (pid st : Nat) : KNMono k (k.die pid st) := by
  unfold Kernel.die
  split
  · split
    · exact dead k pid st
    · exact refl k
  · exact refl k

theorem foldl {β : Type} (l : List β) (f : Kernel → β → Kernel) (hf : ∀ k b, KNMono k (f k b)) (k : Kernel) :
    KNMono k (l.foldl f k) := by
  induction l generalizing k with
  | nil => exact refl k
  | cons x xs ih => exact trans (hf k x) (ih (f k x))

theorem resolve (k : Kernel) : KNMono k k.resolve := by
  unfold Kernel.resolve
  apply foldl
  intro k p0
  split
  · split
    · split
      · exact dead _ _ _
      · exact refl _
    · exact refl _
  · exact refl _

theorem tick (k : Kernel) : KNMono k k.tick := by
  unfold Kernel.tick
  refine trans (b := { k with calls := k.calls + 1, armed := k.armed.filter (fun f => ¬ (f.1 ≤ k.calls + 1)) }) (same _ _ rfl) ?_
  refine trans ?_ (resolve _)
  apply foldl
  intro k f; exact die _ _ _

theorem doomAt (k : Kernel) (pid dl st : Nat) : KNMono k (k.doomAt pid dl st) := by
  unfold Kernel.doomAt
  apply upd
  intro p
  split
  · split
    · exact ⟨rfl, rfl⟩
    · exact ⟨rfl, rfl⟩
  · exact ⟨rfl, rfl⟩

theorem kill (pid sig : Nat) : KNMonoOp (fun k => Kernel.kill k pid sig) := by
  intro k
  simp only [Kernel.kill]
  refine trans (tick k) ?_
  generalize k.tick = k1
  split
  · exact refl _
  · split
    · exact refl _
    · split
      · simp only
        refine trans ?_ (resolve _)
        split
        · exact doomAt _ _ _ _
        · split
          · exact refl _
          · split
            · exact doomAt _ _ _ _
            · exact refl _
      · exact refl _


/-- the daemon's own `kill`: refused with EPERM (only the tick happened) or the plain `kill` -/
theorem killD (pid sig : Nat) : KNMonoOp (fun k => Kernel.killD k pid sig) := by
  intro k
  simp only [Kernel.killD]
  split
  · exact tick k
  · exact kill pid sig k

theorem waitpid (pid : Option Nat) : KNMonoOp (fun k => Kernel.waitpid k pid) := by
  intro k
  simp only [Kernel.waitpid]
  refine trans (tick k) ?_
  generalize k.tick = k1
  split
  · exact refl _
  · exact refl _
  · split
    · exact refl _
    · split
      · exact refl _
      · split
        · exact refl _
        · apply upd; intro p; exact ⟨rfl, rfl⟩

theorem stateOf (pid : Nat) : KNMonoOp (fun k => Kernel.stateOf k pid) := by
  intro k; exact tick k

theorem children (pid : Nat) (r : Bool) : KNMonoOp (fun k => Kernel.children k pid r) := by
  intro k
  simp only [Kernel.children]
  refine trans (tick k) ?_
  generalize k.tick = k1
  split
  · exact refl _
  · split
    · exact refl _
    · split <;> exact refl _

theorem sleep (k : Kernel) (ms : Nat) : KNMono k (Kernel.sleep k ms) := by
  simp only [Kernel.sleep]
  exact trans (b := { k with now := k.now + (if ms = 0 then 1 else ms), slept := k.slept + (if ms = 0 then 1 else ms), spins := k.spins + 1 }) (same _ _ rfl) (tick _)

theorem beginStep (k : Kernel) : KNMono k k.beginStep := same _ _ rfl

theorem advance (k : Kernel) (ms : Nat) (ds : List Nat) : KNMono k (k.advance ms ds) := by
  unfold Kernel.advance
  exact trans (b := { k with now := max k.now (min (k.now + ms) (ds.foldl min (k.now + ms))) }) (same _ _ rfl) (resolve _)

theorem addFault (k : Kernel) (n pid st : Nat) : KNMono k (k.addFault n pid st) := same _ _ rfl

theorem setNow (k : Kernel) (t : Nat) : KNMono k ({ k with now := t }).resolve :=
  trans (b := { k with now := t }) (same _ _ rfl) (resolve _)

theorem append (k k' : Kernel) (l : List KProc) (h : k'.procs = k.procs ++ l) : KNMono k k' := by
  intro pid ⟨p, hp, hg⟩
  refine ⟨p, ?_, hg⟩
  simp only [Kernel.find] at hp ⊢
  rw [h, List.find?_append, hp]
  rfl

theorem spawn (k : Kernel) : KNMono k k.spawn.1 := by
  simp only [Kernel.spawn]
  refine trans (tick k) ?_
  generalize k.tick = k1
  split
  · exact same _ _ rfl
  · exact append _ _ _ (List.append_assoc _ _ _)

end KNMono

theorem insertSorted_mem {x y : Nat} {l : List Nat} (h : y ∈ Kernel.insertSorted x l) : y = x ∨ y ∈ l := by
  induction l with
  | nil => simp only [Kernel.insertSorted, List.mem_singleton] at h; exact Or.inl h
  | cons z zs ih =>
    simp only [Kernel.insertSorted] at h
    split at h
    · rcases List.mem_cons.mp h with h | h
      · exact Or.inl h
      · exact Or.inr h
    · rcases List.mem_cons.mp h with h | h
      · exact Or.inr (by rw [h]; exact List.mem_cons_self)
      · rcases ih h with h | h
        · exact Or.inl h
        · exact Or.inr (List.mem_cons_of_mem _ h)

theorem sortNat_mem {y : Nat} {l : List Nat} (h : y ∈ Kernel.sortNat l) : y ∈ l := by
  induction l with
  | nil => exact h
  | cons x xs ih =>
    simp only [Kernel.sortNat, List.foldr_cons] at h
    rcases insertSorted_mem h with h | h
    · rw [h]; exact List.mem_cons_self
    · exact List.mem_cons_of_mem _ (ih h)

/-- a direct child found by `children()` is a process of the table whose parent is `pid` -/
theorem Kernel.children_direct (k : Kernel) (pid : Nat) (l : List Nat) (h : (k.children pid false).2 = some l)
    (c : Nat) (hc : c ∈ l) : ∃ kp ∈ (k.children pid false).1.procs, kp.pid = c ∧ kp.ppid = some pid := by
  simp only [Kernel.children] at h ⊢
  generalize k.tick = k1 at h ⊢
  split at h
  · cases h
  · split at h
    · cases h
    · split at h
      · simp only [Option.some.injEq] at h
        subst h; cases hc
      · simp only [Option.some.injEq] at h
        subst h
        rename_i h1 h2
        rw [if_neg h1, if_neg h2]
        cases hl : k1.procs.length + 1 with
        | zero => omega
        | succ n =>
          rw [hl] at hc
          simp only [Kernel.childrenOf, Bool.false_eq_true, if_false] at hc
          have := sortNat_mem hc
          obtain ⟨kp, hkp, rfl⟩ := List.mem_map.mp this
          have hf := List.mem_filter.mp hkp
          refine ⟨kp, hf.1, rfl, ?_⟩
          have := hf.2
          simp only [Bool.and_eq_true, decide_eq_true_eq] at this
          exact this.1

/-! ### children of the daemon stay children of the daemon

The daemon has no entry in the process table (it is "pid 0" only in the `ppid` field, and pids are
positive), so no death ever re-parents its children. -/

/-- every pid of the process table is positive -/
def Kernel.PosK (k : Kernel) : Prop := ∀ q ∈ k.procs.map (·.pid), 0 < q

/-- the process table knows `pid` as a child of the daemon -/
def Kernel.DC (k : Kernel) (pid : Nat) : Prop := ∃ p, k.find pid = some p ∧ p.ppid = some 0

def KDMono (k k' : Kernel) : Prop := ∀ pid, k.DC pid → k'.DC pid

theorem Kernel.PosK.step {k k' : Kernel} (h : k.PosK) (hs : KStep k k') : k'.PosK := by
  unfold Kernel.PosK
  rw [hs.pids]; exact h

namespace KDMono

theorem refl (k : Kernel) : KDMono k k := fun _ h => h

theorem trans {a b c : Kernel} (h1 : KDMono a b) (h2 : KDMono b c) : KDMono a c :=
  fun pid h => h2 pid (h1 pid h)

theorem map (k : Kernel) (f : KProc → KProc) (hf : ∀ p ∈ k.procs, (f p).pid = p.pid ∧ (p.ppid = some 0 → (f p).ppid = some 0))
    (hf' : ∀ p, (f p).pid = p.pid) (k' : Kernel) (hk : k'.procs = k.procs.map f) : KDMono k k' := by
  intro pid ⟨p, hp, hg⟩
  have hm : p ∈ k.procs := List.mem_of_find?_eq_some hp
  refine ⟨f p, ?_, (hf p hm).2 hg⟩
  simp only [Kernel.find] at hp ⊢
  rw [hk, KMono.find_map _ _ hf', hp]
  rfl

theorem same (k k' : Kernel) (h : k'.procs = k.procs) : KDMono k k' :=
  map k id (fun _ _ => ⟨rfl, fun h => h⟩) (fun _ => rfl) k' (by rw [h, List.map_id])

theorem upd (k : Kernel) (pid : Nat) (f : KProc → KProc) (hf : ∀ p, (f p).pid = p.pid ∧ (f p).ppid = p.ppid) :
    KDMono k (k.upd pid f) := by
  apply map k (fun p => if p.pid = pid then f p else p) _ _ _ rfl
  · intro p _
    split
    · exact ⟨(hf p).1, fun h => by rw [(hf p).2]; exact h⟩
    · exact ⟨rfl, fun h => h⟩
  · intro p; split
    · exact (hf p).1
    · rfl

theorem dead (k : Kernel) (pid st : Nat) (hpos : 0 < pid) : KDMono k (k.dead pid st) := by
  apply map k _ _ _ _ rfl
  · intro p _
    split
    · exact ⟨rfl, fun h => h⟩
    · split
      · rename_i h1 h2
        refine ⟨rfl, fun h => ?_⟩
        rw [h] at h2
        simp only [Option.some.injEq] at h2
        omega
      · exact ⟨rfl, fun h => h⟩
  · intro p; split
    · rfl
    · split <;> rfl

theorem die (k : Kernel) (pid st : Nat) (hk : k.PosK) : KDMono k (k.die pid st) := by
  unfold Kernel.die
  split
  · rename_i p hp
    split
    · apply dead
      have hm : p ∈ k.procs := List.mem_of_find?_eq_some hp
      have hpid : p.pid = pid := by
        have := List.find?_some hp
        simpa using this
      rw [← hpid]
      exact hk _ (List.mem_map.mpr ⟨p, hm, rfl⟩)
    · exact refl k
  · exact refl k

theorem foldl {β : Type} (l : List β) (f : Kernel → β → Kernel)
    (hf : ∀ k b, k.PosK → KDMono k (f k b) ∧ KStep k (f k b)) (k : Kernel) (hk : k.PosK) :
    KDMono k (l.foldl f k) := by
  induction l generalizing k with
  | nil => exact refl k
  | cons x xs ih =>
    obtain ⟨h1, h2⟩ := hf k x hk
    exact trans h1 (ih (f k x) (hk.step h2))

theorem resolve (k : Kernel) (hk : k.PosK) : KDMono k k.resolve := by
  unfold Kernel.resolve
  apply foldl _ _ _ _ hk
  intro k p0 hk
  split
  · rename_i p hp
    split
    · split
      · refine ⟨dead _ _ _ ?_, KStep.dead _ _ _⟩
        have hm : p ∈ k.procs := List.mem_of_find?_eq_some hp
        exact hk _ (List.mem_map.mpr ⟨p, hm, rfl⟩)
      · exact ⟨refl _, KStep.refl _⟩
    · exact ⟨refl _, KStep.refl _⟩
  · exact ⟨refl _, KStep.refl _⟩

theorem tick (k : Kernel) (hk : k.PosK) : KDMono k k.tick := by
  unfold Kernel.tick
  have hk1 : ({ k with calls := k.calls + 1, armed := k.armed.filter (fun f => ¬ (f.1 ≤ k.calls + 1)) } : Kernel).PosK := hk
  refine trans (b := { k with calls := k.calls + 1, armed := k.armed.filter (fun f => ¬ (f.1 ≤ k.calls + 1)) }) (same _ _ rfl) ?_
  have hs : KStep ({ k with calls := k.calls + 1, armed := k.armed.filter (fun f => ¬ (f.1 ≤ k.calls + 1)) } : Kernel)
      (List.foldl (fun k f => k.die f.2.1 f.2.2)
        ({ k with calls := k.calls + 1, armed := k.armed.filter (fun f => ¬ (f.1 ≤ k.calls + 1)) } : Kernel)
        (List.filter (fun f => decide (f.1 ≤ k.calls + 1)) k.armed)) :=
    KStep.foldl _ _ (fun k f => KStep.die _ _ _) _
  refine trans ?_ (resolve _ (hk1.step hs))
  apply foldl _ _ _ _ hk1
  intro k f hk; exact ⟨die _ _ _ hk, KStep.die _ _ _⟩

theorem doomAt (k : Kernel) (pid dl st : Nat) : KDMono k (k.doomAt pid dl st) := by
  unfold Kernel.doomAt
  apply upd
  intro p
  split
  · split
    · exact ⟨rfl, rfl⟩
    · exact ⟨rfl, rfl⟩
  · exact ⟨rfl, rfl⟩

theorem kill (pid sig : Nat) (k : Kernel) (hk : k.PosK) : KDMono k (Kernel.kill k pid sig).1 := by
  simp only [Kernel.kill]
  refine trans (tick k hk) ?_
  have hk1 := hk.step (KStep.tick k)
  generalize k.tick = k1 at hk1
  split
  · exact refl _
  · split
    · exact refl _
    · split
      · simp only
        split
        · exact trans (doomAt _ _ _ _) (resolve _ (hk1.step (KStep.doomAt _ _ _ _)))
        · split
          · exact resolve _ hk1
          · split
            · exact trans (doomAt _ _ _ _) (resolve _ (hk1.step (KStep.doomAt _ _ _ _)))
            · exact resolve _ hk1
      · exact refl _


/-- the daemon's own `kill`: refused with EPERM (only the tick happened) or the plain `kill` -/
theorem killD (pid sig : Nat) (k : Kernel) (hk : k.PosK) : KDMono k (Kernel.killD k pid sig).1 := by
  simp only [Kernel.killD]
  split
  · exact tick k hk
  · exact kill pid sig k hk

theorem waitpid (pid : Option Nat) (k : Kernel) (hk : k.PosK) : KDMono k (Kernel.waitpid k pid).1 := by
  simp only [Kernel.waitpid]
  refine trans (tick k hk) ?_
  generalize k.tick = k1
  split
  · exact refl _
  · exact refl _
  · split
    · exact refl _
    · split
      · exact refl _
      · split
        · exact refl _
        · apply upd; intro p; exact ⟨rfl, rfl⟩

theorem stateOf (pid : Nat) (k : Kernel) (hk : k.PosK) : KDMono k (Kernel.stateOf k pid).1 := tick k hk

theorem children (pid : Nat) (r : Bool) (k : Kernel) (hk : k.PosK) : KDMono k (Kernel.children k pid r).1 := by
  simp only [Kernel.children]
  refine trans (tick k hk) ?_
  generalize k.tick = k1
  split
  · exact refl _
  · split
    · exact refl _
    · split <;> exact refl _

theorem sleep (k : Kernel) (ms : Nat) (hk : k.PosK) : KDMono k (Kernel.sleep k ms) := by
  simp only [Kernel.sleep]
  exact trans (b := { k with now := k.now + (if ms = 0 then 1 else ms), slept := k.slept + (if ms = 0 then 1 else ms), spins := k.spins + 1 }) (same _ _ rfl) (tick _ hk)

theorem beginStep (k : Kernel) : KDMono k k.beginStep := same _ _ rfl

theorem advance (k : Kernel) (ms : Nat) (ds : List Nat) (hk : k.PosK) : KDMono k (k.advance ms ds) := by
  unfold Kernel.advance
  exact trans (b := { k with now := max k.now (min (k.now + ms) (ds.foldl min (k.now + ms))) }) (same _ _ rfl) (resolve _ hk)

theorem addFault (k : Kernel) (n pid st : Nat) : KDMono k (k.addFault n pid st) := same _ _ rfl

theorem setNow (k : Kernel) (t : Nat) (hk : k.PosK) : KDMono k ({ k with now := t }).resolve :=
  trans (b := { k with now := t }) (same _ _ rfl) (resolve _ hk)

theorem append (k k' : Kernel) (l : List KProc) (h : k'.procs = k.procs ++ l) : KDMono k k' := by
  intro pid ⟨p, hp, hg⟩
  refine ⟨p, ?_, hg⟩
  simp only [Kernel.find] at hp ⊢
  rw [h, List.find?_append, hp]
  rfl

theorem spawn (k : Kernel) (hk : k.PosK) : KDMono k k.spawn.1 := by
  simp only [Kernel.spawn]
  refine trans (tick k hk) ?_
  generalize k.tick = k1
  split
  · exact same _ _ rfl
  · exact append _ _ _ (List.append_assoc _ _ _)

end KDMono

/-- a process that is a child of the daemon is not "not a child of the daemon" -/
theorem Kernel.DC.not_ndc {k : Kernel} {p : Nat} (h : k.DC p) : ¬ k.NDC p := by
  obtain ⟨kp, hf, hp⟩ := h
  rintro ⟨kp', hf', hp'⟩
  rw [hf] at hf'
  cases hf'
  exact hp' hp

end Circus.Core
