import CircusProofs.Core.StopRun
/-!
C01 convergence, part A: **deaths before the check**.  The idle start state lists, besides running
workers, workers that are dead in the kernel (zombies: exited or killed from outside, not yet waited
for, any wait status).  The arbiter's `waitpid(-1)` loop (`Arbiter.reap_processes`) comes first in
`manage_watchers`: it collects every zombie child in ascending pid order and hands the listed ones to
`Watcher.reap_process(pid, status)`.  After it the kernel is *still* (Core/Conv.lean) and the watcher
lists exactly the workers that run, so the rest of the check is the spawn path of Core/Conv.lean —
re-proved here with the list of pids tracked (`DatL`) so that "the old ones are kept" can be stated.

Part 0: the insertion sort of the simulated kernel.
-/
namespace Circus.Core

theorem Kernel.insertSorted_mem (x : Nat) (l : List Nat) (y : Nat) : y ∈ Kernel.insertSorted x l ↔ y = x ∨ y ∈ l := by
  induction l with
  | nil => simp [Kernel.insertSorted]
  | cons z zs ih =>
    unfold Kernel.insertSorted
    split
    · simp
    · simp only [List.mem_cons, ih]
      constructor
      · rintro (h | h | h) <;> simp [h]
      · rintro (h | h | h) <;> simp [h]

theorem Kernel.sortNat_mem (l : List Nat) (y : Nat) : y ∈ Kernel.sortNat l ↔ y ∈ l := by
  unfold Kernel.sortNat
  induction l with
  | nil => simp
  | cons x xs ih => simp only [List.foldr_cons, Kernel.insertSorted_mem, ih, List.mem_cons]

theorem Kernel.insertSorted_length (x : Nat) (l : List Nat) : (Kernel.insertSorted x l).length = l.length + 1 := by
  induction l with
  | nil => rfl
  | cons z zs ih =>
    unfold Kernel.insertSorted
    split
    · rfl
    · simp [ih]

theorem Kernel.sortNat_length (l : List Nat) : (Kernel.sortNat l).length = l.length := by
  unfold Kernel.sortNat
  induction l with
  | nil => rfl
  | cons x xs ih => simp only [List.foldr_cons, Kernel.insertSorted_length, ih, List.length_cons]

theorem Kernel.insertSorted_sorted (x : Nat) (l : List Nat) (h : l.Pairwise (· ≤ ·)) :
    (Kernel.insertSorted x l).Pairwise (· ≤ ·) := by
  induction l with
  | nil => simp [Kernel.insertSorted]
  | cons z zs ih =>
    have hz := List.pairwise_cons.mp h
    unfold Kernel.insertSorted
    split
    · rename_i hle
      refine List.pairwise_cons.mpr ⟨?_, h⟩
      intro y hy
      rcases List.mem_cons.mp hy with rfl | hy
      · exact hle
      · exact Nat.le_trans hle (hz.1 y hy)
    · rename_i hlt
      refine List.pairwise_cons.mpr ⟨?_, ih hz.2⟩
      intro y hy
      rcases (Kernel.insertSorted_mem x zs y).mp hy with rfl | hy
      · omega
      · exact hz.1 y hy

theorem Kernel.sortNat_sorted (l : List Nat) : (Kernel.sortNat l).Pairwise (· ≤ ·) := by
  unfold Kernel.sortNat
  induction l with
  | nil => simp
  | cons x xs ih => exact Kernel.insertSorted_sorted x _ ih

theorem Kernel.insertSorted_nodup (x : Nat) (l : List Nat) (h : l.Nodup) (hx : x ∉ l) : (Kernel.insertSorted x l).Nodup := by
  induction l with
  | nil => simp [Kernel.insertSorted]
  | cons z zs ih =>
    have hz := List.nodup_cons.mp h
    unfold Kernel.insertSorted
    split
    · exact List.nodup_cons.mpr ⟨hx, h⟩
    · refine List.nodup_cons.mpr ⟨?_, ih hz.2 (fun hm => hx (by simp [hm]))⟩
      intro hm
      rcases (Kernel.insertSorted_mem x zs z).mp hm with rfl | hm
      · exact hx (by simp)
      · exact hz.1 hm

theorem Kernel.sortNat_nodup (l : List Nat) (h : l.Nodup) : (Kernel.sortNat l).Nodup := by
  induction l with
  | nil => simp [Kernel.sortNat]
  | cons x xs ih =>
    have hx := List.nodup_cons.mp h
    show (Kernel.insertSorted x (Kernel.sortNat xs)).Nodup
    exact Kernel.insertSorted_nodup x _ (ih hx.2) (fun hm => hx.1 ((Kernel.sortNat_mem xs x).mp hm))

/-- inserting below everything puts the element in front -/
theorem Kernel.insertSorted_le (x : Nat) (l : List Nat) (h : ∀ y ∈ l, x ≤ y) : Kernel.insertSorted x l = x :: l := by
  cases l with
  | nil => rfl
  | cons z zs => simp [Kernel.insertSorted, h z (by simp)]

theorem Kernel.insertSorted_filter (p : Nat → Bool) (x : Nat) (l : List Nat) (hs : l.Pairwise (· ≤ ·)) :
    (Kernel.insertSorted x l).filter p = if p x then Kernel.insertSorted x (l.filter p) else l.filter p := by
  induction l with
  | nil => by_cases hp : p x = true <;> simp [Kernel.insertSorted, hp]
  | cons z zs ih =>
    have hz := List.pairwise_cons.mp hs
    by_cases hle : x ≤ z
    · have h1 : Kernel.insertSorted x (z :: zs) = x :: z :: zs := by simp [Kernel.insertSorted, hle]
      have h2 : Kernel.insertSorted x ((z :: zs).filter p) = x :: (z :: zs).filter p := by
        apply Kernel.insertSorted_le
        intro y hy
        have hy' := (List.mem_filter.mp hy).1
        rcases List.mem_cons.mp hy' with rfl | hy'
        · exact hle
        · exact Nat.le_trans hle (hz.1 y hy')
      rw [h1, h2]
      by_cases hp : p x = true
      · simp [hp]
      · simp [hp]
    · have h1 : Kernel.insertSorted x (z :: zs) = z :: Kernel.insertSorted x zs := by simp [Kernel.insertSorted, hle]
      rw [h1, List.filter_cons, ih hz.2, List.filter_cons]
      by_cases hpz : p z = true
      · by_cases hp : p x = true
        · simp [hpz, hp, Kernel.insertSorted, hle]
        · simp [hpz, hp]
      · by_cases hp : p x = true
        · simp [hpz, hp]
        · simp [hpz, hp]

theorem Kernel.sortNat_filter (p : Nat → Bool) (l : List Nat) : Kernel.sortNat (l.filter p) = (Kernel.sortNat l).filter p := by
  induction l with
  | nil => rfl
  | cons x xs ih =>
    have hcons : Kernel.sortNat (x :: xs) = Kernel.insertSorted x (Kernel.sortNat xs) := rfl
    rw [hcons, Kernel.insertSorted_filter p x _ (Kernel.sortNat_sorted xs), List.filter_cons]
    by_cases hp : p x = true
    · simp only [hp, if_true]
      show Kernel.insertSorted x (Kernel.sortNat (xs.filter p)) = _
      rw [ih]
    · simp only [hp, if_false, Bool.false_eq_true]
      exact ih

/-! ## Part 1: a still kernel with zombies -/

/-- *still but for zombies*: nothing armed or pending, no process doomed, every behaviour execs, pids
    below the counter and pairwise different; dead children of the daemon may wait to be collected
    (a zombie is always a child of the daemon: other processes vanish when they die) -/
structure Kernel.StillZ (k : Kernel) : Prop where
  armed : k.armed = []
  faults : k.faults = []
  nodoom : ∀ p ∈ k.procs, p.doom = none
  noexecfail : ∀ b ∈ k.behavs, b.execFail = false
  lt : ∀ p ∈ k.procs, p.pid < k.nextPid
  nodup : (k.procs.map (·.pid)).Nodup
  zkid : ∀ p ∈ k.procs, p.st = .zombie → p.ppid = some 0

/-- the zombie children of the daemon in the order `waitpid(-1)` hands them out -/
def Kernel.zombies (k : Kernel) : List Nat :=
  Kernel.sortNat (((k.procs.filter fun p => p.ppid = some 0 && p.st ≠ .gone).filter (·.st = .zombie)).map (·.pid))

/-- the wait status the kernel holds for `pid` -/
def Kernel.statusOf (k : Kernel) (pid : Nat) : Nat := match k.find pid with | some p => p.status | none => 0

namespace Kernel.StillZ

theorem calm {k : Kernel} (h : k.StillZ) : k.Calm :=
  ⟨h.armed, fun p hp _ d st hd => by rw [h.nodoom p hp] at hd; cases hd⟩

theorem bump {k : Kernel} (h : k.StillZ) (n : Nat) : (k.bump n).StillZ :=
  ⟨h.armed, h.faults, h.nodoom, h.noexecfail, h.lt, h.nodup, h.zkid⟩

theorem tick {k : Kernel} (h : k.StillZ) : k.tick = k.bump 1 := Kernel.tick_calm k h.calm

theorem beginStep {k : Kernel} (h : k.StillZ) : k.beginStep.StillZ :=
  ⟨h.faults, rfl, h.nodoom, h.noexecfail, h.lt, h.nodup, h.zkid⟩

theorem of_still {k : Kernel} (h : k.Still) (hn : (k.procs.map (·.pid)).Nodup) : k.StillZ :=
  ⟨h.armed, h.faults, h.nodoom, h.noexecfail, h.lt, hn, fun p hp hz => absurd hz (h.nozombie p hp)⟩

end Kernel.StillZ

theorem Kernel.mem_zombies {k : Kernel} {z : Nat} :
    z ∈ k.zombies ↔ ∃ p ∈ k.procs, p.pid = z ∧ p.ppid = some 0 ∧ p.st = .zombie := by
  unfold Kernel.zombies
  rw [Kernel.sortNat_mem]
  simp only [List.mem_map, List.mem_filter]
  constructor
  · rintro ⟨p, ⟨⟨hp, hk⟩, hz⟩, rfl⟩
    refine ⟨p, hp, rfl, ?_, by simpa using hz⟩
    simp at hk
    exact hk.1
  · rintro ⟨p, hp, rfl, hk, hz⟩
    exact ⟨p, ⟨⟨hp, by simp [hk, hz]⟩, by simp [hz]⟩, rfl⟩

/-- with pairwise different pids a process of the table is the one `find` returns -/
theorem Kernel.find_of_mem {k : Kernel} (hn : (k.procs.map (·.pid)).Nodup) {p : KProc} (hp : p ∈ k.procs) :
    k.find p.pid = some p := by
  unfold Kernel.find
  generalize k.procs = l at hn hp
  induction l with
  | nil => cases hp
  | cons q qs ih =>
    simp only [List.map_cons, List.nodup_cons] at hn
    rcases List.mem_cons.mp hp with rfl | hp'
    · simp
    · have hne : ¬ q.pid = p.pid := fun he => hn.1 (he ▸ List.mem_map_of_mem hp')
      simp only [List.find?_cons, hne, decide_false]
      exact ih hn.2 hp'

/-- no zombie left: the kernel is still -/
theorem Kernel.StillZ.still {k : Kernel} (h : k.StillZ) (hz : k.zombies = []) : k.Still := by
  refine ⟨h.armed, h.faults, h.nodoom, h.noexecfail, ?_, h.lt⟩
  intro p hp hzb
  have : p.pid ∈ k.zombies := Kernel.mem_zombies.mpr ⟨p, hp, rfl, h.zkid p hp hzb, hzb⟩
  rw [hz] at this
  cases this

theorem Kernel.zombies_nodup {k : Kernel} (h : k.StillZ) : k.zombies.Nodup := by
  unfold Kernel.zombies
  apply Kernel.sortNat_nodup
  have h1 : ((k.procs.filter fun p => p.ppid = some 0 && p.st ≠ .gone).filter (·.st = .zombie)).Sublist k.procs :=
    List.Sublist.trans List.filter_sublist List.filter_sublist
  exact List.Sublist.nodup (List.Sublist.map _ h1) h.nodup

/-- the table after the zombie `z` has been collected -/
theorem Kernel.reaped_filter_list (z : Nat) (g : KProc → Bool) (hg : ∀ q : KProc, g { q with st := PState.gone } = false)
    (l : List KProc) :
    ((l.map fun q => if q.pid = z then { q with st := PState.gone } else q).filter g).map (·.pid) =
      ((l.filter g).map (·.pid)).filter (· ≠ z) := by
  induction l with
  | nil => rfl
  | cons q qs ih =>
    simp only [List.map_cons, List.filter_cons]
    by_cases hq : q.pid = z
    · subst hq
      simp only [if_true, hg, Bool.false_eq_true, if_false]
      rw [ih]
      by_cases h1 : g q = true
      · simp [h1]
      · simp [h1]
    · simp only [hq, if_false]
      by_cases h1 : g q = true
      · simp [h1, hq, ih]
      · simp [h1, ih]

theorem Kernel.reaped_zombies_list (z : Nat) (l : List KProc) :
    (((l.map fun q => if q.pid = z then { q with st := PState.gone } else q).filter
        fun p => p.ppid = some 0 && p.st ≠ .gone).filter (·.st = .zombie)).map (·.pid) =
      ((((l.filter fun p => p.ppid = some 0 && p.st ≠ .gone).filter (·.st = .zombie)).map (·.pid)).filter (· ≠ z)) := by
  rw [List.filter_filter, List.filter_filter]
  exact Kernel.reaped_filter_list z _ (fun q => by simp) l

theorem Kernel.reaped_zombies {k : Kernel} (h : k.StillZ) {z : Nat} {rest : List Nat} (hz : k.zombies = z :: rest) :
    (k.reaped z).zombies = rest := by
  have hnd := Kernel.zombies_nodup h
  rw [hz] at hnd
  have hzr : z ∉ rest := (List.nodup_cons.mp hnd).1
  unfold Kernel.zombies at hz ⊢
  have hp : (k.reaped z).procs = k.procs.map fun q => if q.pid = z then { q with st := PState.gone } else q := rfl
  rw [hp, Kernel.reaped_zombies_list, Kernel.sortNat_filter, hz]
  simp only [List.filter_cons, ne_eq, not_true_eq_false, decide_false, Bool.false_eq_true, if_false]
  apply List.filter_eq_self.mpr
  intro y hy
  have : y ≠ z := fun he => hzr (he ▸ hy)
  simp [this]

theorem Kernel.reaped_stillZ {k : Kernel} (h : k.StillZ) (z : Nat) : (k.reaped z).StillZ := by
  have hp : (k.reaped z).procs = k.procs.map fun q => if q.pid = z then { q with st := PState.gone } else q := rfl
  refine ⟨h.armed, h.faults, ?_, h.noexecfail, ?_, ?_, ?_⟩
  · intro p hpm
    rw [hp] at hpm
    obtain ⟨q, hq, rfl⟩ := List.mem_map.mp hpm
    split <;> exact h.nodoom q hq
  · intro p hpm
    rw [hp] at hpm
    obtain ⟨q, hq, rfl⟩ := List.mem_map.mp hpm
    show _ < k.nextPid
    split <;> exact h.lt q hq
  · rw [hp, List.map_map]
    have : ((fun (p : KProc) => p.pid) ∘ fun q => if q.pid = z then { q with st := PState.gone } else q) = fun p => p.pid := by
      funext q
      simp only [Function.comp]
      split <;> rfl
    rw [this]
    exact h.nodup
  · intro p hpm hzb
    rw [hp] at hpm
    obtain ⟨q, hq, rfl⟩ := List.mem_map.mp hpm
    by_cases hqz : q.pid = z
    · simp [hqz] at hzb
    · simp only [hqz, if_false] at hzb ⊢
      exact h.zkid q hq hzb

/-- **`waitpid(-1)` with a zombie waiting**: the one with the least pid is collected -/
theorem Kernel.waitpid_none_zombie {k : Kernel} (h : k.StillZ) {z : Nat} {rest : List Nat} (hz : k.zombies = z :: rest) :
    ∃ p, k.find z = some p ∧ p.st = .zombie ∧ k.waitpid none = (k.reaped z, .got z p.status) := by
  have hzm : z ∈ k.zombies := by rw [hz]; simp
  obtain ⟨p, hp, hpz, hkid, hst⟩ := Kernel.mem_zombies.mp hzm
  have hf : k.find z = some p := hpz ▸ Kernel.find_of_mem h.nodup hp
  refine ⟨p, hf, hst, ?_⟩
  unfold Kernel.waitpid
  simp only [h.tick]
  have hprocs : (k.bump 1).procs = k.procs := rfl
  have hne : ((k.bump 1).procs.filter fun p => p.ppid = some 0 && p.st ≠ .gone).isEmpty = false := by
    rw [hprocs]
    apply Bool.eq_false_iff.mpr
    intro he
    have : p ∈ (k.procs.filter fun p => p.ppid = some 0 && p.st ≠ .gone) := List.mem_filter.mpr ⟨hp, by simp [hkid, hst]⟩
    rw [List.isEmpty_iff.mp he] at this
    cases this
  have hzz : Kernel.sortNat ((((k.bump 1).procs.filter fun p => p.ppid = some 0 && p.st ≠ .gone).filter (·.st = .zombie)).map (·.pid)) = z :: rest := hz
  simp only [hne, Bool.false_eq_true, if_false, hzz, Kernel.bump_find, hf, hkid, hst]
  simp [Kernel.reaped]

/-- `waitpid(-1)` without a zombie collects nothing -/
theorem Kernel.waitpid_none_nozombie {k : Kernel} (h : k.StillZ) (hz : k.zombies = []) :
    (k.waitpid none).1 = k.bump 1 ∧ ((k.waitpid none).2 = .none ∨ (k.waitpid none).2 = .echild) :=
  Kernel.waitpid_none_still (h.still hz)

theorem Kernel.waitpid_gone_calm {k : Kernel} (hc : k.Calm) {pid : Nat} {p : KProc} (hf : k.find pid = some p)
    (hg : p.st = .gone) : k.waitpid (some pid) = (k.bump 1, .echild) := by
  unfold Kernel.waitpid
  simp only [Kernel.tick_calm k hc, Kernel.bump_find, hf, hg]
  simp

theorem Kernel.reaped_find_self {k : Kernel} {z : Nat} {p : KProc} (hf : k.find z = some p) :
    (k.reaped z).find z = some { p with st := .gone } := by
  rw [Kernel.reaped_find, hf]
  simp [Kernel.find_pid hf]

theorem Kernel.reaped_find_other {k : Kernel} {z q : Nat} (hq : q ≠ z) : (k.reaped z).find q = k.find q := by
  rw [Kernel.reaped_find]
  cases hf : k.find q with
  | none => rfl
  | some p => simp [Kernel.find_pid hf, hq]

/-! ## Part 2: `Watcher.reap_process(pid, status)` on a worker the arbiter has just collected -/

theorem pure_run {α : Type} (x : α) (s : State) : (pure x : M α) s = (x, s) := rfl

section mk
variable (k : Kernel) (a : Arbiter) (objs : List PObj) (ws : List Watcher) (w : Watcher) (frames : List Frame)
  (sleepers : List Sleeper) (tops : List TopFut) (ready : List Ready) (dv : List (Nat × Val)) (nid : Nat) (log : List Obs)

theorem procStatus_gone_mk (pid : Nat) (p : KProc) (hc : k.Calm) (hf : k.find pid = some p) (hg : p.st = .gone) :
    procStatus pid ⟨k, a, objs, ws, frames, sleepers, tops, ready, dv, nid, log, false⟩ =
      (.unexisting, ⟨k.bump 1, a, objs, ws, frames, sleepers, tops, ready, dv, nid, log, false⟩) := by
  unfold procStatus
  simp only [bind]
  rw [kStateOf_calm _ pid hc]
  simp only [hf, hg]
  rfl

/-- `Process.stop()` on a worker that has been waited for: `poll()` (if the exit code is not cached yet:
    one `waitpid` → ECHILD) says dead, nothing is signalled -/
theorem objStop_gone_mk (pid : Nat) (p : KProc) (hc : k.Calm) (hf : k.find pid = some p) (hg : p.st = .gone) :
    ∃ n O, objStop pid ⟨k, a, objs, ws, frames, sleepers, tops, ready, dv, nid, log, false⟩ =
      ((), ⟨k.bump n, a, O, ws, frames, sleepers, tops, ready, dv, nid, log, false⟩) := by
  cases ho : ((objs.find? (·.pid = pid)).getD { pid := pid, wid := 0, started := 0 }).rc with
  | some c =>
    refine ⟨0, objs, ?_⟩
    simp [objStop, isAlive, bind, getO, ho, pure, Kernel.bump]
  | none =>
    refine ⟨1, objs.map fun o => if o.pid = pid then { o with rc := some 0 } else o, ?_⟩
    simp [objStop, isAlive, bind, getO, ho, pure, kWaitpid, runK, Kernel.waitpid_gone_calm hc hf hg, setRc, modO, modS]

/-- **`reap_process(z, status)` for a listed worker that `waitpid(-1)` has just collected**: the entry is
    popped, nothing is waited for again, the `reap` event carries the decoded wait status, nothing is
    signalled -/
theorem reapProcess_collected_mk (u z st : Nat) (p : KProc) (hu : w.uid = u) (hh : w.hooks = []) (hc : k.Calm)
    (hf : k.find z = some p) (hg : p.st = .gone) (hp : z ∈ w.pids) :
    ∃ n O, reapProcess u z (some st) ⟨k, a, objs, [w], frames, sleepers, tops, ready, dv, nid, log, false⟩ =
      ((), ⟨k.bump n, a, O, [{ w with pids := w.pids.filter (· ≠ z) }], frames, sleepers, tops, ready, dv, nid,
        evlog a log w "reap" (some z) (toString (exitCodeOf st)), false⟩) := by
  obtain ⟨n, O, hos⟩ := objStop_gone_mk (k.bump 1) a objs [{ w with pids := w.pids.filter (· ≠ z) }] frames sleepers tops
    ready dv nid log z p (Kernel.bump_calm k 1 hc) hf hg
  refine ⟨1 + n, O, ?_⟩
  unfold reapProcess
  simp only [bind]
  rw [getW_mk _ _ _ _ _ _ _ _ _ _ _ u hu]
  erw [if_neg (by simp [hp])]
  rw [callHook_mk _ _ _ _ _ _ _ _ _ _ _ u hu hh]
  simp only [popPid, modW, modS, List.map_cons, List.map_nil, hu, if_true]
  unfold reapTail
  have hps := procStatus_gone_mk k a objs [{ w with pids := w.pids.filter (· ≠ z) }] frames sleepers tops ready dv nid log z p hc hf hg
  have hnt := notify_mk ((k.bump 1).bump n) a O { w with pids := w.pids.filter (· ≠ z) } frames sleepers tops ready dv nid log u hu
    "reap" (some z) (toString (exitCodeOf st))
  have hch := callHook_mk ((k.bump 1).bump n) a O { w with pids := w.pids.filter (· ≠ z) } frames sleepers tops ready dv nid
    (evlog a log { w with pids := w.pids.filter (· ≠ z) } "reap" (some z) (toString (exitCodeOf st))) u hu hh "after_reap"
  simp only [hu, Kernel.bump_bump] at hps hos hnt hch
  simp only [bind, pure_run, hps, isDead, decide_true, Bool.or_true]
  erw [if_pos True.intro]
  simp only [hos, hnt, hch]
  rfl

end mk

/-! ## Part 3: `Arbiter.reap_processes` — the `waitpid(-1)` loop -/

theorem evlog_evs (a : Arbiter) (log : List Obs) (w : Watcher) (t : String) (p : Option Nat) (x : String) :
    evlog a log w t p x = log ++ evs a w.name t p x := by
  unfold evlog evs
  split <;> simp

/-- what `Arbiter.reap_processes` leaves in the log for the zombies `zs` (in the order `waitpid(-1)` hands
    them out): the collected wait status (`σ z`), and for a worker listed by the watcher (`L`) its `reap`
    event with the decoded status -/
def arbReapObs (a : Arbiter) (wname : String) (L : List Nat) (σ : Nat → Nat) : List Nat → List Obs
  | [] => []
  | z :: rest =>
    (Obs.reap z (σ z) :: (if z ∈ L then evs a wname "reap" (some z) (toString (exitCodeOf (σ z))) else [])) ++
      arbReapObs a wname L σ rest

theorem arbReapObs_pub (a a' : Arbiter) (h : a'.pubClosed = a.pubClosed) (wname : String) (L : List Nat) (σ : Nat → Nat)
    (zs : List Nat) : arbReapObs a' wname L σ zs = arbReapObs a wname L σ zs := by
  induction zs with
  | nil => rfl
  | cons z rest ih => simp only [arbReapObs, evs, h, ih]

theorem forIn_pure_yield {γ β : Type} (l : List γ) (f : γ → β → β) (init : β) (s : State) :
    (forIn l init (fun x r => (pure (ForInStep.yield (f x r)) : M (ForInStep β))) : M β) s =
      (l.foldl (fun r x => f x r) init, s) := by
  induction l generalizing init with
  | nil => rfl
  | cons x xs ih =>
    rw [List.forIn_cons]
    simp only [bind, pure_run, List.foldl_cons]
    exact ih _

theorem lookup_filter_fst_ne (r : List (Nat × Nat)) (pid z : Nat) :
    (r.filter (fun x => decide (x.1 ≠ pid))).lookup z = if z = pid then none else r.lookup z := by
  induction r with
  | nil => simp
  | cons x xs ih =>
    obtain ⟨a, b⟩ := x
    by_cases h1 : a = pid
    · subst h1
      simp only [List.filter_cons, ne_eq, not_true_eq_false, decide_false, Bool.false_eq_true, if_false, ih,
        List.lookup_cons]
      by_cases h2 : z = a
      · simp [h2]
      · have : (z == a) = false := by simp [h2]
        simp [h2, this]
    · simp only [List.filter_cons, ne_eq, h1, not_false_eq_true, decide_true, if_true, List.lookup_cons, ih]
      by_cases h2 : z = a
      · subst h2
        simp [h1]
      · have : (z == a) = false := by simp [h2]
        simp [this]

/-- the pid → watcher map `Arbiter.reap_processes` builds from the only watcher -/
theorem pidmap_lookup (u : Nat) (l : List Nat) : ∀ (init : List (Nat × Nat)) (z : Nat),
    (l.foldl (fun r pid => (pid, u) :: r.filter (fun x => decide (x.1 ≠ pid))) init).lookup z =
      if z ∈ l then some u else init.lookup z := by
  induction l with
  | nil => intro init z; simp
  | cons pid rest ih =>
    intro init z
    rw [List.foldl_cons, ih]
    by_cases h1 : z ∈ rest
    · simp [h1]
    · simp only [h1, if_false, List.lookup_cons, lookup_filter_fst_ne, List.mem_cons, or_false]
      by_cases h2 : z = pid
      · simp [h2]
      · have : (z == pid) = false := by simp [h2]
        simp [h2, this]

section mk
variable (a : Arbiter) (frames : List Frame) (sleepers : List Sleeper) (tops : List TopFut) (ready : List Ready)
  (dv : List (Nat × Val)) (nid : Nat)

theorem kWaitpid_none_zombie_mk (k : Kernel) (objs : List PObj) (ws : List Watcher) (log : List Obs) (hk : k.StillZ)
    {z : Nat} {rest : List Nat} (hz : k.zombies = z :: rest) :
    kWaitpid none ⟨k, a, objs, ws, frames, sleepers, tops, ready, dv, nid, log, false⟩ =
      (.got z (k.statusOf z), ⟨k.reaped z, a, objs, ws, frames, sleepers, tops, ready, dv, nid,
        log ++ [Obs.reap z (k.statusOf z)], false⟩) := by
  obtain ⟨p, hf, _, hw⟩ := Kernel.waitpid_none_zombie hk hz
  have hst : k.statusOf z = p.status := by simp [Kernel.statusOf, hf]
  simp [kWaitpid, bind, runK, hw, hst, emit, modS, Obs.isRep, Obs.isEv, pure]

/-- **the `waitpid(-1)` loop**: every zombie child is collected, least pid first; the listed ones are
    popped and announced; afterwards no zombie is left and nobody else has been touched -/
theorem arbReapLoop_zombies (u : Nat) (pm : List (Nat × Nat)) (L : List Nat) (σ : Nat → Nat)
    (hpm : ∀ z, pm.lookup z = if z ∈ L then some u else none) :
    ∀ (zs : List Nat) (fuel : Nat) (k : Kernel) (objs : List PObj) (w : Watcher) (log : List Obs),
      zs.length < fuel → w.uid = u → w.hooks = [] → k.StillZ → k.zombies = zs →
      (∀ z ∈ zs, (z ∈ L ↔ z ∈ w.pids)) → (∀ z ∈ zs, k.statusOf z = σ z) →
      ∃ K O, arbReapLoop pm fuel ⟨k, a, objs, [w], frames, sleepers, tops, ready, dv, nid, log, false⟩ =
          ((), ⟨K, a, O, [{ w with pids := w.pids.filter (fun p => decide (p ∉ zs)) }], frames, sleepers, tops, ready, dv,
            nid, log ++ arbReapObs a w.name L σ zs, false⟩) ∧
        K.Still ∧ K.nextPid = k.nextPid ∧ K.now = k.now ∧ (∀ q, q ∉ zs → K.find q = k.find q) ∧
        (∀ z ∈ zs, ∃ p, K.find z = some p ∧ p.st = .gone) := by
  intro zs
  induction zs with
  | nil =>
    intro fuel k objs w log hfuel _ _ hk hz _ _
    obtain ⟨f, rfl⟩ : ∃ f, fuel = f + 1 := ⟨fuel - 1, by simp at hfuel; omega⟩
    refine ⟨k.bump 1, objs, ?_, (hk.still hz).bump 1, rfl, rfl, fun _ _ => rfl, fun z hz => by cases hz⟩
    rw [arbReapLoop_still pm f _ rfl (hk.still hz)]
    have : w.pids.filter (fun p => decide (p ∉ ([] : List Nat))) = w.pids := List.filter_eq_self.mpr (fun _ _ => by simp)
    rw [this]
    simp [arbReapObs]
  | cons z rest ih =>
    intro fuel k objs w log hfuel hu hh hk hz hL hσ
    obtain ⟨f, rfl⟩ : ∃ f, fuel = f + 1 := ⟨fuel - 1, by simp at hfuel; omega⟩
    have hfuel' : rest.length < f := by simp at hfuel; omega
    have hnd := Kernel.zombies_nodup hk
    rw [hz] at hnd
    have hzr : z ∉ rest := (List.nodup_cons.mp hnd).1
    obtain ⟨p, hf, _, _⟩ := Kernel.waitpid_none_zombie hk hz
    have hst : k.statusOf z = σ z := hσ z (by simp)
    have hk1 : (k.reaped z).StillZ := Kernel.reaped_stillZ hk z
    have hz1 : (k.reaped z).zombies = rest := Kernel.reaped_zombies hk hz
    have hfz : (k.reaped z).find z = some { p with st := .gone } := Kernel.reaped_find_self hf
    have hσ1 : ∀ n, ∀ y ∈ rest, ((k.reaped z).bump n).statusOf y = σ y := by
      intro n y hy
      have hne : y ≠ z := fun he => hzr (he ▸ hy)
      rw [← hσ y (by simp [hy])]
      simp only [Kernel.statusOf, Kernel.bump_find, Kernel.reaped_find_other hne]
    have hopen : arbReapLoop pm (f + 1) ⟨k, a, objs, [w], frames, sleepers, tops, ready, dv, nid, log, false⟩ =
        (do (match pm.lookup z with
              | some uid => reapProcess uid z (some (k.statusOf z))
              | none => pure ())
            arbReapLoop pm f : M Unit)
          ⟨k.reaped z, a, objs, [w], frames, sleepers, tops, ready, dv, nid, log ++ [Obs.reap z (k.statusOf z)], false⟩ := by
      conv => lhs; unfold arbReapLoop
      simp only [bind, getS]
      erw [if_neg (by simp)]
      rw [kWaitpid_none_zombie_mk a frames sleepers tops ready dv nid k objs [w] log hk hz]
      simp only []
      cases List.lookup z pm <;> rfl
    rw [hopen, hpm z]
    by_cases hzL : z ∈ L
    · have hzw : z ∈ w.pids := (hL z (by simp)).mp hzL
      obtain ⟨n, O, hrp⟩ := reapProcess_collected_mk (k.reaped z) a objs w frames sleepers tops ready dv nid
        (log ++ [Obs.reap z (k.statusOf z)]) u z (k.statusOf z) { p with st := .gone } hu hh hk1.calm hfz rfl hzw
      obtain ⟨K, O', hloop, hK1, hK2, hK3, hK4, hK5⟩ := ih f ((k.reaped z).bump n) O
        { w with pids := w.pids.filter (· ≠ z) }
        (evlog a (log ++ [Obs.reap z (k.statusOf z)]) w "reap" (some z) (toString (exitCodeOf (k.statusOf z))))
        hfuel' hu hh (hk1.bump n) hz1
        (fun y hy => by
          have hne : y ≠ z := fun he => hzr (he ▸ hy)
          rw [hL y (by simp [hy])]
          simp [hne])
        (hσ1 n)
      refine ⟨K, O', ?_, hK1, hK2, hK3, ?_, ?_⟩
      · simp only [hzL, if_true, bind]
        rw [hrp]
        simp only
        rw [hloop]
        simp only [List.filter_filter, arbReapObs, hzL, if_true, evlog_evs, hst, List.append_assoc, List.cons_append,
          List.nil_append]
        have hfl : List.filter (fun x => decide (x ∉ rest) && decide (x ≠ z)) w.pids =
            List.filter (fun p => decide (p ∉ z :: rest)) w.pids := by
          apply List.filter_congr
          intro x _
          by_cases h1 : x ∈ rest <;> by_cases h2 : x = z <;> simp [h1, h2]
        rw [hfl]
      · intro q hq
        have hq1 : q ∉ rest := fun h => hq (by simp [h])
        have hq2 : q ≠ z := fun h => hq (by simp [h])
        rw [hK4 q hq1, Kernel.bump_find, Kernel.reaped_find_other hq2]
      · intro y hy
        rcases List.mem_cons.mp hy with rfl | hy
        · exact ⟨_, (hK4 y hzr).trans hfz, rfl⟩
        · exact hK5 y hy
    · have hzw : z ∉ w.pids := fun h => hzL ((hL z (by simp)).mpr h)
      obtain ⟨K, O', hloop, hK1, hK2, hK3, hK4, hK5⟩ := ih f (k.reaped z) objs w (log ++ [Obs.reap z (k.statusOf z)])
        hfuel' hu hh hk1 hz1
        (fun y hy => hL y (by simp [hy]))
        (fun y hy => by have := hσ1 0 y hy; simpa [Kernel.bump, Kernel.statusOf, Kernel.find] using this)
      refine ⟨K, O', ?_, hK1, hK2, hK3, ?_, ?_⟩
      · simp only [hzL, if_false, bind, pure_run]
        rw [hloop]
        simp only [arbReapObs, hzL, if_false, hst, List.append_assoc, List.cons_append, List.nil_append]
        have hfl : List.filter (fun p => decide (p ∉ rest)) w.pids = List.filter (fun p => decide (p ∉ z :: rest)) w.pids := by
          apply List.filter_congr
          intro x hx
          have h2 : x ≠ z := fun h => hzw (h ▸ hx)
          by_cases h1 : x ∈ rest <;> simp [h1, h2]
        rw [hfl]
      · intro q hq
        have hq1 : q ∉ rest := fun h => hq (by simp [h])
        have hq2 : q ≠ z := fun h => hq (by simp [h])
        rw [hK4 q hq1, Kernel.reaped_find_other hq2]
      · intro y hy
        rcases List.mem_cons.mp hy with rfl | hy
        · exact ⟨_, (hK4 y hzr).trans hfz, rfl⟩
        · exact hK5 y hy

end mk

/-! ## Part 4: the check after deaths -/

/-- is `pid` a running process? -/
def Kernel.runs (k : Kernel) (pid : Nat) : Bool := match k.find pid with | some p => p.st = .run | none => false

/-- the state of `pid` in the process table (decidable form of `∃ p, k.find pid = some p ∧ p.st = st`) -/
def Kernel.stOf (k : Kernel) (pid : Nat) : Option PState := (k.find pid).map (·.st)

theorem Kernel.find_of_stOf {k : Kernel} {pid : Nat} {st : PState} (h : k.stOf pid = some st) :
    ∃ p, k.find pid = some p ∧ p.st = st := by
  unfold Kernel.stOf at h
  cases hf : k.find pid with
  | none => rw [hf] at h; cases h
  | some p => rw [hf] at h; exact ⟨p, rfl, by simpa using h⟩

/-- the data of the start state: the only watcher (as in `Dat`) lists the pids `L`, each of them either
    running or a zombie (dead, not yet waited for); the kernel is still but for zombies; the daemon not hung -/
def DatZ (u N : Nat) (L : List Nat) (s : State) : Prop :=
  ∃ w, s.ws = [w] ∧ WOk u N w ∧ w.pids = L ∧ s.blocked = false ∧ s.k.StillZ ∧
    ∀ pid ∈ L, ∃ p, s.k.find pid = some p ∧ (p.st = .run ∨ p.st = .zombie)

theorem DatL.datZ {u N : Nat} {l : List Nat} {s : State} (h : DatL u N l s) (hn : (s.k.procs.map (·.pid)).Nodup) :
    DatZ u N l s := by
  obtain ⟨w, h1, h2, h3, h4, h5, h6⟩ := h
  exact ⟨w, h1, h2, h3, h4, Kernel.StillZ.of_still h5 hn, fun pid hp => by
    obtain ⟨p, hf, hr⟩ := h6 pid hp; exact ⟨p, hf, Or.inl hr⟩⟩

/-- among listed pids "not a zombie" is "running" -/
theorem DatZ.filter_alive {u N : Nat} {L : List Nat} {s : State} (h : DatZ u N L s) :
    L.filter (fun p => decide (p ∉ s.k.zombies)) = L.filter s.k.runs := by
  obtain ⟨w, _, _, _, _, hk, hall⟩ := h
  apply List.filter_congr
  intro pid hp
  obtain ⟨p, hf, hst⟩ := hall pid hp
  have hpm := Kernel.find_mem hf
  have hpp := Kernel.find_pid hf
  rcases hst with hr | hz
  · have : pid ∉ s.k.zombies := by
      intro hm
      obtain ⟨q, hq, hqp, _, hqz⟩ := Kernel.mem_zombies.mp hm
      have : s.k.find q.pid = some q := Kernel.find_of_mem hk.nodup hq
      rw [hqp, hf] at this
      have : p = q := by simpa using this
      subst this
      rw [hr] at hqz
      cases hqz
    simp [this, Kernel.runs, hf, hr]
  · have : pid ∈ s.k.zombies := Kernel.mem_zombies.mpr ⟨p, hpm, hpp, hk.zkid p hpm hz, hz⟩
    simp [this, Kernel.runs, hf, hz]

/-- **`Arbiter.reap_processes` with dead workers listed**: every zombie child is collected (least pid first), the
    listed ones leave the watcher's dict and are announced; the watcher then lists exactly the workers that
    run, the kernel is still, nobody else has been touched -/
theorem arbReapProcesses_zombies (u N : Nat) (L : List Nat) (s : State) (hd : DatZ u N L s) (hwat : s.a.watchers = [u]) :
    ∃ K O w, s.ws = [w] ∧
      arbReapProcesses s = ((), { s with k := K, objs := O, ws := [{ w with pids := L.filter s.k.runs }],
                                         log := s.log ++ arbReapObs s.a w.name L s.k.statusOf s.k.zombies }) ∧
      K.Still ∧ K.nextPid = s.k.nextPid ∧ K.now = s.k.now ∧ (∀ q, q ∉ s.k.zombies → K.find q = s.k.find q) ∧
      (∀ z ∈ s.k.zombies, ∃ p, K.find z = some p ∧ p.st = .gone) := by
  have hfa := hd.filter_alive
  obtain ⟨w, hws, hw, hpl, hb, hk, hall⟩ := hd
  obtain ⟨k, a, objs, ws, frames, sleepers, tops, ready, dv, nid, log, blocked⟩ := s
  simp only at hws hb hk hall hwat hfa
  subst hws hb
  have hfuel : k.zombies.length < k.procs.length + 2 := by
    unfold Kernel.zombies
    rw [Kernel.sortNat_length, List.length_map]
    have h1 := List.length_filter_le (fun (p : KProc) => decide (p.st = .zombie))
      (k.procs.filter fun p => p.ppid = some 0 && p.st ≠ .gone)
    have h2 := List.length_filter_le (fun (p : KProc) => p.ppid = some 0 && p.st ≠ .gone) k.procs
    omega
  obtain ⟨K, O, hloop, hK1, hK2, hK3, hK4, hK5⟩ := arbReapLoop_zombies a frames sleepers tops ready dv nid u
    (w.pids.foldl (fun r pid => (pid, u) :: r.filter (fun x => decide (x.1 ≠ pid))) []) w.pids k.statusOf
    (fun z => by rw [pidmap_lookup]; simp) k.zombies (k.procs.length + 2) k objs w log hfuel hw.uid hw.hooks hk rfl
    (fun _ _ => Iff.rfl) (fun _ _ => rfl)
  refine ⟨K, O, w, rfl, ?_, hK1, hK2, hK3, hK4, hK5⟩
  unfold arbReapProcesses
  simp only [bind]
  have hreg : registered ⟨k, a, objs, [w], frames, sleepers, tops, ready, dv, nid, log, false⟩ =
      ([w], ⟨k, a, objs, [w], frames, sleepers, tops, ready, dv, nid, log, false⟩) := by
    simp [registered, bind, getS, pure, hwat, hw.uid]
  rw [hreg]
  have hsw : sortWatchers [w] true = [w] := by simp [sortWatchers, insertBy]
  simp only [hsw]
  erw [List.forIn_cons]
  simp only [bind, List.forIn_nil]
  have hst : w.status ≠ Status.stopped := by rw [hw.status]; decide
  erw [if_pos hst]
  simp only [forIn_pure_yield, pure_run, getS, hw.uid]
  rw [hloop, hpl, hfa, hw.uid]

/-- **the periodic check with dead workers listed and workers missing**: the arbiter's `waitpid(-1)` loop reaps
    exactly the dead ones (observations and `reap` events in the log, entries popped), then `manage_processes`
    spawns the first missing worker and parks (`Parked`); the watcher lists the workers that were running
    before, in their order, followed by the new pid -/
theorem check_reaps_parks (u N : Nat) (L : List Nat) (s : State) (hi : Idle u s) (hd : DatZ u N L s)
    (hm : (L.filter s.k.runs).length < N) :
    Parked u s.nextId (s.nextId + 4) (N - (L.filter s.k.runs).length - 1) (step s .check) ∧
    DatL u N (L.filter s.k.runs ++ [s.k.nextPid]) (step s .check) ∧ s.k.nextPid < (step s .check).k.nextPid ∧
    ∃ w wid, s.ws = [w] ∧ (step s .check).log = s.log ++ arbReapObs s.a w.name L s.k.statusOf s.k.zombies ++
      (Obs.spawn s.k.nextPid w.name wid :: evs s.a w.name "spawn" (some s.k.nextPid) "-") := by
  have hb : s.blocked = false := by obtain ⟨_, _, _, _, hb, _⟩ := hd; exact hb
  have hdE : DatZ u N L (checkEntry s) := by
    obtain ⟨w, h1, h2, h3, h4, h5, h6⟩ := hd
    exact ⟨w, h1, h2, h3, h4, h5.beginStep, h6⟩
  obtain ⟨K, O, w, hws, hreap, hK1, hK2, _, hK4, _⟩ := arbReapProcesses_zombies u N L (checkEntry s) hdE hi.watchers
  have hfa := hd.filter_alive
  obtain ⟨w0, hws0, hw, hpl, _, hk, hall⟩ := hd
  have hww : w0 = w := by
    have : s.ws = [w] := hws
    rw [hws0] at this
    simpa using this
  subst hww
  have hzz : (checkEntry s).k.zombies = s.k.zombies := rfl
  have hrr : (checkEntry s).k.runs = s.k.runs := rfl
  have hss : (checkEntry s).k.statusOf = s.k.statusOf := rfl
  have hlg : (checkEntry s).log = s.log := rfl
  have hobs : arbReapObs (checkEntry s).a w0.name L s.k.statusOf s.k.zombies = arbReapObs s.a w0.name L s.k.statusOf s.k.zombies :=
    arbReapObs_pub s.a (checkEntry s).a rfl _ _ _ _
  rw [hzz] at hK4
  rw [hrr, hss, hzz, hlg, hobs] at hreap
  have hdl : DatL u N (L.filter s.k.runs)
      ({ checkEntry s with k := K, objs := O, ws := [{ w0 with pids := L.filter s.k.runs }],
                           log := s.log ++ arbReapObs s.a w0.name L s.k.statusOf s.k.zombies } : State) := by
    refine ⟨_, rfl, ⟨hw.uid, hw.status, hw.respawn, hw.maxAge, hw.onDemand, hw.hooks, hw.np, hw.retry⟩, rfl, hb, hK1, ?_⟩
    intro pid hp
    have hpL := (List.mem_filter.mp hp).1
    have hrun := (List.mem_filter.mp hp).2
    have hnz : pid ∉ s.k.zombies := by
      rw [← hfa] at hp
      simpa using (List.mem_filter.mp hp).2
    obtain ⟨p, hf, _⟩ := hall pid hpL
    refine ⟨p, by rw [hK4 pid hnz]; exact hf, ?_⟩
    simpa [Kernel.runs, hf] using hrun
  have hK2' : K.nextPid = s.k.nextPid := hK2
  obtain ⟨h1, h2, h3, wid, h4⟩ := check_parks_gen u N (L.filter s.k.runs) s hi hb K O _ _ hreap hdl hm
  rw [hK2'] at h2 h3 h4
  exact ⟨h1, h2, h3, w0, wid, hws0, by rw [h4, List.append_assoc]⟩

/-- the same when nobody is missing once the dead are gone: the check completes within the step -/
theorem check_reaps_idle (u N : Nat) (L : List Nat) (s : State) (hi : Idle u s) (hd : DatZ u N L s)
    (hm : (L.filter s.k.runs).length = N) :
    Idle u (step s .check) ∧ DatL u N (L.filter s.k.runs) (step s .check) ∧ (step s .check).k.nextPid = s.k.nextPid ∧
    ∃ w, s.ws = [w] ∧ (step s .check).log = s.log ++ arbReapObs s.a w.name L s.k.statusOf s.k.zombies := by
  have hb : s.blocked = false := by obtain ⟨_, _, _, _, hb, _⟩ := hd; exact hb
  have hdE : DatZ u N L (checkEntry s) := by
    obtain ⟨w, h1, h2, h3, h4, h5, h6⟩ := hd
    exact ⟨w, h1, h2, h3, h4, h5.beginStep, h6⟩
  obtain ⟨K, O, w, hws, hreap, hK1, hK2, _, hK4, _⟩ := arbReapProcesses_zombies u N L (checkEntry s) hdE hi.watchers
  have hfa := hd.filter_alive
  obtain ⟨w0, hws0, hw, hpl, _, hk, hall⟩ := hd
  have hww : w0 = w := by
    have : s.ws = [w] := hws
    rw [hws0] at this
    simpa using this
  subst hww
  have hzz : (checkEntry s).k.zombies = s.k.zombies := rfl
  have hrr : (checkEntry s).k.runs = s.k.runs := rfl
  have hss : (checkEntry s).k.statusOf = s.k.statusOf := rfl
  have hlg : (checkEntry s).log = s.log := rfl
  have hobs : arbReapObs (checkEntry s).a w0.name L s.k.statusOf s.k.zombies = arbReapObs s.a w0.name L s.k.statusOf s.k.zombies :=
    arbReapObs_pub s.a (checkEntry s).a rfl _ _ _ _
  rw [hzz] at hK4
  rw [hrr, hss, hzz, hlg, hobs] at hreap
  have hdl : DatL u N (L.filter s.k.runs)
      ({ checkEntry s with k := K, objs := O, ws := [{ w0 with pids := L.filter s.k.runs }],
                           log := s.log ++ arbReapObs s.a w0.name L s.k.statusOf s.k.zombies } : State) := by
    refine ⟨_, rfl, ⟨hw.uid, hw.status, hw.respawn, hw.maxAge, hw.onDemand, hw.hooks, hw.np, hw.retry⟩, rfl, hb, hK1, ?_⟩
    intro pid hp
    have hpL := (List.mem_filter.mp hp).1
    have hrun := (List.mem_filter.mp hp).2
    have hnz : pid ∉ s.k.zombies := by
      rw [← hfa] at hp
      simpa using (List.mem_filter.mp hp).2
    obtain ⟨p, hf, _⟩ := hall pid hpL
    refine ⟨p, by rw [hK4 pid hnz]; exact hf, ?_⟩
    simpa [Kernel.runs, hf] using hrun
  have hK2' : K.nextPid = s.k.nextPid := hK2
  obtain ⟨h1, h2, h3, h4⟩ := check_idle_gen u N (L.filter s.k.runs) s hi hb K O _ _ hreap hdl hm
  exact ⟨h1, h2, h3.trans hK2', w0, hws0, h4⟩

/-- **convergence after deaths**: from an idle state whose watcher lists `L` — running workers and dead
    ones — the check followed by exactly `N - m` timer firings (`m` = number of listed workers that run)
    ends idle with the `m` old running workers kept, in their order, followed by `N - m` fresh pids, all
    running -/
theorem check_converges_deaths (u N : Nat) (L : List Nat) (s : State) (hi : Idle u s) (hd : DatZ u N L s)
    (hm : (L.filter s.k.runs).length ≤ N) :
    Idle u (run s (.check :: List.replicate (N - (L.filter s.k.runs).length) .wake)) ∧
    ∃ news, DatL u N (L.filter s.k.runs ++ news) (run s (.check :: List.replicate (N - (L.filter s.k.runs).length) .wake)) ∧
      news.length = N - (L.filter s.k.runs).length ∧ ∀ p ∈ news, s.k.nextPid ≤ p := by
  rw [run_cons]
  by_cases hlt : (L.filter s.k.runs).length < N
  · obtain ⟨hp, hd', hnp, _⟩ := check_reaps_parks u N L s hi hd hlt
    have hrep : N - (L.filter s.k.runs).length = (N - (L.filter s.k.runs).length - 1) + 1 := by omega
    rw [hrep]
    obtain ⟨h1, news, h2, h3, h4⟩ := wakes_convergeL u N s.nextId (N - (L.filter s.k.runs).length - 1) _
      (L.filter s.k.runs ++ [s.k.nextPid]) _ hp hd' (by simp; omega)
    refine ⟨h1, s.k.nextPid :: news, by simpa using h2, by simp [h3], ?_⟩
    intro p hp
    rcases List.mem_cons.mp hp with rfl | hp
    · exact Nat.le_refl _
    · have := h4 p hp; omega
  · have hN : (L.filter s.k.runs).length = N := by omega
    simp only [hN, Nat.sub_self, List.replicate_zero]
    obtain ⟨h1, h2, _, _⟩ := check_reaps_idle u N L s hi hd hN
    exact ⟨h1, [], by simpa [run] using h2, rfl, fun p hp => by cases hp⟩

end Circus.Core
