import Aesop
declare_aesop_rule_sets [Sg]
