import Aesop
declare_aesop_rule_sets [Narrow]
declare_aesop_rule_sets [NoClose]
declare_aesop_rule_sets [ReadOnly]
