import CircusProofs.Core.SlotFree
import CircusProofs.Core.NoClose
/-!
Invariants that only look at the arbiter record (`stopping`, the closed flags, …): one `LeafX`
(for `run_pres`) and one `LeafXC` (no `setClosed`: everything a coroutine or `dispatch` does) for
all of them, from the six ways the model writes that record.
-/
namespace Circus.Core

/-- invariants that only look at the arbiter record -/
def ArbP (P : Arbiter → Prop) (s : State) : Prop := P s.a

/-- `P` survives every write a coroutine or `dispatch` makes to the arbiter record … -/
structure ArbStableC (P : Arbiter → Prop) : Prop where
  stopping : ∀ a, P a → P { a with stopping := true }
  restarting : ∀ a, P a → P { a with restarting := true, stopping := true }
  unrestarting : ∀ a b, P a → P { a with restarting := false, stopping := b }   -- the failed arbiter restart (fix 273f512: the flag found on entry is restored)
  loopStop : ∀ a b, P a → P { a with loopStop := b }
  socketEvent : ∀ a b, P a → P { a with socketEvent := b }
  sockReady : ∀ a b, P a → P { a with sockReady := b }
  directory : ∀ a ns ws, P a → P { a with names := ns, watchers := ws }
  slot : ∀ a v, P a → P { a with slot := v }

/-- … and also the one write only the event loop makes (`stop_controller_and_close_sockets`) -/
structure ArbStable (P : Arbiter → Prop) : Prop extends ArbStableC P where
  closed : ∀ a, P a → P { a with ctlClosed := true, pubClosed := true }

theorem arbP_same {P : Arbiter → Prop} {m : M α} (h : ∀ s, (m s).2.a = s.a) : Pres (ArbP P) m := by
  intro s hs; unfold ArbP; rw [h s]; exact hs

theorem arbP_modA {P : Arbiter → Prop} (f : Arbiter → Arbiter) (h : ∀ a, P a → P (f a)) : Pres (ArbP P) (modA f) :=
  fun s hs => h s.a hs

theorem arbPLeafXC (P : Arbiter → Prop) (S : ArbStableC P) : LeafXC (ArbP P) where
  emit := fun o => arbP_same fun s => by simp only [emit, modS]; split <;> rfl
  runK := fun f _ => arbP_same fun _ => rfl
  emitEv := fun _ _ _ _ => arbP_same fun s => by simp only [emitEv, modS]; split <;> rfl
  setStatus := fun _ _ => arbP_same fun _ => rfl
  trySetNp := fun u k => arbP_same fun s => by
    unfold trySetNp; simp only
    generalize (if k < 0 then 0 else k) = k'
    split <;> rfl
  spawnAdopt := fun u w => arbP_same fun s => by
    unfold spawnAdopt; simp only
    cases h : s.k.spawn with
    | mk k' r => cases r <;> rfl
  popPid := fun _ _ => arbP_same fun _ => rfl
  bumpHook := fun _ _ _ => arbP_same fun _ => rfl
  setWOpt := fun _ _ => arbP_same fun _ => rfl
  setObjStopping := fun _ _ => arbP_same fun _ => rfl
  setRc := fun _ _ => arbP_same fun _ => rfl
  markBlocked := arbP_same fun _ => rfl
  freshId := arbP_same fun _ => rfl
  pushFrame := fun _ => arbP_same fun _ => rfl
  removeFrame := fun _ => arbP_same fun _ => rfl
  setFrameK := fun _ _ => arbP_same fun _ => rfl
  armFrame := fun _ => arbP_same fun _ => rfl
  pushSleeper := fun _ => arbP_same fun _ => rfl
  armTop := fun _ => arbP_same fun _ => rfl
  setStopping := arbP_modA _ S.stopping
  setRestarting := arbP_modA _ S.restarting
  clearRestarting := fun b => arbP_modA _ (fun a => S.unrestarting a b)
  setLoopStop := fun b => arbP_modA _ (fun a => S.loopStop a b)
  setSocketEvent := fun b => arbP_modA _ (fun a => S.socketEvent a b)
  setSockReady := fun b => arbP_modA _ (fun a => S.sockReady a b)
  clearDone := arbP_same fun _ => rfl
  unregister := fun u => arbP_modA _ (fun a => S.directory a _ _)
  registerNew := fun w _ => by
    intro s hs
    unfold registerNew registerChecked
    simp only
    split
    · exact hs
    · split
      · exact hs
      · exact S.directory s.a _ _ hs
  fireSleeper := fun _ => arbP_same fun _ => rfl
  enqueueResume := fun _ _ _ => arbP_same fun _ => rfl
  enqueueCallback := fun _ => arbP_same fun _ => rfl
  setSlot := fun v => arbP_modA _ (fun a => S.slot a v)
  pushTop := fun _ => arbP_same fun _ => rfl
  finishTop := fun _ _ => arbP_same fun _ => rfl
  topAddCb := fun _ _ => arbP_same fun _ => rfl
  enqueue := fun _ => arbP_same fun _ => rfl
  dequeue := arbP_same fun _ => rfl
  emitRep := fun _ _ _ _ _ => arbP_same fun s => by simp only [emitRep, modS]; split <;> rfl

theorem arbPLeafX (P : Arbiter → Prop) (S : ArbStable P) : LeafX (ArbP P) :=
  { arbPLeafXC P S.toArbStableC with setClosed := arbP_modA _ S.closed }

theorem socketsStableC (c p : Bool) : ArbStableC (fun a => a.ctlClosed = c ∧ a.pubClosed = p) :=
  ⟨fun _ h => h, fun _ h => h, fun _ _ h => h, fun _ _ h => h, fun _ _ h => h, fun _ _ h => h, fun _ _ _ h => h, fun _ _ h => h⟩

theorem validateExecute_never_closes (cmd : String) (props : JVal) (s : State) :
    (validateExecute cmd props s).2.a.ctlClosed = s.a.ctlClosed ∧ (validateExecute cmd props s).2.a.pubClosed = s.a.pubClosed :=
  validateExecute_presC (SpecCoreC.ofLeafYC (arbPLeafXC _ (socketsStableC s.a.ctlClosed s.a.pubClosed)).toLeafYC) cmd props s ⟨rfl, rfl⟩

theorem addDoneCallback_never_closes (tid : Nat) (cb : TopCb) (s : State) :
    (addDoneCallback tid cb s).2.a.ctlClosed = s.a.ctlClosed ∧ (addDoneCallback tid cb s).2.a.pubClosed = s.a.pubClosed :=
  addDoneCallback_presC (arbPLeafXC _ (socketsStableC s.a.ctlClosed s.a.pubClosed)).toLeafYC tid cb s ⟨rfl, rfl⟩

end Circus.Core
