import CircusProofs.Core.StopRun
/-!
Symbolic execution of a `stop` request for one watcher whose workers the daemon is **not permitted to signal**
(`os.kill` → EPERM → `psutil.AccessDenied`, which nothing on the stop path catches): the operation FAILS within the
request step — every `kill_process` ends with the exception before it marks its worker `stopping`, the `gen.multi`
of `kill_processes` collects the m failures and raises the first, `_stop` and `stop` pass it on, the future completes
with it, `util.synchronized` frees the slot, the waiting client gets its error reply.  Nothing is left in flight; the
watcher stays `stopping` with its workers listed and running.  (C10: the slot is free again after a failed operation;
C06: one reply.)  Built on the machinery of StopRun.lean.
-/
namespace Circus.Core

/-- a running worker the daemon is not permitted to signal -/
def Kernel.Unsig (k : Kernel) (pid : Nat) : Prop :=
  ∃ p, k.find pid = some p ∧ p.st = .run ∧ p.behav.eperm = true

/-- the daemon's `kill` of such a worker in a calm kernel: one kernel call, refused, nothing delivered -/
theorem Kernel.killD_unsig {k : Kernel} (hc : k.Calm) {pid : Nat} (hs : k.Unsig pid) (sig : Nat) :
    k.killD pid sig = (k.bump 1, .run, true) := by
  obtain ⟨p, hf, hr, he⟩ := hs
  have hd : k.tick.denies pid = true := by
    rw [Kernel.tick_calm k hc]
    unfold Kernel.denies
    rw [Kernel.bump_find, hf]
    simp [hr, he]
  unfold Kernel.killD
  rw [if_pos hd, Kernel.tick_calm k hc]
  unfold Kernel.stAt
  rw [Kernel.bump_find, hf]
  simp only [hr]

section mkE
variable (k : Kernel) (a : Arbiter) (objs : List PObj) (w : Watcher) (frames : List Frame) (sleepers : List Sleeper)
  (tops : List TopFut) (ready : List Ready) (dv : List (Nat × Val)) (nid : Nat) (log : List Obs)

/-- the stop signal to a worker the daemon may not signal: `AccessDenied` escapes from `send_signal`, before the
    `after_signal` hook; the attempt is in the log, marked refused -/
theorem sendSignal_denied_mk (u pid : Nat) (hw : SOk u w) (hc : k.Calm) (hs : k.Unsig pid) (hp : pid ∈ w.pids) (sig : Nat) :
    sendSignal u pid sig ⟨k, a, objs, [w], frames, sleepers, tops, ready, dv, nid, log, false⟩ =
      (.denied, ⟨k.bump 1, a, objs, [w], frames, sleepers, tops, ready, dv, nid, log ++ [Obs.sig pid sig .run "!"], false⟩) := by
  have hkk : kKill pid sig "" ⟨k, a, objs, [w], frames, sleepers, tops, ready, dv, nid, log, false⟩ =
      (.denied, ⟨k.bump 1, a, objs, [w], frames, sleepers, tops, ready, dv, nid, log ++ [Obs.sig pid sig .run "!"], false⟩) := by
    simp [kKill, bind, runK, Kernel.killD_unsig hc hs, emit, modS, Obs.isRep, Obs.isEv, pure, SigRes.of]
  simp [sendSignal, bind, getW, hw.uid, hp, callHook_mk, hw.hooks, hkk, pure]

end mkE

/-- **`kill_process` on a worker the daemon may not signal**: the first signal is refused, the coroutine ends with
    `AccessDenied` at once — the worker is not marked `stopping`, no timer, no SIGKILL will follow -/
theorem killProcess_denied (rec : Rec) (u pid : Nat) (wt : Waiter) (w : Watcher) (o : PObj) (k : Kernel) (a : Arbiter)
    (objs : List PObj) (frames : List Frame) (sleepers : List Sleeper) (tops : List TopFut) (ready : List Ready)
    (dv : List (Nat × Val)) (nid : Nat) (log : List Obs)
    (hw : SOk u w) (hc : k.Calm) (hs : k.Unsig pid) (hp : pid ∈ w.pids)
    (ho : objs.find? (fun o => decide (o.pid = pid)) = some o) (hst : o.stopping = false) :
    killProcess rec u pid none none wt ⟨k, a, objs, [w], frames, sleepers, tops, ready, dv, nid, log, false⟩ =
      deliver rec wt accessDenied
        ⟨k.bump 1, a, objs, [w], frames, sleepers, tops, ready, dv, nid, log ++ [Obs.sig pid w.stopSignal .run "!"], false⟩ := by
  have hg := getW_mk k a objs w frames sleepers tops ready dv nid log u hw.uid
  have h1 := sendSignal_denied_mk k a objs w frames sleepers tops ready dv nid log u pid hw hc hs hp w.stopSignal
  unfold killProcess
  simp only [bind, hg, getO, ho, Option.getD_some, hst, hw.stopChildren, Option.getD_none, Bool.false_eq_true, ↓reduceIte, h1,
    pure, reduceCtorEq]

/-- the log after the refused stop signals to the workers `l`, in order -/
def deniedLogs (w : Watcher) : List Nat → List Obs → List Obs
  | [], log => log
  | p :: r, log => deniedLogs w r (log ++ [Obs.sig p w.stopSignal .run "!"])

/-- the failures recorded in the multi frame: slot `idx + i` for the i-th worker -/
def excResults : List Nat → Nat → List (Nat × Val)
  | [], _ => []
  | _ :: r, idx => (idx, accessDenied) :: excResults r (idx + 1)

theorem excResults_length (l : List Nat) : ∀ idx, (excResults l idx).length = l.length := by
  induction l with
  | nil => intro _; rfl
  | cons p r ih => intro idx; simp [excResults, ih]

theorem deniedLogs_append (w : Watcher) (l r : List Nat) : ∀ log,
    deniedLogs w (l ++ r) log = deniedLogs w r (deniedLogs w l log) := by
  induction l with
  | nil => intro _; rfl
  | cons p rest ih => intro log; simp only [List.cons_append, deniedLogs]; exact ih _

theorem killCount_deniedLogs (w : Watcher) (hs : w.stopSignal ≠ 9) (l : List Nat) :
    ∀ log, killCount (deniedLogs w l log) = killCount log := by
  induction l with
  | nil => intro _; rfl
  | cons p r ih =>
    intro log; simp only [deniedLogs]; rw [ih]
    simp [killCount, List.countP_append, List.countP_cons]
    split
    · next h => injection h with _ h2; exact absurd h2 hs
    · rfl

theorem repC_deniedLogs (w : Watcher) (l : List Nat) : ∀ log, repC (deniedLogs w l log) = repC log := by
  induction l with
  | nil => intro _; rfl
  | cons p r ih =>
    intro log; simp only [deniedLogs]; rw [ih]
    simp [repC, List.countP_append, Obs.isRep]

/-- **the children of `kill_processes`' `gen.multi`, unsignalable workers, not the last one**: each fails at once and
    its failure is recorded in the multi frame -/
theorem deniedAll (n u t m : Nat) (w : Watcher) (a : Arbiter) (objs : List PObj) (sleepers : List Sleeper) (tops : List TopFut)
    (ready : List Ready) (dv : List (Nat × Val)) (nid : Nat) (hw : SOk u w) (l : List Nat) :
    ∀ (idx : Nat) (k : Kernel) (results : List (Nat × Val)) (log : List Obs),
      k.Calm →
      (∀ pid ∈ l, pid ∈ w.pids ∧ k.Unsig pid ∧
        ∃ o, objs.find? (fun o => decide (o.pid = pid)) = some o ∧ o.stopping = false) →
      results.length + l.length < m →
      (forIn (l.map fun p => Call.killProcess u p none none) idx (multiBody (exec (n + 1)) (t + 4)) : M Nat)
          ⟨k, a, objs, [w], stopFrames u t m results false, sleepers, tops, ready, dv, nid, log, false⟩ =
        (idx + l.length, ⟨k.bump l.length, a, objs, [w], stopFrames u t m (results ++ excResults l idx) false, sleepers, tops,
          ready, dv, nid, deniedLogs w l log, false⟩) := by
  induction l with
  | nil =>
    intro idx k results log _ _ _
    simp [excResults, deniedLogs, Kernel.bump, pure]
  | cons p rest ih =>
    intro idx k results log hc hall hlen
    obtain ⟨hp, hs, o, ho, hst⟩ := hall p (by simp)
    simp only [List.length_cons] at hlen
    rw [List.map_cons, List.forIn_cons]
    simp only [bind, multiBody]
    rw [exec_call_mk]
    simp only [runCall]
    rw [killProcess_denied (exec n) u p (.frame (t + 4) idx) w o k a objs _ sleepers tops ready dv nid log hw hc hs hp ho hst]
    rw [deliver_multi_record (exec n) u t m idx accessDenied results _ a _ [w] sleepers tops ready dv nid _ (by omega)]
    have hih := ih (idx + 1) (k.bump 1) (results ++ [(idx, accessDenied)]) (log ++ [Obs.sig p w.stopSignal .run "!"])
      (Kernel.bump_calm k 1 hc)
      (fun q hq => by
        obtain ⟨hq1, hq2, hq3⟩ := hall q (by simp [hq])
        exact ⟨hq1, hq2, hq3⟩)
      (by simp only [List.length_append, List.length_cons, List.length_nil]; omega)
    simp only []
    rw [hih]
    simp only [excResults, deniedLogs, List.length_cons, List.append_assoc, List.singleton_append, Kernel.bump_bump]
    have h1 : idx + 1 + rest.length = idx + (rest.length + 1) := by omega
    have h2 : 1 + rest.length = rest.length + 1 := by omega
    rw [h1, h2]

/-- the first failure in the order of the children is the multi's result -/
theorem multiResult_first_exc (m : Nat) (hm : 0 < m) (results : List (Nat × Val)) (e : Exc)
    (h0 : results.lookup 0 = some (.exc e)) : multiResult m results = .exc e := by
  obtain ⟨m', rfl⟩ : ∃ m', m = m' + 1 := ⟨m - 1, by omega⟩
  unfold multiResult
  rw [List.range_succ_eq_map]
  simp only [List.map_cons, h0, Option.getD_some, List.map_map]
  rw [List.find?_cons_of_pos (by rfl)]

theorem excResults_snoc_lookup0 (l : List Nat) :
    (([] ++ excResults l 0) ++ [(0 + l.length, accessDenied)]).lookup 0 = some (.exc (.other "AccessDenied")) := by
  cases l with
  | nil => simp [excResults, List.lookup, accessDenied, excVal]
  | cons p r => simp [excResults, List.lookup, accessDenied, excVal]

/-- **`kill_processes` fails while `stop()` is still in its first, eager run**: the exception passes through
    `_stop` (no reap, no `stop` event, the status stays `stopping`) and `stop`, the future completes with it and
    releases the slot, all in place -/
theorem unwind_fail (n u t : Nat) (e : Exc) (k : Kernel) (a : Arbiter) (objs : List PObj) (w : Watcher)
    (dv : List (Nat × Val)) (nid : Nat) (log : List Obs) :
    exec (n + 4) (.resume .pass (.exc e) (.frame (t + 3) 0))
        ⟨k, a, objs, [w],
          [{ fid := t + 1, k := .ignore, parent := .top t },
           { fid := t + 2, k := .stopAfterKill u true, parent := .frame (t + 1) 0 },
           { fid := t + 3, k := .ignore, parent := .frame (t + 2) 0 }], [], [{ tid := t, cbs := [.release] }], [], dv, nid, log, false⟩ =
      ((), ⟨k, { a with slot := none }, objs, [w], [], [], [], [], (t, .exc e) :: dv, nid, log, false⟩) := by
  rw [show n + 4 = (n + 3) + 1 from rfl, exec_resume_mk]
  simp [runResume, deliver, bind, getS, removeFrame, modS]
  rw [show n + 3 = (n + 2) + 1 from rfl, exec_resume_mk]
  simp [runResume, deliver, bind, getS, removeFrame, modS]
  rw [show n + 2 = (n + 1) + 1 from rfl, exec_resume_mk]
  simp [runResume, deliver, bind, getS, removeFrame, modS]
  rw [exec_resume_mk]
  simp [runResume, deliver, deliverTop, finishTop, deliverCbs, runTopCb, setSlot, modA, bind, getS, modS, pure]

/-- **`Watcher.stop()` on an active watcher whose workers the daemon may not signal**: fails within its first, eager
    run — status `stopping`, one refused signal per worker, the future done with `AccessDenied`, the slot released; no
    frame, no timer; the workers are untouched -/
theorem pubStop_denied (u t : Nat) (w : Watcher) (k : Kernel) (a : Arbiter) (objs : List PObj)
    (dv : List (Nat × Val)) (log : List Obs)
    (hw : SOk u w) (hst : w.status = .active) (hne : w.pids ≠ []) (hc : k.Calm)
    (hall : ∀ pid ∈ w.pids, k.Unsig pid ∧
      ∃ o, objs.find? (fun o => decide (o.pid = pid)) = some o ∧ o.stopping = false) :
    exec 100000 (.call (.pubStop u) (.top t)) ⟨k, a, objs, [w], [], [], [{ tid := t, cbs := [.release] }], [], dv, t + 1, log, false⟩ =
      ((), ⟨k.bump (2 * w.pids.length + w.pids.length), { a with slot := none }, objs, [{ w with status := .stopping }],
        [], [], [], [], (t, accessDenied) :: dv, t + 5, deniedLogs w w.pids log, false⟩) := by
  obtain ⟨init, q, hpids⟩ : ∃ init q, w.pids = init ++ [q] := by
    rcases List.eq_nil_or_concat w.pids with h | ⟨i, q, h⟩
    · exact absurd h hne
    · exact ⟨i, q, by simpa using h⟩
  have hw' : SOk u { w with status := .stopping } := ⟨hw.uid, hw.hooks, hw.stopChildren, hw.sigNe9⟩
  have hqm : q ∈ w.pids := by rw [hpids]; simp
  have him : ∀ pid ∈ init, pid ∈ w.pids := fun pid h => by rw [hpids]; simp [h]
  have hlen : w.pids.length = init.length + 1 := by rw [hpids]; simp
  have e1 : (100000 : Nat) = 99999 + 1 := rfl
  have e2 : (99999 : Nat) = 99998 + 1 := rfl
  have e3 : (99998 : Nat) = 99997 + 1 := rfl
  have e4 : (99997 : Nat) = 99996 + 1 := rfl
  have hcb : (k.bump (2 * w.pids.length)).Calm := Kernel.bump_calm k _ hc
  -- the children of the gen.multi but the last
  have hden := deniedAll 99996 u t w.pids.length { w with status := .stopping } a objs [] [{ tid := t, cbs := [.release] }] [] dv (t + 5)
    hw' init 0 (k.bump (2 * w.pids.length)) [] log hcb
    (fun pid hp => ⟨him pid hp, (hall pid (him pid hp)).1, (hall pid (him pid hp)).2⟩) (by simp only [List.length_nil]; omega)
  obtain ⟨hq1, oq, hoq, hoq2⟩ := hall q hqm
  have hq1' : ((k.bump (2 * w.pids.length)).bump init.length).Unsig q := hq1
  have hcb' : ((k.bump (2 * w.pids.length)).bump init.length).Calm := Kernel.bump_calm _ _ hcb
  -- get_active_processes
  have hact : ∀ (frames : List Frame) (nid : Nat), activeProcs u ⟨k, a, objs, [{ w with status := .stopping }], frames, [],
        [{ tid := t, cbs := [.release] }], [], dv, nid, log, false⟩ =
      (w.pids, ⟨k.bump (2 * w.pids.length), a, objs, [{ w with status := .stopping }], frames, [],
        [{ tid := t, cbs := [.release] }], [], dv, nid, log, false⟩) := by
    intro frames nid
    exact activeProcs_running u { w with status := .stopping } _ rfl hw.uid hc
      (fun pid hp => by obtain ⟨⟨p, hf, hr, _⟩, _⟩ := hall pid hp; exact ⟨p, hf, hr⟩)
  have hres : multiResult w.pids.length (([] ++ excResults init 0) ++ [(0 + init.length, accessDenied)]) = accessDenied := by
    exact multiResult_first_exc _ (by omega) _ _ (excResults_snoc_lookup0 init)
  rw [e1, exec_call_mk]
  simp only [runCall]
  rw [await_eq]
  simp only [List.nil_append]
  rw [e2, exec_call_mk]
  simp only [runCall]
  have hstopW : stopW (exec 99998) u true (.frame (t + 1) 0)
      ⟨k, a, objs, [w], [{ fid := t + 1, k := .ignore, parent := .top t }], [], [{ tid := t, cbs := [.release] }], [], dv, t + 1 + 1, log, false⟩ =
      await (exec 99998) (.killProcesses u none none) (.stopAfterKill u true) (.frame (t + 1) 0)
        ⟨k, a, objs, [{ w with status := .stopping }], [{ fid := t + 1, k := .ignore, parent := .top t }], [],
          [{ tid := t, cbs := [.release] }], [], dv, t + 1 + 1, log, false⟩ := by
    simp [stopW, bind, getW, hw.uid, hst, setStatus, modW, modS, callHook_mk, hw.hooks]
  rw [hstopW, await_eq]
  simp only [List.cons_append, List.nil_append]
  rw [e3, exec_call_mk]
  simp only [runCall]
  unfold killProcesses
  simp only [bind, hact]
  rw [awaitMulti_ne _ _ (by rw [hpids]; simp)]
  simp only [List.length_map, List.cons_append, List.nil_append]
  rw [show (List.map (fun p => Call.killProcess u p none none) w.pids) =
    List.map (fun p => Call.killProcess u p none none) init ++ [Call.killProcess u q none none] by rw [hpids]; simp]
  rw [forIn_multi_append]
  erw [hden]
  simp only []
  rw [List.forIn_cons]
  simp only [bind, multiBody, List.forIn_nil, pure]
  rw [e4, exec_call_mk]
  simp only [runCall]
  rw [killProcess_denied (exec 99996) u q (.frame (t + 4) (0 + init.length)) { w with status := .stopping } oq _ a _ _ [] _ [] dv (t + 5) _
    hw' hcb' hq1' hqm hoq hoq2]
  rw [deliver_multi_last (exec 99996) u t w.pids.length (0 + init.length) accessDenied _ _ a _ _ [] _ [] dv (t + 5) _
    (by simp only [List.nil_append, excResults_length]; omega)]
  rw [hres]
  erw [unwind_fail 99992 u t (.other "AccessDenied") _ a _ { w with status := .stopping } dv (t + 5) _]
  simp only [armFrame, modS, List.map_nil, Kernel.bump_bump]
  have hk3 : 2 * w.pids.length + init.length + 1 = 2 * w.pids.length + w.pids.length := by omega
  have hlog : deniedLogs w init log ++ [Obs.sig q w.stopSignal PState.run "!"] = deniedLogs w w.pids log := by
    rw [hpids, deniedLogs_append]; rfl
  rw [hk3]
  show ((), (⟨_, _, _, _, _, _, _, _, _, _, deniedLogs { w with status := .stopping } init log ++ [Obs.sig q w.stopSignal PState.run "!"], _⟩ : State)) = _
  have hdl : ∀ l lg, deniedLogs { w with status := .stopping } l lg = deniedLogs w l lg := by
    intro l; induction l with
    | nil => intro _; rfl
    | cons p r ih => intro lg; simp only [deniedLogs]; exact ih _
  rw [hdl, hlog]
  rfl

/-- the log after the deferred reply of a `waiting` request whose operation failed: "server error", errno 6 -/
def failLog (a : Arbiter) (cid : String) (mid : JVal) (waiting : Bool) (log : List Obs) : List Obs :=
  if waiting = true ∧ a.ctlClosed = false then log ++ [Obs.rep cid mid "error" "6" "-"] else log

theorem killCount_failLog (a : Arbiter) (cid : String) (mid : JVal) (waiting : Bool) (log : List Obs) :
    killCount (failLog a cid mid waiting log) = killCount log := by
  unfold failLog; split <;> simp [killCount, List.countP_append]

theorem repC_failLog (a : Arbiter) (cid : String) (mid : JVal) (waiting : Bool) (log : List Obs) :
    repC (failLog a cid mid waiting log) = repC log + (if waiting = true ∧ a.ctlClosed = false then 1 else 0) := by
  unfold failLog; split <;> simp [repC, List.countP_append, Obs.isRep]

/-- what the daemon looks like after the failed `stop`: nothing in flight, the slot free, the watcher `stopping` with
    its workers still listed, kernel process table and `Process` objects untouched, no SIGKILL, `rc` replies -/
structure StopFailed (w : Watcher) (a : Arbiter) (k : Kernel) (objs : List PObj) (kc rc : Nat) (s : State) : Prop where
  ws : s.ws = [{ w with status := .stopping }]
  arb : s.a = { a with slot := none }
  frames : s.frames = []
  sleepers : s.sleepers = []
  tops : s.tops = []
  ready : s.ready = []
  blocked : s.blocked = false
  procs : s.k.procs = k.procs
  objs : s.objs = objs
  kills : killCount s.log = kc
  reps : repC s.log = rc

/-- **the `stop` request for an active watcher whose workers the daemon may not signal**: it fails within the step -/
theorem req_stop_denied (cid name : String) (waiting : Bool) (u t : Nat) (w : Watcher) (k : Kernel) (a : Arbiter)
    (objs : List PObj) (dv : List (Nat × Val)) (log : List Obs)
    (hn : a.names.lookup (pyLower name) = some u) (hr : a.restarting = false) (hsl : a.slot = none)
    (hls : a.loopStop = false)
    (hw : SOk u w) (hst : w.status = .active) (hne : w.pids ≠ []) (hc : k.Calm) (hfl : k.faults = [])
    (hall : ∀ pid ∈ w.pids, k.Unsig pid ∧
      ∃ o, objs.find? (fun o => decide (o.pid = pid)) = some o ∧ o.stopping = false) :
    StopFailed w a k objs (killCount log) (repC log + (if a.ctlClosed = false then 1 else 0))
      (step ⟨k, a, objs, [w], [], [], [], [], dv, t, log, false⟩ (.req cid (some (stopReq name waiting)))) := by
  have hl : pyLower "stop" = "stop" := by decide +kernel
  have hcb : k.beginStep.Calm := by
    refine ⟨hfl, ?_⟩
    exact hc.2
  have hve := ve_stop name waiting u ⟨k.beginStep, a, objs, [w], [], [], [], [], [], t, log, false⟩ hn hr hsl
  have hex := pubStop_denied u t w k.beginStep { a with slot := some "watcher_stop" } objs [] log hw hst hne hcb hall
  have hfd : fuelDefault = 100000 := rfl
  simp only [stopProps, List.nil_append, hfd, hex] at hve
  unfold step
  rw [stepM_eq _ _ rfl]
  have hop : stepOp (.req cid (some (stopReq name waiting)))
      (updK Kernel.beginStep (⟨k, a, objs, [w], [], [], [], [], dv, t, log, false⟩ : State)).2 =
      ((), ⟨k.beginStep.bump (2 * w.pids.length + w.pids.length), { a with slot := none }, objs, [{ w with status := .stopping }],
        [], [], [],
        [.topCb (.reply (some cid) .null false "stop" waiting (if waiting then "none" else "")) accessDenied], [(t, accessDenied)], t + 5,
        ackLog a cid waiting (deniedLogs w w.pids log), false⟩) := by
    simp only [stepOp, updK, runK]
    unfold handleMessage stopReq
    simp [JVal.isObj, JVal.get?, List.lookup, hl, commandNames, JVal.truthy, bind, clearDone, modS, hve]
    cases waiting <;> cases hcc : a.ctlClosed <;>
      simp [hcc, armTop, addDoneCallback, enqueue, sendReply, emitRep, modS, getS, getA, bind, pure, ackLog, List.lookup]
  rw [hop]
  have e1 : (100000 : Nat) = 99999 + 1 := rfl
  have e2 : (99999 : Nat) = 99998 + 1 := rfl
  have hset : settle 100000 ⟨k.beginStep.bump (2 * w.pids.length + w.pids.length), { a with slot := none }, objs,
        [{ w with status := .stopping }], [], [], [],
        [.topCb (.reply (some cid) .null false "stop" waiting (if waiting then "none" else "")) accessDenied], [(t, accessDenied)], t + 5,
        ackLog a cid waiting (deniedLogs w w.pids log), false⟩ =
      ((), ⟨k.beginStep.bump (2 * w.pids.length + w.pids.length), { a with slot := none }, objs,
        [{ w with status := .stopping }], [], [], [], [], [(t, accessDenied)], t + 5,
        failLog a cid .null waiting (ackLog a cid waiting (deniedLogs w w.pids log)), false⟩) := by
    rw [e1, settle_cons_mk]
    simp [runReady1, runTopCb, sendReply, bind, getA, emitRep, modS, pure, accessDenied, excVal]
    cases waiting <;> cases hcc : a.ctlClosed <;> simp [failLog, hcc, modS] <;> (rw [e2]; exact settle_nil _ _ rfl)
  rw [stepTail_eq _ (by rw [hset]; exact hls), hset]
  refine ⟨rfl, rfl, rfl, rfl, rfl, rfl, rfl, rfl, rfl, ?_, ?_⟩
  · show killCount (failLog _ _ _ _ _) = _
    rw [killCount_failLog, killCount_ackLog, killCount_deniedLogs w hw.sigNe9]
  · show repC (failLog _ _ _ _ _) = _
    rw [repC_failLog, repC_ackLog, repC_deniedLogs]
    cases waiting <;> cases a.ctlClosed <;> simp

/-- the hypotheses on the data: one watcher object `w`, active, no hooks, `stop_children` off, every listed worker
    running, fresh (`Process.stopping` false) and **not signalable by the daemon**; a calm kernel -/
structure Unsignalable (u : Nat) (w : Watcher) (s : State) : Prop where
  ws : s.ws = [w]
  blocked : s.blocked = false
  ok : SOk u w
  active : w.status = .active
  calm : s.k.Calm
  nofault : s.k.faults = []
  procs : ∀ pid ∈ w.pids, s.k.Unsig pid ∧
    ∃ o, s.objs.find? (fun o => decide (o.pid = pid)) = some o ∧ o.stopping = false

/-- **`stop` fails within the request step (workers the daemon may not signal)** -/
theorem stop_run_unsignalable (cid name : String) (waiting : Bool) (u : Nat) (w : Watcher) (s : State)
    (hi : Idle u s) (hd : Unsignalable u w s) (hn : s.a.names.lookup (pyLower name) = some u) (hne : w.pids ≠ []) :
    StopFailed w s.a s.k s.objs (killCount s.log) (repC s.log + (if s.a.ctlClosed = false then 1 else 0))
      (step s (.req cid (some (stopReq name waiting)))) := by
  obtain ⟨k, a, objs, ws, frames, sleepers, tops, ready, dv, t, log, blocked⟩ := s
  obtain ⟨hf, hsl, ht, hr, hslot, hls, _, hrs, _⟩ := hi
  obtain ⟨hws, hb, hw, hst, hc, hfl, hall⟩ := hd
  simp only at hf hsl ht hr hslot hls hrs hws hb hc hfl hall hn
  subst hf hsl ht hr hws hb
  exact req_stop_denied cid name waiting u t w k a objs dv log hn hrs hslot hls hw hst hne hc hfl hall

end Circus.Core
