import CircusProofs.Core.Pres
/-!
Frame lemmas for `call_hook` (`callHook`): a hook call counts itself (`hookCalls` of the watcher it
belongs to) and publishes at most one `hook_success` / `hook_failure` event; it touches nothing else
of the state.  Used wherever a hook call sits between two steps of a hand proof (e.g. `before_reap`
between the membership test and the pop of `reap_process`).
-/
namespace Circus.Core

/-- `notify_event` appends at most one observation to the log and changes nothing else -/
theorem notify_frame (u : Nat) (t : String) (p : Option Nat) (x : String) (s : State) :
    (notify u t p x s).2 = s ∨
      (notify u t p x s).2 = { s with log := s.log ++ [Obs.ev (resName (getW u s).1.name) t p x] } := by
  unfold notify
  simp only [bind, getA, getW]
  by_cases hc : s.a.pubClosed = true
  · erw [if_pos hc]; exact Or.inl rfl
  · erw [if_neg hc]
    simp only [emitEv, modS]
    by_cases hb : s.blocked = true
    · rw [if_pos hb]; exact Or.inl rfl
    · rw [if_neg hb]; exact Or.inr rfl

/-- the state after `call_hook`: untouched when no such hook is configured; otherwise the call is
    counted and at most one event is appended to the log -/
theorem callHook_frame (u : Nat) (h : String) (s : State) :
    (callHook u h s).2 = s ∨
      ∃ i l, (callHook u h s).2 = { (bumpHook u h i s).2 with log := s.log ++ l } := by
  unfold callHook
  simp only [bind]
  cases hl : List.lookup h (getW u s).1.hooks with
  | none => exact Or.inl rfl
  | some spec =>
    refine Or.inr ⟨(List.lookup h (getW u s).fst.hookCalls).getD 0, ?_⟩
    simp only
    by_cases ho : spec.outs.getD ((List.lookup h (getW u s).fst.hookCalls).getD 0 %
                        if spec.outs.length = 0 then 1 else spec.outs.length) "true" = "raise"
    · erw [if_pos ho]
      simp only [pure]
      rcases notify_frame u "hook_failure" none h
        (bumpHook u h ((List.lookup h (getW u s).fst.hookCalls).getD 0) s).2 with hn | hn
      · exact ⟨[], by erw [hn]; simp [bumpHook, modW, modS]⟩
      · exact ⟨_, by erw [hn]; rfl⟩
    · erw [if_neg ho]
      simp only [pure]
      rcases notify_frame u "hook_success" none h
        (bumpHook u h ((List.lookup h (getW u s).fst.hookCalls).getD 0) s).2 with hn | hn
      · exact ⟨[], by erw [hn]; simp [bumpHook, modW, modS]⟩
      · exact ⟨_, by erw [hn]; rfl⟩

theorem find_map_uid (f : Watcher → Watcher) (hf : ∀ w, (f w).uid = w.uid) (v : Nat) (ws : List Watcher) :
    (ws.map f).find? (fun w => decide (w.uid = v)) = (ws.find? (fun w => decide (w.uid = v))).map f := by
  induction ws with
  | nil => rfl
  | cons w ws ih =>
    simp only [List.map_cons, List.find?_cons, hf]
    by_cases hv : w.uid = v
    · simp [hv]
    · simp only [hv, decide_false]; exact ih

theorem lookup_filter_ne (h h2 : String) (hne : h2 ≠ h) (l : List (String × Nat)) :
    List.lookup h2 (l.filter (fun x => decide (x.1 ≠ h))) = List.lookup h2 l := by
  induction l with
  | nil => rfl
  | cons x xs ih =>
    obtain ⟨a, b⟩ := x
    by_cases ha : a = h
    · subst ha
      have hq : (h2 == a) = false := by simpa using hne
      simp only [List.filter_cons, ne_eq, not_true_eq_false, decide_false, List.lookup_cons, hq]
      exact ih
    · simp only [List.filter_cons, ne_eq, ha, not_false_eq_true, decide_true, List.lookup_cons, if_true]
      cases h2 == a
      · exact ih
      · rfl

theorem getW_bumpHook (u : Nat) (h : String) (i v : Nat) (s : State) :
    ∃ hc, (getW v (bumpHook u h i s).2).1 = { (getW v s).1 with hookCalls := hc } ∧
      ∀ h2, h2 ≠ h → List.lookup h2 hc = List.lookup h2 (getW v s).1.hookCalls := by
  simp only [getW, bumpHook, modW, modS]
  rw [find_map_uid _ (by intro w; by_cases hu : w.uid = u <;> simp [hu])]
  cases s.ws.find? (fun w => decide (w.uid = v)) with
  | none => exact ⟨defaultWatcher.hookCalls, rfl, fun _ _ => rfl⟩
  | some w =>
    simp only [Option.map_some, Option.getD_some]
    by_cases hu : w.uid = u
    · rw [if_pos hu]
      refine ⟨_, rfl, ?_⟩
      intro h2 hne
      have hq : (h2 == h) = false := by simpa using hne
      simp only [List.lookup_cons, hq]
      exact lookup_filter_ne h h2 hne _
    · rw [if_neg hu]; exact ⟨w.hookCalls, rfl, fun _ _ => rfl⟩

/-- a hook call changes, of any watcher, the call counters only — and only the counter of this hook -/
theorem getW_callHook (u : Nat) (h : String) (v : Nat) (s : State) :
    ∃ hc, (getW v (callHook u h s).2).1 = { (getW v s).1 with hookCalls := hc } ∧
      ∀ h2, h2 ≠ h → List.lookup h2 hc = List.lookup h2 (getW v s).1.hookCalls := by
  rcases callHook_frame u h s with he | ⟨i, l, he⟩
  · rw [he]; exact ⟨_, rfl, fun _ _ => rfl⟩
  · rw [he]; exact getW_bumpHook u h i v s

theorem getW_callHook_calls (u : Nat) (h : String) (v : Nat) (h2 : String) (hne : h2 ≠ h) (s : State) :
    List.lookup h2 (getW v (callHook u h s).2).1.hookCalls = List.lookup h2 (getW v s).1.hookCalls := by
  obtain ⟨hc, he, hl⟩ := getW_callHook u h v s; rw [he]; exact hl h2 hne
theorem getW_callHook_pids (u : Nat) (h : String) (v : Nat) (s : State) :
    (getW v (callHook u h s).2).1.pids = (getW v s).1.pids := by
  obtain ⟨hc, he, _⟩ := getW_callHook u h v s; rw [he]
theorem getW_callHook_status (u : Nat) (h : String) (v : Nat) (s : State) :
    (getW v (callHook u h s).2).1.status = (getW v s).1.status := by
  obtain ⟨hc, he, _⟩ := getW_callHook u h v s; rw [he]
theorem getW_callHook_hooks (u : Nat) (h : String) (v : Nat) (s : State) :
    (getW v (callHook u h s).2).1.hooks = (getW v s).1.hooks := by
  obtain ⟨hc, he, _⟩ := getW_callHook u h v s; rw [he]
theorem getW_callHook_name (u : Nat) (h : String) (v : Nat) (s : State) :
    (getW v (callHook u h s).2).1.name = (getW v s).1.name := by
  obtain ⟨hc, he, _⟩ := getW_callHook u h v s; rw [he]

theorem callHook_k (u : Nat) (h : String) (s : State) : (callHook u h s).2.k = s.k := by
  rcases callHook_frame u h s with he | ⟨i, l, he⟩ <;> rw [he] <;> rfl
theorem callHook_a (u : Nat) (h : String) (s : State) : (callHook u h s).2.a = s.a := by
  rcases callHook_frame u h s with he | ⟨i, l, he⟩ <;> rw [he] <;> rfl
theorem callHook_objs (u : Nat) (h : String) (s : State) : (callHook u h s).2.objs = s.objs := by
  rcases callHook_frame u h s with he | ⟨i, l, he⟩ <;> rw [he] <;> rfl
theorem callHook_blocked (u : Nat) (h : String) (s : State) : (callHook u h s).2.blocked = s.blocked := by
  rcases callHook_frame u h s with he | ⟨i, l, he⟩ <;> rw [he] <;> rfl

/-- a watcher without hooks: `call_hook` is `return True` -/
theorem callHook_nohooks (u : Nat) (h : String) (s : State) (hh : (getW u s).1.hooks = []) :
    callHook u h s = (true, s) := by
  unfold callHook
  simp only [bind]
  rw [hh]
  rfl

end Circus.Core
