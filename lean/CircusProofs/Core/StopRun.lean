import CircusProofs.Core.Conv
import CircusProofs.Core.PidInv
import CircusProofs.Props.C02
import CircusProofs.Props.C04
/-!
Symbolic execution of a `stop` request for one watcher whose workers ignore the stop signal (or obey
it at once): the request step, the timer firings of the `kill_process` coroutines, the completion
chain (C02: the stop does finish, the workers are gone from the kernel).  Part 1: the kernel.
-/
namespace Circus.Core

/-- nothing armed or pending, no process doomed, every process a child of the daemon (workers have
    no children of their own), pid 0 is nobody, and the daemon is permitted to signal every process (no worker
    runs under another uid: no `kill` of the daemon is refused with EPERM — the run-level theorems of this file
    and of StopRunG are about workers the daemon *can* signal) -/
structure Kernel.Base (k : Kernel) : Prop where
  armed : k.armed = []
  faults : k.faults = []
  nodoom : ∀ p ∈ k.procs, p.doom = none
  daemonKid : ∀ p ∈ k.procs, p.ppid = some 0
  pidpos : ∀ p ∈ k.procs, p.pid ≠ 0
  signalable : ∀ p ∈ k.procs, p.behav.eperm = false

namespace Kernel.Base

theorem calm {k : Kernel} (h : k.Base) : k.Calm :=
  ⟨h.armed, fun p hp _ d st hd => by rw [h.nodoom p hp] at hd; cases hd⟩

theorem bump {k : Kernel} (h : k.Base) (n : Nat) : (k.bump n).Base :=
  ⟨h.armed, h.faults, h.nodoom, h.daemonKid, h.pidpos, h.signalable⟩

theorem tick {k : Kernel} (h : k.Base) : k.tick = k.bump 1 := Kernel.tick_calm k h.calm

theorem beginStep {k : Kernel} (h : k.Base) : k.beginStep.Base :=
  ⟨h.faults, rfl, h.nodoom, h.daemonKid, h.pidpos, h.signalable⟩

theorem setNow {k : Kernel} (h : k.Base) (t : Nat) : ({ k with now := t } : Kernel).resolve = { k with now := t } :=
  Kernel.resolve_calm _ (calm ⟨h.armed, h.faults, h.nodoom, h.daemonKid, h.pidpos, h.signalable⟩)

theorem setNow_base {k : Kernel} (h : k.Base) (t : Nat) : ({ k with now := t } : Kernel).Base :=
  ⟨h.armed, h.faults, h.nodoom, h.daemonKid, h.pidpos, h.signalable⟩

end Kernel.Base

/-- processes keep their pid under a map that keeps pids -/
theorem Kernel.find_map_procs (k : Kernel) (f : KProc → KProc) (hf : ∀ p, (f p).pid = p.pid) (k' : Kernel)
    (hk : k'.procs = k.procs.map f) (pid : Nat) : k'.find pid = (k.find pid).map f := by
  unfold Kernel.find
  rw [hk]
  exact KMono.find_map k.procs f hf pid

/-- the fold of `resolve` does nothing on a kernel without dooms -/
theorem Kernel.resolveFold_nodoom (l : List KProc) (k : Kernel) (h : ∀ p ∈ k.procs, p.doom = none) :
    l.foldl (fun k p0 =>
      match k.find p0.pid with
      | some p => match p.doom with
        | some (dl, st) => if p.st = .run && dl ≤ k.now then k.dead p.pid st else k
        | none => k
      | none => k) k = k := by
  induction l with
  | nil => rfl
  | cons x xs ih =>
    simp only [List.foldl_cons]
    have : (match k.find x.pid with
        | some p => match p.doom with
          | some (dl, st) => if p.st = .run && dl ≤ k.now then k.dead p.pid st else k
          | none => k
        | none => k) = k := by
      cases hf : k.find x.pid with
      | none => rfl
      | some p => simp only [h p (Kernel.find_mem hf)]
    rw [this]
    exact ih

theorem Kernel.dead_nodoom (k : Kernel) (pid st : Nat) (h : ∀ q ∈ k.procs, q.pid ≠ pid → q.doom = none) :
    ∀ p ∈ (k.dead pid st).procs, p.doom = none := by
  intro p hp
  simp only [Kernel.dead] at hp
  obtain ⟨q, hq, rfl⟩ := List.mem_map.mp hp
  by_cases hqp : q.pid = pid
  · simp [hqp]
  · simp only [hqp, if_false]
    split
    · exact h q hq hqp
    · exact h q hq hqp

/-- a kernel in which exactly the processes `pid` are doomed, and due: `resolve` lets them die -/
theorem Kernel.resolve_due (k : Kernel) (pid d st : Nat) (p : KProc) (hf : k.find pid = some p)
    (hd : p.doom = some (d, st)) (hr : p.st = .run) (hle : d ≤ k.now)
    (hothers : ∀ q ∈ k.procs, q.pid ≠ pid → q.doom = none) : k.resolve = k.dead pid st := by
  unfold Kernel.resolve
  have hppid : p.pid = pid := by
    unfold Kernel.find at hf
    simpa using List.find?_some hf
  have key : ∀ (l : List KProc),
      l.foldl (fun k p0 =>
        match k.find p0.pid with
        | some p => match p.doom with
          | some (dl, st) => if p.st = .run && dl ≤ k.now then k.dead p.pid st else k
          | none => k
        | none => k) k = if (∃ p0 ∈ l, p0.pid = pid) then k.dead pid st else k := by
    intro l
    induction l with
    | nil => simp
    | cons x xs ih =>
      simp only [List.foldl_cons]
      by_cases hx : x.pid = pid
      · rw [hx, hf]
        simp only [hd, hr, hle, decide_true, Bool.and_self, if_true, hppid]
        rw [Kernel.resolveFold_nodoom xs _ (Kernel.dead_nodoom k pid st hothers)]
        simp [hx]
      · have : (match k.find x.pid with
            | some p => match p.doom with
              | some (dl, st) => if p.st = .run && dl ≤ k.now then k.dead p.pid st else k
              | none => k
            | none => k) = k := by
          cases hfx : k.find x.pid with
          | none => rfl
          | some q =>
            have hq := Kernel.find_mem hfx
            have hqp : q.pid = x.pid := by
              unfold Kernel.find at hfx
              simpa using List.find?_some hfx
            simp only [hothers q hq (by rw [hqp]; exact hx)]
        rw [this, ih]
        simp [hx]
  have hex : ∃ p0 ∈ k.procs, p0.pid = pid := ⟨p, Kernel.find_mem hf, hppid⟩
  refine (key k.procs).trans ?_
  simp [hex]

/-- a running worker that ignores the stop signal and dies at once under SIGKILL -/
def Kernel.Stub (k : Kernel) (pid : Nat) : Prop :=
  ∃ p, k.find pid = some p ∧ p.st = .run ∧ p.behav.term = none ∧ p.behav.killLat = 0

/-- a worker that has been waited for -/
def Kernel.GoneP (k : Kernel) (pid : Nat) : Prop := ∃ p, k.find pid = some p ∧ p.st = .gone

theorem Kernel.find_pid {k : Kernel} {pid : Nat} {p : KProc} (h : k.find pid = some p) : p.pid = pid := by
  unfold Kernel.find at h
  simpa using List.find?_some h

/-- in a kernel whose processes the daemon may all signal, its own `kill` is the plain one (never refused) -/
theorem Kernel.Base.killD {k : Kernel} (hb : k.Base) (pid sig : Nat) :
    k.killD pid sig = ((k.kill pid sig).1, (k.kill pid sig).2, false) := by
  have hd : k.tick.denies pid = false := by
    rw [hb.tick]
    unfold Kernel.denies
    rw [Kernel.bump_find]
    cases hf : k.find pid with
    | none => rfl
    | some p => simp [hb.signalable p (Kernel.find_mem hf)]
  unfold Kernel.killD
  rw [if_neg (by rw [hd]; simp)]

/-- a signal other than SIGKILL leaves a stubborn worker alone -/
theorem Kernel.kill_ignored {k : Kernel} (hb : k.Base) {pid : Nat} (hs : k.Stub pid) {sig : Nat} (hsig : sig ≠ 9) :
    k.kill pid sig = (k.bump 1, .run) := by
  obtain ⟨p, hf, hr, ht, _⟩ := hs
  unfold Kernel.kill
  simp only [hb.tick, Kernel.bump_find, hf, hr]
  by_cases h0 : sig = 0
  · simp [h0]
  · simp only [hsig, if_false, ht]
    have : ((if ignoredSignals.contains sig = true then k.bump 1 else k.bump 1) : Kernel) = k.bump 1 := by split <;> rfl
    simp [h0, Kernel.resolve_calm _ (hb.bump 1).calm]

/-- the kernel after SIGKILL to a stubborn worker with latency 0: it is a zombie -/
def Kernel.sigkilled (k : Kernel) (pid : Nat) : Kernel :=
  ((k.bump 1).doomAt pid ((k.bump 1).now) (wstatSig 9)).dead pid (wstatSig 9)

theorem Kernel.kill9 {k : Kernel} (hb : k.Base) {pid : Nat} (hs : k.Stub pid) :
    k.kill pid 9 = (k.sigkilled pid, .run) := by
  obtain ⟨p, hf, hr, _, hl⟩ := hs
  unfold Kernel.kill
  simp only [hb.tick, Kernel.bump_find, hf, hr, hl]
  simp
  have hpm : p ∈ k.procs := Kernel.find_mem hf
  have hpp := Kernel.find_pid hf
  -- the doomed process
  have hfd : ((k.bump 1).doomAt pid ((k.bump 1).now) (wstatSig 9)).find pid =
      some { p with doom := some ((k.bump 1).now, wstatSig 9) } := by
    rw [Kernel.find_map_procs (k.bump 1) (fun q => if q.pid = pid then
        (match q.doom with
          | some (d, _) => if (k.bump 1).now < d then { q with doom := some ((k.bump 1).now, wstatSig 9) } else q
          | none => { q with doom := some ((k.bump 1).now, wstatSig 9) }) else q) ?_ _ rfl pid]
    · rw [Kernel.bump_find, hf]
      simp [hpp, hb.nodoom p hpm]
    · intro q
      split
      · split
        · split <;> rfl
        · rfl
      · rfl
  rw [Kernel.resolve_due _ pid ((k.bump 1).now) (wstatSig 9) _ hfd rfl hr (by simp [Kernel.doomAt, Kernel.upd])]
  · rfl
  · intro q hq hne
    simp only [Kernel.doomAt, Kernel.upd] at hq
    obtain ⟨q0, hq0, rfl⟩ := List.mem_map.mp hq
    by_cases h : q0.pid = pid
    · exfalso
      apply hne
      simp only [h, if_true]
      split
      · split <;> first | rfl | exact h
      · rfl
    · simp only [h, if_false]
      exact hb.nodoom q0 hq0

theorem Kernel.sigkilled_procs {k : Kernel} (hb : k.Base) (pid : Nat) (hpid : pid ≠ 0) :
    (k.sigkilled pid).procs =
      k.procs.map (fun q => if q.pid = pid then { q with doom := none, status := 9, st := .zombie } else q) := by
  simp only [Kernel.sigkilled, Kernel.dead, Kernel.doomAt, Kernel.upd, Kernel.bump, List.map_map]
  apply List.map_congr_left
  intro q hq
  have h1 := hb.daemonKid q hq
  have h2 := hb.nodoom q hq
  simp only [Function.comp]
  by_cases h : q.pid = pid
  · simp [h, h1, h2, wstatSig]
  · have hne : ¬ q.ppid = some pid := by
      rw [h1]; intro hc
      simp at hc
      exact hpid hc.symm
    simp [h, hne]

theorem Kernel.Stub.pid_ne_zero {k : Kernel} (hb : k.Base) {pid : Nat} (hs : k.Stub pid) : pid ≠ 0 := by
  obtain ⟨p, hf, _⟩ := hs
  rw [← Kernel.find_pid hf]
  exact hb.pidpos p (Kernel.find_mem hf)

theorem Kernel.sigkilled_base {k : Kernel} (hb : k.Base) {pid : Nat} (hpid : pid ≠ 0) : (k.sigkilled pid).Base := by
  have hp := Kernel.sigkilled_procs hb pid hpid
  refine ⟨hb.armed, hb.faults, ?_, ?_, ?_, ?_⟩ <;>
  · intro p hpm
    rw [hp] at hpm
    obtain ⟨q, hq, rfl⟩ := List.mem_map.mp hpm
    split
    · first | rfl | exact hb.daemonKid q hq | exact hb.pidpos q hq | exact hb.signalable q hq
    · first | exact hb.nodoom q hq | exact hb.daemonKid q hq | exact hb.pidpos q hq | exact hb.signalable q hq

theorem Kernel.sigkilled_find {k : Kernel} (hb : k.Base) {pid : Nat} (hpid : pid ≠ 0) (q : Nat) :
    (k.sigkilled pid).find q =
      (k.find q).map (fun p => if p.pid = pid then { p with doom := none, status := 9, st := .zombie } else p) :=
  Kernel.find_map_procs k _ (fun p => by split <;> rfl) _ (Kernel.sigkilled_procs hb pid hpid) q

/-- the kernel after `waitpid(pid)` collected the zombie `pid` -/
def Kernel.reaped (k : Kernel) (pid : Nat) : Kernel := (k.bump 1).upd pid fun q => { q with st := .gone }

theorem Kernel.waitpid_zombie {k : Kernel} (hb : k.Base) {pid : Nat} {p : KProc} (hf : k.find pid = some p)
    (hz : p.st = .zombie) : k.waitpid (some pid) = (k.reaped pid, .got pid p.status) := by
  unfold Kernel.waitpid
  simp only [hb.tick, Kernel.bump_find, hf, hb.daemonKid p (Kernel.find_mem hf), hz]
  simp [Kernel.reaped]

theorem Kernel.waitpid_run {k : Kernel} (hb : k.Base) {pid : Nat} {p : KProc} (hf : k.find pid = some p)
    (hr : p.st = .run) : k.waitpid (some pid) = (k.bump 1, .none) := by
  unfold Kernel.waitpid
  simp only [hb.tick, Kernel.bump_find, hf, hb.daemonKid p (Kernel.find_mem hf), hr]
  simp

theorem Kernel.waitpid_gone {k : Kernel} (hb : k.Base) {pid : Nat} {p : KProc} (hf : k.find pid = some p)
    (hg : p.st = .gone) : k.waitpid (some pid) = (k.bump 1, .echild) := by
  unfold Kernel.waitpid
  simp only [hb.tick, Kernel.bump_find, hf, hg]
  simp

theorem Kernel.reaped_base {k : Kernel} (hb : k.Base) (pid : Nat) : (k.reaped pid).Base := by
  refine ⟨hb.armed, hb.faults, ?_, ?_, ?_, ?_⟩ <;>
  · intro p hpm
    simp only [Kernel.reaped, Kernel.upd, Kernel.bump] at hpm
    obtain ⟨q, hq, rfl⟩ := List.mem_map.mp hpm
    split
    · first | exact hb.nodoom q hq | exact hb.daemonKid q hq | exact hb.pidpos q hq | exact hb.signalable q hq
    · first | exact hb.nodoom q hq | exact hb.daemonKid q hq | exact hb.pidpos q hq | exact hb.signalable q hq

theorem Kernel.reaped_find (k : Kernel) (pid q : Nat) :
    (k.reaped pid).find q = (k.find q).map (fun p => if p.pid = pid then { p with st := .gone } else p) :=
  Kernel.find_map_procs k _ (fun p => by split <;> rfl) _ rfl q

/-- a stubborn worker without children: `children()` is empty -/
theorem Kernel.children_stub {k : Kernel} (hb : k.Base) {pid : Nat} (hs : k.Stub pid) (r : Bool) :
    k.children pid r = (k.bump 1, some []) := by
  obtain ⟨p, hf, hr, _, _⟩ := hs
  have hpid := Kernel.Stub.pid_ne_zero hb ⟨p, hf, hr, ‹_›, ‹_›⟩
  unfold Kernel.children
  simp only [hb.tick, Kernel.bump_find, hf, hr]
  have hnone : ((k.bump 1).procs.filter fun c => c.ppid = some pid && c.st = .run) = [] := by
    apply List.filter_eq_nil_iff.mpr
    intro c hc
    have := hb.daemonKid c hc
    simp [this]
    intro h; exact absurd h.symm hpid
  have hco : ∀ fuel, Kernel.childrenOf (k.bump 1) fuel pid r = [] := by
    intro fuel
    cases fuel with
    | zero => rfl
    | succ n =>
      simp only [Kernel.childrenOf, hnone, List.map_nil, Kernel.sortNat, List.foldr_nil]
      cases r <;> simp
  simp [hco]

/-! ## Part 2: signals, `kill_process` -/

/-- the watcher being stopped: no hooks, signals go to the worker only, the stop signal is not SIGKILL -/
structure SOk (u : Nat) (w : Watcher) : Prop where
  uid : w.uid = u
  hooks : w.hooks = []
  stopChildren : w.stopChildren = false
  sigNe9 : w.stopSignal ≠ 9

/-- the `Process` object of `pid` (the first one with that pid) -/
def ObjIs (objs : List PObj) (pid : Nat) (stopping : Bool) (rc : Option Int) : Prop :=
  ∃ o, objs.find? (·.pid = pid) = some o ∧ o.stopping = stopping ∧ o.rc = rc

theorem getO_of {s : State} {pid : Nat} {st : Bool} {rc : Option Int} (h : ObjIs s.objs pid st rc) :
    ∃ o, getO pid s = (o, s) ∧ o.stopping = st ∧ o.rc = rc := by
  obtain ⟨o, hf, h1, h2⟩ := h
  exact ⟨o, by simp [getO, hf], h1, h2⟩

/-- the log after an event of the (only) watcher `w` -/
def evLog (s : State) (w : Watcher) (t : String) (p : Option Nat) (x : String) : List Obs :=
  if s.a.pubClosed then s.log else s.log ++ [Obs.ev (resName w.name) t p x]

theorem notify_eq (u : Nat) (w : Watcher) (t : String) (p : Option Nat) (x : String) (s : State)
    (hws : s.ws = [w]) (hu : w.uid = u) (hb : s.blocked = false) :
    notify u t p x s = ((), { s with log := evLog s w t p x }) := by
  unfold notify evLog
  simp only [bind, getA]
  rw [getW_single u w s hws hu]
  by_cases hc : s.a.pubClosed = true
  · erw [if_pos hc]; simp [hc, pure]
  · erw [if_neg hc]
    simp [emitEv, modS, hb, hc]

theorem emit_sig (pid sig : Nat) (st : PState) (via : String) (s : State) (hb : s.blocked = false) :
    emit (.sig pid sig st via) s = ((), { s with log := s.log ++ [Obs.sig pid sig st via] }) := by
  simp [emit, modS, hb, Obs.isRep, Obs.isEv]

/-- the stop signal to a stubborn worker: delivered, ignored -/
theorem sendSignal_ignored (u pid : Nat) (w : Watcher) (s : State) (hws : s.ws = [w]) (hw : SOk u w)
    (hb : s.blocked = false) (hk : s.k.Base) (hs : s.k.Stub pid) (hp : pid ∈ w.pids) :
    sendSignal u pid w.stopSignal s =
      (.ok, { s with k := s.k.bump 1, log := s.log ++ [Obs.sig pid w.stopSignal .run ""] }) := by
  unfold sendSignal
  simp only [bind]
  rw [getW_single u w s hws hw.uid]
  have hc : w.pids.contains pid = true := by simpa using hp
  erw [if_pos hc]
  rw [callHook_nohook u "before_signal" w s hws hw.uid hw.hooks]
  erw [if_neg (by simp)]
  have hkk : kKill pid w.stopSignal "" s = (.ok, { s with k := s.k.bump 1, log := s.log ++ [Obs.sig pid w.stopSignal .run ""] }) := by
    unfold kKill
    simp only [bind, runK, hk.killD, Kernel.kill_ignored hk hs hw.sigNe9, Bool.false_eq_true, if_false]
    rw [emit_sig _ _ _ _ { s with k := s.k.bump 1 } hb]
    simp [pure, SigRes.of]
  rw [hkk]
  erw [if_pos rfl]
  simp only
  rw [callHook_nohook u "after_signal" w { s with k := s.k.bump 1, log := s.log ++ [Obs.sig pid w.stopSignal .run ""] } hws hw.uid hw.hooks]
  rfl


theorem find_modO (objs : List PObj) (pid q : Nat) (f : PObj → PObj) (hf : ∀ o, (f o).pid = o.pid) :
    (objs.map fun o => if o.pid = pid then f o else o).find? (fun o => decide (o.pid = q)) =
      (objs.find? (fun o => decide (o.pid = q))).map (fun o => if o.pid = pid then f o else o) := by
  induction objs with
  | nil => rfl
  | cons x xs ih =>
    simp only [List.map_cons, List.find?_cons]
    have hx : (if x.pid = pid then f x else x).pid = x.pid := by split <;> simp [hf]
    rw [hx]
    split
    · rfl
    · exact ih

section mk
variable (k : Kernel) (a : Arbiter) (objs : List PObj) (w : Watcher) (frames : List Frame) (sleepers : List Sleeper)
  (tops : List TopFut) (ready : List Ready) (dv : List (Nat × Val)) (nid : Nat) (log : List Obs)

/-- the log after an event of the (only) watcher -/
def evlog (a : Arbiter) (log : List Obs) (w : Watcher) (t : String) (p : Option Nat) (x : String) : List Obs :=
  if a.pubClosed then log else log ++ [Obs.ev (resName w.name) t p x]

theorem notify_mk (u : Nat) (hu : w.uid = u) (t : String) (p : Option Nat) (x : String) :
    notify u t p x ⟨k, a, objs, [w], frames, sleepers, tops, ready, dv, nid, log, false⟩ =
      ((), ⟨k, a, objs, [w], frames, sleepers, tops, ready, dv, nid, evlog a log w t p x, false⟩) := by
  have := notify_eq u w t p x ⟨k, a, objs, [w], frames, sleepers, tops, ready, dv, nid, log, false⟩ rfl hu rfl
  rw [this]; rfl

theorem callHook_mk (u : Nat) (hu : w.uid = u) (hh : w.hooks = []) (h : String) :
    callHook u h ⟨k, a, objs, [w], frames, sleepers, tops, ready, dv, nid, log, false⟩ =
      (true, ⟨k, a, objs, [w], frames, sleepers, tops, ready, dv, nid, log, false⟩) :=
  callHook_nohook u h w _ rfl hu hh

theorem getW_mk (u : Nat) (hu : w.uid = u) :
    getW u ⟨k, a, objs, [w], frames, sleepers, tops, ready, dv, nid, log, false⟩ =
      (w, ⟨k, a, objs, [w], frames, sleepers, tops, ready, dv, nid, log, false⟩) :=
  getW_single u w _ rfl hu

theorem sendSignal_ignored_mk (u pid : Nat) (hw : SOk u w) (hk : k.Base) (hs : k.Stub pid) (hp : pid ∈ w.pids) :
    sendSignal u pid w.stopSignal ⟨k, a, objs, [w], frames, sleepers, tops, ready, dv, nid, log, false⟩ =
      (.ok, ⟨k.bump 1, a, objs, [w], frames, sleepers, tops, ready, dv, nid, log ++ [Obs.sig pid w.stopSignal .run ""], false⟩) :=
  sendSignal_ignored u pid w _ rfl hw rfl hk hs hp

/-- `poll()` on a running worker -/
theorem isAlive_run_mk (pid : Nat) (o : PObj) (p : KProc) (hk : k.Base)
    (ho : objs.find? (fun o => decide (o.pid = pid)) = some o) (hrc : o.rc = none)
    (hf : k.find pid = some p) (hr : p.st = .run) :
    isAlive pid ⟨k, a, objs, [w], frames, sleepers, tops, ready, dv, nid, log, false⟩ =
      (true, ⟨k.bump 1, a, objs, [w], frames, sleepers, tops, ready, dv, nid, log, false⟩) := by
  simp [isAlive, bind, getO, ho, hrc, kWaitpid, runK, Kernel.waitpid_run hk hf hr, pure]

end mk

theorem arm_id (frames : List Frame) (nid : Nat) (h : ∀ g ∈ frames, g.fid ≠ nid) :
    frames.map (fun (g : Frame) => if g.fid = nid then { g with armed := true } else g) = frames := by
  conv => rhs; rw [← List.map_id frames]
  apply List.map_congr_left
  intro g hg
  simp [h g hg]

/-- **`kill_process` on a stubborn worker, graceful timeout not yet over**: the stop signal is sent (and
    ignored), the `Process` object is marked stopping, the coroutine parks on a 100 ms timer -/
theorem killProcess_park (rec : Rec) (u pid idx fm : Nat) (w : Watcher) (o : PObj) (k : Kernel) (a : Arbiter)
    (objs : List PObj) (frames : List Frame) (sleepers : List Sleeper) (tops : List TopFut) (ready : List Ready)
    (dv : List (Nat × Val)) (nid : Nat) (log : List Obs)
    (hw : SOk u w) (hk : k.Base) (hs : k.Stub pid) (hp : pid ∈ w.pids)
    (ho : objs.find? (fun o => decide (o.pid = pid)) = some o) (hst : o.stopping = false) (hrc : o.rc = none)
    (hpolls : 0 < pollsOf w.graceful) (hfresh : ∀ g ∈ frames, g.fid ≠ nid) :
    killProcess rec u pid none none (.frame fm idx) ⟨k, a, objs, [w], frames, sleepers, tops, ready, dv, nid, log, false⟩ =
      ((), ⟨k.bump 2, a, objs.map (fun o => if o.pid = pid then { o with stopping := true } else o), [w],
        frames ++ [{ fid := nid, k := .killWait u pid w.stopSignal 1 (pollsOf w.graceful), parent := .frame fm idx, armed := true }],
        sleepers ++ [{ sid := nid + 1, deadline := k.now + 100, waiter := .frame nid 0 }], tops, ready, dv, nid + 2,
        (if a.pubClosed then log ++ [Obs.sig pid w.stopSignal .run ""]
         else log ++ [Obs.sig pid w.stopSignal .run "", Obs.ev (resName w.name) "kill" (some pid) "-"]), false⟩) := by
  obtain ⟨p, hf, hr, ht, hl⟩ := hs
  have hs' : k.Stub pid := ⟨p, hf, hr, ht, hl⟩
  have hoo : (objs.map fun o => if o.pid = pid then { o with stopping := true } else o).find? (fun o => decide (o.pid = pid)) =
      some { o with stopping := true } := by
    rw [find_modO objs pid pid (fun o => { o with stopping := true }) (fun _ => rfl), ho]
    have : o.pid = pid := by simpa using List.find?_some ho
    simp [this]
  simp [killProcess, bind, getW_mk, hw.uid, getO, ho, hst, hw.stopChildren, sendSignal_ignored_mk _ _ _ _ _ _ _ _ _ _ _ u pid hw hk hs' hp,
    notify_mk, pure, setObjStopping, modO, modS, killLoop, hpolls,
    isAlive_run_mk _ _ _ _ _ _ _ _ _ _ _ pid _ p ((hk.bump 1)) hoo hrc hf hr, awaitSleep_eq, Kernel.bump_bump, evlog]
  exact ⟨arm_id frames nid hfresh, rfl⟩


/-- **the 100 ms timer of `kill_process` fires, graceful timeout not yet over**: the worker is still
    alive, the coroutine parks again -/
theorem killLoop_repark (rec : Rec) (u pid idx fm sig i polls : Nat) (w : Watcher) (o : PObj) (p : KProc) (k : Kernel)
    (a : Arbiter) (objs : List PObj) (frames : List Frame) (sleepers : List Sleeper) (tops : List TopFut)
    (ready : List Ready) (dv : List (Nat × Val)) (nid : Nat) (log : List Obs)
    (hk : k.Base) (hf : k.find pid = some p) (hr : p.st = .run)
    (ho : objs.find? (fun o => decide (o.pid = pid)) = some o) (hrc : o.rc = none)
    (hi : i < polls) (hfresh : ∀ g ∈ frames, g.fid ≠ nid) :
    killLoop rec u pid sig i polls (.frame fm idx) ⟨k, a, objs, [w], frames, sleepers, tops, ready, dv, nid, log, false⟩ =
      ((), ⟨k.bump 1, a, objs, [w],
        frames ++ [{ fid := nid, k := .killWait u pid sig (i + 1) polls, parent := .frame fm idx, armed := true }],
        sleepers ++ [{ sid := nid + 1, deadline := k.now + 100, waiter := .frame nid 0 }], tops, ready, dv, nid + 2,
        log, false⟩) := by
  simp [killLoop, bind, hi, isAlive_run_mk _ _ _ _ _ _ _ _ _ _ _ pid o p hk ho hrc hf hr, awaitSleep_eq]
  exact ⟨arm_id frames nid hfresh, rfl⟩


section mk2
variable (k : Kernel) (a : Arbiter) (objs : List PObj) (w : Watcher) (frames : List Frame) (sleepers : List Sleeper)
  (tops : List TopFut) (ready : List Ready) (dv : List (Nat × Val)) (nid : Nat) (log : List Obs)

theorem kChildren_stub_mk (pid : Nat) (r : Bool) (hk : k.Base) (hs : k.Stub pid) :
    kChildren pid r ⟨k, a, objs, [w], frames, sleepers, tops, ready, dv, nid, log, false⟩ =
      (some [], ⟨k.bump 1, a, objs, [w], frames, sleepers, tops, ready, dv, nid, log, false⟩) := by
  simp [kChildren, runK, Kernel.children_stub hk hs r]

/-- SIGKILL to a stubborn worker with latency 0: it is a zombie at once -/
theorem sendSignal_kill9_mk (u pid : Nat) (hw : SOk u w) (hk : k.Base) (hs : k.Stub pid) (hp : pid ∈ w.pids) :
    sendSignal u pid 9 ⟨k, a, objs, [w], frames, sleepers, tops, ready, dv, nid, log, false⟩ =
      (.ok, ⟨k.sigkilled pid, a, objs, [w], frames, sleepers, tops, ready, dv, nid, log ++ [Obs.sig pid 9 .run ""], false⟩) := by
  have hc : w.pids.contains pid = true := by simpa using hp
  have hkk : kKill pid 9 "" ⟨k, a, objs, [w], frames, sleepers, tops, ready, dv, nid, log, false⟩ =
      (.ok, ⟨k.sigkilled pid, a, objs, [w], frames, sleepers, tops, ready, dv, nid, log ++ [Obs.sig pid 9 .run ""], false⟩) := by
    simp [kKill, bind, runK, hk.killD, Kernel.kill9 hk hs, emit, modS, Obs.isRep, Obs.isEv, pure, SigRes.of]
  simp [sendSignal, bind, getW, hw.uid, hp, callHook_mk, hw.hooks, hkk, pure]

end mk2

theorem sendSignalProcess_kill9_mk (k : Kernel) (a : Arbiter) (objs : List PObj) (w : Watcher) (frames : List Frame)
    (sleepers : List Sleeper) (tops : List TopFut) (ready : List Ready) (dv : List (Nat × Val)) (nid : Nat) (log : List Obs)
    (u pid : Nat) (hw : SOk u w) (hk : k.Base) (hs : k.Stub pid) (hp : pid ∈ w.pids) :
    sendSignalProcess u pid 9 true ⟨k, a, objs, [w], frames, sleepers, tops, ready, dv, nid, log, false⟩ =
      (true, ⟨(k.bump 1).sigkilled pid, a, objs, [w], frames, sleepers, tops, ready, dv, nid,
        evlog a (log ++ [Obs.sig pid 9 .run ""]) w "kill" (some pid) "-", false⟩) := by
  have hs1 : (k.bump 1).Stub pid := hs
  have h1 := kChildren_stub_mk k a objs w frames sleepers tops ready dv nid log pid true hk hs
  have h2 := sendSignal_kill9_mk (k.bump 1) a objs w frames sleepers tops ready dv nid log u pid hw (hk.bump 1) hs1 hp
  unfold sendSignalProcess
  simp only [bind, h1, h2]
  simp [notify_mk, hw.uid, pure, signalKids]

/-- `Process.stop()` on a zombie: `poll()` collects it (status 9), nothing to terminate -/
theorem objStop_reap_mk (k : Kernel) (a : Arbiter) (objs : List PObj) (w : Watcher) (frames : List Frame)
    (sleepers : List Sleeper) (tops : List TopFut) (ready : List Ready) (dv : List (Nat × Val)) (nid : Nat) (log : List Obs)
    (pid : Nat) (o : PObj) (p : KProc) (hk : k.Base) (hf : k.find pid = some p) (hz : p.st = .zombie) (hst : p.status = 9)
    (ho : objs.find? (fun o => decide (o.pid = pid)) = some o) (hrc : o.rc = none) :
    objStop pid ⟨k, a, objs, [w], frames, sleepers, tops, ready, dv, nid, log, false⟩ =
      ((), ⟨k.reaped pid, a, objs.map (fun o => if o.pid = pid then { o with rc := some (-9) } else o), [w],
        frames, sleepers, tops, ready, dv, nid, log ++ [Obs.reap pid 9], false⟩) := by
  have hw := Kernel.waitpid_zombie hk hf hz
  rw [hst] at hw
  have hkw : kWaitpid (some pid) ⟨k, a, objs, [w], frames, sleepers, tops, ready, dv, nid, log, false⟩ =
      (.got pid 9, ⟨k.reaped pid, a, objs, [w], frames, sleepers, tops, ready, dv, nid, log ++ [Obs.reap pid 9], false⟩) := by
    simp [kWaitpid, bind, runK, hw, emit, modS, Obs.isRep, Obs.isEv, pure]
  have hex : exitCodeOf 9 = -9 := by decide
  simp [objStop, isAlive, bind, getO, ho, hrc, hkw, setRc, modO, modS, pure, hex]

/-- the kernel after the escalation on worker `pid`: `children()`, SIGKILL, `waitpid` -/
def Kernel.escalated (k : Kernel) (pid : Nat) : Kernel := ((k.bump 1).sigkilled pid).reaped pid

/-- **the graceful timeout is over**: SIGKILL, the worker dies at once and is waited for (`Process.stop()`
    polls it), the `Process` object is no longer stopping; the result goes to the waiter -/
theorem killFinish_kill (rec : Rec) (u pid : Nat) (wt : Waiter) (w : Watcher) (o : PObj) (k : Kernel)
    (a : Arbiter) (objs : List PObj) (frames : List Frame) (sleepers : List Sleeper) (tops : List TopFut)
    (ready : List Ready) (dv : List (Nat × Val)) (nid : Nat) (log : List Obs)
    (hw : SOk u w) (hk : k.Base) (hs : k.Stub pid) (hp : pid ∈ w.pids)
    (ho : objs.find? (fun o => decide (o.pid = pid)) = some o) (hrc : o.rc = none) :
    killFinish rec u pid true wt ⟨k, a, objs, [w], frames, sleepers, tops, ready, dv, nid, log, false⟩ =
      deliver rec wt (.bool true) ⟨k.escalated pid, a,
        objs.map (fun o => if o.pid = pid then { o with stopping := false, rc := some (-9) } else o), [w],
        frames, sleepers, tops, ready, dv, nid,
        evlog a (log ++ [Obs.sig pid 9 .run ""]) w "kill" (some pid) "-" ++ [Obs.reap pid 9], false⟩ := by
  obtain ⟨p, hf, hr, ht, hl⟩ := hs
  have hs0 : k.Stub pid := ⟨p, hf, hr, ht, hl⟩
  have hs1 : (k.bump 1).Stub pid := ⟨p, hf, hr, ht, hl⟩
  have hpid := Kernel.Stub.pid_ne_zero hk hs0
  have hb1 := hk.bump 1
  have hb2 : ((k.bump 1).sigkilled pid).Base := Kernel.sigkilled_base hb1 hpid
  have hpp := Kernel.find_pid hf
  have hf2 : ((k.bump 1).sigkilled pid).find pid = some { p with doom := none, status := 9, st := .zombie } := by
    rw [Kernel.sigkilled_find hb1 hpid, Kernel.bump_find, hf]
    simp [hpp]
  have hopid : o.pid = pid := by simpa using List.find?_some ho
  have hoo : (objs.map fun o => if o.pid = pid then { o with stopping := false } else o).find? (fun o => decide (o.pid = pid)) =
      some { o with stopping := false } := by
    rw [find_modO objs pid pid (fun o => { o with stopping := false }) (fun _ => rfl), ho]
    simp [hopid]
  have h1 := sendSignalProcess_kill9_mk k a objs w frames sleepers tops ready dv nid log u pid hw hk hs0 hp
  have h2 := objStop_reap_mk ((k.bump 1).sigkilled pid) a
    (objs.map fun o => if o.pid = pid then { o with stopping := false } else o) w frames sleepers tops ready dv nid
    (evlog a (log ++ [Obs.sig pid 9 .run ""]) w "kill" (some pid) "-") pid { o with stopping := false } _ hb2 hf2 rfl rfl hoo hrc
  simp [killFinish, bind, h1, setObjStopping, modO, modS, h2, Kernel.escalated, List.map_map, Function.comp_def]
  congr 2
  apply List.map_congr_left
  intro x _
  by_cases h : x.pid = pid <;> simp [h]


theorem Kernel.escalated_base {k : Kernel} (hk : k.Base) {pid : Nat} (hs : k.Stub pid) : (k.escalated pid).Base :=
  Kernel.reaped_base (Kernel.sigkilled_base (hk.bump 1) (Kernel.Stub.pid_ne_zero hk hs)) pid

theorem Kernel.escalated_find_other {k : Kernel} (hk : k.Base) {pid : Nat} (hs : k.Stub pid) {q : Nat} (hq : q ≠ pid) :
    (k.escalated pid).find q = k.find q := by
  unfold Kernel.escalated
  rw [Kernel.reaped_find, Kernel.sigkilled_find (hk.bump 1) (Kernel.Stub.pid_ne_zero hk hs), Kernel.bump_find]
  cases hf : k.find q with
  | none => rfl
  | some p =>
    have hp := Kernel.find_pid hf
    have hne : ¬ p.pid = pid := by rw [hp]; exact hq
    simp [hne]

theorem Kernel.escalated_find_self {k : Kernel} (hk : k.Base) {pid : Nat} (hs : k.Stub pid) : (k.escalated pid).GoneP pid := by
  obtain ⟨p, hf, _⟩ := hs
  have hs' : k.Stub pid := ⟨p, hf, ‹_›⟩
  have hp := Kernel.find_pid hf
  unfold Kernel.escalated Kernel.GoneP
  rw [Kernel.reaped_find, Kernel.sigkilled_find (hk.bump 1) (Kernel.Stub.pid_ne_zero hk hs'), Kernel.bump_find, hf]
  exact ⟨_, rfl, by simp [hp]⟩

theorem Kernel.escalated_nozombie {k : Kernel} (hk : k.Base) {pid : Nat} (hs : k.Stub pid)
    (hz : ∀ p ∈ k.procs, p.st ≠ .zombie) : ∀ p ∈ (k.escalated pid).procs, p.st ≠ .zombie := by
  intro p hp
  have h1 : (k.escalated pid).procs = ((k.bump 1).sigkilled pid).procs.map
      (fun q => if q.pid = pid then { q with st := .gone } else q) := rfl
  rw [h1, Kernel.sigkilled_procs (hk.bump 1) pid (Kernel.Stub.pid_ne_zero hk hs)] at hp
  obtain ⟨q1, hq1, rfl⟩ := List.mem_map.mp hp
  obtain ⟨q, hq, rfl⟩ := List.mem_map.mp hq1
  have hq' : q ∈ k.procs := hq
  by_cases h : q.pid = pid
  · simp [h]
  · simp only [h, if_false]
    exact hz q hq'

/-! ## Part 3: the end of `_stop` -/

/-- `reap_process` on a listed worker that is already gone and whose exit code is known: the entry is
    popped, `waitpid` says ECHILD, the `reap` event carries the cached exit code -/
theorem reapProcess_gone_mk (k : Kernel) (a : Arbiter) (objs : List PObj) (w : Watcher) (frames : List Frame)
    (sleepers : List Sleeper) (tops : List TopFut) (ready : List Ready) (dv : List (Nat × Val)) (nid : Nat) (log : List Obs)
    (u pid : Nat) (o : PObj) (p : KProc) (rc : Int) (hu : w.uid = u) (hh : w.hooks = []) (hk : k.Base)
    (hf : k.find pid = some p) (hg : p.st = .gone)
    (hp : pid ∈ w.pids) (ho : objs.find? (fun o => decide (o.pid = pid)) = some o) (hrc : o.rc = some rc) :
    reapProcess u pid none ⟨k, a, objs, [w], frames, sleepers, tops, ready, dv, nid, log, false⟩ =
      ((), ⟨k.bump 1, a, objs, [{ w with pids := w.pids.filter (· ≠ pid) }], frames, sleepers, tops, ready, dv, nid,
        evlog a log w "reap" (some pid) (toString rc), false⟩) := by
  have hkw : ∀ (ws : List Watcher), kWaitpid (some pid) ⟨k, a, objs, ws, frames, sleepers, tops, ready, dv, nid, log, false⟩ =
      (.echild, ⟨k.bump 1, a, objs, ws, frames, sleepers, tops, ready, dv, nid, log, false⟩) := by
    intro ws
    simp [kWaitpid, bind, runK, Kernel.waitpid_gone hk hf hg, pure]
  have hrw : ∀ (ws : List Watcher), reapWait pid spinLimit ⟨k, a, objs, ws, frames, sleepers, tops, ready, dv, nid, log, false⟩ =
      (some none, ⟨k.bump 1, a, objs, ws, frames, sleepers, tops, ready, dv, nid, log, false⟩) := by
    intro ws
    have hsl : spinLimit = 19999 + 1 := rfl
    rw [hsl]
    unfold reapWait
    simp [bind, hkw, pure]
  unfold reapProcess reapTail
  simp [bind, getW, hu, hp, popPid, modW, modS, hrw, pure, getO, ho, hrc, notify_mk, objStop, isAlive, evlog,
    callHook_mk, hh]


/-- the `reap` events of `reap_processes` over workers that were killed -/
def reapLogs (a : Arbiter) (w : Watcher) : List Nat → List Obs → List Obs
  | [], log => log
  | pid :: rest, log => reapLogs a w rest (evlog a log w "reap" (some pid) "-9")

theorem reapLogs_name (a : Arbiter) (w w' : Watcher) (h : w'.name = w.name) (l : List Nat) :
    ∀ log, reapLogs a w' l log = reapLogs a w l log := by
  induction l with
  | nil => intro log; rfl
  | cons p rest ih =>
    intro log
    simp only [reapLogs, evlog, h]
    exact ih _

theorem reapLoop_gone (u : Nat) (a : Arbiter) (objs : List PObj) (frames : List Frame) (sleepers : List Sleeper)
    (tops : List TopFut) (ready : List Ready) (dv : List (Nat × Val)) (nid : Nat) (l : List Nat) :
    ∀ (k : Kernel) (w : Watcher) (log : List Obs), w.uid = u → w.hooks = [] → k.Base → l.Nodup →
      (∀ pid ∈ l, pid ∈ w.pids ∧ k.GoneP pid ∧ ∃ o, objs.find? (fun o => decide (o.pid = pid)) = some o ∧ o.rc = some (-9)) →
      (forIn l PUnit.unit (reapBody u) : M PUnit) ⟨k, a, objs, [w], frames, sleepers, tops, ready, dv, nid, log, false⟩ =
        (PUnit.unit, ⟨k.bump l.length, a, objs, [{ w with pids := w.pids.filter (fun p => decide (p ∉ l)) }], frames,
          sleepers, tops, ready, dv, nid, reapLogs a w l log, false⟩) := by
  induction l with
  | nil =>
    intro k w log _ _ _ _ _
    simp [Kernel.bump, reapLogs, pure]
    have : List.filter (fun _ => true) w.pids = w.pids := List.filter_eq_self.mpr (fun _ _ => rfl)
    rw [this]
  | cons pid rest ih =>
    intro k w log hu hh hk hnd hall
    obtain ⟨hp, ⟨p, hf, hg⟩, o, ho, hrc⟩ := hall pid (by simp)
    have hnd' := List.nodup_cons.mp hnd
    rw [List.forIn_cons]
    simp only [bind]
    rw [reapBody_open u pid _ (by simp)]
    rw [reapProcess_gone_mk k a objs w frames sleepers tops ready dv nid log u pid o p (-9) hu hh hk hf hg hp ho hrc]
    simp only
    have hts : toString (-9 : Int) = "-9" := by decide
    rw [hts]
    have := ih (k.bump 1) { w with pids := w.pids.filter (· ≠ pid) } (evlog a log w "reap" (some pid) "-9") hu hh (hk.bump 1) hnd'.2 (by
      intro q hq
      obtain ⟨hq1, hq2, hq3⟩ := hall q (by simp [hq])
      refine ⟨?_, hq2, hq3⟩
      have hne : q ≠ pid := fun h => hnd'.1 (h ▸ hq)
      simp [hq1, hne])
    rw [this]
    rw [reapLogs_name a w { w with pids := w.pids.filter (· ≠ pid) } rfl rest]
    simp only [Kernel.bump_bump, List.length_cons, reapLogs, List.filter_filter]
    have hfl : List.filter (fun x => decide (x ∉ rest) && decide (x ≠ pid)) w.pids =
        List.filter (fun p => decide (p ∉ pid :: rest)) w.pids := by
      apply List.filter_congr
      intro x _
      by_cases h1 : x ∈ rest <;> by_cases h2 : x = pid <;> simp [h1, h2]
    rw [hfl, Nat.add_comm 1 rest.length]


theorem filter_not_mem_self (l : List Nat) : l.filter (fun p => decide (p ∉ l)) = [] := by
  apply List.filter_eq_nil_iff.mpr
  intro x hx
  simp [hx]

/-- **the end of `_stop`, every worker killed and waited for**: `reap_processes` pops every entry (one
    `waitpid` → ECHILD and one `reap` event each), the `stop` event, status `stopped`, the result goes to the
    waiter -/
theorem stopAfterKill_gone (rec : Rec) (u : Nat) (wt : Waiter) (k : Kernel) (a : Arbiter) (objs : List PObj) (w : Watcher)
    (frames : List Frame) (sleepers : List Sleeper) (tops : List TopFut) (ready : List Ready) (dv : List (Nat × Val))
    (nid : Nat) (log : List Obs)
    (hw : SOk u w) (hst : w.status ≠ .stopped) (hk : k.Base) (hnd : w.pids.Nodup)
    (hall : ∀ pid ∈ w.pids, k.GoneP pid ∧ ∃ o, objs.find? (fun o => decide (o.pid = pid)) = some o ∧ o.rc = some (-9)) :
    stopAfterKill rec u true wt ⟨k, a, objs, [w], frames, sleepers, tops, ready, dv, nid, log, false⟩ =
      deliver rec wt .unit ⟨k.bump w.pids.length, a, objs, [{ w with pids := [], status := .stopped }], frames, sleepers,
        tops, ready, dv, nid, evlog a (reapLogs a w w.pids log) w "stop" none "-", false⟩ := by
  have hreap : reapProcesses u ⟨k, a, objs, [w], frames, sleepers, tops, ready, dv, nid, log, false⟩ =
      ((), ⟨k.bump w.pids.length, a, objs, [{ w with pids := [] }], frames, sleepers, tops, ready, dv, nid,
        reapLogs a w w.pids log, false⟩) := by
    have hbody : reapProcesses u ⟨k, a, objs, [w], frames, sleepers, tops, ready, dv, nid, log, false⟩ =
        (forIn w.pids PUnit.unit (reapBody u) : M PUnit) ⟨k, a, objs, [w], frames, sleepers, tops, ready, dv, nid, log, false⟩ := by
      unfold reapProcesses
      simp only [bind]
      rw [getW_mk _ _ _ _ _ _ _ _ _ _ _ u hw.uid]
      erw [if_neg hst]
      rfl
    rw [hbody, reapLoop_gone u a objs frames sleepers tops ready dv nid w.pids k w log hw.uid hw.hooks hk hnd
      (fun pid hp => ⟨hp, (hall pid hp).1, (hall pid hp).2⟩), filter_not_mem_self]
  rw [stopAfterKill_eq]
  simp only [bind, stopCore, hreap]
  simp [notify_mk, hw.uid, setStatus, modW, modS, callHook_mk, hw.hooks, evlog]


theorem lookup_mem {l : List (Nat × Val)} {i : Nat} {v : Val} (h : l.lookup i = some v) : (i, v) ∈ l := by
  induction l with
  | nil => simp [List.lookup] at h
  | cons x xs ih =>
    obtain ⟨a, b⟩ := x
    simp only [List.lookup] at h
    by_cases hia : i = a
    · subst hia
      simp at h
      subst h
      simp
    · have : (i == a) = false := by simp [hia]
      simp only [this] at h
      exact List.mem_cons_of_mem _ (ih h)

/-- a `gen.multi` whose children all returned `True` delivers a list, not an exception -/
theorem multiResult_bools (m : Nat) (results : List (Nat × Val)) (h : ∀ r ∈ results, r.2 = .bool true) :
    ∃ vs, multiResult m results = .list vs := by
  unfold multiResult
  simp only
  have hnone : ((List.range m).map fun i => (results.lookup i).getD .unit).find? isExc = none := by
    apply List.find?_eq_none.mpr
    intro v hv
    obtain ⟨i, _, rfl⟩ := List.mem_map.mp hv
    cases hl : results.lookup i with
    | none => simp [isExc]
    | some x =>
      have := h _ (lookup_mem hl)
      simp only at this
      simp [this, isExc]
  rw [hnone]
  exact ⟨_, rfl⟩


/-! ## Part 4: the timers of the `kill_process` coroutines -/

/-- one parked `kill_process` coroutine: the worker, its slot in the `gen.multi`, the number of the next
    poll, the id of its frame (its timer has the next id), the deadline of its timer -/
structure QE where
  pid : Nat
  idx : Nat
  i : Nat
  fid : Nat
  dl : Nat

def qFrame (u sig polls fm : Nat) (e : QE) : Frame :=
  { fid := e.fid, k := .killWait u e.pid sig e.i polls, parent := .frame fm e.idx, armed := true }
def qSleeper (e : QE) : Sleeper := { sid := e.fid + 1, deadline := e.dl, waiter := .frame e.fid 0 }

/-- the frames of `stop → _stop → kill_processes → gen.multi` -/
def stopFrames (u t m : Nat) (results : List (Nat × Val)) (armed : Bool) : List Frame :=
  [{ fid := t + 1, k := .ignore, parent := .top t, armed := armed },
   { fid := t + 2, k := .stopAfterKill u true, parent := .frame (t + 1) 0, armed := armed },
   { fid := t + 3, k := .ignore, parent := .frame (t + 2) 0, armed := armed },
   { fid := t + 4, k := .multi m results, parent := .frame (t + 3) 0, armed := armed }]

/-- the state while the workers are being killed -/
def killing (u t m sig polls : Nat) (cbs : List TopCb) (results : List (Nat × Val)) (Q : List QE)
    (k : Kernel) (a : Arbiter) (objs : List PObj) (w : Watcher) (dv : List (Nat × Val)) (nid : Nat) (log : List Obs) : State :=
  ⟨k, a, objs, [w], stopFrames u t m results true ++ Q.map (qFrame u sig polls (t + 4)), Q.map qSleeper,
    [{ tid := t, cbs := cbs, armed := true }], [], dv, nid, log, false⟩

/-- the timer list is in firing order -/
def QSorted : List QE → Prop
  | [] => True
  | h :: tl => (∀ e ∈ tl, h.dl ≤ e.dl ∧ h.fid < e.fid) ∧ QSorted tl

theorem earliest_go (acc : Sleeper) (l : List Sleeper) (h : ∀ s ∈ l, acc.deadline ≤ s.deadline ∧ acc.sid < s.sid) :
    l.foldl (fun acc s => match acc with
      | none => some s
      | some b => if s.deadline < b.deadline || (s.deadline = b.deadline && s.sid < b.sid) then some s else some b)
      (some acc) = some acc := by
  induction l with
  | nil => rfl
  | cons x xs ih =>
    simp only [List.foldl_cons]
    obtain ⟨h1, h2⟩ := h x (by simp)
    have hn : (decide (x.deadline < acc.deadline) || (decide (x.deadline = acc.deadline) && decide (x.sid < acc.sid))) = false := by
      simp
      constructor
      · omega
      · intro _; omega
    simp only [hn, Bool.false_eq_true, if_false]
    exact ih (fun s hs => h s (by simp [hs]))

theorem earliest_head (hd : QE) (tl : List QE) (hs : QSorted (hd :: tl)) :
    earliest ((hd :: tl).map qSleeper) = some (qSleeper hd) := by
  unfold earliest
  simp only [List.map_cons, List.foldl_cons]
  apply earliest_go
  intro s hsm
  obtain ⟨e, he, rfl⟩ := List.mem_map.mp hsm
  have := hs.1 e he
  simp only [qSleeper]
  omega

theorem filter_qFrames (u sig polls fm j : Nat) (tl : List QE) (h : ∀ e ∈ tl, e.fid ≠ j) :
    (tl.map (qFrame u sig polls fm)).filter (fun x => decide (x.fid ≠ j)) = tl.map (qFrame u sig polls fm) := by
  apply List.filter_eq_self.mpr
  intro x hx
  obtain ⟨e, he, rfl⟩ := List.mem_map.mp hx
  simp [qFrame, h e he]

theorem filter_qSleepers (j : Nat) (tl : List QE) (h : ∀ e ∈ tl, e.fid ≠ j) :
    (tl.map qSleeper).filter (fun x => decide (x.sid ≠ j + 1)) = tl.map qSleeper := by
  apply List.filter_eq_self.mpr
  intro x hx
  obtain ⟨e, he, rfl⟩ := List.mem_map.mp hx
  have := h e he
  simp [qSleeper]; omega


/-- **a poll timer fires, graceful timeout not yet over**: the worker is still there, its coroutine
    parks again, at the end of the timer list -/
theorem wake_repark (u t m sig polls : Nat) (cbs : List TopCb) (results : List (Nat × Val)) (h : QE) (tl : List QE)
    (k : Kernel) (a : Arbiter) (objs : List PObj) (w : Watcher) (dv : List (Nat × Val)) (nid : Nat) (log : List Obs)
    (hk : k.Base) (p : KProc) (hf : k.find h.pid = some p) (hr : p.st = .run)
    (o : PObj) (ho : objs.find? (fun o => decide (o.pid = h.pid)) = some o) (hrc : o.rc = none)
    (hi : h.i < polls) (hsorted : QSorted (h :: tl)) (hids : t + 4 < h.fid) (hnid : ∀ e ∈ h :: tl, e.fid < nid)
    (hls : a.loopStop = false) :
    step (killing u t m sig polls cbs results (h :: tl) k a objs w dv nid log) .wake =
      killing u t m sig polls cbs results (tl ++ [{ h with i := h.i + 1, fid := nid, dl := max k.now h.dl + 100 }])
        (({ k.beginStep with now := max k.now h.dl } : Kernel).bump 1) a objs w dv (nid + 2) log := by
  have htl : ∀ e ∈ tl, e.fid ≠ h.fid := fun e he => by have := (hsorted.1 e he).2; omega
  have h1 : ¬ t + 1 = h.fid := by omega
  have h2 : ¬ t + 2 = h.fid := by omega
  have h3 : ¬ t + 3 = h.fid := by omega
  have h4 : ¬ t + 4 = h.fid := by omega
  have hkb : (({ k.beginStep with now := max k.now h.dl } : Kernel)).Base := hk.beginStep.setNow_base _
  unfold step
  rw [show stepM .wake (killing u t m sig polls cbs results (h :: tl) k a objs w dv nid log) =
      stepTail (stepOp .wake (updK Kernel.beginStep (killing u t m sig polls cbs results (h :: tl) k a objs w dv nid log)).2).2
    from stepM_eq _ _ rfl]
  have hop : (stepOp .wake (updK Kernel.beginStep (killing u t m sig polls cbs results (h :: tl) k a objs w dv nid log)).2).2 =
      ⟨({ k.beginStep with now := max k.now h.dl } : Kernel), a, objs, [w],
        stopFrames u t m results true ++ tl.map (qFrame u sig polls (t + 4)), tl.map qSleeper,
        [{ tid := t, cbs := cbs, armed := true }],
        [.resume (.killWait u h.pid sig h.i polls) .unit (.frame (t + 4) h.idx)], dv, nid, log, false⟩ := by
    simp only [killing, stepOp, bind, getS, updK, runK, earliest_head h tl hsorted, fireSleeper, modS]
    simp [qSleeper, qFrame, stopFrames, deliver, bind, getS, removeFrame, enqueue, modS, h1, h2, h3, h4,
      filter_qFrames u sig polls (t + 4) h.fid tl htl, filter_qSleepers h.fid tl htl, hk.beginStep.setNow]
    exact ⟨rfl, htl⟩
  rw [hop]
  have hfresh : ∀ g ∈ stopFrames u t m results true ++ tl.map (qFrame u sig polls (t + 4)), g.fid ≠ nid := by
    intro g hg
    have hn := hnid h (by simp)
    rcases List.mem_append.mp hg with hg | hg
    · simp only [stopFrames, List.mem_cons, List.mem_nil_iff, or_false] at hg
      rcases hg with rfl | rfl | rfl | rfl <;> simp <;> omega
    · obtain ⟨e, he, rfl⟩ := List.mem_map.mp hg
      have := hnid e (by simp [he])
      simp [qFrame]; omega
  have e1 : (100000 : Nat) = 99999 + 1 := rfl
  have e2 : (99999 : Nat) = 99998 + 1 := rfl
  have hset : settle 100000 ⟨({ k.beginStep with now := max k.now h.dl } : Kernel), a, objs, [w],
        stopFrames u t m results true ++ tl.map (qFrame u sig polls (t + 4)), tl.map qSleeper,
        [{ tid := t, cbs := cbs, armed := true }],
        [.resume (.killWait u h.pid sig h.i polls) .unit (.frame (t + 4) h.idx)], dv, nid, log, false⟩ =
      ((), killing u t m sig polls cbs results (tl ++ [{ h with i := h.i + 1, fid := nid, dl := max k.now h.dl + 100 }])
        (({ k.beginStep with now := max k.now h.dl } : Kernel).bump 1) a objs w dv (nid + 2) log) := by
    rw [e1, settle_cons_mk]
    simp only [runReady1]
    rw [exec_resume_mk]
    simp only [runResume]
    rw [killLoop_repark (exec 99999) u h.pid h.idx (t + 4) sig h.i polls w o p _ a objs _ _ _ [] dv nid log hkb hf hr ho hrc hi hfresh]
    rw [e2]
    rw [settle_nil 99998 _ rfl]
    simp [killing, qFrame, qSleeper, List.map_append]
  rw [stepTail_eq _ (by rw [hset]; exact hls), hset]


theorem map_setK_qFrames (u sig polls fm : Nat) (kk : Kont) (tl : List QE) (h : ∀ e ∈ tl, e.fid ≠ fm) :
    (tl.map (qFrame u sig polls fm)).map (fun (g : Frame) => if g.fid = fm then { g with k := kk } else g) =
      tl.map (qFrame u sig polls fm) := by
  rw [List.map_map]
  apply List.map_congr_left
  intro e he
  simp [qFrame, h e he]

/-- what the stimulus `wake` itself does in a killing state: the head timer fires, its frame is resumed
    through the ready queue -/
theorem wake_op_killing (u t m sig polls : Nat) (cbs : List TopCb) (results : List (Nat × Val)) (h : QE) (tl : List QE)
    (k : Kernel) (a : Arbiter) (objs : List PObj) (w : Watcher) (dv : List (Nat × Val)) (nid : Nat) (log : List Obs)
    (hk : k.Base) (hsorted : QSorted (h :: tl)) (hids : t + 4 < h.fid) :
    (stopFrames u t m results true ++ tl.map (qFrame u sig polls (t + 4)) = stopFrames u t m results true ++ tl.map (qFrame u sig polls (t + 4))) ∧
    (stepOp .wake (updK Kernel.beginStep (killing u t m sig polls cbs results (h :: tl) k a objs w dv nid log)).2).2 =
      ⟨({ k.beginStep with now := max k.now h.dl } : Kernel), a, objs, [w],
        stopFrames u t m results true ++ tl.map (qFrame u sig polls (t + 4)), tl.map qSleeper,
        [{ tid := t, cbs := cbs, armed := true }],
        [.resume (.killWait u h.pid sig h.i polls) .unit (.frame (t + 4) h.idx)], dv, nid, log, false⟩ := by
  refine ⟨rfl, ?_⟩
  have htl : ∀ e ∈ tl, e.fid ≠ h.fid := fun e he => by have := (hsorted.1 e he).2; omega
  have h1 : ¬ t + 1 = h.fid := by omega
  have h2 : ¬ t + 2 = h.fid := by omega
  have h3 : ¬ t + 3 = h.fid := by omega
  have h4 : ¬ t + 4 = h.fid := by omega
  simp only [killing, stepOp, bind, getS, updK, runK, earliest_head h tl hsorted, fireSleeper, modS]
  simp [qSleeper, qFrame, stopFrames, deliver, bind, getS, removeFrame, enqueue, modS, h1, h2, h3, h4,
    filter_qFrames u sig polls (t + 4) h.fid tl htl, filter_qSleepers h.fid tl htl, hk.beginStep.setNow]
  exact ⟨rfl, htl⟩

theorem killLoop_escalate (rec : Rec) (u pid sig i polls : Nat) (wt : Waiter) (hi : ¬ i < polls) :
    killLoop rec u pid sig i polls wt = killFinish rec u pid true wt := by
  unfold killLoop
  rw [if_neg hi]

/-- **a poll timer fires, graceful timeout over, other workers still pending**: SIGKILL; the worker is
    gone and waited for; its result is recorded in the `gen.multi` -/
theorem wake_kill_more (u t m polls : Nat) (cbs : List TopCb) (results : List (Nat × Val)) (h : QE) (tl : List QE)
    (k : Kernel) (a : Arbiter) (objs : List PObj) (w : Watcher) (dv : List (Nat × Val)) (nid : Nat) (log : List Obs)
    (hw : SOk u w) (hk : k.Base) (hs : k.Stub h.pid) (hp : h.pid ∈ w.pids)
    (o : PObj) (ho : objs.find? (fun o => decide (o.pid = h.pid)) = some o) (hrc : o.rc = none)
    (hi : ¬ h.i < polls) (hsorted : QSorted (h :: tl)) (hids : t + 4 < h.fid)
    (hmore : ¬ (results ++ [(h.idx, Val.bool true)]).length ≥ m) (hls : a.loopStop = false) :
    step (killing u t m w.stopSignal polls cbs results (h :: tl) k a objs w dv nid log) .wake =
      killing u t m w.stopSignal polls cbs (results ++ [(h.idx, Val.bool true)]) tl
        (({ k.beginStep with now := max k.now h.dl } : Kernel).escalated h.pid) a
        (objs.map (fun o => if o.pid = h.pid then { o with stopping := false, rc := some (-9) } else o)) w dv nid
        (evlog a (log ++ [Obs.sig h.pid 9 .run ""]) w "kill" (some h.pid) "-" ++ [Obs.reap h.pid 9]) := by
  have hkb : (({ k.beginStep with now := max k.now h.dl } : Kernel)).Base := hk.beginStep.setNow_base _
  have hsb : (({ k.beginStep with now := max k.now h.dl } : Kernel)).Stub h.pid := hs
  have htl4 : ∀ e ∈ tl, e.fid ≠ t + 4 := fun e he => by have := (hsorted.1 e he).2; omega
  unfold step
  rw [show stepM .wake (killing u t m w.stopSignal polls cbs results (h :: tl) k a objs w dv nid log) =
      stepTail (stepOp .wake (updK Kernel.beginStep (killing u t m w.stopSignal polls cbs results (h :: tl) k a objs w dv nid log)).2).2
    from stepM_eq _ _ rfl]
  rw [(wake_op_killing u t m w.stopSignal polls cbs results h tl k a objs w dv nid log hk hsorted hids).2]
  have e1 : (100000 : Nat) = 99999 + 1 := rfl
  have e2 : (99999 : Nat) = 99998 + 1 := rfl
  have e3 : (99998 : Nat) = 99997 + 1 := rfl
  have hset : settle 100000 ⟨({ k.beginStep with now := max k.now h.dl } : Kernel), a, objs, [w],
        stopFrames u t m results true ++ tl.map (qFrame u w.stopSignal polls (t + 4)), tl.map qSleeper,
        [{ tid := t, cbs := cbs, armed := true }],
        [.resume (.killWait u h.pid w.stopSignal h.i polls) .unit (.frame (t + 4) h.idx)], dv, nid, log, false⟩ =
      ((), killing u t m w.stopSignal polls cbs (results ++ [(h.idx, Val.bool true)]) tl
        (({ k.beginStep with now := max k.now h.dl } : Kernel).escalated h.pid) a
        (objs.map (fun o => if o.pid = h.pid then { o with stopping := false, rc := some (-9) } else o)) w dv nid
        (evlog a (log ++ [Obs.sig h.pid 9 .run ""]) w "kill" (some h.pid) "-" ++ [Obs.reap h.pid 9])) := by
    rw [e1, settle_cons_mk]
    simp only [runReady1]
    rw [exec_resume_mk]
    simp only [runResume, killLoop_escalate _ _ _ _ _ _ _ hi]
    rw [killFinish_kill (exec 99999) u h.pid (.frame (t + 4) h.idx) w o _ a objs _ _ _ [] dv nid log hw hkb hsb hp ho hrc]
    simp [deliver, bind, getS, stopFrames, enqueue, modS]
    rw [e2, settle_cons_mk]
    simp only [runReady1]
    rw [exec_resume_mk]
    have hmore' : ¬ m ≤ results.length + 1 := by simpa using hmore
    simp [runResume, multiCollect, bind, getS, stopFrames, hmore', setFrameK, modS,
      map_setK_qFrames u w.stopSignal polls (t + 4) _ tl htl4]
    rw [e3, settle_nil 99997 _ rfl]
    simp [killing, stopFrames]
  rw [stepTail_eq _ (by rw [hset]; exact hls), hset]


/-- the log after the reply callback of the `stop` request -/
def replyLog (a : Arbiter) (cid : String) (mid : JVal) (waiting : Bool) (xform : String) (log : List Obs) : List Obs :=
  if waiting = true ∧ a.ctlClosed = false then log ++ [Obs.rep cid mid "ok" "-" (replyBody xform .unit)] else log

/-- **the last poll timer fires, graceful timeout over**: SIGKILL for the last worker; the `gen.multi` is
    complete; `kill_processes`, `_stop` (reap, `stop` event, status), `stop`, the future complete one
    after the other through the ready queue; the slot is released, the reply (if awaited) is written -/
theorem wake_kill_last (u t m polls : Nat) (cid : String) (mid : JVal) (waiting : Bool) (xform : String)
    (results : List (Nat × Val)) (h : QE)
    (k : Kernel) (a : Arbiter) (objs : List PObj) (w : Watcher) (dv : List (Nat × Val)) (nid : Nat) (log : List Obs)
    (hw : SOk u w) (hst : w.status ≠ .stopped) (hnd : w.pids.Nodup) (hk : k.Base) (hs : k.Stub h.pid) (hp : h.pid ∈ w.pids)
    (o : PObj) (ho : objs.find? (fun o => decide (o.pid = h.pid)) = some o) (hrc : o.rc = none)
    (hi : ¬ h.i < polls) (hids : t + 4 < h.fid)
    (hres : ∀ r ∈ results, r.2 = Val.bool true)
    (hlast : (results ++ [(h.idx, Val.bool true)]).length ≥ m) (hls : a.loopStop = false)
    (hdone : ∀ q ∈ w.pids, q ≠ h.pid → k.GoneP q ∧ ∃ o, objs.find? (fun o => decide (o.pid = q)) = some o ∧ o.rc = some (-9)) :
    step (killing u t m w.stopSignal polls [.release, .reply (some cid) mid false "stop" waiting xform] results [h]
        k a objs w dv nid log) .wake =
      ⟨(({ k.beginStep with now := max k.now h.dl } : Kernel).escalated h.pid).bump w.pids.length, { a with slot := none },
        objs.map (fun o => if o.pid = h.pid then { o with stopping := false, rc := some (-9) } else o),
        [{ w with pids := [], status := .stopped }], [], [], [], [], (t, Val.unit) :: dv, nid,
        replyLog a cid mid waiting xform
          (evlog a (reapLogs a w w.pids
            (evlog a (log ++ [Obs.sig h.pid 9 .run ""]) w "kill" (some h.pid) "-" ++ [Obs.reap h.pid 9])) w "stop" none "-"),
        false⟩ := by
  have hkb : (({ k.beginStep with now := max k.now h.dl } : Kernel)).Base := hk.beginStep.setNow_base _
  have hsb : (({ k.beginStep with now := max k.now h.dl } : Kernel)).Stub h.pid := hs
  have hke := Kernel.escalated_base hkb hsb
  have hopid : o.pid = h.pid := by simpa using List.find?_some ho
  -- every worker is gone now
  have hall : ∀ pid ∈ w.pids, (({ k.beginStep with now := max k.now h.dl } : Kernel).escalated h.pid).GoneP pid ∧
      ∃ o', (objs.map (fun o => if o.pid = h.pid then { o with stopping := false, rc := some (-9) } else o)).find?
        (fun o => decide (o.pid = pid)) = some o' ∧ o'.rc = some (-9) := by
    intro pid hpid
    by_cases hq : pid = h.pid
    · subst hq
      refine ⟨Kernel.escalated_find_self hkb hsb, { o with stopping := false, rc := some (-9) }, ?_, rfl⟩
      rw [find_modO objs h.pid h.pid (fun o => { o with stopping := false, rc := some (-9) }) (fun _ => rfl), ho]
      simp [hopid]
    · obtain ⟨⟨p, hf, hg⟩, o', ho', hrc'⟩ := hdone pid hpid hq
      refine ⟨⟨p, ?_, hg⟩, o', ?_, hrc'⟩
      · rw [Kernel.escalated_find_other hkb hsb hq]; exact hf
      · rw [find_modO objs h.pid pid (fun o => { o with stopping := false, rc := some (-9) }) (fun _ => rfl), ho']
        have : o'.pid = pid := by simpa using List.find?_some ho'
        simp [this, hq]
  obtain ⟨vs, hvs⟩ := multiResult_bools m (results ++ [(h.idx, Val.bool true)]) (by
    intro r hr
    rcases List.mem_append.mp hr with hr | hr
    · exact hres r hr
    · simp at hr; subst hr; rfl)
  unfold step
  rw [show stepM .wake (killing u t m w.stopSignal polls [.release, .reply (some cid) mid false "stop" waiting xform] results [h] k a objs w dv nid log) =
      stepTail (stepOp .wake (updK Kernel.beginStep (killing u t m w.stopSignal polls [.release, .reply (some cid) mid false "stop" waiting xform] results [h] k a objs w dv nid log)).2).2
    from stepM_eq _ _ rfl]
  rw [(wake_op_killing u t m w.stopSignal polls _ results h [] k a objs w dv nid log hk ⟨fun _ he => (by cases he), trivial⟩ hids).2]
  have e1 : (100000 : Nat) = 99999 + 1 := rfl
  have e2 : (99999 : Nat) = 99998 + 1 := rfl
  have e3 : (99998 : Nat) = 99997 + 1 := rfl
  have e4 : (99997 : Nat) = 99996 + 1 := rfl
  have e5 : (99996 : Nat) = 99995 + 1 := rfl
  have e6 : (99995 : Nat) = 99994 + 1 := rfl
  have e7 : (99994 : Nat) = 99993 + 1 := rfl
  have e8 : (99993 : Nat) = 99992 + 1 := rfl
  have hlast' : m ≤ results.length + 1 := by simpa using hlast
  simp only [List.map_nil, List.append_nil]
  have hset : settle 100000 ⟨({ k.beginStep with now := max k.now h.dl } : Kernel), a, objs, [w],
        stopFrames u t m results true, [],
        [{ tid := t, cbs := [.release, .reply (some cid) mid false "stop" waiting xform], armed := true }],
        [.resume (.killWait u h.pid w.stopSignal h.i polls) .unit (.frame (t + 4) h.idx)], dv, nid, log, false⟩ =
      ((), ⟨(({ k.beginStep with now := max k.now h.dl } : Kernel).escalated h.pid).bump w.pids.length, { a with slot := none },
        objs.map (fun o => if o.pid = h.pid then { o with stopping := false, rc := some (-9) } else o),
        [{ w with pids := [], status := .stopped }], [], [], [], [], (t, Val.unit) :: dv, nid,
        replyLog a cid mid waiting xform
          (evlog a (reapLogs a w w.pids
            (evlog a (log ++ [Obs.sig h.pid 9 .run ""]) w "kill" (some h.pid) "-" ++ [Obs.reap h.pid 9])) w "stop" none "-"),
        false⟩) := by
    -- 1: the kill
    rw [e1, settle_cons_mk]
    simp only [runReady1]
    rw [exec_resume_mk]
    simp only [runResume, killLoop_escalate _ _ _ _ _ _ _ hi]
    rw [killFinish_kill (exec 99999) u h.pid (.frame (t + 4) h.idx) w o _ a objs _ _ _ [] dv nid log hw hkb hsb hp ho hrc]
    simp [deliver, bind, getS, stopFrames, enqueue, modS]
    -- 2: the gen.multi is complete
    rw [e2, settle_cons_mk]
    simp only [runReady1]
    rw [exec_resume_mk]
    simp [runResume, multiCollect, bind, getS, stopFrames, hlast', removeFrame, modS]
    rw [hvs, e2, exec_resume_mk]
    simp [runResume, deliver, bind, getS, removeFrame, enqueue, modS]
    -- 3: kill_processes returns
    rw [e3, settle_cons_mk]
    simp only [runReady1]
    rw [exec_resume_mk]
    simp [runResume, deliver, bind, getS, removeFrame, enqueue, modS]
    -- 4: the end of _stop
    rw [e4, settle_cons_mk]
    simp only [runReady1]
    rw [e1, exec_resume_mk]
    simp only [runResume]
    rw [stopAfterKill_gone (exec 99999) u (.frame (t + 1) 0) _ a _ w _ [] _ [] dv nid _ hw hst hke hnd hall]
    simp [deliver, bind, getS, removeFrame, enqueue, modS]
    -- 5: stop() returns, the future completes
    rw [e5, settle_cons_mk]
    simp only [runReady1]
    rw [e1, exec_resume_mk]
    simp [runResume, deliver, deliverTop, finishTop, deliverCbs, bind, getS, enqueue, modS, pure]
    -- 6, 7: the slot is released, the reply is written
    rw [e6, settle_cons_mk]
    simp [runReady1, runTopCb, setSlot, modA, modS]
    rw [e7, settle_cons_mk]
    simp [runReady1, runTopCb, sendReply, bind, getA, emitRep, modS, pure]
    cases waiting <;> cases hc : a.ctlClosed <;> simp [replyLog, hc, modS] <;> (rw [e8]; exact settle_nil _ _ rfl)
  rw [stepTail_eq _ (by rw [hset]; exact hls), hset]


/-! ## Part 5: the request step -/

/-- the loop body of `gen.multi`: start child number `i` with slot `i` of the multi frame `fm` -/
def multiBody (rec : Rec) (fm : Nat) : Call → Nat → M (ForInStep Nat) :=
  fun c i s => (ForInStep.yield (i + 1), (rec (.call c (.frame fm i)) s).2)

theorem awaitMulti_cons_unfold (rec : Rec) (c : Call) (cs : List Call) (k : Kont) (wt : Waiter) (s : State) :
    awaitMulti rec (c :: cs) k wt s =
      armFrame s.nextId (armFrame (s.nextId + 1)
        ((forIn (c :: cs) 0 (multiBody rec (s.nextId + 1)) : M Nat)
          { s with frames := s.frames ++ [{ fid := s.nextId, k := k, parent := wt },
                                          { fid := s.nextId + 1, k := .multi (cs.length + 1) [], parent := .frame s.nextId 0 }],
                   nextId := s.nextId + 2 }).2).2 := by
  unfold awaitMulti multiBody
  simp [bind, newFrame, freshId, pushFrame, modS, pure]

theorem awaitMulti_ne (rec : Rec) (cs : List Call) (hne : cs ≠ []) (k : Kont) (wt : Waiter) (s : State) :
    awaitMulti rec cs k wt s =
      armFrame s.nextId (armFrame (s.nextId + 1)
        ((forIn cs 0 (multiBody rec (s.nextId + 1)) : M Nat)
          { s with frames := s.frames ++ [{ fid := s.nextId, k := k, parent := wt },
                                          { fid := s.nextId + 1, k := .multi cs.length [], parent := .frame s.nextId 0 }],
                   nextId := s.nextId + 2 }).2).2 := by
  cases cs with
  | nil => exact absurd rfl hne
  | cons c r => exact awaitMulti_cons_unfold rec c r k wt s

/-- the parked `kill_process` coroutines of the workers `l`, started in this order with multi slots
    `idx, idx+1, …` and frame ids `nid, nid+2, …` at time `now` -/
def entries : List Nat → Nat → Nat → Nat → List QE
  | [], _, _, _ => []
  | p :: r, idx, nid, now => { pid := p, idx := idx, i := 1, fid := nid, dl := now + 100 } :: entries r (idx + 1) (nid + 2) now

/-- the log of the first signals -/
def parkLogs (a : Arbiter) (w : Watcher) : List Nat → List Obs → List Obs
  | [], log => log
  | p :: r, log => parkLogs a w r (evlog a (log ++ [Obs.sig p w.stopSignal .run ""]) w "kill" (some p) "-")

theorem evlog_sig (a : Arbiter) (log : List Obs) (w : Watcher) (pid : Nat) :
    (if a.pubClosed then log ++ [Obs.sig pid w.stopSignal .run ""]
     else log ++ [Obs.sig pid w.stopSignal .run "", Obs.ev (resName w.name) "kill" (some pid) "-"]) =
    evlog a (log ++ [Obs.sig pid w.stopSignal .run ""]) w "kill" (some pid) "-" := by
  unfold evlog
  split <;> simp

/-- **the children of `kill_processes`' `gen.multi`, workers that ignore the stop signal**: each gets the
    signal, is marked stopping and parks on its own 100 ms timer, in order -/
theorem parkAll (n u fm : Nat) (w : Watcher) (a : Arbiter) (tops : List TopFut) (ready : List Ready)
    (dv : List (Nat × Val)) (hw : SOk u w) (hpolls : 0 < pollsOf w.graceful) (l : List Nat) :
    ∀ (idx : Nat) (k : Kernel) (objs : List PObj) (frames : List Frame) (sleepers : List Sleeper) (nid : Nat) (log : List Obs),
      k.Base → l.Nodup →
      (∀ pid ∈ l, pid ∈ w.pids ∧ k.Stub pid ∧
        ∃ o, objs.find? (fun o => decide (o.pid = pid)) = some o ∧ o.stopping = false ∧ o.rc = none) →
      (∀ g ∈ frames, g.fid < nid) →
      (forIn (l.map fun p => Call.killProcess u p none none) idx (multiBody (exec (n + 1)) fm) : M Nat)
          ⟨k, a, objs, [w], frames, sleepers, tops, ready, dv, nid, log, false⟩ =
        (idx + l.length, ⟨k.bump (2 * l.length), a,
          objs.map (fun o => if o.pid ∈ l then { o with stopping := true } else o), [w],
          frames ++ (entries l idx nid k.now).map (qFrame u w.stopSignal (pollsOf w.graceful) fm),
          sleepers ++ (entries l idx nid k.now).map qSleeper, tops, ready, dv, nid + 2 * l.length,
          parkLogs a w l log, false⟩) := by
  induction l with
  | nil =>
    intro idx k objs frames sleepers nid log _ _ _ _
    simp [entries, parkLogs, Kernel.bump, pure]
  | cons p rest ih =>
    intro idx k objs frames sleepers nid log hk hnd hall hfr
    obtain ⟨hp, hs, o, ho, hst, hrc⟩ := hall p (by simp)
    have hnd' := List.nodup_cons.mp hnd
    rw [List.map_cons, List.forIn_cons]
    simp only [bind, multiBody]
    rw [exec_call_mk]
    simp only [runCall]
    rw [killProcess_park (exec n) u p idx fm w o k a objs frames sleepers tops ready dv nid log hw hk hs hp ho hst hrc hpolls
      (fun g hg => by have := hfr g hg; omega)]
    simp only [evlog_sig]
    have hih := ih (idx + 1) (k.bump 2) (objs.map (fun o => if o.pid = p then { o with stopping := true } else o))
      (frames ++ [{ fid := nid, k := .killWait u p w.stopSignal 1 (pollsOf w.graceful), parent := .frame fm idx, armed := true }])
      (sleepers ++ [{ sid := nid + 1, deadline := k.now + 100, waiter := .frame nid 0 }]) (nid + 2)
      (evlog a (log ++ [Obs.sig p w.stopSignal .run ""]) w "kill" (some p) "-") (hk.bump 2) hnd'.2 (by
        intro q hq
        obtain ⟨hq1, hq2, oq, hoq, hq3, hq4⟩ := hall q (by simp [hq])
        have hne : q ≠ p := fun h => hnd'.1 (h ▸ hq)
        refine ⟨hq1, hq2, oq, ?_, hq3, hq4⟩
        rw [find_modO objs p q (fun o => { o with stopping := true }) (fun _ => rfl), hoq]
        have : oq.pid = q := by simpa using List.find?_some hoq
        simp [this, hne]) (by
        intro g hg
        rcases List.mem_append.mp hg with hg | hg
        · have := hfr g hg; omega
        · simp at hg; subst hg; simp)
    rw [hih]
    simp only [entries, parkLogs, List.map_cons, Kernel.bump_bump, List.length_cons, List.map_map, List.append_assoc,
      List.singleton_append]
    have h1 : idx + 1 + rest.length = idx + (rest.length + 1) := by omega
    have h2 : 2 + 2 * rest.length = 2 * (rest.length + 1) := by omega
    have h3 : nid + 2 + 2 * rest.length = nid + 2 * (rest.length + 1) := by omega
    have hobj : List.map ((fun o => if o.pid ∈ rest then { o with stopping := true } else o) ∘
        fun o => if o.pid = p then { o with stopping := true } else o) objs =
        List.map (fun o => if o.pid ∈ p :: rest then { o with stopping := true } else o) objs := by
      apply List.map_congr_left
      intro x _
      simp only [Function.comp, List.mem_cons]
      by_cases hx : x.pid = p <;> by_cases hr : x.pid ∈ rest <;> simp [hx, hr]
    rw [h1, h2, h3, hobj]
    rfl


/-- `get_active_processes` when every listed worker runs: all of them, two status reads each -/
theorem activeLoop_running (l : List Nat) : ∀ (out : List Nat) (s : State), s.k.Calm →
    (∀ pid ∈ l, ∃ p, s.k.find pid = some p ∧ p.st = .run) →
    (forIn l out activeBody : M (List Nat)) s = (out ++ l, s.bump (2 * l.length)) := by
  induction l with
  | nil => intro out s _ _; simp [State.bump_zero]; rfl
  | cons pid rest ih =>
    intro out s hc hrun
    obtain ⟨p, hf, hr⟩ := hrun pid (by simp)
    rw [List.forIn_cons]
    simp only [bind, activeBody]
    rw [procStatus_running s pid p hc hf hr]
    have := ih (out ++ [pid]) (s.bump 2) (Kernel.bump_calm _ 2 hc) (fun q hq => hrun q (by simp [hq]))
    simp [isDead, pure, this, State.bump_bump]
    congr 1
    omega

theorem activeProcs_running (u : Nat) (w : Watcher) (s : State) (hws : s.ws = [w]) (hu : w.uid = u) (hc : s.k.Calm)
    (hrun : ∀ pid ∈ w.pids, ∃ p, s.k.find pid = some p ∧ p.st = .run) :
    activeProcs u s = (w.pids, s.bump (2 * w.pids.length)) := by
  rw [activeProcs_eq, getW_single u w s hws hu]
  simpa using activeLoop_running w.pids [] s hc hrun


theorem entries_mem (l : List Nat) : ∀ (idx nid now : Nat) (e : QE), e ∈ entries l idx nid now →
    nid ≤ e.fid ∧ e.fid + 2 ≤ nid + 2 * l.length ∧ e.dl = now + 100 ∧ e.i = 1 ∧ e.pid ∈ l := by
  induction l with
  | nil => intro _ _ _ e he; cases he
  | cons p r ih =>
    intro idx nid now e he
    simp only [entries, List.mem_cons] at he
    rcases he with rfl | he
    · simp; omega
    · obtain ⟨h1, h2, h3, h4, h5⟩ := ih (idx + 1) (nid + 2) now e he
      simp only [List.length_cons, List.mem_cons]
      exact ⟨by omega, by omega, h3, h4, Or.inr h5⟩

theorem entries_sorted (l : List Nat) : ∀ (idx nid now : Nat), QSorted (entries l idx nid now) := by
  induction l with
  | nil => intro _ _ _; trivial
  | cons p r ih =>
    intro idx nid now
    refine ⟨?_, ih (idx + 1) (nid + 2) now⟩
    intro e he
    obtain ⟨h1, _, h3, _, _⟩ := entries_mem r (idx + 1) (nid + 2) now e he
    simp only
    omega

theorem entries_length (l : List Nat) : ∀ (idx nid now : Nat), (entries l idx nid now).length = l.length := by
  induction l with
  | nil => intro _ _ _; rfl
  | cons p r ih => intro idx nid now; simp [entries, ih]

theorem entries_pids (l : List Nat) : ∀ (idx nid now : Nat), (entries l idx nid now).map (·.pid) = l := by
  induction l with
  | nil => intro _ _ _; rfl
  | cons p r ih => intro idx nid now; simp [entries, ih]


theorem await_eq (rec : Rec) (c : Call) (k : Kont) (wt : Waiter) (s : State) :
    await rec c k wt s =
      armFrame s.nextId
        (rec (.call c (.frame s.nextId 0))
          { s with frames := s.frames ++ [{ fid := s.nextId, k := k, parent := wt }], nextId := s.nextId + 1 }).2 := rfl

/-- **`Watcher.stop()` on an active watcher whose workers ignore the stop signal**: status `stopping`,
    every worker gets the signal and a poll timer; four frames and `m` poll frames are parked -/
theorem pubStop_parks (u t : Nat) (w : Watcher) (k : Kernel) (a : Arbiter) (objs : List PObj) (tops : List TopFut)
    (dv : List (Nat × Val)) (log : List Obs)
    (hw : SOk u w) (hst : w.status = .active) (hne : w.pids ≠ []) (hnd : w.pids.Nodup) (hpolls : 0 < pollsOf w.graceful)
    (hk : k.Base)
    (hall : ∀ pid ∈ w.pids, k.Stub pid ∧
      ∃ o, objs.find? (fun o => decide (o.pid = pid)) = some o ∧ o.stopping = false ∧ o.rc = none) :
    exec 100000 (.call (.pubStop u) (.top t)) ⟨k, a, objs, [w], [], [], tops, [], dv, t + 1, log, false⟩ =
      ((), ⟨(k.bump (2 * w.pids.length)).bump (2 * w.pids.length), a,
        objs.map (fun o => if o.pid ∈ w.pids then { o with stopping := true } else o),
        [{ w with status := .stopping }],
        stopFrames u t w.pids.length [] true ++
          (entries w.pids 0 (t + 5) k.now).map (qFrame u w.stopSignal (pollsOf w.graceful) (t + 4)),
        (entries w.pids 0 (t + 5) k.now).map qSleeper, tops, [], dv, t + 5 + 2 * w.pids.length,
        parkLogs a { w with status := .stopping } w.pids log, false⟩) := by
  obtain ⟨p0, rest, hpids⟩ : ∃ p0 rest, w.pids = p0 :: rest := by
    cases h : w.pids with
    | nil => exact absurd h hne
    | cons p r => exact ⟨p, r, rfl⟩
  have hw' : SOk u { w with status := .stopping } := ⟨hw.uid, hw.hooks, hw.stopChildren, hw.sigNe9⟩
  have e1 : (100000 : Nat) = 99999 + 1 := rfl
  have e2 : (99999 : Nat) = 99998 + 1 := rfl
  have e3 : (99998 : Nat) = 99997 + 1 := rfl
  have e4 : (99997 : Nat) = 99996 + 1 := rfl
  -- the children of the gen.multi
  have hpark := parkAll 99996 u (t + 4) { w with status := .stopping } a tops [] dv hw' hpolls w.pids 0
    (k.bump (2 * w.pids.length)) objs
    [{ fid := t + 1, k := .ignore, parent := .top t },
     { fid := t + 2, k := .stopAfterKill u true, parent := .frame (t + 1) 0 },
     { fid := t + 3, k := .ignore, parent := .frame (t + 2) 0 },
     { fid := t + 4, k := .multi w.pids.length [], parent := .frame (t + 3) 0 }] [] (t + 5) log
    (hk.bump _) hnd (fun pid hp => ⟨hp, (hall pid hp).1, (hall pid hp).2⟩) (by
      intro g hg
      simp only [List.mem_cons, List.mem_nil_iff, or_false] at hg
      rcases hg with rfl | rfl | rfl | rfl <;> simp)
  -- get_active_processes
  have hact : ∀ (frames : List Frame) (nid : Nat), activeProcs u ⟨k, a, objs, [{ w with status := .stopping }], frames, [], tops, [], dv, nid, log, false⟩ =
      (w.pids, ⟨k.bump (2 * w.pids.length), a, objs, [{ w with status := .stopping }], frames, [], tops, [], dv, nid, log, false⟩) := by
    intro frames nid
    exact activeProcs_running u { w with status := .stopping } _ rfl hw.uid hk.calm
      (fun pid hp => by obtain ⟨⟨p, hf, hr, _⟩, _⟩ := hall pid hp; exact ⟨p, hf, hr⟩)
  rw [e1, exec_call_mk]
  simp only [runCall]
  rw [await_eq]
  simp only [List.nil_append]
  rw [e2, exec_call_mk]
  simp only [runCall]
  -- _stop
  have hstopW : stopW (exec 99998) u true (.frame (t + 1) 0)
      ⟨k, a, objs, [w], [{ fid := t + 1, k := .ignore, parent := .top t }], [], tops, [], dv, t + 1 + 1, log, false⟩ =
      await (exec 99998) (.killProcesses u none none) (.stopAfterKill u true) (.frame (t + 1) 0)
        ⟨k, a, objs, [{ w with status := .stopping }], [{ fid := t + 1, k := .ignore, parent := .top t }], [], tops, [], dv,
          t + 1 + 1, log, false⟩ := by
    simp [stopW, bind, getW, hw.uid, hst, setStatus, modW, modS, callHook_mk, hw.hooks]
  rw [hstopW, await_eq]
  simp only [List.cons_append, List.nil_append]
  rw [e3, exec_call_mk]
  simp only [runCall]
  unfold killProcesses
  simp only [bind, hact]
  rw [awaitMulti_ne _ _ (by rw [hpids]; simp)]
  simp only [List.length_map, List.cons_append, List.nil_append]
  erw [hpark]
  have hq : ∀ j, j ≤ t + 4 → List.map (fun (g : Frame) => if g.fid = j then { g with armed := true } else g)
      ((entries w.pids 0 (t + 5) (k.bump (2 * w.pids.length)).now).map (qFrame u w.stopSignal (pollsOf w.graceful) (t + 4))) =
      (entries w.pids 0 (t + 5) (k.bump (2 * w.pids.length)).now).map (qFrame u w.stopSignal (pollsOf w.graceful) (t + 4)) := by
    intro j hj
    apply arm_id
    intro g hg
    obtain ⟨e, he, rfl⟩ := List.mem_map.mp hg
    have := (entries_mem w.pids 0 (t + 5) _ e he).1
    simp [qFrame]; omega
  have hq4 := hq (t + 1 + 1 + 1 + 1) (by omega)
  have hq3 := hq (t + 1 + 1 + 1) (by omega)
  have hq2 := hq (t + 1 + 1) (by omega)
  have hq1 := hq (t + 1) (by omega)
  simp only [armFrame, modS, List.map_append, hq4, hq3, hq2, hq1]
  simp [stopFrames, Kernel.bump]

/-! ## Part 5b: the `stop` request -/


/-- the `stop` request for the watcher called `name` -/
def stopReq (name : String) (waiting : Bool) : JVal :=
  .obj [("command", .str "stop"),
        ("properties", .obj [("name", .str name), ("match", .str "simple"), ("waiting", .bool waiting)])]

def stopProps (name : String) (waiting : Bool) : JVal :=
  .obj [("name", .str name), ("match", .str "simple"), ("waiting", .bool waiting)]

theorem ve_stop (name : String) (waiting : Bool) (u : Nat) (s : State) (hn : s.a.names.lookup (pyLower name) = some u)
    (hr : s.a.restarting = false) (hs : s.a.slot = none) :
    validateExecute "stop" (stopProps name waiting) s =
      (.ok (.future s.nextId (if waiting then "none" else "")),
        (armTop s.nextId (exec fuelDefault (.call (.pubStop u) (.top s.nextId))
          { s with a := { s.a with slot := some "watcher_stop" },
                   tops := s.tops ++ [{ tid := s.nextId, cbs := [.release] }],
                   nextId := s.nextId + 1 }).2).2) := by
  have hm : matchWatchers (stopProps name waiting) s = (.ok [u], s) := by
    simp [matchWatchers, stopProps, JVal.get?, List.lookup, bind, getWatcherCmd, lookupWatcher, getA, hn, pure, Except.map]
  unfold validateExecute
  simp only [stopProps] at hm
  simp [requiredProps, bind, execSSR, stopProps, JVal.has, JVal.get?, List.lookup, JVal.truthy, hm,
    syncCoroutine_free _ _ _ hr hs, pure, Except.map]

/-- the log after the immediate `ok` of a request that does not wait -/
def ackLog (a : Arbiter) (cid : String) (waiting : Bool) (log : List Obs) : List Obs :=
  if waiting = false ∧ a.ctlClosed = false then log ++ [Obs.rep cid .null "ok" "-" "-"] else log

/-- **the `stop` request for an active watcher whose workers ignore the stop signal**: accepted, the slot
    taken, every worker signalled, `m` poll timers; a request that does not wait is answered at once -/
theorem req_stop_parks (cid name : String) (waiting : Bool) (u t : Nat) (w : Watcher) (k : Kernel) (a : Arbiter)
    (objs : List PObj) (dv : List (Nat × Val)) (log : List Obs)
    (hn : a.names.lookup (pyLower name) = some u) (hr : a.restarting = false) (hsl : a.slot = none)
    (hls : a.loopStop = false)
    (hw : SOk u w) (hst : w.status = .active) (hne : w.pids ≠ []) (hnd : w.pids.Nodup) (hpolls : 0 < pollsOf w.graceful)
    (hk : k.Base)
    (hall : ∀ pid ∈ w.pids, k.Stub pid ∧
      ∃ o, objs.find? (fun o => decide (o.pid = pid)) = some o ∧ o.stopping = false ∧ o.rc = none) :
    step ⟨k, a, objs, [w], [], [], [], [], dv, t, log, false⟩ (.req cid (some (stopReq name waiting))) =
      killing u t w.pids.length w.stopSignal (pollsOf w.graceful)
        [.release, .reply (some cid) .null false "stop" waiting (if waiting then "none" else "")] []
        (entries w.pids 0 (t + 5) k.now)
        ((k.beginStep.bump (2 * w.pids.length)).bump (2 * w.pids.length)) { a with slot := some "watcher_stop" }
        (objs.map (fun o => if o.pid ∈ w.pids then { o with stopping := true } else o))
        { w with status := .stopping } [] (t + 5 + 2 * w.pids.length)
        (ackLog a cid waiting (parkLogs { a with slot := some "watcher_stop" } { w with status := .stopping } w.pids log)) := by
  have hl : pyLower "stop" = "stop" := by decide +kernel
  have hve := ve_stop name waiting u ⟨k.beginStep, a, objs, [w], [], [], [], [], [], t, log, false⟩ hn hr hsl
  have hps := pubStop_parks u t w k.beginStep { a with slot := some "watcher_stop" } objs
    [{ tid := t, cbs := [.release] }] [] log hw hst hne hnd hpolls hk.beginStep hall
  have hfd : fuelDefault = 100000 := rfl
  simp only [stopProps, List.nil_append, hfd, hps] at hve
  unfold step
  rw [stepM_eq _ _ rfl]
  have hop : stepOp (.req cid (some (stopReq name waiting)))
      (updK Kernel.beginStep (⟨k, a, objs, [w], [], [], [], [], dv, t, log, false⟩ : State)).2 =
      ((), killing u t w.pids.length w.stopSignal (pollsOf w.graceful)
        [.release, .reply (some cid) .null false "stop" waiting (if waiting then "none" else "")] []
        (entries w.pids 0 (t + 5) k.now)
        ((k.beginStep.bump (2 * w.pids.length)).bump (2 * w.pids.length)) { a with slot := some "watcher_stop" }
        (objs.map (fun o => if o.pid ∈ w.pids then { o with stopping := true } else o))
        { w with status := .stopping } [] (t + 5 + 2 * w.pids.length)
        (ackLog a cid waiting (parkLogs { a with slot := some "watcher_stop" } { w with status := .stopping } w.pids log))) := by
    simp only [stepOp, updK, runK]
    unfold handleMessage stopReq
    simp [JVal.isObj, JVal.get?, List.lookup, hl, commandNames, JVal.truthy, bind, clearDone, modS, hve]
    have hnow : k.beginStep.now = k.now := rfl
    cases waiting <;> cases hc : a.ctlClosed <;>
      simp [hc, armTop, addDoneCallback, topAddCb, sendReply, emitRep, modS, getS, getA, bind, pure, killing, ackLog, hnow]
  rw [hop]
  have e1 : (100000 : Nat) = 99999 + 1 := rfl
  rw [stepTail_eq _ (by rw [e1, settle_nil _ _ rfl]; exact hls)]
  rw [e1, settle_nil _ _ rfl]


/-! ## Part 6: the invariant of the polling phase and the induction over the timer firings -/

/-- SIGKILLs in the log -/
def killCount (log : List Obs) : Nat := log.countP fun o => match o with | .sig _ 9 _ _ => true | _ => false
/-- replies in the log (C06's `repCount` on a log) -/
def repC (log : List Obs) : Nat := log.countP Obs.isRep

/-- polls still to come, plus the escalation, over all parked `kill_process` coroutines -/
def qMeasure (polls : Nat) (Q : List QE) : Nat := (Q.map fun e => polls - e.i + 1).sum

theorem killCount_evlog (a : Arbiter) (log : List Obs) (w : Watcher) (t : String) (p : Option Nat) (x : String) :
    killCount (evlog a log w t p x) = killCount log := by
  unfold evlog; split <;> simp [killCount, List.countP_append]

theorem repC_evlog (a : Arbiter) (log : List Obs) (w : Watcher) (t : String) (p : Option Nat) (x : String) :
    repC (evlog a log w t p x) = repC log := by
  unfold evlog; split <;> simp [repC, List.countP_append, Obs.isRep]

theorem killCount_reapLogs (a : Arbiter) (w : Watcher) (l : List Nat) : ∀ log, killCount (reapLogs a w l log) = killCount log := by
  induction l with
  | nil => intro _; rfl
  | cons p r ih => intro log; simp only [reapLogs]; rw [ih, killCount_evlog]

theorem repC_reapLogs (a : Arbiter) (w : Watcher) (l : List Nat) : ∀ log, repC (reapLogs a w l log) = repC log := by
  induction l with
  | nil => intro _; rfl
  | cons p r ih => intro log; simp only [reapLogs]; rw [ih, repC_evlog]

theorem killCount_parkLogs (a : Arbiter) (w : Watcher) (hs : w.stopSignal ≠ 9) (l : List Nat) :
    ∀ log, killCount (parkLogs a w l log) = killCount log := by
  induction l with
  | nil => intro _; rfl
  | cons p r ih =>
    intro log; simp only [parkLogs]; rw [ih, killCount_evlog]
    simp [killCount, List.countP_append, List.countP_cons]
    split
    · next h => injection h with _ h2; exact absurd h2 hs
    · rfl

theorem repC_parkLogs (a : Arbiter) (w : Watcher) (l : List Nat) : ∀ log, repC (parkLogs a w l log) = repC log := by
  induction l with
  | nil => intro _; rfl
  | cons p r ih =>
    intro log; simp only [parkLogs]; rw [ih, repC_evlog]
    simp [repC, List.countP_append, Obs.isRep]

/-- the data invariant of the polling phase -/
structure KI (NZ : Prop) (t polls : Nat) (w : Watcher) (kc rc : Nat) (results : List (Nat × Val)) (Q : List QE) (k : Kernel)
    (objs : List PObj) (nid : Nat) (log : List Obs) : Prop where
  base : k.Base
  sorted : QSorted Q
  ids : ∀ e ∈ Q, t + 4 < e.fid ∧ e.fid < nid
  dls : ∀ e ∈ Q, e.dl ≤ k.now + 100
  iub : ∀ e ∈ Q, e.i ≤ polls
  nodup : (Q.map (·.pid)).Nodup
  live : ∀ e ∈ Q, e.pid ∈ w.pids ∧ k.Stub e.pid ∧
    ∃ o, objs.find? (fun o => decide (o.pid = e.pid)) = some o ∧ o.rc = none
  done : ∀ q ∈ w.pids, q ∉ Q.map (·.pid) → k.GoneP q ∧
    ∃ o, objs.find? (fun o => decide (o.pid = q)) = some o ∧ o.rc = some (-9)
  count : results.length + Q.length = w.pids.length
  res : ∀ r ∈ results, r.2 = Val.bool true
  kills : killCount log = kc + results.length
  reps : repC log = rc
  nz : NZ → ∀ p ∈ k.procs, p.st ≠ .zombie

theorem QSorted.snoc : ∀ (tl : List QE) (e : QE), QSorted tl → (∀ x ∈ tl, x.dl ≤ e.dl ∧ x.fid < e.fid) → QSorted (tl ++ [e])
  | [], e, _, _ => ⟨fun _ h => (by cases h), trivial⟩
  | x :: r, e, hs, h => by
    refine ⟨?_, QSorted.snoc r e hs.2 (fun y hy => h y (by simp [hy]))⟩
    intro y hy
    rcases List.mem_append.mp hy with hy | hy
    · exact hs.1 y hy
    · simp only [List.mem_singleton] at hy; subst hy; exact h x (by simp)

/-- a poll that finds the worker alive keeps the invariant; one unit of the measure is used -/
theorem KI.repark {NZ : Prop} {t polls : Nat} {w : Watcher} {kc rc : Nat} {results : List (Nat × Val)} {h : QE} {tl : List QE}
    {k : Kernel} {objs : List PObj} {nid : Nat} {log : List Obs}
    (I : KI NZ t polls w kc rc results (h :: tl) k objs nid log) (hi : h.i < polls) :
    KI NZ t polls w kc rc results (tl ++ [{ h with i := h.i + 1, fid := nid, dl := max k.now h.dl + 100 }])
      (({ k.beginStep with now := max k.now h.dl } : Kernel).bump 1) objs (nid + 2) log ∧
    qMeasure polls (tl ++ [{ h with i := h.i + 1, fid := nid, dl := max k.now h.dl + 100 }]) + 1 =
      qMeasure polls (h :: tl) := by
  have hnow : (({ k.beginStep with now := max k.now h.dl } : Kernel).bump 1).now = max k.now h.dl := rfl
  refine ⟨⟨(I.base.beginStep.setNow_base _).bump 1, ?_, ?_, ?_, ?_, ?_, ?_, ?_, ?_, I.res, I.kills, I.reps, I.nz⟩, ?_⟩
  · apply QSorted.snoc _ _ I.sorted.2
    intro x hx
    have h1 := I.dls x (by simp [hx])
    have h2 := I.ids x (by simp [hx])
    simp only
    omega
  · intro e he
    rcases List.mem_append.mp he with he | he
    · have := I.ids e (by simp [he]); omega
    · simp only [List.mem_singleton] at he; subst he
      have := I.ids h (by simp); simp only; omega
  · intro e he
    rw [hnow]
    rcases List.mem_append.mp he with he | he
    · have := I.dls e (by simp [he]); omega
    · simp only [List.mem_singleton] at he; subst he; simp only; omega
  · intro e he
    rcases List.mem_append.mp he with he | he
    · exact I.iub e (by simp [he])
    · simp only [List.mem_singleton] at he; subst he; simp only; omega
  · have := I.nodup
    simp only [List.map_cons, List.nodup_cons] at this
    simp only [List.map_append, List.map_cons, List.map_nil]
    rw [List.nodup_append]
    refine ⟨this.2, by simp, ?_⟩
    intro x hx y hy
    simp only [List.mem_singleton] at hy; subst hy
    intro hxy; subst hxy; exact this.1 hx
  · intro e he
    rcases List.mem_append.mp he with he | he
    · exact I.live e (by simp [he])
    · simp only [List.mem_singleton] at he; subst he; exact I.live h (by simp)
  · intro q hq hnq
    apply I.done q hq
    intro hc; apply hnq
    simp only [List.map_cons, List.mem_cons] at hc
    simp only [List.map_append, List.map_cons, List.map_nil, List.mem_append, List.mem_singleton]
    rcases hc with hc | hc
    · exact Or.inr hc
    · exact Or.inl hc
  · have := I.count; simp only [List.length_cons, List.length_append, List.length_nil] at this ⊢; omega
  · simp only [qMeasure, List.map_append, List.map_cons, List.map_nil, List.sum_append, List.sum_cons, List.sum_nil]
    omega

theorem killCount_killLog (a : Arbiter) (log : List Obs) (w : Watcher) (pid : Nat) :
    killCount (evlog a (log ++ [Obs.sig pid 9 .run ""]) w "kill" (some pid) "-" ++ [Obs.reap pid 9]) = killCount log + 1 := by
  have : killCount (evlog a (log ++ [Obs.sig pid 9 .run ""]) w "kill" (some pid) "-" ++ [Obs.reap pid 9]) =
      killCount (evlog a (log ++ [Obs.sig pid 9 .run ""]) w "kill" (some pid) "-") := by
    simp [killCount, List.countP_append]
  rw [this, killCount_evlog]
  simp [killCount, List.countP_append]

theorem repC_killLog (a : Arbiter) (log : List Obs) (w : Watcher) (pid : Nat) :
    repC (evlog a (log ++ [Obs.sig pid 9 .run ""]) w "kill" (some pid) "-" ++ [Obs.reap pid 9]) = repC log := by
  have : repC (evlog a (log ++ [Obs.sig pid 9 .run ""]) w "kill" (some pid) "-" ++ [Obs.reap pid 9]) =
      repC (evlog a (log ++ [Obs.sig pid 9 .run ""]) w "kill" (some pid) "-") := by
    simp [repC, List.countP_append, Obs.isRep]
  rw [this, repC_evlog]
  simp [repC, List.countP_append, Obs.isRep]

/-- the facts about the workers after the escalation of `h` -/
theorem KI.after_kill {NZ : Prop} {t polls : Nat} {w : Watcher} {kc rc : Nat} {results : List (Nat × Val)} {h : QE} {tl : List QE}
    {k : Kernel} {objs : List PObj} {nid : Nat} {log : List Obs}
    (I : KI NZ t polls w kc rc results (h :: tl) k objs nid log) :
    (∀ e ∈ tl, e.pid ∈ w.pids ∧ (({ k.beginStep with now := max k.now h.dl } : Kernel).escalated h.pid).Stub e.pid ∧
      ∃ o, (objs.map (fun o => if o.pid = h.pid then { o with stopping := false, rc := some (-9) } else o)).find?
        (fun o => decide (o.pid = e.pid)) = some o ∧ o.rc = none) ∧
    (∀ q ∈ w.pids, q ∉ tl.map (·.pid) → (({ k.beginStep with now := max k.now h.dl } : Kernel).escalated h.pid).GoneP q ∧
      ∃ o, (objs.map (fun o => if o.pid = h.pid then { o with stopping := false, rc := some (-9) } else o)).find?
        (fun o => decide (o.pid = q)) = some o ∧ o.rc = some (-9)) := by
  have hkb : (({ k.beginStep with now := max k.now h.dl } : Kernel)).Base := I.base.beginStep.setNow_base _
  obtain ⟨hp, hs, o, ho, hrc⟩ := I.live h (by simp)
  have hsb : (({ k.beginStep with now := max k.now h.dl } : Kernel)).Stub h.pid := hs
  have hopid : o.pid = h.pid := by simpa using List.find?_some ho
  have hnd := I.nodup
  simp only [List.map_cons, List.nodup_cons] at hnd
  constructor
  · intro e he
    obtain ⟨hp', hs', o', ho', hrc'⟩ := I.live e (by simp [he])
    have hne : e.pid ≠ h.pid := fun hc => hnd.1 (hc ▸ List.mem_map.mpr ⟨e, he, rfl⟩)
    refine ⟨hp', ?_, o', ?_, hrc'⟩
    · obtain ⟨p, hf, hrest⟩ := hs'
      exact ⟨p, by rw [Kernel.escalated_find_other hkb hsb hne]; exact hf, hrest⟩
    · rw [find_modO objs h.pid e.pid (fun o => { o with stopping := false, rc := some (-9) }) (fun _ => rfl), ho']
      have : o'.pid = e.pid := by simpa using List.find?_some ho'
      simp [this, hne]
  · intro q hq hnq
    by_cases hqh : q = h.pid
    · subst hqh
      refine ⟨Kernel.escalated_find_self hkb hsb, { o with stopping := false, rc := some (-9) }, ?_, rfl⟩
      rw [find_modO objs h.pid h.pid (fun o => { o with stopping := false, rc := some (-9) }) (fun _ => rfl), ho]
      simp [hopid]
    · obtain ⟨⟨p, hf, hg⟩, o', ho', hrc'⟩ := I.done q hq (by
        simp only [List.map_cons, List.mem_cons, not_or]; exact ⟨hqh, hnq⟩)
      refine ⟨⟨p, ?_, hg⟩, o', ?_, hrc'⟩
      · rw [Kernel.escalated_find_other hkb hsb hqh]; exact hf
      · rw [find_modO objs h.pid q (fun o => { o with stopping := false, rc := some (-9) }) (fun _ => rfl), ho']
        have : o'.pid = q := by simpa using List.find?_some ho'
        simp [this, hqh]

/-- an escalation that is not the last keeps the invariant -/
theorem KI.kill {NZ : Prop} {t polls : Nat} {w : Watcher} {kc rc : Nat} {results : List (Nat × Val)} {h : QE} {tl : List QE}
    {k : Kernel} {objs : List PObj} {nid : Nat} {log : List Obs} (a : Arbiter)
    (I : KI NZ t polls w kc rc results (h :: tl) k objs nid log) :
    KI NZ t polls w kc rc (results ++ [(h.idx, Val.bool true)]) tl
      (({ k.beginStep with now := max k.now h.dl } : Kernel).escalated h.pid)
      (objs.map (fun o => if o.pid = h.pid then { o with stopping := false, rc := some (-9) } else o)) nid
      (evlog a (log ++ [Obs.sig h.pid 9 .run ""]) w "kill" (some h.pid) "-" ++ [Obs.reap h.pid 9]) := by
  have hkb : (({ k.beginStep with now := max k.now h.dl } : Kernel)).Base := I.base.beginStep.setNow_base _
  have hsb : (({ k.beginStep with now := max k.now h.dl } : Kernel)).Stub h.pid := (I.live h (by simp)).2.1
  have hnow : (({ k.beginStep with now := max k.now h.dl } : Kernel).escalated h.pid).now = max k.now h.dl := rfl
  have hnd := I.nodup
  simp only [List.map_cons, List.nodup_cons] at hnd
  refine ⟨Kernel.escalated_base hkb hsb, I.sorted.2, fun e he => I.ids e (by simp [he]), ?_,
    fun e he => I.iub e (by simp [he]), hnd.2, I.after_kill.1, I.after_kill.2, ?_, ?_, ?_, ?_,
    fun hnz => Kernel.escalated_nozombie hkb hsb (I.nz hnz)⟩
  · intro e he; rw [hnow]; have := I.dls e (by simp [he]); omega
  · have := I.count; simp only [List.length_cons, List.length_append, List.length_nil] at this ⊢; omega
  · intro r hr
    rcases List.mem_append.mp hr with hr | hr
    · exact I.res r hr
    · simp only [List.mem_singleton] at hr; subst hr; rfl
  · rw [killCount_killLog, I.kills]; simp only [List.length_append, List.length_cons, List.length_nil]; omega
  · rw [repC_killLog, I.reps]

theorem killCount_replyLog (a : Arbiter) (cid : String) (mid : JVal) (waiting : Bool) (xform : String) (log : List Obs) :
    killCount (replyLog a cid mid waiting xform log) = killCount log := by
  unfold replyLog; split <;> simp [killCount, List.countP_append]

theorem repC_replyLog (a : Arbiter) (cid : String) (mid : JVal) (waiting : Bool) (xform : String) (log : List Obs) :
    repC (replyLog a cid mid waiting xform log) = repC log + (if waiting = true ∧ a.ctlClosed = false then 1 else 0) := by
  unfold replyLog; split <;> simp [repC, List.countP_append, Obs.isRep]

theorem killCount_ackLog (a : Arbiter) (cid : String) (waiting : Bool) (log : List Obs) :
    killCount (ackLog a cid waiting log) = killCount log := by
  unfold ackLog; split <;> simp [killCount, List.countP_append]

theorem repC_ackLog (a : Arbiter) (cid : String) (waiting : Bool) (log : List Obs) :
    repC (ackLog a cid waiting log) = repC log + (if waiting = false ∧ a.ctlClosed = false then 1 else 0) := by
  unfold ackLog; split <;> simp [repC, List.countP_append, Obs.isRep]

/-- the polling phase of the `stop` command with `n` timer firings to go -/
def Mid (NZ : Prop) (u t polls : Nat) (w : Watcher) (a : Arbiter) (cbs : List TopCb) (dv : List (Nat × Val)) (kc rc n : Nat)
    (s : State) : Prop :=
  ∃ results Q k objs nid log,
    s = killing u t w.pids.length w.stopSignal polls cbs results Q k a objs w dv nid log ∧
    KI NZ t polls w kc rc results Q k objs nid log ∧ qMeasure polls Q = n

/-- the `stop` command is complete: the watcher (was `w`) is `stopped` with an empty list, nothing in flight,
    the slot free, every worker of `w` gone from the kernel, `kc` SIGKILLs and `rc` replies in the log -/
structure StopDone (NZ : Prop) (w : Watcher) (a : Arbiter) (kc rc : Nat) (s : State) : Prop where
  ws : s.ws = [{ w with pids := [], status := .stopped }]
  arb : s.a = { a with slot := none }
  frames : s.frames = []
  sleepers : s.sleepers = []
  tops : s.tops = []
  ready : s.ready = []
  blocked : s.blocked = false
  base : s.k.Base
  gone : ∀ q ∈ w.pids, s.k.GoneP q
  kills : killCount s.log = kc
  reps : repC s.log = rc
  nz : NZ → ∀ p ∈ s.k.procs, p.st ≠ .zombie

theorem qMeasure_pos (polls : Nat) : ∀ Q : List QE, Q ≠ [] → 0 < qMeasure polls Q
  | [], h => absurd rfl h
  | e :: r, _ => by simp only [qMeasure, List.map_cons, List.sum_cons]; omega

/-- a timer firing that is not the last one -/
theorem mid_step (NZ : Prop) (u t polls : Nat) (w : Watcher) (a : Arbiter) (cbs : List TopCb) (dv : List (Nat × Val)) (kc rc n : Nat)
    (s : State) (hw : SOk u w) (hls : a.loopStop = false)
    (hm : Mid NZ u t polls w a cbs dv kc rc (n + 2) s) : Mid NZ u t polls w a cbs dv kc rc (n + 1) (step s .wake) := by
  obtain ⟨results, Q, k, objs, nid, log, rfl, I, hq⟩ := hm
  cases Q with
  | nil => simp [qMeasure] at hq
  | cons h tl =>
    obtain ⟨hp, hs, o, ho, hrc⟩ := I.live h (by simp)
    by_cases hi : h.i < polls
    · obtain ⟨p, hf, hr, _⟩ := hs
      refine ⟨results, _, _, objs, nid + 2, log,
        wake_repark u t w.pids.length w.stopSignal polls cbs results h tl k a objs w dv nid log I.base p hf hr o ho hrc hi
          I.sorted (I.ids h (by simp)).1 (fun e he => (I.ids e he).2) hls, (I.repark hi).1, ?_⟩
      have := (I.repark hi).2; omega
    · have hq' : qMeasure polls tl = n + 1 := by
        have hub := I.iub h (by simp)
        simp only [qMeasure, List.map_cons, List.sum_cons] at hq ⊢; omega
      have htl : tl ≠ [] := by rintro rfl; simp [qMeasure] at hq'
      have hlen : 0 < tl.length := List.length_pos_iff.mpr htl
      refine ⟨_, tl, _, _, nid, _,
        wake_kill_more u t w.pids.length polls cbs results h tl k a objs w dv nid log hw I.base hs hp o ho hrc hi
          I.sorted (I.ids h (by simp)).1 ?_ hls, I.kill a, hq'⟩
      have := I.count
      simp only [List.length_cons, List.length_append, List.length_nil] at this ⊢; omega

/-- the last timer firing -/
theorem mid_last (NZ : Prop) (u t polls : Nat) (w : Watcher) (a : Arbiter) (cid : String) (mid : JVal) (waiting : Bool) (xform : String)
    (dv : List (Nat × Val)) (kc rc : Nat) (s : State) (hw : SOk u w) (hst : w.status ≠ .stopped) (hnd : w.pids.Nodup)
    (hls : a.loopStop = false)
    (hm : Mid NZ u t polls w a [.release, .reply (some cid) mid false "stop" waiting xform] dv kc rc 1 s) :
    StopDone NZ w a (kc + w.pids.length) (rc + (if waiting = true ∧ a.ctlClosed = false then 1 else 0)) (step s .wake) := by
  obtain ⟨results, Q, k, objs, nid, log, rfl, I, hq⟩ := hm
  cases Q with
  | nil => simp [qMeasure] at hq
  | cons h tl =>
    obtain ⟨hp, hs, o, ho, hrc⟩ := I.live h (by simp)
    have hub := I.iub h (by simp)
    have htl : tl = [] := by
      by_contra hc
      have := qMeasure_pos polls tl hc
      simp only [qMeasure, List.map_cons, List.sum_cons] at hq this; omega
    subst htl
    have hi : ¬ h.i < polls := by
      simp only [qMeasure, List.map_cons, List.map_nil, List.sum_cons, List.sum_nil] at hq; omega
    have hcount := I.count
    simp only [List.length_cons, List.length_nil] at hcount
    have hkb : (({ k.beginStep with now := max k.now h.dl } : Kernel)).Base := I.base.beginStep.setNow_base _
    have hsb : (({ k.beginStep with now := max k.now h.dl } : Kernel)).Stub h.pid := hs
    rw [wake_kill_last u t w.pids.length polls cid mid waiting xform results h k a objs w dv nid log hw hst hnd I.base hs hp
      o ho hrc hi (I.ids h (by simp)).1 I.res (by simp only [List.length_append, List.length_cons, List.length_nil]; omega) hls
      (fun q hq hne => I.done q hq (by simp [hne]))]
    refine ⟨rfl, rfl, rfl, rfl, rfl, rfl, rfl, (Kernel.escalated_base hkb hsb).bump _, ?_, ?_, ?_,
      fun hnz => Kernel.escalated_nozombie hkb hsb (I.nz hnz)⟩
    · intro q hq
      exact (I.after_kill.2 q hq (by simp)).1
    · show killCount (replyLog _ _ _ _ _ _) = _
      rw [killCount_replyLog, killCount_evlog, killCount_reapLogs, killCount_killLog, I.kills]; omega
    · show repC (replyLog _ _ _ _ _ _) = _
      rw [repC_replyLog, repC_evlog, repC_reapLogs, repC_killLog, I.reps]

/-- all the timer firings of the polling phase: `n` firings before the last one stay in the polling phase
    (so nothing is answered), the last one completes the command -/
theorem mid_run (NZ : Prop) (u t polls : Nat) (w : Watcher) (a : Arbiter) (cid : String) (mid : JVal) (waiting : Bool) (xform : String)
    (dv : List (Nat × Val)) (kc rc : Nat) (hw : SOk u w) (hst : w.status ≠ .stopped) (hnd : w.pids.Nodup)
    (hls : a.loopStop = false) : ∀ (n : Nat) (s : State),
    Mid NZ u t polls w a [.release, .reply (some cid) mid false "stop" waiting xform] dv kc rc (n + 1) s →
    (∀ j ≤ n, Mid NZ u t polls w a [.release, .reply (some cid) mid false "stop" waiting xform] dv kc rc (n + 1 - j)
      (run s (List.replicate j .wake))) ∧
    StopDone NZ w a (kc + w.pids.length) (rc + (if waiting = true ∧ a.ctlClosed = false then 1 else 0))
      (run s (List.replicate (n + 1) .wake)) := by
  intro n
  induction n with
  | zero =>
    intro s hm
    refine ⟨fun j hj => ?_, mid_last NZ u t polls w a cid mid waiting xform dv kc rc s hw hst hnd hls hm⟩
    have : j = 0 := by omega
    subst this; exact hm
  | succ n ih =>
    intro s hm
    have h1 := mid_step NZ u t polls w a _ dv kc rc n s hw hls hm
    obtain ⟨ih1, ih2⟩ := ih (step s .wake) h1
    refine ⟨fun j hj => ?_, ?_⟩
    · cases j with
      | zero => exact hm
      | succ j =>
        rw [List.replicate_succ, run_cons]
        have := ih1 j (by omega)
        rwa [show n + 1 + 1 - (j + 1) = n + 1 - j by omega]
    · rw [List.replicate_succ, run_cons]; exact ih2

theorem find_map_pid (objs : List PObj) (q : Nat) (f : PObj → PObj) (hf : ∀ o, (f o).pid = o.pid) :
    (objs.map f).find? (fun o => decide (o.pid = q)) = (objs.find? (fun o => decide (o.pid = q))).map f := by
  induction objs with
  | nil => rfl
  | cons x xs ih =>
    simp only [List.map_cons, List.find?_cons, hf]
    split
    · rfl
    · exact ih

theorem qMeasure_entries (polls : Nat) (hp : 0 < polls) (l : List Nat) : ∀ (idx nid now : Nat),
    qMeasure polls (entries l idx nid now) = l.length * polls := by
  induction l with
  | nil => intro _ _ _; simp [entries, qMeasure]
  | cons p r ih =>
    intro idx nid now
    have := ih (idx + 1) (nid + 2) now
    simp only [qMeasure, entries, List.map_cons, List.sum_cons, List.length_cons] at this ⊢
    rw [this, Nat.add_mul]; omega

/-- the hypotheses on the data: one watcher object `w` (identity `u`, active, no hooks, does not signal
    children, stop signal not SIGKILL) whose listed workers all run, ignore the stop signal, die at once on
    SIGKILL, and have fresh process objects; a kernel with nothing pending in which every process is a child of the daemon -/
structure Stubborn (u : Nat) (w : Watcher) (s : State) : Prop where
  ws : s.ws = [w]
  blocked : s.blocked = false
  ok : SOk u w
  active : w.status = .active
  nodup : w.pids.Nodup
  base : s.k.Base
  procs : ∀ pid ∈ w.pids, s.k.Stub pid ∧
    ∃ o, s.objs.find? (fun o => decide (o.pid = pid)) = some o ∧ o.stopping = false ∧ o.rc = none

/-- the request step of `stop` leads into the polling phase with `m * polls` firings to go -/
theorem req_stop_mid (NZ : Prop) (cid name : String) (waiting : Bool) (u : Nat) (w : Watcher) (s : State)
    (hi : Idle u s) (hd : Stubborn u w s) (hn : s.a.names.lookup (pyLower name) = some u)
    (hne : w.pids ≠ []) (hpolls : 0 < pollsOf w.graceful) (hnz : NZ → ∀ p ∈ s.k.procs, p.st ≠ .zombie) :
    Mid NZ u s.nextId (pollsOf w.graceful) { w with status := .stopping } { s.a with slot := some "watcher_stop" }
      [.release, .reply (some cid) .null false "stop" waiting (if waiting then "none" else "")] []
      (killCount s.log) (repC s.log + (if waiting = false ∧ s.a.ctlClosed = false then 1 else 0))
      (w.pids.length * pollsOf w.graceful) (step s (.req cid (some (stopReq name waiting)))) := by
  obtain ⟨k, a, objs, ws, frames, sleepers, tops, ready, dv, t, log, blocked⟩ := s
  obtain ⟨hf, hsl, ht, hr, hslot, hls, _, hrs, _⟩ := hi
  obtain ⟨hws, hb, hw, hst, hnd, hk, hall⟩ := hd
  simp only at hf hsl ht hr hslot hls hrs hws hb hk hall hn hnz
  subst hf hsl ht hr hws hb
  rw [req_stop_parks cid name waiting u t w k a objs dv log hn hrs hslot hls hw hst hne hnd hpolls hk hall]
  dsimp only
  refine ⟨[], _, _, _, _, _, rfl, ?_, qMeasure_entries _ hpolls _ _ _ _⟩
  refine ⟨(hk.beginStep.bump _).bump _, entries_sorted _ _ _ _, ?_, ?_, ?_, ?_, ?_, ?_, ?_, ?_, ?_, ?_, hnz⟩
  · intro e he; have := entries_mem _ _ _ _ e he; omega
  · intro e he; have := entries_mem _ _ _ _ e he
    show e.dl ≤ k.now + 100
    omega
  · intro e he; have := entries_mem _ _ _ _ e he; omega
  · rw [entries_pids]; exact hnd
  · intro e he
    have hm := (entries_mem _ _ _ _ e he).2.2.2.2
    obtain ⟨hs, o, ho, _, hrc⟩ := hall e.pid hm
    refine ⟨hm, hs, (if o.pid ∈ w.pids then { o with stopping := true } else o), ?_, ?_⟩
    · rw [find_map_pid objs e.pid _ (fun o => by split <;> rfl), ho]; rfl
    · split <;> exact hrc
  · intro q hq hnq
    rw [entries_pids] at hnq; exact absurd hq hnq
  · simp [entries_length]
  · intro r hr; cases hr
  · rw [killCount_ackLog, killCount_parkLogs _ { w with status := .stopping } hw.sigNe9]; rfl
  · rw [repC_ackLog, repC_parkLogs]

theorem Mid.reps {NZ : Prop} {u t polls : Nat} {w : Watcher} {a : Arbiter} {cbs : List TopCb} {dv : List (Nat × Val)} {kc rc n : Nat}
    {s : State} (h : Mid NZ u t polls w a cbs dv kc rc n s) : repC s.log = rc ∧ killCount s.log ≤ kc + w.pids.length := by
  obtain ⟨results, Q, k, objs, nid, log, rfl, I, _⟩ := h
  refine ⟨I.reps, ?_⟩
  show killCount log ≤ _
  rw [I.kills]; have := I.count; omega

theorem SOk.stopping {u : Nat} {w : Watcher} (h : SOk u w) : SOk u { w with status := .stopping } :=
  ⟨h.uid, h.hooks, h.stopChildren, h.sigNe9⟩

/-- **`stop` completes (workers that ignore the stop signal)**: the request and exactly
    `m * ⌈graceful/100 ms⌉` timer firings end with the command complete; before the last firing the
    only reply is the immediate `ok` of a request that does not wait -/
theorem stop_run_stubborn (NZ : Prop) (cid name : String) (waiting : Bool) (u : Nat) (w : Watcher) (s : State)
    (hi : Idle u s) (hd : Stubborn u w s) (hn : s.a.names.lookup (pyLower name) = some u)
    (hne : w.pids ≠ []) (hpolls : 0 < pollsOf w.graceful) (hnz : NZ → ∀ p ∈ s.k.procs, p.st ≠ .zombie) :
    StopDone NZ { w with status := .stopping } { s.a with slot := some "watcher_stop" }
      (killCount s.log + w.pids.length) (repC s.log + (if s.a.ctlClosed = false then 1 else 0))
      (run s (.req cid (some (stopReq name waiting)) :: List.replicate (w.pids.length * pollsOf w.graceful) .wake)) ∧
    ∀ j < w.pids.length * pollsOf w.graceful,
      repC (run s (.req cid (some (stopReq name waiting)) :: List.replicate j .wake)).log =
        repC s.log + (if waiting = false ∧ s.a.ctlClosed = false then 1 else 0) := by
  have hmid := req_stop_mid NZ cid name waiting u w s hi hd hn hne hpolls hnz
  have hpos : 0 < w.pids.length * pollsOf w.graceful :=
    Nat.mul_pos (List.length_pos_iff.mpr hne) hpolls
  obtain ⟨n, hn'⟩ : ∃ n, w.pids.length * pollsOf w.graceful = n + 1 := ⟨_, (Nat.succ_pred_eq_of_pos hpos).symm⟩
  rw [hn'] at hmid ⊢
  obtain ⟨h1, h2⟩ := mid_run NZ u s.nextId (pollsOf w.graceful) { w with status := .stopping }
    { s.a with slot := some "watcher_stop" } cid .null waiting _ [] _ _ hd.ok.stopping (by simp) hd.nodup hi.loopStop n _ hmid
  constructor
  · rw [run_cons]
    have : (repC s.log + (if waiting = false ∧ s.a.ctlClosed = false then 1 else 0) +
        (if waiting = true ∧ ({ s.a with slot := some "watcher_stop" } : Arbiter).ctlClosed = false then 1 else 0)) =
        repC s.log + (if s.a.ctlClosed = false then 1 else 0) := by
      cases waiting <;> simp
    rw [← this]; exact h2
  · intro j hj
    rw [run_cons]
    exact (h1 j (by omega)).reps.1


/-! ## Part 7: workers that obey the stop signal -/

/-- a running worker that dies at once on a terminating signal -/
def Kernel.Obed (k : Kernel) (pid : Nat) : Prop :=
  ∃ p, k.find pid = some p ∧ p.st = .run ∧ p.behav.term = some 0

/-- the kernel after a terminating signal `sig` to an obedient worker: it is a zombie -/
def Kernel.termed (k : Kernel) (pid sig : Nat) : Kernel :=
  ((k.bump 1).doomAt pid ((k.bump 1).now) (wstatSig sig)).dead pid (wstatSig sig)

theorem Kernel.Obed.pid_ne_zero {k : Kernel} (hb : k.Base) {pid : Nat} (hs : k.Obed pid) : pid ≠ 0 := by
  obtain ⟨p, hf, _⟩ := hs
  rw [← Kernel.find_pid hf]
  exact hb.pidpos p (Kernel.find_mem hf)

theorem Kernel.kill_term {k : Kernel} (hb : k.Base) {pid : Nat} (hs : k.Obed pid) {sig : Nat}
    (h9 : sig ≠ 9) (h0 : sig ≠ 0) (hni : sig ∉ Kernel.ignoredSignals) :
    k.kill pid sig = (k.termed pid sig, .run) := by
  obtain ⟨p, hf, hr, ht⟩ := hs
  unfold Kernel.kill
  simp only [hb.tick, Kernel.bump_find, hf, hr, ht]
  simp [h9, h0, hni]
  have hpm : p ∈ k.procs := Kernel.find_mem hf
  have hpp := Kernel.find_pid hf
  have hfd : ((k.bump 1).doomAt pid ((k.bump 1).now) (wstatSig sig)).find pid =
      some { p with doom := some ((k.bump 1).now, wstatSig sig) } := by
    rw [Kernel.find_map_procs (k.bump 1) (fun q => if q.pid = pid then
        (match q.doom with
          | some (d, _) => if (k.bump 1).now < d then { q with doom := some ((k.bump 1).now, wstatSig sig) } else q
          | none => { q with doom := some ((k.bump 1).now, wstatSig sig) }) else q) ?_ _ rfl pid]
    · rw [Kernel.bump_find, hf]
      simp [hpp, hb.nodoom p hpm]
    · intro q
      split
      · split
        · split <;> rfl
        · rfl
      · rfl
  rw [Kernel.resolve_due _ pid ((k.bump 1).now) (wstatSig sig) _ hfd rfl hr (by simp [Kernel.doomAt, Kernel.upd])]
  · rfl
  · intro q hq hne
    simp only [Kernel.doomAt, Kernel.upd] at hq
    obtain ⟨q0, hq0, rfl⟩ := List.mem_map.mp hq
    by_cases h : q0.pid = pid
    · exfalso
      apply hne
      simp only [h, if_true]
      split
      · split <;> first | rfl | exact h
      · rfl
    · simp only [h, if_false]
      exact hb.nodoom q0 hq0

theorem Kernel.termed_procs {k : Kernel} (hb : k.Base) (pid sig : Nat) (hpid : pid ≠ 0) :
    (k.termed pid sig).procs =
      k.procs.map (fun q => if q.pid = pid then { q with doom := none, status := wstatSig sig, st := .zombie } else q) := by
  simp only [Kernel.termed, Kernel.dead, Kernel.doomAt, Kernel.upd, Kernel.bump, List.map_map]
  apply List.map_congr_left
  intro q hq
  have h1 := hb.daemonKid q hq
  have h2 := hb.nodoom q hq
  simp only [Function.comp]
  by_cases h : q.pid = pid
  · simp [h, h1, h2]
  · have hne : ¬ q.ppid = some pid := by
      rw [h1]; intro hc
      simp at hc
      exact hpid hc.symm
    simp [h, hne]

theorem Kernel.termed_base {k : Kernel} (hb : k.Base) {pid : Nat} (sig : Nat) (hpid : pid ≠ 0) : (k.termed pid sig).Base := by
  have hp := Kernel.termed_procs hb pid sig hpid
  refine ⟨hb.armed, hb.faults, ?_, ?_, ?_, ?_⟩ <;>
  · intro p hpm
    rw [hp] at hpm
    obtain ⟨q, hq, rfl⟩ := List.mem_map.mp hpm
    split
    · first | rfl | exact hb.daemonKid q hq | exact hb.pidpos q hq | exact hb.signalable q hq
    · first | exact hb.nodoom q hq | exact hb.daemonKid q hq | exact hb.pidpos q hq | exact hb.signalable q hq

theorem Kernel.termed_find {k : Kernel} (hb : k.Base) {pid : Nat} (sig : Nat) (hpid : pid ≠ 0) (q : Nat) :
    (k.termed pid sig).find q =
      (k.find q).map (fun p => if p.pid = pid then { p with doom := none, status := wstatSig sig, st := .zombie } else p) :=
  Kernel.find_map_procs k _ (fun p => by split <;> rfl) _ (Kernel.termed_procs hb pid sig hpid) q

/-- the kernel after the stop signal to an obedient worker and the `waitpid` that collects it -/
def Kernel.obeyed (k : Kernel) (pid sig : Nat) : Kernel := (k.termed pid sig).reaped pid

theorem Kernel.obeyed_base {k : Kernel} (hk : k.Base) {pid : Nat} (hs : k.Obed pid) (sig : Nat) : (k.obeyed pid sig).Base :=
  Kernel.reaped_base (Kernel.termed_base hk sig (Kernel.Obed.pid_ne_zero hk hs)) pid

theorem Kernel.obeyed_find_other {k : Kernel} (hk : k.Base) {pid : Nat} (hs : k.Obed pid) (sig : Nat) {q : Nat} (hq : q ≠ pid) :
    (k.obeyed pid sig).find q = k.find q := by
  unfold Kernel.obeyed
  rw [Kernel.reaped_find, Kernel.termed_find hk sig (Kernel.Obed.pid_ne_zero hk hs)]
  cases hf : k.find q with
  | none => rfl
  | some p =>
    have hp := Kernel.find_pid hf
    have hne : ¬ p.pid = pid := by rw [hp]; exact hq
    simp [hne]

theorem Kernel.obeyed_find_self {k : Kernel} (hk : k.Base) {pid : Nat} (hs : k.Obed pid) (sig : Nat) :
    (k.obeyed pid sig).GoneP pid := by
  obtain ⟨p, hf, h2⟩ := hs
  have hs' : k.Obed pid := ⟨p, hf, h2⟩
  have hp := Kernel.find_pid hf
  unfold Kernel.obeyed Kernel.GoneP
  rw [Kernel.reaped_find, Kernel.termed_find hk sig (Kernel.Obed.pid_ne_zero hk hs'), hf]
  exact ⟨_, rfl, by simp [hp]⟩

theorem Kernel.obeyed_nozombie {k : Kernel} (hk : k.Base) {pid : Nat} (hs : k.Obed pid) (sig : Nat)
    (hz : ∀ p ∈ k.procs, p.st ≠ .zombie) : ∀ p ∈ (k.obeyed pid sig).procs, p.st ≠ .zombie := by
  intro p hp
  have h1 : (k.obeyed pid sig).procs = (k.termed pid sig).procs.map
      (fun q => if q.pid = pid then { q with st := .gone } else q) := rfl
  rw [h1, Kernel.termed_procs hk pid sig (Kernel.Obed.pid_ne_zero hk hs)] at hp
  obtain ⟨q1, hq1, rfl⟩ := List.mem_map.mp hp
  obtain ⟨q, hq, rfl⟩ := List.mem_map.mp hq1
  by_cases h : q.pid = pid
  · simp [h]
  · simp only [h, if_false]
    exact hz q hq

/-- the watcher being stopped, for obedient workers: as `SOk`, and the stop signal is a real, terminating one -/
structure TOk (u : Nat) (w : Watcher) : Prop where
  ok : SOk u w
  ne0 : w.stopSignal ≠ 0
  heard : w.stopSignal ∉ Kernel.ignoredSignals

section mk3
variable (k : Kernel) (a : Arbiter) (objs : List PObj) (w : Watcher) (frames : List Frame) (sleepers : List Sleeper)
  (tops : List TopFut) (ready : List Ready) (dv : List (Nat × Val)) (nid : Nat) (log : List Obs)

/-- the stop signal to an obedient worker: it is a zombie at once -/
theorem sendSignal_term_mk (u pid : Nat) (hw : TOk u w) (hk : k.Base) (hs : k.Obed pid) (hp : pid ∈ w.pids) :
    sendSignal u pid w.stopSignal ⟨k, a, objs, [w], frames, sleepers, tops, ready, dv, nid, log, false⟩ =
      (.ok, ⟨k.termed pid w.stopSignal, a, objs, [w], frames, sleepers, tops, ready, dv, nid,
        log ++ [Obs.sig pid w.stopSignal .run ""], false⟩) := by
  have hkk : kKill pid w.stopSignal "" ⟨k, a, objs, [w], frames, sleepers, tops, ready, dv, nid, log, false⟩ =
      (.ok, ⟨k.termed pid w.stopSignal, a, objs, [w], frames, sleepers, tops, ready, dv, nid,
        log ++ [Obs.sig pid w.stopSignal .run ""], false⟩) := by
    simp [kKill, bind, runK, hk.killD, Kernel.kill_term hk hs hw.ok.sigNe9 hw.ne0 hw.heard, emit, modS, Obs.isRep, Obs.isEv, pure,
      SigRes.of]
  simp [sendSignal, bind, getW, hw.ok.uid, hp, callHook_mk, hw.ok.hooks, hkk, pure]

/-- `poll()` on a zombie: collected, the exit code cached -/
theorem isAlive_zombie_mk (pid : Nat) (o : PObj) (p : KProc) (hk : k.Base) (hf : k.find pid = some p) (hz : p.st = .zombie)
    (ho : objs.find? (fun o => decide (o.pid = pid)) = some o) (hrc : o.rc = none) :
    isAlive pid ⟨k, a, objs, [w], frames, sleepers, tops, ready, dv, nid, log, false⟩ =
      (false, ⟨k.reaped pid, a, objs.map (fun o => if o.pid = pid then { o with rc := some (exitCodeOf p.status) } else o), [w],
        frames, sleepers, tops, ready, dv, nid, log ++ [Obs.reap pid p.status], false⟩) := by
  have hw := Kernel.waitpid_zombie hk hf hz
  have hkw : kWaitpid (some pid) ⟨k, a, objs, [w], frames, sleepers, tops, ready, dv, nid, log, false⟩ =
      (.got pid p.status, ⟨k.reaped pid, a, objs, [w], frames, sleepers, tops, ready, dv, nid, log ++ [Obs.reap pid p.status], false⟩) := by
    simp [kWaitpid, bind, runK, hw, emit, modS, Obs.isRep, Obs.isEv, pure]
  simp [isAlive, bind, getO, ho, hrc, hkw, setRc, modO, modS, pure]

/-- `poll()` on a process object whose exit code is cached -/
theorem isAlive_cached_mk (pid : Nat) (o : PObj) (c : Int)
    (ho : objs.find? (fun o => decide (o.pid = pid)) = some o) (hrc : o.rc = some c) :
    isAlive pid ⟨k, a, objs, [w], frames, sleepers, tops, ready, dv, nid, log, false⟩ =
      (false, ⟨k, a, objs, [w], frames, sleepers, tops, ready, dv, nid, log, false⟩) := by
  simp [isAlive, bind, getO, ho, hrc, pure]

end mk3

/-- **`kill_process` on an obedient worker**: the stop signal kills it, the first poll collects it, nothing to
    escalate; the result goes to the waiter -/
theorem killProcess_obed (rec : Rec) (u pid : Nat) (wt : Waiter) (w : Watcher) (o : PObj) (k : Kernel) (a : Arbiter)
    (objs : List PObj) (frames : List Frame) (sleepers : List Sleeper) (tops : List TopFut) (ready : List Ready)
    (dv : List (Nat × Val)) (nid : Nat) (log : List Obs)
    (hw : TOk u w) (hk : k.Base) (hs : k.Obed pid) (hp : pid ∈ w.pids)
    (ho : objs.find? (fun o => decide (o.pid = pid)) = some o) (hst : o.stopping = false) (hrc : o.rc = none)
    (hpolls : 0 < pollsOf w.graceful) :
    killProcess rec u pid none none wt ⟨k, a, objs, [w], frames, sleepers, tops, ready, dv, nid, log, false⟩ =
      deliver rec wt (.bool true) ⟨k.obeyed pid w.stopSignal, a,
        objs.map (fun o => if o.pid = pid then { o with stopping := false, rc := some (exitCodeOf (wstatSig w.stopSignal)) } else o),
        [w], frames, sleepers, tops, ready, dv, nid,
        evlog a (log ++ [Obs.sig pid w.stopSignal .run ""]) w "kill" (some pid) "-" ++ [Obs.reap pid (wstatSig w.stopSignal)],
        false⟩ := by
  obtain ⟨p, hf, hr, ht⟩ := hs
  have hs' : k.Obed pid := ⟨p, hf, hr, ht⟩
  have hpid := Kernel.Obed.pid_ne_zero hk hs'
  have hpp := Kernel.find_pid hf
  have hopid : o.pid = pid := by simpa using List.find?_some ho
  have hkt := Kernel.termed_base hk w.stopSignal hpid
  have hf2 : (k.termed pid w.stopSignal).find pid = some { p with doom := none, status := wstatSig w.stopSignal, st := .zombie } := by
    rw [Kernel.termed_find hk w.stopSignal hpid, hf]; simp [hpp]
  have hoo : (objs.map fun o => if o.pid = pid then { o with stopping := true } else o).find? (fun o => decide (o.pid = pid)) =
      some { o with stopping := true } := by
    rw [find_modO objs pid pid (fun o => { o with stopping := true }) (fun _ => rfl), ho]
    simp [hopid]
  have h1 := sendSignal_term_mk k a objs w frames sleepers tops ready dv nid log u pid hw hk hs' hp
  have h2 := isAlive_zombie_mk (k.termed pid w.stopSignal) a
    (objs.map fun o => if o.pid = pid then { o with stopping := true } else o) w frames sleepers tops ready dv nid
    (evlog a (log ++ [Obs.sig pid w.stopSignal .run ""]) w "kill" (some pid) "-") pid { o with stopping := true } _ hkt hf2 rfl hoo hrc
  have hoo3 : ((objs.map fun o => if o.pid = pid then { o with stopping := true } else o).map
        (fun o => if o.pid = pid then { o with rc := some (exitCodeOf (wstatSig w.stopSignal)) } else o)).map
        (fun o => if o.pid = pid then { o with stopping := false } else o) =
      objs.map (fun o => if o.pid = pid then { o with stopping := false, rc := some (exitCodeOf (wstatSig w.stopSignal)) } else o) := by
    simp only [List.map_map]
    apply List.map_congr_left
    intro x _
    by_cases h : x.pid = pid <;> simp [h]
  have hoo4 : (objs.map (fun o => if o.pid = pid then { o with stopping := false, rc := some (exitCodeOf (wstatSig w.stopSignal)) } else o)).find?
      (fun o => decide (o.pid = pid)) = some { o with stopping := false, rc := some (exitCodeOf (wstatSig w.stopSignal)) } := by
    rw [find_modO objs pid pid (fun o => { o with stopping := false, rc := some (exitCodeOf (wstatSig w.stopSignal)) }) (fun _ => rfl), ho]
    simp [hopid]
  have h3 := isAlive_cached_mk ((k.termed pid w.stopSignal).reaped pid) a
    (objs.map (fun o => if o.pid = pid then { o with stopping := false, rc := some (exitCodeOf (wstatSig w.stopSignal)) } else o))
    w frames sleepers tops ready dv nid
    (evlog a (log ++ [Obs.sig pid w.stopSignal .run ""]) w "kill" (some pid) "-" ++ [Obs.reap pid (wstatSig w.stopSignal)])
    pid _ _ hoo4 rfl
  have hg := getW_mk k a objs w frames sleepers tops ready dv nid log u hw.ok.uid
  have hn := notify_mk (k.termed pid w.stopSignal) a objs w frames sleepers tops ready dv nid
    (log ++ [Obs.sig pid w.stopSignal .run ""]) u hw.ok.uid "kill" (some pid) "-"
  unfold killProcess
  simp only [bind, hg, getO, ho, Option.getD_some, hst, hw.ok.stopChildren, Option.getD_none, Bool.false_eq_true, ↓reduceIte, h1,
    hn, pure, Bool.not_true, setObjStopping, modO, modS, reduceCtorEq]
  unfold killLoop
  simp only [bind, hpolls, ↓reduceIte, h2, Bool.false_eq_true]
  unfold killFinish
  simp only [bind, Bool.false_eq_true, ↓reduceIte, setObjStopping, modO, modS, hoo3, pure, Bool.not_true]
  unfold objStop
  simp only [bind, h3, Bool.false_eq_true, ↓reduceIte, pure]
  rfl

/-- the `reap` events of `reap_processes` over workers whose cached exit code is `c` -/
def reapLogsC (a : Arbiter) (w : Watcher) (c : Int) : List Nat → List Obs → List Obs
  | [], log => log
  | pid :: rest, log => reapLogsC a w c rest (evlog a log w "reap" (some pid) (toString c))

theorem reapLogsC_name (a : Arbiter) (w w' : Watcher) (c : Int) (h : w'.name = w.name) (l : List Nat) :
    ∀ log, reapLogsC a w' c l log = reapLogsC a w c l log := by
  induction l with
  | nil => intro log; rfl
  | cons p rest ih =>
    intro log
    simp only [reapLogsC, evlog, h]
    exact ih _

theorem reapLoop_goneC (u : Nat) (c : Int) (a : Arbiter) (objs : List PObj) (frames : List Frame) (sleepers : List Sleeper)
    (tops : List TopFut) (ready : List Ready) (dv : List (Nat × Val)) (nid : Nat) (l : List Nat) :
    ∀ (k : Kernel) (w : Watcher) (log : List Obs), w.uid = u → w.hooks = [] → k.Base → l.Nodup →
      (∀ pid ∈ l, pid ∈ w.pids ∧ k.GoneP pid ∧ ∃ o, objs.find? (fun o => decide (o.pid = pid)) = some o ∧ o.rc = some c) →
      (forIn l PUnit.unit (reapBody u) : M PUnit) ⟨k, a, objs, [w], frames, sleepers, tops, ready, dv, nid, log, false⟩ =
        (PUnit.unit, ⟨k.bump l.length, a, objs, [{ w with pids := w.pids.filter (fun p => decide (p ∉ l)) }], frames,
          sleepers, tops, ready, dv, nid, reapLogsC a w c l log, false⟩) := by
  induction l with
  | nil =>
    intro k w log _ _ _ _ _
    simp [Kernel.bump, reapLogsC, pure]
    have : List.filter (fun _ => true) w.pids = w.pids := List.filter_eq_self.mpr (fun _ _ => rfl)
    rw [this]
  | cons pid rest ih =>
    intro k w log hu hh hk hnd hall
    obtain ⟨hp, ⟨p, hf, hg⟩, o, ho, hrc⟩ := hall pid (by simp)
    have hnd' := List.nodup_cons.mp hnd
    rw [List.forIn_cons]
    simp only [bind]
    rw [reapBody_open u pid _ (by simp)]
    rw [reapProcess_gone_mk k a objs w frames sleepers tops ready dv nid log u pid o p c hu hh hk hf hg hp ho hrc]
    simp only
    have := ih (k.bump 1) { w with pids := w.pids.filter (· ≠ pid) } (evlog a log w "reap" (some pid) (toString c)) hu hh (hk.bump 1) hnd'.2 (by
      intro q hq
      obtain ⟨hq1, hq2, hq3⟩ := hall q (by simp [hq])
      refine ⟨?_, hq2, hq3⟩
      have hne : q ≠ pid := fun h => hnd'.1 (h ▸ hq)
      simp [hq1, hne])
    rw [this]
    rw [reapLogsC_name a w { w with pids := w.pids.filter (· ≠ pid) } c rfl rest]
    simp only [Kernel.bump_bump, List.length_cons, reapLogsC, List.filter_filter]
    have hfl : List.filter (fun x => decide (x ∉ rest) && decide (x ≠ pid)) w.pids =
        List.filter (fun p => decide (p ∉ pid :: rest)) w.pids := by
      apply List.filter_congr
      intro x _
      by_cases h1 : x ∈ rest <;> by_cases h2 : x = pid <;> simp [h1, h2]
    rw [hfl, Nat.add_comm 1 rest.length]

/-- **the end of `_stop`, every worker dead and waited for with exit code `c`** -/
theorem stopAfterKill_goneC (rec : Rec) (u : Nat) (c : Int) (wt : Waiter) (k : Kernel) (a : Arbiter) (objs : List PObj) (w : Watcher)
    (frames : List Frame) (sleepers : List Sleeper) (tops : List TopFut) (ready : List Ready) (dv : List (Nat × Val))
    (nid : Nat) (log : List Obs)
    (hw : SOk u w) (hst : w.status ≠ .stopped) (hk : k.Base) (hnd : w.pids.Nodup)
    (hall : ∀ pid ∈ w.pids, k.GoneP pid ∧ ∃ o, objs.find? (fun o => decide (o.pid = pid)) = some o ∧ o.rc = some c) :
    stopAfterKill rec u true wt ⟨k, a, objs, [w], frames, sleepers, tops, ready, dv, nid, log, false⟩ =
      deliver rec wt .unit ⟨k.bump w.pids.length, a, objs, [{ w with pids := [], status := .stopped }], frames, sleepers,
        tops, ready, dv, nid, evlog a (reapLogsC a w c w.pids log) w "stop" none "-", false⟩ := by
  have hreap : reapProcesses u ⟨k, a, objs, [w], frames, sleepers, tops, ready, dv, nid, log, false⟩ =
      ((), ⟨k.bump w.pids.length, a, objs, [{ w with pids := [] }], frames, sleepers, tops, ready, dv, nid,
        reapLogsC a w c w.pids log, false⟩) := by
    have hbody : reapProcesses u ⟨k, a, objs, [w], frames, sleepers, tops, ready, dv, nid, log, false⟩ =
        (forIn w.pids PUnit.unit (reapBody u) : M PUnit) ⟨k, a, objs, [w], frames, sleepers, tops, ready, dv, nid, log, false⟩ := by
      unfold reapProcesses
      simp only [bind]
      rw [getW_mk _ _ _ _ _ _ _ _ _ _ _ u hw.uid]
      erw [if_neg hst]
      rfl
    rw [hbody, reapLoop_goneC u c a objs frames sleepers tops ready dv nid w.pids k w log hw.uid hw.hooks hk hnd
      (fun pid hp => ⟨hp, (hall pid hp).1, (hall pid hp).2⟩), filter_not_mem_self]
  rw [stopAfterKill_eq]
  simp only [bind, stopCore, hreap]
  simp [notify_mk, hw.uid, setStatus, modW, modS, callHook_mk, hw.hooks, evlog]

/-- a child of a `gen.multi` that is still being built returns, others are missing: the result is recorded -/
theorem deliver_multi_record (rec : Rec) (u t m idx : Nat) (v : Val) (results : List (Nat × Val)) (k : Kernel) (a : Arbiter)
    (objs : List PObj) (ws : List Watcher) (sleepers : List Sleeper) (tops : List TopFut) (ready : List Ready)
    (dv : List (Nat × Val)) (nid : Nat) (log : List Obs) (hlt : results.length + 1 < m) :
    deliver rec (.frame (t + 4) idx) v ⟨k, a, objs, ws, stopFrames u t m results false, sleepers, tops, ready, dv, nid, log, false⟩ =
      ((), ⟨k, a, objs, ws, stopFrames u t m (results ++ [(idx, v)]) false, sleepers, tops, ready, dv, nid, log, false⟩) := by
  have hn : ¬ m ≤ results.length + 1 := by omega
  simp [deliver, bind, getS, stopFrames, setFrameK, modS, hn]

/-- the last child of a `gen.multi` that is still being built returns: the list goes to the parent, in place -/
theorem deliver_multi_last (rec : Rec) (u t m idx : Nat) (v : Val) (results : List (Nat × Val)) (k : Kernel) (a : Arbiter)
    (objs : List PObj) (ws : List Watcher) (sleepers : List Sleeper) (tops : List TopFut) (ready : List Ready)
    (dv : List (Nat × Val)) (nid : Nat) (log : List Obs) (hge : m ≤ results.length + 1) :
    deliver rec (.frame (t + 4) idx) v ⟨k, a, objs, ws, stopFrames u t m results false, sleepers, tops, ready, dv, nid, log, false⟩ =
      rec (.resume .pass (multiResult m (results ++ [(idx, v)])) (.frame (t + 3) 0))
        ⟨k, a, objs, ws,
          [{ fid := t + 1, k := .ignore, parent := .top t },
           { fid := t + 2, k := .stopAfterKill u true, parent := .frame (t + 1) 0 },
           { fid := t + 3, k := .ignore, parent := .frame (t + 2) 0 }], sleepers, tops, ready, dv, nid, log, false⟩ := by
  simp [deliver, bind, getS, stopFrames, removeFrame, modS, hge]

/-- **`kill_processes` returns while `stop()` is still in its first, eager run**: `_stop` finishes (reap,
    `stop` event, status), `stop` returns, the future completes and releases the slot, all in place -/
theorem unwind_stop (n u t : Nat) (c : Int) (vs : List Val) (k : Kernel) (a : Arbiter) (objs : List PObj) (w : Watcher)
    (dv : List (Nat × Val)) (nid : Nat) (log : List Obs)
    (hw : SOk u w) (hst : w.status ≠ .stopped) (hk : k.Base) (hnd : w.pids.Nodup)
    (hall : ∀ pid ∈ w.pids, k.GoneP pid ∧ ∃ o, objs.find? (fun o => decide (o.pid = pid)) = some o ∧ o.rc = some c) :
    exec (n + 4) (.resume .pass (.list vs) (.frame (t + 3) 0))
        ⟨k, a, objs, [w],
          [{ fid := t + 1, k := .ignore, parent := .top t },
           { fid := t + 2, k := .stopAfterKill u true, parent := .frame (t + 1) 0 },
           { fid := t + 3, k := .ignore, parent := .frame (t + 2) 0 }], [], [{ tid := t, cbs := [.release] }], [], dv, nid, log, false⟩ =
      ((), ⟨k.bump w.pids.length, { a with slot := none }, objs, [{ w with pids := [], status := .stopped }], [], [], [], [],
        (t, Val.unit) :: dv, nid, evlog a (reapLogsC a w c w.pids log) w "stop" none "-", false⟩) := by
  rw [show n + 4 = (n + 3) + 1 from rfl, exec_resume_mk]
  simp [runResume, deliver, bind, getS, removeFrame, modS]
  rw [show n + 3 = (n + 2) + 1 from rfl, exec_resume_mk]
  simp [runResume, deliver, bind, getS, removeFrame, modS]
  rw [show n + 2 = (n + 1) + 1 from rfl, exec_resume_mk]
  simp only [runResume]
  rw [stopAfterKill_goneC (exec (n + 1)) u c (.frame (t + 1) 0) k a objs w _ [] _ [] dv nid log hw hst hk hnd hall]
  simp [deliver, bind, getS, removeFrame, modS]
  rw [exec_resume_mk]
  simp [runResume, deliver, deliverTop, finishTop, deliverCbs, runTopCb, setSlot, modA, bind, getS, modS, pure]

/-- the kernel after the obedient workers `l` got the signal and were collected, one after the other -/
def Kernel.obeyedAll (k : Kernel) (sig : Nat) : List Nat → Kernel
  | [] => k
  | p :: r => Kernel.obeyedAll (k.obeyed p sig) sig r

theorem Kernel.obeyedAll_facts (sig : Nat) (l : List Nat) : ∀ (k : Kernel), k.Base → l.Nodup → (∀ pid ∈ l, k.Obed pid) →
    (k.obeyedAll sig l).Base ∧ (∀ q, q ∉ l → (k.obeyedAll sig l).find q = k.find q) ∧
    (∀ q ∈ l, (k.obeyedAll sig l).GoneP q) ∧
    ((∀ p ∈ k.procs, p.st ≠ .zombie) → ∀ p ∈ (k.obeyedAll sig l).procs, p.st ≠ .zombie) := by
  induction l with
  | nil => intro k hk _ _; exact ⟨hk, fun _ _ => rfl, fun _ h => (by cases h), fun h => h⟩
  | cons p r ih =>
    intro k hk hnd hall
    have hnd' := List.nodup_cons.mp hnd
    have hp := hall p (by simp)
    have hr : ∀ pid ∈ r, (k.obeyed p sig).Obed pid := by
      intro pid hpid
      obtain ⟨x, hf, hx⟩ := hall pid (by simp [hpid])
      have hne : pid ≠ p := fun h => hnd'.1 (h ▸ hpid)
      exact ⟨x, by rw [Kernel.obeyed_find_other hk hp sig hne]; exact hf, hx⟩
    obtain ⟨h1, h2, h3, h4⟩ := ih (k.obeyed p sig) (Kernel.obeyed_base hk hp sig) hnd'.2 hr
    refine ⟨h1, ?_, ?_, fun hz => h4 (Kernel.obeyed_nozombie hk hp sig hz)⟩
    · intro q hq
      simp only [List.mem_cons, not_or] at hq
      show ((k.obeyed p sig).obeyedAll sig r).find q = _
      rw [h2 q hq.2, Kernel.obeyed_find_other hk hp sig hq.1]
    · intro q hq
      show ((k.obeyed p sig).obeyedAll sig r).GoneP q
      simp only [List.mem_cons] at hq
      by_cases hqr : q ∈ r
      · exact h3 q hqr
      · have hqp : q = p := by rcases hq with h | h; exact h; exact absurd h hqr
        subst hqp
        obtain ⟨x, hf, hg⟩ := Kernel.obeyed_find_self hk hp sig
        exact ⟨x, by rw [h2 q hqr]; exact hf, hg⟩

/-- the log of stopping the obedient workers `l` -/
def obedLogs (a : Arbiter) (w : Watcher) : List Nat → List Obs → List Obs
  | [], log => log
  | p :: r, log => obedLogs a w r
      (evlog a (log ++ [Obs.sig p w.stopSignal .run ""]) w "kill" (some p) "-" ++ [Obs.reap p (wstatSig w.stopSignal)])

/-- the recorded results of the children with slots `idx, idx+1, …` -/
def idxResults : List Nat → Nat → List (Nat × Val)
  | [], _ => []
  | _ :: r, idx => (idx, Val.bool true) :: idxResults r (idx + 1)

theorem idxResults_length (l : List Nat) : ∀ idx, (idxResults l idx).length = l.length := by
  induction l with
  | nil => intro _; rfl
  | cons p r ih => intro idx; simp [idxResults, ih]

theorem idxResults_bools (l : List Nat) : ∀ idx, ∀ r ∈ idxResults l idx, r.2 = Val.bool true := by
  induction l with
  | nil => intro _ r hr; cases hr
  | cons p rest ih =>
    intro idx r hr
    simp only [idxResults, List.mem_cons] at hr
    rcases hr with rfl | hr
    · rfl
    · exact ih _ r hr

/-- **the children of `kill_processes`' `gen.multi`, obedient workers, not the last one**: each dies on the
    signal, is collected by the first poll, and its result is recorded in the multi frame -/
theorem obedAll (n u t m : Nat) (w : Watcher) (a : Arbiter) (sleepers : List Sleeper) (tops : List TopFut) (ready : List Ready)
    (dv : List (Nat × Val)) (nid : Nat) (hw : TOk u w) (hpolls : 0 < pollsOf w.graceful) (l : List Nat) :
    ∀ (idx : Nat) (k : Kernel) (objs : List PObj) (results : List (Nat × Val)) (log : List Obs),
      k.Base → l.Nodup →
      (∀ pid ∈ l, pid ∈ w.pids ∧ k.Obed pid ∧
        ∃ o, objs.find? (fun o => decide (o.pid = pid)) = some o ∧ o.stopping = false ∧ o.rc = none) →
      results.length + l.length < m →
      (forIn (l.map fun p => Call.killProcess u p none none) idx (multiBody (exec (n + 1)) (t + 4)) : M Nat)
          ⟨k, a, objs, [w], stopFrames u t m results false, sleepers, tops, ready, dv, nid, log, false⟩ =
        (idx + l.length, ⟨k.obeyedAll w.stopSignal l, a,
          objs.map (fun o => if o.pid ∈ l then { o with stopping := false, rc := some (exitCodeOf (wstatSig w.stopSignal)) } else o),
          [w], stopFrames u t m (results ++ idxResults l idx) false, sleepers, tops, ready, dv, nid,
          obedLogs a w l log, false⟩) := by
  induction l with
  | nil =>
    intro idx k objs results log _ _ _ _
    simp [idxResults, obedLogs, Kernel.obeyedAll, pure]
  | cons p rest ih =>
    intro idx k objs results log hk hnd hall hlen
    obtain ⟨hp, hs, o, ho, hst, hrc⟩ := hall p (by simp)
    have hnd' := List.nodup_cons.mp hnd
    simp only [List.length_cons] at hlen
    rw [List.map_cons, List.forIn_cons]
    simp only [bind, multiBody]
    rw [exec_call_mk]
    simp only [runCall]
    rw [killProcess_obed (exec n) u p (.frame (t + 4) idx) w o k a objs _ sleepers tops ready dv nid log hw hk hs hp ho hst hrc hpolls]
    rw [deliver_multi_record (exec n) u t m idx (.bool true) results _ a _ [w] sleepers tops ready dv nid _ (by omega)]
    have hih := ih (idx + 1) (k.obeyed p w.stopSignal)
      (objs.map (fun o => if o.pid = p then { o with stopping := false, rc := some (exitCodeOf (wstatSig w.stopSignal)) } else o))
      (results ++ [(idx, Val.bool true)])
      (evlog a (log ++ [Obs.sig p w.stopSignal .run ""]) w "kill" (some p) "-" ++ [Obs.reap p (wstatSig w.stopSignal)])
      (Kernel.obeyed_base hk hs _) hnd'.2 (by
        intro q hq
        obtain ⟨hq1, ⟨x, hf, hx⟩, oq, hoq, hq3, hq4⟩ := hall q (by simp [hq])
        have hne : q ≠ p := fun h => hnd'.1 (h ▸ hq)
        refine ⟨hq1, ⟨x, by rw [Kernel.obeyed_find_other hk hs _ hne]; exact hf, hx⟩, oq, ?_, hq3, hq4⟩
        rw [find_modO objs p q (fun o => { o with stopping := false, rc := some (exitCodeOf (wstatSig w.stopSignal)) }) (fun _ => rfl), hoq]
        have : oq.pid = q := by simpa using List.find?_some hoq
        simp [this, hne]) (by simp only [List.length_append, List.length_cons, List.length_nil]; omega)
    simp only []
    rw [hih]
    simp only [idxResults, obedLogs, Kernel.obeyedAll, List.length_cons, List.map_map, List.append_assoc, List.singleton_append]
    have h1 : idx + 1 + rest.length = idx + (rest.length + 1) := by omega
    have hobj : List.map ((fun o => if o.pid ∈ rest then { o with stopping := false, rc := some (exitCodeOf (wstatSig w.stopSignal)) } else o) ∘
        fun o => if o.pid = p then { o with stopping := false, rc := some (exitCodeOf (wstatSig w.stopSignal)) } else o) objs =
        List.map (fun o => if o.pid ∈ p :: rest then { o with stopping := false, rc := some (exitCodeOf (wstatSig w.stopSignal)) } else o) objs := by
      apply List.map_congr_left
      intro x _
      simp only [Function.comp, List.mem_cons]
      by_cases hx : x.pid = p <;> by_cases hr : x.pid ∈ rest <;> simp [hx, hr]
    rw [h1, hobj]

theorem forIn_multi_append (rec : Rec) (fm : Nat) (l r : List Call) : ∀ (i : Nat) (s : State),
    (forIn (l ++ r) i (multiBody rec fm) : M Nat) s =
      (forIn r ((forIn l i (multiBody rec fm) : M Nat) s).1 (multiBody rec fm) : M Nat) ((forIn l i (multiBody rec fm) : M Nat) s).2 := by
  induction l with
  | nil => intro i s; rfl
  | cons c cs ih =>
    intro i s
    rw [List.cons_append, List.forIn_cons, List.forIn_cons]
    simp only [bind, multiBody]
    exact ih _ _

theorem killCount_obedLogs (a : Arbiter) (w : Watcher) (hs : w.stopSignal ≠ 9) (l : List Nat) :
    ∀ log, killCount (obedLogs a w l log) = killCount log := by
  induction l with
  | nil => intro _; rfl
  | cons p r ih =>
    intro log; simp only [obedLogs]; rw [ih]
    have : killCount (evlog a (log ++ [Obs.sig p w.stopSignal .run ""]) w "kill" (some p) "-" ++ [Obs.reap p (wstatSig w.stopSignal)]) =
        killCount (evlog a (log ++ [Obs.sig p w.stopSignal .run ""]) w "kill" (some p) "-") := by
      simp [killCount, List.countP_append]
    rw [this, killCount_evlog]
    simp [killCount, List.countP_append, List.countP_cons]
    split
    · next h => injection h with _ h2; exact absurd h2 hs
    · rfl

theorem repC_obedLogs (a : Arbiter) (w : Watcher) (l : List Nat) : ∀ log, repC (obedLogs a w l log) = repC log := by
  induction l with
  | nil => intro _; rfl
  | cons p r ih =>
    intro log; simp only [obedLogs]; rw [ih]
    have : repC (evlog a (log ++ [Obs.sig p w.stopSignal .run ""]) w "kill" (some p) "-" ++ [Obs.reap p (wstatSig w.stopSignal)]) =
        repC (evlog a (log ++ [Obs.sig p w.stopSignal .run ""]) w "kill" (some p) "-") := by
      simp [repC, List.countP_append, Obs.isRep]
    rw [this, repC_evlog]
    simp [repC, List.countP_append, Obs.isRep]

theorem killCount_reapLogsC (a : Arbiter) (w : Watcher) (c : Int) (l : List Nat) :
    ∀ log, killCount (reapLogsC a w c l log) = killCount log := by
  induction l with
  | nil => intro _; rfl
  | cons p r ih => intro log; simp only [reapLogsC]; rw [ih, killCount_evlog]

theorem repC_reapLogsC (a : Arbiter) (w : Watcher) (c : Int) (l : List Nat) : ∀ log, repC (reapLogsC a w c l log) = repC log := by
  induction l with
  | nil => intro _; rfl
  | cons p r ih => intro log; simp only [reapLogsC]; rw [ih, repC_evlog]

theorem obedLogs_append (a : Arbiter) (w : Watcher) (l r : List Nat) : ∀ log,
    obedLogs a w (l ++ r) log = obedLogs a w r (obedLogs a w l log) := by
  induction l with
  | nil => intro _; rfl
  | cons p rest ih => intro log; simp only [List.cons_append, obedLogs]; exact ih _

/-- **`Watcher.stop()` on an active watcher whose workers obey the stop signal**: complete within its first,
    eager run — every worker signalled, dead, collected; `reap_processes`, the `stop` event, status `stopped`;
    the future done and the slot released; no frame, no timer -/
theorem pubStop_obed (u t : Nat) (w : Watcher) (k : Kernel) (a : Arbiter) (objs : List PObj)
    (dv : List (Nat × Val)) (log : List Obs)
    (hw : TOk u w) (hst : w.status = .active) (hne : w.pids ≠ []) (hnd : w.pids.Nodup) (hpolls : 0 < pollsOf w.graceful)
    (hk : k.Base)
    (hall : ∀ pid ∈ w.pids, k.Obed pid ∧
      ∃ o, objs.find? (fun o => decide (o.pid = pid)) = some o ∧ o.stopping = false ∧ o.rc = none) :
    ∃ kF objsF logF,
      exec 100000 (.call (.pubStop u) (.top t)) ⟨k, a, objs, [w], [], [], [{ tid := t, cbs := [.release] }], [], dv, t + 1, log, false⟩ =
        ((), ⟨kF, { a with slot := none }, objsF, [{ w with pids := [], status := .stopped }], [], [], [], [],
          (t, Val.unit) :: dv, t + 5, logF, false⟩) ∧
      kF.Base ∧ (∀ pid ∈ w.pids, kF.GoneP pid) ∧ killCount logF = killCount log ∧ repC logF = repC log ∧
      ((∀ p ∈ k.procs, p.st ≠ .zombie) → ∀ p ∈ kF.procs, p.st ≠ .zombie) := by
  obtain ⟨init, q, hpids⟩ : ∃ init q, w.pids = init ++ [q] := by
    rcases List.eq_nil_or_concat w.pids with h | ⟨i, q, h⟩
    · exact absurd h hne
    · exact ⟨i, q, by simpa using h⟩
  have hw' : TOk u { w with status := .stopping } := ⟨⟨hw.ok.uid, hw.ok.hooks, hw.ok.stopChildren, hw.ok.sigNe9⟩, hw.ne0, hw.heard⟩
  have hndq : init.Nodup ∧ q ∉ init := by
    have := hnd; rw [hpids] at this
    have h2 := List.nodup_append.mp this
    exact ⟨h2.1, fun hq => h2.2.2 q hq q (by simp) rfl⟩
  have hqm : q ∈ w.pids := by rw [hpids]; simp
  have him : ∀ pid ∈ init, pid ∈ w.pids := fun pid h => by rw [hpids]; simp [h]
  have hlen : w.pids.length = init.length + 1 := by rw [hpids]; simp
  have e1 : (100000 : Nat) = 99999 + 1 := rfl
  have e2 : (99999 : Nat) = 99998 + 1 := rfl
  have e3 : (99998 : Nat) = 99997 + 1 := rfl
  have e4 : (99997 : Nat) = 99996 + 1 := rfl
  have hkb : (k.bump (2 * w.pids.length)).Base := hk.bump _
  have hob0 : ∀ pid ∈ w.pids, (k.bump (2 * w.pids.length)).Obed pid := fun pid hp => (hall pid hp).1
  -- the children of the gen.multi but the last
  have hob := obedAll 99996 u t w.pids.length { w with status := .stopping } a [] [{ tid := t, cbs := [.release] }] [] dv (t + 5) hw' hpolls
    init 0 (k.bump (2 * w.pids.length)) objs [] log hkb hndq.1
    (fun pid hp => ⟨him pid hp, hob0 pid (him pid hp), (hall pid (him pid hp)).2⟩) (by simp only [List.length_nil]; omega)
  obtain ⟨hB1, hF1, hG1, hZ1⟩ := Kernel.obeyedAll_facts w.stopSignal init _ hkb hndq.1 (fun pid hp => hob0 pid (him pid hp))
  -- the last one
  have hq1 : ((k.bump (2 * w.pids.length)).obeyedAll w.stopSignal init).Obed q := by
    obtain ⟨x, hf, hx⟩ := hob0 q hqm
    exact ⟨x, by rw [hF1 q hndq.2]; exact hf, hx⟩
  obtain ⟨oq, hoq, hoq2, hoq3⟩ := (hall q hqm).2
  have hoqp : oq.pid = q := by simpa using List.find?_some hoq
  have hoq' : (objs.map (fun o => if o.pid ∈ init then
      { o with stopping := false, rc := some (exitCodeOf (wstatSig w.stopSignal)) } else o)).find? (fun o => decide (o.pid = q)) = some oq := by
    rw [find_map_pid objs q _ (fun o => by split <;> rfl), hoq]
    simp [hoqp, hndq.2]
  have hB2 := Kernel.obeyed_base hB1 hq1 w.stopSignal
  -- every worker is gone now
  have hallF : ∀ pid ∈ w.pids, (((k.bump (2 * w.pids.length)).obeyedAll w.stopSignal init).obeyed q w.stopSignal).GoneP pid ∧
      ∃ o', ((objs.map (fun o => if o.pid ∈ init then
          { o with stopping := false, rc := some (exitCodeOf (wstatSig w.stopSignal)) } else o)).map
          (fun o => if o.pid = q then { o with stopping := false, rc := some (exitCodeOf (wstatSig w.stopSignal)) } else o)).find?
        (fun o => decide (o.pid = pid)) = some o' ∧ o'.rc = some (exitCodeOf (wstatSig w.stopSignal)) := by
    intro pid hpid
    obtain ⟨o, ho, _, _⟩ := (hall pid hpid).2
    have hop : o.pid = pid := by simpa using List.find?_some ho
    rw [find_map_pid _ pid _ (fun o => by split <;> rfl), find_map_pid objs pid _ (fun o => by split <;> rfl), ho]
    by_cases hpq : pid = q
    · subst hpq
      refine ⟨Kernel.obeyed_find_self hB1 hq1 _, _, rfl, ?_⟩
      simp [hop, hndq.2]
    · have hpi : pid ∈ init := by
        rw [hpids] at hpid
        simp only [List.mem_append, List.mem_singleton] at hpid
        rcases hpid with h | h
        · exact h
        · exact absurd h hpq
      obtain ⟨x, hf, hg⟩ := hG1 pid hpi
      refine ⟨⟨x, by rw [Kernel.obeyed_find_other hB1 hq1 _ hpq]; exact hf, hg⟩, _, rfl, ?_⟩
      simp [hop, hpi, hpq]
  obtain ⟨vs, hvs⟩ := multiResult_bools w.pids.length (([] ++ idxResults init 0) ++ [(0 + init.length, Val.bool true)]) (by
    intro r hr
    rcases List.mem_append.mp hr with hr | hr
    · exact idxResults_bools init 0 r (by simpa using hr)
    · simp only [List.mem_singleton] at hr; subst hr; rfl)
  -- get_active_processes
  have hact : ∀ (frames : List Frame) (nid : Nat), activeProcs u ⟨k, a, objs, [{ w with status := .stopping }], frames, [],
        [{ tid := t, cbs := [.release] }], [], dv, nid, log, false⟩ =
      (w.pids, ⟨k.bump (2 * w.pids.length), a, objs, [{ w with status := .stopping }], frames, [],
        [{ tid := t, cbs := [.release] }], [], dv, nid, log, false⟩) := by
    intro frames nid
    exact activeProcs_running u { w with status := .stopping } _ rfl hw.ok.uid hk.calm
      (fun pid hp => by obtain ⟨⟨p, hf, hr, _⟩, _⟩ := hall pid hp; exact ⟨p, hf, hr⟩)
  have hexec : exec 100000 (.call (.pubStop u) (.top t)) ⟨k, a, objs, [w], [], [], [{ tid := t, cbs := [.release] }], [], dv, t + 1, log, false⟩ =
      ((), ⟨(((k.bump (2 * w.pids.length)).obeyedAll w.stopSignal init).obeyed q w.stopSignal).bump w.pids.length,
        { a with slot := none },
        (objs.map (fun o => if o.pid ∈ init then
          { o with stopping := false, rc := some (exitCodeOf (wstatSig w.stopSignal)) } else o)).map
          (fun o => if o.pid = q then { o with stopping := false, rc := some (exitCodeOf (wstatSig w.stopSignal)) } else o),
        [{ w with pids := [], status := .stopped }], [], [], [], [], (t, Val.unit) :: dv, t + 5,
        evlog a (reapLogsC a { w with status := .stopping } (exitCodeOf (wstatSig w.stopSignal)) w.pids
          (evlog a (obedLogs a { w with status := .stopping } init log ++ [Obs.sig q w.stopSignal .run ""])
            { w with status := .stopping } "kill" (some q) "-" ++ [Obs.reap q (wstatSig w.stopSignal)]))
          { w with status := .stopping } "stop" none "-", false⟩) := by
    rw [e1, exec_call_mk]
    simp only [runCall]
    rw [await_eq]
    simp only [List.nil_append]
    rw [e2, exec_call_mk]
    simp only [runCall]
    have hstopW : stopW (exec 99998) u true (.frame (t + 1) 0)
        ⟨k, a, objs, [w], [{ fid := t + 1, k := .ignore, parent := .top t }], [], [{ tid := t, cbs := [.release] }], [], dv, t + 1 + 1, log, false⟩ =
        await (exec 99998) (.killProcesses u none none) (.stopAfterKill u true) (.frame (t + 1) 0)
          ⟨k, a, objs, [{ w with status := .stopping }], [{ fid := t + 1, k := .ignore, parent := .top t }], [],
            [{ tid := t, cbs := [.release] }], [], dv, t + 1 + 1, log, false⟩ := by
      simp [stopW, bind, getW, hw.ok.uid, hst, setStatus, modW, modS, callHook_mk, hw.ok.hooks]
    rw [hstopW, await_eq]
    simp only [List.cons_append, List.nil_append]
    rw [e3, exec_call_mk]
    simp only [runCall]
    unfold killProcesses
    simp only [bind, hact]
    rw [awaitMulti_ne _ _ (by rw [hpids]; simp)]
    simp only [List.length_map, List.cons_append, List.nil_append]
    rw [show (List.map (fun p => Call.killProcess u p none none) w.pids) =
      List.map (fun p => Call.killProcess u p none none) init ++ [Call.killProcess u q none none] by rw [hpids]; simp]
    rw [forIn_multi_append]
    erw [hob]
    simp only []
    rw [List.forIn_cons]
    simp only [bind, multiBody, List.forIn_nil, pure]
    rw [e4, exec_call_mk]
    simp only [runCall]
    rw [killProcess_obed (exec 99996) u q (.frame (t + 4) (0 + init.length)) { w with status := .stopping } oq _ a _ _ [] _ [] dv (t + 5) _
      hw' hB1 hq1 hqm hoq' hoq2 hoq3 hpolls]
    rw [deliver_multi_last (exec 99996) u t w.pids.length (0 + init.length) (.bool true) _ _ a _ _ [] _ [] dv (t + 5) _
      (by simp only [List.nil_append, idxResults_length]; omega)]
    rw [hvs]
    erw [unwind_stop 99992 u t (exitCodeOf (wstatSig w.stopSignal)) vs _ a _ { w with status := .stopping } dv (t + 5) _
      hw'.ok (by simp) hB2 hnd hallF]
    simp [armFrame, modS]
  refine ⟨_, _, _, hexec, hB2.bump w.pids.length, fun pid hp => (hallF pid hp).1, ?_, ?_,
    fun hz => Kernel.obeyed_nozombie hB1 hq1 _ (hZ1 hz)⟩
  · rw [killCount_evlog, killCount_reapLogsC]
    have := killCount_obedLogs a { w with status := .stopping } hw.ok.sigNe9 (init ++ [q]) log
    rw [obedLogs_append] at this
    exact this
  · rw [repC_evlog, repC_reapLogsC]
    have := repC_obedLogs a { w with status := .stopping } (init ++ [q]) log
    rw [obedLogs_append] at this
    exact this

/-- **the `stop` request for an active watcher whose workers obey the stop signal**: complete within the step -/
theorem req_stop_obed (cid name : String) (waiting : Bool) (u t : Nat) (w : Watcher) (k : Kernel) (a : Arbiter)
    (objs : List PObj) (dv : List (Nat × Val)) (log : List Obs)
    (hn : a.names.lookup (pyLower name) = some u) (hr : a.restarting = false) (hsl : a.slot = none)
    (hls : a.loopStop = false)
    (hw : TOk u w) (hst : w.status = .active) (hne : w.pids ≠ []) (hnd : w.pids.Nodup) (hpolls : 0 < pollsOf w.graceful)
    (hk : k.Base)
    (hall : ∀ pid ∈ w.pids, k.Obed pid ∧
      ∃ o, objs.find? (fun o => decide (o.pid = pid)) = some o ∧ o.stopping = false ∧ o.rc = none)
    (NZ : Prop) (hnz : NZ → ∀ p ∈ k.procs, p.st ≠ .zombie) :
    StopDone NZ w a (killCount log) (repC log + (if a.ctlClosed = false then 1 else 0))
      (step ⟨k, a, objs, [w], [], [], [], [], dv, t, log, false⟩ (.req cid (some (stopReq name waiting)))) := by
  have hl : pyLower "stop" = "stop" := by decide +kernel
  have hve := ve_stop name waiting u ⟨k.beginStep, a, objs, [w], [], [], [], [], [], t, log, false⟩ hn hr hsl
  obtain ⟨kF, objsF, logF, hex, hB, hG, hK, hR, hZ⟩ := pubStop_obed u t w k.beginStep { a with slot := some "watcher_stop" } objs
    [] log hw hst hne hnd hpolls hk.beginStep hall
  have hfd : fuelDefault = 100000 := rfl
  simp only [stopProps, List.nil_append, hfd, hex] at hve
  unfold step
  rw [stepM_eq _ _ rfl]
  have hop : stepOp (.req cid (some (stopReq name waiting)))
      (updK Kernel.beginStep (⟨k, a, objs, [w], [], [], [], [], dv, t, log, false⟩ : State)).2 =
      ((), ⟨kF, { a with slot := none }, objsF, [{ w with pids := [], status := .stopped }], [], [], [],
        [.topCb (.reply (some cid) .null false "stop" waiting (if waiting then "none" else "")) .unit], [(t, Val.unit)], t + 5,
        ackLog a cid waiting logF, false⟩) := by
    simp only [stepOp, updK, runK]
    unfold handleMessage stopReq
    simp [JVal.isObj, JVal.get?, List.lookup, hl, commandNames, JVal.truthy, bind, clearDone, modS, hve]
    cases waiting <;> cases hc : a.ctlClosed <;>
      simp [hc, armTop, addDoneCallback, enqueue, sendReply, emitRep, modS, getS, getA, bind, pure, ackLog, List.lookup]
  rw [hop]
  have e1 : (100000 : Nat) = 99999 + 1 := rfl
  have e2 : (99999 : Nat) = 99998 + 1 := rfl
  have hset : settle 100000 ⟨kF, { a with slot := none }, objsF, [{ w with pids := [], status := .stopped }], [], [], [],
        [.topCb (.reply (some cid) .null false "stop" waiting (if waiting then "none" else "")) .unit], [(t, Val.unit)], t + 5,
        ackLog a cid waiting logF, false⟩ =
      ((), ⟨kF, { a with slot := none }, objsF, [{ w with pids := [], status := .stopped }], [], [], [], [], [(t, Val.unit)], t + 5,
        replyLog a cid .null waiting (if waiting then "none" else "") (ackLog a cid waiting logF), false⟩) := by
    rw [e1, settle_cons_mk]
    simp [runReady1, runTopCb, sendReply, bind, getA, emitRep, modS, pure]
    cases waiting <;> cases hc : a.ctlClosed <;> simp [replyLog, hc, modS] <;> (rw [e2]; exact settle_nil _ _ rfl)
  rw [stepTail_eq _ (by rw [hset]; exact hls), hset]
  refine ⟨rfl, rfl, rfl, rfl, rfl, rfl, rfl, hB, hG, ?_, ?_, fun h => hZ (hnz h)⟩
  · show killCount (replyLog _ _ _ _ _ _) = _
    rw [killCount_replyLog, killCount_ackLog, hK]
  · show repC (replyLog _ _ _ _ _ _) = _
    rw [repC_replyLog, repC_ackLog, hR]
    cases waiting <;> simp

/-- the hypotheses on the data, obedient workers: as `Stubborn`, but every listed worker dies at once on the
    stop signal, which is a real terminating signal -/
structure Obedient (u : Nat) (w : Watcher) (s : State) : Prop where
  ws : s.ws = [w]
  blocked : s.blocked = false
  ok : TOk u w
  active : w.status = .active
  nodup : w.pids.Nodup
  base : s.k.Base
  procs : ∀ pid ∈ w.pids, s.k.Obed pid ∧
    ∃ o, s.objs.find? (fun o => decide (o.pid = pid)) = some o ∧ o.stopping = false ∧ o.rc = none

/-- **`stop` completes within the request step (workers that obey the stop signal)** -/
theorem stop_run_obedient (NZ : Prop) (cid name : String) (waiting : Bool) (u : Nat) (w : Watcher) (s : State)
    (hi : Idle u s) (hd : Obedient u w s) (hn : s.a.names.lookup (pyLower name) = some u)
    (hne : w.pids ≠ []) (hpolls : 0 < pollsOf w.graceful) (hnz : NZ → ∀ p ∈ s.k.procs, p.st ≠ .zombie) :
    StopDone NZ w s.a (killCount s.log) (repC s.log + (if s.a.ctlClosed = false then 1 else 0))
      (step s (.req cid (some (stopReq name waiting)))) := by
  obtain ⟨k, a, objs, ws, frames, sleepers, tops, ready, dv, t, log, blocked⟩ := s
  obtain ⟨hf, hsl, ht, hr, hslot, hls, _, hrs, _⟩ := hi
  obtain ⟨hws, hb, hw, hst, hnd, hk, hall⟩ := hd
  simp only at hf hsl ht hr hslot hls hrs hws hb hk hall hn hnz
  subst hf hsl ht hr hws hb
  exact req_stop_obed cid name waiting u t w k a objs dv log hn hrs hslot hls hw hst hne hnd hpolls hk hall NZ hnz


/-! ## Part 8: a stopped watcher stays stopped along the periodic checks -/

/-- `waitpid(-1)` when nothing is pending and there is no zombie collects nothing -/
theorem Kernel.waitpid_none_base {k : Kernel} (h : k.Base) (hz : ∀ p ∈ k.procs, p.st ≠ .zombie) :
    (k.waitpid none).1 = k.bump 1 ∧ ((k.waitpid none).2 = .none ∨ (k.waitpid none).2 = .echild) := by
  unfold Kernel.waitpid
  simp only [h.tick]
  have hz : (((k.bump 1).procs.filter fun p => p.ppid = some 0 && p.st ≠ .gone).filter (·.st = .zombie)) = [] := by
    apply List.filter_eq_nil_iff.mpr
    intro p hp
    have hp' : p ∈ k.procs := (List.mem_filter.mp hp).1
    simpa using hz p hp'
  generalize ((k.bump 1).procs.filter fun p => p.ppid = some 0 && p.st ≠ .gone) = kids at hz
  by_cases he : kids.isEmpty = true
  · rw [if_pos he]; exact ⟨rfl, Or.inr rfl⟩
  · rw [if_neg he, hz]
    exact ⟨rfl, Or.inl rfl⟩

theorem arbReapLoop_base (pm : List (Nat × Nat)) (fuel : Nat) (s : State) (hb : s.blocked = false) (hk : s.k.Base)
    (hz : ∀ p ∈ s.k.procs, p.st ≠ .zombie) :
    arbReapLoop pm (fuel + 1) s = ((), { s with k := s.k.bump 1 }) := by
  unfold arbReapLoop
  simp only [bind, getS]
  erw [if_neg (by simp [hb])]
  obtain ⟨h1, h2⟩ := Kernel.waitpid_none_base hk hz
  have hw : kWaitpid none s = ((s.k.waitpid none).2, { s with k := s.k.bump 1 }) := by
    unfold kWaitpid
    simp only [bind, runK, h1]
    rcases h2 with h2 | h2 <;> rw [h2] <;> rfl
  rw [hw]
  rcases h2 with h2 | h2 <;> rw [h2] <;> rfl

theorem arbReapProcesses_base (s : State) (hb : s.blocked = false) (hk : s.k.Base) (hz : ∀ p ∈ s.k.procs, p.st ≠ .zombie) :
    arbReapProcesses s = ((), { s with k := s.k.bump 1 }) := by
  unfold arbReapProcesses
  simp only [bind]
  have hreg : (registered s).2 = s := rfl
  rw [hreg]
  generalize hpm : (forIn (sortWatchers (registered s).fst true) [] _ : M (List (Nat × Nat))) s = r
  have h2 : r.2 = s := by
    rw [← hpm]
    apply forIn_state_id
    intro w b t
    by_cases hc : w.status ≠ Status.stopped
    · erw [if_pos hc]
      exact forIn_state_id _ _ _ (fun _ _ _ => rfl) t
    · erw [if_neg hc]
      rfl
  obtain ⟨pm, s1⟩ := r
  simp only at h2
  subst h2
  exact arbReapLoop_base pm _ _ hb hk hz

/-- the (only) watcher is stopped, lists nobody and is not on-demand; nothing pending in the kernel, no zombie -/
def StoppedQuiet (u : Nat) (s : State) : Prop :=
  ∃ w, s.ws = [w] ∧ w.uid = u ∧ w.status = .stopped ∧ w.pids = [] ∧ w.onDemand = false ∧ s.blocked = false ∧
    s.k.Base ∧ ∀ p ∈ s.k.procs, p.st ≠ .zombie

/-- **the periodic check on a stopped watcher**: it completes within the step; the watcher, the process table
    and the log are untouched -/
theorem check_stopped (u : Nat) (s : State) (hi : Idle u s) (hq : StoppedQuiet u s) :
    Idle u (step s .check) ∧ StoppedQuiet u (step s .check) ∧ (step s .check).ws = s.ws ∧
    (step s .check).k.procs = s.k.procs ∧ (step s .check).log = s.log := by
  obtain ⟨w, hws, hu, hst, hpids, hod, hb, hk, hz⟩ := hq
  obtain ⟨hfr, hsl, htops, hrd, hslot, hls, hstp, hrst, hwat⟩ := hi
  obtain ⟨k, a, objs, ws, frames, sleepers, tops, ready, dv, i, log, blocked⟩ := s
  simp only at hws hb hk hz hfr hsl htops hrd hslot hls hstp hrst hwat
  subst hws hb hfr hsl htops hrd
  have hstep : stepM .check (⟨k, a, objs, [w], [], [], [], [], dv, i, log, false⟩ : State) =
      ((), ⟨k.beginStep.bump 1, { a with slot := none }, objs, [w], [], [], [], [], [(i, Val.unit)], i + 3, log, false⟩) := by
    rw [stepM_eq _ _ rfl]
    have hop : stepOp .check (updK Kernel.beginStep (⟨k, a, objs, [w], [], [], [], [], dv, i, log, false⟩ : State)).2 =
        ((), ⟨k.beginStep.bump 1, { a with slot := none }, objs, [w], [], [], [],
          [.topCb .watch .unit], [(i, Val.unit)], i + 3, log, false⟩) := by
      simp only [stepOp, bind, clearDone, modS, updK, runK]
      rw [syncCoroutine_free _ _ _ hrst hslot]
      simp only [fuelDefault]
      have e1 : (100000 : Nat) = 99999 + 1 := rfl
      have e2 : (99999 : Nat) = 99998 + 1 := rfl
      have e3 : (99998 : Nat) = 99997 + 1 := rfl
      rw [e1, exec_call_mk]
      simp only [runCall]
      have hmw : ∀ (t : State) (rec : Rec) (wt : Waiter), t.ws = [w] → t.blocked = false → t.k.Base →
          (∀ p ∈ t.k.procs, p.st ≠ .zombie) → t.a.stopping = false → t.a.watchers = [u] →
          manageWatchers rec wt t =
            awaitMulti rec [.manageProcesses u] (.manageWatchersTail false) wt { t with k := t.k.bump 1 } := by
        intro t rec wt h1 h2 h3 h4 h5 h6
        unfold manageWatchers
        simp only [bind, getA]
        erw [if_neg (by simp [h5])]
        rw [arbReapProcesses_base t h2 h3 h4]
        simp only
        rw [iterWatchers_single true u w { t with k := t.k.bump 1 } h1 hu h6]
        simp [getS, h1, hu, hod]
      rw [hmw _ (exec 99999) _ rfl rfl hk.beginStep hz hstp hwat, awaitMulti_single]
      simp only [List.nil_append]
      rw [e2, exec_call_mk]
      simp only [runCall]
      have hmp : ∀ (t : State) (rec : Rec) (wt : Waiter), t.ws = [w] →
          manageProcesses rec u wt t = deliver rec wt .unit t := by
        intro t rec wt h1
        unfold manageProcesses
        simp only [bind]
        rw [getW_single u w t h1 hu]
        erw [if_pos hst]
      rw [hmp _ _ _ rfl]
      simp [deliver, bind, getS, removeFrame, modS]
      have hmr : multiResult 1 [(0, Val.unit)] = .list [.unit] := rfl
      rw [hmr, e3, exec_resume_mk]
      simp [runResume, deliver, bind, getS, removeFrame, modS]
      have e4 : (99997 : Nat) = 99996 + 1 := rfl
      rw [e4, exec_resume_mk]
      simp [runResume, manageWatchersTail, deliver, deliverTop, finishTop, deliverCbs, runTopCb, setSlot, bind, getS,
        getA, modS, modA, pure, armFrame, armTop, addDoneCallback, enqueue, Kernel.bump_bump]
    rw [hop]
    have e1 : (100000 : Nat) = 99999 + 1 := rfl
    have e2 : (99999 : Nat) = 99998 + 1 := rfl
    have hs : settle 100000 (⟨k.beginStep.bump 1, { a with slot := none }, objs, [w], [], [], [],
          [.topCb .watch .unit], [(i, Val.unit)], i + 3, log, false⟩ : State) =
        ((), ⟨k.beginStep.bump 1, { a with slot := none }, objs, [w], [], [], [], [], [(i, Val.unit)], i + 3, log, false⟩) := by
      rw [e1, settle_cons_mk]
      simp [runReady1, runTopCb, pure]
      rw [e2]
      exact settle_nil _ _ rfl
    rw [stepTail_eq _ (by rw [hs]; exact hls), hs]
  have hres : step (⟨k, a, objs, [w], [], [], [], [], dv, i, log, false⟩ : State) .check =
      ⟨k.beginStep.bump 1, { a with slot := none }, objs, [w], [], [], [], [], [(i, Val.unit)], i + 3, log, false⟩ := by
    unfold step; rw [hstep]
  rw [hres]
  exact ⟨⟨rfl, rfl, rfl, rfl, rfl, hls, hstp, hrst, hwat⟩, ⟨w, rfl, hu, hst, hpids, hod, rfl, hk.beginStep.bump _, hz⟩, rfl, rfl, rfl⟩

/-- any number of checks -/
theorem checks_stopped (u : Nat) : ∀ (n : Nat) (s : State), Idle u s → StoppedQuiet u s →
    Idle u (run s (List.replicate n .check)) ∧ StoppedQuiet u (run s (List.replicate n .check)) ∧
    (run s (List.replicate n .check)).ws = s.ws ∧ (run s (List.replicate n .check)).k.procs = s.k.procs ∧
    (run s (List.replicate n .check)).log = s.log := by
  intro n
  induction n with
  | zero => intro s hi hq; exact ⟨hi, hq, rfl, rfl, rfl⟩
  | succ n ih =>
    intro s hi hq
    obtain ⟨h1, h2, h3, h4, h5⟩ := check_stopped u s hi hq
    obtain ⟨g1, g2, g3, g4, g5⟩ := ih (step s .check) h1 h2
    rw [List.replicate_succ, run_cons]
    exact ⟨g1, g2, g3.trans h3, g4.trans h4, g5.trans h5⟩

/-- after a completed `stop` of a watcher that is not on-demand, in a process table without zombies, the state is quiet -/
theorem StopDone.quiet {NZ : Prop} {u : Nat} {w : Watcher} {a : Arbiter} {kc rc : Nat} {s : State}
    (h : StopDone NZ w a kc rc s) (hnz : NZ) (hu : w.uid = u) (hod : w.onDemand = false) : StoppedQuiet u s :=
  ⟨_, h.ws, hu, rfl, rfl, hod, h.blocked, h.base, h.nz hnz⟩

end Circus.Core
