import CircusModel.Model.GnuArgs
import CircusModel.Model.Shlex
import CircusModel.Model.FormatArgs
/-! Helper lemmas for the argv layer (C13): the `replace_gnu_args` scanner, the shlex automaton,
`format_args`, the env assembly and `_nextwid`. -/

/-- decidable equality of outcomes, so that concrete instances can be checked by `decide` -/
instance {ε α : Type} [DecidableEq ε] [DecidableEq α] : DecidableEq (Except ε α)
  | .ok a, .ok b => if h : a = b then isTrue (by rw [h]) else isFalse (by intro h'; cases h'; exact h rfl)
  | .error a, .error b => if h : a = b then isTrue (by rw [h]) else isFalse (by intro h'; cases h'; exact h rfl)
  | .ok _, .error _ => isFalse (by intro h; cases h)
  | .error _, .ok _ => isFalse (by intro h; cases h)

namespace Circus.GnuArgs

/-! ### character classes -/

theorem isSect_lower (c : Nat) : isSect (lower c) = isSect c := by
  by_cases h : 65 ≤ c ∧ c ≤ 90
  · have h1 : isSect (c + 32) = true := by
      simp only [isSect, isWord, Bool.or_eq_true, Bool.and_eq_true, decide_eq_true_eq, beq_iff_eq]; omega
    have h2 : isSect c = true := by
      simp only [isSect, isWord, Bool.or_eq_true, Bool.and_eq_true, decide_eq_true_eq, beq_iff_eq]; omega
    simp [lower, h, h1, h2]
  · simp [lower, h]

theorem isSect_close : isSect 41 = false := by decide

theorem lower_eq_nonletter {a b : Nat} (h : lower a = lower b) (hb : b < 65) : a = b := by
  unfold lower at h
  split at h <;> split at h <;> omega

/-! ### dict -/

theorem lookup_cons_eq (k v : Str) (d : List (Str × Str)) : ((k, v) :: d).lookup k = some v := by
  simp [List.lookup]

theorem lookup_cons_ne {k k0 : Str} (v0 : Str) (d : List (Str × Str)) (h : ¬ k = k0) :
    ((k0, v0) :: d).lookup k = d.lookup k := by
  have hb : (k == k0) = false := by simpa using h
  simp [List.lookup, hb]

theorem lookup_dictSet (d : List (Str × Str)) (k v k' : Str) :
    (dictSet d k v).lookup k' = if k' = k then some v else d.lookup k' := by
  induction d with
  | nil =>
    by_cases h : k' = k
    · subst h; simp [dictSet]
    · simp [dictSet, lookup_cons_ne _ _ h, h]
  | cons e d ih =>
    obtain ⟨k0, v0⟩ := e
    unfold dictSet
    by_cases h0 : k0 = k
    · subst h0
      by_cases h : k' = k0
      · subst h; simp
      · simp [lookup_cons_ne _ _ h, h]
    · by_cases h1 : k' = k0
      · subst h1
        have : ¬ k' = k := h0
        simp [h0]
      · simp only [h0, if_false, lookup_cons_ne _ _ h1]
        exact ih

theorem lookup_foldl_dictSet_of_not_mem (es : List (Str × Str)) (k : Str) :
    ∀ d : List (Str × Str), (∀ e ∈ es, e.1 ≠ k) →
      (es.foldl (fun d e => dictSet d e.1 e.2) d).lookup k = d.lookup k := by
  induction es with
  | nil => intro d _; rfl
  | cons e es ih =>
    intro d h
    rw [List.foldl_cons, ih _ (fun x hx => h x (by simp [hx])), lookup_dictSet]
    have : ¬ k = e.1 := fun hk => h e (by simp) hk.symm
    simp [this]

/-- the last assignment to a key wins -/
theorem lookup_foldl_dictSet (es : List (Str × Str)) (k : Str) :
    ∀ d : List (Str × Str),
      (es.foldl (fun d e => dictSet d e.1 e.2) d).lookup k = (es.reverse.lookup k).or (d.lookup k) := by
  induction es with
  | nil => intro d; simp
  | cons e es ih =>
    intro d
    obtain ⟨k0, v0⟩ := e
    rw [List.foldl_cons, ih, lookup_dictSet, List.reverse_cons, List.lookup_append]
    by_cases h : k = k0
    · subst h; simp
    · simp [lookup_cons_ne _ _ h, h]

/-- the assoc list is a well-formed dict: every key occurs once -/
def KeysNodup (d : List (Str × Str)) : Prop := (d.map Prod.fst).Nodup

theorem keys_dictSet (d : List (Str × Str)) (k v : Str) :
    ∀ x, x ∈ (dictSet d k v).map Prod.fst ↔ x = k ∨ x ∈ d.map Prod.fst := by
  induction d with
  | nil => intro x; simp [dictSet]
  | cons e d ih =>
    intro x
    obtain ⟨k0, v0⟩ := e
    unfold dictSet
    by_cases h0 : k0 = k
    · subst h0; simp
    · simp only [h0, if_false, List.map_cons, List.mem_cons, ih]
      constructor
      · rintro (h | h | h) <;> simp [h]
      · rintro (h | h | h) <;> simp [h]

theorem keysNodup_dictSet (d : List (Str × Str)) (k v : Str) (h : KeysNodup d) :
    KeysNodup (dictSet d k v) := by
  unfold KeysNodup at *
  induction d with
  | nil => simp [dictSet]
  | cons e d ih =>
    obtain ⟨k0, v0⟩ := e
    simp only [List.map_cons, List.nodup_cons] at h
    unfold dictSet
    by_cases h0 : k0 = k
    · subst h0; simpa using h
    · simp only [h0, if_false, List.map_cons, List.nodup_cons]
      refine ⟨?_, ih h.2⟩
      rw [keys_dictSet]
      rintro (h1 | h1)
      · exact h0 h1
      · exact h.1 h1

theorem keysNodup_foldl_dictSet (es : List (Str × Str)) :
    ∀ d, KeysNodup d → KeysNodup (es.foldl (fun d e => dictSet d e.1 e.2) d) := by
  induction es with
  | nil => intro d h; exact h
  | cons e es ih => intro d h; exact ih _ (keysNodup_dictSet d e.1 e.2 h)

/-! ### the pattern -/

theorem matchLit_append (pat o r : Str) (h : lowerStr o = lowerStr pat) :
    matchLit pat (o ++ r) = some r := by
  induction pat generalizing o with
  | nil =>
    cases o with
    | nil => simp [matchLit]
    | cons a o => simp [lowerStr] at h
  | cons p ps ih =>
    cases o with
    | nil => simp [lowerStr] at h
    | cons a o =>
      simp only [lowerStr, List.map_cons, List.cons.injEq] at h
      simp only [List.cons_append, matchLit, h.1, if_true]
      exact ih o h.2

theorem matchLit_cons_some {p : Nat} {ps : Str} {s r : Str} (h : matchLit (p :: ps) s = some r) :
    ∃ c cs, s = c :: cs ∧ lower p = lower c ∧ matchLit ps cs = some r := by
  cases s with
  | nil => simp [matchLit] at h
  | cons c cs =>
    simp only [matchLit] at h
    by_cases hl : lower p = lower c
    · simp only [hl, if_true] at h; exact ⟨c, cs, rfl, hl, h⟩
    · simp [hl] at h

theorem takeWhile_sect_append (k post : Str) (hk : k.all isSect = true) (hp : ∀ c, post.head? = some c → isSect c = false) :
    (k ++ post).takeWhile isSect = k := by
  induction k with
  | nil =>
    cases post with
    | nil => rfl
    | cons c cs => simp [hp c rfl]
  | cons a k ih =>
    simp only [List.all_cons, Bool.and_eq_true] at hk
    simp [hk.1, ih hk.2]

/-- alternative 1 on a well-formed reference -/
theorem matchAlt1_ref (o k post : Str) (ho : lowerStr o = open1) (hne : k ≠ []) (hk : k.all isSect = true) :
    matchAlt1 (o ++ k ++ 41 :: post) = some (k, (o ++ k ++ [41]).length) := by
  unfold matchAlt1
  have hl : o.length = open1.length := by rw [← ho]; simp [lowerStr]
  rw [List.append_assoc, matchLit_append open1 o _ (by rw [ho]; decide)]
  have htw : (k ++ 41 :: post).takeWhile isSect = k :=
    takeWhile_sect_append k (41 :: post) hk (by intro c hc; simp at hc; subst hc; decide)
  simp only [htw]
  have : k.isEmpty = false := by cases k <;> simp_all
  simp only [this, Bool.false_eq_true, if_false, List.drop_left]
  simp [hl]; omega

theorem matchAlt2_ref (o k post : Str) (ho : lowerStr o = open2) (hne : k ≠ []) (hk : k.all isSect = true) :
    matchAlt2 (o ++ k ++ 41 :: 41 :: post) = some (k, (o ++ k ++ [41, 41]).length) := by
  unfold matchAlt2
  have hl : o.length = open2.length := by rw [← ho]; simp [lowerStr]
  rw [List.append_assoc, matchLit_append open2 o _ (by rw [ho]; decide)]
  have htw : (k ++ 41 :: 41 :: post).takeWhile isSect = k :=
    takeWhile_sect_append k (41 :: 41 :: post) hk (by intro c hc; simp at hc; subst hc; decide)
  simp only [htw]
  have : k.isEmpty = false := by cases k <;> simp_all
  simp only [this, Bool.false_eq_true, if_false, List.drop_left]
  simp [hl]; omega

/-- a subject that starts like alternative 2 is not matched by alternative 1 -/
theorem matchAlt1_open2 (o rest : Str) (ho : lowerStr o = open2) : matchAlt1 (o ++ rest) = none := by
  unfold matchAlt1
  cases o with
  | nil => simp [lowerStr, open2] at ho
  | cons a o =>
    have ha : lower a = 40 := by
      have := congrArg List.head? ho
      simpa [lowerStr, open2] using this
    simp only [List.cons_append]
    have : matchLit open1 (a :: (o ++ rest)) = none := by
      simp only [open1, List.cons_append, matchLit]
      have : ¬ lower 36 = lower a := by rw [ha]; decide
      simp [this]
    rw [this]

/-- whatever matches starts with `$(` or `((` -/
theorem matchAt_some_head {s : Str} {m : Str × Nat} (h : matchAt s = some m) :
    ∃ a b r, s = a :: b :: r ∧ ((a = 36 ∧ b = 40) ∨ (a = 40 ∧ b = 40)) := by
  unfold matchAt at h
  cases h1 : matchAlt1 s with
  | some m1 =>
    unfold matchAlt1 at h1
    cases hm : matchLit open1 s with
    | none => simp [hm] at h1
    | some r =>
      obtain ⟨a, cs, rfl, ha, hm2⟩ := matchLit_cons_some (by simpa [open1] using hm)
      obtain ⟨b, cs2, rfl, hb, _⟩ := matchLit_cons_some hm2
      exact ⟨a, b, cs2, rfl, Or.inl ⟨(lower_eq_nonletter ha.symm (by decide)), (lower_eq_nonletter hb.symm (by decide))⟩⟩
  | none =>
    simp only [h1] at h
    unfold matchAlt2 at h
    cases hm : matchLit open2 s with
    | none => simp [hm] at h
    | some r =>
      obtain ⟨a, cs, rfl, ha, hm2⟩ := matchLit_cons_some (by simpa [open2] using hm)
      obtain ⟨b, cs2, rfl, hb, _⟩ := matchLit_cons_some hm2
      exact ⟨a, b, cs2, rfl, Or.inr ⟨(lower_eq_nonletter ha.symm (by decide)), (lower_eq_nonletter hb.symm (by decide))⟩⟩

/-- giving characters of the greedy run back never helps: after every shorter non-empty run the
    next character is a class character, hence not `)` -/
theorem backtrack_noop (r : Str) (n : Nat) (hn : n < (r.takeWhile isSect).length) :
    ∃ c, (r.drop n).head? = some c ∧ isSect c = true ∧ c ≠ 41 := by
  induction r generalizing n with
  | nil => simp at hn
  | cons a r ih =>
    by_cases ha : isSect a = true
    · cases n with
      | zero => exact ⟨a, by simp, ha, by intro h; subst h; simp [isSect_close] at ha⟩
      | succ n =>
        simp only [List.takeWhile, ha, List.length_cons] at hn
        simpa using ih n (by omega)
    · simp [List.takeWhile, ha] at hn

/-! ### the scan -/

theorem scan_skip (tbl : List (Str × Str)) (xs post : Str) :
    scan tbl xs.length (xs ++ post) = scan tbl 0 post := by
  induction xs with
  | nil => rfl
  | cons x xs ih => simpa [scan] using ih

/-- one match at the head of the subject: replaced, the scan resumes behind it -/
theorem scan_match (tbl : List (Str × Str)) (r post g : Str) (hne : r ≠ [])
    (h : matchAt (r ++ post) = some (g, r.length)) :
    scan tbl 0 (r ++ post) = repl tbl g r ++ scan tbl 0 post := by
  cases r with
  | nil => exact absurd rfl hne
  | cons c cs =>
    simp only [List.cons_append] at h ⊢
    simp only [scan, h]
    have h1 : (c :: (cs ++ post)).take (c :: cs).length = c :: cs := by
      rw [← List.cons_append, List.take_left]
    rw [h1]
    have h2 : (c :: cs).length - 1 = cs.length := by simp
    rw [h2, scan_skip]

/-- a well-formed `$(circus.KEY)` at the head of the subject is handed to `_repl` as a whole -/
theorem scan_ref1 (tbl : List (Str × Str)) (o k post : Str) (ho : lowerStr o = open1) (hne : k ≠ [])
    (hk : k.all isSect = true) :
    scan tbl 0 (o ++ k ++ 41 :: post) = repl tbl k (o ++ k ++ [41]) ++ scan tbl 0 post := by
  have h := matchAlt1_ref o k post ho hne hk
  have hm : matchAt ((o ++ k ++ [41]) ++ post) = some (k, (o ++ k ++ [41]).length) := by
    unfold matchAt
    have : (o ++ k ++ [41]) ++ post = o ++ k ++ 41 :: post := by simp
    rw [this, h]
  have := scan_match tbl (o ++ k ++ [41]) post k (by simp) hm
  simpa using this

/-- a well-formed `((circus.KEY))` at the head of the subject is handed to `_repl` as a whole -/
theorem scan_ref2 (tbl : List (Str × Str)) (o k post : Str) (ho : lowerStr o = open2) (hne : k ≠ [])
    (hk : k.all isSect = true) :
    scan tbl 0 (o ++ k ++ 41 :: 41 :: post) = repl tbl k (o ++ k ++ [41, 41]) ++ scan tbl 0 post := by
  have h := matchAlt2_ref o k post ho hne hk
  have hm : matchAt ((o ++ k ++ [41, 41]) ++ post) = some (k, (o ++ k ++ [41, 41]).length) := by
    unfold matchAt
    have e : (o ++ k ++ [41, 41]) ++ post = o ++ k ++ 41 :: 41 :: post := by simp
    have h1 : matchAlt1 (o ++ k ++ 41 :: 41 :: post) = none := by
      rw [List.append_assoc]; exact matchAlt1_open2 o _ ho
    rw [e, h1, h]
  have := scan_match tbl (o ++ k ++ [41, 41]) post k (by simp) hm
  simpa using this

/-- any letter case of a key: the pieces of a text whose lower-cased form is `a ++ b ++ c` -/
theorem lowerStr_split3 {r a b c : Str} (h : lowerStr r = a ++ b ++ c) :
    ∃ o k z, r = o ++ k ++ z ∧ lowerStr o = a ∧ lowerStr k = b ∧ lowerStr z = c := by
  unfold lowerStr at h
  rw [List.map_eq_append_iff] at h
  obtain ⟨l1, z, rfl, h1, h2⟩ := h
  rw [List.map_eq_append_iff] at h1
  obtain ⟨o, k, rfl, h3, h4⟩ := h1
  exact ⟨o, k, z, rfl, h3, h4, h2⟩

theorem lowerStr_close1 {z : Str} (h : lowerStr z = [41]) : z = [41] := by
  cases z with
  | nil => simp [lowerStr] at h
  | cons x z =>
    cases z with
    | cons y z => simp [lowerStr] at h
    | nil =>
      simp only [lowerStr, List.map_cons, List.map_nil, List.cons.injEq, and_true] at h
      have : x = 41 := lower_eq_nonletter (a := x) (b := 41) (by rw [h]; decide) (by decide)
      rw [this]

theorem lowerStr_close2 {z : Str} (h : lowerStr z = [41, 41]) : z = [41, 41] := by
  cases z with
  | nil => simp [lowerStr] at h
  | cons x z =>
    simp only [lowerStr, List.map_cons, List.cons.injEq] at h
    have hx : x = 41 := lower_eq_nonletter (a := x) (b := 41) (by rw [h.1]; decide) (by decide)
    have := lowerStr_close1 (z := z) h.2
    rw [hx, this]

theorem all_isSect_of_lower {k : Str} (h : (lowerStr k).all isSect = true) : k.all isSect = true := by
  unfold lowerStr at h
  rw [List.all_map] at h
  rw [List.all_eq_true] at h ⊢
  intro x hx
  have := h x hx
  simpa [isSect_lower] using this

/-- `true` iff the text contains `$(` or `((` -/
def hasOpen : Str → Bool
  | a :: b :: r => (a == 36 && b == 40) || (a == 40 && b == 40) || hasOpen (b :: r)
  | _ => false

theorem scan_noOpen (tbl : List (Str × Str)) (s : Str) (h : hasOpen s = false) : scan tbl 0 s = s := by
  induction s with
  | nil => rfl
  | cons c cs ih =>
    cases hm : matchAt (c :: cs) with
    | some m =>
      obtain ⟨a, b, r, heq, hab⟩ := matchAt_some_head hm
      rw [heq] at h
      rcases hab with ⟨rfl, rfl⟩ | ⟨rfl, rfl⟩ <;> simp [hasOpen] at h
    | none =>
      simp only [scan, hm]
      rw [ih]
      cases cs with
      | nil => rfl
      | cons b r => simp only [hasOpen, Bool.or_eq_false_iff] at h; exact h.2

theorem scan_plain_prefix (tbl : List (Str × Str)) (pre s : Str) (h : ∀ c ∈ pre, c ≠ 36 ∧ c ≠ 40) :
    scan tbl 0 (pre ++ s) = pre ++ scan tbl 0 s := by
  induction pre with
  | nil => rfl
  | cons c cs ih =>
    simp only [List.cons_append]
    cases hm : matchAt (c :: (cs ++ s)) with
    | some m =>
      obtain ⟨a, b, r, heq, hab⟩ := matchAt_some_head hm
      have hc := h c (by simp)
      simp only [List.cons.injEq] at heq
      rcases hab with ⟨rfl, _⟩ | ⟨rfl, _⟩ <;> omega
    | none =>
      simp only [scan, hm]
      rw [ih (fun x hx => h x (by simp [hx]))]

end Circus.GnuArgs

namespace Circus.Shlex

/-- a character the automaton appends to the current word without changing state -/
def isPlain (c : Nat) : Bool := !isWs c && !isQuote c && !isEscape c

theorem isPlain_of_isSafe {c : Nat} (h : isSafe c = true) : isPlain c = true := by
  simp only [isSafe, Bool.or_eq_true, Bool.and_eq_true, decide_eq_true_eq, beq_iff_eq] at h
  simp only [isPlain, isWs, isQuote, isEscape, Bool.and_eq_true, Bool.not_eq_true', Bool.or_eq_false_iff,
    beq_eq_false_iff_ne, ne_eq]
  omega

theorem go_word_plain (e : St) (q : Bool) (s rest : Str) (h : ∀ c ∈ s, isPlain c = true) :
    ∀ t, go ⟨.word, e, q, t⟩ (s ++ rest) = go ⟨.word, e, q, t ++ s⟩ rest := by
  induction s with
  | nil => intro t; simp
  | cons c s ih =>
    intro t
    have hc := h c (by simp)
    simp only [isPlain, Bool.and_eq_true, Bool.not_eq_true'] at hc
    obtain ⟨⟨h1, h2⟩, h3⟩ := hc
    simp only [List.cons_append, go, h1, h2, h3, Bool.false_eq_true, if_false]
    rw [ih (fun x hx => h x (by simp [hx]))]
    simp

/-- inside single quotes everything up to the next `'` is literal -/
theorem go_sq_replace (e : St) (s rest : Str) :
    ∀ (q : Bool) (t : Str),
      go ⟨.quo 39, e, q, t⟩ (replaceSq s ++ 39 :: rest) = go ⟨.word, e, true, t ++ s⟩ rest := by
  induction s with
  | nil => intro q t; simp [replaceSq, go]
  | cons c s ih =>
    intro q t
    by_cases hc : c = 39
    · subst hc
      simp only [replaceSq, if_true, List.cons_append, List.nil_append]
      simp only [go, isWs, isQuote, isEscape, isEscapedQuote]
      simp only [if_true]
      have := ih true (t ++ [39])
      simp only [List.append_assoc, List.cons_append, List.nil_append] at this
      simpa [go, isWs, isQuote, isEscape, isEscapedQuote] using this
    · simp only [replaceSq, hc, if_false, List.cons_append]
      simp only [go, hc, if_false, isEscapedQuote]
      have := ih true (t ++ [c])
      simp only [List.append_assoc, List.cons_append, List.nil_append] at this
      simpa using this

/-- reading one quoted argument from the start of a token leaves the automaton in the word state
    holding exactly that argument, with a token to emit -/
theorem go_quote (x rest : Str) :
    ∃ q, go (fresh .ws) (quote x ++ rest) = go ⟨.word, .ws, q, x⟩ rest ∧ (x ≠ [] ∨ q = true) := by
  unfold quote
  by_cases h0 : x = []
  · subst h0
    exact ⟨true, by simp [fresh, go, isWs, isQuote, isEscape], Or.inr rfl⟩
  · have hne : x.isEmpty = false := by cases x <;> simp_all
    simp only [hne, Bool.false_eq_true, if_false]
    by_cases hs : x.all isSafe = true
    · simp only [hs, if_true]
      cases x with
      | nil => exact absurd rfl h0
      | cons c s =>
        refine ⟨false, ?_, Or.inl h0⟩
        simp only [List.all_cons, Bool.and_eq_true] at hs
        have hp := isPlain_of_isSafe hs.1
        simp only [isPlain, Bool.and_eq_true, Bool.not_eq_true'] at hp
        obtain ⟨⟨h1, h2⟩, h3⟩ := hp
        simp only [fresh, List.cons_append, go, h1, h2, h3, Bool.false_eq_true, if_false]
        have := go_word_plain .ws false s rest
          (fun c hc => isPlain_of_isSafe (List.all_eq_true.mp hs.2 c hc)) [c]
        simpa using this
    · simp only [hs, Bool.false_eq_true, if_false]
      refine ⟨true, ?_, Or.inr rfl⟩
      have := go_sq_replace .ws x rest false []
      simp only [List.nil_append] at this
      simp only [fresh, List.cons_append, List.nil_append, List.append_assoc, go, isWs, isQuote, isEscape]
      simpa using this

theorem go_word_end (e : St) (q : Bool) (x : Str) (h : x ≠ [] ∨ q = true) :
    go ⟨.word, e, q, x⟩ [] = .ok [x] := by
  have : (Lex.hasToken ⟨.word, e, q, x⟩) = true := by
    rcases h with h | h
    · cases x <;> simp_all [Lex.hasToken]
    · simp [Lex.hasToken, h]
  simp [go, this]

theorem go_word_space (e : St) (q : Bool) (x rest : Str) (h : x ≠ [] ∨ q = true) :
    go ⟨.word, e, q, x⟩ (32 :: rest) = (x :: ·) <$> go (fresh .ws) rest := by
  have : (Lex.hasToken ⟨.word, e, q, x⟩) = true := by
    rcases h with h | h
    · cases x <;> simp_all [Lex.hasToken]
    · simp [Lex.hasToken, h]
  simp [go, this, isWs]

theorem joinSp_eq_intercalate (xs : List Str) : joinSp xs = List.intercalate [32] xs := by
  induction xs with
  | nil => rfl
  | cons x xs ih =>
    cases xs with
    | nil => simp [joinSp, List.intercalate]
    | cons y r =>
      simp only [joinSp, ih]
      simp [List.intercalate, List.intersperse]

end Circus.Shlex

namespace Circus.FormatArgs
open Circus.GnuArgs Circus.Shlex

/-- `"wid"` -/
def widKey : Str := [119, 105, 100]
/-- `"circus.wid"` -/
def circusWid : Str := circusDot ++ widKey

/-- an option whose lower-cased name is not `wid` never assigns `fmt_options['circus.wid']` -/
theorem entries_key_ne (kv : Str × Val) (h : lowerStr kv.1 ≠ widKey) :
    ∀ e ∈ entries kv, e.1 ≠ circusWid := by
  intro e he heq
  obtain ⟨k, v⟩ := kv
  cases v with
  | scalar s =>
    simp only [entries, List.mem_singleton] at he
    subst he
    exact h (List.append_cancel_left heq)
  | dict kvs =>
    simp only [entries, List.mem_map] at he
    obtain ⟨sv, _, rfl⟩ := he
    simp only [circusWid, List.append_assoc] at heq
    have h2 := List.append_cancel_left heq
    have : 46 ∈ widKey := by rw [← h2]; simp
    revert this; decide

theorem lookup_wid_formatKwargs (p : Proc) (h : ∀ kv ∈ p.extra, lowerStr kv.1 ≠ widKey) :
    (fmtOptions (formatKwargs p)).lookup circusWid = some (decimal p.wid) := by
  unfold fmtOptions formatKwargs
  simp only [List.cons_append, List.flatMap_cons]
  have h1 : entries ([119, 105, 100], Val.scalar (decimal p.wid)) = [(circusWid, decimal p.wid)] := rfl
  rw [h1, List.cons_append, List.nil_append, List.foldl_cons]
  rw [lookup_foldl_dictSet_of_not_mem]
  · simp [dictSet]
  · intro e he
    simp only [List.mem_append, List.nil_append, List.mem_flatMap] at he
    rcases he with he | he | he | he | ⟨kv, hkv, he⟩
    · exact entries_key_ne _ (by simp only; decide) e he
    · exact entries_key_ne _ (by simp only; decide) e he
    · exact entries_key_ne _ (by simp only; decide) e he
    · exact entries_key_ne _ (by simp only; decide) e he
    · exact entries_key_ne kv (h kv hkv) e he

/-! ### env -/

theorem lookup_dictUpdate (d e : Env) (k : Str) :
    (dictUpdate d e).lookup k = (e.reverse.lookup k).or (d.lookup k) := by
  unfold dictUpdate
  exact lookup_foldl_dictSet e k d

/-! ### `_nextwid` -/

theorem allWids_eq (np : Nat) : allWids np = List.range' 1 (np * 2) := by
  unfold allWids
  rw [List.range'_eq_map_range]
  apply List.map_congr_left
  intro a _; omega

theorem head_filter_rangeFrom (p : Nat → Bool) (n : Nat) :
    ∀ s w, ((List.range' s n).filter p).head? = some w →
      s ≤ w ∧ w < s + n ∧ p w = true ∧ ∀ v, s ≤ v → v < w → p v = false := by
  induction n with
  | zero => intro s w h; simp at h
  | succ n ih =>
    intro s w h
    rw [List.range'_succ] at h
    by_cases hp : p s = true
    · simp only [List.filter_cons, hp, if_true, List.head?_cons, Option.some.injEq] at h
      subst h
      exact ⟨Nat.le_refl _, by omega, hp, fun v h1 h2 => by omega⟩
    · simp only [List.filter_cons, hp, Bool.false_eq_true, if_false] at h
      obtain ⟨h1, h2, h3, h4⟩ := ih (s + 1) w h
      refine ⟨by omega, by omega, h3, fun v hv1 hv2 => ?_⟩
      by_cases hv : v = s
      · subst hv; simpa using hp
      · exact h4 v (by omega) hv2

theorem head_filter_rangeFrom_none (p : Nat → Bool) (n s : Nat) :
    ((List.range' s n).filter p).head? = none ↔ ∀ v, s ≤ v → v < s + n → p v = false := by
  rw [List.head?_eq_none_iff, List.filter_eq_nil_iff]
  constructor
  · intro h v h1 h2
    have := h v (by rw [List.mem_range'_1]; omega)
    simpa using this
  · intro h v hv
    rw [List.mem_range'_1] at hv
    simp [h v hv.1 hv.2]

/-! ### wid histories -/

/-- the wids of the live workers are pairwise distinct and positive -/
def WInv (s : WState) : Prop := s.wids.Nodup ∧ ∀ w ∈ s.wids, 1 ≤ w

end Circus.FormatArgs
