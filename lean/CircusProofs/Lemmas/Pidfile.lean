import CircusModel.Model.Pidfile
import CircusProofs.Lemmas.PyInt
/-! Helper lemmas for the pid-file layer (C08). -/
namespace Circus.Pidfile
open Circus.PyInt

/-- what `int(f.read() or 0)` makes of the file's text, stated with the literal grammar: an empty
    file reads as 0, otherwise the text must be a decimal integer literal -/
def Reads (txt : Str) (w : Int) : Prop := (txt = [] ∧ w = 0) ∨ IsIntLit txt w

theorem intOr0_iff_reads (txt : Str) (w : Int) : intOr0 txt = some w ↔ Reads txt w := by
  unfold intOr0 Reads
  cases txt with
  | nil =>
    simp only [List.isEmpty_nil, if_true, Option.some.injEq, true_and]
    constructor
    · intro h; exact Or.inl h.symm
    · rintro (h | h)
      · exact h.symm
      · have := (parse_iff_lit [] w).mpr h
        simp [parse, parseBody, scan] at this
  | cons c cs =>
    simp only [List.isEmpty_cons, Bool.false_eq_true, if_false]
    rw [parse_iff_lit]
    constructor
    · exact Or.inr
    · rintro (⟨h, _⟩ | h)
      · exact absurd h (by simp)
      · exact h

theorem intOr0_none_iff (txt : Str) : intOr0 txt = none ↔ ∀ w, ¬ Reads txt w := by
  constructor
  · intro h w hw
    rw [← intOr0_iff_reads, h] at hw
    exact absurd hw (by simp)
  · intro h
    cases hi : intOr0 txt with
    | none => rfl
    | some w => exact absurd ((intOr0_iff_reads txt w).mp hi) (h w)

/-- `validate` never answers with one of `create`'s own RuntimeErrors -/
theorem validate_raised (file : Option Str) (live : Int → Live) (e : Exc)
    (h : validate file live = .raised e) : e = .osError := by
  unfold validate at h
  split at h
  · exact absurd h (by simp)
  · split at h
    · exact absurd h (by simp)
    · split at h
      · exact absurd h (by simp)
      · split at h
        · exact absurd h (by simp)
        · split at h
          · exact absurd h (by simp)
          · exact absurd h (by simp)
          · injection h with h; exact h.symm

/-- decision table of `validate` on a file that exists and parses -/
theorem validate_parsed (txt : Str) (live : Int → Live) (w : Int) (h : intOr0 txt = some w) :
    validate (some txt) live =
      if w ≤ 0 then .none else if w > INT_MAX then .none else
        match live w with
        | .alive => .owner w
        | .dead => .none
        | .eperm => .raised .osError := by
  simp only [validate, h]
  rfl

theorem validate_owner_iff (file : Option Str) (live : Int → Live) (w : Int) :
    validate file live = .owner w ↔
      ∃ txt, file = some txt ∧ intOr0 txt = some w ∧ 0 < w ∧ w ≤ INT_MAX ∧ live w = .alive := by
  constructor
  · intro h
    unfold validate at h
    split at h
    · exact absurd h (by simp)
    · rename_i txt
      split at h
      · exact absurd h (by simp)
      · rename_i w' hw'
        split at h
        · exact absurd h (by simp)
        · rename_i hpos
          split at h
          · exact absurd h (by simp)
          · rename_i hfit
            split at h
            · rename_i hl
              injection h with h
              subst h
              exact ⟨txt, rfl, hw', by omega, by omega, hl⟩
            · exact absurd h (by simp)
            · exact absurd h (by simp)
  · rintro ⟨txt, rfl, hw, hpos, hfit, hl⟩
    rw [validate_parsed txt live w hw]
    simp [Int.not_le.mpr hpos, Int.not_lt.mpr hfit, hl]

theorem validate_osError_iff (file : Option Str) (live : Int → Live) :
    validate file live = .raised .osError ↔
      ∃ txt w, file = some txt ∧ intOr0 txt = some w ∧ 0 < w ∧ w ≤ INT_MAX ∧ live w = .eperm := by
  constructor
  · intro h
    unfold validate at h
    split at h
    · exact absurd h (by simp)
    · rename_i txt
      split at h
      · exact absurd h (by simp)
      · rename_i w' hw'
        split at h
        · exact absurd h (by simp)
        · rename_i hpos
          split at h
          · exact absurd h (by simp)
          · rename_i hfit
            split at h
            · exact absurd h (by simp)
            · exact absurd h (by simp)
            · rename_i hl
              exact ⟨txt, w', rfl, hw', by omega, by omega, hl⟩
  · rintro ⟨txt, w, rfl, hw, hpos, hfit, hl⟩
    rw [validate_parsed txt live w hw]
    simp [Int.not_le.mpr hpos, Int.not_lt.mpr hfit, hl]

/-- `create` passes `validate`'s exceptions on and adds only RuntimeErrors of its own -/
theorem create_raised_iff (st : St) (live : Int → Live) (dirOk : Bool) (pid : Int) (e : Exc)
    (he : e = .osError) :
    (create st live dirOk pid).2 = .raised e ↔ validate st.file live = .raised e := by
  unfold create
  cases hv : validate st.file live with
  | none => cases dirOk <;> simp [he]
  | owner old => by_cases h : old = pid <;> simp [h, he]
  | raised e' => simp

theorem create_raised_untouched (st : St) (live : Int → Live) (dirOk : Bool) (pid : Int) (e : Exc)
    (h : validate st.file live = .raised e) : create st live dirOk pid = (st, .raised e) := by
  unfold create; rw [h]

/-- after a take-over the file reads back as the pid that was written -/
theorem intOr0_render (pid : Int) (h : pid.natAbs < 10 ^ maxStrDigits) :
    intOr0 (render pid ++ [10]) = some pid := by
  unfold intOr0
  have : (render pid ++ [10]).isEmpty = false := by
    cases h' : render pid ++ [10] with
    | nil => simp at h'
    | cons _ _ => rfl
  rw [this]
  exact parse_render_nl pid h

/-- turns after which the `while restart:` loop goes round again without touching the pid file -/
def Turn.continues : Turn → Bool
  | .finished true => true
  | .interruptedEarly => true
  | _ => false

/-- turns that end the daemon the regular way (`restart is False`, no exception left) -/
def Turn.endsCleanly : Turn → Bool
  | .finished false => true
  | .futureException => true
  | .interruptedLate => true
  | _ => false

theorem mainLoop_continues (st : St) (pre : List Turn) (rest : List Turn)
    (h : ∀ t ∈ pre, t.continues = true) : mainLoop st (pre ++ rest) = mainLoop st rest := by
  induction pre with
  | nil => rfl
  | cons t ts ih =>
    have ht := h t (by simp)
    have := ih (fun x hx => h x (by simp [hx]))
    cases t with
    | finished b => cases b <;> simp_all [mainLoop, Turn.continues]
    | interruptedEarly => simp_all [mainLoop]
    | _ => simp [Turn.continues] at ht

end Circus.Pidfile
