import CircusProofs.Lemmas.RedirectorInv
/-! Counting lemmas for C17 "no leak": sizes of `pipes` / `_active`, stale entries, and the bound on
the descriptor table that makes entries not accumulate per worker generation. -/
namespace Circus.Redirector

theorem length_filter_add (l : List α) (p : α → Bool) :
    l.length = (l.filter p).length + (l.filter (fun x => !p x)).length := by
  induction l with
  | nil => rfl
  | cons x l ih => by_cases h : p x <;> simp [h, ih] <;> omega

/-- descriptor numbers held open by a worker object -/
def fdsOf (w : Worker) : List Nat :=
  (match w.out with | .opened fd => [fd] | _ => []) ++ (match w.err with | .opened fd => [fd] | _ => [])

def openFds (procs : List Worker) : List Nat := procs.flatMap fdsOf

theorem mem_fdsOf {w : Worker} {c : Chan} {fd : Nat} (h : w.pobj c = .opened fd) : fd ∈ fdsOf w := by
  unfold fdsOf
  cases c
  · have h' : w.out = .opened fd := h
    simp [h']
  · have h' : w.err = .opened fd := h
    simp [h']

theorem openFds_length (procs : List Worker) : (openFds procs).length ≤ 2 * (procs.filter Worker.hasPipes).length := by
  induction procs with
  | nil => simp [openFds]
  | cons w l ih =>
    have hw : (fdsOf w).length ≤ (if w.hasPipes then 2 else 0) := by
      unfold fdsOf Worker.hasPipes
      cases w.out <;> cases w.err <;> simp
    have e : openFds (w :: l) = fdsOf w ++ openFds l := by simp [openFds]
    rw [e, List.length_append]
    by_cases hp : w.hasPipes
    · rw [if_pos hp] at hw
      rw [List.filter_cons_of_pos hp, List.length_cons]
      omega
    · rw [if_neg hp] at hw
      rw [List.filter_cons_of_neg hp]
      omega

theorem openFds_length_le (procs : List Worker) : (openFds procs).length ≤ 2 * procs.length := by
  have := openFds_length procs
  have h2 : (procs.filter Worker.hasPipes).length ≤ procs.length := List.length_filter_le _ _
  omega

/-- every open slot of the table is held by a live worker -/
theorem occ_of_inv {s : State} (h : Inv s) : ∀ j, lookup s.fdt j ≠ none → j ∈ openFds s.procs := by
  intro j hj
  cases hl : lookup s.fdt j with
  | none => exact absurd hl hj
  | some p =>
    obtain ⟨w, hw, _, h2⟩ := h.owned j p hl
    exact List.mem_flatMap.mpr ⟨w, hw, mem_fdsOf h2⟩

theorem keys_length (d : Dict) : d.keys.length = d.length := by simp [Dict.keys]

/-- sizes of the two dictionaries in any state satisfying the invariant -/
theorem sizes_of_inv {s : State} (h : Inv s) :
    s.red.pipes.length ≤ 2 * liveWithPipes s + staleCount s ∧ s.red.active.length ≤ s.red.pipes.length ∧
    s.red.pipes.length ≤ s.fdt.length := by
  refine ⟨?_, ?_, ?_⟩
  · unfold staleCount liveWithPipes
    rw [length_filter_add s.red.pipes (fun e => (lookup s.fdt e.fd).isNone)]
    have hsub : ((s.red.pipes.filter (fun e => !(lookup s.fdt e.fd).isNone)).map Entry.fd) ⊆ openFds s.procs := by
      intro j hj
      obtain ⟨e, he, rfl⟩ := List.mem_map.mp hj
      have := (List.mem_filter.mp he).2
      apply occ_of_inv h
      intro hx; rw [hx] at this; simp at this
    have hnd : ((s.red.pipes.filter (fun e => !(lookup s.fdt e.fd).isNone)).map Entry.fd).Nodup :=
      (List.Sublist.map _ List.filter_sublist).nodup h.red.pipesNodup
    have h1 := hnd.length_le_of_subset hsub
    have h2 := openFds_length s.procs
    simp only [List.length_map] at h1
    omega
  · have := h.red.activeNodup.length_le_of_subset (fun j hj => h.red.activeSub j hj)
    simpa [keys_length] using this
  · have hsub : s.red.pipes.keys ⊆ List.range s.fdt.length := by
      intro j hj
      obtain ⟨e, he, rfl⟩ := (Dict.mem_keys _ _).mp hj
      exact List.mem_range.mpr (h.pipesLab e he).1
    have := h.red.pipesNodup.length_le_of_subset hsub
    simpa [keys_length] using this

/-! ### stale entries come from `staleLeft` only -/

theorem closeOC_length (P : Dict) (t : List (Option Pipe)) (w : Worker) :
    (closeOutputChannels P t w).1.length = t.length := by
  unfold closeOutputChannels
  cases w.err <;> cases w.out <;> simp [closeObj]

theorem write_shape (s : State) (pid : Nat) (chan : Chan) (bytes : Bytes) :
    (∃ o, step s (.write pid chan bytes) = (s, o)) ∨
    ∃ fd p p' o, lookup s.fdt fd = some p ∧ step s (.write pid chan bytes) = (setPipe s fd p', o) := by
  simp only [step]
  cases findProc s pid with
  | none => exact Or.inl ⟨_, rfl⟩
  | some w =>
    simp only
    cases w.pobj chan with
    | absent => exact Or.inl ⟨_, rfl⟩
    | closed => exact Or.inl ⟨_, rfl⟩
    | opened fd =>
      simp only
      cases hl : lookup s.fdt fd with
      | none => exact Or.inl ⟨_, rfl⟩
      | some p =>
        simp only
        by_cases hw : p.wOpen
        · rw [if_pos hw]; exact Or.inr ⟨fd, p, _, _, hl, rfl⟩
        · rw [if_neg hw]; exact Or.inl ⟨_, rfl⟩

theorem closeWriter_shape (s : State) (pid : Nat) (chan : Chan) :
    (∃ o, step s (.closeWriter pid chan) = (s, o)) ∨
    ∃ fd p p' o, lookup s.fdt fd = some p ∧ step s (.closeWriter pid chan) = (setPipe s fd p', o) := by
  simp only [step]
  cases findProc s pid with
  | none => exact Or.inl ⟨_, rfl⟩
  | some w =>
    simp only
    cases w.pobj chan with
    | absent => exact Or.inl ⟨_, rfl⟩
    | closed => exact Or.inl ⟨_, rfl⟩
    | opened fd =>
      simp only
      cases hl : lookup s.fdt fd with
      | none => exact Or.inl ⟨_, rfl⟩
      | some p =>
        simp only
        by_cases hw : p.wOpen
        · rw [if_pos hw]; exact Or.inr ⟨fd, p, _, _, hl, rfl⟩
        · rw [if_neg hw]; exact Or.inl ⟨_, rfl⟩

theorem ready_shape (s : State) (fd : Nat) :
    (∃ o, step s (.ready fd) = (s, o)) ∨
    (∃ p p' o, lookup s.fdt fd = some p ∧ step s (.ready fd) = (setPipe s fd p', o)) ∨
    (∃ o, step s (.ready fd) = ({ s with red := (removeFd s.red fd).1 }, o)) := by
  simp only [step, handlerCall]
  cases s.red.active.get fd with
  | none => exact Or.inl ⟨_, rfl⟩
  | some hd =>
    simp only
    cases hl : lookup s.fdt fd with
    | none => exact Or.inl ⟨_, rfl⟩
    | some p =>
      simp only
      split
      · exact Or.inl ⟨_, rfl⟩
      · split
        · exact Or.inr (Or.inr ⟨_, rfl⟩)
        · exact Or.inr (Or.inl ⟨p, _, _, rfl, rfl⟩)

theorem setPipe_none {s : State} {fd j : Nat} {p p' : Pipe} (hp : lookup s.fdt fd = some p)
    (hl : lookup (setPipe s fd p').fdt j = none) : lookup s.fdt j = none := by
  change lookup (s.fdt.set fd (some p')) j = none at hl
  rw [lookup_set_some hp] at hl
  split at hl
  · cases hl
  · exact hl

/-- an entry that is stale after a step was stale before it, or the step said `staleLeft` -/
theorem step_stale {s : State} (h : Inv s) (op : Op) :
    ∀ e ∈ (step s op).1.red.pipes, lookup (step s op).1.fdt e.fd = none →
      (e ∈ s.red.pipes ∧ lookup s.fdt e.fd = none) ∨ Out.staleLeft e.fd ∈ (step s op).2 := by
  cases op with
  | spawn po pe =>
    obtain ⟨out, err, t2, f, e⟩ := spawn_alloc s po pe
    rw [e]
    obtain ⟨_, _, r3, _, _⟩ := addRedirections_spec h.red ⟨s.nextPid, out, err⟩ f.notClosed f.distinct
    intro e' he' hl
    change lookup t2 e'.fd = none at hl
    rw [f.lk] at hl
    rcases r3 e' he' with ⟨c, h1, _⟩ | ⟨h1, h2⟩
    · exfalso
      cases c
      · have h1' : out = .opened e'.fd := h1
        rw [if_pos h1'] at hl; cases hl
      · have h1' : err = .opened e'.fd := h1
        split at hl
        · cases hl
        · first | cases hl | (rw [if_pos h1'] at hl; cases hl)
    · have h3 : ¬ out = .opened e'.fd := h2 .stdout
      have h4 : ¬ err = .opened e'.fd := h2 .stderr
      rw [if_neg h3, if_neg h4] at hl
      exact Or.inl ⟨h1, hl⟩
  | write pid chan bytes =>
    rcases write_shape s pid chan bytes with ⟨o, e⟩ | ⟨fd, p, p', o, hp, e⟩
    · rw [e]; exact fun e he hl => Or.inl ⟨he, hl⟩
    · rw [e]; exact fun e he hl => Or.inl ⟨he, setPipe_none hp hl⟩
  | closeWriter pid chan =>
    rcases closeWriter_shape s pid chan with ⟨o, e⟩ | ⟨fd, p, p', o, hp, e⟩
    · rw [e]; exact fun e he hl => Or.inl ⟨he, hl⟩
    · rw [e]; exact fun e he hl => Or.inl ⟨he, setPipe_none hp hl⟩
  | ready fd =>
    rcases ready_shape s fd with ⟨o, e⟩ | ⟨p, p', o, hp, e⟩ | ⟨o, e⟩
    · rw [e]; exact fun e he hl => Or.inl ⟨he, hl⟩
    · rw [e]; exact fun e he hl => Or.inl ⟨he, setPipe_none hp hl⟩
    · rw [e]
      intro e he hl
      change e ∈ (removeFd s.red fd).1.pipes at he
      rw [removeFd_fst] at he
      exact Or.inl ⟨((Dict.mem_del _ _ _).mp he).1, hl⟩
  | killProcess pid =>
    intro e he hl
    simp only [step] at he hl ⊢
    cases hfp : findProc s pid with
    | none => rw [hfp] at he hl; exact Or.inl ⟨he, hl⟩
    | some w =>
      rw [hfp] at he hl
      simp only at he hl ⊢
      obtain ⟨hw, _⟩ := findProc_some hfp
      obtain ⟨_, _, i3, _, _, _⟩ := removeRedirections_spec h.red w
      generalize removeRedirections s.red w = rr at i3 he hl ⊢
      obtain ⟨r', o1⟩ := rr
      obtain ⟨c1, _, _, _, _, c6⟩ := closeOC_spec h hw r'.pipes
      generalize closeOutputChannels r'.pipes s.fdt w = cc at c1 c6 he hl ⊢
      obtain ⟨t', o2⟩ := cc
      simp only at i3 c1 c6 he hl ⊢
      rw [c1] at hl
      split at hl
      · rename_i hfd
        refine Or.inr (List.mem_append_right _ ((c6 e.fd).mpr ⟨hfd, ?_⟩))
        exact (Dict.has_iff _ _).mpr ((Dict.mem_keys _ _).mpr ⟨e, he, rfl⟩)
      · exact Or.inl ⟨i3 e he, hl⟩
  | reapSelfExited pid =>
    intro e he hl
    simp only [step] at he hl ⊢
    cases hfp : findProc s pid with
    | none => rw [hfp] at he hl; exact Or.inl ⟨he, hl⟩
    | some w =>
      rw [hfp] at he hl
      simp only at he hl ⊢
      obtain ⟨hw, _⟩ := findProc_some hfp
      obtain ⟨c1, _, _, _, _, c6⟩ := closeOC_spec h hw s.red.pipes
      generalize closeOutputChannels s.red.pipes s.fdt w = cc at c1 c6 he hl ⊢
      obtain ⟨t', o2⟩ := cc
      simp only at c1 c6 he hl ⊢
      rw [c1] at hl
      split at hl
      · rename_i hfd
        refine Or.inr ((c6 e.fd).mpr ⟨hfd, ?_⟩)
        exact (Dict.has_iff _ _).mpr ((Dict.mem_keys _ _).mpr ⟨e, he, rfl⟩)
      · exact Or.inl ⟨he, hl⟩
  | start =>
    intro e he hl
    simp only [step] at he hl
    obtain ⟨_, i2, _, _, _⟩ := start_spec h.red
    generalize start s.red = st at i2 he hl
    obtain ⟨r', o'⟩ := st
    simp only at i2 he hl
    rw [i2] at he
    exact Or.inl ⟨he, hl⟩
  | stop =>
    intro e he hl
    simp only [step] at he hl
    obtain ⟨_, i2, _, _, _⟩ := stop_spec h.red
    generalize stop s.red = st at i2 he hl
    obtain ⟨r', o'⟩ := st
    simp only at i2 he hl
    rw [i2] at he
    exact Or.inl ⟨he, hl⟩
  | lateRemove pid =>
    intro e he hl
    exact Or.inl ⟨he, hl⟩

/-- no entry of `pipes` names a closed descriptor -/
def NoStale (s : State) : Prop := ∀ e ∈ s.red.pipes, lookup s.fdt e.fd ≠ none

theorem staleCount_zero {s : State} (h : NoStale s) : staleCount s = 0 := by
  unfold staleCount
  rw [List.length_eq_zero_iff, List.filter_eq_nil_iff]
  intro e he
  have := h e he
  cases hl : lookup s.fdt e.fd with
  | none => exact absurd hl this
  | some p => simp

theorem run_noStale {s : State} {outs : List Out} (h : Inv s) (a : Acc s outs) (hn : NoStale s) (ops : List Op)
    (hs : ∀ fd, Out.staleLeft fd ∉ (run s ops).2.flatten) : NoStale (run s ops).1 := by
  induction ops generalizing s outs with
  | nil => exact hn
  | cons op ops ih =>
    have hst := step_stale h op
    obtain ⟨h1, a1⟩ := step_ok h a op
    have ih' := ih h1 a1
    simp only [run] at hs ⊢
    generalize step s op = so at hst h1 a1 ih' hs ⊢
    obtain ⟨s1, o1⟩ := so
    generalize hro : run s1 ops = ro at ih' hs ⊢
    obtain ⟨s2, os⟩ := ro
    simp only [List.flatten_cons] at hs
    refine ih' ?_ (fun fd hx => hs fd (List.mem_append_right _ hx))
    intro e he hl
    rcases hst e he hl with ⟨h2, h3⟩ | h2
    · exact hn e h2 h3
    · exact hs e.fd (List.mem_append_left _ h2)

/-! ### the descriptor table does not grow beyond twice the peak number of live workers -/

theorem kpipe_length {t : List (Option Pipe)} {L : List Nat} (hocc : ∀ j, lookup t j ≠ none → j ∈ L)
    (pid : Nat) (c : Chan) :
    (kpipe t pid c).2.length ≤ max t.length (L.length + 1) ∧
    (∀ j, lookup (kpipe t pid c).2 j ≠ none → j ∈ (kpipe t pid c).1 :: L) := by
  obtain ⟨_, k2, _, _⟩ := kpipe_spec t pid c
  refine ⟨?_, ?_⟩
  · unfold kpipe
    simp only
    rw [length_install (lowestFree_le t)]
    split
    · omega
    · rename_i hlt
      have hfull : lowestFree t = t.length := by have := lowestFree_le t; omega
      have hsub : List.range t.length ⊆ L := by
        intro j hj
        exact hocc j (lookup_below_lowestFree t j (by rw [hfull]; exact List.mem_range.mp hj))
      have := List.nodup_range.length_le_of_subset hsub
      simp only [List.length_range] at this
      omega
  · intro j hj
    rw [k2] at hj
    split at hj
    · rename_i h1; rw [h1]; exact List.mem_cons_self
    · exact List.mem_cons_of_mem _ (hocc j hj)

/-- length of the descriptor table after a step -/
theorem step_fdt_length {s : State} (h : Inv s) (op : Op) :
    (step s op).1.fdt.length ≤ max s.fdt.length (2 * (step s op).1.procs.length) := by
  have hocc := occ_of_inv h
  have hL := openFds_length_le s.procs
  cases op with
  | spawn po pe =>
    cases po <;> cases pe
    · show s.fdt.length ≤ _
      omega
    · obtain ⟨k1, _⟩ := kpipe_length hocc s.nextPid .stderr
      show (kpipe s.fdt s.nextPid .stderr).2.length ≤ max s.fdt.length (2 * (s.procs ++ [_]).length)
      simp only [List.length_append, List.length_singleton]
      omega
    · obtain ⟨k1, _⟩ := kpipe_length hocc s.nextPid .stdout
      show (kpipe s.fdt s.nextPid .stdout).2.length ≤ max s.fdt.length (2 * (s.procs ++ [_]).length)
      simp only [List.length_append, List.length_singleton]
      omega
    · obtain ⟨k1, k2⟩ := kpipe_length hocc s.nextPid .stdout
      obtain ⟨l1, _⟩ := kpipe_length k2 s.nextPid .stderr
      show (kpipe (kpipe s.fdt s.nextPid .stdout).2 s.nextPid .stderr).2.length ≤
        max s.fdt.length (2 * (s.procs ++ [_]).length)
      simp only [List.length_append, List.length_singleton, List.length_cons] at l1 ⊢
      omega
  | write pid chan bytes =>
    have : (step s (.write pid chan bytes)).1.fdt.length = s.fdt.length := by
      simp only [step]
      repeat' split
      all_goals simp
    omega
  | closeWriter pid chan =>
    have : (step s (.closeWriter pid chan)).1.fdt.length = s.fdt.length := by
      simp only [step]
      repeat' split
      all_goals simp
    omega
  | ready fd =>
    have : (step s (.ready fd)).1.fdt.length = s.fdt.length := by
      simp only [step, handlerCall]
      repeat' split
      all_goals simp
    omega
  | killProcess pid =>
    have : (step s (.killProcess pid)).1.fdt.length = s.fdt.length := by
      simp only [step]
      split
      · rfl
      · rename_i w _
        generalize removeRedirections s.red w = rr
        obtain ⟨r', o1⟩ := rr
        exact closeOC_length r'.pipes s.fdt w
    omega
  | reapSelfExited pid =>
    have : (step s (.reapSelfExited pid)).1.fdt.length = s.fdt.length := by
      simp only [step]
      split
      · rfl
      · rename_i w _
        exact closeOC_length s.red.pipes s.fdt w
    omega
  | start =>
    have : (step s .start).1.fdt.length = s.fdt.length := rfl
    omega
  | stop =>
    have : (step s .stop).1.fdt.length = s.fdt.length := rfl
    omega
  | lateRemove pid =>
    have : (step s (.lateRemove pid)).1.fdt.length = s.fdt.length := rfl
    have : (step s (.lateRemove pid)).1.procs.length = s.procs.length := rfl
    omega

theorem peakLive_ge (s : State) (ops : List Op) : s.procs.length ≤ peakLive s ops := by
  cases ops with
  | nil => exact Nat.le_refl _
  | cons op ops => exact Nat.le_max_left _ _

theorem run_fdt_length {s : State} {outs : List Out} (h : Inv s) (a : Acc s outs) (ops : List Op) (N : Nat)
    (h0 : s.fdt.length ≤ 2 * N) (hp : peakLive s ops ≤ N) : (run s ops).1.fdt.length ≤ 2 * N := by
  induction ops generalizing s outs with
  | nil => exact h0
  | cons op ops ih =>
    obtain ⟨h1, a1⟩ := step_ok h a op
    have hl := step_fdt_length h op
    simp only [peakLive] at hp
    have hp2 : peakLive (step s op).1 ops ≤ N := by omega
    have hp3 := peakLive_ge (step s op).1 ops
    have := ih h1 a1 (by omega) hp2
    simp only [run]
    generalize step s op = so at this ⊢
    obtain ⟨s1, o1⟩ := so
    generalize run s1 ops = ro at this ⊢
    obtain ⟨s2, os⟩ := ro
    exact this

end Circus.Redirector
