import CircusModel.Model.StreamWiring
/-!
Helper lemmas and the invariant of the stream wiring layer (C17, wiring part).

`Inv` has five parts:
* `RedOk`       the redirector's two targets are the watcher's two stream attributes;
* `AttrOk ch`   the attribute of channel `ch` is a stream built FOR `ch` whose kwargs are `ch`'s current
                configuration (or the configuration is one `get_stream` refuses: the `set` that wrote it was answered
                with ValueError), or the ready-made object `ch`'s configuration names;
* `ClosedBound` only objects that exist are closed;
* `OpenOk`      while the watcher is not stopped, an attribute stream whose class has `open` is open.
-/
namespace Circus.Wiring

/-! ## dicts -/

theorem cget_cset (c : Conf) (k v q : Nat) :
    cget (cset c k v) q = if q = k then some v else cget c q := by
  induction c with
  | nil =>
    by_cases h : q = k
    · subst h; simp [cset, cget]
    · have : ¬ k = q := fun e => h e.symm
      simp [cset, cget, h, this]
  | cons kv rest ih =>
    obtain ⟨k', v'⟩ := kv
    by_cases hk : k' = k
    · subst hk
      by_cases h : q = k'
      · subst h; simp [cset, cget]
      · have : ¬ k' = q := fun e => h e.symm
        simp [cset, cget, h, this]
    · by_cases h : q = k
      · subst h; simp [cset, cget, hk, ih]
      · simp only [cset, hk, if_false, cget, ih, h]

theorem cset_ne_nil (c : Conf) (k v : Nat) : cset c k v ≠ [] := by
  cases c with
  | nil => simp [cset]
  | cons kv rest =>
    obtain ⟨k', v'⟩ := kv
    by_cases h : k' = k <;> simp [cset, h]

theorem cget_cpop_self (c : Conf) (k : Nat) : cget (cpop c k) k = none := by
  induction c with
  | nil => rfl
  | cons kv rest ih =>
    obtain ⟨k', v'⟩ := kv
    by_cases h : k' = k
    · subst h; simpa [cpop, List.filter] using ih
    · simp only [cpop, List.filter, ne_eq, h, not_false_eq_true, decide_true, cget, if_false]
      exact ih

/-! ## get_stream -/

/-- the conf is one `get_stream` refuses -/
def Invalid (c : Option Conf) : Prop := (getStream c).2 = .invalid

instance (c : Option Conf) : Decidable (Invalid c) := by unfold Invalid; infer_instance

/-- the five ways through `get_stream` for a dict -/
theorem getStream_cases (c : Conf) :
    (c = [] ∧ getStream (some c) = (some c, .nothing)) ∨
    (c ≠ [] ∧ ∃ v, cget c kClass = some v ∧
        getStream (some c) = (some (cpop c kClass), .build (clsOf v) (cpop c kClass))) ∨
    (c ≠ [] ∧ cget c kClass = none ∧ ∃ v, cget c kStream = some v ∧ getStream (some c) = (some c, .given v)) ∨
    (c ≠ [] ∧ cget c kClass = none ∧ cget c kStream = none ∧ chas c kFilename = true ∧
        getStream (some c) = (some c, .build .file c)) ∨
    (c ≠ [] ∧ cget c kClass = none ∧ cget c kStream = none ∧ chas c kFilename = false ∧
        getStream (some c) = (some c, .invalid)) := by
  cases c with
  | nil => left; exact ⟨rfl, rfl⟩
  | cons a l =>
    right
    have hne : (a :: l) ≠ [] := by simp
    cases hcl : cget (a :: l) kClass with
    | some v => left; exact ⟨hne, v, rfl, by simp [getStream, hcl]⟩
    | none =>
      right
      cases hst : cget (a :: l) kStream with
      | some v => left; exact ⟨hne, rfl, v, rfl, by simp [getStream, hcl, hst]⟩
      | none =>
        right
        cases hf : chas (a :: l) kFilename with
        | true => left; exact ⟨hne, rfl, rfl, rfl, by simp [getStream, hcl, hst, hf]⟩
        | false => right; exact ⟨hne, rfl, rfl, rfl, by simp [getStream, hcl, hst, hf]⟩

theorem getStream_none : getStream none = (none, .nothing) := rfl

theorem getStream_some_fst (c : Conf) : ∃ c', (getStream (some c)).1 = some c' := by
  rcases getStream_cases c with ⟨_, h⟩ | ⟨_, _, _, h⟩ | ⟨_, _, _, _, h⟩ | ⟨_, _, _, _, h⟩ | ⟨_, _, _, _, h⟩ <;>
    exact ⟨_, by rw [h]⟩

/-- what a successful build hands to the constructor is exactly the conf left behind -/
theorem getStream_build (c : Option Conf) (c2 : Option Conf) (cls : Cls) (kw : Conf)
    (h : getStream c = (c2, .build cls kw)) : c2 = some kw := by
  cases c with
  | none => simp [getStream_none] at h
  | some c =>
    rcases getStream_cases c with ⟨_, e⟩ | ⟨_, _, _, e⟩ | ⟨_, _, _, _, e⟩ | ⟨_, _, _, _, e⟩ | ⟨_, _, _, _, e⟩ <;>
      rw [e] at h <;> simp only [Prod.mk.injEq, Got.build.injEq, reduceCtorEq, and_false] at h
    · obtain ⟨h1, _, h3⟩ := h; rw [← h1, ← h3]
    · obtain ⟨h1, _, h3⟩ := h; rw [← h1, ← h3]

/-- a `given` answer leaves the conf as it is, and the conf names that object -/
theorem getStream_given (c c2 : Option Conf) (v : Nat) (h : getStream c = (c2, .given v)) :
    c2 = c ∧ ∃ c0, c = some c0 ∧ cget c0 kClass = none ∧ cget c0 kStream = some v := by
  cases c with
  | none => simp [getStream_none] at h
  | some c =>
    rcases getStream_cases c with ⟨_, e⟩ | ⟨_, _, _, e⟩ | ⟨_, hc, w, hw, e⟩ | ⟨_, _, _, _, e⟩ | ⟨_, _, _, _, e⟩ <;>
      rw [e] at h <;> simp only [Prod.mk.injEq, Got.given.injEq, reduceCtorEq, and_false] at h
    obtain ⟨h1, h2⟩ := h
    subst h2
    exact ⟨h1.symm, c, rfl, hc, hw⟩

/-- an `invalid` answer leaves the conf as it is -/
theorem getStream_invalid (c c2 : Option Conf) (h : getStream c = (c2, .invalid)) : c2 = c := by
  cases c with
  | none => simp [getStream_none] at h
  | some c =>
    rcases getStream_cases c with ⟨_, e⟩ | ⟨_, _, _, e⟩ | ⟨_, _, _, _, e⟩ | ⟨_, _, _, _, e⟩ | ⟨_, _, _, _, e⟩ <;>
      rw [e] at h <;> simp only [Prod.mk.injEq, reduceCtorEq, and_false, and_true] at h
    exact h.symm

/-- `get_stream` answers None only for None / an empty dict -/
theorem getStream_nothing (c c2 : Option Conf) (h : getStream c = (c2, .nothing)) :
    c2 = c ∧ (c = none ∨ c = some []) := by
  cases c with
  | none => simp only [getStream_none, Prod.mk.injEq, and_true] at h; exact ⟨h.symm, Or.inl rfl⟩
  | some c =>
    rcases getStream_cases c with ⟨hc, e⟩ | ⟨_, _, _, e⟩ | ⟨_, _, _, _, e⟩ | ⟨_, _, _, _, e⟩ | ⟨_, _, _, _, e⟩ <;>
      rw [e] at h <;> simp only [Prod.mk.injEq, reduceCtorEq, and_false, and_true] at h
    exact ⟨h.symm, Or.inr (by rw [hc])⟩

/-- writing a key into a conf that names a ready-made object never makes it invalid -/
theorem given_cset_not_invalid (c : Conf) (v0 k v : Nat) (h : (getStream (some c)).2 = .given v0) :
    (getStream (some (cset c k v))).2 ≠ .invalid := by
  obtain ⟨_, c0, hc0, _, hs⟩ := getStream_given (some c) (getStream (some c)).1 v0 (by rw [← h])
  simp only [Option.some.injEq] at hc0
  subst hc0
  have hst : cget (cset c k v) kStream ≠ none := by
    rw [cget_cset, hs]; by_cases hk : kStream = k <;> simp [hk]
  rcases getStream_cases (cset c k v) with ⟨hc, _⟩ | ⟨_, _, _, e⟩ | ⟨_, _, _, _, e⟩ | ⟨_, _, h3, _, _⟩ | ⟨_, _, h3, _, _⟩
  · exact absurd hc (cset_ne_nil c k v)
  · rw [e]; simp
  · rw [e]; simp
  · exact absurd h3 hst
  · exact absurd h3 hst

/-! ## field projections of the state updates -/

@[simp] theorem setConf_conf_self (s : State) (ch : Chan) (c) : (s.setConf ch c).conf ch = c := by
  cases ch <;> rfl
@[simp] theorem setConf_conf_other (s : State) (ch : Chan) (c) : (s.setConf ch c).conf ch.other = s.conf ch.other := by
  cases ch <;> rfl
@[simp] theorem setConf_attr (s : State) (ch ch' : Chan) (c) : (s.setConf ch c).attr ch' = s.attr ch' := by
  cases ch <;> cases ch' <;> rfl
@[simp] theorem setConf_sOut (s : State) (ch : Chan) (c) : (s.setConf ch c).sOut = s.sOut := by cases ch <;> rfl
@[simp] theorem setConf_sErr (s : State) (ch : Chan) (c) : (s.setConf ch c).sErr = s.sErr := by cases ch <;> rfl
@[simp] theorem setConf_red (s : State) (ch : Chan) (c) : (s.setConf ch c).red = s.red := by cases ch <;> rfl
@[simp] theorem setConf_heap (s : State) (ch : Chan) (c) : (s.setConf ch c).heap = s.heap := by cases ch <;> rfl
@[simp] theorem setConf_closed (s : State) (ch : Chan) (c) : (s.setConf ch c).closed = s.closed := by cases ch <;> rfl
@[simp] theorem setConf_stopped (s : State) (ch : Chan) (c) : (s.setConf ch c).stopped = s.stopped := by cases ch <;> rfl

@[simp] theorem setAttr_attr_self (s : State) (ch : Chan) (x) : (s.setAttr ch x).attr ch = x := by
  cases ch <;> rfl
@[simp] theorem setAttr_attr_other (s : State) (ch : Chan) (x) : (s.setAttr ch x).attr ch.other = s.attr ch.other := by
  cases ch <;> rfl
@[simp] theorem setAttr_conf (s : State) (ch ch' : Chan) (x) : (s.setAttr ch x).conf ch' = s.conf ch' := by
  cases ch <;> cases ch' <;> rfl
@[simp] theorem setAttr_red (s : State) (ch : Chan) (x) : (s.setAttr ch x).red = s.red := by cases ch <;> rfl
@[simp] theorem setAttr_heap (s : State) (ch : Chan) (x) : (s.setAttr ch x).heap = s.heap := by cases ch <;> rfl
@[simp] theorem setAttr_closed (s : State) (ch : Chan) (x) : (s.setAttr ch x).closed = s.closed := by cases ch <;> rfl
@[simp] theorem setAttr_stopped (s : State) (ch : Chan) (x) : (s.setAttr ch x).stopped = s.stopped := by cases ch <;> rfl

@[simp] theorem other_other (ch : Chan) : ch.other.other = ch := by cases ch <;> rfl
theorem other_ne (ch : Chan) : ch.other ≠ ch := by cases ch <;> simp [Chan.other]
theorem eq_or_other (ch ch' : Chan) : ch' = ch ∨ ch' = ch.other := by cases ch <;> cases ch' <;> simp [Chan.other]

@[simp] theorem change_target_self (r : Redir) (ch : Chan) (x) : (r.change ch x).target ch = x := by
  cases ch <;> rfl
@[simp] theorem change_target_other (r : Redir) (ch : Chan) (x) : (r.change ch x).target ch.other = r.target ch.other := by
  cases ch <;> rfl
@[simp] theorem start_target (r : Redir) (ch : Chan) : r.start.target ch = r.target ch := by cases ch <;> rfl

theorem alloc_fst_fields (s : State) (ch : Chan) (g : Got) :
    (alloc s ch g).1.confOut = s.confOut ∧ (alloc s ch g).1.confErr = s.confErr ∧
    (alloc s ch g).1.sOut = s.sOut ∧ (alloc s ch g).1.sErr = s.sErr ∧ (alloc s ch g).1.red = s.red ∧
    (alloc s ch g).1.closed = s.closed ∧ (alloc s ch g).1.stopped = s.stopped := by
  cases g <;> simp [alloc]

/-- the reference an accepted `get_stream` answer becomes when `n` streams have been built so far -/
def newRef (n : Nat) : Got → Option Ref
  | .build _ _ => some (.built n)
  | .given v => some (.given v)
  | _ => none

/-- the heap entries an answer adds -/
def newEntry (ch : Chan) : Got → List Built
  | .build cls kw => [⟨ch, cls, kw⟩]
  | _ => []

/-- the state reached by an accepted `set`, before the old stream is closed / the redirector started -/
def setCore (s : State) (ch : Chan) (c2 : Option Conf) (g : Got) : State :=
  let a := alloc (s.setConf ch c2) ch g
  let s2 := a.1.setAttr ch a.2
  match s2.red with
  | some r => { s2 with red := some (r.change ch a.2) }
  | none => { s2 with red := some ⟨s2.sOut, s2.sErr, false⟩ }

/-- `Redirector.get_stream(stream_type) if self.stream_redirector else None` -/
def oldOf (s : State) (ch : Chan) : Option Ref :=
  match s.red with
  | some r => r.target ch
  | none => none

theorem oldOf_eq_deliver (s : State) (ch : Chan) : oldOf s ch = deliver s ch := rfl

theorem setOp_none (s : State) (ch : Chan) (k v : Nat) (hc : s.conf ch = none) :
    setOp s ch k v = (s, .typeError) := by
  unfold setOp; simp [hc]

theorem setOp_invalid (s : State) (ch : Chan) (k v : Nat) (c : Conf) (c2) (hc : s.conf ch = some c)
    (hg : getStream (some (cset c k v)) = (c2, .invalid)) :
    setOp s ch k v = (s.setConf ch (some (cset c k v)), .valueError) := by
  unfold setOp; simp [hc, hg]

theorem setOp_ok (s : State) (ch : Chan) (k v : Nat) (c : Conf) (c2) (g : Got) (hc : s.conf ch = some c)
    (hg : getStream (some (cset c k v)) = (c2, g)) (hi : g ≠ .invalid) :
    setOp s ch k v =
      match oldOf s ch with
      | some o => ((if (setCore s ch c2 g).sOut ≠ some o ∧ (setCore s ch c2 g).sErr ≠ some o ∧
                        (setCore s ch c2 g).hasClose o = true
                    then (setCore s ch c2 g).close o else setCore s ch c2 g), .ret 0)
      | none => ({ setCore s ch c2 g with red := (setCore s ch c2 g).red.map Redir.start }, .ret 1) := by
  unfold setOp
  simp only [hc, hg]
  cases g with
  | invalid => exact absurd rfl hi
  | nothing => rfl
  | build cls kw => rfl
  | given w => rfl

theorem alloc_snd (s : State) (ch : Chan) (g : Got) : (alloc s ch g).2 = newRef s.heap.length g := by
  cases g <;> rfl

theorem alloc_heap (s : State) (ch : Chan) (g : Got) : (alloc s ch g).1.heap = s.heap ++ newEntry ch g := by
  cases g <;> simp [alloc, newEntry]

theorem setCore_conf_self (s : State) (ch : Chan) (c2) (g) : (setCore s ch c2 g).conf ch = c2 := by
  obtain ⟨h1, h2, -⟩ := alloc_fst_fields (s.setConf ch c2) ch g
  unfold setCore
  cases ch <;> simp only [] <;> split <;> simp_all [State.conf, State.setAttr, State.setConf]

theorem setCore_conf_other (s : State) (ch : Chan) (c2) (g) : (setCore s ch c2 g).conf ch.other = s.conf ch.other := by
  obtain ⟨h1, h2, -⟩ := alloc_fst_fields (s.setConf ch c2) ch g
  unfold setCore
  cases ch <;> simp only [] <;> split <;> simp_all [State.conf, State.setAttr, State.setConf, Chan.other]

theorem setCore_attr_self (s : State) (ch : Chan) (c2) (g) :
    (setCore s ch c2 g).attr ch = newRef s.heap.length g := by
  have := alloc_snd (s.setConf ch c2) ch g
  rw [setConf_heap] at this
  unfold setCore
  cases ch <;> simp only [] <;> split <;> simp_all [State.attr, State.setAttr]

theorem setCore_attr_other (s : State) (ch : Chan) (c2) (g) :
    (setCore s ch c2 g).attr ch.other = s.attr ch.other := by
  obtain ⟨-, -, h3, h4, -⟩ := alloc_fst_fields (s.setConf ch c2) ch g
  unfold setCore
  cases ch <;> simp only [] <;> split <;> simp_all [State.attr, State.setAttr, State.setConf, Chan.other]

theorem setCore_heap (s : State) (ch : Chan) (c2) (g) : (setCore s ch c2 g).heap = s.heap ++ newEntry ch g := by
  have := alloc_heap (s.setConf ch c2) ch g
  rw [setConf_heap] at this
  unfold setCore
  simp only []
  split <;> simp_all

theorem setCore_closed (s : State) (ch : Chan) (c2) (g) : (setCore s ch c2 g).closed = s.closed := by
  obtain ⟨-, -, -, -, -, h6, -⟩ := alloc_fst_fields (s.setConf ch c2) ch g
  unfold setCore
  simp only []
  split <;> simp_all

theorem setCore_stopped (s : State) (ch : Chan) (c2) (g) : (setCore s ch c2 g).stopped = s.stopped := by
  obtain ⟨-, -, -, -, -, -, h7⟩ := alloc_fst_fields (s.setConf ch c2) ch g
  unfold setCore
  simp only []
  split <;> simp_all

/-- the redirector after an accepted `set`: present; the set channel's target is the new stream; the other
    channel's target is what it was, or the other attribute when the redirector is created now -/
theorem setCore_red (s : State) (ch : Chan) (c2) (g) :
    ∃ r, (setCore s ch c2 g).red = some r ∧ r.target ch = newRef s.heap.length g ∧
      r.target ch.other = (match s.red with | some r0 => r0.target ch.other | none => s.attr ch.other) ∧
      r.running = (match s.red with | some r0 => r0.running | none => false) := by
  obtain ⟨-, -, h3, h4, h5, -⟩ := alloc_fst_fields (s.setConf ch c2) ch g
  have hn := alloc_snd (s.setConf ch c2) ch g
  rw [setConf_heap] at hn
  rw [setConf_red] at h5
  unfold setCore
  simp only [setAttr_red, h5]
  cases hr : s.red with
  | some r0 =>
    refine ⟨r0.change ch (alloc (s.setConf ch c2) ch g).2, rfl, ?_, ?_, ?_⟩
    · rw [change_target_self, hn]
    · rw [change_target_other]
    · cases ch <;> rfl
  | none =>
    simp only []
    refine ⟨_, rfl, ?_, ?_, rfl⟩
    · cases ch <;> simp [Redir.target, State.setAttr, hn]
    · cases ch <;> simp_all [Redir.target, State.setAttr, State.attr, Chan.other]

/-! ## the invariant -/

/-- the redirector's targets are the watcher's stream attributes, channel by channel (no swap) -/
def RedOk (s : State) : Prop := ∀ r, s.red = some r → ∀ ch, r.target ch = s.attr ch

/-- where the attribute of `ch` comes from -/
def AttrOk (s : State) (ch : Chan) : Prop :=
  ∀ x, s.attr ch = some x →
    match x with
    | .built i => ∃ b, s.heap[i]? = some b ∧ b.chan = ch ∧ (s.conf ch = some b.kwargs ∨ Invalid (s.conf ch))
    | .given v => (getStream (s.conf ch)).2 = .given v

def ClosedBound (s : State) : Prop := ∀ i, Ref.built i ∈ s.closed → i < s.heap.length

def OpenOk (s : State) : Prop :=
  s.stopped = false → ∀ ch i b, s.attr ch = some (.built i) → s.heap[i]? = some b → b.cls.hasOpen = true →
    Ref.built i ∉ s.closed

structure Inv (s : State) : Prop where
  red : RedOk s
  attr : ∀ ch, AttrOk s ch
  closedBound : ClosedBound s
  openOk : OpenOk s

theorem getElemOpt_append_of_some {α} (l l' : List α) (i : Nat) (b : α) (h : l[i]? = some b) :
    (l ++ l')[i]? = some b := by
  have hi : i < l.length := by
    rcases Nat.lt_or_ge i l.length with h1 | h1
    · exact h1
    · rw [List.getElem?_eq_none_iff.mpr h1] at h; cases h
  rw [List.getElem?_append_left hi]; exact h

theorem lt_of_getElemOpt_some {α} (l : List α) (i : Nat) (b : α) (h : l[i]? = some b) : i < l.length := by
  rcases Nat.lt_or_ge i l.length with h1 | h1
  · exact h1
  · rw [List.getElem?_eq_none_iff.mpr h1] at h; cases h

/-- `AttrOk` only looks at the channel's attribute, its conf and the heap, and survives heap growth -/
theorem AttrOk.congr {s s' : State} {ch : Chan} (h : AttrOk s ch) (ha : s'.attr ch = s.attr ch)
    (hc : s'.conf ch = s.conf ch) (l : List Built) (hh : s'.heap = s.heap ++ l) : AttrOk s' ch := by
  intro x hx
  rw [ha] at hx
  have := h x hx
  cases x with
  | built i =>
    obtain ⟨b, hb, hch, hk⟩ := this
    exact ⟨b, by rw [hh]; exact getElemOpt_append_of_some _ _ _ _ hb, hch, by rw [hc]; exact hk⟩
  | given v => simpa only [hc] using this

theorem RedOk.congr {s s' : State} (h : RedOk s) (hr : s'.red = s.red) (ha : ∀ ch, s'.attr ch = s.attr ch) :
    RedOk s' := by
  intro r hr' ch
  rw [hr] at hr'
  rw [ha]; exact h r hr' ch

/-- an `hasClose` answer `true` means the object exists -/
theorem hasClose_built_lt (s : State) (i : Nat) (h : s.hasClose (.built i) = true) : i < s.heap.length := by
  unfold State.hasClose State.clsOfRef at h
  cases hb : s.heap[i]? with
  | none => simp [hb] at h
  | some b => exact lt_of_getElemOpt_some _ _ _ hb

theorem hasOpen_built (s : State) (i : Nat) (b : Built) (hb : s.heap[i]? = some b) :
    s.hasOpen (.built i) = b.cls.hasOpen := by
  simp [State.hasOpen, State.clsOfRef, hb]

theorem hasClose_built (s : State) (i : Nat) (b : Built) (hb : s.heap[i]? = some b) :
    s.hasClose (.built i) = b.cls.hasClose := by
  simp [State.hasClose, State.clsOfRef, hb]

/-! ### `set` -/

theorem setCore_redOk (s : State) (ch : Chan) (c2) (g) (h : RedOk s) : RedOk (setCore s ch c2 g) := by
  obtain ⟨r, hr, h1, h2, -⟩ := setCore_red s ch c2 g
  intro r' hr' ch'
  rw [hr] at hr'
  cases hr'
  rcases eq_or_other ch ch' with e | e <;> subst e
  · rw [h1, setCore_attr_self]
  · rw [h2, setCore_attr_other]
    cases hs : s.red with
    | some r0 => exact h r0 hs _
    | none => rfl

theorem setCore_attrOk (s : State) (ch : Chan) (c : Conf) (c2) (g)
    (hg : getStream (some c) = (c2, g)) (h : ∀ ch', AttrOk s ch') : ∀ ch', AttrOk (setCore s ch c2 g) ch' := by
  intro ch'
  rcases eq_or_other ch ch' with e | e <;> subst e
  · intro x hx
    rw [setCore_attr_self] at hx
    cases g with
    | nothing => cases hx
    | invalid => cases hx
    | build cls kw =>
      cases hx
      refine ⟨⟨ch', cls, kw⟩, ?_, rfl, Or.inl ?_⟩
      · rw [setCore_heap]; simp [newEntry]
      · rw [setCore_conf_self]; exact getStream_build _ _ _ _ hg
    | given w =>
      cases hx
      show (getStream ((setCore s ch' c2 (Got.given w)).conf ch')).2 = _
      rw [setCore_conf_self]
      have := (getStream_given _ _ _ hg).1
      rw [this, hg]
  · exact (h ch.other).congr (setCore_attr_other s ch c2 g) (setCore_conf_other s ch c2 g) _ (setCore_heap s ch c2 g)

theorem setCore_closedBound (s : State) (ch : Chan) (c2) (g) (h : ClosedBound s) : ClosedBound (setCore s ch c2 g) := by
  intro i hi
  rw [setCore_closed] at hi
  rw [setCore_heap, List.length_append]
  exact Nat.lt_of_lt_of_le (h i hi) (Nat.le_add_right _ _)

theorem newRef_built (n : Nat) (g : Got) (i : Nat) (h : newRef n g = some (.built i)) : i = n := by
  cases g <;> simp [newRef] at h
  exact h.symm

theorem setCore_openOk (s : State) (ch : Chan) (c2) (g) (h : Inv s) : OpenOk (setCore s ch c2 g) := by
  intro hst ch' i b ha hb ho
  rw [setCore_stopped] at hst
  rw [setCore_closed]
  rcases eq_or_other ch ch' with e | e <;> subst e
  · rw [setCore_attr_self] at ha
    have := newRef_built _ _ _ ha
    subst this
    intro hc
    exact Nat.lt_irrefl _ (h.closedBound _ hc)
  · rw [setCore_attr_other] at ha
    obtain ⟨b0, hb0, -, -⟩ := h.attr ch.other _ ha
    have : b = b0 := by
      rw [setCore_heap, getElemOpt_append_of_some _ _ _ _ hb0] at hb
      cases hb; rfl
    subst this
    exact h.openOk hst ch.other i b ha hb0 ho

/-- the stream `set` closes is not an attribute stream of the new state that was built by `get_stream` -/
theorem old_not_new_attr (s : State) (ch : Chan) (c2) (g) (h : Inv s) (o : Ref) (ho : oldOf s ch = some o)
    (ch' : Chan) (i : Nat) (ha : (setCore s ch c2 g).attr ch' = some (.built i)) : o ≠ .built i := by
  -- the old target is the old attribute of `ch`
  have hoa : s.attr ch = some o := by
    unfold oldOf at ho
    cases hr : s.red with
    | none => rw [hr] at ho; cases ho
    | some r => rw [hr] at ho; rw [← h.red r hr ch]; exact ho
  intro e
  subst e
  obtain ⟨b, hb, hch, -⟩ := h.attr ch _ hoa
  rcases eq_or_other ch ch' with e | e <;> subst e
  · rw [setCore_attr_self] at ha
    have := newRef_built _ _ _ ha
    subst this
    exact Nat.lt_irrefl _ (lt_of_getElemOpt_some _ _ _ hb)
  · rw [setCore_attr_other] at ha
    obtain ⟨b', hb', hch', -⟩ := h.attr ch.other _ ha
    rw [hb] at hb'
    cases hb'
    rw [hch] at hch'
    exact other_ne ch hch'.symm

theorem setOp_inv (s : State) (ch : Chan) (k v : Nat) (h : Inv s) : Inv (setOp s ch k v).1 := by
  cases hc : s.conf ch with
  | none => rw [setOp_none s ch k v hc]; exact h
  | some c =>
    cases hg : getStream (some (cset c k v)) with
    | mk c2 g =>
      by_cases hi : g = .invalid
      · subst hi
        rw [setOp_invalid s ch k v c c2 hc hg]
        have hinv : Invalid (some (cset c k v)) := by unfold Invalid; rw [hg]
        refine ⟨h.red.congr (setConf_red _ _ _) (fun _ => setConf_attr _ _ _ _), ?_, ?_, ?_⟩
        · intro ch'
          rcases eq_or_other ch ch' with e | e <;> subst e
          · intro x hx
            rw [setConf_attr] at hx
            have hx0 := h.attr ch' x hx
            cases x with
            | built i =>
              obtain ⟨b, hb, hch, -⟩ := hx0
              exact ⟨b, by rw [setConf_heap]; exact hb, hch, Or.inr (by rw [setConf_conf_self]; exact hinv)⟩
            | given w =>
              exfalso
              have hx1 : (getStream (some c)).2 = .given w := by rw [← hc]; exact hx0
              exact given_cset_not_invalid c w k v hx1 hinv
          · exact (h.attr ch.other).congr (setConf_attr _ _ _ _) (setConf_conf_other _ _ _) [] (by simp)
        · intro i hi; rw [setConf_closed] at hi; rw [setConf_heap]; exact h.closedBound i hi
        · intro hst ch' i b ha hb ho
          rw [setConf_stopped] at hst; rw [setConf_attr] at ha; rw [setConf_heap] at hb; rw [setConf_closed]
          exact h.openOk hst ch' i b ha hb ho
      · rw [setOp_ok s ch k v c c2 g hc hg hi]
        have core : Inv (setCore s ch c2 g) :=
          ⟨setCore_redOk s ch c2 g h.red, setCore_attrOk s ch _ c2 g hg h.attr,
           setCore_closedBound s ch c2 g h.closedBound, setCore_openOk s ch c2 g h⟩
        cases ho : oldOf s ch with
        | none =>
          simp only []
          refine ⟨?_, fun ch' => (core.attr ch').congr rfl rfl [] (by simp), core.closedBound, core.openOk⟩
          intro r hr ch'
          simp only [Option.map_eq_some_iff] at hr
          obtain ⟨r0, hr0, e⟩ := hr
          subst e
          rw [start_target]; exact core.red r0 hr0 ch'
        | some o =>
          simp only []
          by_cases hcl : (setCore s ch c2 g).sOut ≠ some o ∧ (setCore s ch c2 g).sErr ≠ some o ∧
              (setCore s ch c2 g).hasClose o = true
          · rw [if_pos hcl]
            refine ⟨core.red.congr rfl (fun _ => rfl), fun ch' => (core.attr ch').congr rfl rfl [] (by simp [State.close]), ?_, ?_⟩
            · intro i hi
              simp only [State.close, List.mem_cons] at hi
              rcases hi with e | hi
              · subst e; exact hasClose_built_lt _ _ hcl.2.2
              · exact core.closedBound i hi
            · intro hst ch' i b ha hb hop
              simp only [State.close, List.mem_cons, not_or]
              exact ⟨fun e => old_not_new_attr s ch c2 g h o ho ch' i ha e.symm,
                     core.openOk hst ch' i b ha hb hop⟩
          · rw [if_neg hcl]; exact core

/-! ### the other ops -/

/-- an update that touches only the redirector, with targets taken from the attributes -/
theorem Inv.withRed {s : State} (h : Inv s) (r : Option Redir)
    (hr : ∀ r0, r = some r0 → ∀ ch, r0.target ch = s.attr ch) : Inv { s with red := r } :=
  ⟨fun r0 e ch => hr r0 e ch, fun ch => (h.attr ch).congr rfl rfl [] (by simp), h.closedBound, h.openOk⟩

theorem create_inv (s : State) (h : Inv s) : Inv (create s) := by
  unfold create
  split
  · exact h.withRed _ (fun r0 e ch => by cases e; cases ch <;> rfl)
  · exact h.withRed _ (fun r0 e => by cases e)

theorem spawn_inv (s : State) (h : Inv s) : Inv (spawn s) := by
  unfold spawn
  split
  · exact h
  · refine h.withRed _ (fun r0 e ch => ?_)
    simp only [Option.map_eq_some_iff] at e
    obtain ⟨r1, hr1, e⟩ := e
    subst e
    rw [start_target]; exact h.red r1 hr1 ch

/-- an update that touches only the set of closed objects and the status -/
theorem Inv.withClosed {s : State} (h : Inv s) (cl : List Ref) (st : Bool)
    (hb : ∀ i, Ref.built i ∈ cl → i < s.heap.length)
    (ho : st = false → ∀ ch i b, s.attr ch = some (.built i) → s.heap[i]? = some b → b.cls.hasOpen = true →
      Ref.built i ∉ cl) : Inv { s with closed := cl, stopped := st } :=
  ⟨h.red.congr rfl (fun _ => rfl), fun ch => (h.attr ch).congr rfl rfl [] (by simp), hb, ho⟩

theorem openAttr_fields (s : State) (ch : Chan) :
    (openAttr s ch).confOut = s.confOut ∧ (openAttr s ch).confErr = s.confErr ∧ (openAttr s ch).sOut = s.sOut ∧
    (openAttr s ch).sErr = s.sErr ∧ (openAttr s ch).red = s.red ∧ (openAttr s ch).heap = s.heap ∧
    (openAttr s ch).stopped = s.stopped ∧ (∀ x, x ∈ (openAttr s ch).closed → x ∈ s.closed) ∧
    (∀ i b, s.attr ch = some (.built i) → s.heap[i]? = some b → b.cls.hasOpen = true →
      Ref.built i ∉ (openAttr s ch).closed) ∧
    (∀ x, x ∉ s.closed → x ∉ (openAttr s ch).closed) := by
  unfold openAttr
  cases ha : s.attr ch with
  | none => simp
  | some x =>
    simp only []
    by_cases ho : s.hasOpen x = true
    · rw [if_pos ho]
      refine ⟨rfl, rfl, rfl, rfl, rfl, rfl, rfl, ?_, ?_, ?_⟩
      · intro y hy; simp only [State.open, List.mem_filter] at hy; exact hy.1
      · intro i b hi _ _; cases hi; simp [State.open]
      · intro y hy hy2; simp only [State.open, List.mem_filter] at hy2; exact hy hy2.1
    · rw [if_neg ho]
      refine ⟨rfl, rfl, rfl, rfl, rfl, rfl, rfl, fun _ h => h, ?_, fun _ h => h⟩
      intro i b hi hb hop; cases hi
      rw [hasOpen_built s i b hb] at ho; exact absurd hop ho

theorem closeAttr_fields (s : State) (ch : Chan) :
    (closeAttr s ch).confOut = s.confOut ∧ (closeAttr s ch).confErr = s.confErr ∧ (closeAttr s ch).sOut = s.sOut ∧
    (closeAttr s ch).sErr = s.sErr ∧ (closeAttr s ch).red = s.red ∧ (closeAttr s ch).heap = s.heap ∧
    (closeAttr s ch).stopped = s.stopped ∧
    (∀ i, Ref.built i ∈ (closeAttr s ch).closed → Ref.built i ∈ s.closed ∨ i < s.heap.length) := by
  unfold closeAttr
  cases ha : s.attr ch with
  | none => simp only [true_and]; exact fun _ h => Or.inl h
  | some x =>
    simp only []
    by_cases ho : s.hasClose x = true
    · rw [if_pos ho]
      refine ⟨rfl, rfl, rfl, rfl, rfl, rfl, rfl, ?_⟩
      intro i hi
      simp only [State.close, List.mem_cons] at hi
      rcases hi with e | hi
      · subst e; exact Or.inr (hasClose_built_lt _ _ ho)
      · exact Or.inl hi
    · rw [if_neg ho]; simp only [true_and]; exact fun _ h => Or.inl h

theorem attr_eq_of_fields {s s' : State} (h1 : s'.sOut = s.sOut) (h2 : s'.sErr = s.sErr) (ch : Chan) :
    s'.attr ch = s.attr ch := by cases ch <;> simp [State.attr, h1, h2]

theorem conf_eq_of_fields {s s' : State} (h1 : s'.confOut = s.confOut) (h2 : s'.confErr = s.confErr) (ch : Chan) :
    s'.conf ch = s.conf ch := by cases ch <;> simp [State.conf, h1, h2]

/-- the state `_start` has when it reaches `_create_redirectors()` -/
def opened (s : State) : State := openAttr (openAttr { s with stopped := false } .out) .err

theorem opened_inv (s : State) (h : Inv s) : Inv (opened s) := by
  unfold opened
  obtain ⟨a1, a2, a3, a4, a5, a6, a7, a8, a9, a10⟩ := openAttr_fields { s with stopped := false } .out
  obtain ⟨b1, b2, b3, b4, b5, b6, b7, b8, b9, b10⟩ := openAttr_fields (openAttr { s with stopped := false } .out) .err
  have hattr : ∀ ch, (openAttr (openAttr { s with stopped := false } .out) .err).attr ch = s.attr ch :=
    fun ch => (attr_eq_of_fields b3 b4 ch).trans (attr_eq_of_fields a3 a4 ch)
  have hconf : ∀ ch, (openAttr (openAttr { s with stopped := false } .out) .err).conf ch = s.conf ch :=
    fun ch => (conf_eq_of_fields b1 b2 ch).trans (conf_eq_of_fields a1 a2 ch)
  have hheap : (openAttr (openAttr { s with stopped := false } .out) .err).heap = s.heap := b6.trans a6
  refine ⟨h.red.congr (b5.trans a5) hattr, fun ch => (h.attr ch).congr (hattr ch) (hconf ch) [] (by simp [hheap]), ?_, ?_⟩
  · intro i hi; rw [hheap]; exact h.closedBound i (a8 _ (b8 _ hi))
  · intro _ ch i b ha hb hop
    rw [hattr] at ha; rw [hheap] at hb
    cases ch with
    | out => exact b10 _ (a9 i b ha hb hop)
    | err =>
      refine b9 i b ?_ ?_ hop
      · rw [attr_eq_of_fields a3 a4]; exact ha
      · rw [a6]; exact hb

theorem start_eq (s : State) : start s = if !s.stopped then s else spawn (create (opened s)) := rfl

theorem start_inv (s : State) (h : Inv s) : Inv (start s) := by
  rw [start_eq]
  split
  · exact h
  · exact spawn_inv _ (create_inv _ (opened_inv s h))

theorem stop_inv (s : State) (b : Bool) (h : Inv s) : Inv (stop s b) := by
  unfold stop
  split
  · exact h
  · have h1 : Inv { s with red := none } := h.withRed none (fun r0 e => by cases e)
    cases b with
    | false =>
      simp only [Bool.false_eq_true, if_false]
      exact h1.withClosed _ true h1.closedBound (fun e => by cases e)
    | true =>
      simp only [if_true]
      obtain ⟨a1, a2, a3, a4, a5, a6, a7, a8⟩ := closeAttr_fields { s with red := none } .out
      obtain ⟨b1, b2, b3, b4, b5, b6, b7, b8⟩ := closeAttr_fields (closeAttr { s with red := none } .out) .err
      have hattr : ∀ ch, (closeAttr (closeAttr { s with red := none } .out) .err).attr ch = s.attr ch :=
        fun ch => (attr_eq_of_fields b3 b4 ch).trans (attr_eq_of_fields a3 a4 ch)
      have hconf : ∀ ch, (closeAttr (closeAttr { s with red := none } .out) .err).conf ch = s.conf ch :=
        fun ch => (conf_eq_of_fields b1 b2 ch).trans (conf_eq_of_fields a1 a2 ch)
      have hheap : (closeAttr (closeAttr { s with red := none } .out) .err).heap = s.heap := b6.trans a6
      refine ⟨?_, fun ch => (h.attr ch).congr (hattr ch) (hconf ch) [] (by simp [hheap]), ?_, fun e => by cases e⟩
      · intro r hr; rw [show (closeAttr (closeAttr { s with red := none } .out) .err).red = none from b5.trans a5] at hr
        cases hr
      · intro i hi
        show i < (closeAttr (closeAttr { s with red := none } .out) .err).heap.length
        rw [hheap]
        rcases b8 i hi with hi | hi
        · rcases a8 i hi with hi | hi
          · exact h.closedBound i hi
          · exact hi
        · rw [a6] at hi; exact hi

theorem restart_inv (s : State) (h : Inv s) : Inv (restart s) := start_inv _ (stop_inv s false h)

theorem step_inv (s : State) (op : Op) (h : Inv s) : Inv (step s op).1 := by
  cases op with
  | set ch k v => exact setOp_inv s ch k v h
  | setNoDot ch => exact h
  | create => exact create_inv s h
  | spawn => exact spawn_inv s h
  | start => exact start_inv s h
  | stop b => exact stop_inv s b h
  | restart => exact restart_inv s h

theorem run_inv (s : State) (ops : List Op) (h : Inv s) : Inv (run s ops) := by
  induction ops generalizing s with
  | nil => exact h
  | cons op ops ih => exact ih _ (step_inv s op h)

theorem run_append (s : State) (ops ops' : List Op) : run s (ops ++ ops') = run (run s ops) ops' := by
  simp [run, List.foldl_append]

theorem run_cons (s : State) (op : Op) (ops : List Op) : run s (op :: ops) = run (step s op).1 ops := rfl

/-! ### the constructor -/

/-- the state `Watcher.__init__` builds from the two answers of `get_stream` -/
def initState (co' ce' : Option Conf) (go ge : Got) : State :=
  { confOut := co', confErr := ce', sOut := newRef 0 go, sErr := newRef (newEntry .out go).length ge, red := none,
    heap := newEntry .out go ++ newEntry .err ge, closed := [], stopped := true }

theorem init_eq (co ce : Option Conf) :
    init co ce =
      if (getStream co).2 = .invalid ∨ (getStream ce).2 = .invalid then none
      else some (initState (getStream co).1 (getStream ce).1 (getStream co).2 (getStream ce).2) := by
  unfold init
  cases hgo : getStream co with
  | mk co' go =>
    cases hge : getStream ce with
    | mk ce' ge =>
      cases go <;> cases ge <;> simp [alloc, initState, newRef, newEntry]

theorem init_inv (co ce : Option Conf) (s : State) (h : init co ce = some s) : Inv s := by
  rw [init_eq] at h
  split at h
  · cases h
  · simp only [Option.some.injEq] at h
    subst h
    refine ⟨fun r hr => (by cases hr), ?_, fun i hi => (by cases hi), fun e => (by cases e)⟩
    intro ch
    cases hgo : getStream co with
    | mk co' go =>
      cases hge : getStream ce with
      | mk ce' ge =>
        simp only []
        cases ch with
        | out =>
          intro x hx
          simp only [initState, State.attr] at hx
          cases go with
          | nothing => cases hx
          | invalid => cases hx
          | build cls kw =>
            cases hx
            exact ⟨⟨.out, cls, kw⟩, by simp [initState, newEntry], rfl, Or.inl (getStream_build _ _ _ _ hgo)⟩
          | given w =>
            cases hx
            show (getStream co').2 = _
            rw [(getStream_given _ _ _ hgo).1, hgo]
        | err =>
          intro x hx
          simp only [initState, State.attr] at hx
          cases ge with
          | nothing => cases hx
          | invalid => cases hx
          | build cls kw =>
            cases hx
            refine ⟨⟨.err, cls, kw⟩, ?_, rfl, Or.inl (getStream_build _ _ _ _ hge)⟩
            cases go <;> simp [initState, newEntry]
          | given w =>
            cases hx
            show (getStream ce').2 = _
            rw [(getStream_given _ _ _ hge).1, hge]

/-! ### more about dicts, and what an accepted `set` installs -/

theorem cpop_cons (kv : Nat × Nat) (rest : Conf) (k : Nat) :
    cpop (kv :: rest) k = if kv.1 = k then cpop rest k else kv :: cpop rest k := by
  by_cases h : kv.1 = k <;> simp [cpop, List.filter, h]

theorem cpop_of_cget_none (c : Conf) (k : Nat) (h : cget c k = none) : cpop c k = c := by
  induction c with
  | nil => rfl
  | cons kv rest ih =>
    obtain ⟨k', v'⟩ := kv
    by_cases hk : k' = k
    · subst hk; simp [cget] at h
    · simp only [cget, hk, if_false] at h
      rw [cpop_cons, if_neg hk, ih h]

theorem cget_cpop_ne (c : Conf) (k q : Nat) (h : q ≠ k) : cget (cpop c k) q = cget c q := by
  induction c with
  | nil => rfl
  | cons kv rest ih =>
    obtain ⟨k', v'⟩ := kv
    by_cases hk : k' = k
    · subst hk
      have hq : ¬ k' = q := fun e => h e.symm
      rw [cpop_cons, if_pos rfl, ih]
      simp [cget, hq]
    · rw [cpop_cons, if_neg hk]
      simp only [cget, ih]

/-- an accepted `get_stream` answer for a non-empty dict is a build from the dict without `class`, or the
    ready-made object the dict names -/
theorem getStream_accepts (c : Conf) (c2) (g) (hne : c ≠ []) (hg : getStream (some c) = (c2, g)) (hi : g ≠ .invalid) :
    (∃ cls, g = .build cls (cpop c kClass) ∧ c2 = some (cpop c kClass)) ∨
    (∃ w, g = .given w ∧ cget c kStream = some w ∧ cget c kClass = none ∧ c2 = some c) := by
  rcases getStream_cases c with ⟨hc, _⟩ | ⟨_, w, _, e⟩ | ⟨_, hcl, w, hw, e⟩ | ⟨_, hcl, _, _, e⟩ | ⟨_, _, _, _, e⟩
  · exact absurd hc hne
  · rw [e] at hg; cases hg; exact Or.inl ⟨_, rfl, rfl⟩
  · rw [e] at hg; cases hg; exact Or.inr ⟨w, rfl, hw, hcl, rfl⟩
  · rw [e] at hg; cases hg; rw [cpop_of_cget_none c kClass hcl]; exact Or.inl ⟨_, rfl, rfl⟩
  · rw [e] at hg; cases hg; exact absurd rfl hi

/-- the result of `set` tells which of the three ways it went -/
theorem setOp_ret (s : State) (ch : Chan) (k v : Nat) (s' : State) (n : Nat) (h : setOp s ch k v = (s', .ret n)) :
    ∃ c c2 g, s.conf ch = some c ∧ getStream (some (cset c k v)) = (c2, g) ∧ g ≠ .invalid := by
  cases hc : s.conf ch with
  | none => rw [setOp_none s ch k v hc] at h; cases h
  | some c =>
    cases hg : getStream (some (cset c k v)) with
    | mk c2 g =>
      by_cases hi : g = .invalid
      · subst hi; rw [setOp_invalid s ch k v c c2 hc hg] at h; cases h
      · exact ⟨c, c2, g, rfl, hg, hi⟩

/-- fields of the final state of an accepted `set` in terms of `setCore` -/
theorem setOp_ok_fields (s : State) (ch : Chan) (k v : Nat) (c : Conf) (c2) (g : Got) (hc : s.conf ch = some c)
    (hg : getStream (some (cset c k v)) = (c2, g)) (hi : g ≠ .invalid) :
    (∀ ch', (setOp s ch k v).1.conf ch' = (setCore s ch c2 g).conf ch') ∧
    (∀ ch', (setOp s ch k v).1.attr ch' = (setCore s ch c2 g).attr ch') ∧
    (setOp s ch k v).1.heap = (setCore s ch c2 g).heap ∧
    (setOp s ch k v).1.stopped = (setCore s ch c2 g).stopped ∧
    (∀ ch', deliver (setOp s ch k v).1 ch' = deliver (setCore s ch c2 g) ch') ∧
    (∀ x, x ∈ (setCore s ch c2 g).closed → x ∈ (setOp s ch k v).1.closed) ∧
    (∀ o, oldOf s ch = some o → (∀ ch', (setCore s ch c2 g).attr ch' ≠ some o) →
        (setCore s ch c2 g).hasClose o = true → o ∈ (setOp s ch k v).1.closed) ∧
    (∀ x, x ∈ (setOp s ch k v).1.closed → x ∈ (setCore s ch c2 g).closed ∨
        (oldOf s ch = some x ∧ ∀ ch', (setCore s ch c2 g).attr ch' ≠ some x)) ∧
    ((setOp s ch k v).2 = .ret (if (oldOf s ch).isSome then 0 else 1)) := by
  rw [setOp_ok s ch k v c c2 g hc hg hi]
  cases ho : oldOf s ch with
  | none =>
    refine ⟨fun _ => rfl, fun _ => rfl, rfl, rfl, ?_, fun _ h => h, fun o e => (by cases e), fun _ h => Or.inl h, rfl⟩
    intro ch'
    simp only [deliver]
    cases hr : (setCore s ch c2 g).red with
    | none => rfl
    | some r => simp [start_target]
  | some o =>
    simp only []
    by_cases hcl : (setCore s ch c2 g).sOut ≠ some o ∧ (setCore s ch c2 g).sErr ≠ some o ∧
        (setCore s ch c2 g).hasClose o = true
    · rw [if_pos hcl]
      refine ⟨fun _ => rfl, fun _ => rfl, rfl, rfl, fun _ => rfl, ?_, ?_, ?_, rfl⟩
      · intro x hx; simp only [State.close, List.mem_cons]; exact Or.inr hx
      · intro o' e _ _; cases e; simp [State.close]
      · intro x hx
        simp only [State.close, List.mem_cons] at hx
        rcases hx with e | hx
        · subst e
          refine Or.inr ⟨rfl, fun ch' => ?_⟩
          cases ch' with
          | out => exact hcl.1
          | err => exact hcl.2.1
        · exact Or.inl hx
    · rw [if_neg hcl]
      refine ⟨fun _ => rfl, fun _ => rfl, rfl, rfl, fun _ => rfl, fun _ h => h, ?_, fun _ h => Or.inl h, rfl⟩
      intro o' e hne h'; cases e; exact absurd ⟨hne .out, hne .err, h'⟩ hcl

theorem deliver_setCore_self (s : State) (ch : Chan) (c2) (g) :
    deliver (setCore s ch c2 g) ch = newRef s.heap.length g := by
  obtain ⟨r, hr, h1, -, -⟩ := setCore_red s ch c2 g
  simp only [deliver, hr, h1]

theorem deliver_setCore_other (s : State) (ch : Chan) (c2) (g) :
    deliver (setCore s ch c2 g) ch.other =
      (match s.red with | some r0 => r0.target ch.other | none => s.attr ch.other) := by
  obtain ⟨r, hr, -, h2, -⟩ := setCore_red s ch c2 g
  simp only [deliver, hr, h2]

/-- `hasClose` of an existing object does not change when the heap grows -/
theorem hasClose_mono (s s' : State) (l : List Built) (hh : s'.heap = s.heap ++ l) (o : Ref)
    (h : s.hasClose o = true) : s'.hasClose o = true := by
  cases o with
  | given w => simpa [State.hasClose, State.clsOfRef] using h
  | built i =>
    cases hb : s.heap[i]? with
    | none => simp [State.hasClose, State.clsOfRef, hb] at h
    | some b =>
      rw [hasClose_built s i b hb] at h
      rw [hasClose_built s' i b (by rw [hh]; exact getElemOpt_append_of_some _ _ _ _ hb)]
      exact h

/-! ### retired streams -/

/-- stream number `i` exists and is not an attribute of the watcher any more -/
def Retired (s : State) (i : Nat) : Prop := i < s.heap.length ∧ ∀ ch, s.attr ch ≠ some (.built i)

theorem retired_congr {s s' : State} {i : Nat} (h : Retired s i) (ha : ∀ ch, s'.attr ch = s.attr ch)
    (hh : s'.heap = s.heap) : Retired s' i :=
  ⟨by rw [hh]; exact h.1, fun ch => by rw [ha]; exact h.2 ch⟩

theorem setOp_retired (s : State) (ch : Chan) (k v : Nat) (i : Nat) (h : Retired s i) :
    Retired (setOp s ch k v).1 i := by
  cases hc : s.conf ch with
  | none => rw [setOp_none s ch k v hc]; exact h
  | some c =>
    cases hg : getStream (some (cset c k v)) with
    | mk c2 g =>
      by_cases hi : g = .invalid
      · subst hi
        rw [setOp_invalid s ch k v c c2 hc hg]
        exact retired_congr h (fun _ => setConf_attr _ _ _ _) (setConf_heap _ _ _)
      · obtain ⟨-, ha, hh, -⟩ := setOp_ok_fields s ch k v c c2 g hc hg hi
        refine ⟨?_, fun ch' => ?_⟩
        · rw [hh, setCore_heap, List.length_append]; exact Nat.lt_of_lt_of_le h.1 (Nat.le_add_right _ _)
        · rw [ha]
          rcases eq_or_other ch ch' with e | e <;> subst e
          · rw [setCore_attr_self]
            intro e
            have := newRef_built _ _ _ e
            exact Nat.lt_irrefl _ (this ▸ h.1)
          · rw [setCore_attr_other]; exact h.2 _

theorem create_fields (s : State) : (create s).sOut = s.sOut ∧ (create s).sErr = s.sErr ∧ (create s).heap = s.heap ∧
    (create s).confOut = s.confOut ∧ (create s).confErr = s.confErr ∧ (create s).closed = s.closed ∧
    (create s).stopped = s.stopped := by
  unfold create; split <;> simp

theorem spawn_fields (s : State) : (spawn s).sOut = s.sOut ∧ (spawn s).sErr = s.sErr ∧ (spawn s).heap = s.heap ∧
    (spawn s).confOut = s.confOut ∧ (spawn s).confErr = s.confErr ∧ (spawn s).closed = s.closed ∧
    (spawn s).stopped = s.stopped := by
  unfold spawn; split <;> simp

theorem opened_fields (s : State) : (opened s).sOut = s.sOut ∧ (opened s).sErr = s.sErr ∧ (opened s).heap = s.heap ∧
    (opened s).confOut = s.confOut ∧ (opened s).confErr = s.confErr := by
  unfold opened
  obtain ⟨a1, a2, a3, a4, a5, a6, -⟩ := openAttr_fields { s with stopped := false } .out
  obtain ⟨b1, b2, b3, b4, b5, b6, -⟩ := openAttr_fields (openAttr { s with stopped := false } .out) .err
  exact ⟨b3.trans a3, b4.trans a4, b6.trans a6, b1.trans a1, b2.trans a2⟩

theorem start_fields (s : State) : (start s).sOut = s.sOut ∧ (start s).sErr = s.sErr ∧ (start s).heap = s.heap ∧
    (start s).confOut = s.confOut ∧ (start s).confErr = s.confErr := by
  rw [start_eq]
  split
  · simp
  · obtain ⟨a1, a2, a3, a4, a5, -⟩ := spawn_fields (create (opened s))
    obtain ⟨b1, b2, b3, b4, b5, -⟩ := create_fields (opened s)
    obtain ⟨c1, c2, c3, c4, c5⟩ := opened_fields s
    exact ⟨a1.trans (b1.trans c1), a2.trans (b2.trans c2), a3.trans (b3.trans c3), a4.trans (b4.trans c4),
      a5.trans (b5.trans c5)⟩

theorem stop_fields (s : State) (b : Bool) : (stop s b).sOut = s.sOut ∧ (stop s b).sErr = s.sErr ∧
    (stop s b).heap = s.heap ∧ (stop s b).confOut = s.confOut ∧ (stop s b).confErr = s.confErr := by
  unfold stop
  split
  · simp
  · cases b with
    | false => simp
    | true =>
      simp only [if_true]
      obtain ⟨a1, a2, a3, a4, a5, a6, -⟩ := closeAttr_fields { s with red := none } .out
      obtain ⟨b1, b2, b3, b4, b5, b6, -⟩ := closeAttr_fields (closeAttr { s with red := none } .out) .err
      exact ⟨b3.trans a3, b4.trans a4, b6.trans a6, b1.trans a1, b2.trans a2⟩

/-- only `set` writes the stream attributes, the confs and the heap -/
theorem step_fields_of_not_set (s : State) (op : Op) (h : ∀ ch k v, op ≠ .set ch k v) :
    (step s op).1.sOut = s.sOut ∧ (step s op).1.sErr = s.sErr ∧ (step s op).1.heap = s.heap ∧
    (step s op).1.confOut = s.confOut ∧ (step s op).1.confErr = s.confErr := by
  cases op with
  | set ch k v => exact absurd rfl (h ch k v)
  | setNoDot ch => simp [step, setNoDot]
  | create => obtain ⟨a1, a2, a3, a4, a5, -⟩ := create_fields s; exact ⟨a1, a2, a3, a4, a5⟩
  | spawn => obtain ⟨a1, a2, a3, a4, a5, -⟩ := spawn_fields s; exact ⟨a1, a2, a3, a4, a5⟩
  | start => exact start_fields s
  | stop b => exact stop_fields s b
  | restart =>
    obtain ⟨a1, a2, a3, a4, a5⟩ := start_fields (stop s false)
    obtain ⟨b1, b2, b3, b4, b5⟩ := stop_fields s false
    exact ⟨a1.trans b1, a2.trans b2, a3.trans b3, a4.trans b4, a5.trans b5⟩

theorem step_retired (s : State) (op : Op) (i : Nat) (h : Retired s i) : Retired (step s op).1 i := by
  by_cases hs : ∃ ch k v, op = .set ch k v
  · obtain ⟨ch, k, v, e⟩ := hs; subst e; exact setOp_retired s ch k v i h
  · obtain ⟨a1, a2, a3, -⟩ := step_fields_of_not_set s op (fun ch k v e => hs ⟨ch, k, v, e⟩)
    exact retired_congr h (attr_eq_of_fields a1 a2) a3

theorem run_retired (s : State) (ops : List Op) (i : Nat) (h : Retired s i) : Retired (run s ops) i := by
  induction ops generalizing s with
  | nil => exact h
  | cons op ops ih => exact ih _ (step_retired s op i h)

/-- under the invariant, what is delivered to is an attribute -/
theorem deliver_eq_attr (s : State) (h : RedOk s) (ch : Chan) (x : Ref) (hd : deliver s ch = some x) :
    s.attr ch = some x := by
  unfold deliver at hd
  cases hr : s.red with
  | none => rw [hr] at hd; cases hd
  | some r => rw [hr] at hd; rw [← h r hr ch]; exact hd

end Circus.Wiring
