import CircusModel.Model.Signum
import CircusProofs.Lemmas.PyInt
/-! Helper lemmas for the signal-designation layer (C18): character classes under `upper`,
`int()` / `strip` / the regular expression under case folding, facts about the platform table. -/
namespace Circus.Signum
open Circus.PyInt

/-! ### character classes and `upper` -/

theorem isWord_upper (c : Nat) : isWord (upper c) = isWord c := by
  simp only [upper, isWord, isDigit]
  split
  · rw [Bool.eq_iff_iff]; simp only [Bool.or_eq_true, Bool.and_eq_true, decide_eq_true_eq]; omega
  · rfl

theorem isDigit_upper (c : Nat) : isDigit (upper c) = isDigit c := by
  simp only [upper, isDigit]
  split
  · rw [Bool.eq_iff_iff]; simp only [Bool.and_eq_true, decide_eq_true_eq]; omega
  · rfl

theorem isCSpace_upper (c : Nat) : isCSpace (upper c) = isCSpace c := by
  simp only [upper, isCSpace]
  split
  · rw [Bool.eq_iff_iff]; simp only [Bool.or_eq_true, Bool.and_eq_true, decide_eq_true_eq]; omega
  · rfl

theorem isStrSpace_upper (c : Nat) : isStrSpace (upper c) = isStrSpace c := by
  simp only [upper, isStrSpace]
  split
  · rw [Bool.eq_iff_iff]; simp only [Bool.or_eq_true, Bool.and_eq_true, decide_eq_true_eq]; omega
  · rfl

theorem upper_idem (c : Nat) : upper (upper c) = upper c := by
  by_cases h : 97 ≤ c ∧ c ≤ 122
  · simp only [upper, h, and_self, if_true]
    split <;> omega
  · simp [upper, h]

theorem upper_of_digit {c : Nat} (h : isDigit c = true) : upper c = c := by
  simp only [isDigit, Bool.and_eq_true, decide_eq_true_eq] at h
  simp only [upper]; split <;> omega

/-- `upper` neither creates nor destroys a character below `'A'` or between `'Z'` and `'a'` -/
theorem upper_eq_special (c k : Nat) (hk : k < 65 ∨ (90 < k ∧ k < 97) ∨ 122 < k) : upper c = k ↔ c = k := by
  simp only [upper]; split <;> omega

theorem upperS_upperS (s : Str) : upperS (upperS s) = upperS s := by
  simp [upperS, List.map_map, Function.comp_def, upper_idem]

theorem upperS_append (a b : Str) : upperS (a ++ b) = upperS a ++ upperS b := by simp [upperS]

theorem upperS_of_digits {ds : Str} (h : ∀ c ∈ ds, isDigit c = true) : upperS ds = ds := by
  induction ds with
  | nil => rfl
  | cons c cs ih =>
    simp only [upperS, List.map_cons] at ih ⊢
    rw [upper_of_digit (h c (by simp)), ih (fun x hx => h x (by simp [hx]))]

theorem isCSpace_comp_upper : isCSpace ∘ upper = isCSpace := funext isCSpace_upper
theorem isStrSpace_comp_upper : isStrSpace ∘ upper = isStrSpace := funext isStrSpace_upper
theorem isWord_comp_upper : isWord ∘ upper = isWord := funext isWord_upper
theorem isDigit_comp_upper : isDigit ∘ upper = isDigit := funext isDigit_upper

/-! ### `int()` does not look at letter case -/

theorem scan_upper (t : Str) : ∀ (acc nd : Nat) (b : Bool),
    scan (upperS t) acc nd b = (scan t acc nd b).map (fun r => (r.1, r.2.1, upperS r.2.2)) := by
  induction t with
  | nil => intro acc nd b; cases b <;> simp [upperS, scan]
  | cons c cs ih =>
    intro acc nd b
    have h95 : upper c = 95 ↔ c = 95 := upper_eq_special c 95 (by omega)
    simp only [upperS, List.map_cons] at ih ⊢
    by_cases hc : c = 95
    · subst hc
      have : upper 95 = 95 := by decide
      cases b <;> simp [scan, this, ih]
    · have hu : upper c ≠ 95 := fun e => hc (h95.mp e)
      by_cases hd : isDigit c = true
      · have hud : isDigit (upper c) = true := by rw [isDigit_upper]; exact hd
        simp only [scan, hc, if_false, hd, if_true, ih, upper_of_digit hd]
      · have hud : ¬ isDigit (upper c) = true := by rw [isDigit_upper]; exact hd
        cases b <;> simp [scan, hc, hu, hd, hud]

theorem dropWhile_cspace_upper (s : Str) :
    (upperS s).dropWhile isCSpace = upperS (s.dropWhile isCSpace) := by
  simp [upperS, List.dropWhile_map, isCSpace_comp_upper]

theorem isEmpty_upperS (s : Str) : (upperS s).isEmpty = s.isEmpty := by cases s <;> rfl

theorem parseBody_upper (t : Str) : parseBody (upperS t) = parseBody t := by
  cases t with
  | nil => rfl
  | cons c cs =>
    have h95 : upper c = 95 ↔ c = 95 := upper_eq_special c 95 (by omega)
    by_cases hc : c = 95
    · subst hc; rfl
    · have hu : upper c ≠ 95 := fun e => hc (h95.mp e)
      have e1 : parseBody (upperS (c :: cs)) =
          match scan (upperS (c :: cs)) 0 0 false with
          | none => none
          | some (v, nd, rest) =>
            if nd = 0 then none else if nd > maxStrDigits then none
            else if (rest.dropWhile isCSpace).isEmpty then some v else none := by
        simp only [upperS, List.map_cons]
        unfold parseBody
        split
        · rename_i heq; exact absurd (List.cons.inj heq).1 hu
        · rfl
      have e2 : parseBody (c :: cs) =
          match scan (c :: cs) 0 0 false with
          | none => none
          | some (v, nd, rest) =>
            if nd = 0 then none else if nd > maxStrDigits then none
            else if (rest.dropWhile isCSpace).isEmpty then some v else none := by
        unfold parseBody
        split
        · rename_i heq; exact absurd (List.cons.inj heq).1 hc
        · rfl
      rw [e1, e2, scan_upper]
      cases scan (c :: cs) 0 0 false with
      | none => rfl
      | some r =>
        obtain ⟨v, nd, rest⟩ := r
        simp only [Option.map_some, dropWhile_cspace_upper, isEmpty_upperS]

/-- `int(s.upper())` and `int(s)` agree (result or ValueError) -/
theorem parse_upper (s : Str) : parse (upperS s) = parse s := by
  unfold parse
  rw [dropWhile_cspace_upper]
  cases h : s.dropWhile isCSpace with
  | nil => rfl
  | cons c cs =>
    have h43 : upper c = 43 ↔ c = 43 := upper_eq_special c 43 (by omega)
    have h45 : upper c = 45 ↔ c = 45 := upper_eq_special c 45 (by omega)
    have hcs : upperS (c :: cs) = upper c :: upperS cs := rfl
    by_cases c43 : c = 43
    · subst c43
      show (parseBody (upperS cs)).map Int.ofNat = (parseBody cs).map Int.ofNat
      rw [parseBody_upper]
    · by_cases c45 : c = 45
      · subst c45
        show (parseBody (upperS cs)).map _ = (parseBody cs).map _
        rw [parseBody_upper]
      · have u43 : upper c ≠ 43 := fun e => c43 (h43.mp e)
        have u45 : upper c ≠ 45 := fun e => c45 (h45.mp e)
        rw [hcs]
        split
        · rename_i heq; exact absurd (List.cons.inj heq).1 u43
        · rename_i heq; exact absurd (List.cons.inj heq).1 u45
        · split
          · rename_i heq; exact absurd (List.cons.inj heq).1 c43
          · rename_i heq; exact absurd (List.cons.inj heq).1 c45
          · rw [← hcs, parseBody_upper]

/-! ### `str.strip()` -/

theorem strip_upper (s : Str) : strip (upperS s) = upperS (strip s) := by
  simp [strip, upperS, List.dropWhile_map, isStrSpace_comp_upper, ← List.map_reverse]

/-- a string is its stripped middle between two runs of white space -/
theorem strip_decomp (s : Str) :
    ∃ l r, s = l ++ strip s ++ r ∧ (∀ c ∈ l, isStrSpace c = true) ∧ (∀ c ∈ r, isStrSpace c = true) := by
  refine ⟨s.takeWhile isStrSpace, (((s.dropWhile isStrSpace).reverse).takeWhile isStrSpace).reverse, ?_, ?_, ?_⟩
  · have h1 : s.takeWhile isStrSpace ++ s.dropWhile isStrSpace = s := List.takeWhile_append_dropWhile
    have h2 := @List.takeWhile_append_dropWhile _ isStrSpace (s.dropWhile isStrSpace).reverse
    have h3 : s.dropWhile isStrSpace =
        ((s.dropWhile isStrSpace).reverse.dropWhile isStrSpace).reverse ++
          ((s.dropWhile isStrSpace).reverse.takeWhile isStrSpace).reverse := by
      rw [← List.reverse_append, h2, List.reverse_reverse]
    unfold strip
    rw [List.append_assoc, ← h3, h1]
  · intro c hc; exact mem_takeWhile_imp hc
  · intro c hc; exact mem_takeWhile_imp (List.mem_reverse.mp hc)

theorem strip_sandwich (l m r : Str) (hl : ∀ c ∈ l, isStrSpace c = true) (hr : ∀ c ∈ r, isStrSpace c = true)
    (hhead : ∃ c m', m = c :: m' ∧ isStrSpace c = false) (hlast : ∃ m' c, m = m' ++ [c] ∧ isStrSpace c = false) :
    strip (l ++ m ++ r) = m := by
  obtain ⟨c, m', hm, hc⟩ := hhead
  obtain ⟨m'', d, hm2, hd⟩ := hlast
  unfold strip
  have e1 : (l ++ m ++ r).dropWhile isStrSpace = m ++ r := by
    rw [List.append_assoc, List.dropWhile_append_of_pos hl, hm]
    simp [hc]
  rw [e1]
  have e2 : (m ++ r).reverse.dropWhile isStrSpace = m.reverse := by
    rw [List.reverse_append, List.dropWhile_append_of_pos (fun a ha => hr a (List.mem_reverse.mp ha)), hm2]
    simp [hd]
  rw [e2, List.reverse_reverse]

/-! ### the regular expression -/

theorem isWord_plus : isWord 43 = false := by decide

theorem fullmatch_word (w : Str) (hne : w ≠ []) (hw : ∀ c ∈ w, isWord c = true) :
    fullmatch w = some (w, none) := by
  have h1 : w.takeWhile isWord = w := by
    have := @List.takeWhile_append_of_pos _ isWord w [] hw
    simpa using this
  have h2 : w.dropWhile isWord = [] := by
    have := @List.dropWhile_append_of_pos _ isWord w [] hw
    simpa using this
  unfold fullmatch
  rw [h1, h2]
  cases w with
  | nil => exact absurd rfl hne
  | cons _ _ => rfl

theorem fullmatch_word_plus (w ds : Str) (hne : w ≠ []) (hw : ∀ c ∈ w, isWord c = true)
    (hdne : ds ≠ []) (hd : ∀ c ∈ ds, isDigit c = true) :
    fullmatch (w ++ 43 :: ds) = some (w, some ds) := by
  have h1 : (w ++ 43 :: ds).takeWhile isWord = w := by
    rw [List.takeWhile_append_of_pos hw]; simp [isWord_plus]
  have h2 : (w ++ 43 :: ds).dropWhile isWord = 43 :: ds := by
    rw [List.dropWhile_append_of_pos hw]; simp [isWord_plus]
  unfold fullmatch
  rw [h1, h2]
  have hall : ds.all isDigit = true := List.all_eq_true.mpr hd
  cases w with
  | nil => exact absurd rfl hne
  | cons _ _ =>
    cases ds with
    | nil => exact absurd rfl hdne
    | cons _ _ => simp [hall]

theorem fullmatch_some {t w : Str} {g : Option Str} (h : fullmatch t = some (w, g)) :
    w ≠ [] ∧ (∀ c ∈ w, isWord c = true) ∧
      ((g = none ∧ t = w) ∨
       ∃ ds, g = some ds ∧ t = w ++ 43 :: ds ∧ ds ≠ [] ∧ ∀ c ∈ ds, isDigit c = true) := by
  have hsplit : t.takeWhile isWord ++ t.dropWhile isWord = t := List.takeWhile_append_dropWhile
  unfold fullmatch at h
  split at h
  · exact absurd h (by simp)
  · rename_i hne
    have hw : ∀ c ∈ t.takeWhile isWord, isWord c = true := fun c hc => mem_takeWhile_imp hc
    have hne' : t.takeWhile isWord ≠ [] := by
      intro e; rw [e] at hne; exact hne rfl
    split at h
    · rename_i hd
      injection h with h
      injection h with h1 h2
      subst h1 h2
      refine ⟨hne', hw, Or.inl ⟨rfl, ?_⟩⟩
      rw [hd, List.append_nil] at hsplit
      exact hsplit.symm
    · rename_i ds hd
      split at h
      · rename_i hds
        injection h with h
        injection h with h1 h2
        subst h1 h2
        simp only [Bool.and_eq_true, Bool.not_eq_true', List.all_eq_true] at hds
        refine ⟨hne', hw, Or.inr ⟨ds, rfl, ?_, ?_, hds.2⟩⟩
        · rw [hd] at hsplit; exact hsplit.symm
        · intro e; rw [e] at hds; simp at hds
      · exact absurd h (by simp)
    · exact absurd h (by simp)

theorem fullmatch_upper (t : Str) :
    fullmatch (upperS t) = (fullmatch t).map (fun r => (upperS r.1, r.2.map upperS)) := by
  have e1 : (upperS t).takeWhile isWord = upperS (t.takeWhile isWord) := by
    simp [upperS, List.takeWhile_map, isWord_comp_upper]
  have e2 : (upperS t).dropWhile isWord = upperS (t.dropWhile isWord) := by
    simp [upperS, List.dropWhile_map, isWord_comp_upper]
  unfold fullmatch
  rw [e1, e2, isEmpty_upperS]
  cases h0 : (t.takeWhile isWord).isEmpty with
  | true => rfl
  | false =>
    simp only [Bool.false_eq_true, if_false]
    cases hd : t.dropWhile isWord with
    | nil => rfl
    | cons c ds =>
      have h43 : upper c = 43 ↔ c = 43 := upper_eq_special c 43 (by omega)
      have hall : (upperS ds).all isDigit = ds.all isDigit := by
        simp [upperS, List.all_map, isDigit_comp_upper]
      by_cases hc : c = 43
      · subst hc
        show (if (!(upperS ds).isEmpty && (upperS ds).all isDigit) = true then _ else _) = _
        rw [isEmpty_upperS, hall]
        show _ = Option.map _ (if (!ds.isEmpty && ds.all isDigit) = true then _ else _)
        split <;> rfl
      · have hu : upper c ≠ 43 := fun e => hc (h43.mp e)
        show (match upper c :: upperS ds with
          | [] => _
          | 43 :: ds => _
          | _ => none) = Option.map _ (match c :: ds with
          | [] => _
          | 43 :: ds => _
          | _ => none)
        split
        · rename_i heq; exact absurd heq (by simp)
        · rename_i heq; exact absurd (List.cons.inj heq).1 hu
        · split
          · rename_i heq; exact absurd heq (by simp)
          · rename_i heq; exact absurd (List.cons.inj heq).1 hc
          · rfl

/-! ### `to_signum` does not look at letter case -/

theorem nameVal_upper (s : Str) : nameVal (upperS s) = nameVal s := by
  unfold nameVal
  rw [strip_upper, fullmatch_upper]
  cases fullmatch (strip s) with
  | none => rfl
  | some r =>
    obtain ⟨w, g⟩ := r
    simp only [Option.map_some, upperS_upperS]
    cases g with
    | none => rfl
    | some ds => simp only [Option.map_some, parse_upper]

theorem toSignum_upper (s : Str) : toSignum (.str (upperS s)) = toSignum (.str s) := by
  simp only [toSignum, parse_upper, nameVal_upper]

/-! ### the platform table (finite checks, by kernel evaluation) -/

theorem table_lookup : ∀ e ∈ sigTable, lookup e.1 = some e.2 := by decide +kernel
theorem table_prefix : ∀ e ∈ sigTable, SIG.isPrefixOf e.1 = true := by decide +kernel
/-- no name continues with a second `SIG` after the prefix -/
theorem table_no_sigsig : ∀ e ∈ sigTable, SIG.isPrefixOf (e.1.drop 3) = false := by decide +kernel
/-- names are made of upper-case letters and digits, and are longer than the prefix -/
theorem table_chars : ∀ e ∈ sigTable,
    e.1.all (fun c => isDigit c || (65 ≤ c && c ≤ 90)) = true ∧ 3 < e.1.length := by decide +kernel
/-- the character after the prefix is a letter (never a digit) -/
theorem table_fourth : ∀ e ∈ sigTable, ∃ c, (e.1.drop 3).head? = some c ∧ isDigit c = false := by decide +kernel
theorem table_head : ∀ e ∈ sigTable, e.1.head? = some 83 := by decide +kernel
theorem table_range : ∀ e ∈ sigTable, 1 ≤ e.2 ∧ e.2 < NSIG := by decide +kernel

theorem lookup_mem {nm : Str} {b : Nat} (h : lookup nm = some b) : (nm, b) ∈ sigTable := by
  unfold lookup at h
  generalize sigTable = l at h
  induction l with
  | nil => simp [List.lookup] at h
  | cons e l ih =>
    obtain ⟨k, v⟩ := e
    rw [List.lookup_cons] at h
    split at h
    · rename_i heq
      have : nm = k := by simpa using heq
      injection h with h
      subst this h
      exact List.mem_cons_self
    · exact List.mem_cons_of_mem _ (ih h)

/-! ### the documented name language -/

/-- `w` spells the table name of signal `b`: any letter case, with or without the `SIG` prefix -/
def Spells (w : Str) (b : Nat) : Prop :=
  ∃ nm, (nm, b) ∈ sigTable ∧ (upperS w = nm ∨ SIG ++ upperS w = nm)

/-- an optional `+k` suffix: `+` and a non-empty run of decimal digits (at most 4300 of them,
    Python's int/str conversion limit) -/
def IsOffset (off : Str) (k : Nat) : Prop :=
  (off = [] ∧ k = 0) ∨
  ∃ ds, off = 43 :: ds ∧ ds ≠ [] ∧ (∀ c ∈ ds, isDigit c = true) ∧ ds.length ≤ maxStrDigits ∧ k = decVal ds

theorem isWord_of_upper_class {c : Nat} (h : (isDigit (upper c) || (decide (65 ≤ upper c) && decide (upper c ≤ 90))) = true) :
    isWord c = true := by
  rw [← isWord_upper]
  simp only [isWord, Bool.or_eq_true, Bool.and_eq_true, decide_eq_true_eq] at h ⊢
  rcases h with h | h
  · exact Or.inl (Or.inl (Or.inl h))
  · exact Or.inl (Or.inl (Or.inr h))

/-- a spelling is a non-empty run of word characters -/
theorem spells_word {w : Str} {b : Nat} (h : Spells w b) : w ≠ [] ∧ ∀ c ∈ w, isWord c = true := by
  obtain ⟨nm, hmem, hw⟩ := h
  obtain ⟨hch, hlen⟩ := table_chars (nm, b) hmem
  simp only at hch hlen
  rw [List.all_eq_true] at hch
  have hall : ∀ c ∈ upperS w, (isDigit c || (decide (65 ≤ c) && decide (c ≤ 90))) = true := by
    intro c hc
    rcases hw with hw | hw
    · exact hch c (hw ▸ hc)
    · exact hch c (hw ▸ List.mem_append_right _ hc)
  refine ⟨?_, ?_⟩
  · rintro rfl
    rcases hw with hw | hw
    · rw [← hw] at hlen; simp [upperS] at hlen
    · rw [← hw] at hlen; simp [upperS, SIG] at hlen
  · intro c hc
    exact isWord_of_upper_class (hall (upper c) (List.mem_map.mpr ⟨c, hc, rfl⟩))

theorem isWord_not_space {c : Nat} (h : isWord c = true) : isStrSpace c = false ∧ isCSpace c = false := by
  simp only [isWord, isDigit, Bool.or_eq_true, Bool.and_eq_true, decide_eq_true_eq] at h
  constructor
  · simp only [isStrSpace, Bool.or_eq_false_iff, Bool.and_eq_false_iff, decide_eq_false_iff_not]; omega
  · simp only [isCSpace, Bool.or_eq_false_iff, Bool.and_eq_false_iff, decide_eq_false_iff_not]; omega

theorem isDigit_isWord {c : Nat} (h : isDigit c = true) : isWord c = true := by
  simp [isWord, h]

/-- the name the code looks up for a spelling is the table name -/
theorem spells_lookup {w : Str} {b : Nat} (h : Spells w b) :
    lookup (if SIG.isPrefixOf (upperS w) then upperS w else SIG ++ upperS w) = some b := by
  obtain ⟨nm, hmem, hw⟩ := h
  rcases hw with hw | hw
  · have := table_prefix (nm, b) hmem
    simp only at this
    rw [hw, this, if_pos rfl]
    exact table_lookup (nm, b) hmem
  · have := table_no_sigsig (nm, b) hmem
    simp only at this
    have hd : nm.drop 3 = upperS w := by rw [← hw]; simp [SIG]
    rw [hd] at this
    rw [this]
    simp only [Bool.false_eq_true, if_false, hw]
    exact table_lookup (nm, b) hmem

/-- the value the name block computes for `l ++ w ++ off ++ r` -/
theorem nameVal_of_parts (l w off r : Str) (b k : Nat)
    (hl : ∀ c ∈ l, isStrSpace c = true) (hr : ∀ c ∈ r, isStrSpace c = true)
    (hw : Spells w b) (hoff : IsOffset off k) :
    nameVal (l ++ w ++ off ++ r) = some (Int.ofNat b + Int.ofNat k) := by
  obtain ⟨hne, hword⟩ := spells_word hw
  obtain ⟨c0, w', hw0⟩ := List.exists_cons_of_ne_nil hne
  have hc0 : isStrSpace c0 = false := (isWord_not_space (hword c0 (by rw [hw0]; simp))).1
  have hlook := spells_lookup hw
  rcases hoff with ⟨rfl, rfl⟩ | ⟨ds, rfl, hdne, hd, hlen, rfl⟩
  · -- no offset
    have hlast : ∃ m' c, w = m' ++ [c] ∧ isStrSpace c = false := by
      have hne' : w ≠ [] := hne
      refine ⟨w.dropLast, w.getLast hne', (List.dropLast_concat_getLast hne').symm, ?_⟩
      exact (isWord_not_space (hword _ (List.getLast_mem hne'))).1
    have hs : strip (l ++ w ++ [] ++ r) = w := by
      rw [List.append_nil]
      exact strip_sandwich l w r hl hr ⟨c0, w', hw0, hc0⟩ hlast
    unfold nameVal
    rw [hs, fullmatch_word w hne hword]
    simp only [hlook]
    rfl
  · -- `+digits`
    have hdlast : ∃ m' c, w ++ 43 :: ds = m' ++ [c] ∧ isStrSpace c = false := by
      refine ⟨w ++ 43 :: ds.dropLast, ds.getLast hdne, ?_, ?_⟩
      · rw [List.append_assoc, List.cons_append, List.dropLast_concat_getLast hdne]
      · exact (isWord_not_space (isDigit_isWord (hd _ (List.getLast_mem hdne)))).1
    have hs : strip (l ++ w ++ 43 :: ds ++ r) = w ++ 43 :: ds := by
      have := strip_sandwich l (w ++ 43 :: ds) r hl hr ⟨c0, w' ++ 43 :: ds, by rw [hw0]; rfl, hc0⟩ hdlast
      rw [← this]; simp [List.append_assoc]
    unfold nameVal
    rw [hs, fullmatch_word_plus w ds hne hword hdne hd]
    simp only [hlook, parse_digits ds hd hdne, hlen, if_true]

/-- a name designation is never read as a number by `int()` -/
theorem parse_none_of_name (l w rest : Str) (b : Nat)
    (hl : ∀ c ∈ l, isStrSpace c = true) (hw : Spells w b) :
    parse (l ++ w ++ rest) = none := by
  cases hp : parse (l ++ w ++ rest) with
  | none => rfl
  | some v =>
    exfalso
    obtain ⟨c, tl, hdw, hc⟩ := parse_some_head hp
    obtain ⟨hne, hword⟩ := spells_word hw
    obtain ⟨c0, w', hw0⟩ := List.exists_cons_of_ne_nil hne
    have hc0w : isWord c0 = true := hword c0 (by rw [hw0]; simp)
    have hc0 : isCSpace c0 = false := (isWord_not_space hc0w).2
    -- the first character that is not C white space is in `l` or is the head of `w`
    have key : ∀ (l : Str), (∀ c ∈ l, isStrSpace c = true) →
        (l ++ c0 :: (w' ++ rest)).dropWhile isCSpace = c :: tl → c = c0 ∨ c ∈ l := by
      intro l
      induction l with
      | nil =>
        intro _ h
        simp only [List.nil_append, List.dropWhile_cons, hc0, Bool.false_eq_true, if_false] at h
        exact Or.inl (List.cons.inj h).1.symm
      | cons x xs ih =>
        intro hx h
        rw [List.cons_append, List.dropWhile_cons] at h
        split at h
        · rcases ih (fun c hc => hx c (by simp [hc])) h with h | h
          · exact Or.inl h
          · exact Or.inr (by simp [h])
        · exact Or.inr (by rw [(List.cons.inj h).1]; simp)
    have hshape : l ++ w ++ rest = l ++ c0 :: (w' ++ rest) := by rw [hw0]; simp
    rw [hshape] at hdw
    rcases key l hl hdw with rfl | hcl
    · -- the head of the spelling would be a sign or a digit
      have hnot : c ≠ 43 ∧ c ≠ 45 := by
        simp only [isWord, isDigit, Bool.or_eq_true, Bool.and_eq_true, decide_eq_true_eq] at hc0w
        omega
      rcases hc with h | h | h
      · exact hnot.1 h
      · exact hnot.2 h
      · obtain ⟨nm, hmem, hsp⟩ := hw
        have hup : upperS w = c :: upperS w' := by rw [hw0]; simp [upperS, upper_of_digit h]
        rcases hsp with hsp | hsp
        · have := table_head (nm, b) hmem
          simp only at this
          rw [← hsp, hup] at this
          simp only [List.head?_cons, Option.some.injEq] at this
          subst this
          exact absurd h (by decide)
        · obtain ⟨d, hd1, hd2⟩ := table_fourth (nm, b) hmem
          simp only at hd1
          rw [← hsp, hup] at hd1
          simp only [SIG, List.cons_append, List.nil_append, List.drop_succ_cons, List.drop_zero,
            List.head?_cons, Option.some.injEq] at hd1
          subst hd1
          rw [h] at hd2
          exact absurd hd2 (by simp)
    · -- a white-space character is neither a sign nor a digit
      have := hl c hcl
      simp only [isStrSpace, Bool.or_eq_true, Bool.and_eq_true, decide_eq_true_eq] at this
      rcases hc with h | h | h
      · omega
      · omega
      · simp only [isDigit, Bool.and_eq_true, decide_eq_true_eq] at h; omega

/-! ### range check, and the converse of the name path -/

/-- `0 < val < signal.NSIG` -/
def InRange (n : Nat) : Prop := 1 ≤ n ∧ n < NSIG

theorem rangeCheck_ok_iff (v : Option Int) (n : Nat) :
    rangeCheck v = .ok n ↔ v = some (Int.ofNat n) ∧ InRange n := by
  have hN : NSIG = 65 := rfl
  unfold rangeCheck InRange
  cases v with
  | none => simp
  | some i =>
    simp only [Option.some.injEq]
    by_cases hr : 0 < i ∧ i < Int.ofNat NSIG
    · rw [if_pos hr]
      have h65 : i < 65 := by have := hr.2; simpa [hN] using this
      constructor
      · intro h
        injection h with h
        subst h
        simp only [Int.ofNat_eq_natCast, hN]
        refine ⟨?_, ?_, ?_⟩ <;> omega
      · rintro ⟨rfl, -⟩
        simp
    · rw [if_neg hr]
      constructor
      · intro h; exact absurd h (by simp)
      · rintro ⟨rfl, h1, h2⟩
        exfalso
        apply hr
        simp only [Int.ofNat_eq_natCast, hN] at h2 ⊢
        constructor <;> omega

theorem rangeCheck_not_ok (v : Option Int) (h : ∀ n, rangeCheck v ≠ .ok n) : rangeCheck v = .valueError := by
  cases hr : rangeCheck v with
  | valueError => rfl
  | ok n => exact absurd hr (h n)

/-- whenever the name block produces a value, the string has the documented shape -/
theorem nameVal_some {s : Str} {v : Int} (h : nameVal s = some v) :
    ∃ l w off r b k, s = l ++ w ++ off ++ r ∧ (∀ c ∈ l, isStrSpace c = true) ∧
      (∀ c ∈ r, isStrSpace c = true) ∧ Spells w b ∧ IsOffset off k ∧ v = Int.ofNat b + Int.ofNat k := by
  obtain ⟨l, r, hs, hl, hr⟩ := strip_decomp s
  unfold nameVal at h
  cases hf : fullmatch (strip s) with
  | none => rw [hf] at h; exact absurd h (by simp)
  | some wg =>
    obtain ⟨w, g⟩ := wg
    rw [hf] at h
    simp only at h
    obtain ⟨hne, hword, hshape⟩ := fullmatch_some hf
    have finish : ∀ (offset : Int) (off : Str) (k : Nat), IsOffset off k → offset = Int.ofNat k →
        strip s = w ++ off →
        (match lookup (if SIG.isPrefixOf (upperS w) then upperS w else SIG ++ upperS w) with
          | some base => some (Int.ofNat base + offset)
          | none => none) = some v →
        ∃ l w off r b k, s = l ++ w ++ off ++ r ∧ (∀ c ∈ l, isStrSpace c = true) ∧
          (∀ c ∈ r, isStrSpace c = true) ∧ Spells w b ∧ IsOffset off k ∧ v = Int.ofNat b + Int.ofNat k := by
      intro offset off k hoff hk ht h
      cases hlk : lookup (if SIG.isPrefixOf (upperS w) then upperS w else SIG ++ upperS w) with
      | none => rw [hlk] at h; exact absurd h (by simp)
      | some b =>
        rw [hlk] at h
        simp only [Option.some.injEq] at h
        have hmem := lookup_mem hlk
        have hsp : Spells w b := by
          refine ⟨_, hmem, ?_⟩
          by_cases hp : SIG.isPrefixOf (upperS w) = true
          · rw [if_pos hp]; exact Or.inl rfl
          · rw [if_neg hp]; exact Or.inr rfl
        refine ⟨l, w, off, r, b, k, ?_, hl, hr, hsp, hoff, ?_⟩
        · rw [List.append_assoc l w, ← ht]; exact hs
        · rw [← h, hk]
    rcases hshape with ⟨rfl, ht⟩ | ⟨ds, rfl, ht, hdne, hd⟩
    · exact finish 0 [] 0 (Or.inl ⟨rfl, rfl⟩) rfl (by rw [List.append_nil]; exact ht) h
    · simp only [parse_digits ds hd hdne] at h
      by_cases hlen : ds.length ≤ maxStrDigits
      · simp only [hlen, if_true] at h
        exact finish _ (43 :: ds) (decVal ds) (Or.inr ⟨ds, rfl, hdne, hd, hlen, rfl⟩) rfl ht h
      · simp only [hlen, if_false] at h
        exact absurd h (by simp)

/-- the whole `to_signum` on a name designation -/
theorem toSignum_name (l w off r : Str) (b k : Nat)
    (hl : ∀ c ∈ l, isStrSpace c = true) (hr : ∀ c ∈ r, isStrSpace c = true)
    (hw : Spells w b) (hoff : IsOffset off k) :
    toSignum (.str (l ++ w ++ off ++ r)) = rangeCheck (some (Int.ofNat (b + k))) := by
  have hp : parse (l ++ w ++ off ++ r) = none := by
    rw [List.append_assoc (l ++ w)]
    exact parse_none_of_name l w (off ++ r) b hl hw
  simp only [toSignum, hp, nameVal_of_parts l w off r b k hl hr hw hoff]
  rfl

end Circus.Signum
