import CircusModel.Model.Config
/-! Helper lemmas for the Config layer (C16). -/
namespace Circus.Config

/-! ### dictionaries -/

theorem dget_dset {α} (d : Dict α) (k k' : Str) (v : α) :
    dget (dset d k v) k' = if k = k' then some v else dget d k' := by
  induction d with
  | nil => simp [dset, dget]
  | cons h t ih =>
    obtain ⟨a, b⟩ := h
    by_cases h1 : a = k
    · subst h1; by_cases h2 : a = k' <;> simp [dset, dget, h2]
    · by_cases h2 : a = k' <;> by_cases h3 : k = k' <;> simp_all [dset, dget]

theorem dget_dset_self {α} (d : Dict α) (k : Str) (v : α) : dget (dset d k v) k = some v := by
  simp [dget_dset]

theorem dget_dset_ne {α} (d : Dict α) (k k' : Str) (v : α) (h : k ≠ k') :
    dget (dset d k v) k' = dget d k' := by
  simp [dget_dset, h]

/-- `d.update(items)`: the last pair for `k` in `items` wins, otherwise the old entry stays -/
theorem dget_dupdate {α} (items : List (Str × α)) (d : Dict α) (k : Str) :
    dget (dupdate d items) k = (lastVal items k).or (dget d k) := by
  induction items generalizing d with
  | nil => simp [dupdate, lastVal]
  | cons h t ih =>
    obtain ⟨a, b⟩ := h
    have : dupdate d ((a, b) :: t) = dupdate (dset d a b) t := rfl
    rw [this, ih, dget_dset]
    simp only [lastVal]
    cases hl : lastVal t k with
    | some w => simp
    | none => by_cases h1 : a = k <;> simp [h1]

theorem dget_dictOf {α} (items : List (Str × α)) (k : Str) :
    dget (dictOf items) k = lastVal items k := by
  simp [dictOf, dget_dupdate, dget]

theorem dget_map {α β} (f : α → β) (d : Dict α) (k : Str) :
    dget (d.map (fun kv => (kv.1, f kv.2))) k = (dget d k).map f := by
  induction d with
  | nil => rfl
  | cons h t ih =>
    obtain ⟨a, b⟩ := h
    by_cases h1 : a = k <;> simp [dget, h1, ih]

/-- with distinct keys, membership determines the lookup -/
theorem dget_of_mem_nodup {α} (l : List (Str × α)) (k : Str) (v : α)
    (hnd : (l.map (·.1)).Nodup) (hm : (k, v) ∈ l) : dget l k = some v := by
  induction l with
  | nil => cases hm
  | cons h t ih =>
    obtain ⟨a, b⟩ := h
    simp only [List.map_cons, List.nodup_cons] at hnd
    rcases List.mem_cons.mp hm with h1 | h1
    · cases h1; simp [dget]
    · have : a ≠ k := by
        intro e; subst e
        exact hnd.1 (List.mem_map.mpr ⟨(a, v), h1, rfl⟩)
      simp [dget, this, ih hnd.2 h1]

theorem dget_none_of_not_mem {α} (l : List (Str × α)) (k : Str) (h : k ∉ l.map (·.1)) :
    dget l k = none := by
  induction l with
  | nil => rfl
  | cons hd t ih =>
    obtain ⟨a, b⟩ := hd
    simp only [List.map_cons, List.mem_cons, not_or] at h
    simp [dget, Ne.symm h.1, ih h.2]

theorem lastVal_eq_dget_of_nodup {α} (l : List (Str × α)) (k : Str) (hnd : (l.map (·.1)).Nodup) :
    lastVal l k = dget l k := by
  induction l with
  | nil => rfl
  | cons hd t ih =>
    obtain ⟨a, b⟩ := hd
    simp only [List.map_cons, List.nodup_cons] at hnd
    simp only [lastVal, dget, ih hnd.2]
    by_cases h1 : a = k
    · subst h1
      simp [dget_none_of_not_mem t a hnd.1]
    · simp only [h1, if_false]
      cases dget t k <;> rfl

theorem keys_dset {α} (d : Dict α) (k : Str) (v : α) :
    (dset d k v).map (·.1) = if k ∈ d.map (·.1) then d.map (·.1) else d.map (·.1) ++ [k] := by
  induction d with
  | nil => simp [dset]
  | cons h t ih =>
    obtain ⟨a, b⟩ := h
    by_cases h1 : a = k
    · subst h1; simp [dset]
    · have h2 : ¬ k = a := fun e => h1 e.symm
      simp only [dset, h1, if_false, List.map_cons, ih, List.mem_cons, h2, false_or]
      split <;> simp

theorem nodup_keys_dset {α} (d : Dict α) (k : Str) (v : α) (h : (d.map (·.1)).Nodup) :
    ((dset d k v).map (·.1)).Nodup := by
  rw [keys_dset]
  split
  · exact h
  · rename_i hk
    rw [List.nodup_append]
    refine ⟨h, by simp, ?_⟩
    intro a ha b hb
    simp only [List.mem_singleton] at hb
    subst hb
    intro e; subst e; exact hk ha

theorem nodup_keys_dupdate {α} (items : List (Str × α)) (d : Dict α) (h : (d.map (·.1)).Nodup) :
    ((dupdate d items).map (·.1)).Nodup := by
  induction items generalizing d with
  | nil => exact h
  | cons hd t ih => exact ih _ (nodup_keys_dset d hd.1 hd.2 h)

theorem nodup_keys_dictOf {α} (items : List (Str × α)) : ((dictOf items).map (·.1)).Nodup :=
  nodup_keys_dupdate items [] (by simp)

/-- `dict(items)` looked at again as a list of pairs -/
theorem lastVal_dictOf {α} (items : List (Str × α)) (k : Str) :
    lastVal (dictOf items) k = lastVal items k := by
  rw [lastVal_eq_dget_of_nodup _ _ (nodup_keys_dictOf items), dget_dictOf]

/-! ### the error-propagating fold -/

theorem foldlE_cons_ok {α β ε} (f : α → β → Except ε α) (a : α) (b : β) (r : List β) (a' : α) :
    foldlE f a (b :: r) = .ok a' → ∃ a1, f a b = .ok a1 ∧ foldlE f a1 r = .ok a' := by
  intro h
  simp only [foldlE] at h
  cases hf : f a b with
  | error e => rw [hf] at h; cases h
  | ok a1 => rw [hf] at h; exact ⟨a1, rfl, h⟩

/-- invariant rule for `foldlE` -/
theorem foldlE_inv {α β ε} (f : α → β → Except ε α) (P : α → Prop) (l : List β)
    (hstep : ∀ a b a', b ∈ l → P a → f a b = .ok a' → P a') :
    ∀ a a', P a → foldlE f a l = .ok a' → P a' := by
  induction l with
  | nil => intro a a' hp h; simp only [foldlE] at h; cases h; exact hp
  | cons b r ih =>
    intro a a' hp h
    obtain ⟨a1, h1, h2⟩ := foldlE_cons_ok f a b r a' h
    exact ih (fun a b a' hb => hstep a b a' (List.mem_cons_of_mem _ hb)) a1 a'
      (hstep a b a1 (List.mem_cons_self) hp h1) h2

/-! ### sorting keeps the elements -/

theorem mem_insertBy {α} (key : α → Str) (x y : α) (l : List α) :
    y ∈ insertBy key x l ↔ y = x ∨ y ∈ l := by
  induction l with
  | nil => simp [insertBy]
  | cons h t ih =>
    simp only [insertBy]
    split
    · simp
    · simp only [List.mem_cons, ih]
      constructor
      · rintro (h1 | h1 | h1) <;> simp [h1]
      · rintro (h1 | h1 | h1) <;> simp [h1]

theorem mem_sortBy {α} (key : α → Str) (y : α) (l : List α) : y ∈ sortBy key l ↔ y ∈ l := by
  unfold sortBy
  suffices h : ∀ acc, y ∈ l.foldl (fun acc x => insertBy key x acc) acc ↔ y ∈ acc ∨ y ∈ l by
    simpa using h []
  induction l with
  | nil => intro acc; simp
  | cons h t ih =>
    intro acc
    simp only [List.foldl_cons, ih, mem_insertBy, List.mem_cons]
    constructor
    · rintro ((h1 | h1) | h1) <;> simp [h1]
    · rintro (h1 | h1 | h1) <;> simp [h1]

/-! ### the second pass, one watcher at a time -/

/-- what one `env:` section does to one watcher -/
def applyOne (s : Section) (w : Watcher) : Watcher :=
  (patterns s.name).foldl
    (fun w pat => if fnmatch w.name pat then { w with env := dupdate w.env (dictOf s.items) } else w) w

/-- what the whole second pass does to one watcher -/
def envAfter (secs : List Section) (w : Watcher) : Watcher :=
  secs.foldl (fun w s => if startsWith (cp! "env:") s.name then applyOne s w else w) w

/-- **closed formula** for the `env:PATTERN` layer: the value of `X` given by the *last* section
    (in file order) that applies to the watcher name and defines `X` -/
def envSecVal : List Section → Str → Str → Option Str
  | [], _, _ => none
  | s :: r, n, x => (envSecVal r n x).or (if applies s n then lastVal s.items x else none)

theorem applyEnvSection_eq_map (s : Section) (ws : List Watcher) :
    applyEnvSection s ws = ws.map (applyOne s) := by
  unfold applyEnvSection applyOne
  generalize patterns s.name = ps
  induction ps generalizing ws with
  | nil => simp
  | cons p r ih =>
    simp only [List.foldl_cons]
    rw [ih]
    simp only [List.map_map]
    congr 1

theorem secondPass_eq_map (secs : List Section) (ws : List Watcher) :
    secondPass secs ws = ws.map (envAfter secs) := by
  unfold secondPass envAfter
  induction secs generalizing ws with
  | nil => simp
  | cons s r ih =>
    simp only [List.foldl_cons]
    by_cases h : startsWith (cp! "env:") s.name = true
    · simp only [h, if_true]
      rw [ih, applyEnvSection_eq_map, List.map_map]
      congr 1
    · simp only [h]
      rw [ih]
      congr 1

/-- only `env` changes in the second pass -/
theorem applyOne_fields (s : Section) (w : Watcher) :
    (applyOne s w).name = w.name ∧ (applyOne s w).opts = w.opts ∧ (applyOne s w).rlimits = w.rlimits ∧
    (applyOne s w).stderr = w.stderr ∧ (applyOne s w).stdout = w.stdout ∧ (applyOne s w).hooks = w.hooks := by
  unfold applyOne
  generalize patterns s.name = ps
  induction ps generalizing w with
  | nil => simp
  | cons p r ih =>
    simp only [List.foldl_cons]
    by_cases h : fnmatch w.name p = true
    · simp only [h, if_true]; exact ih _
    · simp only [h]; exact ih _

theorem envAfter_fields (secs : List Section) (w : Watcher) :
    (envAfter secs w).name = w.name ∧ (envAfter secs w).opts = w.opts ∧
    (envAfter secs w).rlimits = w.rlimits ∧ (envAfter secs w).stderr = w.stderr ∧
    (envAfter secs w).stdout = w.stdout ∧ (envAfter secs w).hooks = w.hooks := by
  unfold envAfter
  induction secs generalizing w with
  | nil => simp
  | cons s r ih =>
    simp only [List.foldl_cons]
    by_cases h : startsWith (cp! "env:") s.name = true
    · simp only [h, if_true]
      obtain ⟨a1, a2, a3, a4, a5, a6⟩ := applyOne_fields s w
      obtain ⟨b1, b2, b3, b4, b5, b6⟩ := ih (applyOne s w)
      exact ⟨b1.trans a1, b2.trans a2, b3.trans a3, b4.trans a4, b5.trans a5, b6.trans a6⟩
    · simp only [h]; exact ih w

theorem applyOne_env_nodup (s : Section) (w : Watcher) (h : (w.env.map (·.1)).Nodup) :
    ((applyOne s w).env.map (·.1)).Nodup := by
  unfold applyOne
  generalize patterns s.name = ps
  induction ps generalizing w with
  | nil => exact h
  | cons p r ih =>
    simp only [List.foldl_cons]
    by_cases hm : fnmatch w.name p = true
    · simp only [hm, if_true]; exact ih _ (nodup_keys_dupdate _ _ h)
    · simp only [hm]; exact ih _ h

theorem envAfter_env_nodup (secs : List Section) (w : Watcher) (h : (w.env.map (·.1)).Nodup) :
    ((envAfter secs w).env.map (·.1)).Nodup := by
  unfold envAfter
  induction secs generalizing w with
  | nil => exact h
  | cons s r ih =>
    simp only [List.foldl_cons]
    by_cases hs : startsWith (cp! "env:") s.name = true
    · simp only [hs, if_true]; exact ih _ (applyOne_env_nodup s w h)
    · simp only [hs]; exact ih _ h

/-- one section: if one of its patterns matches, its items are laid over the env (repeating the
    update for a second matching pattern changes nothing), otherwise the env is untouched -/
theorem dget_applyOne_env (s : Section) (w : Watcher) (x : Str) :
    dget (applyOne s w).env x =
      if (patterns s.name).any (fun p => fnmatch w.name p) then (lastVal s.items x).or (dget w.env x)
      else dget w.env x := by
  unfold applyOne
  generalize patterns s.name = ps
  -- generalise: the fold keeps the name, and once the items are laid over they stay
  suffices h : ∀ (w' : Watcher), w'.name = w.name →
      (dget w'.env x = dget w.env x ∨ dget w'.env x = (lastVal s.items x).or (dget w.env x)) →
      dget (ps.foldl (fun w pat => if fnmatch w.name pat then
          { w with env := dupdate w.env (dictOf s.items) } else w) w').env x =
        if ps.any (fun p => fnmatch w.name p) ∨ dget w'.env x ≠ dget w.env x
        then (lastVal s.items x).or (dget w.env x) else dget w.env x by
    have := h w rfl (Or.inl rfl)
    simpa using this
  induction ps with
  | nil =>
    intro w' _ hv
    rcases hv with hv | hv
    · simp [hv]
    · by_cases he : dget w'.env x = dget w.env x
      · simp [he]
      · simp [hv]
  | cons p r ih =>
    intro w' hn hv
    simp only [List.foldl_cons, List.any_cons]
    by_cases hm : fnmatch w.name p = true
    · have hm' : fnmatch w'.name p = true := by rw [hn]; exact hm
      simp only [hm, hm', if_true, Bool.true_or, true_or]
      have key : dget (dupdate w'.env (dictOf s.items)) x = (lastVal s.items x).or (dget w.env x) := by
        rw [dget_dupdate, lastVal_dictOf]
        rcases hv with hv | hv
        · rw [hv]
        · rw [hv]; cases lastVal s.items x <;> simp
      have := ih { w' with env := dupdate w'.env (dictOf s.items) } hn (Or.inr key)
      rw [this, key]
      split <;> simp_all
    · have hm' : ¬ fnmatch w'.name p = true := by rw [hn]; exact hm
      simp only [hm, hm', Bool.false_or]
      exact ih w' hn hv

theorem dget_envAfter_env (secs : List Section) (w : Watcher) (x : Str) :
    dget (envAfter secs w).env x = (envSecVal secs w.name x).or (dget w.env x) := by
  unfold envAfter
  induction secs generalizing w with
  | nil => simp [envSecVal]
  | cons s r ih =>
    simp only [List.foldl_cons, envSecVal]
    by_cases h : startsWith (cp! "env:") s.name = true
    · simp only [h, if_true]
      rw [ih, (applyOne_fields s w).1, dget_applyOne_env]
      simp only [applies, h, Bool.true_and]
      cases envSecVal r w.name x <;> cases hb : (patterns s.name).any (fun p => fnmatch w.name p) <;> simp
    · simp only [h]
      rw [ih]
      have : applies s w.name = false := by simp [applies, h]
      simp [this]

/-! ### the option loop -/

/-- branches of the option loop that write the one entry `watcher[opt]` -/
def Branch.scalar : Branch → Bool
  | .raw | .int | .strExp | .bool | .signum | .float | .free => true
  | .stream | .rlimit | .hook => false

/-- the conversion the documentation gives for the text `val` written for the scalar option `opt`
    (`genv` = os.environ overlaid with `[env]`, the table used by `dget`) -/
def convScalar (sig : Str → Option Nat) (genv : Dict Str) (opt val : Str) : Except Err Val :=
  match classify opt with
  | .raw => .ok (.str val)
  | .free => .ok (.str val)
  | .int => convInt genv val
  | .strExp => .ok (.str (expand genv val))
  | .bool => convBool genv val
  | .signum => convSignum sig val
  | .float => convFloat genv val
  | _ => .error .keyError

theorem map_ok {ε α β} (f : α → β) (x : Except ε α) (b : β) (h : x.map f = .ok b) :
    ∃ a, x = .ok a ∧ b = f a := by
  cases x with
  | error e => cases h
  | ok a => exact ⟨a, rfl, by cases h; rfl⟩

theorem typeOpt_spec (sig : Str → Option Nat) (genv : Dict Str) (w w' : Watcher) (o v : Str)
    (h : typeOpt sig genv w (o, v) = .ok w') :
    (∀ k, k ≠ o → dget w'.opts k = dget w.opts k) ∧
    ((classify o).scalar = true → ∃ x, convScalar sig genv o v = .ok x ∧ dget w'.opts o = some x) ∧
    ((classify o).scalar = false → w'.opts = w.opts) := by
  have hset : ∀ x : Val, (∀ k, k ≠ o → dget (w.setOpt o x).opts k = dget w.opts k) ∧
      dget (w.setOpt o x).opts o = some x := by
    intro x
    refine ⟨fun k hk => ?_, ?_⟩
    · simp [Watcher.setOpt, dget_dset, Ne.symm hk]
    · simp [Watcher.setOpt, dget_dset]
  unfold typeOpt at h
  simp only at h
  unfold convScalar
  cases hc : classify o <;> rw [hc] at h <;> simp only [Branch.scalar] at h ⊢
  case raw =>
    cases h
    exact ⟨(hset _).1, fun _ => ⟨_, rfl, (hset _).2⟩, by simp⟩
  case free =>
    cases h
    exact ⟨(hset _).1, fun _ => ⟨_, rfl, (hset _).2⟩, by simp⟩
  case strExp =>
    cases h
    exact ⟨(hset _).1, fun _ => ⟨_, rfl, (hset _).2⟩, by simp⟩
  case int =>
    obtain ⟨x, hx, rfl⟩ := map_ok _ _ _ h
    exact ⟨(hset x).1, fun _ => ⟨x, hx, (hset x).2⟩, by simp⟩
  case bool =>
    obtain ⟨x, hx, rfl⟩ := map_ok _ _ _ h
    exact ⟨(hset x).1, fun _ => ⟨x, hx, (hset x).2⟩, by simp⟩
  case signum =>
    obtain ⟨x, hx, rfl⟩ := map_ok _ _ _ h
    exact ⟨(hset x).1, fun _ => ⟨x, hx, (hset x).2⟩, by simp⟩
  case float =>
    obtain ⟨x, hx, rfl⟩ := map_ok _ _ _ h
    exact ⟨(hset x).1, fun _ => ⟨x, hx, (hset x).2⟩, by simp⟩
  case stream =>
    refine ⟨?_, by simp, fun _ => ?_⟩
    all_goals
      split at h
      · cases h
      · split at h
        · cases h; simp
        · split at h
          · cases h; simp
          · cases h
  case rlimit =>
    obtain ⟨x, _, rfl⟩ := map_ok _ _ _ h
    exact ⟨by simp, by simp, by simp⟩
  case hook =>
    obtain ⟨x, _, rfl⟩ := map_ok _ _ _ h
    exact ⟨by simp, by simp, by simp⟩

/-- the whole option loop over items with distinct keys: untouched keys keep their value, every
    written scalar option carries the conversion of its text -/
theorem optLoop_spec (sig : Str → Option Nat) (genv : Dict Str) (items : List (Str × Str)) :
    ∀ (w w' : Watcher), (items.map (·.1)).Nodup → foldlE (typeOpt sig genv) w items = .ok w' →
      (∀ k, k ∉ items.map (·.1) → dget w'.opts k = dget w.opts k) ∧
      (∀ o v, (o, v) ∈ items → (classify o).scalar = true →
        ∃ x, convScalar sig genv o v = .ok x ∧ dget w'.opts o = some x) := by
  induction items with
  | nil =>
    intro w w' _ h
    simp only [foldlE] at h; cases h
    exact ⟨fun _ _ => rfl, fun _ _ hm => by cases hm⟩
  | cons hd t ih =>
    intro w w' hnd h
    obtain ⟨o1, v1⟩ := hd
    simp only [List.map_cons, List.nodup_cons] at hnd
    obtain ⟨w1, h1, h2⟩ := foldlE_cons_ok _ _ _ _ _ h
    obtain ⟨s1, s2, _⟩ := typeOpt_spec sig genv w w1 o1 v1 h1
    obtain ⟨i1, i2⟩ := ih w1 w' hnd.2 h2
    refine ⟨fun k hk => ?_, fun o v hm hs => ?_⟩
    · simp only [List.map_cons, List.mem_cons, not_or] at hk
      rw [i1 k hk.2, s1 k hk.1]
    · rcases List.mem_cons.mp hm with e | hm'
      · cases e
        obtain ⟨x, hx, hx2⟩ := s2 hs
        exact ⟨x, hx, by rw [i1 o1 hnd.1, hx2]⟩
      · exact i2 o v hm' hs

theorem typeOpt_name (sig : Str → Option Nat) (genv : Dict Str) (w w' : Watcher) (ov : Str × Str)
    (h : typeOpt sig genv w ov = .ok w') : w'.name = w.name := by
  unfold typeOpt at h
  simp only at h
  cases hc : classify ov.1 <;> rw [hc] at h <;> simp only at h
  case raw => cases h; rfl
  case free => cases h; rfl
  case strExp => cases h; rfl
  case int => obtain ⟨x, _, rfl⟩ := map_ok _ _ _ h; rfl
  case bool => obtain ⟨x, _, rfl⟩ := map_ok _ _ _ h; rfl
  case signum => obtain ⟨x, _, rfl⟩ := map_ok _ _ _ h; rfl
  case float => obtain ⟨x, _, rfl⟩ := map_ok _ _ _ h; rfl
  case rlimit => obtain ⟨x, _, rfl⟩ := map_ok _ _ _ h; rfl
  case hook => obtain ⟨x, _, rfl⟩ := map_ok _ _ _ h; rfl
  case stream =>
    split at h
    · cases h
    · split at h
      · cases h; rfl
      · split at h
        · cases h; rfl
        · cases h

/-- what the `watcher:` block yields for a section whose option names are distinct -/
theorem mkWatcher_spec (sig : Str → Option Nat) (genv lenv : Dict Str) (s : Section) (w : Watcher)
    (h : mkWatcher sig genv lenv s = .ok w) :
    w.name = s.name.drop 8 ∧
    w.env = (if dget w.opts (cp! "copy_env") = some (.bool true) then genv else lenv) ∧
    ((s.items.map (·.1)).Nodup →
      (∀ k, k ∉ s.items.map (·.1) → dget w.opts k = dget defaults k) ∧
      (∀ o v, (o, v) ∈ s.items → (classify o).scalar = true →
        ∃ x, convScalar sig genv o v = .ok x ∧ dget w.opts o = some x)) := by
  unfold mkWatcher at h
  simp only at h
  split at h
  · cases h
  · rename_i w1 hf
    cases h
    refine ⟨?_, rfl, fun hnd => ?_⟩
    · exact foldlE_inv (typeOpt sig genv) (fun x => x.name = s.name.drop 8) s.items
        (fun a b a' _ hp hab => (typeOpt_name sig genv a a' b hab).trans hp) _ w1 rfl hf
    · exact optLoop_spec sig genv s.items _ _ hnd hf

theorem firstStep_watchers (sig : Str → Option Nat) (genv lenv : Dict Str) (a a' : Acc) (s : Section)
    (h : firstStep sig genv lenv a s = .ok a') :
    ∀ w ∈ a'.watchers, w ∈ a.watchers ∨
      (startsWith (cp! "watcher:") s.name = true ∧ mkWatcher sig genv lenv s = .ok w) := by
  unfold firstStep at h
  simp only at h
  split at h
  · cases h; intro w hw; exact Or.inl hw
  · split at h
    · cases h
    · rename_i a1 h1
      split at h
      · cases h
      · rename_i a2 h2
        have e1 : a1.watchers = a.watchers := by
          split at h1
          · obtain ⟨x, _, rfl⟩ := map_ok _ _ _ h1; rfl
          · cases h1; rfl
        have e2 : a2.watchers = a1.watchers := by
          split at h2
          · obtain ⟨x, _, rfl⟩ := map_ok _ _ _ h2; rfl
          · cases h2; rfl
        split at h
        · rename_i hs
          obtain ⟨x, hx, rfl⟩ := map_ok _ _ _ h
          intro w hw
          simp only [List.mem_append, List.mem_singleton] at hw
          rcases hw with hw | hw
          · left; rw [← e1, ← e2]; exact hw
          · right; subst hw; exact ⟨hs, hx⟩
        · cases h
          intro w hw; left; rw [← e1, ← e2]; exact hw

/-- every watcher of the result comes from one `watcher:` section: typed by the option loop,
    given its `env:` layers by the second pass, expanded at the end -/
theorem getConfig_watcher (sig : Str → Option Nat) (osenv : Dict Str) (secs : List Section)
    (cfg : Config) (w : Watcher) (h : getConfig sig osenv secs = .ok cfg) (hw : w ∈ cfg.watchers) :
    ∃ s w0, s ∈ secs ∧ startsWith (cp! "watcher:") s.name = true ∧
      mkWatcher sig (globalEnv osenv secs) (localEnv osenv secs) s = .ok w0 ∧
      w = finalExpand (globalEnv osenv secs) (envAfter secs w0) := by
  unfold getConfig at h
  simp only at h
  split at h
  · cases h
  · rename_i a hf
    cases h
    simp only [List.mem_map] at hw
    obtain ⟨w2, hw2, rfl⟩ := hw
    rw [secondPass_eq_map, List.mem_map] at hw2
    obtain ⟨w0, hw0, rfl⟩ := hw2
    rw [mem_sortBy] at hw0
    have inv := foldlE_inv (firstStep sig (globalEnv osenv secs) (localEnv osenv secs))
      (fun a => ∀ w ∈ a.watchers, ∃ s, s ∈ secs ∧ startsWith (cp! "watcher:") s.name = true ∧
        mkWatcher sig (globalEnv osenv secs) (localEnv osenv secs) s = .ok w) secs
      (fun a b a' hb hp hab w hw => by
        rcases firstStep_watchers sig _ _ a a' b hab w hw with h1 | ⟨h1, h2⟩
        · exact hp w h1
        · exact ⟨b, hb, h1, h2⟩)
      _ _ (by intro w hw; cases hw) hf
    obtain ⟨s, hs, h1, h2⟩ := inv w0 hw0
    exact ⟨s, w0, hs, h1, h2, rfl⟩

theorem dget_finalExpand_opts (genv : Dict Str) (w : Watcher) (k : Str) :
    dget (finalExpand genv w).opts k = (dget w.opts k).map (expandVal (dupdate genv w.env)) := by
  simp only [finalExpand]
  exact dget_map _ _ _

/-! ### references -/

theorem ciPrefix_append (p pre rest : Str) (h : lowerS pre = p) : ciPrefix p (pre ++ rest) = some rest := by
  induction p generalizing pre with
  | nil =>
    cases pre with
    | nil => simp [ciPrefix]
    | cons c t => simp [lowerS] at h
  | cons a p ih =>
    cases pre with
    | nil => simp [lowerS] at h
    | cons c t =>
      simp only [lowerS, List.map_cons, List.cons.injEq] at h
      simp only [List.cons_append, ciPrefix, h.1, if_true]
      exact ih t h.2

theorem span_name (g post : Str) (c0 : Nat) (hg : ∀ c ∈ g, isNameChar c = true)
    (h0 : isNameChar c0 = false) :
    (g ++ c0 :: post).takeWhile isNameChar = g ∧ (g ++ c0 :: post).dropWhile isNameChar = c0 :: post := by
  induction g with
  | nil => simp [h0]
  | cons c t ih =>
    have hc := hg c (by simp)
    have := ih (fun x hx => hg x (by simp [hx]))
    simp [hc, this]

/-- `$( circus. NAME )` in any letter case of the prefix is matched as a whole, group = NAME -/
theorem matchRef_dollar (pre g post : Str) (hpre : lowerS pre = cp! "circus.")
    (hg : ∀ c ∈ g, isNameChar c = true) (hne : g ≠ []) :
    matchRef (36 :: 40 :: (pre ++ (g ++ 41 :: post))) = some (g.length + 10, g) := by
  obtain ⟨h1, h2⟩ := span_name g post 41 hg (by decide)
  simp only [matchRef, ciPrefix_append _ pre _ hpre, h1, h2, hne, if_false]

/-- `(( circus. NAME ))` likewise -/
theorem matchRef_parens (pre g post : Str) (hpre : lowerS pre = cp! "circus.")
    (hg : ∀ c ∈ g, isNameChar c = true) (hne : g ≠ []) :
    matchRef (40 :: 40 :: (pre ++ (g ++ 41 :: 41 :: post))) = some (g.length + 11, g) := by
  obtain ⟨h1, h2⟩ := span_name g (41 :: post) 41 hg (by decide)
  simp only [matchRef, ciPrefix_append _ pre _ hpre, h1, h2, hne, if_false]

theorem matchRef_plain (c : Nat) (r : Str) (h1 : c ≠ 36) (h2 : c ≠ 40) : matchRef (c :: r) = none := by
  unfold matchRef
  split
  · rename_i heq; cases heq; exact absurd rfl h1
  · rename_i heq; cases heq; exact absurd rfl h2
  · rfl

theorem expandAux_skip (tbl : Dict Str) (xs post : Str) :
    expandAux tbl xs.length (xs ++ post) = expandAux tbl 0 post := by
  induction xs with
  | nil => rfl
  | cons c t ih =>
    simp only [List.length_cons, List.cons_append]
    cases post with
    | nil => simpa [expandAux] using ih
    | cons d r => simpa [expandAux] using ih

/-- text without `$` and `(` is copied -/
theorem expandAux_plain (tbl : Dict Str) (plain rest : Str) (h : ∀ c ∈ plain, c ≠ 36 ∧ c ≠ 40) :
    expandAux tbl 0 (plain ++ rest) = plain ++ expandAux tbl 0 rest := by
  induction plain with
  | nil => rfl
  | cons c t ih =>
    have hc := h c (by simp)
    simp only [List.cons_append, expandAux, matchRef_plain c _ hc.1 hc.2]
    rw [ih (fun x hx => h x (by simp [hx]))]

/-- a match at the head is replaced by the table entry for its group (or kept when the table has
    none) and scanning resumes right after it -/
theorem expandAux_match (tbl : Dict Str) (c : Nat) (body post g : Str)
    (hm : matchRef (c :: (body ++ post)) = some (body.length + 1, g)) :
    expandAux tbl 0 (c :: (body ++ post)) =
      (match dget tbl (optionKey g) with
       | some v => v
       | none => c :: body) ++ expandAux tbl 0 post := by
  simp only [expandAux, hm, Nat.add_sub_cancel, expandAux_skip]
  cases dget tbl (optionKey g) with
  | some v => rfl
  | none =>
    have : List.take (body.length + 1) (c :: (body ++ post)) = c :: body := by simp
    simp [this]

theorem cps_circus_env : cp! "circus." ++ cp! "env." = cp! "circus.env." := by decide

/-- the name looked up for the group `env.X` (any letter case): `circus.env.` + lower-case `X` -/
theorem optionKey_env (e x : Str) (he : lowerS e = cp! "env.") :
    optionKey (e ++ x) = cp! "circus.env." ++ lowerS x := by
  have h1 : lowerS (e ++ x) = cp! "env." ++ lowerS x := by
    unfold lowerS at he ⊢
    rw [List.map_append, he]
  unfold optionKey
  simp only [h1]
  have : startsWith (cp! "circus") (cp! "env." ++ lowerS x) = false := by
    simp [startsWith, List.isPrefixOf]
  simp only [this]
  rw [← cps_circus_env, List.append_assoc]
  simp

/-- the value of the last pair whose key equals `x` up to letter case -/
def lastCI (env : Dict Str) (x : Str) : Option Str :=
  lastVal (env.map (fun kv => (lowerS kv.1, kv.2))) (lowerS x)

theorem lastVal_prefix {α} (pfx : Str) (l : List (Str × α)) (k : Str) :
    lastVal (l.map (fun kv => (pfx ++ kv.1, kv.2))) (pfx ++ k) = lastVal l k := by
  induction l with
  | nil => rfl
  | cons h t ih =>
    obtain ⟨a, b⟩ := h
    simp only [List.map_cons, lastVal, ih, List.append_cancel_left_eq]

/-- `replace_gnu_args` looks names up case-insensitively; among keys equal up to case the last one
    in the dict's iteration order wins -/
theorem lookupCI_eq_lastCI (env : Dict Str) (x : Str) : lookupCI env x = lastCI env x := by
  unfold lookupCI fmtOptions lastCI
  have : env.foldl (fun acc kv => dset acc (cp! "circus.env." ++ lowerS kv.1) kv.2) [] =
      dictOf ((env.map (fun kv => (lowerS kv.1, kv.2))).map (fun kv => (cp! "circus.env." ++ kv.1, kv.2))) := by
    simp only [dictOf, dupdate, List.foldl_map]
  rw [this, dget_dictOf, lastVal_prefix]

/-- without a second key equal up to case, the case-insensitive lookup is the plain lookup -/
theorem lastCI_of_unique (env : Dict Str) (x key : Str) (hx : lowerS x = lowerS key)
    (huniq : ∀ k' ∈ env.map (·.1), lowerS k' = lowerS key → k' = key) :
    lastCI env x = lastVal env key := by
  unfold lastCI
  rw [hx]
  induction env with
  | nil => rfl
  | cons h t ih =>
    obtain ⟨a, b⟩ := h
    have ih' := ih (fun k' hk' => huniq k' (by simp only [List.map_cons, List.mem_cons]; exact Or.inr hk'))
    simp only [List.map_cons, lastVal, ih']
    have : (lowerS a = lowerS key) ↔ (a = key) :=
      ⟨fun e => huniq a (by simp) e, fun e => by rw [e]⟩
    by_cases e : a = key
    · simp [e]
    · have : ¬ lowerS a = lowerS key := fun e' => e (this.mp e')
      simp [e, this]

/-! ### the stream option family -/

theorem splitFirst_eq (sep : Nat) (s a b : Str) (h : splitFirst sep s = some (a, b)) :
    s = a ++ sep :: b := by
  induction s generalizing a with
  | nil => cases h
  | cons c r ih =>
    simp only [splitFirst] at h
    by_cases hc : c = sep
    · simp only [hc, if_true, Option.some.injEq, Prod.mk.injEq] at h
      obtain ⟨rfl, rfl⟩ := h; simp [hc]
    · simp only [hc, if_false] at h
      cases hr : splitFirst sep r with
      | none => rw [hr] at h; cases h
      | some ab =>
        obtain ⟨a', b'⟩ := ab
        rw [hr] at h
        simp only [Option.some.injEq, Prod.mk.injEq] at h
        obtain ⟨rfl, rfl⟩ := h
        rw [ih a' hr]; rfl

/-- the two stream dicts, selected by a flag (`true` = stderr) -/
def streamOf (b : Bool) (w : Watcher) : Dict Str := if b then w.stderr else w.stdout
def streamPfx (b : Bool) : Str := if b then cp! "stderr_stream" else cp! "stdout_stream"

theorem classify_stream (b : Bool) (so : Str) : classify (streamPfx b ++ 46 :: so) = .stream := by
  cases b <;>
    simp [streamPfx, classify, rawOpts, boolFOpts, startsWith, List.isPrefixOf]

theorem splitFirst_stream (b : Bool) (so : Str) :
    splitFirst 46 (streamPfx b ++ 46 :: so) = some (streamPfx b, so) := by
  cases b <;> simp [streamPfx, splitFirst]

theorem typeOpt_stream (sig : Str → Option Nat) (genv : Dict Str) (w w' : Watcher) (o v : Str)
    (b : Bool) (h : typeOpt sig genv w (o, v) = .ok w') (so : Str) :
    dget (streamOf b w') so = if o = streamPfx b ++ 46 :: so then some v else dget (streamOf b w) so := by
  by_cases ho : o = streamPfx b ++ 46 :: so
  · subst ho
    unfold typeOpt at h
    simp only [classify_stream, splitFirst_stream] at h
    cases b
    · simp only [streamPfx, streamOf] at h ⊢
      simp at h
      subst h
      simp [dget_dset]
    · simp only [streamPfx, streamOf] at h ⊢
      simp at h
      subst h
      simp [dget_dset]
  · simp only [ho, if_false]
    unfold typeOpt at h
    simp only at h
    cases hc : classify o <;> rw [hc] at h <;> simp only at h
    case raw => cases h; cases b <;> rfl
    case free => cases h; cases b <;> rfl
    case strExp => cases h; cases b <;> rfl
    case int => obtain ⟨x, _, rfl⟩ := map_ok _ _ _ h; cases b <;> rfl
    case bool => obtain ⟨x, _, rfl⟩ := map_ok _ _ _ h; cases b <;> rfl
    case signum => obtain ⟨x, _, rfl⟩ := map_ok _ _ _ h; cases b <;> rfl
    case float => obtain ⟨x, _, rfl⟩ := map_ok _ _ _ h; cases b <;> rfl
    case rlimit => obtain ⟨x, _, rfl⟩ := map_ok _ _ _ h; cases b <;> rfl
    case hook => obtain ⟨x, _, rfl⟩ := map_ok _ _ _ h; cases b <;> rfl
    case stream =>
      split at h
      · cases h
      · rename_i sn so' hsp
        have ho' := splitFirst_eq 46 o sn so' hsp
        split at h
        · rename_i hsn
          cases h
          cases b
          · rfl
          · simp only [streamOf, if_true]
            have : so' ≠ so := by
              intro e; apply ho; rw [ho', hsn, e]; rfl
            simp [dget_dset, this]
        · split at h
          · rename_i hsn
            cases h
            cases b
            · simp only [streamOf]
              have : so' ≠ so := by
                intro e; apply ho; rw [ho', hsn, e]; rfl
              simp [dget_dset, this]
            · rfl
          · cases h

/-- the option loop over items with distinct keys: every written `std{out,err}_stream.X = v`
    is stored under `X`, nothing else is -/
theorem streamLoop_spec (sig : Str → Option Nat) (genv : Dict Str) (b : Bool) (items : List (Str × Str)) :
    ∀ (w w' : Watcher), (items.map (·.1)).Nodup → foldlE (typeOpt sig genv) w items = .ok w' →
      (∀ so, streamPfx b ++ 46 :: so ∉ items.map (·.1) → dget (streamOf b w') so = dget (streamOf b w) so) ∧
      (∀ so v, (streamPfx b ++ 46 :: so, v) ∈ items → dget (streamOf b w') so = some v) := by
  induction items with
  | nil =>
    intro w w' _ h
    simp only [foldlE] at h; cases h
    exact ⟨fun _ _ => rfl, fun _ _ hm => by cases hm⟩
  | cons hd t ih =>
    intro w w' hnd h
    obtain ⟨o1, v1⟩ := hd
    simp only [List.map_cons, List.nodup_cons] at hnd
    obtain ⟨w1, h1, h2⟩ := foldlE_cons_ok _ _ _ _ _ h
    have st := typeOpt_stream sig genv w w1 o1 v1 b h1
    obtain ⟨i1, i2⟩ := ih w1 w' hnd.2 h2
    refine ⟨fun so hk => ?_, fun so v hm => ?_⟩
    · simp only [List.map_cons, List.mem_cons, not_or] at hk
      rw [i1 so hk.2, st so, if_neg (fun e => hk.1 e.symm)]
    · rcases List.mem_cons.mp hm with e | hm'
      · cases e
        rw [i1 so hnd.1, st so, if_pos rfl]
      · exact i2 so v hm'

theorem mkWatcher_streams (sig : Str → Option Nat) (genv lenv : Dict Str) (s : Section) (w : Watcher)
    (b : Bool) (h : mkWatcher sig genv lenv s = .ok w) (hnd : (s.items.map (·.1)).Nodup) :
    (∀ so, streamPfx b ++ 46 :: so ∉ s.items.map (·.1) → dget (streamOf b w) so = none) ∧
    (∀ so v, (streamPfx b ++ 46 :: so, v) ∈ s.items → dget (streamOf b w) so = some v) := by
  unfold mkWatcher at h
  simp only at h
  split at h
  · cases h
  · rename_i w1 hf
    cases h
    obtain ⟨a1, a2⟩ := streamLoop_spec sig genv b s.items _ w1 hnd hf
    constructor
    · intro so hk
      have := a1 so hk
      cases b <;> simpa [streamOf, dget] using this
    · intro so v hm
      have := a2 so v hm
      cases b <;> simpa [streamOf] using this

theorem dget_finalExpand_stream (genv : Dict Str) (w : Watcher) (b : Bool) (k : Str) :
    dget (streamOf b (finalExpand genv w)) k =
      (dget (streamOf b w) k).map (expand (dupdate genv w.env)) := by
  cases b <;> simp only [streamOf, finalExpand] <;> exact dget_map _ _ _

/-! ### no watcher section is dropped -/

theorem mem_keys_dset {α} (d : Dict α) (k k' : Str) (v : α) :
    k ∈ (dset d k' v).map (·.1) ↔ k = k' ∨ k ∈ d.map (·.1) := by
  rw [keys_dset]
  split
  · rename_i hk
    constructor
    · exact Or.inr
    · rintro (e | e)
      · rw [e]; exact hk
      · exact e
  · simp only [List.mem_append, List.mem_singleton]
    constructor
    · rintro (e | e) <;> simp [e]
    · rintro (e | e) <;> simp [e]

theorem mem_keys_dupdate {α} (items : List (Str × α)) (d : Dict α) (k : Str) :
    k ∈ (dupdate d items).map (·.1) ↔ k ∈ d.map (·.1) ∨ k ∈ items.map (·.1) := by
  induction items generalizing d with
  | nil => simp [dupdate]
  | cons hd t ih =>
    have : dupdate d (hd :: t) = dupdate (dset d hd.1 hd.2) t := rfl
    rw [this, ih, mem_keys_dset]
    simp only [List.map_cons, List.mem_cons]
    constructor
    · rintro ((e | e) | e) <;> simp [e]
    · rintro (e | e | e) <;> simp [e]

theorem firstStep_mono (sig : Str → Option Nat) (genv lenv : Dict Str) (a a' : Acc) (s : Section)
    (h : firstStep sig genv lenv a s = .ok a') : ∀ w ∈ a.watchers, w ∈ a'.watchers := by
  unfold firstStep at h
  simp only at h
  split at h
  · cases h; intro w hw; exact hw
  · split at h
    · cases h
    · rename_i a1 h1
      split at h
      · cases h
      · rename_i a2 h2
        have e1 : a1.watchers = a.watchers := by
          split at h1
          · obtain ⟨x, _, rfl⟩ := map_ok _ _ _ h1; rfl
          · cases h1; rfl
        have e2 : a2.watchers = a1.watchers := by
          split at h2
          · obtain ⟨x, _, rfl⟩ := map_ok _ _ _ h2; rfl
          · cases h2; rfl
        split at h
        · obtain ⟨x, _, rfl⟩ := map_ok _ _ _ h
          intro w hw
          simp only [List.mem_append]
          left; rw [e2, e1]; exact hw
        · cases h
          intro w hw; rw [e2, e1]; exact hw

theorem firstStep_adds (sig : Str → Option Nat) (genv lenv : Dict Str) (a a' : Acc) (s : Section)
    (h : firstStep sig genv lenv a s = .ok a') (hpre : startsWith (cp! "watcher:") s.name = true)
    (k v : Str) (hkv : (k, v) ∈ s.kvs) (hk : k ≠ cp! "__name__") :
    ∃ w ∈ a'.watchers, mkWatcher sig genv lenv s = .ok w := by
  have hmem : k ∈ (dictOf (s.itemsExp genv)).map (·.1) := by
    unfold dictOf
    rw [mem_keys_dupdate]
    right
    simp only [Section.itemsExp, Section.items, List.map_cons, List.map_map, List.mem_cons, List.mem_map]
    right
    exact ⟨(k, v), hkv, rfl⟩
  unfold firstStep at h
  simp only at h
  split at h
  · rename_i hskip
    rcases hskip with e | e
    · rw [e] at hmem; cases hmem
    · rw [e] at hmem
      simp only [List.mem_singleton] at hmem
      exact absurd hmem hk
  · split at h
    · cases h
    · split at h
      · cases h
      · obtain ⟨x, hx, rfl⟩ := map_ok _ _ _ h
        exact ⟨x, by simp, hx⟩

theorem firstPass_complete (sig : Str → Option Nat) (genv lenv : Dict Str) (secs : List Section) :
    ∀ (a a' : Acc), foldlE (firstStep sig genv lenv) a secs = .ok a' →
      (∀ w ∈ a.watchers, w ∈ a'.watchers) ∧
      ∀ s ∈ secs, startsWith (cp! "watcher:") s.name = true →
        ∀ k v, (k, v) ∈ s.kvs → k ≠ cp! "__name__" →
          ∃ w ∈ a'.watchers, mkWatcher sig genv lenv s = .ok w := by
  induction secs with
  | nil =>
    intro a a' h
    simp only [foldlE] at h; cases h
    exact ⟨fun _ hw => hw, fun s hs => by cases hs⟩
  | cons s0 r ih =>
    intro a a' h
    obtain ⟨a1, h1, h2⟩ := foldlE_cons_ok _ _ _ _ _ h
    obtain ⟨m2, c2⟩ := ih a1 a' h2
    refine ⟨fun w hw => m2 w (firstStep_mono sig genv lenv a a1 s0 h1 w hw), ?_⟩
    intro s hs hpre k v hkv hk
    rcases List.mem_cons.mp hs with e | e
    · subst e
      obtain ⟨w, hw, hm⟩ := firstStep_adds sig genv lenv a a1 s h1 hpre k v hkv hk
      exact ⟨w, m2 w hw, hm⟩
    · exact c2 s e hpre k v hkv hk

end Circus.Config
