import CircusProofs.Lemmas.Redirector
/-! The state invariant `Inv` of the Redirector layer, the accounting invariant `Acc` that ties the
output trace to the pipes, and their preservation by every `step`. -/
namespace Circus.Redirector

/-! ### measures on the trace -/

def Out.isData : Out → Bool
  | .delivered .. | .wrote .. | .lost .. => true
  | _ => false

theorem isData_of_isCtl {x : Out} (h : x.isCtl = true) : x.isData = false := by
  cases x <;> simp_all [Out.isCtl, Out.isData]

theorem deliveredOf_append (p : Nat) (c : Chan) (a b : List Out) :
    deliveredOf p c (a ++ b) = deliveredOf p c a ++ deliveredOf p c b := by
  induction a with
  | nil => rfl
  | cons x a ih => cases x <;> simp [deliveredOf, ih]

theorem writtenOf_append (p : Nat) (c : Chan) (a b : List Out) :
    writtenOf p c (a ++ b) = writtenOf p c a ++ writtenOf p c b := by
  induction a with
  | nil => rfl
  | cons x a ih => cases x <;> simp [writtenOf, ih]

theorem lostOf_append (p : Nat) (c : Chan) (a b : List Out) :
    lostOf p c (a ++ b) = lostOf p c a ++ lostOf p c b := by
  induction a with
  | nil => rfl
  | cons x a ih => cases x <;> simp [lostOf, ih]

theorem measures_noData (p : Nat) (c : Chan) (o : List Out) (h : ∀ x ∈ o, x.isData = false) :
    deliveredOf p c o = [] ∧ writtenOf p c o = [] ∧ lostOf p c o = [] := by
  induction o with
  | nil => exact ⟨rfl, rfl, rfl⟩
  | cons x o ih =>
    have hx := h x (by simp)
    have := ih (fun y hy => h y (by simp [hy]))
    cases x <;> simp_all [deliveredOf, writtenOf, lostOf, Out.isData]

/-! ### workers -/

theorem findProc_some {s : State} {pid : Nat} {w : Worker} (h : findProc s pid = some w) :
    w ∈ s.procs ∧ w.pid = pid := by
  unfold findProc at h
  exact ⟨List.mem_of_find?_eq_some h, by simpa using List.find?_some h⟩

theorem findProc_none {s : State} {pid : Nat} (h : findProc s pid = none) : ∀ w ∈ s.procs, w.pid ≠ pid := by
  unfold findProc at h
  rw [List.find?_eq_none] at h
  intro w hw
  simpa using h w hw

theorem eq_of_pid_eq {l : List Worker} (hn : (l.map Worker.pid).Nodup) {a b : Worker} (ha : a ∈ l) (hb : b ∈ l)
    (h : a.pid = b.pid) : a = b := by
  induction l with
  | nil => cases ha
  | cons x l ih =>
    simp only [List.map_cons, List.nodup_cons, List.mem_map, not_exists, not_and] at hn
    rcases List.mem_cons.mp ha with rfl | ha' <;> rcases List.mem_cons.mp hb with rfl | hb'
    · rfl
    · exact absurd h.symm (hn.1 b hb')
    · exact absurd h (hn.1 a ha')
    · exact ih hn.2 ha' hb'

theorem findProc_of_mem {s : State} (hn : (s.procs.map Worker.pid).Nodup) {w : Worker} (hw : w ∈ s.procs) :
    findProc s w.pid = some w := by
  cases h : findProc s w.pid with
  | none => exact absurd rfl (findProc_none h w hw)
  | some w' =>
    obtain ⟨h1, h2⟩ := findProc_some h
    rw [eq_of_pid_eq hn h1 hw h2]

/-! ### the invariant -/

/-- a dictionary entry is labelled with the owner of the pipe that currently sits at its number
    (or the number is closed: a stale entry) -/
def Labelled (t : List (Option Pipe)) (e : Entry) : Prop :=
  e.fd < t.length ∧ ∀ p, lookup t e.fd = some p → p.pid = e.pid ∧ p.chan = e.name

structure Inv (s : State) : Prop where
  red : RedInv s.red
  pipesLab : ∀ e ∈ s.red.pipes, Labelled s.fdt e
  activeLab : ∀ e ∈ s.red.active, Labelled s.fdt e
  owned : ∀ fd p, lookup s.fdt fd = some p → ∃ w ∈ s.procs, w.pid = p.pid ∧ w.pobj p.chan = .opened fd
  points : ∀ w ∈ s.procs, ∀ c fd, w.pobj c = .opened fd →
    ∃ p, lookup s.fdt fd = some p ∧ p.pid = w.pid ∧ p.chan = c
  pidsLt : ∀ w ∈ s.procs, w.pid < s.nextPid
  pidsNodup : (s.procs.map Worker.pid).Nodup

/-- accounting: every byte a worker wrote is delivered under its label, still queued, or was
    dropped by a close — in that order; `outs` is the trace that led to `s` -/
structure Acc (s : State) (outs : List Out) : Prop where
  bal : ∀ pid chan, writtenOf pid chan outs =
    deliveredOf pid chan outs ++ lostOf pid chan outs ++ pending s pid chan
  liveNoLoss : ∀ w ∈ s.procs, ∀ chan, lostOf w.pid chan outs = []
  fresh : ∀ pid chan, s.nextPid ≤ pid →
    writtenOf pid chan outs = [] ∧ deliveredOf pid chan outs = [] ∧ lostOf pid chan outs = [] ∧
    ∀ fd, Out.eof chan pid fd ∉ outs
  /-- after the EOF read of `(pid, chan)` nothing is queued, nothing was or will be dropped, and the
      writer end is closed -/
  eofDone : 0 < s.red.buffer → ∀ chan pid fd, Out.eof chan pid fd ∈ outs →
    lostOf pid chan outs = [] ∧ pending s pid chan = [] ∧
    ∀ w ∈ s.procs, w.pid = pid → ∀ fd' q, w.pobj chan = .opened fd' → lookup s.fdt fd' = some q → q.wOpen = false

theorem Labelled.of_lookup_eq {t t' : List (Option Pipe)} {e : Entry} (h : Labelled t e)
    (hl : t.length ≤ t'.length) (hk : ∀ p, lookup t' e.fd = some p → ∃ p0, lookup t e.fd = some p0 ∧ p0.pid = p.pid ∧ p0.chan = p.chan) :
    Labelled t' e := by
  refine ⟨Nat.lt_of_lt_of_le h.1 hl, ?_⟩
  intro p hp
  obtain ⟨p0, h0, h1, h2⟩ := hk p hp
  have := h.2 p0 h0
  exact ⟨h1 ▸ this.1, h2 ▸ this.2⟩

/-- what is queued for channel `chan` of worker object `w` in table `t` -/
def pendW (t : List (Option Pipe)) (w : Worker) (chan : Chan) : Bytes :=
  match w.pobj chan with
  | .opened fd => (match lookup t fd with | some p => p.q | none => [])
  | _ => []

theorem pending_some {s : State} {pid : Nat} {w : Worker} (h : findProc s pid = some w) (chan : Chan) :
    pending s pid chan = pendW s.fdt w chan := by
  unfold pending pendW; rw [h]; rfl

theorem pending_none {s : State} {pid : Nat} (h : findProc s pid = none) (chan : Chan) :
    pending s pid chan = [] := by
  unfold pending; rw [h]

theorem pendW_opened {t : List (Option Pipe)} {w : Worker} {chan : Chan} {fd : Nat} (h : w.pobj chan = .opened fd) :
    pendW t w chan = (match lookup t fd with | some p => p.q | none => []) := by
  unfold pendW; rw [h]

theorem pendW_not_opened {t : List (Option Pipe)} {w : Worker} {chan : Chan} (h : ∀ fd, w.pobj chan ≠ .opened fd) :
    pendW t w chan = [] := by
  unfold pendW
  cases h2 : w.pobj chan with
  | opened fd => exact absurd h2 (h fd)
  | absent => rfl
  | closed => rfl

theorem pending_congr {s s' : State} (h1 : s'.fdt = s.fdt) (h2 : s'.procs = s.procs) (pid : Nat) (chan : Chan) :
    pending s' pid chan = pending s pid chan := by
  unfold pending findProc
  rw [h1, h2]

/-- the queue of the pipe at `fd` is what is pending for its owner -/
theorem pending_owner {s : State} (h : Inv s) {fd : Nat} {p : Pipe} (hp : lookup s.fdt fd = some p) :
    pending s p.pid p.chan = p.q := by
  obtain ⟨w, hw, h1, h2⟩ := h.owned fd p hp
  rw [← h1, pending_some (findProc_of_mem h.pidsNodup hw), pendW_opened h2, hp]

/-! ### replacing the pipe at an open number by one with the same owner (write, closeWriter, read) -/

def setPipe (s : State) (fd : Nat) (p' : Pipe) : State := { s with fdt := s.fdt.set fd (some p') }

theorem inv_setPipe {s : State} (h : Inv s) {fd : Nat} {p p' : Pipe} (hp : lookup s.fdt fd = some p)
    (e1 : p'.pid = p.pid) (e2 : p'.chan = p.chan) : Inv (setPipe s fd p') := by
  have hlk := lookup_set_some hp p'
  have lab : ∀ e, Labelled s.fdt e → Labelled (s.fdt.set fd (some p')) e := by
    intro e he
    refine he.of_lookup_eq (by simp) ?_
    intro q hq
    rw [hlk] at hq
    by_cases hfd : e.fd = fd
    · rw [if_pos hfd] at hq
      injection hq with hq
      exact ⟨p, hfd ▸ hp, by rw [← hq, e1], by rw [← hq, e2]⟩
    · rw [if_neg hfd] at hq
      exact ⟨q, hq, rfl, rfl⟩
  refine ⟨h.red, fun e he => lab e (h.pipesLab e he), fun e he => lab e (h.activeLab e he), ?_, ?_, h.pidsLt, h.pidsNodup⟩
  · intro j q hq
    show ∃ w ∈ s.procs, _
    change lookup (s.fdt.set fd (some p')) j = some q at hq
    rw [hlk] at hq
    by_cases hj : j = fd
    · rw [if_pos hj] at hq
      injection hq with hq
      obtain ⟨w, hw, a, b⟩ := h.owned fd p hp
      exact ⟨w, hw, by rw [← hq, e1]; exact a, by rw [← hq, e2, hj]; exact b⟩
    · rw [if_neg hj] at hq
      exact h.owned j q hq
  · intro w hw c j hj
    obtain ⟨q, a, b, d⟩ := h.points w hw c j hj
    change ∃ q, lookup (s.fdt.set fd (some p')) j = some q ∧ _
    rw [hlk]
    by_cases hjf : j = fd
    · rw [if_pos hjf]
      have : q = p := by rw [hjf, hp] at a; injection a with a; exact a.symm
      exact ⟨p', rfl, by rw [e1, ← this]; exact b, by rw [e2, ← this]; exact d⟩
    · rw [if_neg hjf]
      exact ⟨q, a, b, d⟩

theorem pending_setPipe {s : State} (h : Inv s) {fd : Nat} {p p' : Pipe} (hp : lookup s.fdt fd = some p)
    (pid : Nat) (chan : Chan) :
    pending (setPipe s fd p') pid chan = if pid = p.pid ∧ chan = p.chan then p'.q else pending s pid chan := by
  have hlk := lookup_set_some hp p'
  obtain ⟨w0, hw0, a0, b0⟩ := h.owned fd p hp
  have hf : findProc (setPipe s fd p') pid = findProc s pid := rfl
  cases h1 : findProc s pid with
  | none =>
    have := findProc_none h1 w0 hw0
    have hne : ¬ (pid = p.pid ∧ chan = p.chan) := fun x => this (a0.trans x.1.symm)
    rw [pending_none (hf.trans h1), pending_none h1]; simp [hne]
  | some w =>
    obtain ⟨hw, hwp⟩ := findProc_some h1
    rw [pending_some (hf.trans h1), pending_some h1]
    show pendW (s.fdt.set fd (some p')) w chan = _
    by_cases hc : pid = p.pid ∧ chan = p.chan
    · have : w = w0 := eq_of_pid_eq h.pidsNodup hw hw0 (by rw [hwp, a0, hc.1])
      subst this
      rw [if_pos hc, hc.2, pendW_opened b0, hlk]; simp
    · rw [if_neg hc]
      by_cases ho : ∃ j, w.pobj chan = .opened j
      · obtain ⟨j, h2⟩ := ho
        rw [pendW_opened h2, pendW_opened h2, hlk]
        have : j ≠ fd := by
          intro hj
          obtain ⟨q, a, b, d⟩ := h.points w hw chan j h2
          rw [hj, hp] at a
          injection a with a
          exact hc ⟨by rw [← hwp, a, b], by rw [a, d]⟩
        rw [if_neg this]
      · have ho' : ∀ j, w.pobj chan ≠ .opened j := fun j hj => ho ⟨j, hj⟩
        rw [pendW_not_opened ho', pendW_not_opened ho']

/-! ### steps that change nothing but the `Redirector` object, and emit no data -/

theorem acc_same_eof {s s' : State} {outs o : List Out} (a : Acc s outs) (h1 : s'.fdt = s.fdt)
    (h2 : s'.procs = s.procs) (h3 : s'.nextPid = s.nextPid) (h4 : s'.red.buffer = s.red.buffer)
    (hd : ∀ x ∈ o, x.isData = false)
    (he : ∀ c p fd, Out.eof c p fd ∈ o → p < s.nextPid ∧ (0 < s.red.buffer →
      lostOf p c outs = [] ∧ pending s p c = [] ∧
      ∀ w ∈ s.procs, w.pid = p → ∀ fd' q, w.pobj c = .opened fd' → lookup s.fdt fd' = some q → q.wOpen = false)) :
    Acc s' (outs ++ o) := by
  have hm := fun p c => measures_noData p c o hd
  refine ⟨?_, ?_, ?_, ?_⟩
  · intro pid chan
    rw [writtenOf_append, deliveredOf_append, lostOf_append, (hm pid chan).1, (hm pid chan).2.1, (hm pid chan).2.2,
      pending_congr h1 h2]
    simpa using a.bal pid chan
  · intro w hw chan
    rw [lostOf_append, (hm w.pid chan).2.2, h2] at *
    simpa using a.liveNoLoss w hw chan
  · intro pid chan hp
    rw [h3] at hp
    obtain ⟨f1, f2, f3, f4⟩ := a.fresh pid chan hp
    rw [writtenOf_append, deliveredOf_append, lostOf_append, (hm pid chan).1, (hm pid chan).2.1, (hm pid chan).2.2]
    refine ⟨by simpa using f1, by simpa using f2, by simpa using f3, ?_⟩
    intro fd hx
    rcases List.mem_append.mp hx with h | h
    · exact f4 fd h
    · have := (he _ _ _ h).1; omega
  · intro hb chan pid fd hx
    rw [h4] at hb
    rw [lostOf_append, (hm pid chan).2.2, pending_congr h1 h2, h1, h2]
    rcases List.mem_append.mp hx with h | h
    · obtain ⟨g1, g2, g3⟩ := a.eofDone hb chan pid fd h
      exact ⟨by simpa using g1, g2, g3⟩
    · obtain ⟨g1, g2, g3⟩ := (he _ _ _ h).2 hb
      exact ⟨by simpa using g1, g2, g3⟩

theorem acc_same {s s' : State} {outs o : List Out} (a : Acc s outs) (h1 : s'.fdt = s.fdt)
    (h2 : s'.procs = s.procs) (h3 : s'.nextPid = s.nextPid) (h4 : s'.red.buffer = s.red.buffer)
    (hd : ∀ x ∈ o, x.isData = false) (he : ∀ x ∈ o, ∀ c p fd, x ≠ Out.eof c p fd) : Acc s' (outs ++ o) :=
  acc_same_eof a h1 h2 h3 h4 hd (fun c p fd hx => absurd rfl (he _ hx c p fd))

/-! ### the pipe at an open number changes (write, closeWriter, a read that delivers) -/

theorem setPipe_ok {s : State} {outs : List Out} (h : Inv s) (a : Acc s outs) {fd : Nat} {p : Pipe}
    (hlk : lookup s.fdt fd = some p) (p' : Pipe) (e1 : p'.pid = p.pid) (e2 : p'.chan = p.chan)
    (o : List Out) (wb db : Bytes)
    (hW : ∀ pid chan, writtenOf pid chan o = if pid = p.pid ∧ chan = p.chan then wb else [])
    (hD : ∀ pid chan, deliveredOf pid chan o = if pid = p.pid ∧ chan = p.chan then db else [])
    (hL : ∀ pid chan, lostOf pid chan o = [])
    (hE : ∀ x ∈ o, ∀ c p fd, x ≠ Out.eof c p fd)
    (hq : p.q ++ wb = db ++ p'.q)
    (hw1 : p.wOpen = false → wb = [])
    (hw2 : p'.wOpen = true → p.wOpen = true) :
    Inv (setPipe s fd p') ∧ Acc (setPipe s fd p') (outs ++ o) := by
  have hinv := inv_setPipe h hlk (p' := p') e1 e2
  have hpend := pending_setPipe h hlk (p' := p')
  obtain ⟨w, hw, hwp, hpo⟩ := h.owned fd p hlk
  have hmem : ∀ c p fd, Out.eof c p fd ∈ outs ++ o → Out.eof c p fd ∈ outs := by
    intro c p fd hx
    rcases List.mem_append.mp hx with h | h
    · exact h
    · exact absurd rfl (hE _ h c p fd)
  refine ⟨hinv, ?_, ?_, ?_, ?_⟩
  · intro pid' chan'
    rw [writtenOf_append, deliveredOf_append, lostOf_append, hpend, hW, hD, hL]
    have hb := a.bal pid' chan'
    by_cases hc : pid' = p.pid ∧ chan' = p.chan
    · rw [if_pos hc, if_pos hc, if_pos hc, hb]
      have hl : lostOf pid' chan' outs = [] := by rw [hc.1, ← hwp]; exact a.liveNoLoss w hw chan'
      have : pending s pid' chan' = p.q := by rw [hc.1, hc.2]; exact pending_owner h hlk
      rw [this, hl]
      simp only [List.append_nil, List.append_assoc]
      rw [hq]
    · rw [if_neg hc, if_neg hc, if_neg hc, hb]; simp
  · intro w' hw' c
    rw [lostOf_append, hL]
    simpa using a.liveNoLoss w' hw' c
  · intro pid' chan' hp
    obtain ⟨f1, f2, f3, f4⟩ := a.fresh pid' chan' hp
    have hne : ¬ (pid' = p.pid ∧ chan' = p.chan) := by
      intro x
      have := h.pidsLt w hw
      change s.nextPid ≤ pid' at hp
      omega
    rw [writtenOf_append, deliveredOf_append, lostOf_append, hW, hD, hL, if_neg hne, if_neg hne, f1, f2, f3]
    exact ⟨rfl, rfl, rfl, fun fd hx => f4 fd (hmem _ _ _ hx)⟩
  · intro hb c' p0 fd' hx
    obtain ⟨g1, g2, g3⟩ := a.eofDone hb c' p0 fd' (hmem _ _ _ hx)
    rw [lostOf_append, hL, hpend]
    refine ⟨by simpa using g1, ?_, ?_⟩
    · by_cases hc : p0 = p.pid ∧ c' = p.chan
      · rw [if_pos hc]
        have hwc := g3 w hw (hwp.trans hc.1.symm) fd p (by rw [hc.2]; exact hpo) hlk
        have hpq : p.q = [] := by
          have := pending_owner h hlk
          rw [← hc.1, ← hc.2, g2] at this
          exact this.symm
        rw [hpq, hw1 hwc] at hq
        have := congrArg List.length hq
        simp at this
        exact List.eq_nil_of_length_eq_zero (by omega)
      · rw [if_neg hc]; exact g2
    · intro w' hw' hp' fd'' q' ho hl
      change lookup (s.fdt.set fd (some p')) fd'' = some q' at hl
      rw [lookup_set_some hlk] at hl
      by_cases hfd : fd'' = fd
      · rw [if_pos hfd] at hl
        injection hl with hl
        obtain ⟨q2, a2, b2, d2⟩ := h.points w' hw' c' fd'' ho
        rw [hfd] at ho
        have hold := g3 w' hw' hp' fd p ho hlk
        cases hx2 : q'.wOpen with
        | false => rfl
        | true => rw [← hl] at hx2; rw [hw2 hx2] at hold; cases hold
      · rw [if_neg hfd] at hl
        exact g3 w' hw' hp' fd'' q' ho hl

/-! ### write, closeWriter -/

theorem write_ok {s : State} {outs : List Out} (h : Inv s) (a : Acc s outs) (pid : Nat) (chan : Chan) (bytes : Bytes) :
    Inv (step s (.write pid chan bytes)).1 ∧
    Acc (step s (.write pid chan bytes)).1 (outs ++ (step s (.write pid chan bytes)).2) := by
  have same : ∀ x : Out, x.isData = false → (∀ c p fd, x ≠ Out.eof c p fd) → Inv s ∧ Acc s (outs ++ [x]) :=
    fun x hx he => ⟨h, acc_same a rfl rfl rfl rfl (by simpa using hx) (by simpa using he)⟩
  simp only [step]
  cases hfp : findProc s pid with
  | none => exact same _ rfl (by simp)
  | some w =>
    obtain ⟨hw, hwp⟩ := findProc_some hfp
    simp only
    cases hpo : w.pobj chan with
    | absent => exact same _ rfl (by simp)
    | closed => exact same _ rfl (by simp)
    | opened fd =>
      simp only
      cases hlk : lookup s.fdt fd with
      | none => exact same _ rfl (by simp)
      | some p =>
        simp only
        by_cases hwo : p.wOpen
        · rw [if_pos hwo]
          obtain ⟨q, hq1, hq2, hq3⟩ := h.points w hw chan fd hpo
          have hqp : q = p := by rw [hlk] at hq1; injection hq1 with x; exact x.symm
          subst hqp
          have hown : ∀ pid' chan', (pid = pid' ∧ chan = chan') ↔ (pid' = q.pid ∧ chan' = q.chan) := by
            intro pid' chan'
            rw [hq2, hq3, hwp]
            constructor <;> rintro ⟨rfl, rfl⟩ <;> exact ⟨rfl, rfl⟩
          exact setPipe_ok h a hlk { q with q := q.q ++ bytes } rfl rfl [.wrote pid chan bytes] bytes []
            (by intro pid' chan'; simp only [writtenOf, List.append_nil]; simp only [hown])
            (by intro pid' chan'; simp [deliveredOf])
            (by intro pid' chan'; simp [lostOf])
            (by simp) (by simp) (by intro x; rw [x] at hwo; cases hwo) (fun _ => hwo)
        · rw [if_neg hwo]
          exact same _ rfl (by simp)

theorem closeWriter_ok {s : State} {outs : List Out} (h : Inv s) (a : Acc s outs) (pid : Nat) (chan : Chan) :
    Inv (step s (.closeWriter pid chan)).1 ∧
    Acc (step s (.closeWriter pid chan)).1 (outs ++ (step s (.closeWriter pid chan)).2) := by
  have same : ∀ x : Out, x.isData = false → (∀ c p fd, x ≠ Out.eof c p fd) → Inv s ∧ Acc s (outs ++ [x]) :=
    fun x hx he => ⟨h, acc_same a rfl rfl rfl rfl (by simpa using hx) (by simpa using he)⟩
  simp only [step]
  cases hfp : findProc s pid with
  | none => exact same _ rfl (by simp)
  | some w =>
    simp only
    cases hpo : w.pobj chan with
    | absent => exact same _ rfl (by simp)
    | closed => exact same _ rfl (by simp)
    | opened fd =>
      simp only
      cases hlk : lookup s.fdt fd with
      | none => exact same _ rfl (by simp)
      | some p =>
        simp only
        by_cases hwo : p.wOpen
        · rw [if_pos hwo]
          exact setPipe_ok h a hlk { p with wOpen := false } rfl rfl [.writerEnd pid chan] [] []
            (by intro pid' chan'; simp [writtenOf])
            (by intro pid' chan'; simp [deliveredOf])
            (by intro pid' chan'; simp [lostOf])
            (by simp) (by simp) (fun _ => rfl) (by intro x; cases x)
        · rw [if_neg hwo]
          exact same _ rfl (by simp)

/-! ### ready: `Handler.__call__` -/

theorem ready_ok {s : State} {outs : List Out} (h : Inv s) (a : Acc s outs) (fd : Nat) :
    Inv (step s (.ready fd)).1 ∧ Acc (step s (.ready fd)).1 (outs ++ (step s (.ready fd)).2) := by
  have same : ∀ x : Out, x.isData = false → (∀ c p fd, x ≠ Out.eof c p fd) → Inv s ∧ Acc s (outs ++ [x]) :=
    fun x hx he => ⟨h, acc_same a rfl rfl rfl rfl (by simpa using hx) (by simpa using he)⟩
  simp only [step, handlerCall]
  cases hg : s.red.active.get fd with
  | none => exact same _ rfl (by simp)
  | some hd =>
    obtain ⟨hdm, hdfd⟩ := Dict.get_some hg
    simp only
    cases hlk : lookup s.fdt fd with
    | none => exact same _ rfl (by simp)
    | some p =>
      simp only
      have hlab := (h.activeLab hd hdm).2 p (by rw [hdfd]; exact hlk)
      by_cases hea : s.red.buffer ≠ 0 ∧ p.q = [] ∧ p.wOpen = true
      · rw [if_pos hea]; exact same _ rfl (by simp)
      · rw [if_neg hea]
        by_cases hz : (List.take s.red.buffer p.q).length = 0
        · rw [if_pos hz]
          -- the EOF read: `remove_fd(fd)`
          have hsp := removeFd_fst s.red fd
          have hctl := removeFd_ctl s.red fd
          generalize removeFd s.red fd = rf at hsp hctl
          obtain ⟨r', o'⟩ := rf
          simp only at hsp hctl ⊢
          have hri : RedInv r' := by
            have := h.red.removeFd fd; rw [removeFd_fst] at this; rw [hsp]; exact this
          obtain ⟨w, hw, hwp, hpo⟩ := h.owned fd p hlk
          refine ⟨⟨hri, ?_, ?_, h.owned, h.points, h.pidsLt, h.pidsNodup⟩, ?_⟩
          · intro e he; rw [hsp] at he; exact h.pipesLab e ((Dict.mem_del _ _ _).mp he).1
          · intro e he; rw [hsp] at he; exact h.activeLab e ((Dict.mem_del _ _ _).mp he).1
          · refine acc_same_eof a rfl rfl rfl (by rw [hsp]) ?_ ?_
            · intro x hx
              rcases List.mem_append.mp hx with h1 | h1
              · exact isData_of_isCtl (hctl x h1)
              · simp at h1; subst h1; rfl
            · intro c p0 fd0 hx
              have hx' : Out.eof c p0 fd0 = Out.eof hd.name hd.pid fd := by
                rcases List.mem_append.mp hx with h1 | h1
                · have := hctl _ h1; simp [Out.isCtl] at this
                · simpa using h1
              injection hx' with hc hp hf
              subst hc hp hf
              refine ⟨by rw [← hlab.1, ← hwp]; exact h.pidsLt w hw, ?_⟩
              intro hb
              have hq : p.q = [] := by
                have : p.q.length = 0 := by
                  rw [List.length_take] at hz
                  omega
                exact List.eq_nil_of_length_eq_zero this
              have hwo : p.wOpen = false := by
                cases hx2 : p.wOpen with
                | false => rfl
                | true => exact absurd ⟨by omega, hq, hx2⟩ hea
              refine ⟨?_, ?_, ?_⟩
              · rw [← hlab.1, ← hwp]; exact a.liveNoLoss w hw _
              · rw [← hlab.1, ← hlab.2, pending_owner h hlk, hq]
              · intro w' hw' hp' fd' q' ho hl
                have : w' = w := eq_of_pid_eq h.pidsNodup hw' hw (by rw [hp', hwp, hlab.1])
                subst this
                rw [← hlab.2, hpo] at ho
                injection ho with ho
                subst ho
                rw [hlk] at hl; injection hl with hl
                rw [← hl]; exact hwo
        · rw [if_neg hz]
          have hown : ∀ pid' chan', (hd.pid = pid' ∧ hd.name = chan') ↔ (pid' = p.pid ∧ chan' = p.chan) := by
            intro pid' chan'
            rw [← hlab.1, ← hlab.2]
            constructor <;> rintro ⟨rfl, rfl⟩ <;> exact ⟨rfl, rfl⟩
          exact setPipe_ok h a hlk { p with q := p.q.drop s.red.buffer } rfl rfl
            [.delivered hd.name hd.pid (p.q.take s.red.buffer)] [] (p.q.take s.red.buffer)
            (by intro pid' chan'; simp [writtenOf])
            (by intro pid' chan'; simp only [deliveredOf, List.append_nil]; simp only [hown])
            (by intro pid' chan'; simp [lostOf])
            (by simp) (by simp) (fun _ => rfl) (fun x => x)

/-! ### start, stop -/

theorem start_ok {s : State} {outs : List Out} (h : Inv s) (a : Acc s outs) :
    Inv (step s .start).1 ∧ Acc (step s .start).1 (outs ++ (step s .start).2) := by
  simp only [step]
  obtain ⟨i1, i2, i3, i4, i5⟩ := start_spec h.red
  generalize start s.red = st at i1 i2 i3 i4 i5
  obtain ⟨r', o'⟩ := st
  simp only at i1 i2 i3 i4 i5 ⊢
  refine ⟨⟨i1, ?_, ?_, h.owned, h.points, h.pidsLt, h.pidsNodup⟩, ?_⟩
  · intro e he; rw [i2] at he; exact h.pipesLab e he
  · intro e he
    rcases i4 e he with h1 | h1
    · exact h.activeLab e h1
    · exact h.pipesLab e h1
  · exact acc_same a rfl rfl rfl i3 (fun x hx => isData_of_isCtl (i5 x hx))
      (fun x hx c p fd hxe => by have := i5 x hx; rw [hxe] at this; simp [Out.isCtl] at this)

theorem stop_ok {s : State} {outs : List Out} (h : Inv s) (a : Acc s outs) :
    Inv (step s .stop).1 ∧ Acc (step s .stop).1 (outs ++ (step s .stop).2) := by
  simp only [step]
  obtain ⟨i1, i2, i3, i4, i5⟩ := stop_spec h.red
  generalize stop s.red = st at i1 i2 i3 i4 i5
  obtain ⟨r', o'⟩ := st
  simp only at i1 i2 i3 i4 i5 ⊢
  refine ⟨⟨i1, ?_, ?_, h.owned, h.points, h.pidsLt, h.pidsNodup⟩, ?_⟩
  · intro e he; rw [i2] at he; exact h.pipesLab e he
  · intro e he; exact h.activeLab e (i4 e he)
  · exact acc_same a rfl rfl rfl i3 (fun x hx => isData_of_isCtl (i5 x hx))
      (fun x hx c p fd hxe => by have := i5 x hx; rw [hxe] at this; simp [Out.isCtl] at this)

/-! ### `close_output_channels` -/

/-- the ghost outputs of closing descriptor `fd` -/
def ghostOf (P : Dict) (t : List (Option Pipe)) (fd : Nat) : List Out :=
  (match lookup t fd with
    | some p => if p.q = [] then [] else [Out.lost p.chan p.pid p.q]
    | none => []) ++ (if P.has fd then [Out.staleLeft fd] else [])

theorem closeObj_opened (P : Dict) (acc : List (Option Pipe) × List Out) (fd : Nat) :
    closeObj P acc (.opened fd) = (closeFd acc.1 fd, acc.2 ++ ghostOf P acc.1 fd ++ [.closedFd fd]) := rfl

theorem ghostOf_spec (P : Dict) {t : List (Option Pipe)} {fd : Nat} {p : Pipe} (h : lookup t fd = some p)
    (pid' : Nat) (chan' : Chan) :
    lostOf pid' chan' (ghostOf P t fd) = (if pid' = p.pid ∧ chan' = p.chan then p.q else []) ∧
    deliveredOf pid' chan' (ghostOf P t fd) = [] ∧ writtenOf pid' chan' (ghostOf P t fd) = [] ∧
    (∀ x ∈ ghostOf P t fd, ∀ c p fd, x ≠ Out.eof c p fd) ∧
    (∀ j, Out.staleLeft j ∈ ghostOf P t fd ↔ j = fd ∧ P.has fd = true) := by
  unfold ghostOf
  rw [h]
  have comm : (p.pid = pid' ∧ p.chan = chan') ↔ (pid' = p.pid ∧ chan' = p.chan) := by
    constructor <;> rintro ⟨rfl, rfl⟩ <;> exact ⟨rfl, rfl⟩
  by_cases hq : p.q = [] <;> by_cases hP : P.has fd <;>
    simp [hq, hP, lostOf, deliveredOf, writtenOf, comm, eq_comm]

/-- what is queued at the number an object holds -/
def qAt (t : List (Option Pipe)) : PObj → Bytes
  | .opened fd => (match lookup t fd with | some p => p.q | none => [])
  | _ => []

theorem closeObj_step (P : Dict) (acc : List (Option Pipe) × List Out) (o : PObj) (pidw : Nat) (c : Chan)
    (hp : ∀ fd, o = .opened fd → ∃ p, lookup acc.1 fd = some p ∧ p.pid = pidw ∧ p.chan = c) :
    (∀ j, lookup (closeObj P acc o).1 j = if o = .opened j then none else lookup acc.1 j) ∧
    (closeObj P acc o).1.length = acc.1.length ∧
    (∀ pid' chan', lostOf pid' chan' (closeObj P acc o).2 =
      lostOf pid' chan' acc.2 ++ if pid' = pidw ∧ chan' = c then qAt acc.1 o else []) ∧
    (∀ pid' chan', deliveredOf pid' chan' (closeObj P acc o).2 = deliveredOf pid' chan' acc.2 ∧
      writtenOf pid' chan' (closeObj P acc o).2 = writtenOf pid' chan' acc.2) ∧
    (∀ c p fd, Out.eof c p fd ∈ (closeObj P acc o).2 → Out.eof c p fd ∈ acc.2) ∧
    (∀ j, Out.staleLeft j ∈ (closeObj P acc o).2 ↔ Out.staleLeft j ∈ acc.2 ∨ (o = .opened j ∧ P.has j = true)) := by
  cases o with
  | absent =>
    refine ⟨fun j => by simp [closeObj], rfl, fun _ _ => by simp [closeObj, qAt], fun _ _ => ⟨rfl, rfl⟩,
      fun _ _ _ hx => hx, fun j => by simp [closeObj]⟩
  | closed =>
    refine ⟨fun j => by simp [closeObj], rfl, fun _ _ => by simp [closeObj, qAt], fun _ _ => ⟨rfl, rfl⟩,
      fun _ _ _ hx => hx, fun j => by simp [closeObj]⟩
  | opened fd =>
    obtain ⟨p, h1, h2, h3⟩ := hp fd rfl
    have g := ghostOf_spec P h1
    rw [closeObj_opened]
    refine ⟨fun j => ?_, by simp, fun pid' chan' => ?_, fun pid' chan' => ?_, fun c0 p0 fd0 hx => ?_, fun j => ?_⟩
    · show lookup (closeFd acc.1 fd) j = _
      rw [lookup_closeFd]; simp [eq_comm]
    · show lostOf pid' chan' (acc.2 ++ ghostOf P acc.1 fd ++ [Out.closedFd fd]) = _
      rw [lostOf_append, lostOf_append, (g pid' chan').1, h2, h3]
      simp [lostOf, qAt, h1]
    · show deliveredOf pid' chan' (acc.2 ++ ghostOf P acc.1 fd ++ [Out.closedFd fd]) = _ ∧
        writtenOf pid' chan' (acc.2 ++ ghostOf P acc.1 fd ++ [Out.closedFd fd]) = _
      rw [deliveredOf_append, deliveredOf_append, writtenOf_append, writtenOf_append, (g pid' chan').2.1,
        (g pid' chan').2.2.1]
      simp [deliveredOf, writtenOf]
    · change Out.eof c0 p0 fd0 ∈ acc.2 ++ ghostOf P acc.1 fd ++ [Out.closedFd fd] at hx
      rcases List.mem_append.mp hx with h4 | h4
      · rcases List.mem_append.mp h4 with h5 | h5
        · exact h5
        · exact absurd rfl ((g 0 .stdout).2.2.2.1 _ h5 c0 p0 fd0)
      · simp at h4
    · show Out.staleLeft j ∈ acc.2 ++ ghostOf P acc.1 fd ++ [Out.closedFd fd] ↔ _
      rw [List.mem_append, List.mem_append, (g 0 .stdout).2.2.2.2 j]
      simp only [List.mem_singleton, PObj.opened.injEq, reduceCtorEq, or_false]
      constructor
      · rintro (hx | ⟨rfl, hx⟩)
        · exact Or.inl hx
        · exact Or.inr ⟨rfl, hx⟩
      · rintro (hx | ⟨rfl, hx⟩)
        · exact Or.inl hx
        · exact Or.inr ⟨rfl, hx⟩

theorem closeOC_spec {s : State} (h : Inv s) {w : Worker} (hw : w ∈ s.procs) (P : Dict) :
    (∀ j, lookup (closeOutputChannels P s.fdt w).1 j =
      if w.out = .opened j ∨ w.err = .opened j then none else lookup s.fdt j) ∧
    (closeOutputChannels P s.fdt w).1.length = s.fdt.length ∧
    (∀ pid' chan', lostOf pid' chan' (closeOutputChannels P s.fdt w).2 =
      if pid' = w.pid then pendW s.fdt w chan' else []) ∧
    (∀ pid' chan', deliveredOf pid' chan' (closeOutputChannels P s.fdt w).2 = [] ∧
      writtenOf pid' chan' (closeOutputChannels P s.fdt w).2 = []) ∧
    (∀ x ∈ (closeOutputChannels P s.fdt w).2, ∀ c p fd, x ≠ Out.eof c p fd) ∧
    (∀ j, Out.staleLeft j ∈ (closeOutputChannels P s.fdt w).2 ↔
      (w.out = .opened j ∨ w.err = .opened j) ∧ P.has j = true) := by
  have hpe := h.points w hw .stderr
  have hpo := h.points w hw .stdout
  simp only [Worker.pobj] at hpo hpe
  unfold closeOutputChannels
  obtain ⟨e1, e2, e3, e4, e5, e6⟩ := closeObj_step P (s.fdt, []) w.err w.pid .stderr hpe
  generalize closeObj P (s.fdt, []) w.err = acc1 at e1 e2 e3 e4 e5 e6 ⊢
  have hpo' : ∀ fd, w.out = .opened fd → ∃ p, lookup acc1.1 fd = some p ∧ p.pid = w.pid ∧ p.chan = .stdout := by
    intro fd hfd
    obtain ⟨p, a1, a2, a3⟩ := hpo fd hfd
    refine ⟨p, ?_, a2, a3⟩
    rw [e1]
    have : ¬ w.err = .opened fd := by
      intro x
      obtain ⟨p2, b1, _, b3⟩ := hpe fd x
      rw [a1] at b1; injection b1 with b1
      rw [b1, b3] at a3; cases a3
    rw [if_neg this]; exact a1
  obtain ⟨f1, f2, f3, f4, f5, f6⟩ := closeObj_step P acc1 w.out w.pid .stdout hpo'
  have hq : qAt acc1.1 w.out = qAt s.fdt w.out := by
    cases ho : w.out with
    | absent => rfl
    | closed => rfl
    | opened fd =>
      obtain ⟨p, a1, _, _⟩ := hpo' fd ho
      obtain ⟨p2, b1, _, _⟩ := hpo fd ho
      simp only [qAt, a1, b1]
      have := e1 fd
      rw [a1] at this
      split at this
      · cases this
      · rw [b1] at this; injection this with this; rw [this]
  refine ⟨fun j => ?_, by rw [f2, e2], fun pid' chan' => ?_, fun pid' chan' => ?_, fun x hx c p fd hxe => ?_, fun j => ?_⟩
  · rw [f1, e1]
    by_cases h1 : w.out = .opened j <;> by_cases h2 : w.err = .opened j <;> simp [h1, h2]
  · rw [f3, e3, hq]
    have pw : pendW s.fdt w chan' = match chan' with | .stdout => qAt s.fdt w.out | .stderr => qAt s.fdt w.err := by
      cases chan' <;> simp only [pendW, Worker.pobj, qAt] <;> cases w.out <;> cases w.err <;> rfl
    rw [pw]
    cases chan' <;> by_cases hp : pid' = w.pid <;> simp [hp, lostOf]
  · rw [(f4 pid' chan').1, (f4 pid' chan').2, (e4 pid' chan').1, (e4 pid' chan').2]
    exact ⟨rfl, rfl⟩
  · subst hxe
    have := e5 _ _ _ (f5 _ _ _ hx)
    simp at this
  · rw [f6, e6]
    simp only [List.not_mem_nil, false_or]
    constructor
    · rintro (⟨a, b⟩ | ⟨a, b⟩)
      · exact ⟨Or.inr a, b⟩
      · exact ⟨Or.inl a, b⟩
    · rintro ⟨a | a, b⟩
      · exact Or.inr ⟨a, b⟩
      · exact Or.inl ⟨a, b⟩

/-! ### kill_process / reap_process: the daemon closes the read ends of a worker -/

theorem findProc_filter_ne {s : State} (t : List (Option Pipe)) (r : Red) (pid pid' : Nat) (hne : pid' ≠ pid) :
    findProc { fdt := t, procs := dropProc s pid, nextPid := s.nextPid, red := r } pid' = findProc s pid' := by
  unfold findProc dropProc
  simp only [List.find?_filter]
  congr 1
  funext w
  by_cases h : w.pid = pid'
  · simp [h, hne]
  · simp [h]

theorem findProc_filter_eq {s : State} (t : List (Option Pipe)) (r : Red) (pid : Nat) :
    findProc { fdt := t, procs := dropProc s pid, nextPid := s.nextPid, red := r } pid = none := by
  unfold findProc dropProc
  rw [List.find?_eq_none]
  intro w hw
  have := (List.mem_filter.mp hw).2
  simpa using this

theorem close_ok {s : State} {outs : List Out} (h : Inv s) (a : Acc s outs) {pid : Nat} {w : Worker}
    (hfp : findProc s pid = some w) (r' : Red) (o1 : List Out) (hr : RedInv r') (hb : r'.buffer = s.red.buffer)
    (hp : ∀ e ∈ r'.pipes, e ∈ s.red.pipes) (ha : ∀ e ∈ r'.active, e ∈ s.red.active)
    (hc : ∀ x ∈ o1, x.isCtl = true) :
    Inv { fdt := (closeOutputChannels r'.pipes s.fdt w).1, procs := dropProc s pid, nextPid := s.nextPid, red := r' } ∧
    Acc { fdt := (closeOutputChannels r'.pipes s.fdt w).1, procs := dropProc s pid, nextPid := s.nextPid, red := r' }
      (outs ++ (o1 ++ (closeOutputChannels r'.pipes s.fdt w).2)) := by
  obtain ⟨hw, hwp⟩ := findProc_some hfp
  obtain ⟨c1, c2, c3, c4, c5, _⟩ := closeOC_spec h hw r'.pipes
  generalize closeOutputChannels r'.pipes s.fdt w = cc at c1 c2 c3 c4 c5 ⊢
  obtain ⟨t', o2⟩ := cc
  simp only at c1 c2 c3 c4 c5 ⊢
  have isfd : ∀ c j, w.pobj c = .opened j → (w.out = .opened j ∨ w.err = .opened j) := by
    intro c j hj; cases c
    · exact Or.inl hj
    · exact Or.inr hj
  have isfd' : ∀ j, (w.out = .opened j ∨ w.err = .opened j) → ∃ c, w.pobj c = .opened j := by
    rintro j (hj | hj)
    · exact ⟨.stdout, hj⟩
    · exact ⟨.stderr, hj⟩
  have lab : ∀ e, Labelled s.fdt e → Labelled t' e := by
    intro e he
    refine he.of_lookup_eq (by omega) ?_
    intro q hq
    rw [c1] at hq
    split at hq
    · cases hq
    · exact ⟨q, hq, rfl, rfl⟩
  -- a pipe of another worker does not sit at one of `w`'s numbers
  have other : ∀ w' ∈ s.procs, w'.pid ≠ pid → ∀ c fd, w'.pobj c = .opened fd →
      ¬ (w.out = .opened fd ∨ w.err = .opened fd) := by
    intro w' hw' hne c fd hfd hx
    obtain ⟨c2', hc2⟩ := isfd' fd hx
    obtain ⟨p1, a1, a2, _⟩ := h.points w' hw' c fd hfd
    obtain ⟨p2, b1, b2, _⟩ := h.points w hw c2' fd hc2
    rw [a1] at b1; injection b1 with b1
    rw [b1] at a2
    exact hne (by rw [← a2, b2, hwp])
  have hmemf : ∀ w', w' ∈ dropProc s pid ↔ w' ∈ s.procs ∧ w'.pid ≠ pid := by
    intro w'; simp [dropProc]
  have hinv : Inv { fdt := t', procs := dropProc s pid, nextPid := s.nextPid, red := r' } := by
    refine ⟨hr, fun e he => lab e (h.pipesLab e (hp e he)), fun e he => lab e (h.activeLab e (ha e he)), ?_, ?_, ?_, ?_⟩
    · intro j q hq
      change lookup t' j = some q at hq
      rw [c1] at hq
      split at hq
      · cases hq
      · rename_i hnf
        obtain ⟨w0, hw0, a1, a2⟩ := h.owned j q hq
        refine ⟨w0, (hmemf w0).mpr ⟨hw0, ?_⟩, a1, a2⟩
        intro hx
        have : w0 = w := eq_of_pid_eq h.pidsNodup hw0 hw (by rw [hx, hwp])
        rw [this] at a2
        exact hnf (isfd _ _ a2)
    · intro w' hw' c fd hfd
      obtain ⟨hw1, hw2⟩ := (hmemf w').mp hw'
      obtain ⟨p1, a1, a2, a3⟩ := h.points w' hw1 c fd hfd
      refine ⟨p1, ?_, a2, a3⟩
      change lookup t' fd = some p1
      rw [c1, if_neg (other w' hw1 hw2 c fd hfd)]; exact a1
    · intro w' hw'; exact h.pidsLt w' ((hmemf w').mp hw').1
    · exact (List.Sublist.map _ List.filter_sublist).nodup h.pidsNodup
  have hm1 := fun p c => measures_noData p c o1 (fun x hx => isData_of_isCtl (hc x hx))
  have hmem : ∀ c p fd, Out.eof c p fd ∈ outs ++ (o1 ++ o2) → Out.eof c p fd ∈ outs := by
    intro c p fd hx
    rcases List.mem_append.mp hx with h1 | h1
    · exact h1
    · rcases List.mem_append.mp h1 with h2 | h2
      · have := hc _ h2; simp [Out.isCtl] at this
      · exact absurd rfl (c5 _ h2 c p fd)
  have hpend_other : ∀ pid' chan', pid' ≠ pid →
      pending { fdt := t', procs := dropProc s pid, nextPid := s.nextPid, red := r' } pid' chan' =
        pending s pid' chan' := by
    intro pid' chan' hne
    cases hf : findProc s pid' with
    | none => rw [pending_none hf, pending_none ((findProc_filter_ne t' r' pid pid' hne).trans hf)]
    | some w' =>
      obtain ⟨hw1, hw2⟩ := findProc_some hf
      rw [pending_some hf, pending_some ((findProc_filter_ne t' r' pid pid' hne).trans hf)]
      show pendW t' w' chan' = pendW s.fdt w' chan'
      by_cases ho : ∃ j, w'.pobj chan' = .opened j
      · obtain ⟨j, h2⟩ := ho
        rw [pendW_opened h2, pendW_opened h2, c1, if_neg (other w' hw1 (by rw [hw2]; exact hne) chan' j h2)]
      · have ho' : ∀ j, w'.pobj chan' ≠ .opened j := fun j hj => ho ⟨j, hj⟩
        rw [pendW_not_opened ho', pendW_not_opened ho']
  have hpend_self : ∀ chan', pending { fdt := t', procs := dropProc s pid, nextPid := s.nextPid, red := r' } pid chan' = [] :=
    fun chan' => pending_none (findProc_filter_eq t' r' pid) chan'
  refine ⟨hinv, ?_, ?_, ?_, ?_⟩
  · intro pid' chan'
    rw [writtenOf_append, writtenOf_append, deliveredOf_append, deliveredOf_append, lostOf_append, lostOf_append,
      (hm1 pid' chan').1, (hm1 pid' chan').2.1, (hm1 pid' chan').2.2, (c4 pid' chan').1, (c4 pid' chan').2, c3,
      a.bal pid' chan']
    by_cases hpp : pid' = pid
    · subst hpp
      rw [hpend_self, if_pos hwp.symm, pending_some hfp]
      have : lostOf pid' chan' outs = [] := by rw [← hwp]; exact a.liveNoLoss w hw chan'
      rw [this]; simp
    · rw [hpend_other pid' chan' hpp, if_neg (by rw [hwp]; exact hpp)]; simp
  · intro w' hw' chan'
    obtain ⟨hw1, hw2⟩ := (hmemf w').mp hw'
    rw [lostOf_append, lostOf_append, (hm1 w'.pid chan').2.2, c3, if_neg (by rw [hwp]; exact hw2),
      a.liveNoLoss w' hw1 chan']
    rfl
  · intro pid' chan' hge
    change s.nextPid ≤ pid' at hge
    obtain ⟨f1, f2, f3, f4⟩ := a.fresh pid' chan' hge
    have hne : ¬ pid' = w.pid := by have := h.pidsLt w hw; omega
    rw [writtenOf_append, writtenOf_append, deliveredOf_append, deliveredOf_append, lostOf_append, lostOf_append,
      (hm1 pid' chan').1, (hm1 pid' chan').2.1, (hm1 pid' chan').2.2, (c4 pid' chan').1, (c4 pid' chan').2, c3,
      if_neg hne, f1, f2, f3]
    exact ⟨rfl, rfl, rfl, fun fd hx => f4 fd (hmem _ _ _ hx)⟩
  · intro hbuf c0 p0 fd0 hx
    change 0 < r'.buffer at hbuf
    rw [hb] at hbuf
    obtain ⟨g1, g2, g3⟩ := a.eofDone hbuf c0 p0 fd0 (hmem _ _ _ hx)
    rw [lostOf_append, lostOf_append, (hm1 p0 c0).2.2, c3, g1]
    refine ⟨?_, ?_, ?_⟩
    · by_cases hpp : p0 = w.pid
      · rw [if_pos hpp]
        have : pendW s.fdt w c0 = pending s p0 c0 := by
          rw [hpp, ← pending_some (findProc_of_mem h.pidsNodup hw)]
        rw [this, g2]; rfl
      · rw [if_neg hpp]; rfl
    · by_cases hpp : p0 = pid
      · rw [hpp]; exact hpend_self c0
      · rw [hpend_other p0 c0 hpp]; exact g2
    · intro w' hw' hp' fd' q' ho hl
      change lookup t' fd' = some q' at hl
      rw [c1] at hl
      split at hl
      · cases hl
      · exact g3 w' ((hmemf w').mp hw').1 hp' fd' q' ho hl

theorem kill_ok {s : State} {outs : List Out} (h : Inv s) (a : Acc s outs) (pid : Nat) :
    Inv (step s (.killProcess pid)).1 ∧
    Acc (step s (.killProcess pid)).1 (outs ++ (step s (.killProcess pid)).2) := by
  simp only [step]
  cases hfp : findProc s pid with
  | none => exact ⟨h, acc_same a rfl rfl rfl rfl (by simp [Out.isData]) (by simp)⟩
  | some w =>
    simp only
    obtain ⟨i1, i2, i3, i4, _, i6⟩ := removeRedirections_spec h.red w
    generalize removeRedirections s.red w = rr at i1 i2 i3 i4 i6
    obtain ⟨r', o1⟩ := rr
    simp only at i1 i2 i3 i4 i6 ⊢
    have := close_ok h a hfp r' o1 i1 i2 i3 i4 i6
    rcases hcc : closeOutputChannels r'.pipes s.fdt w with ⟨t', o2⟩
    rw [hcc] at this
    exact this

theorem reap_ok {s : State} {outs : List Out} (h : Inv s) (a : Acc s outs) (pid : Nat) :
    Inv (step s (.reapSelfExited pid)).1 ∧
    Acc (step s (.reapSelfExited pid)).1 (outs ++ (step s (.reapSelfExited pid)).2) := by
  simp only [step]
  cases hfp : findProc s pid with
  | none => exact ⟨h, acc_same a rfl rfl rfl rfl (by simp [Out.isData]) (by simp)⟩
  | some w =>
    simp only
    have := close_ok h a hfp s.red [] h.red rfl (fun _ x => x) (fun _ x => x) (by simp)
    rcases hcc : closeOutputChannels s.red.pipes s.fdt w with ⟨t', o2⟩
    rw [hcc] at this
    simpa using this

/-! ### spawn -/

/-- what `Popen` did to the descriptor table when it created the pipes of a new worker -/
structure AllocFacts (t : List (Option Pipe)) (pid : Nat) (out err : PObj) (t2 : List (Option Pipe)) : Prop where
  lk : ∀ j, lookup t2 j = if out = .opened j then some ⟨[], true, pid, .stdout⟩
    else if err = .opened j then some ⟨[], true, pid, .stderr⟩ else lookup t j
  freeO : ∀ j, out = .opened j → lookup t j = none
  freeE : ∀ j, err = .opened j → lookup t j = none
  len : t.length ≤ t2.length
  ltO : ∀ j, out = .opened j → j < t2.length
  ltE : ∀ j, err = .opened j → j < t2.length
  notClosed : out ≠ .closed ∧ err ≠ .closed
  distinct : ∀ j, out = .opened j → err ≠ .opened j

theorem spawn_core {s : State} {outs : List Out} (h : Inv s) (a : Acc s outs) {out err : PObj}
    {t2 : List (Option Pipe)} (f : AllocFacts s.fdt s.nextPid out err t2) :
    Inv { fdt := t2, procs := s.procs ++ [⟨s.nextPid, out, err⟩], nextPid := s.nextPid + 1,
          red := (addRedirections s.red ⟨s.nextPid, out, err⟩).1 } ∧
    Acc { fdt := t2, procs := s.procs ++ [⟨s.nextPid, out, err⟩], nextPid := s.nextPid + 1,
          red := (addRedirections s.red ⟨s.nextPid, out, err⟩).1 }
      (outs ++ (.spawned s.nextPid out err :: (addRedirections s.red ⟨s.nextPid, out, err⟩).2)) := by
  obtain ⟨r1, r2, r3, r4, r5⟩ := addRedirections_spec h.red ⟨s.nextPid, out, err⟩ f.notClosed f.distinct
  generalize addRedirections s.red ⟨s.nextPid, out, err⟩ = ar at r1 r2 r3 r4 r5 ⊢
  obtain ⟨r', o⟩ := ar
  simp only at r1 r2 r3 r4 r5 ⊢
  -- numbers of the new worker
  have isNew : ∀ c j, (Worker.mk s.nextPid out err).pobj c = .opened j → (out = .opened j ∨ err = .opened j) := by
    intro c j hj; cases c
    · exact Or.inl hj
    · exact Or.inr hj
  have newLk : ∀ c j, (Worker.mk s.nextPid out err).pobj c = .opened j →
      lookup t2 j = some ⟨[], true, s.nextPid, c⟩ := by
    intro c j hj
    rw [f.lk]
    cases c
    · have hj' : out = .opened j := hj
      rw [if_pos hj']
    · have hj' : err = .opened j := hj
      have : ¬ out = .opened j := fun x => f.distinct j x hj'
      rw [if_neg this, if_pos hj']
  have oldLk : ∀ j, (∀ c, (Worker.mk s.nextPid out err).pobj c ≠ .opened j) → lookup t2 j = lookup s.fdt j := by
    intro j hj
    have h1 : ¬ out = .opened j := hj .stdout
    have h2 : ¬ err = .opened j := hj .stderr
    rw [f.lk, if_neg h1, if_neg h2]
  have oldLk' : ∀ j p, lookup s.fdt j = some p → lookup t2 j = some p := by
    intro j p hp
    rw [oldLk j]
    · exact hp
    · intro c hc
      rcases isNew c j hc with h1 | h1
      · rw [f.freeO j h1] at hp; cases hp
      · rw [f.freeE j h1] at hp; cases hp
  have lab : ∀ e', ((∃ c, (Worker.mk s.nextPid out err).pobj c = .opened e'.fd ∧ e' = ⟨e'.fd, c, s.nextPid⟩) ∨
      (Labelled s.fdt e' ∧ ∀ c, (Worker.mk s.nextPid out err).pobj c ≠ .opened e'.fd)) → Labelled t2 e' := by
    rintro e' (⟨c, h1, h2⟩ | ⟨h1, h2⟩)
    · refine ⟨?_, ?_⟩
      · rcases isNew c _ h1 with h3 | h3
        · exact f.ltO _ h3
        · exact f.ltE _ h3
      · intro p hp
        rw [newLk c _ h1] at hp
        injection hp with hp
        rw [← hp, h2]; exact ⟨rfl, rfl⟩
    · refine h1.of_lookup_eq f.len ?_
      intro p hp
      rw [oldLk _ h2] at hp
      exact ⟨p, hp, rfl, rfl⟩
  have hfresh : ∀ w ∈ s.procs, w.pid ≠ s.nextPid := fun w hw => Nat.ne_of_lt (h.pidsLt w hw)
  have hinv : Inv { fdt := t2, procs := s.procs ++ [⟨s.nextPid, out, err⟩], nextPid := s.nextPid + 1, red := r' } := by
    refine ⟨r1, ?_, ?_, ?_, ?_, ?_, ?_⟩
    · intro e' he'
      apply lab
      rcases r3 e' he' with h1 | ⟨h1, h2⟩
      · exact Or.inl h1
      · exact Or.inr ⟨h.pipesLab e' h1, h2⟩
    · intro e' he'
      apply lab
      rcases r4 e' he' with h1 | ⟨h1, h2⟩
      · exact Or.inl h1
      · exact Or.inr ⟨h.activeLab e' h1, h2⟩
    · intro j p hp
      change lookup t2 j = some p at hp
      rw [f.lk] at hp
      split at hp
      · rename_i ho
        injection hp with hp
        exact ⟨_, List.mem_append_right _ (List.mem_singleton.mpr rfl), by rw [← hp], by rw [← hp]; exact ho⟩
      · split at hp
        · rename_i he
          injection hp with hp
          exact ⟨_, List.mem_append_right _ (List.mem_singleton.mpr rfl), by rw [← hp], by rw [← hp]; exact he⟩
        · obtain ⟨w0, hw0, a1, a2⟩ := h.owned j p hp
          exact ⟨w0, List.mem_append_left _ hw0, a1, a2⟩
    · intro w' hw' c j hj
      rcases List.mem_append.mp hw' with h1 | h1
      · obtain ⟨p, a1, a2, a3⟩ := h.points w' h1 c j hj
        exact ⟨p, oldLk' j p a1, a2, a3⟩
      · rw [List.mem_singleton.mp h1] at hj ⊢
        exact ⟨_, newLk c j hj, rfl, rfl⟩
    · intro w' hw'
      rcases List.mem_append.mp hw' with h1 | h1
      · have := h.pidsLt w' h1; show w'.pid < s.nextPid + 1; omega
      · rw [List.mem_singleton.mp h1]; show s.nextPid < s.nextPid + 1; omega
    · show ((s.procs ++ [_]).map Worker.pid).Nodup
      rw [List.map_append, List.nodup_append]
      refine ⟨h.pidsNodup, by simp, ?_⟩
      intro x hx y hy
      obtain ⟨w0, hw0, rfl⟩ := List.mem_map.mp hx
      simp at hy; subst hy
      exact hfresh w0 hw0
  -- nothing becomes pending, nothing that was pending changes
  have hpend : ∀ pid' chan',
      pending { fdt := t2, procs := s.procs ++ [⟨s.nextPid, out, err⟩], nextPid := s.nextPid + 1, red := r' } pid' chan' =
        pending s pid' chan' := by
    intro pid' chan'
    by_cases hp : pid' = s.nextPid
    · subst hp
      have h0 : findProc s s.nextPid = none := by
        cases hx : findProc s s.nextPid with
        | none => rfl
        | some w0 => obtain ⟨b1, b2⟩ := findProc_some hx; exact absurd b2 (hfresh w0 b1)
      have h1 : findProc { fdt := t2, procs := s.procs ++ [⟨s.nextPid, out, err⟩], nextPid := s.nextPid + 1, red := r' }
          s.nextPid = some ⟨s.nextPid, out, err⟩ := by
        unfold findProc at h0 ⊢
        simp only [List.find?_append, h0]
        simp
      rw [pending_none h0, pending_some h1]
      show pendW t2 _ chan' = []
      by_cases ho : ∃ j, (Worker.mk s.nextPid out err).pobj chan' = .opened j
      · obtain ⟨j, hj⟩ := ho
        rw [pendW_opened hj, newLk chan' j hj]
      · exact pendW_not_opened (fun j hj => ho ⟨j, hj⟩)
    · have h1 : findProc { fdt := t2, procs := s.procs ++ [⟨s.nextPid, out, err⟩], nextPid := s.nextPid + 1, red := r' }
          pid' = findProc s pid' := by
        unfold findProc
        simp only [List.find?_append]
        have hb : (s.nextPid == pid') = false := beq_false_of_ne (Ne.symm hp)
        have : List.find? (fun w => w.pid == pid') [Worker.mk s.nextPid out err] = none := by
          simp [List.find?, hb]
        rw [this]; simp
      cases hf : findProc s pid' with
      | none => rw [pending_none hf, pending_none (h1.trans hf)]
      | some w' =>
        obtain ⟨hw1, _⟩ := findProc_some hf
        rw [pending_some hf, pending_some (h1.trans hf)]
        show pendW t2 w' chan' = pendW s.fdt w' chan'
        by_cases ho : ∃ j, w'.pobj chan' = .opened j
        · obtain ⟨j, hj⟩ := ho
          obtain ⟨p, a1, _, _⟩ := h.points w' hw1 chan' j hj
          rw [pendW_opened hj, pendW_opened hj, oldLk' j p a1, a1]
        · rw [pendW_not_opened (fun j hj => ho ⟨j, hj⟩), pendW_not_opened (fun j hj => ho ⟨j, hj⟩)]
  have hnd : ∀ x ∈ Out.spawned s.nextPid out err :: o, x.isData = false := by
    intro x hx
    rcases List.mem_cons.mp hx with h1 | h1
    · rw [h1]; rfl
    · exact isData_of_isCtl (r5 x h1)
  have hm := fun p c => measures_noData p c _ hnd
  have hmem : ∀ c p fd, Out.eof c p fd ∈ outs ++ (Out.spawned s.nextPid out err :: o) → Out.eof c p fd ∈ outs := by
    intro c p fd hx
    rcases List.mem_append.mp hx with h1 | h1
    · exact h1
    · rcases List.mem_cons.mp h1 with h2 | h2
      · cases h2
      · have := r5 _ h2; simp [Out.isCtl] at this
  refine ⟨hinv, ?_, ?_, ?_, ?_⟩
  · intro pid' chan'
    rw [writtenOf_append, deliveredOf_append, lostOf_append, (hm pid' chan').1, (hm pid' chan').2.1,
      (hm pid' chan').2.2, hpend]
    simpa using a.bal pid' chan'
  · intro w' hw' chan'
    rw [lostOf_append, (hm w'.pid chan').2.2]
    rcases List.mem_append.mp hw' with h1 | h1
    · simpa using a.liveNoLoss w' h1 chan'
    · rw [List.mem_singleton.mp h1]
      simpa using (a.fresh s.nextPid chan' (Nat.le_refl _)).2.2.1
  · intro pid' chan' hge
    change s.nextPid + 1 ≤ pid' at hge
    obtain ⟨f1, f2, f3, f4⟩ := a.fresh pid' chan' (by omega)
    rw [writtenOf_append, deliveredOf_append, lostOf_append, (hm pid' chan').1, (hm pid' chan').2.1,
      (hm pid' chan').2.2, f1, f2, f3]
    exact ⟨rfl, rfl, rfl, fun fd hx => f4 fd (hmem _ _ _ hx)⟩
  · intro hbuf c0 p0 fd0 hx
    change 0 < r'.buffer at hbuf
    rw [r2] at hbuf
    have hx' := hmem _ _ _ hx
    obtain ⟨g1, g2, g3⟩ := a.eofDone hbuf c0 p0 fd0 hx'
    rw [lostOf_append, (hm p0 c0).2.2, hpend]
    refine ⟨by simpa using g1, g2, ?_⟩
    intro w' hw' hp' fd' q' ho hl
    rcases List.mem_append.mp hw' with h1 | h1
    · obtain ⟨p, a1, _, _⟩ := h.points w' h1 c0 fd' ho
      change lookup t2 fd' = some q' at hl
      rw [oldLk' fd' p a1] at hl
      injection hl with hl
      rw [← hl]
      exact g3 w' h1 hp' fd' p ho a1
    · rw [List.mem_singleton.mp h1] at hp'
      exfalso
      exact (a.fresh p0 c0 (Nat.le_of_eq hp')).2.2.2 fd0 hx'

/-- the shape of a spawn step: some allocation satisfying `AllocFacts`, then `add_redirections` -/
theorem spawn_alloc (s : State) (po pe : Bool) :
    ∃ (out err : PObj) (t2 : List (Option Pipe)), AllocFacts s.fdt s.nextPid out err t2 ∧
      step s (.spawn po pe) =
        (({ fdt := t2, procs := s.procs ++ [⟨s.nextPid, out, err⟩], nextPid := s.nextPid + 1,
            red := (addRedirections s.red ⟨s.nextPid, out, err⟩).1 } : State),
          Out.spawned s.nextPid out err :: (addRedirections s.red ⟨s.nextPid, out, err⟩).2) := by
  cases po <;> cases pe
  · -- no pipe at all
    exact ⟨.absent, .absent, s.fdt,
      ⟨fun j => by simp, by simp, by simp, Nat.le_refl _, by simp, by simp, by simp, by simp⟩, rfl⟩
  · obtain ⟨k1, k2, k3, k4⟩ := kpipe_spec s.fdt s.nextPid .stderr
    exact ⟨.absent, .opened (kpipe s.fdt s.nextPid .stderr).1, (kpipe s.fdt s.nextPid .stderr).2,
      ⟨fun j => by rw [k2]; simp [eq_comm], by simp, by intro j hj; injection hj with hj; rw [← hj]; exact k1, k3,
        by simp, by intro j hj; injection hj with hj; rw [← hj]; exact k4, by simp, by simp⟩, rfl⟩
  · obtain ⟨k1, k2, k3, k4⟩ := kpipe_spec s.fdt s.nextPid .stdout
    exact ⟨.opened (kpipe s.fdt s.nextPid .stdout).1, .absent, (kpipe s.fdt s.nextPid .stdout).2,
      ⟨fun j => by rw [k2]; simp [eq_comm], by intro j hj; injection hj with hj; rw [← hj]; exact k1, by simp, k3,
        by intro j hj; injection hj with hj; rw [← hj]; exact k4, by simp, by simp, by simp⟩, rfl⟩
  · obtain ⟨k1, k2, k3, k4⟩ := kpipe_spec s.fdt s.nextPid .stdout
    obtain ⟨l1, l2, l3, l4⟩ := kpipe_spec (kpipe s.fdt s.nextPid .stdout).2 s.nextPid .stderr
    have hne : (kpipe (kpipe s.fdt s.nextPid .stdout).2 s.nextPid .stderr).1 ≠ (kpipe s.fdt s.nextPid .stdout).1 := by
      intro x
      rw [x, k2, if_pos rfl] at l1
      cases l1
    have l1' : lookup s.fdt (kpipe (kpipe s.fdt s.nextPid .stdout).2 s.nextPid .stderr).1 = none := by
      rw [k2, if_neg hne] at l1; exact l1
    exact ⟨.opened (kpipe s.fdt s.nextPid .stdout).1,
      .opened (kpipe (kpipe s.fdt s.nextPid .stdout).2 s.nextPid .stderr).1,
      (kpipe (kpipe s.fdt s.nextPid .stdout).2 s.nextPid .stderr).2,
      ⟨fun j => by
          rw [l2, k2]
          by_cases h1 : j = (kpipe s.fdt s.nextPid .stdout).1
          · rw [h1, if_neg (Ne.symm hne), if_pos rfl, if_pos rfl]
          · have h1' : ¬ PObj.opened (kpipe s.fdt s.nextPid .stdout).1 = PObj.opened j :=
              fun x => h1 (PObj.opened.inj x).symm
            by_cases h2 : j = (kpipe (kpipe s.fdt s.nextPid .stdout).2 s.nextPid .stderr).1
            · rw [if_pos h2, if_neg h1', h2, if_pos rfl]
            · have h2' : ¬ PObj.opened (kpipe (kpipe s.fdt s.nextPid .stdout).2 s.nextPid .stderr).1 = PObj.opened j :=
                fun x => h2 (PObj.opened.inj x).symm
              rw [if_neg h2, if_neg h1, if_neg h1', if_neg h2'],
        by intro j hj; injection hj with hj; rw [← hj]; exact k1,
        by intro j hj; injection hj with hj; rw [← hj]; exact l1',
        Nat.le_trans k3 l3,
        by intro j hj; injection hj with hj; rw [← hj]; exact Nat.lt_of_lt_of_le k4 l3,
        by intro j hj; injection hj with hj; rw [← hj]; exact l4,
        by simp,
        by intro j hj hj2; injection hj with hj; injection hj2 with hj2; exact hne (hj2.trans hj.symm)⟩, rfl⟩

theorem spawn_ok {s : State} {outs : List Out} (h : Inv s) (a : Acc s outs) (po pe : Bool) :
    Inv (step s (.spawn po pe)).1 ∧ Acc (step s (.spawn po pe)).1 (outs ++ (step s (.spawn po pe)).2) := by
  obtain ⟨out, err, t2, f, e⟩ := spawn_alloc s po pe
  rw [e]
  exact spawn_core h a f

/-! ### every step, every run -/

theorem step_ok {s : State} {outs : List Out} (h : Inv s) (a : Acc s outs) (op : Op) :
    Inv (step s op).1 ∧ Acc (step s op).1 (outs ++ (step s op).2) := by
  cases op with
  | spawn po pe => exact spawn_ok h a po pe
  | write pid chan bytes => exact write_ok h a pid chan bytes
  | ready fd => exact ready_ok h a fd
  | closeWriter pid chan => exact closeWriter_ok h a pid chan
  | killProcess pid => exact kill_ok h a pid
  | reapSelfExited pid => exact reap_ok h a pid
  | start => exact start_ok h a
  | stop => exact stop_ok h a
  | lateRemove pid => exact ⟨h, by simpa [step] using a⟩

theorem init_inv (b p0 : Nat) : Inv (init b p0) := by
  refine ⟨⟨by simp [init, Dict.keys], by simp [init, Dict.keys], by simp [init, Dict.keys]⟩, by simp [init],
    by simp [init], ?_, by simp [init], by simp [init], by simp [init]⟩
  intro fd p hp
  simp [init, lookup] at hp

theorem init_acc (b p0 : Nat) : Acc (init b p0) [] := by
  refine ⟨fun pid chan => ?_, by simp [init], fun pid chan _ => ⟨rfl, rfl, rfl, by simp⟩, fun _ _ _ _ hx => by simp at hx⟩
  simp [writtenOf, deliveredOf, lostOf, pending, findProc, init]

theorem run_ok {s : State} {outs : List Out} (h : Inv s) (a : Acc s outs) (ops : List Op) :
    Inv (run s ops).1 ∧ Acc (run s ops).1 (outs ++ (run s ops).2.flatten) := by
  induction ops generalizing s outs with
  | nil => simpa [run] using And.intro h a
  | cons op ops ih =>
    obtain ⟨h1, a1⟩ := step_ok h a op
    have := ih h1 a1
    simp only [run]
    generalize step s op = so at this h1 a1 ⊢
    obtain ⟨s1, o1⟩ := so
    generalize run s1 ops = ro at this ⊢
    obtain ⟨s2, os⟩ := ro
    simpa [List.append_assoc] using this

theorem reachable_ok (b p0 : Nat) (ops : List Op) :
    Inv (final (init b p0) ops) ∧ Acc (final (init b p0) ops) (trace (init b p0) ops) := by
  have := run_ok (init_inv b p0) (init_acc b p0) ops
  simpa [final, trace] using this

/-! ### the read buffer size is a constant -/

theorem start_buffer (r : Red) : (start r).1.buffer = r.buffer := by
  unfold start
  have key := foldl_inv (fun (acc : Red × List Out) e =>
      let (r', o') := startOne acc.1 e; (r', acc.2 ++ o')) (fun acc => acc.1.buffer = r.buffer) r.pipes (r, []) rfl
    (by
      rintro ⟨r1, o1⟩ e _ i
      show (startOne r1 e).1.buffer = _
      rw [startOne_fst]; split <;> exact i)
  generalize List.foldl _ _ _ = res at key ⊢
  exact key

theorem stop_buffer (r : Red) : (stop r).1.buffer = r.buffer := by
  unfold stop
  have key := foldl_inv (fun (acc : Red × List Out) fd =>
      let (r', o') := stopOne acc.1 fd; (r', acc.2 ++ o')) (fun acc => acc.1.buffer = r.buffer) r.active.keys (r, []) rfl
    (by
      rintro ⟨r1, o1⟩ fd _ i
      show (stopOne r1 fd).1.buffer = _
      rw [stopOne_fst]; exact i)
  generalize List.foldl _ _ _ = res at key ⊢
  exact key

theorem addOne_buffer (pid : Nat) (acc : Red × List Out) (np : Chan × PObj) :
    (addOne pid acc np).1.buffer = acc.1.buffer := by
  obtain ⟨c, po⟩ := np
  cases po with
  | absent => rfl
  | closed => rfl
  | opened fd =>
    simp only [addOne]
    have hso := stopOne_fst acc.1 fd
    generalize stopOne acc.1 fd = so at hso
    obtain ⟨r1, o1⟩ := so
    simp only at hso ⊢
    subst hso
    split
    · rw [startOne_fst]; split <;> rfl
    · rfl

theorem addRedirections_buffer (r : Red) (w : Worker) : (addRedirections r w).1.buffer = r.buffer := by
  unfold addRedirections
  exact foldl_inv (addOne w.pid) (fun acc => acc.1.buffer = r.buffer) (processPipes w) (r, []) rfl
    (fun acc np _ i => (addOne_buffer w.pid acc np).trans i)

theorem removeRedirections_buffer (r : Red) (w : Worker) : (removeRedirections r w).1.buffer = r.buffer := by
  unfold removeRedirections
  refine foldl_inv removeOne (fun acc => acc.1.buffer = r.buffer) (processPipes w) (r, []) rfl ?_
  rintro acc ⟨c, po⟩ _ i
  cases po with
  | absent => exact i
  | closed => exact i
  | opened fd =>
    show (removeFd acc.1 fd).1.buffer = _
    rw [removeFd_fst]; exact i

theorem step_buffer (s : State) (op : Op) : (step s op).1.red.buffer = s.red.buffer := by
  cases op with
  | spawn po pe =>
    simp only [step]
    generalize (if po = true then _ else _ : PObj × List (Option Pipe)) = x1
    obtain ⟨out, t1⟩ := x1
    simp only
    generalize (if pe = true then _ else _ : PObj × List (Option Pipe)) = x2
    obtain ⟨err, t2⟩ := x2
    simp only
    have := addRedirections_buffer s.red ⟨s.nextPid, out, err⟩
    generalize addRedirections s.red ⟨s.nextPid, out, err⟩ = ar at this ⊢
    exact this
  | write pid chan bytes =>
    simp only [step]
    repeat' split
    all_goals rfl
  | ready fd =>
    simp only [step, handlerCall]
    repeat' split
    all_goals first | rfl | (show (removeFd s.red fd).1.buffer = _; rw [removeFd_fst])
  | closeWriter pid chan =>
    simp only [step]
    repeat' split
    all_goals rfl
  | killProcess pid =>
    simp only [step]
    split
    · rfl
    · rename_i w _
      have := removeRedirections_buffer s.red w
      generalize removeRedirections s.red w = rr at this ⊢
      obtain ⟨r', o1⟩ := rr
      exact this
  | reapSelfExited pid =>
    simp only [step]
    split <;> rfl
  | start =>
    simp only [step]
    have := start_buffer s.red
    generalize start s.red = st at this ⊢
    exact this
  | stop =>
    simp only [step]
    have := stop_buffer s.red
    generalize stop s.red = st at this ⊢
    exact this
  | lateRemove pid => rfl

theorem run_buffer (s : State) (ops : List Op) : (run s ops).1.red.buffer = s.red.buffer := by
  induction ops generalizing s with
  | nil => rfl
  | cons op ops ih =>
    have h1 := step_buffer s op
    have h2 := ih (step s op).1
    simp only [run]
    generalize step s op = so at h1 h2 ⊢
    obtain ⟨s1, o1⟩ := so
    generalize run s1 ops = ro at h2 ⊢
    obtain ⟨s2, os⟩ := ro
    exact h2.trans h1

end Circus.Redirector
