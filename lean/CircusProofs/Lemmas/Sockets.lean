import CircusModel.Model.Sockets
import CircusProofs.Lemmas.Argv
/-
Lemmas for the managed-sockets layer (C07): the descriptor table, the framing relation `R`
("a step that never touches a protected descriptor"), its closure under the composite
operations of `Circus.Sockets.step`, the invariant `Good`, and the substitution table.
-/
namespace Circus.Sockets
open Circus.GnuArgs Circus.Shlex

/-! ### descriptor table -/
namespace FdTable

theorem lowestFree_le_length (t : FdTable) : t.lowestFree ≤ t.length := by
  induction t with
  | nil => simp [lowestFree]
  | cons a t ih => cases a <;> simp [lowestFree]; omega

theorem get_nil (fd : Nat) : get [] fd = none := by simp [get]

theorem get_cons_zero (a : Option Desc) (t : FdTable) : get (a :: t) 0 = a := by simp [get]

theorem get_cons_succ (a : Option Desc) (t : FdTable) (n : Nat) : get (a :: t) (n + 1) = get t n := by
  simp [get]

/-- the next descriptor number is free -/
theorem get_lowestFree (t : FdTable) : t.get t.lowestFree = none := by
  induction t with
  | nil => simp [get, lowestFree]
  | cons a t ih =>
    cases a with
    | none => simp [lowestFree, get]
    | some d => simpa [lowestFree, get_cons_succ] using ih

/-- every number below the next one is taken -/
theorem lt_lowestFree (t : FdTable) (i : Nat) (h : i < t.lowestFree) : ∃ d, t.get i = some d := by
  induction t generalizing i with
  | nil => simp [lowestFree] at h
  | cons a t ih =>
    cases a with
    | none => simp [lowestFree] at h
    | some d =>
      cases i with
      | zero => exact ⟨d, by simp [get]⟩
      | succ n =>
        simp only [lowestFree] at h
        simpa [get_cons_succ] using ih n (by omega)

theorem get_put_self (t : FdTable) (fd : Nat) (d : Option Desc) (h : fd ≤ t.length) :
    (t.put fd d).get fd = d := by
  unfold put get
  by_cases hl : fd < t.length
  · simp [hl]
  · have : fd = t.length := by omega
    subst this
    simp

theorem get_put_ne (t : FdTable) (fd fd' : Nat) (d : Option Desc) (h : fd' ≠ fd) (hle : fd ≤ t.length) :
    (t.put fd d).get fd' = t.get fd' := by
  unfold put get
  by_cases hl : fd < t.length
  · simp only [hl, if_true]
    rw [List.getElem?_set_ne (Ne.symm h)]
  · have : fd = t.length := by omega
    subst this
    simp only [Nat.lt_irrefl, if_false]
    by_cases h2 : fd' < t.length
    · rw [List.getElem?_append_left h2]
    · have h3 : t.length < fd' := by omega
      rw [List.getElem?_eq_none (by simp; omega), List.getElem?_eq_none (by omega)]

theorem get_close_self (t : FdTable) (fd : Nat) : (t.close fd).get fd = none := by
  unfold close get
  by_cases hl : fd < t.length
  · simp [hl]
  · rw [List.getElem?_eq_none (by simp; omega)]; rfl

theorem get_close_ne (t : FdTable) (fd fd' : Nat) (h : fd' ≠ fd) : (t.close fd).get fd' = t.get fd' := by
  unfold close get
  rw [List.getElem?_set_ne (Ne.symm h)]

theorem get_closeAll (t : FdTable) (fds : List Nat) (fd : Nat) :
    (t.closeAll fds).get fd = if fd ∈ fds then none else t.get fd := by
  unfold closeAll
  induction fds generalizing t with
  | nil => simp
  | cons a fds ih =>
    rw [List.foldl_cons, ih]
    by_cases h1 : fd ∈ fds
    · simp [h1]
    · by_cases h2 : fd = a
      · subst h2; simp [h1, get_close_self]
      · simp [h1, h2, get_close_ne _ _ _ h2]

theorem get_closeAll_of_not_mem (t : FdTable) (fds : List Nat) (fd : Nat) (h : fd ∉ fds) :
    (t.closeAll fds).get fd = t.get fd := by
  rw [get_closeAll]; simp [h]

end FdTable

/-! ### framing -/

/-- the protected descriptors are open, and nothing the daemon is going to close on its own
    (unrelated files, the pipes of its workers) is protected -/
structure Prot (P : Nat → Prop) (s : State) : Prop where
  occ : ∀ fd, P fd → ∃ d, s.fdt.get fd = some d
  others : ∀ fd ∈ s.others, ¬ P fd
  pipes : ∀ p ∈ s.procs, ∀ fd ∈ p.pipeFds, ¬ P fd

/-- the dict handed to `format_args` against the arbiter's socket dict: same names, and for the
    sockets that are not `so_reuseport` the number of their own descriptor -/
def FdsOK (socks : List Sock) (fds : List (Str × Option Nat)) : Prop :=
  (∀ e ∈ fds, ∃ k ∈ socks, k.name = e.1 ∧ (k.reuseport = false → e.2 = k.fd)) ∧
  (∀ k ∈ socks, ∃ e ∈ fds, e.1 = k.name)

/-- what one `Popen` call is known to satisfy, relative to the socket dict `socks`, the phase and
    the daemon's table `g` (on the protected descriptors) at the time of the call -/
structure RecOK (P : Nat → Prop) (socks : List Sock) (ph : Phase) (g : Nat → Option Desc) (r : Rec) : Prop where
  phase : r.phase = ph
  closeFds : r.closeFds = !r.useSockets
  noLeak : r.useSockets = false → ∀ fd, r.inherited.get fd = none
  keeps : r.useSockets = true → ∀ fd, P fd → 3 ≤ fd → r.inherited.get fd = (g fd).filter (·.inheritable)
  fds : FdsOK socks r.socketsFds
  argv : formatArgv r.socketsFds r.cmd r.args = .ok r.argv
  stdinNone : r.stdinSocket = none → r.fd0 = none
  stdinSock : ∀ n, r.stdinSocket = some n →
    ∃ k ∈ socks, k.name = n ∧ ∃ fd d, k.fd = some fd ∧ r.fd0 = some d ∧ (P fd → g fd = some d)

theorem RecOK.transport {P : Nat → Prop} {socks : List Sock} {ph : Phase} {g g' : Nat → Option Desc} {r : Rec}
    (h : RecOK P socks ph g r) (hg : ∀ fd, P fd → g fd = g' fd) : RecOK P socks ph g' r :=
  { h with
    keeps := fun hu fd hp h3 => by rw [← hg fd hp]; exact h.keeps hu fd hp h3
    stdinSock := fun n hn => by
      obtain ⟨k, hk, hname, fd, d, hfd, h0, hp⟩ := h.stdinSock n hn
      exact ⟨k, hk, hname, fd, d, hfd, h0, fun hpf => by rw [← hg fd hpf]; exact hp hpf⟩ }

/-- `s'` comes from `s` by steps that leave every protected descriptor, the socket dict and the
    phase alone; the `Popen` calls made on the way are as `RecOK` says -/
structure R (P : Nat → Prop) (s s' : State) : Prop where
  prot : Prot P s'
  get : ∀ fd, P fd → s'.fdt.get fd = s.fdt.get fd
  socks : s'.socks = s.socks
  phase : s'.phase = s.phase
  nextBind : s.nextBind ≤ s'.nextBind
  log : ∃ new, s'.log = new ++ s.log ∧ ∀ r ∈ new, RecOK P s.socks s.phase s.fdt.get r
  files : s'.files = s.files
  made : s'.made = s.made

theorem R.refl {P : Nat → Prop} {s : State} (h : Prot P s) : R P s s :=
  ⟨h, fun _ _ => rfl, rfl, rfl, Nat.le_refl _, ⟨[], rfl, by simp⟩, rfl, rfl⟩

theorem R.trans {P : Nat → Prop} {a b c : State} (h1 : R P a b) (h2 : R P b c) : R P a c := by
  obtain ⟨n1, e1, r1⟩ := h1.log
  obtain ⟨n2, e2, r2⟩ := h2.log
  refine ⟨h2.prot, fun fd hp => by rw [h2.get fd hp, h1.get fd hp], by rw [h2.socks, h1.socks],
    by rw [h2.phase, h1.phase], Nat.le_trans h1.nextBind h2.nextBind,
    ⟨n2 ++ n1, by rw [e2, e1, List.append_assoc], ?_⟩, by rw [h2.files, h1.files], by rw [h2.made, h1.made]⟩
  intro r hr
  rcases List.mem_append.1 hr with h | h
  · have := r2 r h
    rw [h1.socks, h1.phase] at this
    exact this.transport (fun fd hp => h1.get fd hp)
  · exact r1 r h

/-- a change of the fields no invariant speaks about -/
theorem R.of_same {P : Nat → Prop} {s s' : State} (h : Prot P s) (h1 : s'.fdt = s.fdt) (h2 : s'.socks = s.socks)
    (h3 : s'.others = s.others) (h4 : s'.procs = s.procs) (h5 : s'.phase = s.phase)
    (h6 : s'.nextBind = s.nextBind) (h7 : s'.log = s.log) (h8 : s'.files = s.files) (h9 : s'.made = s.made) :
    R P s s' :=
  ⟨⟨fun fd hp => by rw [h1]; exact h.occ fd hp, fun fd hf => h.others fd (h3 ▸ hf),
    fun p hp => h.pipes p (h4 ▸ hp)⟩, fun _ _ => by rw [h1], h2, h5, by omega, ⟨[], by simp [h7], by simp⟩, h8, h9⟩

theorem alloc_R {P : Nat → Prop} {s : State} (h : Prot P s) (mk : Nat → Desc) :
    R P s (alloc s mk).1 ∧ ¬ P (alloc s mk).2 := by
  have hfree : ¬ P s.fdt.lowestFree := by
    intro hp
    obtain ⟨d, hd⟩ := h.occ _ hp
    rw [FdTable.get_lowestFree] at hd
    cases hd
  refine ⟨⟨⟨?_, h.others, h.pipes⟩, ?_, rfl, rfl, Nat.le_refl _, ⟨[], rfl, by simp⟩, rfl, rfl⟩, hfree⟩
  · intro fd hp
    have hne : fd ≠ s.fdt.lowestFree := fun e => hfree (e ▸ hp)
    simp only [alloc]
    rw [FdTable.get_put_ne _ _ _ _ hne (FdTable.lowestFree_le_length _)]
    exact h.occ fd hp
  · intro fd hp
    have hne : fd ≠ s.fdt.lowestFree := fun e => hfree (e ▸ hp)
    simp only [alloc]
    rw [FdTable.get_put_ne _ _ _ _ hne (FdTable.lowestFree_le_length _)]

theorem newBoundSocket_R {P : Nat → Prop} {s : State} (h : Prot P s) (addr : Spec) :
    R P s (newBoundSocket s addr).1 ∧ ¬ P (newBoundSocket s addr).2 := by
  have hfree : ¬ P s.fdt.lowestFree := by
    intro hp
    obtain ⟨d, hd⟩ := h.occ _ hp
    rw [FdTable.get_lowestFree] at hd
    cases hd
  refine ⟨⟨⟨?_, h.others, h.pipes⟩, ?_, rfl, rfl, Nat.le_succ _, ⟨[], rfl, by simp⟩, rfl, rfl⟩, hfree⟩
  · intro fd hp
    have hne : fd ≠ s.fdt.lowestFree := fun e => hfree (e ▸ hp)
    simp only [newBoundSocket]
    rw [FdTable.get_put_ne _ _ _ _ hne (FdTable.lowestFree_le_length _)]
    exact h.occ fd hp
  · intro fd hp
    have hne : fd ≠ s.fdt.lowestFree := fun e => hfree (e ▸ hp)
    simp only [newBoundSocket]
    rw [FdTable.get_put_ne _ _ _ _ hne (FdTable.lowestFree_le_length _)]

theorem closeFds_R {P : Nat → Prop} {s : State} (h : Prot P s) (fds : List Nat) (hf : ∀ fd ∈ fds, ¬ P fd) :
    R P s (closeFds s fds) := by
  have hg : ∀ fd, P fd → (closeFds s fds).fdt.get fd = s.fdt.get fd := by
    intro fd hp
    simp only [closeFds]
    exact FdTable.get_closeAll_of_not_mem _ _ _ (fun hm => hf fd hm hp)
  exact ⟨⟨fun fd hp => by rw [hg fd hp]; exact h.occ fd hp, h.others, h.pipes⟩, hg, rfl, rfl, Nat.le_refl _,
    ⟨[], rfl, by simp⟩, rfl, rfl⟩

/-! ### `_get_sockets_fds` -/

theorem mem_setFd {d : List (Str × Option Nat)} {k : Str} {v : Option Nat} {e : Str × Option Nat}
    (h : e ∈ setFd d k v) : e = (k, v) ∨ e ∈ d := by
  induction d with
  | nil => simp [setFd] at h; exact Or.inl h
  | cons x d ih =>
    obtain ⟨k', v'⟩ := x
    unfold setFd at h
    by_cases hk : k' = k
    · simp only [hk, if_true, List.mem_cons] at h
      rcases h with h | h
      · exact Or.inl h
      · exact Or.inr (by simp [h])
    · simp only [hk, if_false, List.mem_cons] at h
      rcases h with h | h
      · exact Or.inr (by simp [h])
      · rcases ih h with h | h
        · exact Or.inl h
        · exact Or.inr (by simp [h])

theorem key_setFd {d : List (Str × Option Nat)} (k : Str) (v : Option Nat) {n : Str}
    (h : ∃ e ∈ d, e.1 = n) : ∃ e ∈ setFd d k v, e.1 = n := by
  induction d with
  | nil => simp at h
  | cons x d ih =>
    obtain ⟨k', v'⟩ := x
    obtain ⟨e, he, hn⟩ := h
    unfold setFd
    by_cases hk : k' = k
    · simp only [hk, if_true]
      rcases List.mem_cons.1 he with h1 | h1
      · subst h1; exact ⟨(k, v), by simp, by simpa [hk] using hn⟩
      · exact ⟨e, by simp [h1], hn⟩
    · simp only [hk, if_false]
      rcases List.mem_cons.1 he with h1 | h1
      · subst h1; exact ⟨(k', v'), by simp, hn⟩
      · obtain ⟨e', he', hn'⟩ := ih ⟨e, h1, hn⟩
        exact ⟨e', by simp [he'], hn'⟩

theorem fdsOK_init (socks : List Sock) : FdsOK socks (socks.map (fun k => (k.name, k.fd))) := by
  constructor
  · intro e he
    obtain ⟨k, hk, rfl⟩ := List.mem_map.1 he
    exact ⟨k, hk, rfl, fun _ => rfl⟩
  · intro k hk
    exact ⟨(k.name, k.fd), List.mem_map.2 ⟨k, hk, rfl⟩, rfl⟩

theorem fdsOK_setFd {socks : List Sock} {d : List (Str × Option Nat)} (h : FdsOK socks d) {k : Sock}
    (hk : k ∈ socks) (hr : k.reuseport = true) (v : Option Nat) : FdsOK socks (setFd d k.name v) := by
  constructor
  · intro e he
    rcases mem_setFd he with h1 | h1
    · subst h1; exact ⟨k, hk, rfl, fun hf => by simp [hr] at hf⟩
    · exact h.1 e h1
  · intro k' hk'
    exact key_setFd _ _ (h.2 k' hk')

theorem reuse_fold {P : Nat → Prop} (cmd : Str) (s0 : State) (l : List Sock) :
    ∀ a : Attempt, R P s0 a.s → (∀ fd ∈ a.temp, ¬ P fd) → FdsOK s0.socks a.fds →
      (∀ k ∈ l, k ∈ s0.socks ∧ k.reuseport = true) →
      R P s0 (l.foldl (reuseStep cmd) a).s ∧ (∀ fd ∈ (l.foldl (reuseStep cmd) a).temp, ¬ P fd) ∧
        FdsOK s0.socks (l.foldl (reuseStep cmd) a).fds := by
  induction l with
  | nil => intro a h1 h2 h3 _; exact ⟨h1, h2, h3⟩
  | cons k l ih =>
    intro a h1 h2 h3 hl
    rw [List.foldl_cons]
    apply ih
    · unfold reuseStep
      split
      · exact h1.trans (newBoundSocket_R h1.prot k.toSpec).1
      · exact h1
    · unfold reuseStep
      split
      · intro fd hfd
        rcases List.mem_append.1 hfd with h | h
        · exact h2 fd h
        · simp only [List.mem_singleton] at h
          subst h
          exact (newBoundSocket_R h1.prot k.toSpec).2
      · exact h2
    · unfold reuseStep
      split
      · exact fdsOK_setFd h3 (hl k (by simp)).1 (hl k (by simp)).2 _
      · exact h3
    · intro k' hk'
      exact hl k' (by simp [hk'])

theorem getSocketsFds_R {P : Nat → Prop} {s : State} (h : Prot P s) (w : Watcher) :
    R P s (getSocketsFds s w).s ∧ (∀ fd ∈ (getSocketsFds s w).temp, ¬ P fd) ∧
      FdsOK s.socks (getSocketsFds s w).fds := by
  unfold getSocketsFds
  apply reuse_fold
  · exact R.refl h
  · simp
  · exact fdsOK_init _
  · intro k hk
    simpa using List.mem_filter.1 hk

/-! ### `Popen` -/

theorem inherit_get (c : Bool) (t : FdTable) (fd : Nat) :
    (inherit c t).get fd =
      if fd < 3 then none else if c then none else (t.get fd).filter (·.inheritable) := by
  unfold inherit FdTable.get
  rw [List.getElem?_mapIdx]
  cases h : t[fd]? with
  | none => simp
  | some o => simp

theorem allocPipe_R {P : Nat → Prop} {s : State} (h : Prot P s) :
    R P s (allocPipe s).1 ∧ ¬ P (allocPipe s).2.1 ∧ ¬ P (allocPipe s).2.2 := by
  have h1 := alloc_R h (otherDesc false)
  have h2 := alloc_R h1.1.prot (otherDesc false)
  exact ⟨h1.1.trans h2.1, h1.2, h2.2⟩

theorem allocPipes_R {P : Nat → Prop} {s : State} (h : Prot P s) (out err : Bool) :
    R P s (allocPipes s out err).1 ∧ (∀ fd ∈ (allocPipes s out err).2.1, ¬ P fd) ∧
      (∀ fd ∈ (allocPipes s out err).2.2, ¬ P fd) := by
  cases out <;> cases err
  · exact ⟨R.refl h, by simp [allocPipes], by simp [allocPipes]⟩
  · have h1 := allocPipe_R h
    exact ⟨h1.1, by simpa [allocPipes] using h1.2.1, by simpa [allocPipes] using h1.2.2⟩
  · have h1 := allocPipe_R h
    exact ⟨h1.1, by simpa [allocPipes] using h1.2.1, by simpa [allocPipes] using h1.2.2⟩
  · have h1 := allocPipe_R h
    have h2 := allocPipe_R h1.1.prot
    refine ⟨h1.1.trans h2.1, ?_, ?_⟩
    · intro fd hfd
      simp only [allocPipes, if_true, List.mem_append, List.mem_singleton] at hfd
      rcases hfd with e | e
      · subst e; exact h1.2.1
      · subst e; exact h2.2.1
    · intro fd hfd
      simp only [allocPipes, if_true, List.mem_append, List.mem_singleton] at hfd
      rcases hfd with e | e
      · subst e; exact h1.2.2
      · subst e; exact h2.2.2

theorem stdinDesc_ok {s : State} {w : Watcher} {fd0 : Option Desc} (h : stdinDesc s w = .ok fd0) :
    (w.stdinSocket = none → fd0 = none) ∧
    (∀ n, w.stdinSocket = some n →
      ∃ k ∈ s.socks, k.name = n ∧ ∃ fd d, k.fd = some fd ∧ fd0 = some d ∧ s.fdt.get fd = some d) := by
  unfold stdinDesc at h
  cases hs : w.stdinSocket with
  | none =>
    simp only [hs, Except.ok.injEq] at h
    exact ⟨fun _ => h.symm, fun n hn => by cases hn⟩
  | some n =>
    simp only [hs] at h
    refine ⟨fun hn => (by cases hn), ?_⟩
    intro n' hn'
    cases hn'
    cases hf : s.socks.find? (fun k => k.name = n) with
    | none => simp [hf] at h
    | some k =>
      simp only [hf] at h
      have hk := List.mem_of_find?_eq_some hf
      have hname : k.name = n := by simpa using List.find?_some hf
      cases hfd : k.fd with
      | none => simp [hfd] at h
      | some fd =>
        simp only [hfd] at h
        cases hg : s.fdt.get fd with
        | none => simp [hg] at h
        | some d =>
          simp only [hg, Except.ok.injEq] at h
          exact ⟨k, hk, hname, fd, d, hfd, h.symm, hg⟩

theorem trySpawn_R {P : Nat → Prop} {s : State} (h : Prot P s) (wi : Nat) (w : Watcher) (wid : Nat) :
    R P s (trySpawn s wi w wid).1 := by
  obtain ⟨ha, htemp, hfds⟩ := getSocketsFds_R h w
  unfold trySpawn
  simp only []
  cases hfa : formatArgv (getSocketsFds s w).fds (watcherCmd w) w.args with
  | error e =>
    simp only []
    exact ha.trans (closeFds_R ha.prot _ htemp)
  | ok argv =>
    simp only []
    obtain ⟨hp, hr, hw⟩ := allocPipes_R ha.prot w.pipeOut w.pipeErr
    generalize hx : allocPipes (getSocketsFds s w).s w.pipeOut w.pipeErr = x at hp hr hw
    obtain ⟨s1, rfds, wfds⟩ := x
    simp only [] at hp hr hw ⊢
    have h1 : R P s s1 := ha.trans hp
    cases hsd : stdinDesc s1 w with
    | error e =>
      simp only []
      have hc : R P s1 (closeFds s1 (rfds ++ wfds)) := closeFds_R h1.prot _ (by
        intro fd hfd
        rcases List.mem_append.1 hfd with e1 | e1
        · exact hr fd e1
        · exact hw fd e1)
      exact h1.trans (hc.trans (closeFds_R hc.prot _ htemp))
    | ok fd0 =>
      simp only []
      obtain ⟨hsn, hss⟩ := stdinDesc_ok hsd
      have h2 : R P s1 (closeFds s1 wfds) := closeFds_R h1.prot _ hw
      have h3 : R P (closeFds s1 wfds) (closeFds (closeFds s1 wfds) (getSocketsFds s w).temp) :=
        closeFds_R h2.prot _ htemp
      have h4 : R P s (closeFds (closeFds s1 wfds) (getSocketsFds s w).temp) := h1.trans (h2.trans h3)
      obtain ⟨new, hnew, hrec⟩ := h4.log
      refine ⟨⟨h4.prot.occ, h4.prot.others, ?_⟩, h4.get, h4.socks, h4.phase, h4.nextBind,
        ⟨{ w := wi, useSockets := w.useSockets, phase := s.phase, socketsFds := (getSocketsFds s w).fds,
           cmd := watcherCmd w, args := w.args, argv := argv, closeFds := !w.useSockets,
           inherited := inherit (!w.useSockets) s1.fdt, temp := (getSocketsFds s w).temp,
           stdinSocket := w.stdinSocket, fd0 := fd0 } :: new, ?_, ?_⟩, h4.files, h4.made⟩
      · intro p hp' fd hfd
        simp only [List.mem_append, List.mem_singleton] at hp'
        rcases hp' with hp' | hp'
        · exact h4.prot.pipes p hp' fd hfd
        · subst hp'; exact hr fd hfd
      · simp only [hnew, List.cons_append]
      · intro r hr'
        rcases List.mem_cons.1 hr' with e | e
        · subst e
          refine ⟨rfl, rfl, ?_, ?_, hfds, hfa, hsn, ?_⟩
          · intro hu fd
            simp only [] at hu
            simp [inherit_get, hu]
          · intro hu fd hpf h3'
            simp only [] at hu
            have : ¬ fd < 3 := by omega
            simp only [inherit_get, this, if_false, hu, Bool.not_true, Bool.false_eq_true]
            rw [h1.get fd hpf]
          · intro n hn
            obtain ⟨k, hk, hname, fd, d, hfd, h0, hg⟩ := hss n hn
            exact ⟨k, by rw [← h1.socks]; exact hk, hname, fd, d, hfd, h0, fun hpf => by rw [← h1.get fd hpf]; exact hg⟩
        · exact hrec r e

theorem spawnLoop_R {P : Nat → Prop} (n : Nat) : ∀ {s : State}, Prot P s → ∀ (wi : Nat) (w : Watcher) (wid : Nat),
    R P s (spawnLoop n s wi w wid).1 := by
  induction n with
  | zero => intro s h wi w wid; exact R.refl h
  | succ n ih =>
    intro s h wi w wid
    have h1 := trySpawn_R h wi w wid
    unfold spawnLoop
    generalize trySpawn s wi w wid = x at h1
    obtain ⟨s1, b⟩ := x
    cases b
    · exact h1
    · exact h1.trans (ih h1.prot wi w wid)
    · exact h1

theorem spawnProcess_R {P : Nat → Prop} {s : State} (h : Prot P s) (wi : Nat) : R P s (spawnProcess s wi).1 := by
  unfold spawnProcess
  split
  · exact R.refl h
  · rename_i w _
    split
    · exact R.refl h
    · rename_i wid _
      exact spawnLoop_R (P := P) w.maxRetry h wi w wid

theorem spawnN_R {P : Nat → Prop} (n : Nat) : ∀ {s : State}, Prot P s → ∀ wi : Nat, R P s (spawnN n s wi) := by
  induction n with
  | zero => intro s h wi; exact R.refl h
  | succ n ih =>
    intro s h wi
    have h1 := spawnProcess_R h wi
    unfold spawnN
    generalize spawnProcess s wi = x at h1
    obtain ⟨s1, r⟩ := x
    cases r
    · exact h1.trans (ih h1.prot wi)
    · exact h1
    · exact h1

theorem spawnAll_R {P : Nat → Prop} (n : Nat) : ∀ {s : State}, Prot P s → ∀ wi : Nat, R P s (spawnAll n s wi).1 := by
  induction n with
  | zero => intro s h wi; exact R.refl h
  | succ n ih =>
    intro s h wi
    have h1 := spawnProcess_R h wi
    unfold spawnAll
    generalize spawnProcess s wi = x at h1
    obtain ⟨s1, r⟩ := x
    cases r
    · exact h1.trans (ih h1.prot wi)
    · exact h1.trans (ih h1.prot wi)
    · exact h1

theorem reapProc_R {P : Nat → Prop} {s : State} (h : Prot P s) (p : Proc) (hp : ∀ fd ∈ p.pipeFds, ¬ P fd) :
    R P s (reapProc s p) := by
  have h1 := closeFds_R h p.pipeFds hp
  obtain ⟨new, hnew, hrec⟩ := h1.log
  refine ⟨⟨h1.prot.occ, h1.prot.others, ?_⟩, h1.get, h1.socks, h1.phase, h1.nextBind, ⟨new, hnew, hrec⟩, h1.files, h1.made⟩
  intro q hq
  exact h.pipes q (List.mem_filter.1 hq).1

theorem reapAll_R {P : Nat → Prop} (ps : List Proc) : ∀ {s : State}, Prot P s →
    (∀ p ∈ ps, ∀ fd ∈ p.pipeFds, ¬ P fd) → R P s (reapAll s ps) := by
  induction ps with
  | nil => intro s h _; exact R.refl h
  | cons p ps ih =>
    intro s h hps
    have h1 := reapProc_R h p (hps p (by simp))
    unfold reapAll
    rw [List.foldl_cons]
    exact h1.trans (ih h1.prot (fun q hq => hps q (by simp [hq])))

theorem setNp_R {P : Nat → Prop} {s : State} (h : Prot P s) (wi np : Nat) : R P s (setNp s wi np) :=
  R.of_same h rfl rfl rfl rfl rfl rfl rfl rfl rfl

theorem procsOf_pipes {P : Nat → Prop} {s : State} (h : Prot P s) (wi : Nat) :
    ∀ p ∈ procsOf s wi, ∀ fd ∈ p.pipeFds, ¬ P fd :=
  fun p hp => h.pipes p (List.mem_filter.1 hp).1

theorem manage_R {P : Nat → Prop} {s : State} (h : Prot P s) (wi : Nat) : R P s (manage s wi) := by
  unfold manage
  simp only []
  split
  · exact reapAll_R _ h (fun p hp => procsOf_pipes h wi p (List.mem_of_mem_take hp))
  · exact spawnN_R _ h wi

/-- every operation except `initialize` and `stop` leaves the protected descriptors alone -/
theorem step_R {P : Nat → Prop} {s : State} (h : Prot P s) (o : Op) (h1 : o ≠ .initialize) (h2 : o ≠ .stop)
    (h3 : ∀ new d a, o ≠ .reloadSockets new d a) : R P s (step s o) := by
  match o, h1, h2, h3 with
  | .initialize, h1, _, _ => exact absurd rfl h1
  | .stop, _, h2, _ => exact absurd rfl h2
  | .reloadSockets new d a, _, _, h3 => exact absurd rfl (h3 new d a)
  | .spawn w, _, _, _ => exact spawnProcess_R h w
  | .die i, _, _, _ =>
    simp only [step]
    split
    · rename_i p hp
      exact reapProc_R h p (h.pipes p (List.mem_of_getElem? hp))
    · exact R.refl h
  | .restart w, _, _, _ =>
    simp only [step]
    have h1 := reapAll_R (procsOf s w) h (procsOf_pipes h w)
    exact h1.trans (spawnN_R _ h1.prot w)
  | .reload w, _, _, _ =>
    simp only [step]
    have h1 := spawnAll_R (P := P) (npOf s w) h w
    generalize spawnAll (npOf s w) s w = x at h1
    obtain ⟨s1, b⟩ := x
    cases b
    · exact h1.trans (manage_R h1.prot w)
    · exact h1
  | .incr w k, _, _, _ =>
    simp only [step]
    have h1 := setNp_R h w (npOf s w + k)
    exact h1.trans (manage_R h1.prot w)
  | .decr w k, _, _, _ =>
    simp only [step]
    have h1 := setNp_R h w (npOf s w - k)
    exact h1.trans (manage_R h1.prot w)
  | .openOther inh, _, _, _ =>
    simp only [step]
    have h1 := alloc_R h (otherDesc inh)
    obtain ⟨new, hnew, hrec⟩ := h1.1.log
    refine ⟨⟨h1.1.prot.occ, ?_, h1.1.prot.pipes⟩, h1.1.get, h1.1.socks, h1.1.phase, h1.1.nextBind, ⟨new, hnew, hrec⟩, h1.1.files, h1.1.made⟩
    intro fd hfd
    rcases List.mem_append.1 hfd with e | e
    · exact h1.1.prot.others fd e
    · simp only [List.mem_singleton] at e; subst e; exact h1.2
  | .closeOther i, _, _, _ =>
    simp only [step]
    split
    · rename_i fd hfd
      have hm : fd ∈ s.others := List.mem_of_getElem? hfd
      have h1 := closeFds_R h [fd] (by intro x hx; simp at hx; rw [hx]; exact h.others fd hm)
      obtain ⟨new, hnew, hrec⟩ := h1.log
      refine ⟨⟨h1.prot.occ, ?_, h1.prot.pipes⟩, h1.get, h1.socks, h1.phase, h1.nextBind, ⟨new, hnew, hrec⟩, h1.files, h1.made⟩
      intro x hx
      exact h.others x (List.mem_of_mem_eraseIdx hx)
    · exact R.refl h

/-! ### `bind_and_listen_all` -/

theorem FdTable.lt_length_of_get {t : FdTable} {n : Nat} {d : Desc} (h : t.get n = some d) : n < t.length := by
  unfold FdTable.get at h
  by_cases hl : n < t.length
  · exact hl
  · rw [List.getElem?_eq_none (by omega)] at h; simp at h

/-- descriptors stay open, keep kind and inheritability, and a bound one is left as it is -/
def Mono (s s' : State) : Prop :=
  ∀ m d, s.fdt.get m = some d → ∃ d', s'.fdt.get m = some d' ∧ d'.kind = d.kind ∧
    d'.inheritable = d.inheritable ∧ (d.bindSer ≠ 0 → d' = d)

theorem Mono.refl (s : State) : Mono s s := fun _ d h => ⟨d, h, rfl, rfl, fun _ => rfl⟩

theorem Mono.trans {a b c : State} (h1 : Mono a b) (h2 : Mono b c) : Mono a c := by
  intro m d hd
  obtain ⟨d1, g1, k1, i1, b1⟩ := h1 m d hd
  obtain ⟨d2, g2, k2, i2, b2⟩ := h2 m d1 g1
  refine ⟨d2, g2, by rw [k2, k1], by rw [i2, i1], ?_⟩
  intro hb
  have e1 := b1 hb
  subst e1
  exact b2 hb

/-- no descriptor appears, none changes its kind -/
def Rev (s s' : State) : Prop :=
  ∀ m d', s'.fdt.get m = some d' → ∃ d, s.fdt.get m = some d ∧ d.kind = d'.kind

theorem Rev.refl (s : State) : Rev s s := fun _ d h => ⟨d, h, rfl⟩

theorem Rev.trans {a b c : State} (h1 : Rev a b) (h2 : Rev b c) : Rev a c := by
  intro m d hd
  obtain ⟨d1, g1, k1⟩ := h2 m d hd
  obtain ⟨d0, g0, k0⟩ := h1 m d1 g1
  exact ⟨d0, g0, by rw [k0, k1]⟩

/-- the fields `bind_and_listen` does not touch -/
def Same (s s' : State) : Prop :=
  s'.socks = s.socks ∧ s'.others = s.others ∧ s'.procs = s.procs ∧ s'.log = s.log ∧ s'.phase = s.phase ∧
    s.nextBind ≤ s'.nextBind

theorem Same.refl (s : State) : Same s s := ⟨rfl, rfl, rfl, rfl, rfl, Nat.le_refl _⟩

theorem Same.trans {a b c : State} (h1 : Same a b) (h2 : Same b c) : Same a c := by
  obtain ⟨a1, a2, a3, a4, a5, a6⟩ := h1
  obtain ⟨b1, b2, b3, b4, b5, b6⟩ := h2
  exact ⟨by rw [b1, a1], by rw [b2, a2], by rw [b3, a3], by rw [b4, a4], by rw [b5, a5], by omega⟩

/-- everything the proofs need to know about one `bind_and_listen` -/
structure BindFacts (s s1 : State) (k : Spec) (fd : Option Nat) (e : Option BindErr) : Prop where
  same : Same s s1
  mono : Mono s s1
  rev : Rev s s1
  files : ∀ p ∈ s1.files, p ∈ s.files ∨ (e = none ∧ k.unix = true ∧ p = k.addr)
  made : ∀ p ∈ s1.made, p ∈ s.made ∨ (e = none ∧ k.unix = true ∧ p = k.addr)
  madeMono : ∀ p ∈ s.made, p ∈ s1.made
  err : e ≠ none → s1.fdt = s.fdt
  ok : e = none → ∃ n d, fd = some n ∧ s.fdt.get n = some d ∧ d.bindSer = 0 ∧
    s1.fdt.get n = some { d with addr := some k.addr, bindSer := s.nextBind, listening := k.typ.listens }

theorem bindAndListen_facts (s : State) (k : Spec) (fd : Option Nat) :
    BindFacts s (bindAndListen s k fd).1 k fd (bindAndListen s k fd).2 := by
  unfold bindAndListen
  simp only []
  by_cases hraise : ((k.unix && s.files.contains k.addr) && !k.replace) = true
  · simp only [hraise, if_true]
    exact ⟨Same.refl s, Mono.refl s, Rev.refl s, fun p hp => Or.inl hp, fun p hp => Or.inl hp, fun p hp => hp,
      fun _ => rfl, fun h => by cases h⟩
  · simp only [hraise, Bool.false_eq_true, if_false]
    -- the state after the possible unlink: same table, fewer files
    generalize hs0 : (if (k.unix && s.files.contains k.addr) = true then
        ({ s with files := s.files.filter (· ≠ k.addr) } : State) else s) = s0
    have hfdt : s0.fdt = s.fdt := by subst hs0; split <;> rfl
    have hsame : Same s s0 := by
      subst hs0; split <;> exact ⟨rfl, rfl, rfl, rfl, rfl, Nat.le_refl _⟩
    have hnb : s0.nextBind = s.nextBind := by subst hs0; split <;> rfl
    have hfiles : ∀ p ∈ s0.files, p ∈ s.files := by
      subst hs0
      split
      · intro p hp; exact (List.mem_filter.1 hp).1
      · intro p hp; exact hp
    have hmade : s0.made = s.made := by subst hs0; split <;> rfl
    have hmono : Mono s s0 := fun m d hd => ⟨d, by rw [hfdt]; exact hd, rfl, rfl, fun _ => rfl⟩
    have hrev : Rev s s0 := fun m d hd => ⟨d, by rw [← hfdt]; exact hd, rfl⟩
    have hfail : ∀ e : BindErr, BindFacts s s0 k fd (some e) :=
      fun e => ⟨hsame, hmono, hrev, fun p hp => Or.inl (hfiles p hp), fun p hp => Or.inl (hmade ▸ hp),
        fun p hp => by rw [hmade]; exact hp, fun _ => hfdt, fun h => by cases h⟩
    cases fd with
    | none => exact hfail _
    | some n =>
      simp only []
      cases hg : s0.fdt.get n with
      | none => exact hfail _
      | some d =>
        simp only []
        by_cases hb : d.bindSer = 0
        · simp only [hb, ne_eq, not_true_eq_false, if_false]
          have hlen := Nat.le_of_lt (FdTable.lt_length_of_get hg)
          have hgs : s.fdt.get n = some d := by rw [← hfdt]; exact hg
          refine ⟨?_, ?_, ?_, ?_, ?_, ?_, fun h => absurd rfl h, fun _ => ⟨n, d, rfl, hgs, hb, ?_⟩⟩
          · obtain ⟨a1, a2, a3, a4, a5, a6⟩ := hsame
            exact ⟨a1, a2, a3, a4, a5, by simp only []; omega⟩
          · intro m d0 hd0
            by_cases hm : m = n
            · subst hm
              rw [hgs] at hd0
              cases hd0
              exact ⟨_, FdTable.get_put_self _ _ _ hlen, rfl, rfl, fun hne => absurd hb hne⟩
            · exact ⟨d0, by simp only []; rw [FdTable.get_put_ne _ _ _ _ hm hlen, hfdt]; exact hd0, rfl, rfl,
                fun _ => rfl⟩
          · intro m d' hd'
            by_cases hm : m = n
            · subst hm
              simp only [] at hd'
              rw [FdTable.get_put_self _ _ _ hlen] at hd'
              cases hd'
              exact ⟨d, hgs, rfl⟩
            · simp only [] at hd'
              rw [FdTable.get_put_ne _ _ _ _ hm hlen, hfdt] at hd'
              exact ⟨d', hd', rfl⟩
          · intro p hp
            simp only [] at hp
            by_cases hu : k.unix = true
            · simp only [hu, if_true, List.mem_cons] at hp
              rcases hp with e | e
              · exact Or.inr ⟨rfl, hu, e⟩
              · exact Or.inl (hfiles p e)
            · simp only [hu, Bool.false_eq_true, if_false] at hp
              exact Or.inl (hfiles p hp)
          · intro p hp
            simp only [] at hp
            by_cases hu : k.unix = true
            · simp only [hu, if_true, List.mem_cons] at hp
              rcases hp with e | e
              · exact Or.inr ⟨rfl, hu, e⟩
              · exact Or.inl (hmade ▸ e)
            · simp only [hu, Bool.false_eq_true, if_false] at hp
              exact Or.inl (hmade ▸ hp)
          · intro p hp
            simp only []
            split
            · exact List.mem_cons_of_mem _ (by rw [hmade]; exact hp)
            · rw [hmade]; exact hp
          · simp only [hnb]
            exact FdTable.get_put_self _ _ _ hlen
        · simp only [hb, ne_eq, not_false_eq_true, if_true]
          exact hfail _

structure AllFacts (s s1 : State) (l : List Sock) (e : Option BindErr) : Prop where
  same : Same s s1
  mono : Mono s s1
  rev : Rev s s1
  files : ∀ p ∈ s1.files, p ∈ s.files ∨ ∃ k ∈ l, k.unix = true ∧ k.addr = p
  made : ∀ p ∈ s1.made, p ∈ s.made ∨ ∃ k ∈ l, k.unix = true ∧ k.addr = p
  madeMono : ∀ p ∈ s.made, p ∈ s1.made
  bound : 0 < s.nextBind → e = none → ∀ k ∈ l, k.reuseport = false →
    ∃ fd d, k.fd = some fd ∧ s1.fdt.get fd = some d ∧ d.bindSer ≠ 0 ∧ d.listening = k.typ.listens ∧
      d.addr = some k.addr

theorem bindAll_facts (l : List Sock) : ∀ s : State,
    AllFacts s (bindAndListenAll s l).1 l (bindAndListenAll s l).2 := by
  induction l with
  | nil =>
    intro s
    exact ⟨Same.refl s, Mono.refl s, Rev.refl s, fun p hp => Or.inl hp, fun p hp => Or.inl hp, fun p hp => hp,
      by simp⟩
  | cons k l ih =>
    intro s
    unfold bindAndListenAll
    by_cases hr : k.reuseport = true
    · simp only [hr, if_true]
      have a := ih s
      refine ⟨a.same, a.mono, a.rev, ?_, ?_, a.madeMono, ?_⟩
      · intro p hp
        rcases a.files p hp with h | ⟨k', hk', h⟩
        · exact Or.inl h
        · exact Or.inr ⟨k', by simp [hk'], h⟩
      · intro p hp
        rcases a.made p hp with h | ⟨k', hk', h⟩
        · exact Or.inl h
        · exact Or.inr ⟨k', by simp [hk'], h⟩
      · intro hn he k' hk' hr'
        rcases List.mem_cons.1 hk' with e | e
        · subst e; simp [hr] at hr'
        · exact a.bound hn he k' e hr'
    · simp only [hr, Bool.false_eq_true, if_false]
      have b := bindAndListen_facts s k.toSpec k.fd
      generalize bindAndListen s k.toSpec k.fd = x at b
      obtain ⟨s1, e⟩ := x
      simp only [] at b
      cases e with
      | some err =>
        simp only []
        refine ⟨b.same, b.mono, b.rev, ?_, ?_, b.madeMono, by simp⟩
        · intro p hp
          rcases b.files p hp with h | ⟨h, _, _⟩
          · exact Or.inl h
          · cases h
        · intro p hp
          rcases b.made p hp with h | ⟨h, _, _⟩
          · exact Or.inl h
          · cases h
      | none =>
        simp only []
        have a := ih s1
        obtain ⟨n, d, hfd, hg, hb0, hg1⟩ := b.ok rfl
        refine ⟨b.same.trans a.same, b.mono.trans a.mono, b.rev.trans a.rev, ?_, ?_,
          fun p hp => a.madeMono p (b.madeMono p hp), ?_⟩
        · intro p hp
          rcases a.files p hp with h | ⟨k', hk', h⟩
          · rcases b.files p h with h2 | ⟨_, hu, hpa⟩
            · exact Or.inl h2
            · exact Or.inr ⟨k, by simp, hu, hpa.symm⟩
          · exact Or.inr ⟨k', by simp [hk'], h⟩
        · intro p hp
          rcases a.made p hp with h | ⟨k', hk', h⟩
          · rcases b.made p h with h2 | ⟨_, hu, hpa⟩
            · exact Or.inl h2
            · exact Or.inr ⟨k, by simp, hu, hpa.symm⟩
          · exact Or.inr ⟨k', by simp [hk'], h⟩
        · intro hn he k' hk' hr'
          have hnb : s.nextBind ≤ s1.nextBind := b.same.2.2.2.2.2
          rcases List.mem_cons.1 hk' with e | e
          · subst e
            have hne : ({ d with addr := some k'.addr, bindSer := s.nextBind, listening := k'.typ.listens } : Desc).bindSer ≠ 0 := by
              simp only []; omega
            obtain ⟨d', g', _, _, hd'⟩ := a.mono n _ hg1
            have := hd' hne
            subst this
            exact ⟨n, _, hfd, g', hne, rfl, rfl⟩
          · exact a.bound (by omega) he k' e hr'

/-- with every ordinary socket bound already, `bind_and_listen_all` leaves the descriptor table as
    it is (it raises at the first of them, or there is none) -/
theorem bindAll_noop (l : List Sock) (s : State)
    (h : ∀ k ∈ l, k.reuseport = false → ∃ fd d, k.fd = some fd ∧ s.fdt.get fd = some d ∧ d.bindSer ≠ 0) :
    (bindAndListenAll s l).1.fdt = s.fdt := by
  induction l with
  | nil => rfl
  | cons k l ih =>
    unfold bindAndListenAll
    by_cases hr : k.reuseport = true
    · simp only [hr, if_true]
      exact ih (fun k' hk' => h k' (by simp [hk']))
    · simp only [hr, Bool.false_eq_true, if_false]
      obtain ⟨fd, d, hfd, hg, hb⟩ := h k (by simp) (by simpa using hr)
      have b := bindAndListen_facts s k.toSpec k.fd
      generalize bindAndListen s k.toSpec k.fd = x at b
      obtain ⟨s1, e⟩ := x
      simp only [] at b
      cases e with
      | some err => exact b.err (by simp)
      | none =>
        obtain ⟨n, d', hfd', hg', hb0, _⟩ := b.ok rfl
        rw [hfd] at hfd'
        cases hfd'
        rw [hg] at hg'
        cases hg'
        exact absurd hb0 hb

/-! ### the invariant of the reachable states -/

/-- the protected descriptors: stdio and the descriptors of the managed sockets -/
def Ps (socks : List Sock) (fd : Nat) : Prop := fd < 3 ∨ ∃ k ∈ socks, k.fd = some fd

structure Good (s : State) : Prop where
  prot : Prot (Ps s.socks) s
  sockDesc : ∀ k ∈ s.socks, ∀ fd, k.fd = some fd →
    3 ≤ fd ∧ ∃ d, s.fdt.get fd = some d ∧ d.kind = .sock ∧ d.inheritable = true
  nextBind : 0 < s.nextBind
  bound : s.phase = .running → ∀ k ∈ s.socks, k.reuseport = false →
    ∃ fd d, k.fd = some fd ∧ s.fdt.get fd = some d ∧ d.bindSer ≠ 0 ∧ d.listening = k.typ.listens ∧ d.addr = some k.addr

theorem Good.of_R {s s' : State} (h : Good s) (r : R (Ps s.socks) s s') : Good s' := by
  refine ⟨by rw [r.socks]; exact r.prot, ?_, Nat.lt_of_lt_of_le h.nextBind r.nextBind, ?_⟩
  · intro k hk fd hfd
    rw [r.socks] at hk
    obtain ⟨h3, d, hd, hk1, hi⟩ := h.sockDesc k hk fd hfd
    exact ⟨h3, d, by rw [r.get fd (Or.inr ⟨k, hk, hfd⟩)]; exact hd, hk1, hi⟩
  · intro hp k hk hr
    rw [r.socks] at hk
    rw [r.phase] at hp
    obtain ⟨fd, d, hfd, hd, rest⟩ := h.bound hp k hk hr
    exact ⟨fd, d, hfd, by rw [r.get fd (Or.inr ⟨k, hk, hfd⟩)]; exact hd, rest⟩

theorem good_initialize {s : State} (h : Good s) : Good (step s .initialize) := by
  have a := bindAll_facts s.socks s
  obtain ⟨e1, e2, e3, e4, e5, e6⟩ := a.same
  have mo := a.mono
  have fin := a.bound
  have hbase : ∀ s1 : State, s1.fdt = (bindAndListenAll s s.socks).1.fdt → s1.socks = s.socks →
      s1.others = s.others → s1.procs = s.procs → s.nextBind ≤ s1.nextBind →
      (s1.phase = .running → ∀ k ∈ s.socks, k.reuseport = false →
        ∃ fd d, k.fd = some fd ∧ s1.fdt.get fd = some d ∧ d.bindSer ≠ 0 ∧ d.listening = k.typ.listens ∧
          d.addr = some k.addr) →
      Good s1 := by
    intro s1 hf hs ho hp hn hb
    refine ⟨⟨?_, ?_, ?_⟩, ?_, Nat.lt_of_lt_of_le h.nextBind hn, by rw [hs]; exact hb⟩
    · intro fd hfd
      rw [hs] at hfd
      obtain ⟨d, hd⟩ := h.prot.occ fd hfd
      obtain ⟨d', hd', _⟩ := mo fd d hd
      exact ⟨d', by rw [hf]; exact hd'⟩
    · intro fd hfd; rw [hs]; rw [ho] at hfd; exact h.prot.others fd hfd
    · intro q hq; rw [hs]; rw [hp] at hq; exact h.prot.pipes q hq
    · intro k hk fd hfd
      rw [hs] at hk
      obtain ⟨h3, d, hd, hk1, hi⟩ := h.sockDesc k hk fd hfd
      obtain ⟨d', hd', k', i', _⟩ := mo fd d hd
      exact ⟨h3, d', by rw [hf]; exact hd', by rw [k', hk1], by rw [i', hi]⟩
  simp only [step]
  generalize hx : bindAndListenAll s s.socks = x at *
  obtain ⟨s1, e⟩ := x
  simp only [] at e1 e2 e3 e4 e5 e6 mo fin hbase
  cases e with
  | some err =>
    simp only []
    refine hbase s1 rfl e1 e2 e3 e6 ?_
    intro hp k hk hr
    rw [e5] at hp
    obtain ⟨fd, d, hfd, hd, hb, rest⟩ := h.bound hp k hk hr
    obtain ⟨d', hd', _, _, heq⟩ := mo fd d hd
    have := heq hb
    subst this
    exact ⟨fd, d', hfd, hd', hb, rest⟩
  | none =>
    simp only []
    refine hbase _ rfl e1 e2 e3 e6 ?_
    intro _ k hk hr
    exact fin h.nextBind rfl k hk hr

/-- `initialize` on a running daemon: every socket is bound already, the descriptor table, the dict,
    the phase and the log stay as they are (a `replace = True` unix socket unlinks its own path before
    the `bind` fails) -/
theorem initialize_running {s : State} (h : Good s) (hp : s.phase = .running) :
    (step s .initialize).fdt = s.fdt ∧ (step s .initialize).socks = s.socks ∧
      (step s .initialize).phase = s.phase ∧ (step s .initialize).log = s.log := by
  have hn := bindAll_noop s.socks s (fun k hk hr => by
    obtain ⟨fd, d, a, b, c, _⟩ := h.bound hp k hk hr
    exact ⟨fd, d, a, b, c⟩)
  obtain ⟨e1, _, _, e4, e5, _⟩ := (bindAll_facts s.socks s).same
  simp only [step]
  generalize hx : bindAndListenAll s s.socks = x at hn e1 e4 e5
  obtain ⟨s1, e⟩ := x
  simp only [] at hn e1 e4 e5
  cases e with
  | some _ => exact ⟨hn, e1, e5, e4⟩
  | none => exact ⟨hn, e1, by simp [hp], e4⟩

/-! ### `CircusSocket.close` -/

theorem closeObj_get (s : State) (k : Sock) (fd : Nat) :
    (closeObj s k).fdt.get fd = if k.fd = some fd then none else s.fdt.get fd := by
  unfold closeObj
  cases hk : k.fd with
  | none => simp
  | some n =>
    simp only [Option.some.injEq]
    by_cases e : n = fd
    · subst e; simp [FdTable.get_close_self]
    · simp only [e, if_false]
      exact FdTable.get_close_ne _ _ _ (fun h => e h.symm)

/-- the fields `close` does not touch -/
theorem foldl_closeObj_same (l : List Sock) : ∀ s : State,
    (l.foldl closeObj s).socks = s.socks ∧ (l.foldl closeObj s).others = s.others ∧
    (l.foldl closeObj s).procs = s.procs ∧ (l.foldl closeObj s).log = s.log ∧
    (l.foldl closeObj s).phase = s.phase ∧ (l.foldl closeObj s).nextBind = s.nextBind ∧
    (l.foldl closeObj s).made = s.made := by
  induction l with
  | nil => intro s; exact ⟨rfl, rfl, rfl, rfl, rfl, rfl, rfl⟩
  | cons k l ih =>
    intro s
    rw [List.foldl_cons]
    obtain ⟨a1, a2, a3, a4, a5, a6, a7⟩ := ih (closeObj s k)
    exact ⟨a1, a2, a3, a4, a5, a6, a7⟩

theorem get_foldl_closeObj (l : List Sock) (fd : Nat) : ∀ s : State, (∀ k ∈ l, k.fd ≠ some fd) →
    (l.foldl closeObj s).fdt.get fd = s.fdt.get fd := by
  induction l with
  | nil => intro s _; rfl
  | cons k l ih =>
    intro s h
    rw [List.foldl_cons, ih _ (fun k' hk' => h k' (by simp [hk'])), closeObj_get]
    simp [h k (by simp)]

theorem get_foldl_closeObj_mem (l : List Sock) (fd : Nat) : ∀ s : State, (∃ k ∈ l, k.fd = some fd) →
    (l.foldl closeObj s).fdt.get fd = none := by
  induction l with
  | nil => intro s h; simp at h
  | cons k l ih =>
    intro s h
    rw [List.foldl_cons]
    by_cases hl : ∃ k' ∈ l, k'.fd = some fd
    · exact ih _ hl
    · have hk : k.fd = some fd := by
        obtain ⟨k', hk', e⟩ := h
        rcases List.mem_cons.1 hk' with e1 | e1
        · subst e1; exact e
        · exact absurd ⟨k', e1, e⟩ hl
      rw [get_foldl_closeObj _ _ _ (fun k' hk' e => hl ⟨k', hk', e⟩), closeObj_get]
      simp [hk]

/-- closing only takes descriptors away -/
theorem get_foldl_closeObj_rev (l : List Sock) : ∀ (s : State) (fd : Nat) (d : Desc),
    (l.foldl closeObj s).fdt.get fd = some d → s.fdt.get fd = some d := by
  induction l with
  | nil => intro s fd d h; exact h
  | cons k l ih =>
    intro s fd d h
    rw [List.foldl_cons] at h
    have := ih _ fd d h
    rw [closeObj_get] at this
    split at this
    · cases this
    · exact this

/-- a path that is still there after a round of `close()` was there before and is the path of none
    of the closed unix sockets -/
theorem files_foldl_closeObj (l : List Sock) : ∀ (s : State) (p : Nat), p ∈ (l.foldl closeObj s).files →
    p ∈ s.files ∧ ∀ k ∈ l, k.unix = true → k.addr ≠ p := by
  induction l with
  | nil => intro s p h; exact ⟨h, by simp⟩
  | cons k l ih =>
    intro s p h
    rw [List.foldl_cons] at h
    obtain ⟨h1, h2⟩ := ih _ p h
    have hk : p ∈ s.files ∧ (k.unix = true → k.addr ≠ p) := by
      unfold closeObj at h1
      simp only [] at h1
      by_cases hu : k.unix = true
      · simp only [hu, if_true] at h1
        obtain ⟨m, hne⟩ := List.mem_filter.1 h1
        exact ⟨m, fun _ e => by simp [e] at hne⟩
      · simp only [hu, Bool.false_eq_true, if_false] at h1
        exact ⟨h1, fun e => absurd e hu⟩
    refine ⟨hk.1, ?_⟩
    intro k' hk' hu
    rcases List.mem_cons.1 hk' with e | e
    · subst e; exact hk.2 hu
    · exact h2 k' e hu

theorem good_stop {s : State} (h : Good s) : Good (step s .stop) := by
  have hsub : ∀ fd, Ps (s.socks.map (fun k => { k with fd := none })) fd → fd < 3 := by
    intro fd hfd
    rcases hfd with h1 | ⟨k, hk, hfd⟩
    · exact h1
    · obtain ⟨k0, _, rfl⟩ := List.mem_map.1 hk
      simp at hfd
  obtain ⟨_, a2, a3, _, _, a6, _⟩ := foldl_closeObj_same s.socks s
  refine ⟨⟨?_, ?_, ?_⟩, ?_, by simp only [step, closeAllSocks]; rw [a6]; exact h.nextBind, ?_⟩
  · intro fd hfd
    have h3 := hsub fd hfd
    obtain ⟨d, hd⟩ := h.prot.occ fd (Or.inl h3)
    refine ⟨d, ?_⟩
    simp only [step, closeAllSocks]
    rw [get_foldl_closeObj _ _ _ (fun k hk e => by have := (h.sockDesc k hk fd e).1; omega)]
    exact hd
  · intro fd hfd hp
    simp only [step, closeAllSocks] at hfd
    rw [a2] at hfd
    exact h.prot.others fd hfd (Or.inl (hsub fd hp))
  · intro q hq fd hfd hp
    simp only [step, closeAllSocks] at hq
    rw [a3] at hq
    exact h.prot.pipes q hq fd hfd (Or.inl (hsub fd hp))
  · intro k hk fd hfd
    simp only [step, closeAllSocks] at hk
    obtain ⟨k0, _, rfl⟩ := List.mem_map.1 hk
    simp at hfd
  · intro hp
    simp [step] at hp

/-- the histories C07 quantifies over: no `reloadconfig` that changes the socket sections -/
def NoReload (ops : List Op) : Prop := ∀ o ∈ ops, ∀ new d a, o ≠ .reloadSockets new d a

theorem good_step {s : State} (h : Good s) (o : Op) (h3 : ∀ new d a, o ≠ .reloadSockets new d a) :
    Good (step s o) := by
  by_cases h1 : o = .initialize
  · subst h1; exact good_initialize h
  · by_cases h2 : o = .stop
    · subst h2; exact good_stop h
    · exact h.of_R (step_R h.prot o h1 h2 h3)

theorem good_run (ops : List Op) : ∀ {s : State}, Good s → NoReload ops → Good (run s ops) := by
  induction ops with
  | nil => intro s h _; exact h
  | cons o ops ih =>
    intro s h hn
    exact ih (good_step h o (hn o (by simp))) (fun o' ho' => hn o' (by simp [ho']))

/-! ### the daemon before `initialize` -/

/-- stdio is open in the process that becomes the daemon -/
def Stdio (t : FdTable) : Prop := ∀ i, i < 3 → ∃ d, t.get i = some d

structure SetupInv (s : State) : Prop where
  others : s.others = []
  procs : s.procs = []
  log : s.log = []
  phase : s.phase = .fresh
  stdio : Stdio s.fdt
  sockDesc : ∀ k ∈ s.socks, ∀ fd, k.fd = some fd →
    3 ≤ fd ∧ ∃ d, s.fdt.get fd = some d ∧ d.kind = .sock ∧ d.inheritable = true ∧ d.bindSer = 0 ∧ d.listening = false
  nextBind : 0 < s.nextBind

theorem SetupInv.good {s : State} (h : SetupInv s) : Good s := by
  refine ⟨⟨?_, by simp [h.others], by simp [h.procs]⟩, ?_, h.nextBind, by simp [h.phase]⟩
  · intro fd hfd
    rcases hfd with h3 | ⟨k, hk, hfd⟩
    · exact h.stdio fd h3
    · obtain ⟨_, d, hd, _⟩ := h.sockDesc k hk fd hfd
      exact ⟨d, hd⟩
  · intro k hk fd hfd
    obtain ⟨h3, d, hd, a, b, _⟩ := h.sockDesc k hk fd hfd
    exact ⟨h3, d, hd, a, b⟩

theorem setupInv_mkSocket {s : State} (h : SetupInv s) (k0 : Spec) :
    SetupInv (mkSocket s k0) := by
  have hfree := FdTable.get_lowestFree s.fdt
  have hle := FdTable.lowestFree_le_length s.fdt
  have h3 : 3 ≤ s.fdt.lowestFree := by
    by_cases hlt : s.fdt.lowestFree < 3
    · obtain ⟨d, hd⟩ := h.stdio _ hlt
      rw [hfree] at hd; cases hd
    · omega
  have hne : ∀ fd d, s.fdt.get fd = some d → fd ≠ s.fdt.lowestFree := by
    intro fd d hd e; rw [e, hfree] at hd; cases hd
  refine ⟨h.others, h.procs, h.log, h.phase, ?_, ?_, h.nextBind⟩
  · intro i hi
    obtain ⟨d, hd⟩ := h.stdio i hi
    exact ⟨d, by simp only [mkSocket, alloc]; rw [FdTable.get_put_ne _ _ _ _ (hne i d hd) hle]; exact hd⟩
  · intro k hk fd hfd
    simp only [mkSocket, alloc, List.mem_append, List.mem_singleton] at hk
    rcases hk with hk | hk
    · obtain ⟨h3', d, hd, rest⟩ := h.sockDesc k hk fd hfd
      exact ⟨h3', d, by simp only [mkSocket, alloc]; rw [FdTable.get_put_ne _ _ _ _ (hne fd d hd) hle]; exact hd, rest⟩
    · subst hk
      simp only [Option.some.injEq] at hfd
      subst hfd
      exact ⟨h3, _, by simp only [mkSocket, alloc]; exact FdTable.get_put_self _ _ _ hle, rfl, rfl, rfl, rfl⟩

theorem setupInv_foldl (specs : List Spec) : ∀ {s : State}, SetupInv s →
    SetupInv (specs.foldl mkSocket s) := by
  induction specs with
  | nil => intro s h; exact h
  | cons k specs ih => intro s h; exact ih (setupInv_mkSocket h _)

theorem setupInv_setup (t0 : FdTable) (specs : List Spec) (ws : List Watcher) (f0 : List Nat) (h : Stdio t0) :
    SetupInv (setup t0 specs ws f0) := by
  unfold setup
  apply setupInv_foldl
  exact ⟨rfl, rfl, rfl, rfl, h, by simp, by simp⟩

theorem good_setup (t0 : FdTable) (specs : List Spec) (ws : List Watcher) (f0 : List Nat) (h : Stdio t0) :
    Good (setup t0 specs ws f0) := (setupInv_setup t0 specs ws f0 h).good

/-- the dict holds the configured sockets, in order -/
theorem socks_specs_foldl (specs : List Spec) : ∀ s : State,
    (specs.foldl mkSocket s).socks.map (·.toSpec) = s.socks.map (·.toSpec) ++ specs := by
  induction specs with
  | nil => intro s; simp
  | cons k specs ih =>
    intro s
    rw [List.foldl_cons, ih]
    simp [mkSocket, alloc]

/-! ### phases -/

def rank : Phase → Nat
  | .fresh => 0
  | .running => 1
  | .stopped => 2

theorem rank_step {s : State} (h : Good s) (o : Op) (h3 : ∀ new d a, o ≠ .reloadSockets new d a) :
    rank s.phase ≤ rank (step s o).phase := by
  by_cases h1 : o = .initialize
  · subst h1
    obtain ⟨_, _, _, _, e5, _⟩ := (bindAll_facts s.socks s).same
    simp only [step]
    generalize bindAndListenAll s s.socks = x at e5
    obtain ⟨s1, e⟩ := x
    cases e with
    | some _ => simp only [] at e5 ⊢; rw [e5]; exact Nat.le_refl _
    | none =>
      simp only []
      cases hp : s.phase <;> simp [rank]
  · by_cases h2 : o = .stop
    · subst h2
      simp only [step, rank]
      cases s.phase <;> simp
    · rw [(step_R h.prot o h1 h2 h3).phase]
      exact Nat.le_refl _

/-! ### along a run -/

/-- one step of a running daemon that is still running afterwards -/
theorem frame_step {s : State} (h : Good s) (o : Op) (h3 : ∀ new d a, o ≠ .reloadSockets new d a) :
    ∃ new, (step s o).log = new ++ s.log ∧
      (∀ r ∈ new, r.phase = s.phase ∧ RecOK (Ps s.socks) s.socks s.phase s.fdt.get r) ∧
      (s.phase = .running → (step s o).phase = .running →
        (step s o).socks = s.socks ∧ ∀ fd, Ps s.socks fd → (step s o).fdt.get fd = s.fdt.get fd) := by
  by_cases h1 : o = .initialize
  · subst h1
    refine ⟨[], ?_, by simp, ?_⟩
    · obtain ⟨_, _, _, e4, _, _⟩ := (bindAll_facts s.socks s).same
      simp only [step]
      generalize bindAndListenAll s s.socks = x at e4
      obtain ⟨s1, e⟩ := x
      cases e <;> simpa using e4
    · intro hp _
      obtain ⟨e1, e2, _, _⟩ := initialize_running h hp
      exact ⟨e2, fun _ _ => by rw [e1]⟩
  · by_cases h2 : o = .stop
    · subst h2
      exact ⟨[], by simp [step, closeAllSocks, (foldl_closeObj_same s.socks s).2.2.2.1], by simp,
        by intro _ hp; simp [step] at hp⟩
    · have r := step_R h.prot o h1 h2 h3
      obtain ⟨new, hnew, hrec⟩ := r.log
      exact ⟨new, hnew, fun x hx => ⟨(hrec x hx).phase, hrec x hx⟩, fun _ _ => ⟨r.socks, r.get⟩⟩

/-- everything C07 says about a run that starts in a running daemon `s1` -/
structure Along (s1 s : State) : Prop where
  good : Good s
  notFresh : s.phase ≠ .fresh
  log : ∃ new, s.log = new ++ s1.log ∧
    ∀ r ∈ new, r.phase = .running → RecOK (Ps s1.socks) s1.socks .running s1.fdt.get r
  frame : s.phase = .running → s.socks = s1.socks ∧ ∀ fd, Ps s1.socks fd → s.fdt.get fd = s1.fdt.get fd

theorem along_step {s1 s : State} (h : Along s1 s) (o : Op) (h3 : ∀ new d a, o ≠ .reloadSockets new d a) :
    Along s1 (step s o) := by
  obtain ⟨new, hnew, hrec, hframe⟩ := frame_step h.good o h3
  obtain ⟨old, hold, holdrec⟩ := h.log
  have hrank := rank_step h.good o h3
  refine ⟨good_step h.good o h3, ?_, ⟨new ++ old, by rw [hnew, hold, List.append_assoc], ?_⟩, ?_⟩
  · intro hf
    rw [hf] at hrank
    have := h.notFresh
    cases hp : s.phase <;> simp_all [rank]
  · intro r hr hrun
    rcases List.mem_append.1 hr with hr | hr
    · obtain ⟨hph, hok⟩ := hrec r hr
      have hp : s.phase = .running := by rw [← hph]; exact hrun
      obtain ⟨hs, hg⟩ := h.frame hp
      rw [hs, hp] at hok
      exact hok.transport hg
    · exact holdrec r hr hrun
  · intro hp'
    have hp : s.phase = .running := by
      have := h.notFresh
      rw [hp'] at hrank
      cases hp : s.phase <;> simp_all [rank]
    obtain ⟨hs, hg⟩ := h.frame hp
    obtain ⟨hs', hg'⟩ := hframe hp hp'
    refine ⟨by rw [hs', hs], fun fd hfd => ?_⟩
    rw [hg' fd (by rw [hs]; exact hfd), hg fd hfd]

theorem along_run (ops : List Op) : ∀ {s1 s : State}, Along s1 s → NoReload ops → Along s1 (run s ops) := by
  induction ops with
  | nil => intro s1 s h _; exact h
  | cons o ops ih =>
    intro s1 s h hn
    exact ih (along_step h o (hn o (by simp))) (fun o' ho' => hn o' (by simp [ho']))

theorem along_refl {s1 : State} (h : Good s1) (hp : s1.phase = .running) : Along s1 s1 :=
  ⟨h, by simp [hp], ⟨[], rfl, by simp⟩, fun _ => ⟨rfl, fun _ _ => rfl⟩⟩

/-! ### `reload_from_config` leaves workers, log and phase alone -/

/-- the fields the socket part of a reload does not touch -/
def Quiet (s s' : State) : Prop :=
  s'.log = s.log ∧ s'.phase = s.phase ∧ s'.others = s.others ∧ s'.procs = s.procs ∧ s'.watchers = s.watchers

theorem Quiet.refl (s : State) : Quiet s s := ⟨rfl, rfl, rfl, rfl, rfl⟩

theorem Quiet.trans {a b c : State} (h1 : Quiet a b) (h2 : Quiet b c) : Quiet a c := by
  obtain ⟨a1, a2, a3, a4, a5⟩ := h1
  obtain ⟨b1, b2, b3, b4, b5⟩ := h2
  exact ⟨by rw [b1, a1], by rw [b2, a2], by rw [b3, a3], by rw [b4, a4], by rw [b5, a5]⟩

theorem bindAndListen_quiet (s : State) (k : Spec) (fd : Option Nat) : Quiet s (bindAndListen s k fd).1 := by
  obtain ⟨_, a2, a3, a4, a5, _⟩ := (bindAndListen_facts s k fd).same
  refine ⟨a4, a5, a2, a3, ?_⟩
  unfold bindAndListen
  simp only []
  split
  · rfl
  · split <;> split <;> (try split) <;> (try split) <;> rfl

theorem delSock_quiet (s : State) (n : Str) : Quiet s (delSock s n) := by
  unfold delSock
  split
  · exact Quiet.refl s
  · exact ⟨rfl, rfl, rfl, rfl, rfl⟩

theorem addSock_quiet (s : State) (k : Spec) : Quiet s (addSock s k).1 := by
  unfold addSock
  simp only []
  have b := bindAndListen_quiet (alloc s newSocketDesc).1 k (some (alloc s newSocketDesc).2)
  generalize bindAndListen (alloc s newSocketDesc).1 k (some (alloc s newSocketDesc).2) = x at b
  obtain ⟨s2, e⟩ := x
  have a : Quiet s (alloc s newSocketDesc).1 := ⟨rfl, rfl, rfl, rfl, rfl⟩
  cases e with
  | some _ => exact a.trans (b.trans ⟨rfl, rfl, rfl, rfl, rfl⟩)
  | none => exact a.trans (b.trans ⟨rfl, rfl, rfl, rfl, rfl⟩)

theorem addLoop_quiet (new : List Spec) (ns : List Str) : ∀ s : State, Quiet s (addLoop new s ns) := by
  induction ns with
  | nil => intro s; exact Quiet.refl s
  | cons n ns ih =>
    intro s
    unfold addLoop
    split
    · exact ih s
    · rename_i k _
      have a := addSock_quiet s k
      generalize addSock s k = x at a
      obtain ⟨s1, e⟩ := x
      cases e with
      | some _ => exact a
      | none => exact a.trans (ih s1)

theorem foldl_delSock_quiet (ns : List Str) : ∀ s : State, Quiet s (ns.foldl delSock s) := by
  induction ns with
  | nil => intro s; exact Quiet.refl s
  | cons n ns ih => intro s; rw [List.foldl_cons]; exact (delSock_quiet s n).trans (ih _)

theorem reloadSockets_quiet (s : State) (new : List Spec) (d a : List Str) : Quiet s (reloadSockets s new d a) := by
  unfold reloadSockets
  exact (foldl_delSock_quiet _ s).trans (addLoop_quiet _ _ _)

/-! ### the dict keeps the configured sockets; `initialize` / `stop` spawn nothing -/

theorem initialize_same (s : State) : (step s .initialize).socks = s.socks ∧ (step s .initialize).log = s.log := by
  obtain ⟨e1, _, _, e4, _, _⟩ := (bindAll_facts s.socks s).same
  simp only [step]
  generalize bindAndListenAll s s.socks = x at e1 e4
  obtain ⟨s1, e⟩ := x
  cases e <;> exact ⟨e1, e4⟩

theorem trivProt (s : State) : Prot (fun _ => False) s :=
  ⟨fun _ h => h.elim, fun _ _ h => h, fun _ _ _ _ h => h⟩

theorem socks_spec_step (s : State) (o : Op) (h3 : ∀ new d a, o ≠ .reloadSockets new d a) :
    (step s o).socks.map (·.toSpec) = s.socks.map (·.toSpec) := by
  by_cases h1 : o = .initialize
  · subst h1; rw [(initialize_same s).1]
  · by_cases h2 : o = .stop
    · subst h2; simp [step, closeAllSocks, Function.comp]
    · rw [(step_R (trivProt s) o h1 h2 h3).socks]

theorem socks_spec_run (ops : List Op) : ∀ s : State, NoReload ops →
    (run s ops).socks.map (·.toSpec) = s.socks.map (·.toSpec) := by
  induction ops with
  | nil => intro s _; rfl
  | cons o ops ih =>
    intro s hn
    simp only [run]
    rw [ih _ (fun o' ho' => hn o' (by simp [ho'])), socks_spec_step _ _ (hn o (by simp))]

theorem socks_spec_setup (t0 : FdTable) (specs : List Spec) (ws : List Watcher) (f0 : List Nat) :
    (setup t0 specs ws f0).socks.map (·.toSpec) = specs := by
  unfold setup
  rw [socks_specs_foldl]
  simp

/-- the records of workers of watchers without `use_sockets`: `close_fds=True`, nothing above 2,
    and on descriptor 0 either nothing of the daemon or the `stdin_socket` -/
def NoLeakLog (s : State) : Prop :=
  ∀ r ∈ s.log, r.useSockets = false →
    r.closeFds = true ∧ (∀ fd, r.inherited.get fd = none) ∧ (r.stdinSocket = none → r.fd0 = none)

theorem noLeak_step {s : State} (h : NoLeakLog s) (o : Op) : NoLeakLog (step s o) := by
  by_cases h1 : o = .initialize
  · subst h1; intro r hr; rw [(initialize_same s).2] at hr; exact h r hr
  · by_cases h2 : o = .stop
    · subst h2; intro r hr
      exact h r (by simpa [step, closeAllSocks, (foldl_closeObj_same s.socks s).2.2.2.1] using hr)
    · by_cases h3 : ∃ new d a, o = .reloadSockets new d a
      · obtain ⟨new, d, a, rfl⟩ := h3
        intro r hr
        simp only [step] at hr
        rw [(reloadSockets_quiet s new d a).1] at hr
        exact h r hr
      · obtain ⟨new, hnew, hrec⟩ := (step_R (trivProt s) o h1 h2 (fun n d a e => h3 ⟨n, d, a, e⟩)).log
        intro r hr hu
        rw [hnew] at hr
        rcases List.mem_append.1 hr with e | e
        · have ok := hrec r e
          exact ⟨by rw [ok.closeFds, hu]; rfl, ok.noLeak hu, ok.stdinNone⟩
        · exact h r e hu

theorem noLeak_run (ops : List Op) : ∀ {s : State}, NoLeakLog s → NoLeakLog (run s ops) := by
  induction ops with
  | nil => intro s h; exact h
  | cons o ops ih => intro s h; exact ih (noLeak_step h o)

/-! ### C08: nothing is left behind -/

/-- no socket descriptor appears: every socket open in `s'` is the same open socket in `s` -/
def NS (s s' : State) : Prop := ∀ fd d, s'.fdt.get fd = some d → d.kind = .sock → s.fdt.get fd = some d

theorem NS.refl (s : State) : NS s s := fun _ _ h _ => h

theorem NS.trans {a b c : State} (h1 : NS a b) (h2 : NS b c) : NS a c :=
  fun fd d h hk => h1 fd d (h2 fd d h hk) hk

theorem alloc_other_NS (s : State) (b : Bool) : NS s (alloc s (otherDesc b)).1 := by
  intro fd d h hk
  simp only [alloc] at h
  by_cases e : fd = s.fdt.lowestFree
  · subst e
    rw [FdTable.get_put_self _ _ _ (FdTable.lowestFree_le_length _)] at h
    cases h
    simp [otherDesc] at hk
  · rwa [FdTable.get_put_ne _ _ _ _ e (FdTable.lowestFree_le_length _)] at h

theorem closeFds_NS (s : State) (fds : List Nat) : NS s (closeFds s fds) := by
  intro fd d h _
  simp only [closeFds, FdTable.get_closeAll] at h
  split at h
  · cases h
  · exact h

/-- the same up to the per-worker `so_reuseport` sockets `T` -/
def NST (T : List Nat) (s s' : State) : Prop :=
  ∀ fd d, s'.fdt.get fd = some d → d.kind = .sock → s.fdt.get fd = some d ∨ fd ∈ T

theorem reuse_fold_NST (cmd : Str) (s0 : State) (l : List Sock) : ∀ a : Attempt, NST a.temp s0 a.s →
    NST (l.foldl (reuseStep cmd) a).temp s0 (l.foldl (reuseStep cmd) a).s := by
  induction l with
  | nil => intro a h; exact h
  | cons k l ih =>
    intro a h
    rw [List.foldl_cons]
    apply ih
    unfold reuseStep
    split
    · intro fd d hg hk
      simp only [newBoundSocket] at hg
      by_cases e : fd = a.s.fdt.lowestFree
      · right; simp [e, newBoundSocket]
      · rw [FdTable.get_put_ne _ _ _ _ e (FdTable.lowestFree_le_length _)] at hg
        rcases h fd d hg hk with h1 | h1
        · exact Or.inl h1
        · exact Or.inr (by simp [h1])
    · exact h

theorem allocPipes_NS (s : State) (out err : Bool) : NS s (allocPipes s out err).1 := by
  have hp : ∀ s : State, NS s (allocPipe s).1 := fun s =>
    (alloc_other_NS s false).trans (alloc_other_NS _ false)
  cases out <;> cases err
  · exact NS.refl s
  · exact hp s
  · exact hp s
  · exact (hp s).trans (hp _)

theorem trySpawn_NS (s : State) (wi : Nat) (w : Watcher) (wid : Nat) : NS s (trySpawn s wi w wid).1 := by
  have hf : NST (getSocketsFds s w).temp s (getSocketsFds s w).s := by
    unfold getSocketsFds
    exact reuse_fold_NST _ _ _ _ (fun fd d h _ => Or.inl h)
  -- once the per-worker sockets are closed again nothing new is left
  have hclose : ∀ s1 : State, NS (getSocketsFds s w).s s1 → NS s (closeFds s1 (getSocketsFds s w).temp) := by
    intro s1 h1 fd d hg hk
    simp only [closeFds, FdTable.get_closeAll] at hg
    split at hg
    · cases hg
    · rename_i hnot
      rcases hf fd d (h1 fd d hg hk) hk with h2 | h2
      · exact h2
      · exact absurd h2 hnot
  unfold trySpawn
  simp only []
  cases formatArgv (getSocketsFds s w).fds (watcherCmd w) w.args with
  | error e => exact hclose _ (NS.refl _)
  | ok argv =>
    simp only []
    have hp := allocPipes_NS (getSocketsFds s w).s w.pipeOut w.pipeErr
    generalize allocPipes (getSocketsFds s w).s w.pipeOut w.pipeErr = x at hp
    obtain ⟨s1, rfds, wfds⟩ := x
    simp only [] at hp ⊢
    cases stdinDesc s1 w with
    | error e => exact hclose _ (hp.trans (closeFds_NS _ _))
    | ok fd0 =>
      simp only []
      have := hclose _ (hp.trans (closeFds_NS s1 wfds))
      exact this

theorem spawnLoop_NS (n : Nat) : ∀ (s : State) (wi : Nat) (w : Watcher) (wid : Nat),
    NS s (spawnLoop n s wi w wid).1 := by
  induction n with
  | zero => intro s wi w wid; exact NS.refl s
  | succ n ih =>
    intro s wi w wid
    have h1 := trySpawn_NS s wi w wid
    unfold spawnLoop
    generalize trySpawn s wi w wid = x at h1
    obtain ⟨s1, b⟩ := x
    cases b
    · exact h1
    · exact h1.trans (ih s1 wi w wid)
    · exact h1

theorem spawnProcess_NS (s : State) (wi : Nat) : NS s (spawnProcess s wi).1 := by
  unfold spawnProcess
  split
  · exact NS.refl s
  · split
    · exact NS.refl s
    · exact spawnLoop_NS _ _ _ _ _

theorem spawnN_NS (n : Nat) : ∀ (s : State) (wi : Nat), NS s (spawnN n s wi) := by
  induction n with
  | zero => intro s wi; exact NS.refl s
  | succ n ih =>
    intro s wi
    have h1 := spawnProcess_NS s wi
    unfold spawnN
    generalize spawnProcess s wi = x at h1
    obtain ⟨s1, r⟩ := x
    cases r
    · exact h1.trans (ih s1 wi)
    · exact h1
    · exact h1

theorem spawnAll_NS (n : Nat) : ∀ (s : State) (wi : Nat), NS s (spawnAll n s wi).1 := by
  induction n with
  | zero => intro s wi; exact NS.refl s
  | succ n ih =>
    intro s wi
    have h1 := spawnProcess_NS s wi
    unfold spawnAll
    generalize spawnProcess s wi = x at h1
    obtain ⟨s1, r⟩ := x
    cases r
    · exact h1.trans (ih s1 wi)
    · exact h1.trans (ih s1 wi)
    · exact h1

theorem reapProc_NS (s : State) (p : Proc) : NS s (reapProc s p) := closeFds_NS s p.pipeFds

theorem reapAll_NS (ps : List Proc) : ∀ s : State, NS s (reapAll s ps) := by
  induction ps with
  | nil => intro s; exact NS.refl s
  | cons p ps ih =>
    intro s
    unfold reapAll
    rw [List.foldl_cons]
    exact (reapProc_NS s p).trans (ih _)

theorem manage_NS (s : State) (wi : Nat) : NS s (manage s wi) := by
  unfold manage
  simp only []
  split
  · exact reapAll_NS _ _
  · exact spawnN_NS _ _ _

theorem step_NS (s : State) (o : Op) (h1 : o ≠ .initialize) (h2 : o ≠ .stop)
    (h3 : ∀ new d a, o ≠ .reloadSockets new d a) : NS s (step s o) := by
  match o, h1, h2, h3 with
  | .initialize, h1, _, _ => exact absurd rfl h1
  | .stop, _, h2, _ => exact absurd rfl h2
  | .reloadSockets new d a, _, _, h3 => exact absurd rfl (h3 new d a)
  | .spawn w, _, _, _ => exact spawnProcess_NS s w
  | .die i, _, _, _ =>
    simp only [step]
    split
    · exact reapProc_NS _ _
    · exact NS.refl s
  | .restart w, _, _, _ =>
    simp only [step]
    exact (reapAll_NS _ s).trans (spawnN_NS _ _ _)
  | .reload w, _, _, _ =>
    simp only [step]
    have h1 := spawnAll_NS (npOf s w) s w
    generalize spawnAll (npOf s w) s w = x at h1
    obtain ⟨s1, b⟩ := x
    cases b
    · exact h1.trans (manage_NS _ _)
    · exact h1
  | .incr w k, _, _, _ =>
    simp only [step]
    exact NS.trans (fun _ _ h _ => h) (manage_NS _ _)
  | .decr w k, _, _, _ =>
    simp only [step]
    exact NS.trans (fun _ _ h _ => h) (manage_NS _ _)
  | .openOther inh, _, _, _ =>
    simp only [step]
    exact alloc_other_NS s inh
  | .closeOther i, _, _, _ =>
    simp only [step]
    split
    · exact closeFds_NS _ _
    · exact NS.refl s

/-- every socket descriptor that is open belongs to a socket object of the dict -/
def Orph (s : State) : Prop :=
  ∀ fd d, s.fdt.get fd = some d → d.kind = .sock → ∃ k ∈ s.socks, k.fd = some fd

/-- every unix-socket file the daemon made and that still exists is the path of a socket of the dict -/
def FilesInv (s : State) : Prop :=
  ∀ p ∈ s.files, p ∈ s.made → ∃ k ∈ s.socks, k.unix = true ∧ k.addr = p

structure Tidy (s : State) : Prop where
  orph : Orph s
  files : FilesInv s

theorem tidy_initialize {s : State} (h : Tidy s) : Tidy (step s .initialize) := by
  have a := bindAll_facts s.socks s
  have key : ∀ s1 : State, s1.fdt = (bindAndListenAll s s.socks).1.fdt → s1.socks = s.socks →
      s1.files = (bindAndListenAll s s.socks).1.files → s1.made = (bindAndListenAll s s.socks).1.made → Tidy s1 := by
    intro s1 hf hs hfi hm
    constructor
    · intro fd d hg hk
      rw [hf] at hg
      obtain ⟨d0, g0, k0⟩ := a.rev fd d hg
      rw [hs]
      exact h.orph fd d0 g0 (by rw [k0, hk])
    · intro p hp hmade
      rw [hfi] at hp
      rw [hm] at hmade
      rw [hs]
      rcases a.files p hp with h1 | h1
      · rcases a.made p hmade with h2 | h2
        · exact h.files p h1 h2
        · exact h2
      · exact h1
  simp only [step]
  generalize bindAndListenAll s s.socks = x at a key
  obtain ⟨s1, e⟩ := x
  cases e with
  | some _ => exact key s1 rfl a.same.1 rfl rfl
  | none => exact key _ rfl a.same.1 rfl rfl

/-- `stop`: no socket descriptor is open and no file the daemon ever made exists -/
theorem stop_clean {s : State} (h : Tidy s) :
    (∀ fd d, (step s .stop).fdt.get fd = some d → d.kind ≠ .sock) ∧
    (∀ p ∈ (step s .stop).made, p ∉ (step s .stop).files) ∧
    (step s .stop).made = s.made := by
  refine ⟨?_, ?_, ?_⟩
  · intro fd d hg hk
    simp only [step, closeAllSocks] at hg
    have h0 := get_foldl_closeObj_rev _ _ _ _ hg
    obtain ⟨k, hk', hfd⟩ := h.orph fd d h0 hk
    rw [get_foldl_closeObj_mem _ _ _ ⟨k, hk', hfd⟩] at hg
    cases hg
  · intro p hm hp
    simp only [step, closeAllSocks] at hm hp
    rw [(foldl_closeObj_same s.socks s).2.2.2.2.2.2] at hm
    obtain ⟨h1, h2⟩ := files_foldl_closeObj _ _ _ hp
    obtain ⟨k, hk, hu, ha⟩ := h.files p h1 hm
    exact h2 k hk hu ha
  · simp only [step, closeAllSocks]
    exact (foldl_closeObj_same s.socks s).2.2.2.2.2.2

theorem tidy_stop {s : State} (h : Tidy s) : Tidy (step s .stop) := by
  obtain ⟨h1, h2, _⟩ := stop_clean h
  exact ⟨fun fd d hg hk => absurd hk (h1 fd d hg), fun p hp hm => absurd hp (h2 p hm)⟩

theorem tidy_delSock {s : State} (h : Tidy s) (n : Str) : Tidy (delSock s n) := by
  unfold delSock
  split
  · exact h
  · rename_i k hfind
    constructor
    · intro fd d hg hk
      simp only [] at hg ⊢
      rw [closeObj_get] at hg
      split at hg
      · cases hg
      · rename_i hne
        obtain ⟨k', hk', hfd⟩ := h.orph fd d hg hk
        have : k' ≠ k := fun e => hne (e ▸ hfd)
        exact ⟨k', (List.mem_erase_of_ne this).2 hk', hfd⟩
    · intro p hp hm
      simp only [] at hp hm ⊢
      have hp' : p ∈ s.files ∧ (k.unix = true → k.addr ≠ p) := by
        unfold closeObj at hp
        simp only [] at hp
        by_cases hu : k.unix = true
        · simp only [hu, if_true] at hp
          obtain ⟨m, hne⟩ := List.mem_filter.1 hp
          exact ⟨m, fun _ e => by simp [e] at hne⟩
        · simp only [hu, Bool.false_eq_true, if_false] at hp
          exact ⟨hp, fun e => absurd e hu⟩
      have hm' : p ∈ s.made := by simpa [closeObj] using hm
      obtain ⟨k', hk', hu, ha⟩ := h.files p hp'.1 hm'
      have : k' ≠ k := fun e => hp'.2 (e ▸ hu) (e ▸ ha)
      exact ⟨k', (List.mem_erase_of_ne this).2 hk', hu, ha⟩

theorem tidy_addSock {s : State} (h : Tidy s) (k : Spec) : Tidy (addSock s k).1 := by
  unfold addSock
  simp only []
  have hle := FdTable.lowestFree_le_length s.fdt
  -- after `socket()`: one more socket descriptor
  have hal : ∀ fd d, (alloc s newSocketDesc).1.fdt.get fd = some d → d.kind = .sock →
      fd = s.fdt.lowestFree ∨ s.fdt.get fd = some d := by
    intro fd d hg _
    simp only [alloc] at hg
    by_cases e : fd = s.fdt.lowestFree
    · exact Or.inl e
    · rw [FdTable.get_put_ne _ _ _ _ e hle] at hg
      exact Or.inr hg
  have b := bindAndListen_facts (alloc s newSocketDesc).1 k (some (alloc s newSocketDesc).2)
  generalize bindAndListen (alloc s newSocketDesc).1 k (some (alloc s newSocketDesc).2) = x at b
  obtain ⟨s2, e⟩ := x
  simp only [] at b
  have hsocks : s2.socks = s.socks := b.same.1
  have horph : ∀ fd d, s2.fdt.get fd = some d → d.kind = .sock →
      fd = s.fdt.lowestFree ∨ ∃ k' ∈ s.socks, k'.fd = some fd := by
    intro fd d hg hk
    obtain ⟨d0, g0, k0⟩ := b.rev fd d hg
    rcases hal fd d0 g0 (by rw [k0, hk]) with h1 | h1
    · exact Or.inl h1
    · exact Or.inr (h.orph fd d0 h1 (by rw [k0, hk]))
  cases e with
  | some err =>
    simp only []
    constructor
    · intro fd d hg hk
      simp only [closeFds, FdTable.get_closeAll] at hg
      split at hg
      · cases hg
      · rename_i hnot
        rcases horph fd d hg hk with h1 | h1
        · exact absurd (by simp [h1, alloc]) hnot
        · simpa [closeFds, hsocks] using h1
    · intro p hp hm
      simp only [closeFds] at hp hm ⊢
      rw [hsocks]
      rcases b.files p hp with h1 | ⟨h1, _, _⟩
      · rcases b.made p hm with h2 | ⟨h2, _, _⟩
        · exact h.files p h1 h2
        · cases h2
      · cases h1
  | none =>
    simp only []
    constructor
    · intro fd d hg hk
      simp only [] at hg ⊢
      rcases horph fd d hg hk with h1 | ⟨k', hk', hfd⟩
      · exact ⟨{ toSpec := k, fd := some (alloc s newSocketDesc).2 }, by simp, by simp [h1, alloc]⟩
      · exact ⟨k', by simp [hsocks, hk'], hfd⟩
    · intro p hp hm
      simp only [] at hp hm ⊢
      rcases b.files p hp with h1 | ⟨_, hu, ha⟩
      · rcases b.made p hm with h2 | ⟨_, hu, ha⟩
        · obtain ⟨k', hk', r⟩ := h.files p h1 h2
          exact ⟨k', by simp [hsocks, hk'], r⟩
        · exact ⟨{ toSpec := k, fd := some (alloc s newSocketDesc).2 }, by simp, hu, ha.symm⟩
      · exact ⟨{ toSpec := k, fd := some (alloc s newSocketDesc).2 }, by simp, hu, ha.symm⟩

theorem tidy_addLoop (new : List Spec) (ns : List Str) : ∀ {s : State}, Tidy s → Tidy (addLoop new s ns) := by
  induction ns with
  | nil => intro s h; exact h
  | cons n ns ih =>
    intro s h
    unfold addLoop
    split
    · exact ih h
    · rename_i k _
      have a := tidy_addSock h k
      generalize addSock s k = x at a
      obtain ⟨s1, e⟩ := x
      cases e with
      | some _ => exact a
      | none => exact ih a

theorem tidy_reload {s : State} (h : Tidy s) (new : List Spec) (d a : List Str) :
    Tidy (reloadSockets s new d a) := by
  unfold reloadSockets
  simp only []
  apply tidy_addLoop
  generalize reorder d _ = l
  induction l generalizing s with
  | nil => exact h
  | cons n l ih => rw [List.foldl_cons]; exact ih (tidy_delSock h n)

theorem tidy_step {s : State} (h : Tidy s) (o : Op) : Tidy (step s o) := by
  by_cases h1 : o = .initialize
  · subst h1; exact tidy_initialize h
  · by_cases h2 : o = .stop
    · subst h2; exact tidy_stop h
    · by_cases h3 : ∃ new d a, o = .reloadSockets new d a
      · obtain ⟨new, d, a, rfl⟩ := h3
        exact tidy_reload h new d a
      · have h3' : ∀ new d a, o ≠ .reloadSockets new d a := fun n d a e => h3 ⟨n, d, a, e⟩
        have r := step_R (trivProt s) o h1 h2 h3'
        have ns := step_NS s o h1 h2 h3'
        constructor
        · intro fd d hg hk
          rw [r.socks]
          exact h.orph fd d (ns fd d hg hk) hk
        · intro p hp hm
          rw [r.socks]
          rw [r.files] at hp
          rw [r.made] at hm
          exact h.files p hp hm

theorem tidy_run (ops : List Op) : ∀ {s : State}, Tidy s → Tidy (run s ops) := by
  induction ops with
  | nil => intro s h; exact h
  | cons o ops ih => intro s h; exact ih (tidy_step h o)

/-- the process that becomes the daemon holds no socket of its own in `t0` -/
def NoSock (t : FdTable) : Prop := ∀ fd d, t.get fd = some d → d.kind = .other

theorem tidy_setup (t0 : FdTable) (specs : List Spec) (ws : List Watcher) (f0 : List Nat) (h : NoSock t0) :
    Tidy (setup t0 specs ws f0) := by
  unfold setup
  have base : ∀ (l : List Spec) (s : State), Orph s → s.made = [] →
      Orph (l.foldl mkSocket s) ∧ (l.foldl mkSocket s).made = [] := by
    intro l
    induction l with
    | nil => intro s h1 h2; exact ⟨h1, h2⟩
    | cons k l ih =>
      intro s h1 h2
      rw [List.foldl_cons]
      apply ih
      · intro fd d hg hk
        simp only [mkSocket, alloc] at hg ⊢
        by_cases e : fd = s.fdt.lowestFree
        · exact ⟨{ toSpec := k, fd := some s.fdt.lowestFree }, by simp, by simp [e]⟩
        · rw [FdTable.get_put_ne _ _ _ _ e (FdTable.lowestFree_le_length _)] at hg
          obtain ⟨k', hk', hfd⟩ := h1 fd d hg hk
          exact ⟨k', by simp [hk'], hfd⟩
      · simpa [mkSocket, alloc] using h2
  obtain ⟨h1, h2⟩ := base specs
    { fdt := t0, nextId := 1, nextBind := 1, socks := [], watchers := ws, procs := [], nextPid := 1, others := [],
      phase := .fresh, log := [], files := f0, made := [] }
    (fun fd d hg hk => by
      have := h fd d hg
      rw [this] at hk
      cases hk) rfl
  exact ⟨h1, fun p _ hm => by rw [h2] at hm; simp at hm⟩

/-! ### the substitution table -/

/-- no two sockets of the dict have names that differ only by letter case -/
def NamesCI (socks : List Sock) : Prop :=
  ∀ k ∈ socks, ∀ k' ∈ socks, lowerStr k.name = lowerStr k'.name → k = k'

theorem lookup_unique {l : List (Str × Str)} {k v : Str} (hex : ∃ e ∈ l, e.1 = k)
    (hall : ∀ e ∈ l, e.1 = k → e.2 = v) : l.lookup k = some v := by
  induction l with
  | nil => simp at hex
  | cons x l ih =>
    obtain ⟨k0, v0⟩ := x
    by_cases hk : k = k0
    · subst hk
      rw [lookup_cons_eq]
      exact congrArg some (hall (k, v0) (by simp) rfl)
    · rw [lookup_cons_ne _ _ hk]
      apply ih
      · obtain ⟨e, he, hk'⟩ := hex
        rcases List.mem_cons.1 he with e1 | e1
        · subst e1; exact absurd hk'.symm hk
        · exact ⟨e, e1, hk'⟩
      · intro e he; exact hall e (by simp [he])

/-- the key under which `replace_gnu_args` files the descriptor of the socket called `n` -/
def sockKey (n : Str) : Str := circusDot ++ socketsKey ++ [46] ++ lowerStr n

theorem sockKey_inj {a b : Str} (h : sockKey a = sockKey b) : lowerStr a = lowerStr b := by
  unfold sockKey at h
  exact List.append_cancel_left h

theorem fmtOptions_socketsKw (fds : List (Str × Option Nat)) (key : Str) :
    (fmtOptions (socketsKw fds)).lookup key =
      ((fds.map (fun nv => (sockKey nv.1, fdText nv.2))).reverse).lookup key := by
  unfold fmtOptions socketsKw
  rw [lookup_foldl_dictSet]
  have : ([(socketsKey, Val.dict (fds.map (fun nv => (nv.1, fdText nv.2))))].flatMap entries) =
      fds.map (fun nv => (sockKey nv.1, fdText nv.2)) := by
    simp only [List.flatMap_cons, List.flatMap_nil, List.append_nil, entries, List.map_map]
    apply List.map_congr_left
    intro nv _
    have : lowerStr socketsKey = socketsKey := by decide
    simp [sockKey, this, Function.comp]
  rw [this]
  simp

theorem optionKey_socket (g n : Str) (h : lowerStr g = socketsDot ++ lowerStr n) : optionKey g = sockKey n := by
  unfold optionKey
  simp only [h]
  have : circus.isPrefixOf (socketsDot ++ lowerStr n) = false := by
    simp [circus, socketsDot, socketsKey, List.isPrefixOf]
  rw [if_neg (by rw [this]; simp)]
  simp only [sockKey, socketsDot, List.append_assoc]

/-- whatever the letter case of the reference, `_repl` answers with the descriptor number of the one
    socket whose name matches -/
theorem repl_socket {socks : List Sock} {fds : List (Str × Option Nat)} (hf : FdsOK socks fds)
    (hci : NamesCI socks) {k : Sock} (hk : k ∈ socks) (hr : k.reuseport = false) (g m : Str)
    (hg : lowerStr g = socketsDot ++ lowerStr k.name) :
    repl (fmtOptions (socketsKw fds)) g m = fdText k.fd := by
  unfold repl
  rw [optionKey_socket g k.name hg, fmtOptions_socketsKw]
  have : ((fds.map (fun nv => (sockKey nv.1, fdText nv.2))).reverse).lookup (sockKey k.name) = some (fdText k.fd) := by
    apply lookup_unique
    · obtain ⟨e, he, hn⟩ := hf.2 k hk
      exact ⟨(sockKey e.1, fdText e.2), by simp only [List.mem_reverse]; exact List.mem_map.2 ⟨e, he, rfl⟩,
        by simp [hn]⟩
    · intro e he hkey
      simp only [List.mem_reverse] at he
      obtain ⟨nv, hnv, rfl⟩ := List.mem_map.1 he
      simp only [] at hkey ⊢
      obtain ⟨k', hk', hname, hfd⟩ := hf.1 nv hnv
      have hl : lowerStr k'.name = lowerStr k.name := by rw [hname]; exact sockKey_inj hkey
      have := hci k' hk' k hk hl
      subst this
      rw [hfd hr]
  rw [this]

/-! ### the argument vector -/

theorem formatArgv_list {fds : List (Str × Option Nat)} {cmd : Str} {xs argv : List Str}
    (h : formatArgv fds cmd (.list xs) = .ok argv) :
    ∃ c, split (replaceGnuArgs (socketsKw fds) cmd) = .ok c ∧
      argv = c ++ xs.map (replaceGnuArgs (socketsKw fds)) := by
  unfold formatArgv at h
  simp only [] at h
  cases hs : split (replaceGnuArgs (socketsKw fds) cmd) with
  | error e => simp [hs, bind, Except.bind] at h
  | ok c =>
    simp only [hs, bind, Except.bind, pure, Except.pure, Except.ok.injEq] at h
    exact ⟨c, rfl, h.symm⟩

/-- an argument `pre$(circus.sockets.NAME)post` whose head `pre` contains neither `$` nor `(` -/
theorem replace_ref (kw : List (Str × Val)) (pre o g post : Str) (hpre : ∀ c ∈ pre, c ≠ 36 ∧ c ≠ 40)
    (ho : lowerStr o = open1) (hne : g ≠ []) (hg : g.all isSect = true) :
    replaceGnuArgs kw (pre ++ (o ++ g ++ 41 :: post)) =
      pre ++ (repl (fmtOptions kw) g (o ++ g ++ [41]) ++ replaceGnuArgs kw post) := by
  unfold replaceGnuArgs
  rw [scan_plain_prefix _ _ _ hpre, scan_ref1 _ _ _ _ ho hne hg]

end Circus.Sockets
