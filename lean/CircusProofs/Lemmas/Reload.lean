import CircusModel.Model.Reload
/-!
Lemmas about the Reload model (`Circus.Reload`): association lists, the difference of two comparable
dicts, the three loops of `reload`, and the per-watcher characterisation of one reload
(`reload_mem`, `reload_complete`).
-/
namespace Circus.Reload
open Circus.Config (Str Dict dget)

/-! ### association lists -/

theorem dget_none_iff {α} (d : Dict α) (k : Str) : dget d k = none ↔ k ∉ d.map (·.1) := by
  induction d with
  | nil => simp [dget]
  | cons kv r ih =>
    obtain ⟨k', v⟩ := kv
    by_cases h : k' = k
    · simp [dget, h]
    · simp only [dget, h, if_false, ih, List.map_cons, List.mem_cons]
      constructor
      · intro hr hc; rcases hc with hc | hc
        · exact h hc.symm
        · exact hr hc
      · intro hr hc; exact hr (Or.inr hc)

theorem dget_some_mem {α} (d : Dict α) (k : Str) (v : α) (h : dget d k = some v) : k ∈ d.map (·.1) := by
  apply Classical.byContradiction
  intro hc
  rw [← dget_none_iff] at hc
  rw [hc] at h
  cases h

theorem dget_discard (e : Env) (k : Str) :
    dget (discard e) k = if k ∈ envExceptions then none else dget e k := by
  induction e with
  | nil => simp [discard, dget]
  | cons kv r ih =>
    obtain ⟨k', v⟩ := kv
    unfold discard at ih ⊢
    by_cases hx : k' ∈ envExceptions
    · have : List.filter (fun kv => decide (kv.1 ∉ envExceptions)) ((k', v) :: r)
          = List.filter (fun kv => decide (kv.1 ∉ envExceptions)) r := by
        simp [hx]
      rw [this, ih]
      by_cases hk : k' = k
      · subst hk; simp [hx]
      · simp [dget, hk]
    · have : List.filter (fun kv => decide (kv.1 ∉ envExceptions)) ((k', v) :: r)
          = (k', v) :: List.filter (fun kv => decide (kv.1 ∉ envExceptions)) r := by
        simp [hx]
      rw [this]
      by_cases hk : k' = k
      · subst hk; simp [dget, hx]
      · simp only [dget, hk, if_false]; exact ih

theorem discard_idem (e : Env) : discard (discard e) = discard e := by
  unfold discard
  rw [List.filter_filter]
  congr 1
  funext kv
  simp

theorem dictEq_iff (a b : Env) : dictEq a b = true ↔ ∀ k, dget a k = dget b k := by
  unfold dictEq
  simp only [Bool.and_eq_true, List.all_eq_true, beq_iff_eq]
  constructor
  · rintro ⟨ha, hb⟩ k
    by_cases h1 : k ∈ a.map (·.1)
    · exact ha k h1
    · by_cases h2 : k ∈ b.map (·.1)
      · exact hb k h2
      · rw [(dget_none_iff a k).2 h1, (dget_none_iff b k).2 h2]
  · intro h
    exact ⟨fun k _ => h k, fun k _ => h k⟩

/-- the three sets of `DictDiffer` are empty exactly when the two dicts are equal as maps -/
theorem optsDiff_nil_iff (n o : List (Str × Str)) :
    changedOpts n o ++ addedOpts n o ++ removedOpts n o = [] ↔ ∀ k, dget n k = dget o k := by
  simp only [List.append_eq_nil_iff, changedOpts, addedOpts, removedOpts, List.filter_eq_nil_iff]
  constructor
  · rintro ⟨⟨hc, ha⟩, hr⟩ k
    cases hn : dget n k with
    | none =>
      cases ho : dget o k with
      | none => rfl
      | some v' =>
        exfalso
        have := hr k (dget_some_mem o k v' ho)
        simp [hn] at this
    | some v =>
      have hk := dget_some_mem n k v hn
      cases ho : dget o k with
      | none =>
        exfalso
        have := ha k hk
        simp [ho] at this
      | some v' =>
        have := hc k hk
        simp only [ho, hn] at this
        simpa using this
  · intro h
    refine ⟨⟨?_, ?_⟩, ?_⟩
    · intro k _
      cases ho : dget o k with
      | none => simp
      | some v => simp [h k, ho]
    · intro k hk
      have : dget n k ≠ none := fun hc => (dget_none_iff n k).1 hc hk
      rw [h k] at this
      cases ho : dget o k with
      | none => exact absurd ho this
      | some v => simp
    · intro k hk
      have : dget o k ≠ none := fun hc => (dget_none_iff o k).1 hc hk
      rw [← h k] at this
      cases hn : dget n k with
      | none => exact absurd hn this
      | some v => simp

/-! ### the difference of two comparable dicts -/

/-- what `reload_from_config` compares: the dict with the `_ENV_EXCEPTIONS` names taken out of `env` -/
def prep (c : Cfg) : Cfg := { c with env := discard c.env }

/-- the difference `reload_from_config` computes between the section `c` of the new file and the
    running watcher `w` -/
def diffOf (c : Cfg) (w : W) : Diff := changed (prep c) (prep w.cfg)

/-- equal as dicts: the same keys with the same values -/
def OptsEq (a b : List (Str × Str)) : Prop := ∀ k, dget a k = dget b k

/-- equal as dicts once the `_ENV_EXCEPTIONS` names are disregarded -/
def EnvEq (a b : Env) : Prop := ∀ k, k ∉ envExceptions → dget a k = dget b k

/-- the two dicts specify the same settings apart from `numprocesses` -/
def SameSettings (a b : Cfg) : Prop := a.name = b.name ∧ OptsEq a.opts b.opts ∧ EnvEq a.env b.env

theorem OptsEq.symm {a b} (h : OptsEq a b) : OptsEq b a := fun k => (h k).symm
theorem OptsEq.trans {a b c} (h : OptsEq a b) (h' : OptsEq b c) : OptsEq a c := fun k => (h k).trans (h' k)
theorem EnvEq.symm {a b} (h : EnvEq a b) : EnvEq b a := fun k hk => (h k hk).symm
theorem EnvEq.trans {a b c} (h : EnvEq a b) (h' : EnvEq b c) : EnvEq a c :=
  fun k hk => (h k hk).trans (h' k hk)
theorem SameSettings.refl (a : Cfg) : SameSettings a a := ⟨rfl, fun _ => rfl, fun _ _ => rfl⟩
theorem SameSettings.symm {a b} (h : SameSettings a b) : SameSettings b a :=
  ⟨h.1.symm, h.2.1.symm, h.2.2.symm⟩
theorem SameSettings.trans {a b c} (h : SameSettings a b) (h' : SameSettings b c) : SameSettings a c :=
  ⟨h.1.trans h'.1, h.2.1.trans h'.2.1, h.2.2.trans h'.2.2⟩

theorem envEq_discard (a b : Env) : (∀ k, dget (discard a) k = dget (discard b) k) ↔ EnvEq a b := by
  constructor
  · intro h k hk
    have := h k
    simpa [dget_discard, hk] using this
  · intro h k
    rw [dget_discard, dget_discard]
    by_cases hk : k ∈ envExceptions
    · simp [hk]
    · simp [hk, h k hk]

theorem envEq_discard_left (a : Env) : EnvEq (discard a) a := by
  intro k hk
  simp [dget_discard, hk]

theorem changed_isEmpty_iff (n o : Cfg) :
    (changed n o).isEmpty = true ↔
      n.name = o.name ∧ n.np = o.np ∧ OptsEq n.opts o.opts ∧ (∀ k, dget n.env k = dget o.env k) := by
  unfold Diff.isEmpty changed
  simp only [Bool.and_eq_true, Bool.not_eq_true', decide_eq_false_iff_not, ne_eq, Classical.not_not,
    List.isEmpty_iff, optsDiff_nil_iff, Bool.not_not, dictEq_iff]
  unfold OptsEq
  grind

theorem changed_isNpOnly_iff (n o : Cfg) :
    (changed n o).isNpOnly = true ↔
      n.name = o.name ∧ n.np ≠ o.np ∧ OptsEq n.opts o.opts ∧ (∀ k, dget n.env k = dget o.env k) := by
  unfold Diff.isNpOnly changed
  simp only [Bool.and_eq_true, Bool.not_eq_true', decide_eq_false_iff_not, ne_eq, Classical.not_not,
    List.isEmpty_iff, optsDiff_nil_iff, Bool.not_not, dictEq_iff, decide_eq_true_eq]
  unfold OptsEq
  grind

theorem diffOf_isEmpty_iff (c : Cfg) (w : W) :
    (diffOf c w).isEmpty = true ↔ SameSettings c w.cfg ∧ c.np = w.cfg.np := by
  unfold diffOf
  rw [changed_isEmpty_iff]
  simp only [prep, envEq_discard, SameSettings]
  grind

theorem diffOf_isNpOnly_iff (c : Cfg) (w : W) :
    (diffOf c w).isNpOnly = true ↔ SameSettings c w.cfg ∧ c.np ≠ w.cfg.np := by
  unfold diffOf
  rw [changed_isNpOnly_iff]
  simp only [prep, envEq_discard, SameSettings]
  grind

theorem not_isEmpty_of_isNpOnly (c : Cfg) (w : W) (h : (diffOf c w).isNpOnly = true) :
    (diffOf c w).isEmpty = false := by
  cases he : (diffOf c w).isEmpty with
  | false => rfl
  | true =>
    exact absurd ((diffOf_isEmpty_iff c w).1 he).2 ((diffOf_isNpOnly_iff c w).1 h).2

/-! ### one watcher -/

/-- the watcher the numprocesses-only path leaves -/
def resize (c : Cfg) (w : W) (k : Nat) : W :=
  let r := setNp w c.np k
  { r.1 with cfg := { r.1.cfg with np := c.np } }

/-- a watcher made from the section `c` and started, fresh pids from `k` on -/
def fresh (c : Cfg) (k : Nat) : W := (startW (mkWatcher c) k).1

theorem changedStep_eq (c : Cfg) (w : W) (k : Nat) :
    changedStep c w k =
      if (diffOf c w).isNpOnly then (resize c w k, false, (setNp w c.np k).2)
      else (w, !(diffOf c w).isEmpty, k) := rfl

theorem manage_name (w : W) (k : Nat) : (manage w k).1.name = w.name := by
  unfold manage
  split
  · rfl
  · dsimp only
    split <;> split <;> (try split) <;> (try split) <;> rfl

theorem manage_cfg (w : W) (k : Nat) : (manage w k).1.cfg = w.cfg := by
  unfold manage
  split
  · rfl
  · dsimp only
    split <;> split <;> (try split) <;> (try split) <;> rfl

theorem manage_np (w : W) (k : Nat) : (manage w k).1.np = w.np := by
  unfold manage
  split
  · rfl
  · dsimp only
    split <;> split <;> (try split) <;> (try split) <;> rfl

theorem manage_next (w : W) (k : Nat) : k ≤ (manage w k).2 := by
  unfold manage
  split
  · exact Nat.le_refl _
  · dsimp only
    split <;> split <;> (try split) <;> (try split) <;> simp

theorem resize_name (c : Cfg) (w : W) (k : Nat) : (resize c w k).name = w.name := by
  simp [resize, setNp, manage_name]

theorem startW_name (w : W) (k : Nat) : (startW w k).1.name = w.name := by
  unfold startW
  split
  · rfl
  · dsimp only; split <;> rfl

theorem startW_cfg (w : W) (k : Nat) : (startW w k).1.cfg = w.cfg := by
  unfold startW
  split
  · rfl
  · dsimp only; split <;> rfl

theorem startW_np (w : W) (k : Nat) : (startW w k).1.np = w.np := by
  unfold startW
  split
  · rfl
  · dsimp only; split <;> rfl

theorem startW_next (w : W) (k : Nat) : k ≤ (startW w k).2 := by
  unfold startW
  split
  · exact Nat.le_refl _
  · dsimp only; split <;> simp

theorem fresh_name (c : Cfg) (k : Nat) : (fresh c k).name = c.name := by
  simp [fresh, startW_name, mkWatcher]

theorem fresh_cfg (c : Cfg) (k : Nat) : (fresh c k).cfg = c := by
  simp [fresh, startW_cfg, mkWatcher]

theorem fresh_np (c : Cfg) (k : Nat) : (fresh c k).np = c.np.toNat := by
  simp [fresh, startW_np, mkWatcher]

/-! ### the loop over the watchers that stay (`for n in maybechanged_wn`) -/

/-- the section a watcher of `maybechanged_wn` is compared with -/
def hit (new : List Cfg) (maybe : List Str) (w : W) : Option Cfg :=
  if w.name ∈ maybe then getWatcherConfig new w.name else none

/-- what the loop makes of one watcher, fresh pids from `k` on -/
def stepW (new : List Cfg) (maybe : List Str) (w : W) (k : Nat) : W :=
  match hit new maybe w with
  | some c => (changedStep c w k).1
  | none => w

/-- whether the loop puts the watcher into `changed_wn` -/
def stepFlag (new : List Cfg) (maybe : List Str) (w : W) : Bool :=
  match hit new maybe w with
  | some c => !(diffOf c w).isNpOnly && !(diffOf c w).isEmpty
  | none => false

def stepNext (new : List Cfg) (maybe : List Str) (w : W) (k : Nat) : Nat :=
  match hit new maybe w with
  | some c => (changedStep c w k).2.2
  | none => k

theorem changedStep_flag (c : Cfg) (w : W) (k : Nat) :
    (changedStep c w k).2.1 = (!(diffOf c w).isNpOnly && !(diffOf c w).isEmpty) := by
  rw [changedStep_eq]
  cases h : (diffOf c w).isNpOnly <;> simp

theorem changedLoop_cons (new : List Cfg) (maybe : List Str) (w : W) (r : List W) (nx : Nat) :
    changedLoop new maybe (w :: r) nx =
      (stepW new maybe w nx :: (changedLoop new maybe r (stepNext new maybe w nx)).1,
       if stepFlag new maybe w then w.name :: (changedLoop new maybe r (stepNext new maybe w nx)).2.1
       else (changedLoop new maybe r (stepNext new maybe w nx)).2.1,
       (changedLoop new maybe r (stepNext new maybe w nx)).2.2) := by
  unfold stepW stepFlag stepNext hit
  by_cases hm : w.name ∈ maybe
  · cases hc : getWatcherConfig new w.name with
    | none => simp [changedLoop, hm, hc]
    | some c => simp [changedLoop, hm, hc, changedStep_flag]
  · simp [changedLoop, hm]

theorem changedStep_name (c : Cfg) (w : W) (k : Nat) : (changedStep c w k).1.name = w.name := by
  rw [changedStep_eq]
  split
  · exact resize_name c w k
  · rfl

theorem changedStep_next (c : Cfg) (w : W) (k : Nat) : k ≤ (changedStep c w k).2.2 := by
  rw [changedStep_eq]
  split
  · exact manage_next _ k
  · exact Nat.le_refl _

theorem stepW_name (new : List Cfg) (maybe : List Str) (w : W) (k : Nat) :
    (stepW new maybe w k).name = w.name := by
  unfold stepW
  split
  · exact changedStep_name _ w k
  · rfl

theorem stepNext_le (new : List Cfg) (maybe : List Str) (w : W) (k : Nat) :
    k ≤ stepNext new maybe w k := by
  unfold stepNext
  split
  · exact changedStep_next _ w k
  · exact Nat.le_refl _

theorem changedLoop_names (new : List Cfg) (maybe : List Str) (ws : List W) (nx : Nat) :
    (changedLoop new maybe ws nx).1.map (·.name) = ws.map (·.name) := by
  induction ws generalizing nx with
  | nil => rfl
  | cons w r ih => rw [changedLoop_cons]; simp [stepW_name, ih]

theorem changedLoop_changed (new : List Cfg) (maybe : List Str) (ws : List W) (nx : Nat) :
    (changedLoop new maybe ws nx).2.1 = (ws.filter (stepFlag new maybe)).map (·.name) := by
  induction ws generalizing nx with
  | nil => rfl
  | cons w r ih =>
    rw [changedLoop_cons]
    cases hf : stepFlag new maybe w <;> simp [hf, ih]

theorem changedLoop_next (new : List Cfg) (maybe : List Str) (ws : List W) (nx : Nat) :
    nx ≤ (changedLoop new maybe ws nx).2.2 := by
  induction ws generalizing nx with
  | nil => exact Nat.le_refl _
  | cons w r ih =>
    rw [changedLoop_cons]
    exact Nat.le_trans (stepNext_le new maybe w nx) (ih _)

/-- every watcher the loop leaves is what `stepW` makes of a watcher of the old list -/
theorem changedLoop_mem (new : List Cfg) (maybe : List Str) (ws : List W) (nx : Nat) (w' : W)
    (h : w' ∈ (changedLoop new maybe ws nx).1) :
    ∃ w ∈ ws, ∃ k, nx ≤ k ∧ w' = stepW new maybe w k := by
  induction ws generalizing nx with
  | nil => simp [changedLoop] at h
  | cons w r ih =>
    rw [changedLoop_cons] at h
    simp only [List.mem_cons] at h
    rcases h with h | h
    · exact ⟨w, List.mem_cons_self, nx, Nat.le_refl _, h⟩
    · obtain ⟨w0, hw0, k, hk, he⟩ := ih _ h
      exact ⟨w0, List.mem_cons_of_mem _ hw0, k, Nat.le_trans (stepNext_le new maybe w nx) hk, he⟩

/-- every watcher of the old list is still there, as `stepW` leaves it -/
theorem changedLoop_mem_of (new : List Cfg) (maybe : List Str) (ws : List W) (nx : Nat) (w : W)
    (h : w ∈ ws) : ∃ k, nx ≤ k ∧ stepW new maybe w k ∈ (changedLoop new maybe ws nx).1 := by
  induction ws generalizing nx with
  | nil => cases h
  | cons w0 r ih =>
    rw [changedLoop_cons]
    rcases List.mem_cons.1 h with h | h
    · subst h; exact ⟨nx, Nat.le_refl _, List.mem_cons_self⟩
    · obtain ⟨k, hk, hm⟩ := ih _ h
      exact ⟨k, Nat.le_trans (stepNext_le new maybe w0 nx) hk, List.mem_cons_of_mem _ hm⟩

/-! ### the loop over the sections to add (`for n in added_wn`) -/

theorem addLoop_names (cs : List Cfg) (nx : Nat) :
    (addLoop cs nx).1.map (·.name) = cs.map (·.name) := by
  induction cs generalizing nx with
  | nil => rfl
  | cons c r ih =>
    simp only [addLoop, List.map_cons, ih]
    rw [startW_name]; rfl

theorem addLoop_next (cs : List Cfg) (nx : Nat) : nx ≤ (addLoop cs nx).2 := by
  induction cs generalizing nx with
  | nil => exact Nat.le_refl _
  | cons c r ih =>
    simp only [addLoop]
    exact Nat.le_trans (startW_next _ nx) (ih _)

theorem addLoop_mem (cs : List Cfg) (nx : Nat) (w' : W) (h : w' ∈ (addLoop cs nx).1) :
    ∃ c ∈ cs, ∃ k, nx ≤ k ∧ w' = fresh c k := by
  induction cs generalizing nx with
  | nil => simp [addLoop] at h
  | cons c r ih =>
    simp only [addLoop, List.mem_cons] at h
    rcases h with h | h
    · exact ⟨c, List.mem_cons_self, nx, Nat.le_refl _, h⟩
    · obtain ⟨c0, hc0, k, hk, he⟩ := ih _ h
      exact ⟨c0, List.mem_cons_of_mem _ hc0, k, Nat.le_trans (startW_next _ nx) hk, he⟩

theorem addLoop_mem_of (cs : List Cfg) (nx : Nat) (c : Cfg) (h : c ∈ cs) :
    ∃ k, nx ≤ k ∧ fresh c k ∈ (addLoop cs nx).1 := by
  induction cs generalizing nx with
  | nil => cases h
  | cons c0 r ih =>
    simp only [addLoop]
    rcases List.mem_cons.1 h with h | h
    · subst h; exact ⟨nx, Nat.le_refl _, List.mem_cons_self⟩
    · obtain ⟨k, hk, hm⟩ := ih _ h
      exact ⟨k, Nat.le_trans (startW_next _ nx) hk, List.mem_cons_of_mem _ hm⟩

/-! ### one reload, watcher by watcher -/

theorem eq_of_nodup_map {α β} (f : α → β) (l : List α) (h : (l.map f).Nodup) (a b : α)
    (ha : a ∈ l) (hb : b ∈ l) (hf : f a = f b) : a = b := by
  induction l with
  | nil => cases ha
  | cons x r ih =>
    simp only [List.map_cons, List.nodup_cons, List.mem_map, not_exists, not_and] at h
    rcases List.mem_cons.1 ha with ha' | ha'
    · rcases List.mem_cons.1 hb with hb' | hb'
      · rw [ha', hb']
      · subst ha'; exact absurd hf.symm (h.1 b hb')
    · rcases List.mem_cons.1 hb with hb' | hb'
      · subst hb'; exact absurd hf (h.1 a ha')
      · exact ih h.2 ha' hb' 

theorem getWatcherConfig_some (new : List Cfg) (n : Str) (c : Cfg) (h : getWatcherConfig new n = some c) :
    c ∈ new ∧ c.name = n := by
  unfold getWatcherConfig at h
  exact ⟨List.mem_of_find?_eq_some h, by simpa using List.find?_some h⟩

theorem getWatcherConfig_of_mem (new : List Cfg) (hn : (new.map (·.name)).Nodup) (c : Cfg) (hc : c ∈ new) :
    getWatcherConfig new c.name = some c := by
  cases h : getWatcherConfig new c.name with
  | none =>
    unfold getWatcherConfig at h
    rw [List.find?_eq_none] at h
    have := h c hc
    simp at this
  | some c' =>
    obtain ⟨h1, h2⟩ := getWatcherConfig_some new c.name c' h
    rw [eq_of_nodup_map (·.name) new hn c' c h1 hc h2]

/-- `maybechanged_wn` -/
def maybeOf (st : State) (new : List Cfg) : List Str :=
  (st.ws.map (·.name)).filter (fun n => decide (n ∉
    (st.ws.map (·.name)).filter (fun n => decide (n ∉ new.map (·.name)))))

theorem mem_maybeOf (st : State) (new : List Cfg) (n : Str) :
    n ∈ maybeOf st new ↔ n ∈ st.ws.map (·.name) ∧ n ∈ new.map (·.name) := by
  unfold maybeOf
  simp only [List.mem_filter, decide_eq_true_eq, not_and, Classical.not_not]
  constructor
  · rintro ⟨h1, h2⟩; exact ⟨h1, h2 h1⟩
  · rintro ⟨h1, h2⟩; exact ⟨h1, fun _ => h2⟩

theorem hit_of_mem (st : State) (new : List Cfg) (hn : (new.map (·.name)).Nodup) (w : W) (hw : w ∈ st.ws)
    (c : Cfg) (hc : c ∈ new) (he : w.name = c.name) : hit new (maybeOf st new) w = some c := by
  unfold hit
  have : w.name ∈ maybeOf st new := by
    rw [mem_maybeOf]
    exact ⟨List.mem_map.2 ⟨w, hw, rfl⟩, List.mem_map.2 ⟨c, hc, he.symm⟩⟩
  rw [if_pos this, he]
  exact getWatcherConfig_of_mem new hn c hc

theorem hit_some (new : List Cfg) (maybe : List Str) (w : W) (c : Cfg) (h : hit new maybe w = some c) :
    c ∈ new ∧ c.name = w.name := by
  unfold hit at h
  split at h
  · exact getWatcherConfig_some new w.name c h
  · cases h

/-- `changed_wn` -/
def changedOf (st : State) (new : List Cfg) : List Str :=
  (changedLoop new (maybeOf st new) st.ws st.next).2.1

theorem reload_ws (st : State) (new : List Cfg) :
    (reload st new).ws =
      (changedLoop new (maybeOf st new) st.ws st.next).1.filter (fun w => decide (w.name ∉
        (st.ws.map (·.name)).filter (fun n => decide (n ∉ new.map (·.name))) ++ changedOf st new))
      ++ (addLoop (new.filter (fun c => decide (c.name ∈
        (new.map (·.name)).filter (fun n => decide (n ∉ st.ws.map (·.name))) ++ changedOf st new)))
          (changedLoop new (maybeOf st new) st.ws st.next).2.2).1 := rfl

theorem reload_next (st : State) (new : List Cfg) :
    (reload st new).next =
      (addLoop (new.filter (fun c => decide (c.name ∈
        (new.map (·.name)).filter (fun n => decide (n ∉ st.ws.map (·.name))) ++ changedOf st new)))
          (changedLoop new (maybeOf st new) st.ws st.next).2.2).2 := rfl

theorem next_le_reload (st : State) (new : List Cfg) : st.next ≤ (reload st new).next := by
  rw [reload_next]
  exact Nat.le_trans (changedLoop_next _ _ _ _) (addLoop_next _ _)

theorem mem_changedOf (st : State) (new : List Cfg) (n : Str) :
    n ∈ changedOf st new ↔ ∃ w ∈ st.ws, stepFlag new (maybeOf st new) w = true ∧ w.name = n := by
  unfold changedOf
  rw [changedLoop_changed]
  simp only [List.mem_map, List.mem_filter]
  constructor
  · rintro ⟨w, ⟨h1, h2⟩, h3⟩; exact ⟨w, h1, h2, h3⟩
  · rintro ⟨w, h1, h2, h3⟩; exact ⟨w, ⟨h1, h2⟩, h3⟩

/-- what one reload makes of the section `c` of the new file: the watcher `w'` that runs it afterwards -/
def Outcome (st : State) (c : Cfg) (w' : W) : Prop :=
  ((∀ w ∈ st.ws, w.name ≠ c.name) ∧ ∃ k, st.next ≤ k ∧ w' = fresh c k) ∨
  ∃ w ∈ st.ws, w.name = c.name ∧
    (((diffOf c w).isEmpty = true ∧ w' = w) ∨
     ((diffOf c w).isNpOnly = true ∧ ∃ k, st.next ≤ k ∧ w' = resize c w k) ∨
     ((diffOf c w).isEmpty = false ∧ (diffOf c w).isNpOnly = false ∧ ∃ k, st.next ≤ k ∧ w' = fresh c k))

theorem Outcome.name {st : State} {c : Cfg} {w' : W} (h : Outcome st c w') : w'.name = c.name := by
  rcases h with ⟨_, k, _, rfl⟩ | ⟨w, _, hn, h | h | h⟩
  · exact fresh_name c k
  · rw [h.2]; exact hn
  · obtain ⟨_, k, _, rfl⟩ := h; rw [resize_name]; exact hn
  · obtain ⟨_, _, k, _, rfl⟩ := h; exact fresh_name c k

/-- every watcher after a reload runs a section of the new file, in one of the four ways of `Outcome` -/
theorem reload_mem (st : State) (new : List Cfg) (hn : (new.map (·.name)).Nodup) (w' : W) (h : w' ∈ (reload st new).ws) :
    ∃ c ∈ new, Outcome st c w' := by
  rw [reload_ws, List.mem_append] at h
  rcases h with h | h
  · -- a watcher that stayed
    rw [List.mem_filter] at h
    obtain ⟨h1, h2⟩ := h
    obtain ⟨w, hw, k, hk, rfl⟩ := changedLoop_mem _ _ _ _ _ h1
    rw [stepW_name] at h2
    simp only [decide_eq_true_eq, List.mem_append, List.mem_filter, not_or, not_and,
      Classical.not_not] at h2
    obtain ⟨h2, h3⟩ := h2
    have hin := h2 (List.mem_map.2 ⟨w, hw, rfl⟩)
    obtain ⟨c, hc, hcn⟩ := List.mem_map.1 hin
    have hhit := hit_of_mem st new hn w hw c hc hcn.symm
    have hflag : stepFlag new (maybeOf st new) w = false := by
      cases hf : stepFlag new (maybeOf st new) w with
      | false => rfl
      | true => exact absurd ((mem_changedOf st new w.name).2 ⟨w, hw, hf, rfl⟩) h3
    refine ⟨c, hc, Or.inr ⟨w, hw, hcn.symm, ?_⟩⟩
    unfold stepFlag at hflag
    rw [hhit] at hflag
    unfold stepW
    rw [hhit]
    simp only [changedStep_eq]
    cases hnp : (diffOf c w).isNpOnly with
    | true => exact Or.inr (Or.inl ⟨rfl, k, hk, by simp⟩)
    | false =>
      simp only [hnp, Bool.not_false, Bool.true_and, Bool.not_eq_eq_eq_not, Bool.not_false] at hflag
      exact Or.inl ⟨hflag, by simp⟩
  · -- a watcher that was added
    obtain ⟨c, hc, k, hk, rfl⟩ := addLoop_mem _ _ _ h
    rw [List.mem_filter] at hc
    obtain ⟨hc, hc2⟩ := hc
    have hk' : st.next ≤ k := Nat.le_trans (changedLoop_next _ _ _ _) hk
    simp only [decide_eq_true_eq, List.mem_append, List.mem_filter] at hc2
    refine ⟨c, hc, ?_⟩
    rcases hc2 with hc2 | hc2
    · left
      refine ⟨?_, k, hk', rfl⟩
      intro w hw he
      exact hc2.2 (List.mem_map.2 ⟨w, hw, he⟩)
    · right
      obtain ⟨w, hw, hf, he⟩ := (mem_changedOf st new c.name).1 hc2
      have hhit := hit_of_mem st new hn w hw c hc he
      unfold stepFlag at hf
      rw [hhit] at hf
      simp only [Bool.and_eq_true, Bool.not_eq_true'] at hf
      exact ⟨w, hw, he, Or.inr (Or.inr ⟨hf.2, hf.1, k, hk', rfl⟩)⟩

/-- every section of the new file is run by a watcher after the reload -/
theorem reload_complete (st : State) (new : List Cfg) (hs : (st.ws.map (·.name)).Nodup)
    (hn : (new.map (·.name)).Nodup) (c : Cfg) (hc : c ∈ new) :
    ∃ w' ∈ (reload st new).ws, w'.name = c.name := by
  rw [reload_ws]
  by_cases hcur : c.name ∈ st.ws.map (·.name)
  · obtain ⟨w, hw, he⟩ := List.mem_map.1 hcur
    have hhit := hit_of_mem st new hn w hw c hc he
    cases hf : stepFlag new (maybeOf st new) w with
    | true =>
      have hch : c.name ∈ changedOf st new := (mem_changedOf st new c.name).2 ⟨w, hw, hf, he⟩
      have : c ∈ new.filter (fun c => decide (c.name ∈
          (new.map (·.name)).filter (fun n => decide (n ∉ st.ws.map (·.name))) ++ changedOf st new)) := by
        rw [List.mem_filter]
        exact ⟨hc, by simp [hch]⟩
      obtain ⟨k, _, hm⟩ := addLoop_mem_of _ (changedLoop new (maybeOf st new) st.ws st.next).2.2 c this
      exact ⟨fresh c k, List.mem_append_right _ hm, fresh_name c k⟩
    | false =>
      obtain ⟨k, _, hm⟩ := changedLoop_mem_of new (maybeOf st new) st.ws st.next w hw
      refine ⟨stepW new (maybeOf st new) w k, List.mem_append_left _ ?_, by rw [stepW_name, he]⟩
      rw [List.mem_filter]
      refine ⟨hm, ?_⟩
      rw [stepW_name]
      simp only [decide_eq_true_eq, List.mem_append, List.mem_filter, not_or, not_and,
        Classical.not_not]
      refine ⟨fun _ => List.mem_map.2 ⟨c, hc, he.symm⟩, ?_⟩
      intro hch
      obtain ⟨w2, hw2, hf2, he2⟩ := (mem_changedOf st new w.name).1 hch
      have := eq_of_nodup_map (·.name) st.ws hs w2 w hw2 hw he2
      subst this
      rw [hf] at hf2
      cases hf2
  · have : c ∈ new.filter (fun c => decide (c.name ∈
        (new.map (·.name)).filter (fun n => decide (n ∉ st.ws.map (·.name))) ++ changedOf st new)) := by
      rw [List.mem_filter]
      refine ⟨hc, ?_⟩
      simp only [decide_eq_true_eq, List.mem_append, List.mem_filter]
      exact Or.inl ⟨List.mem_map.2 ⟨c, hc, rfl⟩, hcur⟩
    obtain ⟨k, _, hm⟩ := addLoop_mem_of _ (changedLoop new (maybeOf st new) st.ws st.next).2.2 c this
    exact ⟨fresh c k, List.mem_append_right _ hm, fresh_name c k⟩

/-! ### the watcher set after a reload -/

theorem reload_names_mem (st : State) (new : List Cfg) (hs : (st.ws.map (·.name)).Nodup)
    (hn : (new.map (·.name)).Nodup) (n : Str) :
    n ∈ (reload st new).ws.map (·.name) ↔ n ∈ new.map (·.name) := by
  constructor
  · intro h
    obtain ⟨w', hw', rfl⟩ := List.mem_map.1 h
    obtain ⟨c, hc, ho⟩ := reload_mem st new hn w' hw'
    exact List.mem_map.2 ⟨c, hc, ho.name.symm⟩
  · intro h
    obtain ⟨c, hc, rfl⟩ := List.mem_map.1 h
    obtain ⟨w', hw', he⟩ := reload_complete st new hs hn c hc
    exact List.mem_map.2 ⟨w', hw', he⟩

theorem map_name_filter_W (L : List Str) (l : List W) :
    (l.filter (fun w => decide (w.name ∉ L))).map (·.name)
      = (l.map (·.name)).filter (fun n => decide (n ∉ L)) := by
  induction l with
  | nil => rfl
  | cons w r ih =>
    simp only [List.filter_cons, List.map_cons]
    split <;> simp_all

theorem map_name_filter_C (L : List Str) (l : List Cfg) :
    (l.filter (fun c => decide (c.name ∈ L))).map (·.name)
      = (l.map (·.name)).filter (fun n => decide (n ∈ L)) := by
  induction l with
  | nil => rfl
  | cons w r ih =>
    simp only [List.filter_cons, List.map_cons]
    split <;> simp [ih]

theorem reload_names (st : State) (new : List Cfg) :
    (reload st new).ws.map (·.name) =
      (st.ws.map (·.name)).filter (fun n => decide (n ∉
        (st.ws.map (·.name)).filter (fun n => decide (n ∉ new.map (·.name))) ++ changedOf st new))
      ++ (new.map (·.name)).filter (fun n => decide (n ∈
        (new.map (·.name)).filter (fun n => decide (n ∉ st.ws.map (·.name))) ++ changedOf st new)) := by
  rw [reload_ws, List.map_append, addLoop_names, map_name_filter_W, map_name_filter_C, changedLoop_names]

theorem reload_names_nodup (st : State) (new : List Cfg) (hs : (st.ws.map (·.name)).Nodup)
    (hn : (new.map (·.name)).Nodup) : ((reload st new).ws.map (·.name)).Nodup := by
  rw [reload_names, List.nodup_append]
  refine ⟨hs.sublist List.filter_sublist, hn.sublist List.filter_sublist, ?_⟩
  intro a ha b hb hab
  subst hab
  simp only [List.mem_filter, decide_eq_true_eq, List.mem_append, not_or] at ha hb
  rcases hb.2 with hb2 | hb2
  · exact hb2.2 ha.1
  · exact ha.2.2 hb2

/-! ### workers -/

theorem manage_spec (w : W) (k : Nat) :
    manage w k =
      if w.active = false then (w, k)
      else if w.pids.length < w.np then
        if w.respawn = true then
          ({ w with pids := w.pids ++ List.range' k (w.np - w.pids.length) }, k + (w.np - w.pids.length))
        else if w.pids.length = 0 then ({ w with active := false }, k) else (w, k)
      else if w.np < w.pids.length then ({ w with pids := w.pids.drop (w.pids.length - w.np) }, k)
      else (w, k) := by
  unfold manage
  by_cases ha : w.active = false
  · simp [ha]
  · have ha' : w.active = true := by cases h : w.active <;> simp_all
    rw [if_neg ha]
    simp only [ha', Bool.not_true, Bool.false_eq_true, if_false]
    by_cases h1 : w.pids.length < w.np
    · simp only [h1, if_true]
      by_cases hr : w.respawn = true
      · simp only [hr, if_true, List.length_append, List.length_range']
        rw [if_neg (by omega)]
      · have hr' : w.respawn = false := by cases h : w.respawn <;> simp_all
        simp only [hr', Bool.false_eq_true, if_false]
        by_cases h0 : w.pids.length = 0
        · simp only [h0, if_true]
          rw [if_neg (by simp)]
        · simp only [h0, if_false]
          rw [if_neg (by omega)]
    · simp only [h1, if_false]
      by_cases h2 : w.np < w.pids.length
      · rw [if_pos h2, if_pos (by omega), ha']
      · rw [if_neg h2, if_neg (by omega)]

theorem resize_cfg (c : Cfg) (w : W) (k : Nat) : (resize c w k).cfg = { w.cfg with np := c.np } := by
  simp [resize, setNp, manage_cfg]

theorem resize_np (c : Cfg) (w : W) (k : Nat) : (resize c w k).np = c.np.toNat := by
  simp [resize, setNp, manage_np]

/-- the workers after a numprocesses-only change, case by case -/
theorem resize_pids (c : Cfg) (w : W) (k : Nat) :
    (resize c w k).pids =
      if w.active = false then w.pids
      else if w.pids.length < c.np.toNat then
        if w.respawn = true then w.pids ++ List.range' k (c.np.toNat - w.pids.length) else w.pids
      else w.pids.drop (w.pids.length - c.np.toNat) := by
  unfold resize setNp
  simp only [manage_spec]
  have hr : W.respawn { w with np := c.np.toNat } = w.respawn := rfl
  simp only [hr]
  cases ha : w.active with
  | false => simp
  | true =>
    by_cases h1 : w.pids.length < c.np.toNat
    · cases hrr : w.respawn with
      | true => simp [h1]
      | false =>
        simp only [h1, if_true, Bool.true_eq_false, Bool.false_eq_true, if_false]
        split <;> rfl
    · by_cases h2 : c.np.toNat < w.pids.length
      · simp [h1, h2]
      · have : w.pids.length - c.np.toNat = 0 := by omega
        simp [h1, h2, this]

theorem resize_active (c : Cfg) (w : W) (k : Nat) (hr : w.respawn = true) :
    (resize c w k).active = w.active := by
  unfold resize setNp
  simp only [manage_spec]
  have hr' : W.respawn { w with np := c.np.toNat } = true := hr
  simp only [hr', if_true]
  cases ha : w.active with
  | false => simp
  | true =>
    simp only [Bool.true_eq_false, if_false]
    split
    · rfl
    · split <;> rfl

theorem fresh_pids (c : Cfg) (k : Nat) :
    (fresh c k).pids = if flag c (cp! "autostart") = true then List.range' k c.np.toNat else [] := by
  unfold fresh startW mkWatcher W.autostart
  by_cases ha : flag c (cp! "autostart") = true
  · simp only [ha, Bool.not_true, Bool.false_eq_true, if_false, if_true, List.length_nil, Nat.sub_zero,
      List.nil_append, List.range'_eq_nil_iff]
    split
    · rename_i h; simp [h]
    · rfl
  · simp [ha]

theorem fresh_active (c : Cfg) (k : Nat) :
    (fresh c k).active = (flag c (cp! "autostart") && decide (c.np.toNat ≠ 0)) := by
  unfold fresh startW mkWatcher W.autostart
  by_cases ha : flag c (cp! "autostart") = true
  · simp only [ha, Bool.not_true, Bool.false_eq_true, if_false, List.length_nil, Nat.sub_zero,
      List.nil_append, List.range'_eq_nil_iff]
    split
    · rename_i h; simp [h]
    · rename_i h; simp [h]
  · simp [ha]

theorem fresh_pids_ge (c : Cfg) (k : Nat) (p : Nat) (hp : p ∈ (fresh c k).pids) : k ≤ p := by
  rw [fresh_pids] at hp
  split at hp
  · exact (List.mem_range'_1.1 hp).1
  · cases hp

theorem resize_pids_old_or_fresh (c : Cfg) (w : W) (k : Nat) (p : Nat) (hp : p ∈ (resize c w k).pids) :
    p ∈ w.pids ∨ k ≤ p := by
  rw [resize_pids] at hp
  split at hp
  · exact Or.inl hp
  · split at hp
    · split at hp
      · rcases List.mem_append.1 hp with h | h
        · exact Or.inl h
        · exact Or.inr (List.mem_range'_1.1 h).1
      · exact Or.inl hp
    · exact Or.inl (List.mem_of_mem_drop hp)

/-! ### settled states: a second reload finds nothing to do -/

/-- every watcher of the daemon compares equal (`diff` empty) with the section of `v` of its name -/
def Settled (st : State) (v : List Cfg) : Prop :=
  ∀ w ∈ st.ws, ∀ c ∈ v, w.name = c.name → (diffOf c w).isEmpty = true

theorem diffOf_fresh (c : Cfg) (k : Nat) : (diffOf c (fresh c k)).isEmpty = true := by
  rw [diffOf_isEmpty_iff, fresh_cfg]
  exact ⟨SameSettings.refl c, rfl⟩

theorem diffOf_resize (c : Cfg) (w : W) (k : Nat) (h : (diffOf c w).isNpOnly = true) :
    (diffOf c (resize c w k)).isEmpty = true := by
  rw [diffOf_isEmpty_iff, resize_cfg]
  exact ⟨((diffOf_isNpOnly_iff c w).1 h).1, rfl⟩

theorem reload_settled (st : State) (new : List Cfg) (hn : (new.map (·.name)).Nodup) :
    Settled (reload st new) new := by
  intro w' hw' c hc he
  obtain ⟨c0, hc0, ho⟩ := reload_mem st new hn w' hw'
  have : c0 = c := eq_of_nodup_map (·.name) new hn c0 c hc0 hc (ho.name.symm.trans he)
  subst this
  rcases ho with ⟨_, k, _, rfl⟩ | ⟨w, _, _, h | h | h⟩
  · exact diffOf_fresh c0 k
  · rw [h.2]; exact h.1
  · obtain ⟨h1, k, _, rfl⟩ := h; exact diffOf_resize c0 w k h1
  · obtain ⟨_, _, k, _, rfl⟩ := h; exact diffOf_fresh c0 k

theorem changedStep_of_isEmpty (c : Cfg) (w : W) (k : Nat) (h : (diffOf c w).isEmpty = true) :
    changedStep c w k = (w, false, k) := by
  rw [changedStep_eq]
  have : (diffOf c w).isNpOnly = false := by
    cases hn : (diffOf c w).isNpOnly with
    | false => rfl
    | true => rw [not_isEmpty_of_isNpOnly c w hn] at h; cases h
  simp [this, h]

theorem changedLoop_id (new : List Cfg) (maybe : List Str) (ws : List W) (nx : Nat)
    (h : ∀ w ∈ ws, ∀ c, hit new maybe w = some c → (diffOf c w).isEmpty = true) :
    changedLoop new maybe ws nx = (ws, [], nx) := by
  induction ws generalizing nx with
  | nil => rfl
  | cons w r ih =>
    have hw : stepW new maybe w nx = w ∧ stepFlag new maybe w = false ∧ stepNext new maybe w nx = nx := by
      unfold stepW stepFlag stepNext
      cases hh : hit new maybe w with
      | none => simp
      | some c =>
        have := h w List.mem_cons_self c hh
        simp [changedStep_of_isEmpty c w nx this, this]
    rw [changedLoop_cons, hw.1, hw.2.1, hw.2.2, ih nx (fun w' hw' => h w' (List.mem_cons_of_mem _ hw'))]
    simp

theorem state_ext (a b : State) (h1 : a.ws = b.ws) (h2 : a.next = b.next) : a = b := by
  cases a; cases b; simp_all

/-- a daemon that is settled on `v` and runs exactly the watchers of `v` is left untouched by a
    reload of `v`: no watcher, no worker, no stored dict changes -/
theorem reload_of_settled (st : State) (v : List Cfg) (hs : Settled st v)
    (hnames : ∀ n, n ∈ st.ws.map (·.name) ↔ n ∈ v.map (·.name)) : reload st v = st := by
  have hloop : changedLoop v (maybeOf st v) st.ws st.next = (st.ws, [], st.next) := by
    apply changedLoop_id
    intro w hw c hh
    obtain ⟨hc, hn⟩ := hit_some v (maybeOf st v) w c hh
    exact hs w hw c hc hn.symm
  have hch : changedOf st v = [] := by unfold changedOf; rw [hloop]
  have hdel : (st.ws.map (·.name)).filter (fun n => decide (n ∉ v.map (·.name))) = [] := by
    rw [List.filter_eq_nil_iff]; intro n hn; simp [(hnames n).1 hn]
  have hadd : (v.map (·.name)).filter (fun n => decide (n ∉ st.ws.map (·.name))) = [] := by
    rw [List.filter_eq_nil_iff]; intro n hn; simp [(hnames n).2 hn]
  have ht : ∀ (l : List W), l.filter (fun _ => true) = l := by intro l; induction l <;> simp_all
  have hf : ∀ (l : List Cfg), l.filter (fun _ => false) = [] := by intro l; induction l <;> simp_all
  apply state_ext
  · rw [reload_ws, hch, hdel, hadd, hloop]; simp [ht, hf, addLoop]
  · rw [reload_next, hch, hadd, hloop]; simp [hf, addLoop]

/-! ### the invariant of the daemon state -/

structure Inv (st : State) : Prop where
  /-- watcher names are pairwise distinct -/
  names : (st.ws.map (·.name)).Nodup
  /-- `w.numprocesses` is what the stored dict says, the stored dict carries the watcher's name -/
  sync : ∀ w ∈ st.ws, w.np = w.cfg.np.toNat ∧ w.cfg.name = w.name

theorem Inv.reload {st : State} (hi : Inv st) (new : List Cfg) (hn : (new.map (·.name)).Nodup) :
    Inv (reload st new) := by
  refine ⟨reload_names_nodup st new hi.names hn, ?_⟩
  intro w' hw'
  obtain ⟨c, _, ho⟩ := reload_mem st new hn w' hw'
  rcases ho with ⟨_, k, _, rfl⟩ | ⟨w, hw, hwn, h | h | h⟩
  · exact ⟨by rw [fresh_np, fresh_cfg], by rw [fresh_cfg, fresh_name]⟩
  · rw [h.2]; exact hi.sync w hw
  · obtain ⟨_, k, _, rfl⟩ := h
    refine ⟨by rw [resize_np, resize_cfg], ?_⟩
    rw [resize_cfg, resize_name]; exact (hi.sync w hw).2
  · obtain ⟨_, _, k, _, rfl⟩ := h
    exact ⟨by rw [fresh_np, fresh_cfg], by rw [fresh_cfg, fresh_name]⟩

theorem Inv.freshStart (v : List Cfg) (nx : Nat) (hn : (v.map (·.name)).Nodup) : Inv (freshStart v nx) := by
  refine ⟨by show ((addLoop v nx).1.map (·.name)).Nodup; rw [addLoop_names]; exact hn, ?_⟩
  intro w' hw'
  obtain ⟨c, _, k, _, rfl⟩ := addLoop_mem v nx w' hw'
  exact ⟨by rw [fresh_np, fresh_cfg], by rw [fresh_cfg, fresh_name]⟩

theorem freshStart_settled (v : List Cfg) (nx : Nat) (hn : (v.map (·.name)).Nodup) :
    Settled (freshStart v nx) v := by
  intro w' hw' c hc he
  obtain ⟨c0, hc0, k, _, rfl⟩ := addLoop_mem v nx w' hw'
  have : c0 = c := eq_of_nodup_map (·.name) v hn c0 c hc0 hc ((fresh_name c0 k).symm.trans he)
  subst this
  exact diffOf_fresh c0 k

theorem freshStart_names (v : List Cfg) (nx : Nat) : (freshStart v nx).ws.map (·.name) = v.map (·.name) := by
  show (addLoop v nx).1.map (·.name) = _
  rw [addLoop_names]

/-- all versions of the file have pairwise distinct watcher names (the ini reader merges sections of
    the same name) -/
def AllNodup (vs : List (List Cfg)) : Prop := ∀ v ∈ vs, (v.map (·.name)).Nodup

theorem Inv.run {st : State} (hi : Inv st) (vs : List (List Cfg)) (hv : AllNodup vs) : Inv (run st vs) := by
  induction vs generalizing st with
  | nil => exact hi
  | cons v r ih =>
    exact ih (hi.reload v (hv v List.mem_cons_self)) (fun v' h' => hv v' (List.mem_cons_of_mem _ h'))

theorem run_append (st : State) (vs : List (List Cfg)) (v : List Cfg) :
    run st (vs ++ [v]) = reload (run st vs) v := by
  simp [run, List.foldl_append]

/-! ### the watcher that runs a given section after a reload -/

theorem reload_outcome (st : State) (new : List Cfg) (hs : (st.ws.map (·.name)).Nodup)
    (hn : (new.map (·.name)).Nodup) (c : Cfg) (hc : c ∈ new) :
    ∃ w' ∈ (reload st new).ws, Outcome st c w' := by
  obtain ⟨w', hw', he⟩ := reload_complete st new hs hn c hc
  obtain ⟨c0, hc0, ho⟩ := reload_mem st new hn w' hw'
  have : c0 = c := eq_of_nodup_map (·.name) new hn c0 c hc0 hc (ho.name.symm.trans he)
  subst this
  exact ⟨w', hw', ho⟩

/-- the unchanged case of `Outcome` -/
theorem reload_keeps (st : State) (new : List Cfg) (hs : (st.ws.map (·.name)).Nodup)
    (hn : (new.map (·.name)).Nodup) (w : W) (hw : w ∈ st.ws) (c : Cfg) (hc : c ∈ new)
    (he : w.name = c.name) (hd : (diffOf c w).isEmpty = true) : w ∈ (reload st new).ws := by
  obtain ⟨w', hw', ho⟩ := reload_outcome st new hs hn c hc
  rcases ho with ⟨hno, _⟩ | ⟨w0, hw0, hn0, h⟩
  · exact absurd he (hno w hw)
  · have : w0 = w := eq_of_nodup_map (·.name) st.ws hs w0 w hw0 hw (hn0.trans he.symm)
    subst this
    rcases h with h | h | h
    · rw [← h.2]; exact hw'
    · rw [not_isEmpty_of_isNpOnly c w0 h.1] at hd; cases hd
    · rw [h.1] at hd; cases hd

/-- the numprocesses-only case of `Outcome` -/
theorem reload_resizes (st : State) (new : List Cfg) (hs : (st.ws.map (·.name)).Nodup)
    (hn : (new.map (·.name)).Nodup) (w : W) (hw : w ∈ st.ws) (c : Cfg) (hc : c ∈ new)
    (he : w.name = c.name) (hd : (diffOf c w).isNpOnly = true) :
    ∃ k, st.next ≤ k ∧ resize c w k ∈ (reload st new).ws := by
  obtain ⟨w', hw', ho⟩ := reload_outcome st new hs hn c hc
  rcases ho with ⟨hno, _⟩ | ⟨w0, hw0, hn0, h⟩
  · exact absurd he (hno w hw)
  · have : w0 = w := eq_of_nodup_map (·.name) st.ws hs w0 w hw0 hw (hn0.trans he.symm)
    subst this
    rcases h with h | h | h
    · rw [not_isEmpty_of_isNpOnly c w0 hd] at h; cases h.1
    · obtain ⟨_, k, hk, rfl⟩ := h; exact ⟨k, hk, hw'⟩
    · rw [h.2.1] at hd; cases hd

/-- the replaced / added cases of `Outcome` -/
theorem reload_replaces (st : State) (new : List Cfg) (hs : (st.ws.map (·.name)).Nodup)
    (hn : (new.map (·.name)).Nodup) (c : Cfg) (hc : c ∈ new)
    (hd : ∀ w ∈ st.ws, w.name = c.name → (diffOf c w).isEmpty = false ∧ (diffOf c w).isNpOnly = false) :
    ∃ k, st.next ≤ k ∧ fresh c k ∈ (reload st new).ws := by
  obtain ⟨w', hw', ho⟩ := reload_outcome st new hs hn c hc
  rcases ho with ⟨_, k, hk, rfl⟩ | ⟨w0, hw0, hn0, h⟩
  · exact ⟨k, hk, hw'⟩
  · obtain ⟨h1, h2⟩ := hd w0 hw0 hn0
    rcases h with h | h | h
    · rw [h1] at h; cases h.1
    · rw [h2] at h; cases h.1
    · obtain ⟨_, _, k, hk, rfl⟩ := h; exact ⟨k, hk, hw'⟩

theorem mem_unique_of_name (st : State) (hs : (st.ws.map (·.name)).Nodup) (a b : W) (ha : a ∈ st.ws)
    (hb : b ∈ st.ws) (h : a.name = b.name) : a = b := eq_of_nodup_map (·.name) st.ws hs a b ha hb h

/-! ### raising and lowering numprocesses -/

theorem resize_prefix (c : Cfg) (w : W) (k : Nat) (h : w.pids.length ≤ c.np.toNat) :
    w.pids <+: (resize c w k).pids := by
  rw [resize_pids]
  split
  · exact List.prefix_refl _
  · split
    · split
      · exact List.prefix_append _ _
      · exact List.prefix_refl _
    · have : w.pids.length - c.np.toNat = 0 := by omega
      rw [this]; exact List.prefix_refl _

theorem resize_suffix (c : Cfg) (w : W) (k : Nat) (h : c.np.toNat ≤ w.pids.length) :
    (resize c w k).pids <:+ w.pids := by
  rw [resize_pids]
  split
  · exact List.suffix_refl _
  · split
    · omega
    · exact List.drop_suffix _ _

theorem resize_length (c : Cfg) (w : W) (k : Nat) (ha : w.active = true) (hr : w.respawn = true) :
    (resize c w k).pids.length = c.np.toNat := by
  rw [resize_pids]
  simp only [ha, Bool.true_eq_false, if_false, hr, if_true]
  split
  · simp; omega
  · simp; omega

/-! ### pids: every pid belongs to one watcher only and lies below the kernel's next pid -/

def PGood (ws : List W) (nx : Nat) : Prop :=
  (∀ w ∈ ws, ∀ p ∈ w.pids, p < nx) ∧ ws.Pairwise (fun a b => ∀ p ∈ a.pids, p ∉ b.pids) ∧
    ∀ w ∈ ws, w.pids.Nodup

theorem setNp_next (w : W) (n : Int) (k : Nat) :
    (setNp w n k).2 =
      if w.active = false then k
      else if w.pids.length < n.toNat then (if w.respawn = true then k + (n.toNat - w.pids.length) else k)
      else k := by
  unfold setNp
  simp only [manage_spec]
  have hr : W.respawn { w with np := n.toNat } = w.respawn := rfl
  simp only [hr]
  cases ha : w.active with
  | false => simp
  | true =>
    by_cases h1 : w.pids.length < n.toNat
    · cases hrr : w.respawn with
      | true => simp [h1]
      | false =>
        simp only [h1, if_true, Bool.true_eq_false, Bool.false_eq_true, if_false]
        split <;> rfl
    · simp only [h1, if_false, Bool.true_eq_false]
      split <;> rfl

theorem resize_pids_spec (c : Cfg) (w : W) (k : Nat) (hb : ∀ p ∈ w.pids, p < k) (hnd : w.pids.Nodup) :
    (resize c w k).pids.Nodup ∧
      ∀ p ∈ (resize c w k).pids, (p ∈ w.pids ∨ k ≤ p) ∧ p < (setNp w c.np k).2 := by
  rw [resize_pids, setNp_next]
  cases ha : w.active with
  | false =>
    simp only [if_true]
    exact ⟨hnd, fun p hp => ⟨Or.inl hp, hb p hp⟩⟩
  | true =>
    simp only [Bool.true_eq_false, if_false]
    by_cases h1 : w.pids.length < c.np.toNat
    · simp only [h1, if_true]
      cases hr : w.respawn with
      | false =>
        simp only [Bool.false_eq_true, if_false]
        exact ⟨hnd, fun p hp => ⟨Or.inl hp, hb p hp⟩⟩
      | true =>
        simp only [if_true]
        refine ⟨?_, ?_⟩
        · rw [List.nodup_append]
          refine ⟨hnd, List.nodup_range' (step := 1), ?_⟩
          intro a ha' b hb' hab
          subst hab
          have := hb a ha'
          have := (List.mem_range'_1.1 hb').1
          omega
        · intro p hp
          rcases List.mem_append.1 hp with h | h
          · exact ⟨Or.inl h, by have := hb p h; omega⟩
          · have := List.mem_range'_1.1 h
            exact ⟨Or.inr this.1, this.2⟩
    · simp only [h1, if_false]
      exact ⟨hnd.sublist (List.drop_sublist _ _),
        fun p hp => ⟨Or.inl (List.mem_of_mem_drop hp), hb p (List.mem_of_mem_drop hp)⟩⟩

theorem stepW_pids_spec (new : List Cfg) (maybe : List Str) (w : W) (k : Nat)
    (hb : ∀ p ∈ w.pids, p < k) (hnd : w.pids.Nodup) :
    (stepW new maybe w k).pids.Nodup ∧
      ∀ p ∈ (stepW new maybe w k).pids, (p ∈ w.pids ∨ k ≤ p) ∧ p < stepNext new maybe w k := by
  unfold stepW stepNext
  cases hit new maybe w with
  | none => exact ⟨hnd, fun p hp => ⟨Or.inl hp, hb p hp⟩⟩
  | some c =>
    simp only [changedStep_eq]
    split
    · exact resize_pids_spec c w k hb hnd
    · exact ⟨hnd, fun p hp => ⟨Or.inl hp, hb p hp⟩⟩

theorem changedLoop_good (new : List Cfg) (maybe : List Str) (ws : List W) (nx : Nat) (h : PGood ws nx) :
    PGood (changedLoop new maybe ws nx).1 (changedLoop new maybe ws nx).2.2 ∧
      ∀ w' ∈ (changedLoop new maybe ws nx).1, ∀ p ∈ w'.pids, (∃ w ∈ ws, p ∈ w.pids) ∨ nx ≤ p := by
  induction ws generalizing nx with
  | nil =>
    refine ⟨⟨?_, ?_, ?_⟩, ?_⟩ <;> simp [changedLoop]
  | cons w r ih =>
    obtain ⟨hb, hp, hnd⟩ := h
    have hle := stepNext_le new maybe w nx
    have hr : PGood r (stepNext new maybe w nx) :=
      ⟨fun w0 hw0 p hp0 => Nat.lt_of_lt_of_le (hb w0 (List.mem_cons_of_mem _ hw0) p hp0) hle,
       (List.pairwise_cons.1 hp).2, fun w0 hw0 => hnd w0 (List.mem_cons_of_mem _ hw0)⟩
    obtain ⟨⟨tb, tp, tnd⟩, tsrc⟩ := ih _ hr
    obtain ⟨hnd', hsp⟩ := stepW_pids_spec new maybe w nx (hb w List.mem_cons_self) (hnd w List.mem_cons_self)
    have hle2 := changedLoop_next new maybe r (stepNext new maybe w nx)
    rw [changedLoop_cons]
    refine ⟨⟨?_, ?_, ?_⟩, ?_⟩
    · intro w' hw' p hp'
      rcases List.mem_cons.1 hw' with rfl | hw'
      · exact Nat.lt_of_lt_of_le (hsp p hp').2 hle2
      · exact tb w' hw' p hp'
    · rw [List.pairwise_cons]
      refine ⟨?_, tp⟩
      intro b hb' p hp' hpb
      have h1 := hsp p hp'
      rcases tsrc b hb' p hpb with ⟨w0, hw0, hpw0⟩ | hge
      · rcases h1.1 with h2 | h2
        · exact (List.pairwise_cons.1 hp).1 w0 hw0 p h2 hpw0
        · have := hb w0 (List.mem_cons_of_mem _ hw0) p hpw0
          omega
      · have := h1.2; omega
    · intro w' hw'
      rcases List.mem_cons.1 hw' with rfl | hw'
      · exact hnd'
      · exact tnd w' hw'
    · intro w' hw' p hp'
      rcases List.mem_cons.1 hw' with rfl | hw'
      · rcases (hsp p hp').1 with h2 | h2
        · exact Or.inl ⟨w, List.mem_cons_self, h2⟩
        · exact Or.inr h2
      · rcases tsrc w' hw' p hp' with ⟨w0, hw0, hpw0⟩ | hge
        · exact Or.inl ⟨w0, List.mem_cons_of_mem _ hw0, hpw0⟩
        · exact Or.inr (Nat.le_trans hle hge)

theorem startW_next_fresh (c : Cfg) (k : Nat) :
    ∀ p ∈ (fresh c k).pids, k ≤ p ∧ p < (startW (mkWatcher c) k).2 := by
  intro p hp
  have hge := fresh_pids_ge c k p hp
  refine ⟨hge, ?_⟩
  rw [fresh_pids] at hp
  split at hp
  · rename_i ha
    have hm := List.mem_range'_1.1 hp
    unfold startW mkWatcher W.autostart
    simp only [ha, Bool.not_true, Bool.false_eq_true, if_false, List.length_nil, Nat.sub_zero,
      List.nil_append, List.range'_eq_nil_iff]
    split
    · omega
    · exact hm.2
  · cases hp

theorem fresh_pids_nodup (c : Cfg) (k : Nat) : (fresh c k).pids.Nodup := by
  rw [fresh_pids]
  split
  · exact List.nodup_range' (step := 1)
  · exact List.nodup_nil

theorem addLoop_good (cs : List Cfg) (nx : Nat) :
    PGood (addLoop cs nx).1 (addLoop cs nx).2 ∧ ∀ w' ∈ (addLoop cs nx).1, ∀ p ∈ w'.pids, nx ≤ p := by
  induction cs generalizing nx with
  | nil => refine ⟨⟨?_, ?_, ?_⟩, ?_⟩ <;> simp [addLoop]
  | cons c r ih =>
    obtain ⟨⟨tb, tp, tnd⟩, tge⟩ := ih (startW (mkWatcher c) nx).2
    have hle := startW_next (mkWatcher c) nx
    have hle2 := addLoop_next r (startW (mkWatcher c) nx).2
    have hf := startW_next_fresh c nx
    simp only [addLoop]
    refine ⟨⟨?_, ?_, ?_⟩, ?_⟩
    · intro w' hw' p hp'
      rcases List.mem_cons.1 hw' with rfl | hw'
      · exact Nat.lt_of_lt_of_le (hf p hp').2 hle2
      · exact tb w' hw' p hp'
    · rw [List.pairwise_cons]
      refine ⟨?_, tp⟩
      intro b hb' p hp' hpb
      have := (hf p hp').2
      have := tge b hb' p hpb
      omega
    · intro w' hw'
      rcases List.mem_cons.1 hw' with rfl | hw'
      · exact fresh_pids_nodup c nx
      · exact tnd w' hw'
    · intro w' hw' p hp'
      rcases List.mem_cons.1 hw' with rfl | hw'
      · exact (hf p hp').1
      · exact Nat.le_trans hle (tge w' hw' p hp')

/-- the pid invariant of a daemon state -/
def PidInv (st : State) : Prop := PGood st.ws st.next

theorem PidInv.reload {st : State} (h : PidInv st) (new : List Cfg) : PidInv (reload st new) := by
  obtain ⟨⟨cb, cp, cnd⟩, _⟩ := changedLoop_good new (maybeOf st new) st.ws st.next h
  unfold PidInv
  rw [reload_ws, reload_next]
  generalize (new.filter (fun c => decide (c.name ∈
        (new.map (·.name)).filter (fun n => decide (n ∉ st.ws.map (·.name))) ++ changedOf st new))) = cs
  obtain ⟨⟨ab, ap, and_⟩, age⟩ := addLoop_good cs (changedLoop new (maybeOf st new) st.ws st.next).2.2
  have hle := addLoop_next cs (changedLoop new (maybeOf st new) st.ws st.next).2.2
  refine ⟨?_, ?_, ?_⟩
  · intro w' hw' p hp'
    rcases List.mem_append.1 hw' with hw' | hw'
    · exact Nat.lt_of_lt_of_le (cb w' (List.mem_filter.1 hw').1 p hp') hle
    · exact ab w' hw' p hp'
  · rw [List.pairwise_append]
    refine ⟨cp.sublist List.filter_sublist, ap, ?_⟩
    intro a ha b hb p hpa hpb
    have := cb a (List.mem_filter.1 ha).1 p hpa
    have := age b hb p hpb
    omega
  · intro w' hw'
    rcases List.mem_append.1 hw' with hw' | hw'
    · exact cnd w' (List.mem_filter.1 hw').1
    · exact and_ w' hw'

theorem PidInv.freshStart (v : List Cfg) (nx : Nat) : PidInv (freshStart v nx) :=
  (addLoop_good v nx).1

theorem PidInv.run {st : State} (h : PidInv st) (vs : List (List Cfg)) : PidInv (run st vs) := by
  induction vs generalizing st with
  | nil => exact h
  | cons v r ih => exact ih (h.reload v)

/-- two different watchers share no pid -/
theorem PidInv.disjoint {st : State} (h : PidInv st) (a b : W) (ha : a ∈ st.ws) (hb : b ∈ st.ws)
    (hne : a.name ≠ b.name) : ∀ p ∈ a.pids, p ∉ b.pids := by
  have hp := h.2.1
  generalize st.ws = l at ha hb hp
  induction l with
  | nil => cases ha
  | cons x r ih =>
    rw [List.pairwise_cons] at hp
    rcases List.mem_cons.1 ha with rfl | ha' <;> rcases List.mem_cons.1 hb with hb' | hb'
    · exact absurd (by rw [hb']) hne
    · exact hp.1 b hb'
    · subst hb'
      intro p hpa hpb
      exact hp.1 a ha' p hpb hpa
    · exact ih ha' hb' hp.2

/-! ### watchers whose workers are all there -/

/-- the watcher respawns, and runs `numprocesses` workers if it starts by itself, none otherwise -/
def Healthy (w : W) : Prop :=
  w.respawn = true ∧ (w.autostart = true → w.active = true ∧ w.pids.length = w.np) ∧
    (w.autostart = false → w.active = false ∧ w.pids = [])

/-- the section keeps `respawn` on and, if the watcher starts by itself, asks for at least one worker -/
def GoodCfg (c : Cfg) : Prop :=
  flag c (cp! "respawn") = true ∧ (flag c (cp! "autostart") = true → 1 ≤ c.np)

theorem healthy_fresh (c : Cfg) (k : Nat) (h : GoodCfg c) : Healthy (fresh c k) := by
  refine ⟨?_, ?_, ?_⟩
  · show flag (fresh c k).cfg _ = true
    rw [fresh_cfg]; exact h.1
  · intro ha
    have ha' : flag c (cp! "autostart") = true := by
      have : flag (fresh c k).cfg (cp! "autostart") = true := ha
      rwa [fresh_cfg] at this
    have hnp := h.2 ha'
    rw [fresh_active, fresh_pids, fresh_np]
    simp only [ha', Bool.true_and, if_true, List.length_range', decide_eq_true_eq]
    exact ⟨by omega, trivial⟩
  · intro ha
    have ha' : flag c (cp! "autostart") = false := by
      have : flag (fresh c k).cfg (cp! "autostart") = false := ha
      rwa [fresh_cfg] at this
    rw [fresh_active, fresh_pids]
    simp [ha']

theorem resize_respawn (c : Cfg) (w : W) (k : Nat) : (resize c w k).respawn = w.respawn := by
  unfold W.respawn flag
  rw [resize_cfg]

theorem resize_autostart (c : Cfg) (w : W) (k : Nat) : (resize c w k).autostart = w.autostart := by
  unfold W.autostart flag
  rw [resize_cfg]

theorem healthy_resize (c : Cfg) (w : W) (k : Nat) (h : Healthy w) : Healthy (resize c w k) := by
  obtain ⟨hr, h1, h2⟩ := h
  refine ⟨by rw [resize_respawn]; exact hr, ?_, ?_⟩
  · intro ha
    rw [resize_autostart] at ha
    obtain ⟨hact, _⟩ := h1 ha
    exact ⟨by rw [resize_active c w k hr]; exact hact, by rw [resize_length c w k hact hr, resize_np]⟩
  · intro ha
    rw [resize_autostart] at ha
    obtain ⟨hact, hp⟩ := h2 ha
    refine ⟨by rw [resize_active c w k hr]; exact hact, ?_⟩
    rw [resize_pids]
    simp [hact, hp]

theorem healthy_reload (st : State) (new : List Cfg) (hn : (new.map (·.name)).Nodup)
    (hh : ∀ w ∈ st.ws, Healthy w) (hg : ∀ c ∈ new, GoodCfg c) :
    ∀ w ∈ (reload st new).ws, Healthy w := by
  intro w' hw'
  obtain ⟨c, hc, ho⟩ := reload_mem st new hn w' hw'
  rcases ho with ⟨_, k, _, rfl⟩ | ⟨w, hw, _, h | h | h⟩
  · exact healthy_fresh c k (hg c hc)
  · rw [h.2]; exact hh w hw
  · obtain ⟨_, k, _, rfl⟩ := h; exact healthy_resize c w k (hh w hw)
  · obtain ⟨_, _, k, _, rfl⟩ := h; exact healthy_fresh c k (hg c hc)

theorem healthy_freshStart (v : List Cfg) (nx : Nat) (hg : ∀ c ∈ v, GoodCfg c) :
    ∀ w ∈ (freshStart v nx).ws, Healthy w := by
  intro w' hw'
  obtain ⟨c, hc, k, _, rfl⟩ := addLoop_mem v nx w' hw'
  exact healthy_fresh c k (hg c hc)

/-- `flag` only looks at the dict: equal dicts give equal flags -/
theorem flag_congr (a b : Cfg) (h : OptsEq a.opts b.opts) (k : Str) : flag a k = flag b k := by
  unfold flag; rw [h k]

theorem healthy_run (st : State) (vs : List (List Cfg)) (hh : ∀ w ∈ st.ws, Healthy w) (hn : AllNodup vs)
    (hg : ∀ x ∈ vs, ∀ c ∈ x, GoodCfg c) : ∀ w ∈ (run st vs).ws, Healthy w := by
  induction vs generalizing st with
  | nil => exact hh
  | cons x r ih =>
    exact ih (reload st x) (healthy_reload st x (hn x List.mem_cons_self) hh (hg x List.mem_cons_self))
      (fun y hy => hn y (List.mem_cons_of_mem _ hy)) (fun y hy => hg y (List.mem_cons_of_mem _ hy))

end Circus.Reload
