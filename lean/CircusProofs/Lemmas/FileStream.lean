import CircusModel.Model.FileStream
/-! Helper lemmas for the FileStream layer (C20). -/
namespace Circus.FileStream

@[simp] theorem downRange_succ_succ (n : Nat) : downRange (n + 2) = (n + 1) :: downRange (n + 1) := rfl
@[simp] theorem downRange_zero : downRange 0 = [] := rfl
@[simp] theorem downRange_one : downRange 1 = [] := rfl

theorem seqUpTo_congr (d d' : Dir) (n : Nat) (h : ∀ k, 1 ≤ k → k ≤ n → d'.backup k = d.backup k) :
    seqUpTo d' n = seqUpTo d n := by
  induction n with
  | zero => rfl
  | succ k ih =>
    simp only [seqUpTo]
    rw [h (k + 1) (by omega) (by omega), ih (fun j h1 h2 => h j h1 (by omega))]

/-- Shifting loop when the top slot is free: contents are preserved exactly. -/
theorem shift_free (m : Nat) : ∀ d : Dir, d.backup (m + 1) = none →
    let d' := (downRange (m + 1)).foldl shiftOne d
    seqUpTo d' (m + 1) = seqUpTo d (m + 1) ∧ d'.backup 1 = none ∧
      (∀ k, k > m + 1 → d'.backup k = d.backup k) ∧ d'.active = d.active := by
  induction m with
  | zero => intro d h; simp [h]
  | succ m ih =>
    intro d h
    simp only [downRange_succ_succ, List.foldl_cons]
    -- one step at index m+1
    have hstep : (shiftOne d (m + 1)).backup (m + 1) = none ∧
        seqUpTo (shiftOne d (m + 1)) (m + 2) = seqUpTo d (m + 2) ∧
        (∀ k, k > m + 2 → (shiftOne d (m + 1)).backup k = d.backup k) ∧
        (shiftOne d (m + 1)).active = d.active := by
      unfold shiftOne
      by_cases he : d.exists (m + 1)
      · have he2 : d.exists (m + 1 + 1) = false := by simp [Dir.exists, h]
        simp only [he, he2, if_true]
        refine ⟨by simp [Dir.rename], ?_, ?_, rfl⟩
        · simp only [seqUpTo, Dir.rename]
          have : seqUpTo { active := d.active, backup := fun k => if k = m + 1 + 1 then d.backup (m + 1) else if k = m + 1 then none else d.backup k } m = seqUpTo d m :=
            seqUpTo_congr _ _ _ (fun k h1 h2 => by
              show (if k = m + 1 + 1 then _ else if k = m + 1 then none else d.backup k) = _
              rw [if_neg (by omega), if_neg (by omega)])
          simp [this, h]
        · intro k hk
          show (if k = m + 1 + 1 then _ else if k = m + 1 then none else d.backup k) = _
          rw [if_neg (by omega), if_neg (by omega)]
      · simp only [he]
        have : d.backup (m + 1) = none := by
          cases hb : d.backup (m + 1) <;> simp_all [Dir.exists]
        exact ⟨this, rfl, fun _ _ => rfl, rfl⟩
    obtain ⟨h1, h2, h3, h4⟩ := hstep
    obtain ⟨i1, i2, i3, i4⟩ := ih (shiftOne d (m + 1)) h1
    refine ⟨?_, i2, ?_, by rw [i4, h4]⟩
    · show seqUpTo _ (m + 1 + 1) = _
      rw [← h2]
      simp only [seqUpTo] at i1 ⊢
      rw [i3 (m + 1 + 1) (by omega), i1]
    · intro k hk
      rw [i3 k (by omega), h3 k (by omega)]

end Circus.FileStream

namespace Circus.FileStream

/-- The whole shifting loop of `_do_rollover`: what is retained in slots `n … 1` afterwards is a
    suffix of what was there before, slot 1 is free (for `n ≥ 2`), slots above `n` and the active
    file are untouched. -/
theorem shift_loop (n : Nat) (d : Dir) :
    let d' := (downRange n).foldl shiftOne d
    seqUpTo d' n <:+ seqUpTo d n ∧ (2 ≤ n → d'.backup 1 = none) ∧
      (∀ k, k > n → d'.backup k = d.backup k) ∧ d'.active = d.active := by
  match n with
  | 0 => simp
  | 1 => simp
  | m + 2 =>
    simp only [downRange_succ_succ, List.foldl_cons]
    -- first step, at index m+1, may drop slot m+2
    have hstep : (shiftOne d (m + 1)).backup (m + 1) = none ∧
        seqUpTo (shiftOne d (m + 1)) (m + 2) <:+ seqUpTo d (m + 2) ∧
        (∀ k, k > m + 2 → (shiftOne d (m + 1)).backup k = d.backup k) ∧
        (shiftOne d (m + 1)).active = d.active := by
      unfold shiftOne
      by_cases he : d.exists (m + 1)
      · simp only [he, if_true]
        have key : ∀ d1 : Dir, d1.backup (m + 1) = d.backup (m + 1) →
            (∀ k, k ≤ m → d1.backup k = d.backup k) → (∀ k, k > m + 2 → d1.backup k = d.backup k) →
            d1.active = d.active →
            (d1.rename (m + 1) (m + 1 + 1)).backup (m + 1) = none ∧
            seqUpTo (d1.rename (m + 1) (m + 1 + 1)) (m + 2) <:+ seqUpTo d (m + 2) ∧
            (∀ k, k > m + 2 → (d1.rename (m + 1) (m + 1 + 1)).backup k = d.backup k) ∧
            (d1.rename (m + 1) (m + 1 + 1)).active = d.active := by
          intro d1 e1 e2 e3 e4
          refine ⟨by simp [Dir.rename], ?_, ?_, e4⟩
          · have : seqUpTo (d1.rename (m + 1) (m + 1 + 1)) m = seqUpTo d m :=
              seqUpTo_congr _ _ _ (fun k h1 h2 => by
                show (if k = m + 1 + 1 then _ else if k = m + 1 then none else d1.backup k) = _
                rw [if_neg (by omega), if_neg (by omega), e2 k h2])
            simp only [seqUpTo, this]
            simp only [Dir.rename, if_true, e1]
            have : ((if m + 1 = m + 1 + 1 then d.backup (m + 1) else none : Option Bytes)) = none := by
              rw [if_neg (by omega)]
            rw [this]
            simp only [Option.getD_none, List.nil_append]
            exact List.suffix_append _ _
          · intro k hk
            show (if k = m + 1 + 1 then _ else if k = m + 1 then none else d1.backup k) = _
            rw [if_neg (by omega), if_neg (by omega), e3 k hk]
        by_cases he2 : d.exists (m + 1 + 1)
        · simp only [he2, if_true]
          apply key
          · show (if m + 1 = m + 1 + 1 then none else d.backup (m + 1)) = _
            rw [if_neg (by omega)]
          · intro k hk
            show (if k = m + 1 + 1 then none else d.backup k) = _
            rw [if_neg (by omega)]
          · intro k hk
            show (if k = m + 1 + 1 then none else d.backup k) = _
            rw [if_neg (by omega)]
          · rfl
        · simp only [he2]
          exact key d rfl (fun _ _ => rfl) (fun _ _ => rfl) rfl
      · simp only [he]
        have : d.backup (m + 1) = none := by
          cases hb : d.backup (m + 1) <;> simp_all [Dir.exists]
        exact ⟨this, List.suffix_refl _, fun _ _ => rfl, rfl⟩
    obtain ⟨h1, h2, h3, h4⟩ := hstep
    obtain ⟨i1, i2, i3, i4⟩ := shift_free m (shiftOne d (m + 1)) h1
    refine ⟨?_, fun _ => i2, ?_, by rw [i4, h4]⟩
    · refine List.IsSuffix.trans ?_ h2
      show seqUpTo _ (m + 1 + 1) <:+ seqUpTo _ (m + 1 + 1)
      simp only [seqUpTo] at i1 ⊢
      rw [i3 (m + 1 + 1) (by omega), i1]
      exact List.suffix_refl _
    · intro k hk
      rw [i3 k (by omega), h3 k (by omega)]

theorem seqUpTo_split (x y : Dir) (j : Nat) (h : ∀ k, k ≥ 2 → x.backup k = y.backup k) :
    ∃ pre, seqUpTo x (j + 1) = pre ++ (x.backup 1).getD [] ∧
           seqUpTo y (j + 1) = pre ++ (y.backup 1).getD [] := by
  induction j with
  | zero => exact ⟨[], by simp [seqUpTo], by simp [seqUpTo]⟩
  | succ j ih =>
    obtain ⟨pre, h1, h2⟩ := ih
    refine ⟨(y.backup (j + 1 + 1)).getD [] ++ pre, ?_, ?_⟩
    · rw [seqUpTo, h1, h (j + 1 + 1) (by omega)]; simp
    · rw [seqUpTo, h2]; simp

theorem suffix_append_right {α} {a b : List α} (t : List α) (h : a <:+ b) : a ++ t <:+ b ++ t := by
  obtain ⟨s, rfl⟩ := h
  exact ⟨s, by simp⟩

/-- `_do_rollover` keeps a suffix of the retained data, in order. -/
theorem retained_doRollover (n : Nat) (d : Dir) :
    retained n (doRollover n d) <:+ retained n d := by
  unfold doRollover
  by_cases hn : n > 0
  · simp only [hn, if_true]
    obtain ⟨s1, s2, s3, s4⟩ := shift_loop n d
    generalize hd1 : (downRange n).foldl shiftOne d = d1 at s1 s2 s3 s4
    -- after the optional remove of slot 1
    have hd2 : ∀ d2 : Dir, (∀ k, k ≠ 1 → d2.backup k = d1.backup k) → d2.active = d1.active →
        retained n { active := [], backup := fun k => if k = 1 then some d2.active else d2.backup k }
          <:+ retained n d := by
      intro d2 e1 e2
      unfold retained
      obtain ⟨m, rfl⟩ : ∃ m, n = m + 1 := ⟨n - 1, by omega⟩
      obtain ⟨pre, p1, p2⟩ := seqUpTo_split
        { active := [], backup := fun k => if k = 1 then some d2.active else d2.backup k } d1 m
        (fun k hk => by
          show (if k = 1 then _ else d2.backup k) = _
          rw [if_neg (by omega), e1 k (by omega)])
      rw [p1]
      simp only [if_true, Option.getD_some, List.append_nil, e2, s4]
      apply suffix_append_right
      by_cases hm : 2 ≤ m + 1
      · rw [s2 hm] at p2
        simp only [Option.getD_none, List.append_nil] at p2
        rw [← p2]; exact s1
      · have : m = 0 := by omega
        subst this
        have : pre = [] := by
          have := congrArg List.length p2
          simp only [seqUpTo, List.length_append, List.length_nil, Nat.zero_add] at this
          exact List.eq_nil_of_length_eq_zero (by omega)
        subst this
        exact List.nil_suffix
    by_cases he : d1.exists 1
    · simp only [he, if_true]
      exact hd2 (d1.remove 1) (fun k hk => by simp [Dir.remove, hk]) rfl
    · simp only [he]
      exact hd2 d1 (fun _ _ => rfl) rfl
  · simp only [hn]
    exact List.suffix_refl _

end Circus.FileStream

namespace Circus.FileStream

theorem doRollover_beyond (n : Nat) (d : Dir) (k : Nat) (hk : k > n) :
    (doRollover n d).backup k = d.backup k := by
  unfold doRollover
  by_cases hn : n > 0
  · simp only [hn, if_true]
    obtain ⟨_, _, s3, _⟩ := shift_loop n d
    show (if k = 1 then _ else _) = _
    rw [if_neg (by omega)]
    split
    · show (if k = 1 then none else _) = _
      rw [if_neg (by omega)]; exact s3 k hk
    · exact s3 k hk
  · simp [hn]

theorem doRollover_active (n : Nat) (d : Dir) (hn : n > 0) : (doRollover n d).active = [] := by
  simp [doRollover, hn]

theorem call_beyond (mb n : Nat) (pre) (d : Dir) (w : Bytes) (k : Nat) (hk : k > n) :
    (call mb n pre d w).backup k = d.backup k := by
  unfold call
  split
  · exact doRollover_beyond n d k hk
  · rfl

@[simp] theorem seqUpTo_active (d : Dir) (a : Bytes) (n : Nat) :
    seqUpTo { active := a, backup := d.backup } n = seqUpTo d n :=
  seqUpTo_congr _ _ _ (fun _ _ _ => rfl)

theorem retained_call (mb n : Nat) (pre) (d : Dir) (w : Bytes) :
    retained n (call mb n pre d w) <:+ retained n d ++ fileData pre w := by
  unfold call
  split
  · have := retained_doRollover n d
    have h2 := suffix_append_right (fileData pre w) this
    simpa [retained, List.append_assoc] using h2
  · simp [retained, List.suffix_refl]

/-- every output line of `replaceNl` after the first one starts with the prefix -/
theorem replaceNl_lines (p : Bytes) (s : Bytes) :
    ∃ ls : List Bytes, ls ≠ [] ∧ (∀ l ∈ ls, 10 ∉ l) ∧
      s = List.intercalate [10] ls ∧
      p ++ replaceNl p s ++ [10] = (ls.map (fun l => p ++ l ++ [10])).flatten := by
  induction s with
  | nil => exact ⟨[[]], by simp, by simp, by simp [List.intercalate], by simp [replaceNl]⟩
  | cons c cs ih =>
    obtain ⟨ls, hne, hno, hs, hr⟩ := ih
    by_cases hc : c = 10
    · subst hc
      refine ⟨[] :: ls, by simp, ?_, ?_, ?_⟩
      · intro l hl
        rcases List.mem_cons.mp hl with rfl | h
        · simp
        · exact hno l h
      · cases ls with
        | nil => exact absurd rfl hne
        | cons l ls' => simp [List.intercalate, hs] 
      · simp only [replaceNl, if_true, List.map_cons, List.flatten_cons, List.append_nil]
        rw [← hr]; simp
    · cases ls with
      | nil => exact absurd rfl hne
      | cons l ls' =>
        refine ⟨(c :: l) :: ls', by simp, ?_, ?_, ?_⟩
        · intro x hx
          rcases List.mem_cons.mp hx with rfl | h
          · have := hno l (by simp)
            simp [hc, this]
            exact fun h => hc h.symm
          · exact hno x (by simp [h])
        · cases ls' <;> simp [List.intercalate, hs]
        · simp only [replaceNl, hc, if_false, List.map_cons, List.flatten_cons] at hr ⊢
          have : p ++ c :: replaceNl p cs ++ [10] = p ++ c :: (replaceNl p cs ++ [10]) := by simp
          rw [this]
          have h2 : p ++ replaceNl p cs ++ [10] = p ++ (replaceNl p cs ++ [10]) := by simp
          rw [h2] at hr
          have h3 := List.append_cancel_left (as := p) (by simpa using hr) 
          rw [h3]; simp

end Circus.FileStream
