import CircusModel.Model.PyInt
/-! Helper lemmas about the model of Python's `int(str)` (used by C18 designation and C08 pid file). -/
namespace Circus.PyInt

/-- value of a digit string read left to right, starting from `acc` -/
def decFold (acc : Nat) (ds : Str) : Nat := ds.foldl (fun a c => a * 10 + (c - 48)) acc

/-- decimal value of a digit string -/
def decVal (ds : Str) : Nat := decFold 0 ds

@[simp] theorem decFold_nil (a : Nat) : decFold a [] = a := rfl
@[simp] theorem decFold_cons (a c : Nat) (ds : Str) : decFold a (c :: ds) = decFold (a * 10 + (c - 48)) ds := by
  simp only [decFold, List.foldl_cons]
theorem decFold_append (a : Nat) (xs ys : Str) : decFold a (xs ++ ys) = decFold (decFold a xs) ys := by
  simp [decFold, List.foldl_append]

/-! ### `scan` on digit strings -/

theorem isDigit_ne_us {c : Nat} (h : isDigit c = true) : c ≠ 95 := by
  simp only [isDigit, Bool.and_eq_true, decide_eq_true_eq] at h; omega

theorem isDigit_not_space {c : Nat} (h : isDigit c = true) : isCSpace c = false := by
  simp only [isDigit, Bool.and_eq_true, decide_eq_true_eq] at h
  simp only [isCSpace, Bool.or_eq_false_iff, Bool.and_eq_false_iff, decide_eq_false_iff_not]
  omega

/-- a run of digits is consumed whole, whatever `prevUs` says, when what follows ends the scan -/
theorem scan_digits (ds : Str) (hd : ∀ c ∈ ds, isDigit c = true) (hne : ds ≠ []) :
    ∀ (acc nd : Nat) (b : Bool), scan ds acc nd b = some (decFold acc ds, nd + ds.length, []) := by
  induction ds with
  | nil => exact absurd rfl hne
  | cons c cs ih =>
    intro acc nd b
    have hc : isDigit c = true := hd c (by simp)
    have hne95 : c ≠ 95 := isDigit_ne_us hc
    by_cases hcs : cs = []
    · subst hcs
      simp [scan, hne95, hc]
    · have := ih (fun x hx => hd x (by simp [hx])) hcs (acc * 10 + (c - 48)) (nd + 1) false
      simp only [scan, hne95, hc, if_false, if_true, this, decFold_cons, List.length_cons]
      have e : nd + 1 + cs.length = nd + (cs.length + 1) := by omega
      rw [e]

/-- `int()` of a non-empty all-digit string: its decimal value, unless it has more than 4300 digits -/
theorem parse_digits (ds : Str) (hd : ∀ c ∈ ds, isDigit c = true) (hne : ds ≠ []) :
    parse ds = if ds.length ≤ maxStrDigits then some (Int.ofNat (decVal ds)) else none := by
  obtain ⟨c, cs, rfl⟩ := List.exists_cons_of_ne_nil hne
  have hc : isDigit c = true := hd c (by simp)
  have h43 : c ≠ 43 := by simp only [isDigit, Bool.and_eq_true, decide_eq_true_eq] at hc; omega
  have h45 : c ≠ 45 := by simp only [isDigit, Bool.and_eq_true, decide_eq_true_eq] at hc; omega
  have h95 : c ≠ 95 := isDigit_ne_us hc
  have hsp : isCSpace c = false := isDigit_not_space hc
  have hdw : (c :: cs).dropWhile isCSpace = c :: cs := by simp [hsp]
  have hscan := scan_digits (c :: cs) hd hne 0 0 false
  unfold parse
  rw [hdw]
  split
  · rename_i t heq; exact absurd (List.cons.inj heq).1 h43
  · rename_i t heq; exact absurd (List.cons.inj heq).1 h45
  · unfold parseBody
    split
    · rename_i t heq; exact absurd (List.cons.inj heq).1 h95
    · rw [hscan]
      simp only [Nat.zero_add, List.length_cons, Nat.succ_ne_zero,
        if_false, List.dropWhile_nil, List.isEmpty_nil, if_true, decVal]
      by_cases hl : cs.length + 1 ≤ maxStrDigits
      · simp [hl, Nat.not_lt.mpr hl]
      · simp [hl, Nat.lt_of_not_le hl]

/-! ### what a successful parse looks like at its first character -/

theorem parseBody_some_head {t : Str} {v : Nat} (h : parseBody t = some v) :
    ∃ c rest, t = c :: rest ∧ isDigit c = true := by
  unfold parseBody at h
  split at h
  · exact absurd h (by simp)
  · rename_i hnot
    cases t with
    | nil => simp [scan] at h
    | cons c rest =>
      refine ⟨c, rest, rfl, ?_⟩
      have h95 : c ≠ 95 := fun e => hnot rest (by rw [e])
      by_cases hc : isDigit c = true
      · exact hc
      · simp [scan, h95, hc] at h

/-- a successful `int(s)`: the first character after the C white space is a sign or a digit -/
theorem parse_some_head {s : Str} {v : Int} (h : parse s = some v) :
    ∃ c rest, s.dropWhile isCSpace = c :: rest ∧ (c = 43 ∨ c = 45 ∨ isDigit c = true) := by
  unfold parse at h
  split at h
  · rename_i t heq; exact ⟨43, t, heq, Or.inl rfl⟩
  · rename_i t heq; exact ⟨45, t, heq, Or.inr (Or.inl rfl)⟩
  · rename_i t _ _
    cases hb : parseBody (s.dropWhile isCSpace) with
    | none => simp [hb] at h
    | some n =>
      obtain ⟨c, rest, e, hc⟩ := parseBody_some_head hb
      exact ⟨c, rest, e, Or.inr (Or.inr hc)⟩

/-! ### `str(n)` and back -/

theorem digitsAux_spec : ∀ (f n : Nat) (acc : Str), n < f →
    ∃ ds : Str, digitsAux f n acc = ds ++ acc ∧ ds ≠ [] ∧ (∀ c ∈ ds, isDigit c = true) ∧
      (∀ a, decFold a ds = a * 10 ^ ds.length + n) ∧ (∀ k, n < 10 ^ (k + 1) → ds.length ≤ k + 1) := by
  intro f
  induction f with
  | zero => intro n acc h; omega
  | succ f ih =>
    intro n acc h
    unfold digitsAux
    by_cases hn : n < 10
    · simp only [hn, if_true]
      refine ⟨[48 + n], rfl, by simp, ?_, ?_, ?_⟩
      · intro c hc
        simp only [List.mem_singleton] at hc
        subst hc
        simp only [isDigit, Bool.and_eq_true, decide_eq_true_eq]; omega
      · intro a; simp only [decFold_cons, decFold_nil, List.length_singleton, Nat.pow_one]; omega
      · intro k _; simp
    · simp only [hn, if_false]
      have hlt : n / 10 < f := by omega
      obtain ⟨ds, h1, h2, h3, h4, h5⟩ := ih (n / 10) ((48 + n % 10) :: acc) hlt
      refine ⟨ds ++ [48 + n % 10], by rw [h1]; simp, by simp, ?_, ?_, ?_⟩
      · intro c hc
        rcases List.mem_append.mp hc with hc | hc
        · exact h3 c hc
        · simp only [List.mem_singleton] at hc
          subst hc
          simp only [isDigit, Bool.and_eq_true, decide_eq_true_eq]; omega
      · intro a
        rw [decFold_append, h4 a]
        simp only [decFold_cons, decFold_nil, List.length_append, List.length_singleton, Nat.pow_succ]
        have : 48 + n % 10 - 48 = n % 10 := by omega
        rw [this, Nat.add_mul, Nat.mul_assoc]
        omega
      · intro k hk
        cases k with
        | zero => simp at hk; omega
        | succ k =>
          have : n / 10 < 10 ^ (k + 1) := by
            rw [Nat.pow_succ] at hk; omega
          have := h5 k this
          simp only [List.length_append, List.length_singleton]; omega

theorem renderNat_spec (n : Nat) :
    renderNat n ≠ [] ∧ (∀ c ∈ renderNat n, isDigit c = true) ∧ decVal (renderNat n) = n ∧
      (∀ k, n < 10 ^ (k + 1) → (renderNat n).length ≤ k + 1) := by
  obtain ⟨ds, h1, h2, h3, h4, h5⟩ := digitsAux_spec (n + 1) n [] (by omega)
  have : renderNat n = ds := by simp [renderNat, h1]
  rw [this]
  exact ⟨h2, h3, by simp [decVal, h4 0], h5⟩

/-- a run of digits followed by something that is neither a digit nor `_` -/
theorem scan_digits_then (ds r : Str) (hd : ∀ c ∈ ds, isDigit c = true) (hne : ds ≠ [])
    (hr : ∀ c r', r = c :: r' → c ≠ 95 ∧ isDigit c = false) :
    ∀ (acc nd : Nat) (b : Bool), scan (ds ++ r) acc nd b = some (decFold acc ds, nd + ds.length, r) := by
  induction ds with
  | nil => exact absurd rfl hne
  | cons c cs ih =>
    intro acc nd b
    have hc : isDigit c = true := hd c (by simp)
    have hne95 : c ≠ 95 := isDigit_ne_us hc
    by_cases hcs : cs = []
    · subst hcs
      cases r with
      | nil => simp [scan, hne95, hc]
      | cons x r' =>
        obtain ⟨hx1, hx2⟩ := hr x r' rfl
        simp [scan, hne95, hc, hx1, hx2]
    · have := ih (fun x hx => hd x (by simp [hx])) hcs (acc * 10 + (c - 48)) (nd + 1) false
      simp only [List.cons_append, scan, hne95, hc, if_false, if_true, this, decFold_cons, List.length_cons]
      have e : nd + 1 + cs.length = nd + (cs.length + 1) := by omega
      rw [e]

/-- `int(str(i) + "\n") == i`, as long as `str(i)` stays within the 4300-digit limit -/
theorem parse_render_nl (i : Int) (hi : i.natAbs < 10 ^ maxStrDigits) :
    parse (render i ++ [10]) = some i := by
  have key : ∀ n : Nat, n < 10 ^ maxStrDigits → parseBody (renderNat n ++ [10]) = some n := by
    intro n hn
    obtain ⟨h1, h2, h3, h4⟩ := renderNat_spec n
    obtain ⟨c, cs, hcs⟩ := List.exists_cons_of_ne_nil h1
    have hc : isDigit c = true := h2 c (by rw [hcs]; simp)
    have hscan := scan_digits_then (renderNat n) [10] h2 h1
      (by intro c r' e; cases e; exact ⟨by decide, by decide⟩) 0 0 false
    have e : maxStrDigits - 1 + 1 = maxStrDigits := by decide
    have hlen : (renderNat n).length ≤ maxStrDigits := by
      have := h4 (maxStrDigits - 1) (by rw [e]; exact hn)
      rwa [e] at this
    unfold parseBody
    split
    · rename_i t heq
      rw [hcs] at heq
      exact absurd (List.cons.inj heq).1 (isDigit_ne_us hc)
    · rw [hscan]
      have hl0 : (renderNat n).length ≠ 0 := by rw [hcs]; simp
      simp only [Nat.zero_add, hl0, if_false, Nat.not_lt.mpr hlen]
      simp [isCSpace, decVal] at h3 ⊢
      exact h3
  cases i with
  | ofNat n =>
    have hn : n < 10 ^ maxStrDigits := by simpa using hi
    obtain ⟨h1, h2, _, _⟩ := renderNat_spec n
    obtain ⟨c, cs, hcs⟩ := List.exists_cons_of_ne_nil h1
    have hc : isDigit c = true := h2 c (by rw [hcs]; simp)
    have hc' := hc
    simp only [isDigit, Bool.and_eq_true, decide_eq_true_eq] at hc'
    have hdw : (renderNat n ++ [10]).dropWhile isCSpace = renderNat n ++ [10] := by
      rw [hcs]; simp [isDigit_not_space hc]
    unfold parse
    simp only [render, hdw]
    split
    · rename_i t heq; rw [hcs] at heq; have := (List.cons.inj heq).1; omega
    · rename_i t heq; rw [hcs] at heq; have := (List.cons.inj heq).1; omega
    · rw [key n hn]; rfl
  | negSucc n =>
    have hn : n + 1 < 10 ^ maxStrDigits := by simpa using hi
    unfold parse
    simp only [render, List.cons_append]
    have : (45 :: (renderNat (n + 1) ++ [10])).dropWhile isCSpace = 45 :: (renderNat (n + 1) ++ [10]) := by
      simp [isCSpace]
    rw [this]
    simp only [key (n + 1) hn, Option.map_some]
    rfl

/-! ### the grammar of decimal integer literals, and `parse` against it

`parse` is a transliteration of CPython's scanner; `IsIntLit` is the grammar the documentation of
`int()` gives: optional white space, an optional sign, groups of decimal digits separated by
single underscores (at most 4300 digits), optional white space. -/

/-- one or more digit groups separated by single underscores (starts and ends with a digit) -/
inductive Grouped : Str → Prop
  | one (d : Nat) : isDigit d = true → Grouped [d]
  | cons (d : Nat) (ds : Str) : isDigit d = true → Grouped ds → Grouped (d :: ds)
  | consUs (d : Nat) (ds : Str) : isDigit d = true → Grouped ds → Grouped (d :: 95 :: ds)

/-- the digits of a literal, underscores dropped -/
def digitsOf (t : Str) : Str := t.filter isDigit

/-- `s` is a decimal integer literal with value `v` -/
def IsIntLit (s : Str) (v : Int) : Prop :=
  ∃ l sign body r, s = l ++ sign ++ body ++ r ∧
    (∀ c ∈ l, isCSpace c = true) ∧ (∀ c ∈ r, isCSpace c = true) ∧
    Grouped body ∧ (digitsOf body).length ≤ maxStrDigits ∧
    ((sign = [] ∧ v = Int.ofNat (decVal (digitsOf body))) ∨
     (sign = [43] ∧ v = Int.ofNat (decVal (digitsOf body))) ∨
     (sign = [45] ∧ v = - Int.ofNat (decVal (digitsOf body))))

/-- what ends the digit scan: end of text, or a character that is neither a digit nor `_` -/
def Stops (rest : Str) : Prop := ∀ c r', rest = c :: r' → c ≠ 95 ∧ isDigit c = false

theorem isDigit_95 : isDigit 95 = false := by decide

theorem stops_nil : Stops [] := by intro c r' e; cases e

theorem mem_takeWhile_imp {p : Nat → Bool} {l : List Nat} {c : Nat} (h : c ∈ l.takeWhile p) : p c = true := by
  induction l with
  | nil => simp at h
  | cons x xs ih =>
    rw [List.takeWhile_cons] at h
    split at h
    · rename_i hx
      rcases List.mem_cons.mp h with rfl | h
      · exact hx
      · exact ih h
    · simp at h

theorem scan_stop {rest : Str} (h : Stops rest) (acc nd : Nat) : scan rest acc nd false = some (acc, nd, rest) := by
  cases rest with
  | nil => rfl
  | cons c r' =>
    obtain ⟨h1, h2⟩ := h c r' rfl
    simp [scan, h1, h2]

theorem Grouped.head_digit {g : Str} (h : Grouped g) : ∃ d g', g = d :: g' ∧ isDigit d = true := by
  cases h with
  | one d hd => exact ⟨d, [], rfl, hd⟩
  | cons d ds hd _ => exact ⟨d, ds, rfl, hd⟩
  | consUs d ds hd _ => exact ⟨d, 95 :: ds, rfl, hd⟩

theorem digitsOf_cons_digit {d : Nat} (ds : Str) (h : isDigit d = true) : digitsOf (d :: ds) = d :: digitsOf ds := by
  simp [digitsOf, h]

theorem digitsOf_cons_us (ds : Str) : digitsOf (95 :: ds) = digitsOf ds := by
  simp [digitsOf, isDigit_95]

/-- the scanner consumes a well-grouped run of digits whole -/
theorem scan_grouped {g : Str} (hg : Grouped g) (rest : Str) (hr : Stops rest) :
    ∀ (acc nd : Nat) (b : Bool),
      scan (g ++ rest) acc nd b = some (decFold acc (digitsOf g), nd + (digitsOf g).length, rest) := by
  induction hg with
  | one d hd =>
    intro acc nd b
    have h95 := isDigit_ne_us hd
    simp only [List.cons_append, List.nil_append, scan, h95, if_false, hd, if_true,
      scan_stop hr, digitsOf_cons_digit [] hd]
    rfl
  | cons d ds hd _ ih =>
    intro acc nd b
    have h95 := isDigit_ne_us hd
    simp only [List.cons_append, scan, h95, if_false, hd, if_true, ih, digitsOf_cons_digit ds hd,
      decFold_cons, List.length_cons]
    have e : nd + 1 + (digitsOf ds).length = nd + ((digitsOf ds).length + 1) := by omega
    rw [e]
  | consUs d ds hd _ ih =>
    intro acc nd b
    have h95 := isDigit_ne_us hd
    simp only [List.cons_append, scan, h95, if_false, hd, if_true, Bool.false_eq_true, ih,
      digitsOf_cons_digit (95 :: ds) hd, digitsOf_cons_us, decFold_cons, List.length_cons]
    have e : nd + 1 + (digitsOf ds).length = nd + ((digitsOf ds).length + 1) := by omega
    rw [e]

/-- whatever the scanner consumes is a well-grouped run (possibly empty, possibly with one leading
    underscore — the caller refuses that one) -/
theorem scan_some : ∀ (t : Str) (acc nd : Nat) (b : Bool) (v nd' : Nat) (rest : Str),
    scan t acc nd b = some (v, nd', rest) →
    ∃ g, t = g ++ rest ∧ Stops rest ∧ v = decFold acc (digitsOf g) ∧ nd' = nd + (digitsOf g).length ∧
      ((b = false ∧ g = []) ∨ Grouped g ∨ (b = false ∧ ∃ g', g = 95 :: g' ∧ Grouped g')) := by
  intro t
  induction t with
  | nil =>
    intro acc nd b v nd' rest h
    cases b with
    | true => simp [scan] at h
    | false =>
      simp only [scan, Bool.false_eq_true, if_false, Option.some.injEq, Prod.mk.injEq] at h
      obtain ⟨rfl, rfl, rfl⟩ := h
      exact ⟨[], rfl, stops_nil, rfl, rfl, Or.inl ⟨rfl, rfl⟩⟩
  | cons c cs ih =>
    intro acc nd b v nd' rest h
    by_cases hc : c = 95
    · subst hc
      cases b with
      | true => simp [scan] at h
      | false =>
        simp only [scan, if_true, Bool.false_eq_true, if_false] at h
        obtain ⟨g, h1, h2, h3, h4, h5⟩ := ih acc nd true v nd' rest h
        refine ⟨95 :: g, by rw [h1]; rfl, h2, by rw [digitsOf_cons_us]; exact h3,
          by rw [digitsOf_cons_us]; exact h4, ?_⟩
        rcases h5 with ⟨hb, _⟩ | hg | ⟨hb, _⟩
        · exact absurd hb (by simp)
        · exact Or.inr (Or.inr ⟨rfl, g, rfl, hg⟩)
        · exact absurd hb (by simp)
    · by_cases hd : isDigit c = true
      · simp only [scan, hc, if_false, hd, if_true] at h
        obtain ⟨g, h1, h2, h3, h4, h5⟩ := ih (acc * 10 + (c - 48)) (nd + 1) false v nd' rest h
        refine ⟨c :: g, by rw [h1]; rfl, h2, by rw [digitsOf_cons_digit g hd]; exact h3, ?_, ?_⟩
        · rw [digitsOf_cons_digit g hd, h4, List.length_cons]; omega
        · rcases h5 with ⟨_, rfl⟩ | hg | ⟨_, g', rfl, hg'⟩
          · exact Or.inr (Or.inl (.one c hd))
          · exact Or.inr (Or.inl (.cons c g hd hg))
          · exact Or.inr (Or.inl (.consUs c g' hd hg'))
      · cases b with
        | true => simp [scan, hc, hd] at h
        | false =>
          simp only [scan, hc, if_false, hd, Bool.false_eq_true, Option.some.injEq, Prod.mk.injEq] at h
          obtain ⟨rfl, rfl, rfl⟩ := h
          refine ⟨[], rfl, ?_, rfl, rfl, Or.inl ⟨rfl, rfl⟩⟩
          intro c' r' e
          injection e with e1 e2
          subst e1
          exact ⟨hc, by simpa using hd⟩

theorem dropWhile_eq_nil_of_all {p : Nat → Bool} {l : Str} (h : ∀ c ∈ l, p c = true) : l.dropWhile p = [] := by
  have := @List.dropWhile_append_of_pos _ p l [] h
  simpa using this

theorem all_of_dropWhile_isEmpty {p : Nat → Bool} {l : Str} (h : (l.dropWhile p).isEmpty = true) :
    ∀ c ∈ l, p c = true := by
  induction l with
  | nil => simp
  | cons x xs ih =>
    rw [List.dropWhile_cons] at h
    split at h
    · rename_i hx
      intro c hc
      rcases List.mem_cons.mp hc with rfl | hc
      · exact hx
      · exact ih h c hc
    · simp at h

theorem Grouped.digits_ne_nil {g : Str} (h : Grouped g) : digitsOf g ≠ [] := by
  obtain ⟨d, g', rfl, hd⟩ := h.head_digit
  rw [digitsOf_cons_digit g' hd]; simp

theorem stops_of_cspace {r : Str} (h : ∀ c ∈ r, isCSpace c = true) : Stops r := by
  intro c r' e
  have hc := h c (by rw [e]; simp)
  simp only [isCSpace, Bool.or_eq_true, Bool.and_eq_true, decide_eq_true_eq] at hc
  constructor
  · omega
  · simp only [isDigit, Bool.and_eq_false_iff, decide_eq_false_iff_not]; omega

/-- after the sign: digit groups, then white space only -/
theorem parseBody_iff (t : Str) (v : Nat) :
    parseBody t = some v ↔
      ∃ g r, t = g ++ r ∧ Grouped g ∧ (∀ c ∈ r, isCSpace c = true) ∧
        (digitsOf g).length ≤ maxStrDigits ∧ v = decVal (digitsOf g) := by
  constructor
  · intro h
    unfold parseBody at h
    split at h
    · exact absurd h (by simp)
    · rename_i hnot
      cases hs : scan t 0 0 false with
      | none => rw [hs] at h; exact absurd h (by simp)
      | some res =>
        obtain ⟨v', nd, rest⟩ := res
        rw [hs] at h
        simp only at h
        obtain ⟨g, h1, _, h3, h4, h5⟩ := scan_some t 0 0 false v' nd rest hs
        by_cases hnd : nd = 0
        · simp [hnd] at h
        · by_cases hmax : nd > maxStrDigits
          · simp [hnd, hmax] at h
          · simp only [hnd, hmax, if_false] at h
            split at h
            · rename_i hsp
              injection h with h
              subst h
              have hall := all_of_dropWhile_isEmpty hsp
              simp only [Nat.zero_add] at h4
              rcases h5 with ⟨_, rfl⟩ | hg | ⟨_, g', rfl, _⟩
              · simp [digitsOf] at h4; exact absurd h4 hnd
              · exact ⟨g, rest, h1, hg, hall, by omega, h3⟩
              · exact absurd h1 (fun e => hnot (g' ++ rest) (by rw [e]; rfl))
            · exact absurd h (by simp)
  · rintro ⟨g, r, rfl, hg, hr, hlen, rfl⟩
    obtain ⟨d, g', rfl, hd⟩ := hg.head_digit
    have hscan := scan_grouped hg r (stops_of_cspace hr) 0 0 false
    unfold parseBody
    split
    · rename_i heq
      exact absurd (List.cons.inj heq).1 (isDigit_ne_us hd)
    · rw [hscan]
      have hne : (digitsOf (d :: g')).length ≠ 0 := by
        intro e; exact hg.digits_ne_nil (List.eq_nil_of_length_eq_zero e)
      simp only [Nat.zero_add, hne, if_false, Nat.not_lt.mpr hlen, dropWhile_eq_nil_of_all hr,
        List.isEmpty_nil, if_true, decVal]

/-- **`int(s)` succeeds with `v` exactly when `s` is a decimal integer literal of value `v`** -/
theorem parse_iff_lit (s : Str) (v : Int) : parse s = some v ↔ IsIntLit s v := by
  constructor
  · intro h
    have hsplit : s.takeWhile isCSpace ++ s.dropWhile isCSpace = s := List.takeWhile_append_dropWhile
    have hl : ∀ c ∈ s.takeWhile isCSpace, isCSpace c = true := fun c hc => mem_takeWhile_imp hc
    unfold parse at h
    split at h
    · rename_i t heq
      cases hb : parseBody t with
      | none => simp [hb] at h
      | some n =>
        simp only [hb, Option.map_some, Option.some.injEq] at h
        obtain ⟨g, r, rfl, hg, hr, hlen, rfl⟩ := (parseBody_iff t n).mp hb
        refine ⟨s.takeWhile isCSpace, [43], g, r, ?_, hl, hr, hg, hlen, Or.inr (Or.inl ⟨rfl, h.symm⟩)⟩
        rw [List.append_assoc, List.append_assoc]
        show s = s.takeWhile isCSpace ++ 43 :: (g ++ r)
        rw [← heq, hsplit]
    · rename_i t heq
      cases hb : parseBody t with
      | none => simp [hb] at h
      | some n =>
        simp only [hb, Option.map_some, Option.some.injEq] at h
        obtain ⟨g, r, rfl, hg, hr, hlen, rfl⟩ := (parseBody_iff t n).mp hb
        refine ⟨s.takeWhile isCSpace, [45], g, r, ?_, hl, hr, hg, hlen, Or.inr (Or.inr ⟨rfl, h.symm⟩)⟩
        rw [List.append_assoc, List.append_assoc]
        show s = s.takeWhile isCSpace ++ 45 :: (g ++ r)
        rw [← heq, hsplit]
    · cases hb : parseBody (s.dropWhile isCSpace) with
      | none => simp [hb] at h
      | some n =>
        simp only [hb, Option.map_some, Option.some.injEq] at h
        obtain ⟨g, r, heq, hg, hr, hlen, rfl⟩ := (parseBody_iff _ n).mp hb
        refine ⟨s.takeWhile isCSpace, [], g, r, ?_, hl, hr, hg, hlen, Or.inl ⟨rfl, h.symm⟩⟩
        rw [List.append_nil, List.append_assoc, ← heq, hsplit]
  · rintro ⟨l, sign, body, r, rfl, hl, hr, hg, hlen, hsign⟩
    obtain ⟨d, g', hbody, hd⟩ := hg.head_digit
    subst hbody
    have hd' := hd
    simp only [isDigit, Bool.and_eq_true, decide_eq_true_eq] at hd'
    have hpb : parseBody (d :: g' ++ r) = some (decVal (digitsOf (d :: g'))) :=
      (parseBody_iff _ _).mpr ⟨d :: g', r, rfl, hg, hr, hlen, rfl⟩
    unfold parse
    rcases hsign with ⟨rfl, rfl⟩ | ⟨rfl, rfl⟩ | ⟨rfl, rfl⟩
    · have hdw : (l ++ [] ++ (d :: g') ++ r).dropWhile isCSpace = d :: (g' ++ r) := by
        rw [List.append_nil, List.append_assoc, List.dropWhile_append_of_pos hl]
        simp [isDigit_not_space hd]
      rw [hdw]
      split
      · rename_i heq; have := (List.cons.inj heq).1; omega
      · rename_i heq; have := (List.cons.inj heq).1; omega
      · simp only [List.cons_append] at hpb
        rw [hpb]; rfl
    · have hdw : (l ++ [43] ++ (d :: g') ++ r).dropWhile isCSpace = 43 :: (d :: g' ++ r) := by
        rw [List.append_assoc, List.append_assoc, List.dropWhile_append_of_pos hl]
        simp [isCSpace]
      rw [hdw]
      simp only [hpb, Option.map_some]
    · have hdw : (l ++ [45] ++ (d :: g') ++ r).dropWhile isCSpace = 45 :: (d :: g' ++ r) := by
        rw [List.append_assoc, List.append_assoc, List.dropWhile_append_of_pos hl]
        simp [isCSpace]
      rw [hdw]
      simp only [hpb, Option.map_some]

end Circus.PyInt
