import CircusModel.Model.Redirector
/-! Helper lemmas for the Redirector layer (C17): kernel table, dictionaries, `Redirector`
operations, the state invariant `Inv`, the accounting invariant `Acc`, and their preservation by
`step`. -/
namespace Circus.Redirector

/-! ### generic -/

theorem foldl_inv {α β} (f : β → α → β) (P : β → Prop) (l : List α) (b : β) (h0 : P b)
    (hs : ∀ b a, a ∈ l → P b → P (f b a)) : P (l.foldl f b) := by
  induction l generalizing b with
  | nil => exact h0
  | cons a l ih =>
    exact ih _ (hs b a (by simp) h0) (fun b x hx hb => hs b x (by simp [hx]) hb)

/-! ### kernel table -/

theorem lookup_lt {t : List (Option Pipe)} {fd : Nat} {p : Pipe} (h : lookup t fd = some p) :
    fd < t.length := by
  unfold lookup at h
  by_cases hl : fd < t.length
  · exact hl
  · simp [List.getD_eq_getElem?_getD, List.getElem?_eq_none (Nat.le_of_not_lt hl)] at h

theorem lookup_ge {t : List (Option Pipe)} {fd : Nat} (h : t.length ≤ fd) : lookup t fd = none := by
  simp [lookup, List.getD_eq_getElem?_getD, List.getElem?_eq_none h]

theorem lookup_set (t : List (Option Pipe)) (i j : Nat) (v : Option Pipe) :
    lookup (t.set i v) j = if i = j ∧ i < t.length then v else lookup t j := by
  unfold lookup
  simp only [List.getD_eq_getElem?_getD, List.getElem?_set]
  by_cases hij : i = j
  · subst hij
    by_cases hl : i < t.length
    · simp [hl]
    · simp [hl, List.getElem?_eq_none (Nat.le_of_not_lt hl)]
  · simp [hij]

theorem lookup_closeFd (t : List (Option Pipe)) (fd j : Nat) :
    lookup (closeFd t fd) j = if j = fd then none else lookup t j := by
  unfold closeFd
  rw [lookup_set]
  by_cases h : fd = j
  · subst h
    by_cases hl : fd < t.length
    · simp [hl]
    · simp [hl, lookup_ge (Nat.le_of_not_lt hl)]
  · have : ¬ j = fd := fun e => h e.symm
    simp [h, this]

@[simp] theorem length_closeFd (t : List (Option Pipe)) (fd : Nat) : (closeFd t fd).length = t.length := by
  simp [closeFd]

theorem lookup_set_some {t : List (Option Pipe)} {fd : Nat} {p : Pipe} (h : lookup t fd = some p)
    (p' : Pipe) (j : Nat) :
    lookup (t.set fd (some p')) j = if j = fd then some p' else lookup t j := by
  rw [lookup_set]
  have := lookup_lt h
  by_cases e : fd = j
  · subst e; simp [this]
  · have : ¬ j = fd := fun x => e x.symm
    simp [e, this]

theorem lowestFree_le (t : List (Option Pipe)) : lowestFree t ≤ t.length := by
  induction t with
  | nil => simp [lowestFree]
  | cons a t ih => cases a <;> simp [lowestFree]; omega

theorem lookup_lowestFree (t : List (Option Pipe)) : lookup t (lowestFree t) = none := by
  induction t with
  | nil => simp [lowestFree, lookup]
  | cons a t ih =>
    cases a with
    | none => simp [lowestFree, lookup]
    | some p => simpa [lowestFree, lookup] using ih

/-- below the lowest free number every slot is taken -/
theorem lookup_below_lowestFree (t : List (Option Pipe)) (j : Nat) (h : j < lowestFree t) :
    lookup t j ≠ none := by
  induction t generalizing j with
  | nil => simp [lowestFree] at h
  | cons a t ih =>
    cases a with
    | none => simp [lowestFree] at h
    | some p =>
      cases j with
      | zero => simp [lookup]
      | succ j =>
        have := ih j (by simp [lowestFree] at h; omega)
        simpa [lookup] using this

theorem lookup_install {t : List (Option Pipe)} {fd : Nat} (hle : fd ≤ t.length) (p : Pipe) (j : Nat) :
    lookup (install t fd p) j = if j = fd then some p else lookup t j := by
  unfold install
  by_cases hl : fd < t.length
  · simp only [hl, if_true]
    rw [lookup_set]
    by_cases e : fd = j
    · subst e; simp [hl]
    · have : ¬ j = fd := fun x => e x.symm
      simp [e, this]
  · have hfd : fd = t.length := by omega
    simp only [hl, if_false]
    rw [hfd]
    unfold lookup
    simp only [List.getD_eq_getElem?_getD]
    by_cases e : j = t.length
    · rw [e]; simp
    · simp only [e, if_false]
      by_cases hj : j < t.length
      · simp [List.getElem?_append_left hj]
      · have h1 : t.length + 1 ≤ j := by omega
        rw [List.getElem?_eq_none (by simp; omega), List.getElem?_eq_none (by omega)]

theorem length_install {t : List (Option Pipe)} {fd : Nat} (hle : fd ≤ t.length) (p : Pipe) :
    (install t fd p).length = if fd < t.length then t.length else t.length + 1 := by
  unfold install
  by_cases hl : fd < t.length <;> simp [hl]

/-! ### dictionaries -/

theorem Dict.has_iff (d : Dict) (fd : Nat) : d.has fd = true ↔ fd ∈ d.keys := by
  simp only [Dict.has, Dict.keys, List.any_eq_true, List.mem_map, beq_iff_eq]

theorem Dict.mem_keys (d : Dict) (fd : Nat) : fd ∈ d.keys ↔ ∃ e ∈ d, e.fd = fd := by
  simp [Dict.keys]

theorem Dict.mem_del (d : Dict) (fd : Nat) (e : Entry) : e ∈ d.del fd ↔ e ∈ d ∧ e.fd ≠ fd := by
  simp [Dict.del]

theorem Dict.del_sublist (d : Dict) (fd : Nat) : List.Sublist (d.del fd) d := List.filter_sublist

theorem Dict.keys_sublist {d d' : Dict} (h : List.Sublist d' d) : List.Sublist d'.keys d.keys := h.map _

theorem Dict.not_mem_keys_del (d : Dict) (fd : Nat) : fd ∉ (d.del fd).keys := by
  simp [Dict.keys, Dict.del]

theorem Dict.mem_keys_del (d : Dict) (fd j : Nat) : j ∈ (d.del fd).keys ↔ j ∈ d.keys ∧ j ≠ fd := by
  simp only [Dict.mem_keys, Dict.mem_del]
  constructor
  · rintro ⟨e, ⟨h1, h2⟩, rfl⟩; exact ⟨⟨e, h1, rfl⟩, h2⟩
  · rintro ⟨⟨e, h1, rfl⟩, h2⟩; exact ⟨e, ⟨h1, h2⟩, rfl⟩

theorem Dict.del_eq_self {d : Dict} {fd : Nat} (h : d.has fd = false) : d.del fd = d := by
  unfold Dict.del
  rw [List.filter_eq_self]
  intro e he
  simp only [Dict.has, List.any_eq_false] at h
  simpa using h e he

theorem Dict.mem_set (d : Dict) (e e' : Entry) : e' ∈ d.set e ↔ e' = e ∨ (e' ∈ d ∧ e'.fd ≠ e.fd) := by
  unfold Dict.set
  by_cases h : d.has e.fd
  · simp only [h, if_true, List.mem_map]
    constructor
    · rintro ⟨x, hx, rfl⟩
      by_cases hx2 : x.fd = e.fd
      · simp [hx2]
      · simp [hx2, hx]
    · rintro (rfl | ⟨h1, h2⟩)
      · obtain ⟨x, hx, hx2⟩ := (Dict.mem_keys d e'.fd).mp ((Dict.has_iff d e'.fd).mp h)
        exact ⟨x, hx, by simp [hx2]⟩
      · exact ⟨e', h1, by simp [h2]⟩
  · simp only [h, Bool.false_eq_true, if_false, List.mem_append, List.mem_singleton]
    have hn : ∀ x ∈ d, x.fd ≠ e.fd := by
      intro x hx hxe
      exact h ((Dict.has_iff d e.fd).mpr ((Dict.mem_keys d e.fd).mpr ⟨x, hx, hxe⟩))
    constructor
    · rintro (h1 | rfl)
      · exact Or.inr ⟨h1, hn _ h1⟩
      · exact Or.inl rfl
    · rintro (rfl | ⟨h1, _⟩)
      · exact Or.inr rfl
      · exact Or.inl h1

theorem Dict.keys_set (d : Dict) (e : Entry) :
    (d.set e).keys = if d.has e.fd then d.keys else d.keys ++ [e.fd] := by
  unfold Dict.set Dict.keys
  by_cases h : d.has e.fd
  · simp only [h, if_true, List.map_map]
    apply List.map_congr_left
    intro x _
    by_cases hx : x.fd = e.fd <;> simp [hx]
  · simp [h]

theorem Dict.nodup_set {d : Dict} (e : Entry) (h : d.keys.Nodup) : (d.set e).keys.Nodup := by
  rw [Dict.keys_set]
  by_cases hh : d.has e.fd
  · simpa [hh] using h
  · simp only [hh, Bool.false_eq_true, if_false]
    have : e.fd ∉ d.keys := fun x => hh ((Dict.has_iff d e.fd).mpr x)
    rw [List.nodup_append]
    exact ⟨h, by simp, by intro a ha b hb; simp at hb; subst hb; exact fun e => this (e ▸ ha)⟩

theorem Dict.mem_keys_set (d : Dict) (e : Entry) (j : Nat) : j ∈ (d.set e).keys ↔ j = e.fd ∨ j ∈ d.keys := by
  rw [Dict.keys_set]
  by_cases hh : d.has e.fd
  · simp only [hh, if_true]
    have := (Dict.has_iff d e.fd).mp hh
    constructor
    · exact Or.inr
    · rintro (rfl | h) <;> assumption
  · simp [hh, or_comm]

theorem Dict.get_some {d : Dict} {fd : Nat} {e : Entry} (h : d.get fd = some e) : e ∈ d ∧ e.fd = fd := by
  unfold Dict.get at h
  exact ⟨List.mem_of_find?_eq_some h, by simpa using List.find?_some h⟩

theorem Dict.get_none {d : Dict} {fd : Nat} (h : d.get fd = none) : fd ∉ d.keys := by
  unfold Dict.get at h
  rw [List.find?_eq_none] at h
  intro hk
  obtain ⟨e, he, rfl⟩ := (Dict.mem_keys d fd).mp hk
  simpa using h e he

/-! ### `Redirector` operations -/

/-- outputs that only talk to the event loop -/
def Out.isCtl : Out → Bool
  | .addHandler _ | .rmHandler _ => true
  | _ => false

structure RedInv (r : Red) : Prop where
  pipesNodup : r.pipes.keys.Nodup
  activeNodup : r.active.keys.Nodup
  activeSub : ∀ fd, fd ∈ r.active.keys → fd ∈ r.pipes.keys

theorem stopOne_fst (r : Red) (fd : Nat) : (stopOne r fd).1 = { r with active := r.active.del fd } := by
  unfold stopOne
  by_cases h : r.active.has fd
  · simp [h]
  · have h' : r.active.has fd = false := by simpa using h
    simp [h', Dict.del_eq_self h']

theorem stopOne_ctl (r : Red) (fd : Nat) : ∀ x ∈ (stopOne r fd).2, x.isCtl = true := by
  unfold stopOne
  by_cases h : r.active.has fd <;> simp [h, Out.isCtl]

theorem removeFd_fst (r : Red) (fd : Nat) :
    (removeFd r fd).1 = { r with active := r.active.del fd, pipes := r.pipes.del fd } := by
  unfold removeFd
  simp only [stopOne_fst]
  by_cases h : r.pipes.has fd
  · simp [h]
  · have h' : r.pipes.has fd = false := by simpa using h
    simp [h', Dict.del_eq_self h']

theorem removeFd_ctl (r : Red) (fd : Nat) : ∀ x ∈ (removeFd r fd).2, x.isCtl = true := by
  unfold removeFd
  exact stopOne_ctl r fd

theorem startOne_fst (r : Red) (e : Entry) :
    (startOne r e).1 = if r.active.has e.fd then r else { r with active := r.active ++ [e] } := by
  unfold startOne
  by_cases h : r.active.has e.fd
  · simp [h]
  · have h' : r.active.has e.fd = false := by simpa using h
    simp [h', Dict.set]

theorem startOne_ctl (r : Red) (e : Entry) : ∀ x ∈ (startOne r e).2, x.isCtl = true := by
  unfold startOne
  by_cases h : r.active.has e.fd <;> simp [h, Out.isCtl]

theorem RedInv.removeFd {r : Red} (h : RedInv r) (fd : Nat) : RedInv (removeFd r fd).1 := by
  rw [removeFd_fst]
  refine ⟨?_, ?_, ?_⟩
  · exact (Dict.keys_sublist (Dict.del_sublist _ _)).nodup h.pipesNodup
  · exact (Dict.keys_sublist (Dict.del_sublist _ _)).nodup h.activeNodup
  · intro j hj
    rw [Dict.mem_keys_del] at hj ⊢
    exact ⟨h.activeSub j hj.1, hj.2⟩

theorem RedInv.startOne {r : Red} (h : RedInv r) (e : Entry) (he : e.fd ∈ r.pipes.keys) :
    RedInv (startOne r e).1 := by
  rw [startOne_fst]
  by_cases hh : r.active.has e.fd
  · simpa [hh] using h
  · simp only [hh, Bool.false_eq_true, if_false]
    have hn : e.fd ∉ r.active.keys := fun x => hh ((Dict.has_iff _ _).mpr x)
    refine ⟨h.pipesNodup, ?_, ?_⟩
    · show (r.active ++ [e]).keys.Nodup
      simp only [Dict.keys, List.map_append, List.map_cons, List.map_nil]
      rw [List.nodup_append]
      exact ⟨h.activeNodup, by simp, by intro a ha b hb; simp at hb; subst hb; exact fun x => hn (x ▸ ha)⟩
    · intro j hj
      have : j ∈ r.active.keys ∨ j = e.fd := by
        simpa [Dict.keys] using hj
      rcases this with h1 | rfl
      · exact h.activeSub j h1
      · exact he

/-- `start()` -/
theorem start_spec {r : Red} (h : RedInv r) :
    RedInv (start r).1 ∧ (start r).1.pipes = r.pipes ∧ (start r).1.buffer = r.buffer ∧
    (∀ e ∈ (start r).1.active, e ∈ r.active ∨ e ∈ r.pipes) ∧ (∀ x ∈ (start r).2, x.isCtl = true) := by
  unfold start
  have key := foldl_inv (fun (acc : Red × List Out) e =>
      let (r', o') := startOne acc.1 e; (r', acc.2 ++ o'))
    (fun acc => RedInv acc.1 ∧ acc.1.pipes = r.pipes ∧ acc.1.buffer = r.buffer ∧
      (∀ e ∈ acc.1.active, e ∈ r.active ∨ e ∈ r.pipes) ∧ (∀ x ∈ acc.2, x.isCtl = true))
    r.pipes (r, []) ⟨h, rfl, rfl, fun e he => Or.inl he, by simp⟩
    (by
      rintro ⟨r1, o1⟩ e he ⟨i1, i2, i3, i4, i5⟩
      have hk : e.fd ∈ r1.pipes.keys := by
        rw [show r1.pipes = r.pipes from i2]; exact (Dict.mem_keys _ _).mpr ⟨e, he, rfl⟩
      refine ⟨i1.startOne e hk, ?_, ?_, ?_, ?_⟩
      · show (startOne r1 e).1.pipes = _
        rw [startOne_fst]; split <;> exact i2
      · show (startOne r1 e).1.buffer = _
        rw [startOne_fst]; split <;> exact i3
      · show ∀ x ∈ (startOne r1 e).1.active, _
        rw [startOne_fst]
        intro x hx
        split at hx
        · exact i4 x hx
        · rcases List.mem_append.mp hx with h1 | h1
          · exact i4 x h1
          · simp at h1; subst h1; exact Or.inr he
      · intro x hx
        rcases List.mem_append.mp hx with h1 | h1
        · exact i5 x h1
        · exact startOne_ctl r1 e x h1)
  generalize List.foldl _ _ _ = res at key ⊢
  obtain ⟨r1, o1⟩ := res
  exact ⟨⟨key.1.1, key.1.2, key.1.3⟩, key.2.1, key.2.2.1, key.2.2.2.1, key.2.2.2.2⟩

/-- `stop()` -/
theorem stop_spec {r : Red} (h : RedInv r) :
    RedInv (stop r).1 ∧ (stop r).1.pipes = r.pipes ∧ (stop r).1.buffer = r.buffer ∧
    (∀ e ∈ (stop r).1.active, e ∈ r.active) ∧ (∀ x ∈ (stop r).2, x.isCtl = true) := by
  unfold stop
  have key := foldl_inv (fun (acc : Red × List Out) fd =>
      let (r', o') := stopOne acc.1 fd; (r', acc.2 ++ o'))
    (fun acc => RedInv acc.1 ∧ acc.1.pipes = r.pipes ∧ acc.1.buffer = r.buffer ∧
      (∀ e ∈ acc.1.active, e ∈ r.active) ∧ (∀ x ∈ acc.2, x.isCtl = true))
    r.active.keys (r, []) ⟨h, rfl, rfl, fun e he => he, by simp⟩
    (by
      rintro ⟨r1, o1⟩ fd _ ⟨i1, i2, i3, i4, i5⟩
      refine ⟨?_, ?_, ?_, ?_, ?_⟩
      · show RedInv (stopOne r1 fd).1
        rw [stopOne_fst]
        refine ⟨i1.pipesNodup, (Dict.keys_sublist (Dict.del_sublist _ _)).nodup i1.activeNodup, ?_⟩
        intro j hj
        exact i1.activeSub j ((Dict.mem_keys_del _ _ _).mp hj).1
      · show (stopOne r1 fd).1.pipes = _
        rw [stopOne_fst]; exact i2
      · show (stopOne r1 fd).1.buffer = _
        rw [stopOne_fst]; exact i3
      · show ∀ x ∈ (stopOne r1 fd).1.active, _
        rw [stopOne_fst]
        intro x hx
        exact i4 x ((Dict.mem_del _ _ _).mp hx).1
      · intro x hx
        rcases List.mem_append.mp hx with h1 | h1
        · exact i5 x h1
        · exact stopOne_ctl r1 fd x h1)
  generalize List.foldl _ _ _ = res at key ⊢
  obtain ⟨r1, o1⟩ := res
  exact ⟨⟨key.1.1, key.1.2, key.1.3⟩, key.2.1, key.2.2.1, key.2.2.2.1, key.2.2.2.2⟩

/-- one round of the `add_redirections` loop on an open pipe object -/
theorem addOne_spec (pid : Nat) (acc : Red × List Out) (c : Chan) (fd : Nat) (h : RedInv acc.1)
    (hc : ∀ x ∈ acc.2, x.isCtl = true) :
    let res := addOne pid acc (c, .opened fd)
    let e : Entry := { fd := fd, name := c, pid := pid }
    RedInv res.1 ∧ res.1.buffer = acc.1.buffer ∧
    (∀ e', e' ∈ res.1.pipes ↔ e' = e ∨ (e' ∈ acc.1.pipes ∧ e'.fd ≠ fd)) ∧
    (∀ e' ∈ res.1.active, e' = e ∨ (e' ∈ acc.1.active ∧ e'.fd ≠ fd)) ∧
    (∀ x ∈ res.2, x.isCtl = true) := by
  obtain ⟨r, o⟩ := acc
  simp only [addOne]
  have hso := stopOne_fst r fd
  have hsc := stopOne_ctl r fd
  generalize stopOne r fd = so at hso hsc
  obtain ⟨r1, o1⟩ := so
  simp only at hso hsc
  subst hso
  simp only
  have hnot : (r.active.del fd).has fd = false := by
    cases hx : (r.active.del fd).has fd
    · rfl
    · exact absurd ((Dict.has_iff _ _).mp hx) (Dict.not_mem_keys_del _ _)
  have hpn : (r.pipes.set { fd := fd, name := c, pid := pid }).keys.Nodup := Dict.nodup_set _ h.pipesNodup
  have han : (r.active.del fd).keys.Nodup := (Dict.keys_sublist (Dict.del_sublist _ _)).nodup h.activeNodup
  have hsub : ∀ j, j ∈ (r.active.del fd).keys →
      j ∈ (r.pipes.set { fd := fd, name := c, pid := pid }).keys := by
    intro j hj
    rw [Dict.mem_keys_set]
    exact Or.inr (h.activeSub j ((Dict.mem_keys_del _ _ _).mp hj).1)
  by_cases hr : r.running
  · simp only [hr, if_true]
    have hst := startOne_fst ⟨r.pipes.set ⟨fd, c, pid⟩, r.active.del fd, true, r.buffer⟩ ⟨fd, c, pid⟩
    have hsc2 := startOne_ctl ⟨r.pipes.set ⟨fd, c, pid⟩, r.active.del fd, true, r.buffer⟩ ⟨fd, c, pid⟩
    simp only [hnot, Bool.false_eq_true, if_false] at hst
    generalize startOne _ _ = st at hst hsc2
    obtain ⟨r3, o3⟩ := st
    simp only at hst hsc2
    subst hst
    refine ⟨⟨hpn, ?_, ?_⟩, rfl, ?_, ?_, ?_⟩
    · show ((r.active.del fd) ++ [_]).keys.Nodup
      simp only [Dict.keys, List.map_append, List.map_cons, List.map_nil]
      rw [List.nodup_append]
      refine ⟨han, by simp, ?_⟩
      intro a ha b hb
      have hb' : b = fd := by simpa using hb
      rw [hb']
      exact fun x => Dict.not_mem_keys_del r.active fd (x ▸ ha)
    · intro j hj
      have : j ∈ (r.active.del fd).keys ∨ j = fd := by simpa [Dict.keys] using hj
      rcases this with h1 | rfl
      · exact hsub j h1
      · rw [Dict.mem_keys_set]; exact Or.inl rfl
    · intro e'; exact Dict.mem_set _ _ _
    · intro e' he'
      rcases List.mem_append.mp he' with h1 | h1
      · exact Or.inr ((Dict.mem_del _ _ _).mp h1)
      · simp at h1; exact Or.inl h1
    · intro x hx
      rcases List.mem_append.mp hx with h1 | h1
      · rcases List.mem_append.mp h1 with h2 | h2
        · exact hc x h2
        · exact hsc x h2
      · exact hsc2 x h1
  · simp only [hr, Bool.false_eq_true, if_false]
    refine ⟨⟨hpn, han, hsub⟩, trivial, ?_, ?_, ?_⟩
    · intro e'; exact Dict.mem_set _ _ _
    · intro e' he'
      exact Or.inr ((Dict.mem_del _ _ _).mp he')
    · intro x hx
      rcases List.mem_append.mp hx with h2 | h2
      · exact hc x h2
      · exact hsc x h2

/-- `remove_redirections(process)`: entries only disappear -/
theorem removeRedirections_spec {r : Red} (h : RedInv r) (w : Worker) :
    RedInv (removeRedirections r w).1 ∧ (removeRedirections r w).1.buffer = r.buffer ∧
    (∀ e ∈ (removeRedirections r w).1.pipes, e ∈ r.pipes) ∧
    (∀ e ∈ (removeRedirections r w).1.active, e ∈ r.active) ∧
    (∀ c fd, (c, PObj.opened fd) ∈ processPipes w → fd ∉ (removeRedirections r w).1.pipes.keys) ∧
    (∀ x ∈ (removeRedirections r w).2, x.isCtl = true) := by
  unfold removeRedirections
  -- the invariant of the loop, with the part of the list already done made explicit
  suffices H : ∀ (l : List (Chan × PObj)) (acc : Red × List Out), RedInv acc.1 → acc.1.buffer = r.buffer →
      (∀ e ∈ acc.1.pipes, e ∈ r.pipes) → (∀ e ∈ acc.1.active, e ∈ r.active) →
      (∀ x ∈ acc.2, x.isCtl = true) →
      let res := l.foldl removeOne acc
      RedInv res.1 ∧ res.1.buffer = r.buffer ∧ (∀ e ∈ res.1.pipes, e ∈ acc.1.pipes) ∧
      (∀ e ∈ res.1.pipes, e ∈ r.pipes) ∧ (∀ e ∈ res.1.active, e ∈ r.active) ∧
      (∀ c fd, (c, PObj.opened fd) ∈ l → fd ∉ res.1.pipes.keys) ∧ (∀ x ∈ res.2, x.isCtl = true) by
    obtain ⟨a, b, _, c, d, e, f⟩ := H (processPipes w) (r, []) h rfl (fun _ x => x) (fun _ x => x) (by simp)
    exact ⟨a, b, c, d, e, f⟩
  intro l
  induction l with
  | nil =>
    intro acc i1 i2 i3 i4 i5
    exact ⟨i1, i2, fun _ x => x, i3, i4, by simp, i5⟩
  | cons np l ih =>
    intro acc i1 i2 i3 i4 i5
    simp only [List.foldl_cons]
    obtain ⟨c0, po⟩ := np
    cases po with
    | opened fd0 =>
      have e1 : removeOne acc (c0, PObj.opened fd0) = ((removeFd acc.1 fd0).1, acc.2 ++ (removeFd acc.1 fd0).2) := rfl
      rw [e1]
      have hp : ∀ e ∈ (removeFd acc.1 fd0).1.pipes, e ∈ acc.1.pipes ∧ e.fd ≠ fd0 := by
        rw [removeFd_fst]; intro e he; exact (Dict.mem_del _ _ _).mp he
      have ha : ∀ e ∈ (removeFd acc.1 fd0).1.active, e ∈ acc.1.active := by
        rw [removeFd_fst]; intro e he; exact ((Dict.mem_del _ _ _).mp he).1
      obtain ⟨j1, j2, j3, j4, j5, j6, j7⟩ := ih ((removeFd acc.1 fd0).1, acc.2 ++ (removeFd acc.1 fd0).2)
        (i1.removeFd fd0) (by rw [removeFd_fst]; exact i2) (fun e he => i3 e (hp e he).1)
        (fun e he => i4 e (ha e he))
        (by
          intro x hx
          rcases List.mem_append.mp hx with h1 | h1
          · exact i5 x h1
          · exact removeFd_ctl _ _ x h1)
      refine ⟨j1, j2, fun e he => (hp e (j3 e he)).1, j4, j5, ?_, j7⟩
      intro c fd hm
      rcases List.mem_cons.mp hm with h1 | h1
      · injection h1 with _ h2
        injection h2 with h2
        subst h2
        intro hk
        obtain ⟨e, he, hfd⟩ := (Dict.mem_keys _ _).mp hk
        exact (hp e (j3 e he)).2 hfd
      · exact j6 c fd h1
    | absent =>
      have e1 : removeOne acc (c0, PObj.absent) = acc := rfl
      rw [e1]
      obtain ⟨j1, j2, j3, j4, j5, j6, j7⟩ := ih acc i1 i2 i3 i4 i5
      refine ⟨j1, j2, j3, j4, j5, ?_, j7⟩
      intro c fd hm
      rcases List.mem_cons.mp hm with h1 | h1
      · injection h1 with _ h2; cases h2
      · exact j6 c fd h1
    | closed =>
      have e1 : removeOne acc (c0, PObj.closed) = acc := rfl
      rw [e1]
      obtain ⟨j1, j2, j3, j4, j5, j6, j7⟩ := ih acc i1 i2 i3 i4 i5
      refine ⟨j1, j2, j3, j4, j5, ?_, j7⟩
      intro c fd hm
      rcases List.mem_cons.mp hm with h1 | h1
      · injection h1 with _ h2; cases h2
      · exact j6 c fd h1

/-- `add_redirections(process)` for a freshly spawned worker: its numbers get its entries, every
    other entry is untouched -/
theorem addRedirections_spec {r : Red} (h : RedInv r) (w : Worker)
    (hnc : w.out ≠ .closed ∧ w.err ≠ .closed) (hd : ∀ j, w.out = .opened j → w.err ≠ .opened j) :
    RedInv (addRedirections r w).1 ∧ (addRedirections r w).1.buffer = r.buffer ∧
    (∀ e' ∈ (addRedirections r w).1.pipes,
      (∃ c, w.pobj c = .opened e'.fd ∧ e' = ⟨e'.fd, c, w.pid⟩) ∨ (e' ∈ r.pipes ∧ ∀ c, w.pobj c ≠ .opened e'.fd)) ∧
    (∀ e' ∈ (addRedirections r w).1.active,
      (∃ c, w.pobj c = .opened e'.fd ∧ e' = ⟨e'.fd, c, w.pid⟩) ∨ (e' ∈ r.active ∧ ∀ c, w.pobj c ≠ .opened e'.fd)) ∧
    (∀ x ∈ (addRedirections r w).2, x.isCtl = true) := by
  obtain ⟨pid, out, err⟩ := w
  simp only at hnc hd
  have pobj_ne : ∀ (o e : PObj) (j : Nat), o ≠ .opened j → e ≠ .opened j →
      ∀ c, (Worker.mk pid o e).pobj c ≠ .opened j := by
    intro o e j h1 h2 c; cases c <;> simpa [Worker.pobj]
  cases out with
  | closed => exact absurd rfl hnc.1
  | absent =>
    cases err with
    | closed => exact absurd rfl hnc.2
    | absent =>
      have : addRedirections r ⟨pid, .absent, .absent⟩ = (r, []) := rfl
      rw [this]
      exact ⟨h, rfl, fun e' he' => Or.inr ⟨he', by intro c; cases c <;> simp [Worker.pobj]⟩,
        fun e' he' => Or.inr ⟨he', by intro c; cases c <;> simp [Worker.pobj]⟩, by simp⟩
    | opened fe =>
      have : addRedirections r ⟨pid, .absent, .opened fe⟩ = addOne pid (r, []) (.stderr, .opened fe) := rfl
      rw [this]
      obtain ⟨a1, a2, a3, a4, a5⟩ := addOne_spec pid (r, []) .stderr fe h (by simp)
      refine ⟨a1, a2, ?_, ?_, a5⟩
      · intro e' he'
        rcases (a3 e').mp he' with h1 | ⟨h1, h2⟩
        · exact Or.inl ⟨.stderr, by rw [h1]; rfl, by rw [h1]⟩
        · exact Or.inr ⟨h1, pobj_ne _ _ _ (by simp) (by intro x; injection x with x; exact h2 x.symm)⟩
      · intro e' he'
        rcases a4 e' he' with h1 | ⟨h1, h2⟩
        · exact Or.inl ⟨.stderr, by rw [h1]; rfl, by rw [h1]⟩
        · exact Or.inr ⟨h1, pobj_ne _ _ _ (by simp) (by intro x; injection x with x; exact h2 x.symm)⟩
  | opened fo =>
    cases err with
    | closed => exact absurd rfl hnc.2
    | absent =>
      have : addRedirections r ⟨pid, .opened fo, .absent⟩ = addOne pid (r, []) (.stdout, .opened fo) := rfl
      rw [this]
      obtain ⟨a1, a2, a3, a4, a5⟩ := addOne_spec pid (r, []) .stdout fo h (by simp)
      refine ⟨a1, a2, ?_, ?_, a5⟩
      · intro e' he'
        rcases (a3 e').mp he' with h1 | ⟨h1, h2⟩
        · exact Or.inl ⟨.stdout, by rw [h1]; rfl, by rw [h1]⟩
        · exact Or.inr ⟨h1, pobj_ne _ _ _ (by intro x; injection x with x; exact h2 x.symm) (by simp)⟩
      · intro e' he'
        rcases a4 e' he' with h1 | ⟨h1, h2⟩
        · exact Or.inl ⟨.stdout, by rw [h1]; rfl, by rw [h1]⟩
        · exact Or.inr ⟨h1, pobj_ne _ _ _ (by intro x; injection x with x; exact h2 x.symm) (by simp)⟩
    | opened fe =>
      have hne : fo ≠ fe := fun x => hd fo rfl (by rw [x])
      have : addRedirections r ⟨pid, .opened fo, .opened fe⟩ =
          addOne pid (addOne pid (r, []) (.stdout, .opened fo)) (.stderr, .opened fe) := rfl
      rw [this]
      obtain ⟨a1, a2, a3, a4, a5⟩ := addOne_spec pid (r, []) .stdout fo h (by simp)
      obtain ⟨b1, b2, b3, b4, b5⟩ := addOne_spec pid (addOne pid (r, []) (.stdout, .opened fo)) .stderr fe a1 a5
      refine ⟨b1, b2.trans a2, ?_, ?_, b5⟩
      · intro e' he'
        rcases (b3 e').mp he' with h1 | ⟨h1, h2⟩
        · exact Or.inl ⟨.stderr, by rw [h1]; rfl, by rw [h1]⟩
        · rcases (a3 e').mp h1 with h3 | ⟨h3, h4⟩
          · exact Or.inl ⟨.stdout, by rw [h3]; rfl, by rw [h3]⟩
          · exact Or.inr ⟨h3, pobj_ne _ _ _ (by intro x; injection x with x; exact h4 x.symm)
              (by intro x; injection x with x; exact h2 x.symm)⟩
      · intro e' he'
        rcases b4 e' he' with h1 | ⟨h1, h2⟩
        · exact Or.inl ⟨.stderr, by rw [h1]; rfl, by rw [h1]⟩
        · rcases a4 e' h1 with h3 | ⟨h3, h4⟩
          · exact Or.inl ⟨.stdout, by rw [h3]; rfl, by rw [h3]⟩
          · exact Or.inr ⟨h3, pobj_ne _ _ _ (by intro x; injection x with x; exact h4 x.symm)
              (by intro x; injection x with x; exact h2 x.symm)⟩

/-- `os.pipe()` hands out a number that was free, and nothing else changes -/
theorem kpipe_spec (t : List (Option Pipe)) (pid : Nat) (c : Chan) :
    lookup t (kpipe t pid c).1 = none ∧
    (∀ j, lookup (kpipe t pid c).2 j =
      if j = (kpipe t pid c).1 then some ⟨[], true, pid, c⟩ else lookup t j) ∧
    t.length ≤ (kpipe t pid c).2.length ∧ (kpipe t pid c).1 < (kpipe t pid c).2.length := by
  unfold kpipe
  simp only
  refine ⟨lookup_lowestFree t, fun j => lookup_install (lowestFree_le t) _ j, ?_, ?_⟩
  · rw [length_install (lowestFree_le t)]; split <;> omega
  · rw [length_install (lowestFree_le t)]; have := lowestFree_le t; split <;> omega

end Circus.Redirector
