import CircusModel.Model.Client
/-! Helper lemmas for the client layer (C06). -/
namespace Circus.Client

/-- a stale or foreign reply: a JSON object whose id is not the call's id -/
def Foreign (cid : Str) : Frame → Prop
  | .obj id _ => id ≠ .str cid
  | _ => False

/-- events the loop passes over: an interrupted poll, or a foreign reply -/
def Skippable (cid : Str) : Event → Prop
  | .eintr => True
  | .msg f => Foreign cid f
  | _ => False

/-- events that end the call, and how -/
def decides (cid : Str) : Event → Option Outcome
  | .eintr => none
  | .pollError => some .callErrorZmq
  | .timeout => some .callErrorTimeout
  | .msg f => onFrame cid f

theorem onFrame_foreign {cid : Str} {f : Frame} (h : Foreign cid f) : onFrame cid f = none := by
  cases f with
  | obj id body => simp only [Foreign] at h; simp [onFrame, h]
  | _ => exact absurd h (by simp [Foreign])

theorem onFrame_none_iff {cid : Str} {f : Frame} : onFrame cid f = none ↔ Foreign cid f := by
  constructor
  · intro h
    cases f with
    | obj id body =>
      simp only [Foreign]
      intro e
      simp [onFrame, e] at h
    | _ => simp [onFrame] at h
  · exact onFrame_foreign

theorem decides_none_iff {cid : Str} {e : Event} : decides cid e = none ↔ Skippable cid e := by
  cases e with
  | msg f => simp only [decides, Skippable]; exact onFrame_none_iff
  | _ => simp [decides, Skippable]

theorem recvLoop_cons (cid : Str) (e : Event) (es : List Event) :
    recvLoop cid (e :: es) = match decides cid e with
      | some o => o
      | none => recvLoop cid es := by
  cases e with
  | msg f => simp only [recvLoop, decides]; cases onFrame cid f <;> rfl
  | _ => simp [recvLoop, decides]

theorem recvLoop_skip (cid : Str) (pre es : List Event) (h : ∀ e ∈ pre, Skippable cid e) :
    recvLoop cid (pre ++ es) = recvLoop cid es := by
  induction pre with
  | nil => rfl
  | cons e pre ih =>
    rw [List.cons_append, recvLoop_cons, decides_none_iff.mpr (h e (by simp))]
    exact ih (fun x hx => h x (by simp [hx]))

/-- the loop's outcome is decided by the first event that is not passed over -/
theorem recvLoop_decided (cid : Str) (es : List Event) :
    (recvLoop cid es = .pending ∧ ∀ e ∈ es, Skippable cid e) ∨
    ∃ pre e post o, es = pre ++ e :: post ∧ (∀ x ∈ pre, Skippable cid x) ∧ decides cid e = some o ∧
      recvLoop cid es = o := by
  induction es with
  | nil => exact Or.inl ⟨rfl, by simp⟩
  | cons e es ih =>
    cases hd : decides cid e with
    | some o =>
      exact Or.inr ⟨[], e, es, o, rfl, by simp, hd, by rw [recvLoop_cons, hd]⟩
    | none =>
      have hs := decides_none_iff.mp hd
      rcases ih with ⟨h1, h2⟩ | ⟨pre, e', post, o, h1, h2, h3, h4⟩
      · refine Or.inl ⟨by rw [recvLoop_cons, hd]; exact h1, ?_⟩
        intro x hx
        rcases List.mem_cons.mp hx with rfl | hx
        · exact hs
        · exact h2 x hx
      · refine Or.inr ⟨e :: pre, e', post, o, by rw [h1]; rfl, ?_, h3, by rw [recvLoop_cons, hd]; exact h4⟩
        intro x hx
        rcases List.mem_cons.mp hx with rfl | hx
        · exact hs
        · exact h2 x hx

theorem decides_ne_pending {cid : Str} {e : Event} {o : Outcome} (h : decides cid e = some o) :
    o ≠ .pending := by
  cases e with
  | msg f =>
    cases f with
    | obj id body =>
      simp only [decides, onFrame] at h
      split at h
      · exact absurd h (by simp)
      · injection h with h; rw [← h]; simp
    | invalid => simp only [decides, onFrame] at h; injection h with h; rw [← h]; simp
    | nonObject t => simp only [decides, onFrame] at h; injection h with h; rw [← h]; simp
  | timeout => simp only [decides] at h; injection h with h; rw [← h]; simp
  | pollError => simp only [decides] at h; injection h with h; rw [← h]; simp
  | eintr => simp [decides] at h

/-- the async batches are the same fold over the frames in arrival order -/
theorem asyncBatch_eq (cid : Str) (fs : List Frame) (rest : List Event) :
    recvLoop cid (fs.map .msg ++ rest) = match asyncBatch cid fs with
      | some o => o
      | none => recvLoop cid rest := by
  induction fs with
  | nil => rfl
  | cons f fs ih =>
    simp only [List.map_cons, List.cons_append, recvLoop, asyncBatch]
    cases onFrame cid f with
    | some o => rfl
    | none => exact ih

end Circus.Client
