import CircusProofs.Lemmas.FileStream
import CircusProofs.Props.C20
import CircusProofs.Lemmas.Argv
import CircusProofs.Props.C13
