import CircusProofs.Lemmas.FileStream
import CircusProofs.Props.C20
