import CircusProofs.Lemmas.FileStream
import CircusProofs.Props.C20
import CircusProofs.Lemmas.Argv
import CircusProofs.Props.C13
import CircusProofs.Lemmas.PyInt
import CircusProofs.Lemmas.Signum
import CircusProofs.Lemmas.Client
import CircusProofs.Lemmas.Redirector
import CircusProofs.Lemmas.RedirectorInv
import CircusProofs.Lemmas.RedirectorLeak
import CircusProofs.Lemmas.Config
import CircusProofs.Props.C06Client
import CircusProofs.Props.C18Designation
import CircusProofs.Props.C17
import CircusProofs.Props.C16
import CircusProofs.Lemmas.Pidfile
import CircusProofs.Props.C08Pidfile
import CircusProofs.Core.Pres
import CircusProofs.Core.HookFrame
import CircusProofs.Core.PresAttr
import CircusProofs.Core.Generic
import CircusProofs.Core.SlotFree
import CircusProofs.Core.DirInv
import CircusProofs.Core.Init
import CircusProofs.Core.OptionsCmd
import CircusProofs.Props.C15
import CircusProofs.Core.WsAll
import CircusProofs.Core.Calm
import CircusProofs.Props.C01
import CircusProofs.Core.SlotInv
import CircusProofs.Props.C10
import CircusProofs.Props.C06
import CircusProofs.Props.C14
import CircusProofs.Props.C03
import CircusProofs.Props.C02
import CircusProofs.Core.KStep
import CircusProofs.Core.PidInv
import CircusProofs.Core.StoppedEmpty
import CircusProofs.Props.C04
import CircusProofs.Props.C18
import CircusProofs.Props.C19
import CircusProofs.Core.NarrowAttr
import CircusProofs.Core.Narrow
import CircusProofs.Core.NoClose
import CircusProofs.Core.ArbInv
import CircusProofs.Props.C09
import CircusProofs.Props.C08
import CircusProofs.Props.C05
import CircusProofs.Props.C11
import CircusProofs.Lemmas.Reload
import CircusProofs.Props.C12
import CircusProofs.Props.C12Arbiter
import CircusProofs.Lemmas.Sockets
import CircusProofs.Props.C07
import CircusProofs.Core.WidInv
import CircusProofs.Props.C13Core
import CircusProofs.Core.EventInv
import CircusProofs.Props.C09Run
import CircusProofs.Props.C08Sockets
import CircusProofs.Core.Conv
import CircusProofs.Props.C01Conv
import CircusProofs.Core.WakeAttr
import CircusProofs.Core.WakeDefs
import CircusProofs.Core.WakePrim
import CircusProofs.Core.WakeInv
import CircusProofs.Core.WakeHeld
import CircusProofs.Props.C10Wake
import CircusProofs.Core.StopRunE
import CircusProofs.Props.C10Fail
import CircusProofs.Core.StopRun
import CircusProofs.Props.C02Run
import CircusProofs.Lemmas.StreamWiring
import CircusProofs.Props.C17Wiring
import CircusProofs.Core.StopRunG
import CircusProofs.Props.C02Run2
import CircusProofs.Props.C08Run
import CircusProofs.Core.ConvReap
import CircusProofs.Core.ConvSurplus
import CircusProofs.Core.ConvMulti
import CircusProofs.Core.ConvMultiReap
import CircusProofs.Core.ConvSurplusStub
import CircusProofs.Props.C01Conv2
import CircusProofs.Core.SigAttr
import CircusProofs.Core.SigKernel
import CircusProofs.Core.SigDefs
import CircusProofs.Core.SigSync
import CircusProofs.Core.SigPrim
-- NOT YET REPAIRED after the EPERM extension of the kernel contract (branch p4-eperm): the hand proofs of
-- Core/SigKill.lean (and with it Core/SigExec.lean, Core/SigRun.lean, Props/C03Run.lean, which import it) still
-- assume `kKill : M Bool` / `sendSignal : M Bool` / `sendSignalProcess : M Unit` and a log entry `Obs.sig p sg st ""`
-- for every signal of the daemon; a refused signal is logged with via `"!"`, ends `kill_process` with AccessDenied and
-- must be threaded through `kKill_logged`, `sendSignal_began` (the new last disjunct of `Began`), `sspTail`
-- (now `signalKids`), `kKill_nine_si` / `sendSignal_nine_si` (a refused SIGKILL is not `isNine`: nothing to justify),
-- `killFinish_si` (the AccessDenied exit: the `stopping` flag stays set — F34 — so "the loop itself clears the flag" has
-- to become "… or ends with AccessDenied") and `killProcess_si`.  SigKernel / SigDefs / SigSync / SigPrim are repaired.
-- import CircusProofs.Core.SigKill
-- import CircusProofs.Core.SigExec
-- import CircusProofs.Core.SigRun
-- import CircusProofs.Props.C03Run
