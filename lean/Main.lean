import CircusModel
/-
Line-protocol driver: one request per line on stdin, one answer per line on stdout.
First token selects the layer.
-/
open Circus

def dispatch (line : String) : String :=
  match (line.trimAscii.toString.splitOn " ").filter (· ≠ "") with
  | "fs" :: rest => FileStream.Drv.handle rest
  | "core" :: rest => Core.Drv.handle rest
  | "argv" :: rest => Argv.Drv.handle rest
  | "cfg" :: rest => Config.Drv.handle rest
  | "client" :: rest => Client.Drv.handle rest
  | "pidfile" :: rest => Pidfile.Drv.handle rest
  | "redir" :: rest => Redirector.Drv.handle rest
  | "signum" :: rest => Signum.Drv.handle rest
  | "reload" :: rest => Reload.Drv.handle rest
  | "sock" :: rest => Sockets.Drv.handle rest
  | "wiring" :: rest => Wiring.Drv.handle rest
  | _ => "bad-op"

partial def loop (h : IO.FS.Stream) (out : IO.FS.Stream) : IO Unit := do
  let line ← h.getLine
  if line.isEmpty then return ()
  out.putStrLn (dispatch line)
  loop h out

def main : IO Unit := do
  let out ← IO.getStdout
  loop (← IO.getStdin) out
  out.flush
