import CircusModel.Model.Config
/-
Model of the watcher part of `circus/arbiter.py : Arbiter.reload_from_config` (the `reloadconfig`
command, `circus/commands/reloadconfig.py`), with the pieces it calls:

* `circus/util.py : DictDiffer(new, old).changed() / added() / removed()`
                                                                → `changed`, `changedOpts`, `addedOpts`, `removedOpts`, `dictEq`
* the `_ENV_EXCEPTIONS` discard of arbiter.py                   → `discard`
* `Arbiter.get_watcher_config`                                  → `getWatcherConfig`
* `Watcher.load_from_config` + `Watcher.__init__`               → `mkWatcher`
* `Arbiter.start_watcher` / `Watcher._start` (stopped watcher)  → `startW`
* `Watcher.set_numprocesses` / `Watcher.manage_processes`       → `setNp`, `manage`
* `Watcher._stop` + `del _watchers_names[..]` + `watchers.remove` → the `filter` of the delete loop
* `Arbiter.load_from_config` + `Arbiter.start_watchers`         → `freshStart`

The daemon state is abstract: the list `Arbiter.watchers` (in list order), every watcher with its
name, the comparable dict `w._cfg`, `w.numprocesses`, whether `w._status` is `active` (otherwise
`stopped`), and the keys of `w.processes` in dict order (= spawn order: the dict only ever loses
keys or gets a new key appended); plus the next fresh pid of the kernel.  Every operation runs to
completion (kills end with the death of the process; time is not modelled).

A comparable dict (`Cfg`) is what `get_config` puts into `config['watchers']`, as `DictDiffer` sees
it: `name`, `numprocesses` (an int), every other key with the canonical text of its value (two
values are `==` in Python iff their texts are equal: `render` below), and `env` *after*
`parse_env_dict` (both `Watcher.load_from_config` and `reload_from_config` apply it exactly once to
the dict `get_config` built, so the model keeps the parsed dict).  The second half of this file
builds a `Cfg` from a watcher of the Config model (`Circus.Config.Watcher`), so that the driver can
start from the text of the configuration file.

Sets of names: the code iterates Python sets (`maybechanged_wn`, `deleted_wn`, `added_wn`), whose
order depends on the hash seed.  The model iterates them in the order of `Arbiter.watchers`
(current names) resp. of `config['watchers']` (new names).  The order only decides which of two
watchers gets the smaller fresh pids; the correspondence check compares pids up to that.

Domain (checked by the driver, stated by `ASSUMPTIONS` of harness/props/c12.py):
* the `[circus]` section and the sockets are fixed (the arbiter part of `reload_from_config`, the
  socket loops and `wn_with_changed_socket` / `wn_with_deleted_socket` are empty), no plugins;
* no two watcher names of one file are equal up to letter case (`Arbiter.get_watcher` looks names
  up in lower case; with such a pair it returns the wrong watcher, in an order that depends on the
  hash seed) — then `get_watcher(n)` is the watcher called `n`;
* `singleton`, `on_demand` and hooks are off; `max_age` does not expire during a reload; stream options
  (`stdout_stream.*` / `stderr_stream.*` lines) are part of the comparable dict like any other key.
-/
namespace Circus.Reload
open Circus.Config (Str Dict dget dset lowerS strip strLt isDigit)

abbrev Env := List (Str × Str)

/-- the comparable dict of one watcher (`config['watchers'][i]`, `w._cfg`) -/
structure Cfg where
  name : Str
  np : Int                      -- `cfg['numprocesses']`
  opts : List (Str × Str)       -- every other key except `env`: key ↦ canonical text of the value
  env : Env                     -- `parse_env_dict(cfg['env'])`
  deriving DecidableEq, Repr

def kNp : Str := cp! "numprocesses"

/-- `_ENV_EXCEPTIONS` of arbiter.py -/
def envExceptions : List Str :=
  [cp! "__CF_USER_TEXT_ENCODING", cp! "PS1", cp! "COMP_WORDBREAKS", cp! "PROMPT_COMMAND"]

/-- `for key in _ENV_EXCEPTIONS: if key in env: del env[key]` -/
def discard (e : Env) : Env := e.filter (fun kv => decide (kv.1 ∉ envExceptions))

/-- Python `dict == dict` on insertion-ordered association lists: the same keys with the same values -/
def dictEq (a b : Env) : Bool :=
  (a.map (·.1)).all (fun k => dget a k == dget b k) && (b.map (·.1)).all (fun k => dget a k == dget b k)

/-- `DictDiffer(new, old).changed()` on the keys kept in `opts`:
    the keys of both whose values differ -/
def changedOpts (new old : List (Str × Str)) : List Str :=
  (new.map (·.1)).filter (fun k =>
    match dget old k with
    | some v => dget new k != some v
    | none => false)

/-- `DictDiffer(new, old).added()` on the keys kept in `opts`: keys of `new` that `old` lacks -/
def addedOpts (new old : List (Str × Str)) : List Str :=
  (new.map (·.1)).filter (fun k => (dget old k).isNone)

/-- `DictDiffer(new, old).removed()` on the keys kept in `opts`: keys of `old` that `new` lacks -/
def removedOpts (new old : List (Str × Str)) : List Str :=
  (old.map (·.1)).filter (fun k => (dget new k).isNone)

/-- `diff = differ.changed() | differ.added() | differ.removed()` of `reload_from_config`
    as a set of keys, split along the representation of `Cfg`:
    `name`, `numprocesses` and `env` are keys of both dicts (`watcher_defaults()`,
    `watcher['env'] = …` in `get_config`), the other keys are those of `opts` -/
structure Diff where
  name : Bool                   -- `'name' in diff`
  np : Bool                     -- `'numprocesses' in diff`
  opts : List Str               -- the other keys in `diff`
  env : Bool                    -- `'env' in diff`
  deriving DecidableEq, Repr

def changed (new old : Cfg) : Diff :=
  { name := decide (new.name ≠ old.name), np := decide (new.np ≠ old.np),
    opts := changedOpts new.opts old.opts ++ addedOpts new.opts old.opts ++ removedOpts new.opts old.opts,
    env := !dictEq new.env old.env }

/-- `len(diff) == 0` -/
def Diff.isEmpty (d : Diff) : Bool := !d.name && !d.np && d.opts.isEmpty && !d.env

/-- `diff == set(['numprocesses'])` -/
def Diff.isNpOnly (d : Diff) : Bool := d.np && !d.name && d.opts.isEmpty && !d.env

/-- the text `render` gives `False` -/
def atomFalse : Str := cp! "n0e0"

/-- truth value of a bool option (`autostart`, `respawn`: keys of `watcher_defaults()`, default True) -/
def flag (c : Cfg) (k : Str) : Bool := dget c.opts k != some atomFalse

/-- a watcher of the running daemon -/
structure W where
  name : Str
  cfg : Cfg                     -- `w._cfg`
  np : Nat                      -- `w.numprocesses`
  active : Bool                 -- `w._status == "active"`, otherwise `"stopped"`
  pids : List Nat               -- `list(w.processes)`
  deriving DecidableEq, Repr

/-- `w.autostart`, `w.respawn`: set by `Watcher.__init__` from the dict the watcher was made of;
    no reload path changes these keys of `w._cfg` -/
def W.autostart (w : W) : Bool := flag w.cfg (cp! "autostart")
def W.respawn (w : W) : Bool := flag w.cfg (cp! "respawn")

structure State where
  ws : List W                   -- `arbiter.watchers`
  next : Nat                    -- next fresh pid
  deriving DecidableEq, Repr

/-- `Arbiter.get_watcher_config(config, name)` -/
def getWatcherConfig (new : List Cfg) (n : Str) : Option Cfg := new.find? (fun c => c.name = n)

/-- `Watcher.load_from_config(cfg)`: `numprocesses = max(0, int(numprocesses))`, status stopped,
    no process -/
def mkWatcher (c : Cfg) : W :=
  { name := c.name, cfg := c, np := c.np.toNat, active := false, pids := [] }

/-- `Arbiter.start_watcher(w)`: `if watcher.autostart: yield watcher._start()` on a stopped watcher:
    `spawn_processes` spawns `numprocesses - len(processes)` workers; without any process the start
    is abandoned (`if not self.processes …: yield self._stop(True); return`) -/
def startW (w : W) (nx : Nat) : W × Nat :=
  if !w.autostart then (w, nx)
  else
    let k := w.np - w.pids.length
    let pids := w.pids ++ List.range' nx k
    if pids = [] then ({ w with active := false }, nx)
    else ({ w with active := true, pids := pids }, nx + k)

/-- `Watcher.manage_processes` (no dead process, nothing expired) -/
def manage (w : W) (nx : Nat) : W × Nat :=
  if !w.active then (w, nx)                       -- `if self.is_stopped(): return`
  else
    -- adding fresh processes
    let r : W × Nat :=
      if w.pids.length < w.np then
        if w.respawn then
          ({ w with pids := w.pids ++ List.range' nx (w.np - w.pids.length) }, nx + (w.np - w.pids.length))
        else if w.pids.length = 0 then ({ w with active := false }, nx)     -- `yield self._stop()`
        else (w, nx)
      else (w, nx)
    -- removing extra processes: `sorted(processes, key=started, reverse=True)[numprocesses:]`
    -- are killed, i.e. the `numprocesses` newest stay
    if r.1.pids.length > r.1.np then
      ({ r.1 with pids := r.1.pids.drop (r.1.pids.length - r.1.np) }, r.2)
    else r

/-- `Watcher.set_numprocesses(np)` -/
def setNp (w : W) (n : Int) (nx : Nat) : W × Nat := manage { w with np := n.toNat } nx

/-- body of `for n in maybechanged_wn` for the watcher `w = get_watcher(n)` and
    `c = get_watcher_config(new_cfg, n)`: the watcher afterwards, whether it joins `changed_wn`,
    the next fresh pid -/
def changedStep (c : Cfg) (w : W) (nx : Nat) : W × Bool × Nat :=
  let newc : Cfg := { c with env := discard c.env }
  -- `old_watcher_cfg = w._cfg.copy()` with its own copy of the `env` dict: `w._cfg` stays as it is
  let oldc : Cfg := { w.cfg with env := discard w.cfg.env }
  let d := changed newc oldc
  if d.isNpOnly then
    let r := setNp w c.np nx
    ({ r.1 with cfg := { r.1.cfg with np := c.np } }, false, r.2)
  else (w, !d.isEmpty, nx)

/-- `for n in maybechanged_wn: w = self.get_watcher(n) …` in the order of `arbiter.watchers`:
    watchers afterwards, `changed_wn`, next fresh pid -/
def changedLoop (new : List Cfg) (maybe : List Str) : List W → Nat → List W × List Str × Nat
  | [], nx => ([], [], nx)
  | w :: r, nx =>
    if w.name ∈ maybe then
      match getWatcherConfig new w.name with
      | some c =>
        let s := changedStep c w nx
        let t := changedLoop new maybe r s.2.2
        (s.1 :: t.1, if s.2.1 then w.name :: t.2.1 else t.2.1, t.2.2)
      | none =>                                    -- cannot happen: `maybechanged_wn ⊆ new_wn`
        let t := changedLoop new maybe r nx
        (w :: t.1, t.2.1, t.2.2)
    else
      let t := changedLoop new maybe r nx
      (w :: t.1, t.2.1, t.2.2)

/-- `for n in added_wn`: `Watcher.load_from_config`, `initialize`, `start_watcher`, `append` -/
def addLoop : List Cfg → Nat → List W × Nat
  | [], nx => ([], nx)
  | c :: r, nx =>
    let s := startW (mkWatcher c) nx
    let t := addLoop r s.2
    (s.1 :: t.1, t.2)

/-- `Arbiter.reload_from_config`, watcher part -/
def reload (st : State) (new : List Cfg) : State :=
  -- Gather watcher names.
  let currentWn := st.ws.map (·.name)
  let newWn := new.map (·.name)
  let addedWn := newWn.filter (fun n => decide (n ∉ currentWn))
  let deletedWn := currentWn.filter (fun n => decide (n ∉ newWn))
  let maybechangedWn := currentWn.filter (fun n => decide (n ∉ deletedWn))
  -- get changed watchers
  let r := changedLoop new maybechangedWn st.ws st.next
  let deletedWn := deletedWn ++ r.2.1
  let addedWn := addedWn ++ r.2.1
  -- delete watchers: `yield w._stop()` kills every worker, the watcher leaves the list
  let ws2 := r.1.filter (fun w => decide (w.name ∉ deletedWn))
  -- add watchers
  let a := addLoop (new.filter (fun c => decide (c.name ∈ addedWn))) r.2.2
  { ws := ws2 ++ a.1, next := a.2 }

/-! ### the arbiter part: a changed `[circus]` section restarts everything

`reload_from_config` begins with `if self.get_arbiter_config(new_cfg) != self._cfg: yield self._restart(…); return`.
The `reloadconfig` command passes `inside_circusd=False`, so `_restart` is `_stop_watchers()` followed by
`_start_watchers()` on the watchers the daemon already has: nothing of the new file is applied, and
`Arbiter._cfg` (set by `load_from_config` only) keeps the value of the daemon start — every later
reload of a file whose `[circus]` section still differs from the *first* one restarts everything again. -/

/-- `Arbiter._stop_watchers()`: `yield w._stop()` for every watcher (a stopped one stays as it is) -/
def stopAll (ws : List W) : List W := ws.map (fun w => { w with active := false, pids := [] })

/-- `Arbiter._start_watchers()`: `if watcher.autostart: yield watcher._start()` for every watcher
    (the code goes by priority; the order only decides who gets the smaller fresh pids) -/
def startLoop : List W → Nat → List W × Nat
  | [], nx => ([], nx)
  | w :: r, nx =>
    let s := startW w nx
    let t := startLoop r s.2
    (s.1 :: t.1, t.2)

/-- `Arbiter._restart(inside_circusd=False)` -/
def restartAll (st : State) : State :=
  let a := startLoop (stopAll st.ws) st.next
  { ws := a.1, next := a.2 }

/-- the daemon with the arbiter configuration it was started with (`Arbiter._cfg`, as a canonical text) -/
structure AState where
  arb : Str
  st : State
  deriving DecidableEq, Repr

/-- `Arbiter.reload_from_config` with its arbiter part: one version = (canonical text of the arbiter
    configuration of the file, comparable dicts of its watchers) -/
def reloadA (a : AState) (v : Str × List Cfg) : AState :=
  if v.1 ≠ a.arb then { a with st := restartAll a.st }
  else { a with st := reload a.st v.2 }

def runA (a : AState) (versions : List (Str × List Cfg)) : AState := versions.foldl reloadA a

/-- the states after the start and after every reload -/
def traceA (a : AState) : List (Str × List Cfg) → List State
  | [] => [a.st]
  | v :: r => a.st :: traceA (reloadA a v) r

/-- a fresh daemon start on a file: `Arbiter.load_from_config`, `Arbiter.start_watchers` -/
def freshStart (cfgs : List Cfg) (nx : Nat) : State :=
  let a := addLoop cfgs nx
  { ws := a.1, next := a.2 }

/-- edit the file and `reloadconfig`, version after version -/
def run (st : State) (versions : List (List Cfg)) : State := versions.foldl reload st

/-- the states after the start and after every reload -/
def trace (st : State) : List (List Cfg) → List State
  | [] => [st]
  | v :: r => st :: trace (reload st v) r

/-! ### from the Config model to comparable dicts -/

def isUpper (c : Nat) : Bool := 65 ≤ c && c ≤ 90
def isVarChar (c : Nat) : Bool := isUpper c || isDigit c || c == 95

/-- `re.sub(r'\$([A-Z]+[A-Z0-9_]*)', replace_env, v)`, `replace_env = os.getenv(name)` (`None`
    substitutes nothing); `skip` = characters of a match still to be passed over -/
def substEnv (osenv : Dict Str) : Nat → Str → Str
  | _, [] => []
  | k + 1, _ :: r => substEnv osenv k r
  | 0, 36 :: r =>
    match r with
    | c :: _ =>
      if isUpper c then
        let nm := r.takeWhile isVarChar
        ((dget osenv nm).getD []) ++ substEnv osenv nm.length r
      else 36 :: substEnv osenv 0 r
    | [] => [36]
  | 0, c :: r => c :: substEnv osenv 0 r

/-- `parse_env_dict(env)` -/
def parseEnvDict (osenv : Dict Str) (env : Dict Str) : Env :=
  env.foldl (fun acc kv => dset acc (strip kv.1) (strip (substEnv osenv 0 kv.2))) []

def decimal (n : Nat) : Str := (toString n).toList.map Char.toNat

/-- canonical text of a number `m / 10^e` (Python: `1 == 1.0 == True`) -/
def renderNum (m : Int) (e : Nat) : Str :=
  110 :: ((if m < 0 then [45] else []) ++ decimal m.natAbs ++ 101 :: decimal e)

/-- length-prefixed text: `<len>:<text>` -/
def lp (s : Str) : Str := decimal s.length ++ 58 :: s

/-- canonical text of a value of the dict: two values are `==` in Python iff the texts are equal -/
def render : Config.Val → Str
  | .none => [78]
  | .int i => renderNum i 0
  | .dec m e => renderNum m e
  | .bool b => renderNum (if b then 1 else 0) 0
  | .str s => 115 :: s

/-- canonical text of a dict value (`rlimits`, `hooks`, the stream dicts): items sorted by key -/
def renderDict {α} (f : α → Str) (d : Dict α) : Str :=
  100 :: ((Config.sortBy (fun kv : Str × α => kv.1) d).map (fun kv => lp kv.1 ++ lp (f kv.2))).flatten

/-- the dict `get_config` builds for a watcher, as `DictDiffer` compares it -/
def cfgOf (osenv : Dict Str) (w : Config.Watcher) : Cfg :=
  { name := w.name
    np := (match dget w.opts kNp with
      | some (.int i) => i
      | _ => 1)
    opts := ((w.opts.filter (fun kv => kv.1 ≠ kNp)).map (fun kv => (kv.1, render kv.2))
          ++ [ (cp! "rlimits", renderDict (fun i => renderNum i 0) w.rlimits),
               (cp! "stderr_stream", renderDict (fun s => 115 :: s) w.stderr),
               (cp! "stdout_stream", renderDict (fun s => 115 :: s) w.stdout),
               (cp! "hooks", renderDict (fun h : Str × Bool =>
                  108 :: (lp (115 :: h.1) ++ lp (renderNum (if h.2 then 1 else 0) 0))) w.hooks) ])
    env := parseEnvDict osenv w.env }

/-- names equal up to letter case -/
def caseClash (names : List Str) : Bool :=
  match names with
  | [] => false
  | n :: r => r.any (fun m => lowerS m == lowerS n) || caseClash r

end Circus.Reload
