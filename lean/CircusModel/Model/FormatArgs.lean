import CircusModel.Model.GnuArgs
import CircusModel.Model.Shlex
/-
Model of `circus/process.py` : `Process.format_args`, the `Popen(...)` call of `Process.spawn`;
`circus/watcher.py` : the env assembly of `Watcher.__init__` (`copy_env` / `copy_path` / `env`),
the `Process(...)` construction of `Watcher.spawn_process`, and `Watcher._nextwid`.

Parameters (not modelled, handed in already evaluated):
* `str(x)` of option values (`argsStr = str(self.args)`, the `extra` table);
* `os.environ`, `os.pathsep.join(sys.path)`, `working_dir or get_working_dir()`;
* uid/gid/rlimits/preexec_fn, virtualenv, hooks, stream redirection: not part of C13.

Left out and why it is exact: the deprecated `$WID` branch of `format_args` only emits a
`DeprecationWarning` and assigns `self.cmd`; the local `cmd` used for the result of *this* call is
not changed, and a `Process` formats its arguments once.  `IS_WINDOWS` is false.
-/
namespace Circus.FormatArgs
open Circus.GnuArgs Circus.Shlex

abbrev Str := List Nat
abbrev Env := List (Str × Str)

/-- `args` / `shell_args`: `None`, a string or a list of strings -/
inductive Args where
  | none
  | str (s : Str)
  | list (xs : List Str)
deriving Repr

/-- `str(n)` for a non-negative int -/
def decimal (n : Nat) : Str := (Nat.toDigits 10 n).map Char.toNat

/-- `str(b)` -/
def pyBool (b : Bool) : Str :=
  if b then [84, 114, 117, 101] else [70, 97, 108, 115, 101]

/-- the fields of a `Process` that `format_args` / `spawn` read -/
structure Proc where
  wid : Nat
  cmd : Str
  args : Args
  /-- `str(self.args)` -/
  argsStr : Str
  shell : Bool
  /-- `self.env = env or {}` -/
  env : Env
  /-- `self.working_dir` -/
  cwd : Str
  /-- the remaining `format_kwargs` in insertion order: uid, gid, rlimits, executable, use_fds,
      [sockets], then the watcher's options that are not yet present -/
  extra : List (Str × Val)
  /-- `format_kwargs.get('shell_args')` -/
  shellArgs : Args
  useFds : Bool
  executable : Option Str
  pipeStdout : Bool
  pipeStderr : Bool

/-- `format_kwargs` -/
def formatKwargs (p : Proc) : List (Str × Val) :=
  [ ([119, 105, 100], .scalar (decimal p.wid)),                                   -- 'wid'
    ([115, 104, 101, 108, 108], .scalar (pyBool p.shell)),                        -- 'shell'
    ([97, 114, 103, 115], .scalar p.argsStr),                                     -- 'args'
    ([101, 110, 118], .dict p.env),                                               -- 'env'
    ([119, 111, 114, 107, 105, 110, 103, 95, 100, 105, 114], .scalar p.cwd) ]     -- 'working_dir'
  ++ p.extra

/-- first half of `format_args()`: the argument vector before the `if self.shell:` block;
    a `ValueError` of `shlex.split` is the `.error` outcome -/
def baseArgs (p : Proc) : Except Err (List Str) :=
  let kw := formatKwargs p
  let cmd := replaceGnuArgs kw p.cmd
  match p.args with
  | .str s => do
      let a ← split (replaceGnuArgs kw s)
      let c ← split cmd
      pure (c ++ a)
  | .list xs => do
      let a := xs.map (replaceGnuArgs kw)
      let c ← split cmd
      pure (c ++ a)
  | .none => split cmd

/-- the arguments appended after the `sh -c` line (`shell_args`) -/
def shellExtra (p : Proc) : Except Err (List Str) :=
  let kw := formatKwargs p
  match p.shellArgs with
  | .str s => split (replaceGnuArgs kw s)
  | .list xs => pure (xs.map (replaceGnuArgs kw))
  | .none => pure []

/-- `format_args()` -/
def formatArgs (p : Proc) : Except Err (List Str) := do
  let args ← baseArgs p
  if p.shell then
    let line := [joinSp (args.map quote)]
    let sa ← shellExtra p
    pure (line ++ sa)
  else
    pure args

/-- the keyword arguments of the `Popen(...)` call in `Process.spawn` that C13 speaks about -/
structure PopenObs where
  argv : List Str
  cwd : Str
  shell : Bool
  env : Env
  closeFds : Bool
  executable : Option Str
  pipeStdout : Bool
  pipeStderr : Bool
deriving Repr

/-- `Process.spawn` up to the `Popen` call -/
def spawn (p : Proc) : Except Err PopenObs := do
  let argv ← formatArgs p
  pure { argv := argv, cwd := p.cwd, shell := p.shell, env := p.env, closeFds := !p.useFds,
         executable := p.executable, pipeStdout := p.pipeStdout, pipeStderr := p.pipeStderr }

/-! ### Watcher side -/

/-- `d.update(e)` -/
def dictUpdate (d e : Env) : Env := e.foldl (fun d kv => dictSet d kv.1 kv.2) d

/-- `"PYTHONPATH"` -/
def pythonpath : Str := [80, 89, 84, 72, 79, 78, 80, 65, 84, 72]

inductive WErr where
  /-- `ValueError('copy_env and copy_path must have the same value')` -/
  | copyPathWithoutCopyEnv
deriving DecidableEq, Repr

/-- the `self.env` computed by `Watcher.__init__` -/
def watcherEnv (copyEnv copyPath : Bool) (osEnviron : Env) (sysPath : Str) (env : Option Env) :
    Except WErr (Option Env) :=
  if copyEnv then
    let e := osEnviron                                                  -- os.environ.copy()
    let e := if copyPath then dictSet e pythonpath sysPath else e
    let e := match env with
      | some x => dictUpdate e x
      | none => e
    .ok (some e)
  else if copyPath then .error .copyPathWithoutCopyEnv
  else .ok env

/-- `range(1, numprocesses * 2 + 1)` -/
def allWids (np : Nat) : List Nat := (List.range (np * 2)).map (· + 1)

/-- `Watcher._nextwid`; `none` = `RuntimeError("Process count > numproceses*2")` -/
def nextWid (np : Nat) (used : List Nat) : Option Nat :=
  ((allWids np).filter (fun w => !used.contains w)).head?

/-- the configuration of a watcher as far as `spawn_process` reads it -/
structure Watcher where
  cmd : Str
  args : Args
  argsStr : Str
  shell : Bool
  shellArgs : Args
  workingDir : Str
  /-- `self.env` (result of `watcherEnv`) -/
  env : Option Env
  useSockets : Bool
  numprocesses : Nat
  /-- `stdout_stream is not None`, `stderr_stream is not None` -/
  pipeStdout : Bool
  pipeStderr : Bool
  /-- the `executable` given to the constructor; `Watcher.__init__` stores `None` instead -/
  executableCfg : Option Str
  extra : List (Str × Val)

inductive SpawnRes where
  /-- `_nextwid` raised `RuntimeError` (propagates out of `spawn_process`) -/
  | raised
  /-- `format_args` raised `ValueError`: caught, retried `max_retry` times with the same
      outcome, `spawn_process` returns `False` and `Popen` is never called -/
  | failed (e : Err)
  | ok (wid : Nat) (obs : PopenObs)

/-- `str(None)` -/
def pyNone : Str := [78, 111, 110, 101]

/-- the `Process` that `spawn_process` constructs for worker id `wid` -/
def mkProc (w : Watcher) (wid : Nat) : Proc :=
  -- cmd = util.replace_gnu_args(self.cmd, env=self.env)
  let envVal : Val := match w.env with
    | some e => .dict e
    | none => .scalar pyNone
  let cmd := replaceGnuArgs [([101, 110, 118], envVal)] w.cmd
  { wid := wid, cmd := cmd, args := w.args, argsStr := w.argsStr, shell := w.shell,
    env := w.env.getD [],                       -- `env or {}`
    cwd := w.workingDir, extra := w.extra, shellArgs := w.shellArgs,
    useFds := w.useSockets,
    executable := none,                         -- `self.executable = None` in Watcher.__init__
    pipeStdout := w.pipeStdout, pipeStderr := w.pipeStderr }

/-- `Watcher.spawn_process()` with `used` = wids of `self.processes` -/
def spawnProcess (w : Watcher) (used : List Nat) : SpawnRes :=
  match nextWid w.numprocesses used with
  | none => .raised
  | some wid =>
    match spawn (mkProc w wid) with
    | .error e => .failed e
    | .ok obs => .ok wid obs

/-! ### histories of the wid set (spawn / death / incr / decr) -/

inductive Op where
  /-- `spawn_process()` -/
  | spawn
  /-- the `i`-th live process (insertion order) leaves `self.processes` -/
  | die (i : Nat)
  /-- `numprocesses` is set (incr / decr / set) -/
  | setNp (n : Nat)
deriving Repr

structure WState where
  np : Nat
  wids : List Nat

/-- one step; the second component is the wid handed out (`some none` = raised) -/
def stepOp (s : WState) : Op → WState × Option (Option Nat)
  | .spawn =>
    match nextWid s.np s.wids with
    | some w => ({ s with wids := s.wids ++ [w] }, some (some w))
    | none => (s, some none)
  | .die i => ({ s with wids := s.wids.eraseIdx i }, none)
  | .setNp n => ({ s with np := n }, none)

def runOps (s : WState) : List Op → WState
  | [] => s
  | o :: os => runOps (stepOp s o).1 os

/-- the answers of the spawns of a history -/
def traceOps (s : WState) : List Op → List (Option Nat)
  | [] => []
  | o :: os =>
    match (stepOp s o).2 with
    | some r => r :: traceOps (stepOp s o).1 os
    | none => traceOps (stepOp s o).1 os

end Circus.FormatArgs
