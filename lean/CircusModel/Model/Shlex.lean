/-
Model of CPython 3.12 `shlex.py`: `shlex.split(s)` and `shlex.quote(s)`.

`split(s)` = `list(shlex(s, posix=True))` with `whitespace_split = True`, `commenters = ''`,
`punctuation_chars = ''`.  `read_token` is transliterated for exactly that configuration: the
branches guarded by `commenters`, `punctuation_chars`, `not posix`, state `'c'` and the final
"punctuation in word state" branch are unreachable and left out; `wordchars` and the
`whitespace_split` branch have the same effect and are merged.

`self.state` survives from one `read_token` call to the next, `quoted`, `escapedstate` and
`self.token` start afresh (`fresh`).  A `break` is an emitted token.  States: `' '` = `ws`,
`'a'` = `word`, a quote character = `quo q`, the escape character = `esc`; state `None`
(end of file) is the end of the input list.
-/
namespace Circus.Shlex

abbrev Str := List Nat

inductive St where
  | ws | word | quo (q : Nat) | esc
deriving DecidableEq, Repr

structure Lex where
  state : St
  /-- `escapedstate` -/
  escaped : St
  quoted : Bool
  token : Str
deriving DecidableEq, Repr

/-- the two `ValueError`s of `read_token` -/
inductive Err where
  | noClosingQuotation | noEscapedCharacter
deriving DecidableEq, Repr

/-- `self.whitespace = ' \t\r\n'` -/
def isWs (c : Nat) : Bool := c == 32 || c == 9 || c == 13 || c == 10
/-- `self.quotes = '\'"'` -/
def isQuote (c : Nat) : Bool := c == 39 || c == 34
/-- `self.escape = '\\'` -/
def isEscape (c : Nat) : Bool := c == 92
/-- `self.escapedquotes = '"'` -/
def isEscapedQuote (c : Nat) : Bool := c == 34

/-- start of a `read_token` call with `self.state = st` -/
def fresh (st : St) : Lex := ⟨st, .ws, false, []⟩

/-- `if self.token or (self.posix and quoted)` -/
def Lex.hasToken (L : Lex) : Bool := !L.token.isEmpty || L.quoted

/-- the token stream: `read_token` iterated until it returns `None` -/
def go : Lex → Str → Except Err (List Str)
  | L, [] =>
    match L.state with
    | .ws => .ok []                                   -- state = None; result '' unquoted = EOF
    | .word => .ok (if L.hasToken then [L.token] else [])
    | .quo _ => .error .noClosingQuotation
    | .esc => .error .noEscapedCharacter
  | L, c :: cs =>
    match L.state with
    | .ws =>
      if isWs c then
        if L.hasToken then (L.token :: ·) <$> go (fresh .ws) cs else go L cs
      else if isEscape c then go { L with escaped := .word, state := .esc } cs
      else if isQuote c then go { L with state := .quo c } cs
      else go { L with token := [c], state := .word } cs       -- wordchars / whitespace_split
    | .quo q =>
      -- quoted = True
      if c = q then go { L with quoted := true, state := .word } cs
      else if isEscape c && isEscapedQuote q then
        go { L with quoted := true, escaped := .quo q, state := .esc } cs
      else go { L with quoted := true, token := L.token ++ [c] } cs
    | .esc =>
      let tok := match L.escaped with
        | .quo e => if c ≠ 92 ∧ c ≠ e then L.token ++ [92] else L.token
        | _ => L.token
      go { L with token := tok ++ [c], state := L.escaped } cs
    | .word =>
      if isWs c then
        if L.hasToken then (L.token :: ·) <$> go (fresh .ws) cs else go { L with state := .ws } cs
      else if isQuote c then go { L with state := .quo c } cs
      else if isEscape c then go { L with escaped := .word, state := .esc } cs
      else go { L with token := L.token ++ [c] } cs

/-- `shlex.split(s)` -/
def split (s : Str) : Except Err (List Str) := go (fresh .ws) s

/-- the class `\w @ % + = : , . / -` with `re.ASCII`: the characters `_find_unsafe` does not find -/
def isSafe (c : Nat) : Bool :=
  (48 ≤ c && c ≤ 57) || (65 ≤ c && c ≤ 90) || (97 ≤ c && c ≤ 122) || c == 95 ||
  c == 64 || c == 37 || c == 43 || c == 61 || c == 58 || c == 44 || c == 46 || c == 47 || c == 45

/-- `s.replace("'", "'\"'\"'")` -/
def replaceSq : Str → Str
  | [] => []
  | c :: cs => if c = 39 then [39, 34, 39, 34, 39] ++ replaceSq cs else c :: replaceSq cs

/-- `shlex.quote(s)` -/
def quote (s : Str) : Str :=
  if s.isEmpty then [39, 39]
  else if s.all isSafe then s
  else [39] ++ replaceSq s ++ [39]

/-- `' '.join(xs)` -/
def joinSp : List Str → Str
  | [] => []
  | [x] => x
  | x :: y :: r => x ++ 32 :: joinSp (y :: r)

end Circus.Shlex
