import CircusModel.Model.PyInt
/-
Model of `circus.util.to_signum` (circus/util.py, as repaired by "fix: to_signum refuses
everything that is not a documented signal designation") and of the places it is reached from:

  * `Signal.validate`  (circus/commands/sendsignal.py)   ValueError → MessageError('signal invalid')
  * `Kill.validate`    (circus/commands/kill.py)         the same, only when 'signum' is present
  * `validate_option('stop_signal', v)` (circus/commands/util.py) + `Watcher.set_opt('stop_signal', v)`
  * `convert_option('stop_signal', v)`  (circus/commands/util.py; circusctl `set` command line)
  * `circus/config.py`: `watcher['stop_signal'] = to_signum(val)` (val: the ini string)

What JSON / an ini file can deliver is `SigArg`.  Strings are lists of code points; the stated
domain is ASCII text (see `PyInt.lean`): `str.upper`, `str.strip`, `\w` and `\d` are modelled on
ASCII only (`'ſigterm'.upper() == 'SIGTERM'` is outside the domain).

The platform signal table (`signal.Signals` members reachable as attributes of the `signal`
module, aliases included) and `signal.NSIG` are literals for Linux x86-64 / CPython 3.12; the
correspondence check compares them with the running interpreter's on every run.
-/
namespace Circus.Signum
open Circus.PyInt

/-- what a JSON request / a config file can hand to `to_signum`:
    `other` = None, list, dict (everything `int()` answers with TypeError). -/
inductive SigArg where
  | int (i : Int)
  | str (s : Str)
  | bool (b : Bool)
  | float
  | other
  deriving Repr, DecidableEq

inductive SigRes where
  | ok (n : Nat)
  | valueError
  deriving Repr, DecidableEq

/-- code points of a literal -/
def S (s : String) : Str := s.toList.map Char.toNat

/-- `{name: int(v) for name, v in vars(signal).items() if isinstance(v, signal.Signals)}` -/
def sigTable : List (Str × Nat) := [
  (S "SIGHUP", 1),
  (S "SIGINT", 2),
  (S "SIGQUIT", 3),
  (S "SIGILL", 4),
  (S "SIGTRAP", 5),
  (S "SIGABRT", 6),
  (S "SIGIOT", 6),
  (S "SIGBUS", 7),
  (S "SIGFPE", 8),
  (S "SIGKILL", 9),
  (S "SIGUSR1", 10),
  (S "SIGSEGV", 11),
  (S "SIGUSR2", 12),
  (S "SIGPIPE", 13),
  (S "SIGALRM", 14),
  (S "SIGTERM", 15),
  (S "SIGSTKFLT", 16),
  (S "SIGCHLD", 17),
  (S "SIGCLD", 17),
  (S "SIGCONT", 18),
  (S "SIGSTOP", 19),
  (S "SIGTSTP", 20),
  (S "SIGTTIN", 21),
  (S "SIGTTOU", 22),
  (S "SIGURG", 23),
  (S "SIGXCPU", 24),
  (S "SIGXFSZ", 25),
  (S "SIGVTALRM", 26),
  (S "SIGPROF", 27),
  (S "SIGWINCH", 28),
  (S "SIGIO", 29),
  (S "SIGPOLL", 29),
  (S "SIGPWR", 30),
  (S "SIGSYS", 31),
  (S "SIGRTMIN", 34),
  (S "SIGRTMAX", 64)]

/-- `signal.NSIG` -/
def NSIG : Nat := 65

/-- `'SIG'` -/
def SIG : Str := [83, 73, 71]

/-- `base = getattr(signal, name, None); isinstance(base, signal.Signals)` -/
def lookup (name : Str) : Option Nat := sigTable.lookup name

/-- `str.isspace` on ASCII: 9..13 and 28..32 (what `str.strip()` removes). -/
def isStrSpace (c : Nat) : Bool := (9 ≤ c && c ≤ 13) || (28 ≤ c && c ≤ 32)

/-- `str.strip()` -/
def strip (s : Str) : Str := ((s.dropWhile isStrSpace).reverse.dropWhile isStrSpace).reverse

/-- `\w` for an ASCII str pattern -/
def isWord (c : Nat) : Bool := isDigit c || (65 ≤ c && c ≤ 90) || (97 ≤ c && c ≤ 122) || c = 95

/-- `str.upper()` on ASCII -/
def upper (c : Nat) : Nat := if 97 ≤ c ∧ c ≤ 122 then c - 32 else c
def upperS (s : Str) : Str := s.map upper

/-- `re.fullmatch(r'(\w+)(\+(\d+))?', t)`: `some (group 1, group 3)`.  `+` is not a word
    character, so the greedy `\w+` can only end where the first non-word character is. -/
def fullmatch (t : Str) : Option (Str × Option Str) :=
  if (t.takeWhile isWord).isEmpty then none
  else
    match t.dropWhile isWord with
    | [] => some (t.takeWhile isWord, none)
    | 43 :: ds => if !ds.isEmpty && ds.all isDigit then some (t.takeWhile isWord, some ds) else none
    | _ => none

/-- the `if val is None and isinstance(signum, str):` block: the value it leaves in `val`.
    `int(m.group(3))` raises ValueError on more than 4300 digits; that leaves `to_signum` with
    ValueError, the same outcome as `val = None`, so both are `none` here. -/
def nameVal (s : Str) : Option Int :=
  match fullmatch (strip s) with
  | none => none
  | some (w, g3) =>
    let name := upperS w
    let name := if SIG.isPrefixOf name then name else SIG ++ name
    match (match g3 with | some ds => parse ds | none => some 0) with
    | none => none
    | some offset =>
      match lookup name with
      | some base => some (Int.ofNat base + offset)
      | none => none

/-- `if val is not None and 0 < val < signal.NSIG: return val` / `raise ValueError` -/
def rangeCheck (val : Option Int) : SigRes :=
  match val with
  | some v => if 0 < v ∧ v < Int.ofNat NSIG then .ok v.toNat else .valueError
  | none => .valueError

/-- `circus.util.to_signum` -/
def toSignum : SigArg → SigRes
  | .bool _ => .valueError                 -- isinstance(signum, (bool, float))
  | .float => .valueError
  | .int i => rangeCheck (some i)          -- int(signum) is signum
  | .other => rangeCheck none              -- int() raises TypeError; not a str
  | .str s =>
    match parse s with                     -- val = int(signum)
    | some v => rangeCheck (some v)
    | none => rangeCheck (nameVal s)

/-! ### the places `to_signum` is reached from -/

inductive Reply where
  | accepted (signum : Option Nat)   -- validate returned; props['signum'] (none: not given)
  | messageError                     -- MessageError('signal invalid') → error reply
  deriving Repr, DecidableEq

/-- `Signal.validate` on a message that carries `signum` -/
def signalValidate (x : SigArg) : Reply :=
  match toSignum x with
  | .ok n => .accepted (some n)
  | .valueError => .messageError

/-- `Kill.validate`: `signum` is optional -/
def killValidate (x : Option SigArg) : Reply :=
  match x with
  | none => .accepted none
  | some x =>
    match toSignum x with
    | .ok n => .accepted (some n)
    | .valueError => .messageError

inductive SetRes where
  | notInteger        -- validate_option: MessageError("'stop_signal' isn't an integer")
  | valueError        -- Watcher.set_opt raised ValueError (to_signum)
  | done
  deriving Repr, DecidableEq

/-- `isinstance(val, int)` in `validate_option` (a bool is an int) -/
def isPyInt : SigArg → Bool
  | .int _ => true
  | .bool _ => true
  | _ => false

/-- `set` request with option `stop_signal`: `validate_option` then `Watcher.set_opt`;
    second component = `watcher.stop_signal` afterwards. -/
def setStopSignal (cur : Nat) (x : SigArg) : SetRes × Nat :=
  if isPyInt x then
    match toSignum x with
    | .ok n => (.done, n)
    | .valueError => (.valueError, cur)
  else (.notInteger, cur)

/-- `convert_option('stop_signal', val)` (circusctl command line: `val` is a string) -/
def convertOption (x : SigArg) : SigRes := toSignum x

/-- config file `stop_signal = …` (config.py): the ini value is a string -/
def configStopSignal (s : Str) : SigRes := toSignum (.str s)

end Circus.Signum
