/-
Model of the stream *wiring* of a watcher: which stream object each output channel of a worker
is delivered to.

  circus/watcher.py          `Watcher.__init__` (stdout_stream_conf / stderr_stream_conf, get_stream),
                             `_reload_stream` (what `set <w> stdout_stream.<k> <v>` does through `set_opt`),
                             `_create_redirectors`, the redirector / stream parts of `_start`, `_stop`,
                             `_restart`, `spawn_process`
  circus/stream/__init__.py  `get_stream(conf, reload=False)`
  circus/stream/redirector.py `Redirector.__init__ / get_stream / change_stream / start / stop`,
                             `Handler.__call__` (`self.redirector.redirect[self.name](datamap)`)

Transliteration rules: same guards in the same order, same order of writes.  Python objects are
references: a stream is a `Ref`, its mutable `closed` state lives in the set `State.closed`, what it
was built from (ghost: the channel whose configuration was handed to `get_stream`, the class, the
keyword arguments = snapshot of the conf) lives in `State.heap` under its identity number.

Dicts are ordered association lists (CPython dicts keep insertion order; `d[k] = v` on an existing
key keeps its position).  Keys and values are numbers; three keys have a meaning for `get_stream`:
`class` (0), `stream` (1), `filename` (2).  The value of a `class` key names a class; only what the
watcher asks of a class matters here (`hasattr(s, 'close')`, `hasattr(s, 'open')`), see `clsOf`.

Not modelled (parameters of the check, see harness/props/c17_wiring.py): failing imports /
constructors, falsy stream objects, which pipes a worker has, process management.
-/
namespace Circus.Wiring

inductive Chan where
  | out | err
  deriving DecidableEq, Repr

def Chan.other : Chan → Chan
  | .out => .err
  | .err => .out

/-! ## ordered dicts -/

abbrev Conf := List (Nat × Nat)

def kClass : Nat := 0
def kStream : Nat := 1
def kFilename : Nat := 2

/-- `d.get(k)` / `d[k]` -/
def cget (c : Conf) (k : Nat) : Option Nat :=
  match c with
  | [] => none
  | (k', v) :: rest => if k' = k then some v else cget rest k

/-- `k in d` -/
def chas (c : Conf) (k : Nat) : Bool := (cget c k).isSome

/-- `d[k] = v` -/
def cset (c : Conf) (k v : Nat) : Conf :=
  match c with
  | [] => [(k, v)]
  | (k', v') :: rest => if k' = k then (k, v) :: rest else (k', v') :: cset rest k v

/-- `d.pop(k)` (the dict without the key) -/
def cpop (c : Conf) (k : Nat) : Conf := c.filter (fun kv => kv.1 ≠ k)

/-! ## stream classes and objects -/

/-- what the watcher can tell about a stream class -/
inductive Cls where
  | file      -- circus.stream.FileStream, chosen by get_stream for a conf with `filename` and no `class`
  | full      -- a class with `close` and `open`
  | closeOnly -- a class with `close` only (QueueStream, StdoutStream, …)
  | bare      -- a plain callable
  deriving DecidableEq, Repr

/-- the class a `class` value names (the harness maps value `v` to one of three recording classes) -/
def clsOf (v : Nat) : Cls :=
  if v % 3 = 0 then .full else if v % 3 = 1 then .closeOnly else .bare

def Cls.hasClose : Cls → Bool
  | .bare => false
  | _ => true

def Cls.hasOpen : Cls → Bool
  | .file => true
  | .full => true
  | _ => false

/-- a Python reference to a stream object: built by `get_stream` (identity number) or handed in
    ready-made under the `stream` key (identified by the value) -/
inductive Ref where
  | built (id : Nat)
  | given (v : Nat)
  deriving DecidableEq, Repr

/-- ghost record of one `cls(**conf)` call: the channel whose conf was passed, the class, the kwargs -/
structure Built where
  chan : Chan
  cls : Cls
  kwargs : Conf
  deriving DecidableEq, Repr

/-- `Redirector`: `self.redirect = {'stdout': …, 'stderr': …}`, `self.running` -/
structure Redir where
  tOut : Option Ref
  tErr : Option Ref
  running : Bool
  deriving DecidableEq, Repr

/-- `Redirector.get_stream(name)` = `self.redirect.get(name)` -/
def Redir.target (r : Redir) : Chan → Option Ref
  | .out => r.tOut
  | .err => r.tErr

/-- `Redirector.change_stream(name, writer)` -/
def Redir.change (r : Redir) (ch : Chan) (x : Option Ref) : Redir :=
  match ch with
  | .out => { r with tOut := x }
  | .err => { r with tErr := x }

/-- `Redirector.start()` as far as the wiring goes -/
def Redir.start (r : Redir) : Redir := { r with running := true }

structure State where
  confOut : Option Conf          -- self.stdout_stream_conf (None possible through the API)
  confErr : Option Conf          -- self.stderr_stream_conf
  sOut : Option Ref              -- self.stdout_stream
  sErr : Option Ref              -- self.stderr_stream
  red : Option Redir             -- self.stream_redirector
  heap : List Built              -- every stream built so far; identity number = index
  closed : List Ref              -- the objects that are closed right now
  stopped : Bool                 -- self._status == 'stopped'
  deriving DecidableEq, Repr

def State.conf (s : State) : Chan → Option Conf
  | .out => s.confOut
  | .err => s.confErr

def State.attr (s : State) : Chan → Option Ref
  | .out => s.sOut
  | .err => s.sErr

def State.setConf (s : State) (ch : Chan) (c : Option Conf) : State :=
  match ch with
  | .out => { s with confOut := c }
  | .err => { s with confErr := c }

def State.setAttr (s : State) (ch : Chan) (x : Option Ref) : State :=
  match ch with
  | .out => { s with sOut := x }
  | .err => { s with sErr := x }

/-- the class of the object behind a reference (`none`: an identity number never handed out) -/
def State.clsOfRef (s : State) : Ref → Option Cls
  | .built i => (s.heap[i]?).map (·.cls)
  | .given v => some (clsOf v)

/-- `hasattr(x, 'close')` -/
def State.hasClose (s : State) (x : Ref) : Bool :=
  match s.clsOfRef x with
  | some c => c.hasClose
  | none => false

/-- `hasattr(x, 'open')` -/
def State.hasOpen (s : State) (x : Ref) : Bool :=
  match s.clsOfRef x with
  | some c => c.hasOpen
  | none => false

/-- `x.close()` -/
def State.close (s : State) (x : Ref) : State := { s with closed := x :: s.closed }

/-- `x.open()` -/
def State.open (s : State) (x : Ref) : State := { s with closed := s.closed.filter (· ≠ x) }

def State.isClosed (s : State) (x : Ref) : Bool := s.closed.contains x

/-! ## `circus.stream.get_stream` -/

inductive Got where
  | nothing                          -- falls off the end: returns None
  | build (cls : Cls) (kwargs : Conf) -- `cls(**conf)`
  | given (v : Nat)                  -- `conf['stream']`
  | invalid                          -- ValueError("stream configuration invalid")
  deriving DecidableEq, Repr

/-- `get_stream(conf)`: the conf afterwards (`class` is popped from the caller's dict) and what it returns.
    A conf is invalid when it is not empty and has none of `class`, `stream`, `filename`. -/
def getStream : Option Conf → Option Conf × Got
  | none => (none, .nothing)
  | some c =>
    if c.isEmpty then (some c, .nothing)
    else match cget c kClass with
      | some v =>
        let c' := cpop c kClass
        (some c', .build (clsOf v) c')
      | none =>
        match cget c kStream with
        | some v => (some c, .given v)
        | none =>
          if chas c kFilename then (some c, .build .file c)
          else (some c, .invalid)

/-- the object a successful `get_stream` call on channel `ch`'s conf hands back; a built one gets
    the next identity number -/
def alloc (s : State) (ch : Chan) : Got → State × Option Ref
  | .build cls kw => ({ s with heap := s.heap ++ [⟨ch, cls, kw⟩] }, some (.built s.heap.length))
  | .given v => (s, some (.given v))
  | _ => (s, none)

/-! ## the watcher -/

/-- `Watcher.__init__`: copies the two confs, `get_stream` on stdout's then on stderr's
    (`none`: the constructor raised ValueError), no redirector, status stopped -/
def init (co ce : Option Conf) : Option State :=
  let (co', go) := getStream co
  let (ce', ge) := getStream ce
  if go = .invalid ∨ ge = .invalid then none
  else
    let s0 : State := { confOut := co', confErr := ce', sOut := none, sErr := none, red := none,
                        heap := [], closed := [], stopped := true }
    let (s1, ro) := alloc s0 .out go
    let (s2, re) := alloc s1 .err ge
    some { s2 with sOut := ro, sErr := re }

inductive Res where
  | none | ret (n : Nat) | typeError | valueError | indexError
  deriving DecidableEq, Repr

/-- `Watcher._reload_stream('<ch>_stream.<k>', v)` (reached through `set_opt`) -/
def setOp (s : State) (ch : Chan) (k v : Nat) : State × Res :=
  -- old_stream = self.stream_redirector.get_stream(stream_type) if self.stream_redirector else None
  let old : Option Ref := match s.red with
    | some r => r.target ch
    | none => none
  match s.conf ch with
  | none => (s, .typeError)                       -- None[parts[1]] = val
  | some c =>
    let c1 := cset c k v                           -- self.<ch>_stream_conf[parts[1]] = val
    match getStream (some c1) with
    | (_, .invalid) => (s.setConf ch (some c1), .valueError)
    | (c2, g) =>
      let (s1, new) := alloc (s.setConf ch c2) ch g
      let s2 := s1.setAttr ch new                  -- self.<ch>_stream = new_stream
      let s3 : State := match s2.red with
        | some r => { s2 with red := some (r.change ch new) }
        | none => { s2 with red := some ⟨s2.sOut, s2.sErr, false⟩ }
      match old with
      | some o =>                                  -- if old_stream: (streams are truthy)
        -- in_use = (old_stream is self.stdout_stream or old_stream is self.stderr_stream)   [attributes already updated]
        -- if not in_use and hasattr(old_stream, 'close'): old_stream.close()
        ((if s3.sOut ≠ some o ∧ s3.sErr ≠ some o ∧ s3.hasClose o = true then s3.close o else s3), .ret 0)
      | none =>
        ({ s3 with red := s3.red.map Redir.start }, .ret 1)

/-- `set <w> stdout_stream <dict>`: accepted by the command's validation, `key.split('.', 1)[1]`
    raises IndexError in `_reload_stream` before anything is written -/
def setNoDot (s : State) (_ch : Chan) : State × Res := (s, .indexError)

/-- `Watcher._create_redirectors()` (the old redirector is stopped and dropped) -/
def create (s : State) : State :=
  if s.sOut.isSome || s.sErr.isSome then
    { s with red := some ⟨s.sOut, s.sErr, false⟩ }
  else
    { s with red := none }

/-- the redirector part of `Watcher.spawn_process()`: nothing when stopped, else
    `if self.stream_redirector: self.stream_redirector.start()` (then `add_redirections(process)`) -/
def spawn (s : State) : State :=
  if s.stopped then s else { s with red := s.red.map Redir.start }

/-- `if self.<ch>_stream and hasattr(self.<ch>_stream, 'open'): self.<ch>_stream.open()` -/
def openAttr (s : State) (ch : Chan) : State :=
  match s.attr ch with
  | some x => if s.hasOpen x then s.open x else s
  | none => s

/-- `if self.<ch>_stream and hasattr(self.<ch>_stream, 'close'): self.<ch>_stream.close()` -/
def closeAttr (s : State) (ch : Chan) : State :=
  match s.attr ch with
  | some x => if s.hasClose x then s.close x else s
  | none => s

/-- `Watcher._start()` with its full complement of workers when already running (then nothing is
    touched), and at least one worker to spawn when stopped: status leaves `stopped`, the streams
    are re-opened, `_create_redirectors()`, `spawn_process()` starts the redirector -/
def start (s : State) : State :=
  if !s.stopped then s
  else
    let s1 := { s with stopped := false }
    let s2 := openAttr s1 .out
    let s3 := openAttr s2 .err
    spawn (create s3)

/-- `Watcher._stop(close_output_streams)` -/
def stop (s : State) (closeStreams : Bool) : State :=
  if s.stopped then s
  else
    let s1 := { s with red := none }               -- stream_redirector.stop(); = None
    let s2 := if closeStreams then closeAttr (closeAttr s1 .out) .err else s1
    { s2 with stopped := true }

/-- `Watcher._restart()`: `_stop()` (streams stay open) then `_start()` -/
def restart (s : State) : State := start (stop s false)

inductive Op where
  | set (ch : Chan) (k v : Nat)
  | setNoDot (ch : Chan)
  | create
  | spawn
  | start
  | stop (closeStreams : Bool)
  | restart
  deriving DecidableEq, Repr

def step (s : State) : Op → State × Res
  | .set ch k v => setOp s ch k v
  | .setNoDot ch => setNoDot s ch
  | .create => (create s, .none)
  | .spawn => (spawn s, .none)
  | .start => (start s, .none)
  | .stop b => (stop s b, .none)
  | .restart => (restart s, .none)

def run (s : State) (ops : List Op) : State := ops.foldl (fun s op => (step s op).1) s

/-- the stream a chunk read from a worker's `ch` pipe is handed to right now:
    `Handler.__call__`: `self.redirector.redirect[self.name](datamap)` -/
def deliver (s : State) (ch : Chan) : Option Ref :=
  match s.red with
  | some r => r.target ch
  | none => none

end Circus.Wiring
