/-
Model of `circus/util.py` : `replace_gnu_args(data, prefix='circus', **options)` and the compiled
pattern `_CIRCUS_VAR`

    \$\(circus\.([\w.\-]+)\)  |  \(\(circus\.([\w.\-]+)\)\)        (re.I)

as a hand-written left-to-right scanner that reproduces `re.sub` on it:

* leftmost match: at every position alternative 1 is tried, then alternative 2; when neither
  matches the character is copied and the scan moves one position to the right;
* `[\w.\-]+` is greedy.  The class does not contain `)`, so the only run length after which the
  closing `)` / `))` can follow is the maximal one: giving characters back (backtracking) can
  never produce a match.  The scanner therefore takes the maximal run and looks for the closing
  text once; `Lemmas/Argv.lean: backtrack_noop` states that every shorter non-empty run is
  followed by a class character, i.e. not by `)`;
* matches do not overlap: after a match the scan resumes behind it (the `skip` counter);
* the replacement is computed by `_repl` (a function, so no escape processing of the result).

Strings are lists of code points.  DOMAIN: ASCII.  `\w`, `re.I` and `str.lower` are modelled
for code points < 128 only (`\w` = `[A-Za-z0-9_]`, case pairs `A-Z`/`a-z`); Python would also
accept Unicode word characters in a key and would let U+017F / U+0131 / U+0130 / U+212A match
`s` / `i` / `k` under `re.I`.  Only the default `prefix='circus'` (the one circus uses for
commands) is modelled.  `str(value)` of option values is a parameter: the table holds the already
formatted text.
-/
namespace Circus.GnuArgs

abbrev Str := List Nat

/-- `str.lower` on ASCII -/
def lower (c : Nat) : Nat := if 65 ≤ c ∧ c ≤ 90 then c + 32 else c
def lowerStr (s : Str) : Str := s.map lower

/-- `\w` restricted to ASCII: `[A-Za-z0-9_]` -/
def isWord (c : Nat) : Bool :=
  (48 ≤ c && c ≤ 57) || (65 ≤ c && c ≤ 90) || (97 ≤ c && c ≤ 122) || c == 95

/-- the class `[\w.\-]` (`_SECTION_NAME`) -/
def isSect (c : Nat) : Bool := isWord c || c == 46 || c == 45

/-- `"circus"` -/
def circus : Str := [99, 105, 114, 99, 117, 115]
/-- `"circus."` -/
def circusDot : Str := circus ++ [46]
/-- `"$(circus."` -/
def open1 : Str := [36, 40] ++ circusDot
/-- `"((circus."` -/
def open2 : Str := [40, 40] ++ circusDot

/-! ### the option table -/

/-- a keyword argument of `replace_gnu_args`: a dict (flattened one level) or anything else
    (already passed through `str`) -/
inductive Val where
  | scalar (s : Str)
  | dict (kvs : List (Str × Str))
deriving Repr

/-- Python `d[k] = v` on an insertion-ordered dict: replace in place, else append -/
def dictSet (d : List (Str × Str)) (k v : Str) : List (Str × Str) :=
  match d with
  | [] => [(k, v)]
  | (k', v') :: r => if k' = k then (k, v) :: r else (k', v') :: dictSet r k v

/-- the assignments one `(key, value)` of `options.items()` performs, in order -/
def entries (kv : Str × Val) : List (Str × Str) :=
  let key := circusDot ++ lowerStr kv.1          -- key.lower(); '%s.%s' % (prefix, key)
  match kv.2 with
  | .dict kvs => kvs.map (fun sv => (key ++ [46] ++ lowerStr sv.1, sv.2))
  | .scalar s => [(key, s)]

/-- the `fmt_options` dict built by the first loop of `replace_gnu_args`: the nested loops perform the
    assignments of `entries` option after option, each `fmt_options[k] = v` is a `dictSet` -/
def fmtOptions (opts : List (Str × Val)) : List (Str × Str) :=
  (opts.flatMap entries).foldl (fun d e => dictSet d e.1 e.2) []

/-! ### the pattern -/

/-- a literal of the pattern against the subject under `re.I`; returns the rest of the subject -/
def matchLit : Str → Str → Option Str
  | [], s => some s
  | _ :: _, [] => none
  | p :: ps, c :: cs => if lower p = lower c then matchLit ps cs else none

/-- `\$\(circus\.([\w.\-]+)\)` anchored at the head of `s`:
    `(group 1, length of the whole match)` -/
def matchAlt1 (s : Str) : Option (Str × Nat) :=
  match matchLit open1 s with
  | none => none
  | some r =>
    let run := r.takeWhile isSect
    if run.isEmpty then none else
    match r.drop run.length with
    | 41 :: _ => some (run, open1.length + run.length + 1)
    | _ => none

/-- `\(\(circus\.([\w.\-]+)\)\)` anchored at the head of `s` -/
def matchAlt2 (s : Str) : Option (Str × Nat) :=
  match matchLit open2 s with
  | none => none
  | some r =>
    let run := r.takeWhile isSect
    if run.isEmpty then none else
    match r.drop run.length with
    | 41 :: 41 :: _ => some (run, open2.length + run.length + 2)
    | _ => none

/-- ordered alternation -/
def matchAt (s : Str) : Option (Str × Nat) :=
  match matchAlt1 s with
  | some m => some m
  | none => matchAlt2 s

/-- the dict key `_repl` looks up for a captured group:
    `option = result.lower(); if not option.startswith(prefix): option = '%s.%s' % (prefix, option)` -/
def optionKey (group : Str) : Str :=
  let option := lowerStr group
  if circus.isPrefixOf option then option else circusDot ++ option

/-- `_repl(matchobj)`: `group` is the first non-None group, `matched` is `matchobj.group()` -/
def repl (tbl : List (Str × Str)) (group matched : Str) : Str :=
  match tbl.lookup (optionKey group) with
  | some v => v
  | none => matched

/-- `pattern.sub(_repl, data)`; `skip` = characters still covered by the previous match -/
def scan (tbl : List (Str × Str)) : Nat → Str → Str
  | _, [] => []
  | skip + 1, _ :: cs => scan tbl skip cs
  | 0, c :: cs =>
    match matchAt (c :: cs) with
    | some (group, len) => repl tbl group ((c :: cs).take len) ++ scan tbl (len - 1) cs
    | none => c :: scan tbl 0 cs

/-- `replace_gnu_args(data, **options)` -/
def replaceGnuArgs (opts : List (Str × Val)) (data : Str) : Str :=
  scan (fmtOptions opts) 0 data

end Circus.GnuArgs
