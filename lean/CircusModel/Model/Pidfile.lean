import CircusModel.Model.PyInt
/-
Model of `circus/pidfile.py` (`Pidfile.validate`, `create`, `unlink`) and of the part of
`circus/circusd.py: main` that uses it (`pidfile.create(os.getpid())` before the arbiter is
started, `RuntimeError → print, sys.exit(1)`, the restart loop with
`finally: … if pidfile is not None and restart is False: pidfile.unlink()`, `sys.exit(0)`).

The world is: the text of the pid file (`none` = the file does not exist; a readable regular
file otherwise), a liveness oracle (the answer of `os.kill(pid, 0)`), and the `Pidfile`
object's `self.pid`.  `int(f.read() or 0)` is `PyInt.parse` (ASCII domain; undecodable bytes
raise `UnicodeDecodeError`, a `ValueError`, hence "garbled" like any other non-number).
Parameters / not modelled: other `IOError`s of `open` (EACCES, EISDIR: re-raised), failures of
`os.open`/`os.write`/`os.unlink` (the last is swallowed by the bare `except`), `fname = None`
(mkstemp branch, not reachable from circusd), `pid_t` = C `int` (`os.kill` raises
`OverflowError` beyond 2³¹-1 before any system call is made; `validate` catches it:
`except OverflowError: return` — such a number is no pid at all, the file is garbled).
-/
namespace Circus.Pidfile
open Circus.PyInt

/-- answer of `os.kill(pid, 0)` for a pid that fits a C int -/
inductive Live where
  | alive          -- returns None
  | dead           -- OSError(ESRCH)
  | eperm          -- OSError with another errno (EPERM: the process exists, other owner)
  deriving Repr, DecidableEq

/-- exceptions that leave `validate`/`create` -/
inductive Exc where
  | osError        -- the re-raised OSError (errno ≠ ESRCH)
  | runtimeStale   -- RuntimeError("pid file … is stale, current pid …")
  | runtimeNoDir   -- RuntimeError("… doesn't exist. Can't create pidfile")
  deriving Repr, DecidableEq

def INT_MAX : Int := 2147483647

/-- the `Pidfile` object and its file -/
structure St where
  file : Option Str      -- contents of `self.fname`
  pid : Int              -- `self.pid` (`os.getpid()` at construction, `create`'s argument later)
  deriving Repr, DecidableEq

/-- `int(f.read() or 0)`: `none` = ValueError -/
def intOr0 (txt : Str) : Option Int := if txt.isEmpty then some 0 else parse txt

inductive VRes where
  | none                 -- returns None: no live owner
  | owner (wpid : Int)   -- returns wpid: a live process
  | raised (e : Exc)
  deriving Repr, DecidableEq

/-- `Pidfile.validate` -/
def validate (file : Option Str) (live : Int → Live) : VRes :=
  match file with
  | none => .none                          -- IOError ENOENT
  | some txt =>
    match intOr0 txt with
    | none => .none                        -- ValueError
    | some wpid =>
      if wpid ≤ 0 then .none
      else if wpid > INT_MAX then .none    -- os.kill raises OverflowError: `except OverflowError: return`
      else
        match live wpid with
        | .alive => .owner wpid
        | .dead => .none                   -- errno == ESRCH
        | .eperm => .raised .osError       -- raise

inductive CRes where
  | ok
  | raised (e : Exc)
  deriving Repr, DecidableEq

/-- `Pidfile.create(pid)`; `dirOk` = `not fdir or os.path.isdir(fdir)`. -/
def create (st : St) (live : Int → Live) (dirOk : Bool) (pid : Int) : St × CRes :=
  match validate st.file live with
  | .raised e => (st, .raised e)
  | .owner old =>                          -- `if oldpid:` (old > 0)
    if old = pid then (st, .ok) else (st, .raised .runtimeStale)
  | .none =>
    let st1 := { st with pid := pid }      -- self.pid = pid
    if dirOk then
      ({ st1 with file := some (render pid ++ [10]) }, .ok)   -- O_CREAT|O_WRONLY|O_TRUNC; "{0}\n"
    else (st1, .raised .runtimeNoDir)

/-- `Pidfile.unlink` -/
def unlink (st : St) : St :=
  match st.file with
  | none => st                             -- open() raises, bare except
  | some txt =>
    let pid1 := match intOr0 txt with
      | some v => v
      | none => st.pid                     -- except ValueError: pid1 = self.pid
    if pid1 = st.pid then { st with file := none } else st

/-! ### `circusd.main` around the pid file -/

/-- how one turn of `while restart:` ends -/
inductive Turn where
  | finished (restarting : Bool)   -- start() returned a future without exception; arbiter._restarting
  | futureException                -- check_future_exception_and_log(future) is not None
  | raisedEarly                    -- `except Exception` (emergency stop, re-raise) while `restart` is
                                   -- still True: load_from_config / start() itself raised
  | raisedLate                     -- the same after `restart = False` was executed
  | interruptedEarly               -- KeyboardInterrupt before `restart = False` was executed
  | interruptedLate                -- KeyboardInterrupt after it
  deriving Repr, DecidableEq

inductive Exit where
  | status (n : Nat)               -- sys.exit(n)
  | uncaught (e : Option Exc)      -- traceback, status 1; `none`: the arbiter's exception
  | running                        -- the scripted turns are used up, the daemon is still up
  deriving Repr, DecidableEq

/-- the `while restart:` loop; `env` may rewrite the file between turns (another program). -/
def mainLoop (st : St) : List Turn → St × Exit
  | [] => (st, .running)
  | t :: ts =>
    match t with
    | .finished true => mainLoop st ts                 -- restart = True: pid file kept
    | .finished false => (unlink st, .status 0)
    | .futureException => (unlink st, .status 0)
    | .raisedEarly => (st, .uncaught none)             -- `restart is False` fails: file left behind
    | .raisedLate => (unlink st, .uncaught none)
    | .interruptedEarly => mainLoop st ts              -- restart still True: no unlink, loops
    | .interruptedLate => (unlink st, .status 0)

/-- `main` from `pidfile = args.pidfile or arbiter.pidfile or None` on; `file` = contents of
    that path, `own` = `os.getpid()`; `started` = whether `arbiter.start()` was ever reached. -/
def main (usePidfile : Bool) (file : Option Str) (live : Int → Live) (dirOk : Bool) (own : Int)
    (turns : List Turn) : Option Str × Exit × Bool :=
  if usePidfile then
    match create { file := file, pid := own } live dirOk own with
    | (st, .ok) => let r := mainLoop st turns; (r.1.file, r.2, true)
    | (st, .raised .runtimeStale) => (st.file, .status 1, false)
    | (st, .raised .runtimeNoDir) => (st.file, .status 1, false)
    | (st, .raised e) => (st.file, .uncaught (some e), false)
  else
    -- `pidfile is None`: the loop never touches the file
    let r := turns.foldl (fun (acc : Option Exit) t => match acc with
      | some e => some e
      | none => match t with
        | .finished true => none
        | .interruptedEarly => none
        | .raisedEarly => some (.uncaught none)
        | .raisedLate => some (.uncaught none)
        | _ => some (.status 0)) none
    (file, r.getD .running, true)

end Circus.Pidfile
