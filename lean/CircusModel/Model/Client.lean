/-
Model of the receive loop of `CircusClient.call` (circus/client.py) and of
`AsyncCircusClient.call`.

`json.loads` is a parameter (DESIGN.md C06): a received frame is abstracted to what the loop
looks at — is it valid JSON, is the value an object, and what is `res.get('id')`.  The call id
is a `uuid4().hex` string; `res.get('id') != call_id` is Python equality between an arbitrary
JSON value and a str, so only a JSON *string* with the same characters is equal.

The loop is a fold over the list of things that can happen at `poller.poll(timeout)`:
a frame arrives, the poll times out (`len(events) == 0`), the poll is interrupted (EINTR:
`continue`), or it fails with another `ZMQError`.  Reordering, duplication, delay and loss of
replies are the quantifier over that list.  When the list is used up the real client is blocked
in the next `poll` (outcome `pending`).
-/
namespace Circus.Client

abbrev Str := List Nat

/-- `res.get('id')` for a JSON object `res` -/
inductive JId where
  | missing                -- no 'id' key (`None`), or `"id": null`
  | str (s : Str)          -- a JSON string
  | nonStr (tag : Nat)     -- number, bool, array, object: never equal to a str
  deriving Repr, DecidableEq

/-- a received frame after `json.loads` -/
inductive Frame where
  | invalid                        -- json.loads raises ValueError
  | nonObject (tag : Nat)          -- valid JSON that is not an object: `res.get` → AttributeError
  | obj (id : JId) (body : Nat)    -- an object; `body` stands for the rest of it
  deriving Repr, DecidableEq

inductive Event where
  | msg (f : Frame)
  | timeout                        -- poll returned no event
  | eintr                          -- ZMQError(EINTR): continue
  | pollError                      -- another ZMQError: CallError
  deriving Repr, DecidableEq

inductive Outcome where
  | ok (id : JId) (body : Nat)     -- `return res`
  | callErrorTimeout               -- CallError("Timed out.")
  | callErrorJson                  -- CallError(str(ValueError))
  | callErrorZmq                   -- CallError(str(ZMQError)) (send or poll)
  | attributeError                 -- uncaught AttributeError: 'list' object has no attribute 'get'
  | pending                        -- still blocked in poll
  deriving Repr, DecidableEq

/-- one received frame: `some o` = the call ends with `o`, `none` = `continue` -/
def onFrame (callId : Str) : Frame → Option Outcome
  | .invalid => some .callErrorJson
  | .nonObject _ => some .attributeError
  | .obj id body => if id ≠ .str callId then none else some (.ok id body)

/-- the `while True:` loop of `CircusClient.call` -/
def recvLoop (callId : Str) : List Event → Outcome
  | [] => .pending
  | .eintr :: es => recvLoop callId es
  | .pollError :: _ => .callErrorZmq
  | .timeout :: _ => .callErrorTimeout
  | .msg f :: es =>
    match onFrame callId f with
    | some o => o
    | none => recvLoop callId es

/-- `CircusClient.call` after `cmd['id'] = call_id`: `socket.send` then the loop. -/
def call (callId : Str) (sendFails : Bool) (es : List Event) : Outcome :=
  if sendFails then .callErrorZmq else recvLoop callId es

/-- the `for message in messages:` loop of `AsyncCircusClient.call` over one multipart delivery -/
def asyncBatch (callId : Str) : List Frame → Option Outcome
  | [] => none
  | f :: fs =>
    match onFrame callId f with
    | some o => some o
    | none => asyncBatch callId fs

/-- `AsyncCircusClient.call`: `on_recv` deliveries (lists of frames); there is no timeout branch
    in this loop (`self.timeout` is never consulted). -/
def asyncCall (callId : Str) : List (List Frame) → Outcome
  | [] => .pending
  | b :: bs =>
    match asyncBatch callId b with
    | some o => o
    | none => asyncCall callId bs

end Circus.Client
