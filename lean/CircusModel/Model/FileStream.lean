/-
Model of `circus/stream/file_stream.py` : `FileStream.__call__`, `_should_rollover`,
`_do_rollover`, `_FileStreamBase.write_data`, `open`, `close`.

Transliteration rules (DESIGN.md 3.4): same loops over the same ranges, same guards in the
same order.  The directory is the active file plus the numbered backups
`<filename>.<i>`; file contents are lists of code points (`Nat`); for the size
comparison the code uses `tell() + len(raw_data)`, i.e. bytes on disk plus characters to
write, which coincide for ASCII payloads (the stated domain of the size theorem).
-/
namespace Circus.FileStream

abbrev Bytes := List Nat

/-- The directory as seen by one FileStream: active file and `.i` backups. -/
structure Dir where
  active : Bytes
  backup : Nat → Option Bytes

def Dir.exists (d : Dir) (i : Nat) : Bool := (d.backup i).isSome

/-- `os.remove(filename.i)` -/
def Dir.remove (d : Dir) (i : Nat) : Dir :=
  { d with backup := fun j => if j = i then none else d.backup j }

/-- `os.rename(filename.i, filename.j)` (source exists; destination is replaced). -/
def Dir.rename (d : Dir) (i j : Nat) : Dir :=
  { d with backup := fun k => if k = j then d.backup i else if k = i then none else d.backup k }

/-- one iteration of the `for i in range(backup_count - 1, 0, -1)` loop body -/
def shiftOne (d : Dir) (i : Nat) : Dir :=
  if d.exists i then
    let d1 := if d.exists (i + 1) then d.remove (i + 1) else d
    d1.rename i (i + 1)
  else d

/-- `range(n - 1, 0, -1)` as a list: n-1, n-2, …, 1 -/
def downRange : Nat → List Nat
  | 0 => []
  | 1 => []
  | (n + 2) => (n + 1) :: downRange (n + 1)

/-- `_do_rollover` -/
def doRollover (n : Nat) (d : Dir) : Dir :=
  if n > 0 then
    let d1 := (downRange n).foldl shiftOne d
    let d2 := if d1.exists 1 then d1.remove 1 else d1
    -- os.rename(self._filename, dfn); then `_open()` creates a fresh empty file
    { active := [], backup := fun k => if k = 1 then some d2.active else d2.backup k }
  else
    -- nothing renamed; `_open()` re-opens the same file in append mode
    d

/-- `_should_rollover(raw_data)` -/
def shouldRollover (maxBytes : Nat) (d : Dir) (raw : Bytes) : Bool :=
  maxBytes > 0 && d.active.length + raw.length ≥ maxBytes

/-- `str.rstrip('\n')` -/
def rstripNl (s : Bytes) : Bytes :=
  (s.reverse.dropWhile (· = 10)).reverse

/-- `str.replace('\n', '\n' + prefix)` -/
def replaceNl (pre : Bytes) : Bytes → Bytes
  | [] => []
  | c :: cs => if c = 10 then 10 :: (pre ++ replaceNl pre cs) else c :: replaceNl pre cs

/-- the text `write_data` appends; `pre = none` when there is no `time_format`,
    otherwise the already formatted `"{time} [{pid}] | "` (strftime is a parameter). -/
def fileData (pre : Option Bytes) (data : Bytes) : Bytes :=
  match pre with
  | none => data
  | some p => p ++ replaceNl p (rstripNl data) ++ [10]

/-- `FileStream.__call__(data)` -/
def call (maxBytes n : Nat) (pre : Option Bytes) (d : Dir) (data : Bytes) : Dir :=
  let d1 := if shouldRollover maxBytes d data then doRollover n d else d
  { d1 with active := d1.active ++ fileData pre data }

/-- a sequence of writes (no prefix varies per write in the driver; theorems quantify over
    a fixed optional prefix or over none) -/
def calls (maxBytes n : Nat) (pre : Option Bytes) (d : Dir) (ws : List Bytes) : Dir :=
  ws.foldl (call maxBytes n pre) d

/-- `close()` followed by `open()`: the file is re-opened in append mode, so the directory
    is unchanged. Kept as a definition so the theorem about reopen has something to unfold. -/
def closeOpen (d : Dir) : Dir := d

/-- what the property calls "the backups from oldest to newest followed by the active file",
    over indices `hi, hi-1, …, 1`. -/
def seqUpTo (d : Dir) : Nat → Bytes
  | 0 => []
  | (k + 1) => (d.backup (k + 1)).getD [] ++ seqUpTo d k

def retained (n : Nat) (d : Dir) : Bytes := seqUpTo d n ++ d.active

end Circus.FileStream
