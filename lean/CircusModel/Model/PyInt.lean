/-
Model of CPython 3.12 `int(s)` for a `str` argument (base 10), i.e.
`PyLong_FromUnicodeObject` → `PyLong_FromString(buf, &end, 10)` → `long_from_string_base`,
as far as circus uses it: `circus/pidfile.py` (`int(f.read() or 0)`) and
`circus/util.py: to_signum` (`int(signum)`, `int(m.group(3))`).

Strings are lists of code points (`Str = List Nat`, as in the FileStream layer).

Stated domain: **ASCII text** (every code point < 128).  For such strings CPython hands the
buffer unchanged to `PyLong_FromString`, which
  1. skips leading `Py_ISSPACE` characters (C locale: 9..13 and 32 — *not* 28..31),
  2. reads one optional `+` / `-`,
  3. refuses a leading `_`,
  4. scans digits and `_` (`long_from_string_base`): two `_` in a row and a trailing `_`
     are errors; every digit (leading zeros included) counts towards the
     `sys.int_info.default_max_str_digits = 4300` limit (`maxStrDigits`, a parameter of the
     running interpreter),
  5. refuses "no digit at all",
  6. skips trailing `Py_ISSPACE` and refuses anything left (an embedded NUL included).
Outside the domain (not modelled, excluded from the correspondence generators): non-ASCII
decimal digits (`'١٢'` → 12) and non-ASCII white space (`'\xa05'` → 5), which
`_PyUnicode_TransformDecimalAndSpaceToASCII` rewrites before step 1.
-/
namespace Circus.PyInt

abbrev Str := List Nat

/-- `Py_ISSPACE` (C locale): `\t \n \v \f \r` and space. -/
def isCSpace (c : Nat) : Bool := (9 ≤ c && c ≤ 13) || c = 32

/-- `'0' ≤ c ≤ '9'` -/
def isDigit (c : Nat) : Bool := 48 ≤ c && c ≤ 57

/-- `sys.get_int_max_str_digits()` of the running interpreter (default). -/
def maxStrDigits : Nat := 4300

/-- the scan loop of `long_from_string_base`: consumes digits and underscores.
    `prevUs` = the previous character was `_`.  Returns (value, number of digits, rest), or
    `none` on "two underscores" / "trailing underscore". -/
def scan : Str → Nat → Nat → Bool → Option (Nat × Nat × Str)
  | [], acc, nd, prevUs => if prevUs then none else some (acc, nd, [])
  | c :: cs, acc, nd, prevUs =>
    if c = 95 then (if prevUs then none else scan cs acc nd true)
    else if isDigit c then scan cs (acc * 10 + (c - 48)) (nd + 1) false
    else if prevUs then none else some (acc, nd, c :: cs)

/-- after the sign: leading-underscore check, digit scan, digit-count checks, trailing space. -/
def parseBody (t : Str) : Option Nat :=
  match t with
  | 95 :: _ => none
  | _ =>
    match scan t 0 0 false with
    | none => none
    | some (v, nd, rest) =>
      if nd = 0 then none
      else if nd > maxStrDigits then none
      else if (rest.dropWhile isCSpace).isEmpty then some v
      else none

/-- `int(s)` for a str `s`: `some v`, or `none` for `ValueError`. -/
def parse (s : Str) : Option Int :=
  match s.dropWhile isCSpace with
  | 43 :: t => (parseBody t).map Int.ofNat
  | 45 :: t => (parseBody t).map (fun v => - Int.ofNat v)
  | t => (parseBody t).map Int.ofNat

/-- `str(n)` for a natural number: decimal digits, most significant first
    (fuel = `n + 1` ≥ number of digits; structural recursion so that it evaluates in proofs). -/
def digitsAux : Nat → Nat → Str → Str
  | 0, _, acc => acc
  | f + 1, n, acc => if n < 10 then (48 + n) :: acc else digitsAux f (n / 10) ((48 + n % 10) :: acc)

def renderNat (n : Nat) : Str := digitsAux (n + 1) n []

/-- `str(i)` / `"{0}".format(i)` for an int. -/
def render (i : Int) : Str :=
  match i with
  | Int.ofNat n => renderNat n
  | Int.negSucc n => 45 :: renderNat (n + 1)

end Circus.PyInt
