import CircusModel.Model.GnuArgs
import CircusModel.Model.Shlex
import CircusModel.Model.FormatArgs
/-
Model of the life of the managed sockets (`[socket:NAME]`, property C07):

* `circus/sockets.py`  : `CircusSocket.__init__` (`socket()`, `set_inheritable(True)`),
  `CircusSocket.bind_and_listen`, `CircusSocket.close`, `CircusSockets` (a dict name -> socket),
  `CircusSockets.bind_and_listen_all`, `CircusSockets.close_all`;
* `circus/arbiter.py`  : `Arbiter.initialize` (-> `bind_and_listen_all`),
  `Arbiter.stop_controller_and_close_sockets` (-> `close_all`);
* `circus/watcher.py`  : `Watcher._get_sockets_fds`, the retry loop of `Watcher.spawn_process`,
  `Watcher.reap_process` (-> `Process.stop` -> `close_output_channels`), and restart / reload /
  incr / decr as the sequences of `spawn_process` / reaping they perform;
* `circus/process.py`  : `Process._get_sockets_fds` (the per-worker `so_reuseport` branch),
  `Process.format_args` as far as the `sockets` table is concerned, the
  `Popen(args, close_fds=not self.use_fds, stdout=PIPE, stderr=PIPE)` call of `Process.spawn` and
  `self._sockets = []` behind it;
* `subprocess`         : which descriptors of the parent a child keeps (PEP 446): with
  `close_fds=True` nothing above 2, with `close_fds=False` exactly the *inheritable* ones; the pipes
  `Popen` makes for `stdout=PIPE` / `stderr=PIPE` (read end kept by the daemon, write end closed in
  the daemon when `Popen` returns).

Kernel: the daemon's descriptor table `fdt` (slot `i` = descriptor number `i`, `none` = free).  A
new descriptor always gets the lowest free number, so the numbers of pipes and unrelated files are
reused across worker generations and move around the managed sockets.  Every `socket()`, `pipe()`
end and `open()` creates a new open file with a fresh identity `id`; every successful `bind()`
gets a fresh serial `bindSer` (0 = never bound), so both a re-created and a re-bound socket are
visible.  The daemon never `dup`s, so descriptor and open file correspond one to one, and what a
child inherits is a sub-table of the daemon's table at the moment of the fork, same numbers.

Socket types: `SOCK_STREAM`, `SOCK_SEQPACKET` (both are put into the listening state by
`bind_and_listen`) and `SOCK_DGRAM` (bound only).  Unix sockets have a file: `files` is the set of
unix-socket paths that exist (`bind` creates the path, `CircusSocket.close` removes it when it
exists, `replace = True` unlinks an existing path before binding, `replace = False` raises).
`stdin_socket`: the `os.dup2(fd, 0)` of `preexec_fn` is the record field `fd0`.
`Arbiter.reload_from_config` is modelled as far as the sockets go (`reloadSockets`): deleted,
changed (= deleted + added) and added sockets; the iteration order of the Python sets is a
parameter of the op.

Parameters (not modelled): `bind` and `listen` succeed on a fresh socket whose unix path is free
(no `EADDRINUSE`); the texts `cmd` / `args` refer to no other `circus.*` key than
`circus.sockets.*` (the general substitution is C13); `shell = False`; the real `Popen` fails only
through `preexec_fn`; hooks are absent; `close_child_stdin` is the default (stdin is /dev/null
unless `stdin_socket` puts a socket there).  `IS_WINDOWS` is false.  Descriptors 1, 2 are outside
the child view, descriptor 0 is in it only as `fd0`.
-/
namespace Circus.Sockets
open Circus.GnuArgs Circus.Shlex
open Circus.FormatArgs (Args decimal pyNone)

abbrev Str := List Nat

inductive Kind where
  | sock | other
deriving DecidableEq, Repr

/-- an open file of the daemon seen through its (only) descriptor -/
structure Desc where
  /-- identity of the open file (creation serial) -/
  id : Nat
  kind : Kind
  /-- `os.get_inheritable(fd)` -/
  inheritable : Bool
  /-- `SO_ACCEPTCONN` -/
  listening : Bool
  /-- identity of the address it is bound to -/
  addr : Option Nat
  /-- serial of the `bind()` call that bound it; 0 = never bound -/
  bindSer : Nat
deriving DecidableEq, Repr

abbrev FdTable := List (Option Desc)

namespace FdTable

/-- the descriptor number the next `socket()` / `pipe()` / `open()` returns -/
def lowestFree : FdTable → Nat
  | [] => 0
  | none :: _ => 0
  | some _ :: r => lowestFree r + 1

/-- what descriptor `fd` denotes -/
def get (t : FdTable) (fd : Nat) : Option Desc := (t[fd]?).getD none

/-- slot `fd` := `d`; the table is grown by one when `fd` is its length (never more: `fd` is the
    lowest free number or an open descriptor) -/
def put (t : FdTable) (fd : Nat) (d : Option Desc) : FdTable :=
  if fd < t.length then t.set fd d else t ++ [d]

/-- `close(fd)` -/
def close (t : FdTable) (fd : Nat) : FdTable := t.set fd none

def closeAll (t : FdTable) (fds : List Nat) : FdTable := fds.foldl close t

end FdTable

/-- `type=` of a socket section -/
inductive SockType where
  | stream | seqpacket | dgram
deriving DecidableEq, Repr

/-- `if self.socktype in (socket.SOCK_STREAM, socket.SOCK_SEQPACKET): self.listen(self.backlog)` -/
def SockType.listens : SockType → Bool
  | .stream => true
  | .seqpacket => true
  | .dgram => false

/-- a socket of the configuration (`s._cfg`) -/
structure Spec where
  name : Str
  /-- `self.so_reuseport` -/
  reuseport : Bool
  /-- identity of `(host, port)` / `path` -/
  addr : Nat
  typ : SockType := .stream
  /-- `path is not None` (AF_UNIX) -/
  unix : Bool := false
  replace : Bool := false
  /-- identity of the remaining options (backlog, umask, ...) -/
  opts : Nat := 0
deriving DecidableEq, Repr

/-- a `CircusSocket` object -/
structure Sock extends Spec where
  /-- `fileno()`; `none` = closed (Python answers -1) -/
  fd : Option Nat
deriving DecidableEq, Repr

/-- the options of a watcher that matter here -/
structure Watcher where
  useSockets : Bool
  cmd : Str
  args : Args
  numprocesses : Nat
  /-- `stdout_stream is not None`, `stderr_stream is not None` -/
  pipeOut : Bool
  pipeErr : Bool
  maxRetry : Nat
  /-- `stdin_socket` -/
  stdinSocket : Option Str := none
deriving Repr

/-- a live worker (`Watcher.processes` of all watchers, in spawn order) -/
structure Proc where
  pid : Nat
  /-- index of its watcher -/
  w : Nat
  /-- worker id (`Watcher._nextwid`) -/
  wid : Nat
  /-- the read ends the daemon holds (`Popen.stdout`, `Popen.stderr`) -/
  pipeFds : List Nat
deriving DecidableEq, Repr

inductive Phase where
  /-- sockets created, `Arbiter.initialize` not yet run -/
  | fresh
  /-- between `initialize` and `stop_controller_and_close_sockets` -/
  | running
  | stopped
deriving DecidableEq, Repr

/-- one `Popen(...)` call = one worker -/
structure Rec where
  /-- index of the watcher -/
  w : Nat
  /-- ghost: `watcher.use_sockets` -/
  useSockets : Bool
  /-- ghost: phase of the daemon at the call -/
  phase : Phase
  /-- the dict `Process._get_sockets_fds()` returned (`format_kwargs['sockets']`) -/
  socketsFds : List (Str × Option Nat)
  /-- ghost: the `cmd` and `args` the `Process` was constructed with -/
  cmd : Str
  args : Args
  /-- the argument vector -/
  argv : List Str
  /-- `close_fds=` -/
  closeFds : Bool
  /-- the daemon descriptors above 2 the child keeps, under their numbers -/
  inherited : FdTable
  /-- ghost: the per-worker `so_reuseport` descriptors (`Process._sockets`) -/
  temp : List Nat
  /-- ghost: `watcher.stdin_socket` -/
  stdinSocket : Option Str
  /-- the daemon's open file `preexec_fn` puts on descriptor 0 of the child (`os.dup2(fd, 0)`);
      `none` = no daemon descriptor (stdin is /dev/null) -/
  fd0 : Option Desc
deriving Repr

structure State where
  fdt : FdTable
  nextId : Nat
  nextBind : Nat
  /-- `arbiter.sockets` (insertion order) -/
  socks : List Sock
  watchers : List Watcher
  procs : List Proc
  nextPid : Nat
  /-- descriptors of unrelated files the daemon has opened, oldest first -/
  others : List Nat
  phase : Phase
  /-- newest first -/
  log : List Rec
  /-- the unix-socket paths that exist in the file system -/
  files : List Nat
  /-- ghost: the paths the daemon has ever bound a socket to -/
  made : List Nat
deriving Repr

/-! ### kernel calls -/

/-- a call that creates an open file: lowest free number, fresh identity -/
def alloc (s : State) (mk : Nat → Desc) : State × Nat :=
  let fd := s.fdt.lowestFree
  ({ s with fdt := s.fdt.put fd (some (mk s.nextId)), nextId := s.nextId + 1 }, fd)

def closeFds (s : State) (fds : List Nat) : State := { s with fdt := s.fdt.closeAll fds }

/-- `socket()` followed by `set_inheritable(True)` (`CircusSocket.__init__`) -/
def newSocketDesc (id : Nat) : Desc :=
  { id := id, kind := .sock, inheritable := true, listening := false, addr := none, bindSer := 0 }

/-- an end of a `pipe()` / an `open()`ed file -/
def otherDesc (inheritable : Bool) (id : Nat) : Desc :=
  { id := id, kind := .other, inheritable := inheritable, listening := false, addr := none, bindSer := 0 }

/-! ### `circus/sockets.py` -/

/-- `CircusSocket(...)` + `self[sock.name] = sock` for a name that is not yet a key -/
def mkSocket (s : State) (k : Spec) : State :=
  let (s1, fd) := alloc s newSocketDesc
  { s1 with socks := s1.socks ++ [{ toSpec := k, fd := some fd }] }

inductive BindErr where
  /-- `EBADF`: the socket object is closed -/
  | closed
  /-- `EINVAL`: the socket is bound already -/
  | bound
  /-- `OSError("%r already exists ...")`: the unix path exists and `replace` is off -/
  | pathExists
deriving DecidableEq, Repr

/-- `CircusSocket.bind_and_listen()` on the socket object `(k, fd)`.  A unix socket looks at its
    path first (raise, or `os.unlink` with `replace`), then `bind`, then `listen` for the
    connection-oriented types.  An error leaves the state reached so far. -/
def bindAndListen (s : State) (k : Spec) (fd : Option Nat) : State × Option BindErr :=
  let there := k.unix && s.files.contains k.addr
  if there && !k.replace then (s, some .pathExists) else
  let s0 : State := if there then { s with files := s.files.filter (· ≠ k.addr) } else s
  match fd with
  | none => (s0, some .closed)
  | some n =>
    match s0.fdt.get n with
    | none => (s0, some .closed)
    | some d =>
      if d.bindSer ≠ 0 then (s0, some .bound) else
      ({ s0 with fdt := s0.fdt.put n (some { d with addr := some k.addr, bindSer := s0.nextBind,
                                                    listening := k.typ.listens }),
                 nextBind := s0.nextBind + 1,
                 files := if k.unix then k.addr :: s0.files else s0.files,
                 made := if k.unix then k.addr :: s0.made else s0.made }, none)

/-- `CircusSockets.bind_and_listen_all()`: the first error propagates out of the loop (second
    component), the sockets bound before it stay bound -/
def bindAndListenAll (s : State) : List Sock → State × Option BindErr
  | [] => (s, none)
  | k :: ks =>
    if k.reuseport then bindAndListenAll s ks        -- "should not be bound at this point"
    else match bindAndListen s k.toSpec k.fd with
      | (s1, some e) => (s1, some e)
      | (s1, none) => bindAndListenAll s1 ks

/-- `CircusSocket.close()`: `socket.close()`, then `os.remove(self.path)` when the path exists -/
def closeObj (s : State) (k : Sock) : State :=
  { s with fdt := (match k.fd with
                   | some fd => s.fdt.close fd
                   | none => s.fdt),
           files := if k.unix then s.files.filter (· ≠ k.addr) else s.files }

/-- `sock.close()` for every socket of the dict (`CircusSockets.close_all`) -/
def closeAllSocks (s : State) : State :=
  { s.socks.foldl closeObj s with socks := s.socks.map (fun k => { k with fd := none }) }

/-! ### `Process._get_sockets_fds` -/

/-- `p in s` for strings -/
def isInfix (p : Str) : Str → Bool
  | [] => p.isEmpty
  | c :: cs => p.isPrefixOf (c :: cs) || isInfix p cs

/-- `"sockets"` -/
def socketsKey : Str := [115, 111, 99, 107, 101, 116, 115]
/-- `"sockets."` -/
def socketsDot : Str := socketsKey ++ [46]
/-- `'circus.sockets.%s' % sn` -/
def socketsRef (sn : Str) : Str := circusDot ++ socketsDot ++ sn

/-- `d[k] = v` -/
def setFd (d : List (Str × Option Nat)) (k : Str) (v : Option Nat) : List (Str × Option Nat) :=
  match d with
  | [] => [(k, v)]
  | (k', v') :: r => if k' = k then (k, v) :: r else (k', v') :: setFd r k v

structure Attempt where
  s : State
  fds : List (Str × Option Nat)
  temp : List Nat

/-- `CircusSocket.load_from_config(s._cfg)` + `bind_and_listen()`: the socket of one worker -/
def newBoundSocket (s : State) (k : Spec) : State × Nat :=
  let fd := s.fdt.lowestFree
  ({ s with fdt := s.fdt.put fd (some { id := s.nextId, kind := .sock, inheritable := true,
                                        listening := k.typ.listens, addr := some k.addr, bindSer := s.nextBind }),
            nextId := s.nextId + 1, nextBind := s.nextBind + 1 }, fd)

/-- body of `for sn, s in reuseport_sockets:` -/
def reuseStep (cmd : Str) (a : Attempt) (k : Sock) : Attempt :=
  if isInfix (socketsRef k.name) cmd then
    let (s1, fd) := newBoundSocket a.s k.toSpec
    { s := s1, fds := setFd a.fds k.name (some fd), temp := a.temp ++ [fd] }
  else a

/-- `Watcher._get_sockets_fds()` -/
def watcherSocketsFds (s : State) : List (Str × Option Nat) := s.socks.map (fun k => (k.name, k.fd))

/-- `Process._get_sockets_fds()` (`watcher.sockets` is the arbiter's dict) -/
def getSocketsFds (s : State) (w : Watcher) : Attempt :=
  (s.socks.filter (·.reuseport)).foldl (reuseStep w.cmd) { s := s, fds := watcherSocketsFds s, temp := [] }

/-! ### `Process.format_args` -/

/-- `str(sock.fileno())` -/
def fdText : Option Nat → Str
  | some n => decimal n
  | none => [45, 49]

/-- the `sockets=` keyword of `replace_gnu_args` -/
def socketsKw (fds : List (Str × Option Nat)) : List (Str × Val) :=
  [(socketsKey, .dict (fds.map (fun nv => (nv.1, fdText nv.2))))]

/-- `format_args(sockets_fds)` with `shell = False` -/
def formatArgv (fds : List (Str × Option Nat)) (cmd : Str) (args : Args) : Except Err (List Str) :=
  let kw := socketsKw fds
  let cmd := replaceGnuArgs kw cmd
  match args with
  | .str a => do
      let a ← split (replaceGnuArgs kw a)
      let c ← split cmd
      pure (c ++ a)
  | .list xs => do
      let a := xs.map (replaceGnuArgs kw)
      let c ← split cmd
      pure (c ++ a)
  | .none => split cmd

/-! ### `Popen` -/

/-- the daemon descriptors above 2 that survive `fork` + `exec` in the child -/
def inherit (closeFds : Bool) (t : FdTable) : FdTable :=
  t.mapIdx (fun i o => if i < 3 then none else if closeFds then none else o.filter (·.inheritable))

/-- `c2pread, c2pwrite = os.pipe()` (both ends non-inheritable) -/
def allocPipe (s : State) : State × Nat × Nat :=
  let (s1, r) := alloc s (otherDesc false)
  let (s2, w) := alloc s1 (otherDesc false)
  (s2, r, w)

/-- the pipes of `stdout=PIPE`, `stderr=PIPE` in the order `Popen._get_handles` makes them:
    `(state, read ends, write ends)` -/
def allocPipes (s : State) (out err : Bool) : State × List Nat × List Nat :=
  let (s1, r1, w1) := if out then (let (x, r, w) := allocPipe s; (x, [r], [w])) else (s, [], [])
  let (s2, r2, w2) := if err then (let (x, r, w) := allocPipe s1; (x, [r], [w])) else (s1, [], [])
  (s2, r1 ++ r2, w1 ++ w2)

/-- `cmd = util.replace_gnu_args(self.cmd, env=self.env)` with `self.env = None` -/
def watcherCmd (w : Watcher) : Str := replaceGnuArgs [([101, 110, 118], .scalar pyNone)] w.cmd

/-- `Watcher._get_stdin_socket_fd()` + `os.dup2(fd, 0)` in `preexec_fn`, i.e. in the child after the
    fork: what ends up on descriptor 0.  `error` = the child raised (`stdin_socket` is no key of the
    dict, or the socket object is closed: `dup2(-1, 0)`), `Popen` raises `SubprocessError`. -/
def stdinDesc (s : State) (w : Watcher) : Except Unit (Option Desc) :=
  match w.stdinSocket with
  | none => .ok none
  | some n =>
    match s.socks.find? (fun k => k.name = n) with
    | none => .error ()
    | some k =>
      match k.fd with
      | none => .error ()
      | some fd =>
        match s.fdt.get fd with
        | none => .error ()
        | some d => .ok (some d)

inductive TryRes where
  | ok
  /-- `format_args` raised `ValueError`: caught by `spawn_process`, next turn of the loop -/
  | retry
  /-- `preexec_fn` raised in the child: `Popen` raises `SubprocessError`, nobody catches it -/
  | raised
deriving DecidableEq, Repr

/-- one turn of the `while nb_tries < self.max_retry` loop of `spawn_process`:
    `Process(...)` = `_get_sockets_fds`, `format_args`, `Popen`, `self._sockets = []`.
    `retry`: the half-built `Process` is dropped, its sockets are closed with it, `Popen` has not
    been called.  `raised`: `Popen` made its pipes, forked, the child failed in `preexec_fn`; the
    pipes are closed again, the `Process` is dropped. -/
def trySpawn (s : State) (wi : Nat) (w : Watcher) (wid : Nat) : State × TryRes :=
  let a := getSocketsFds s w
  match formatArgv a.fds (watcherCmd w) w.args with
  | .error _ => (closeFds a.s a.temp, .retry)
  | .ok argv =>
    let (s1, rfds, wfds) := allocPipes a.s w.pipeOut w.pipeErr
    match stdinDesc s1 w with
    | .error _ => (closeFds (closeFds s1 (rfds ++ wfds)) a.temp, .raised)
    | .ok fd0 =>
      let r : Rec := { w := wi, useSockets := w.useSockets, phase := s.phase, socketsFds := a.fds,
                       cmd := watcherCmd w, args := w.args, argv := argv,
                       closeFds := !w.useSockets, inherited := inherit (!w.useSockets) s1.fdt, temp := a.temp,
                       stdinSocket := w.stdinSocket, fd0 := fd0 }
      let s2 := closeFds s1 wfds          -- Popen closes the child's ends in the parent
      let s3 := closeFds s2 a.temp        -- self._sockets = []
      ({ s3 with procs := s3.procs ++ [{ pid := s3.nextPid, w := wi, wid := wid, pipeFds := rfds }],
                 nextPid := s3.nextPid + 1, log := r :: s3.log }, .ok)

inductive SpawnRes where
  | ok
  /-- `spawn_process` returned `False` -/
  | failed
  /-- an exception leaves `spawn_process`: `RuntimeError("Process count > numproceses*2")` of
      `_nextwid`, or `SubprocessError` of `Popen` -/
  | raised
deriving DecidableEq, Repr

/-- the retry loop -/
def spawnLoop : Nat → State → Nat → Watcher → Nat → State × SpawnRes
  | 0, s, _, _, _ => (s, .failed)
  | n + 1, s, wi, w, wid =>
    match trySpawn s wi w wid with
    | (s1, .ok) => (s1, .ok)
    | (s1, .raised) => (s1, .raised)
    | (s1, .retry) => spawnLoop n s1 wi w wid

def procsOf (s : State) (wi : Nat) : List Proc := s.procs.filter (fun p => p.w == wi)

/-- `Watcher.spawn_process()` of watcher number `wi` -/
def spawnProcess (s : State) (wi : Nat) : State × SpawnRes :=
  match s.watchers[wi]? with
  | none => (s, .raised)
  | some w =>
    match FormatArgs.nextWid w.numprocesses ((procsOf s wi).map (·.wid)) with
    | none => (s, .raised)
    | some wid => spawnLoop w.maxRetry s wi w wid

/-- `for i in range(n): spawn_process()`, stopping at the first `False` (`spawn_processes`) or raise -/
def spawnN : Nat → State → Nat → State
  | 0, s, _ => s
  | n + 1, s, wi =>
    match spawnProcess s wi with
    | (s1, .ok) => spawnN n s1 wi
    | (s1, _) => s1

/-- the `for` loop of `_reload`: the result is ignored, an exception ends it (`true`) -/
def spawnAll : Nat → State → Nat → State × Bool
  | 0, s, _ => (s, false)
  | n + 1, s, wi =>
    match spawnProcess s wi with
    | (s1, .raised) => (s1, true)
    | (s1, _) => spawnAll n s1 wi

/-! ### deaths -/

/-- the worker leaves `processes`, `Process.stop()` closes its output channels -/
def reapProc (s : State) (p : Proc) : State :=
  { closeFds s p.pipeFds with procs := s.procs.filter (fun q => q.pid ≠ p.pid) }

def reapAll (s : State) (ps : List Proc) : State := ps.foldl reapProc s

def setNp (s : State) (wi : Nat) (np : Nat) : State :=
  { s with watchers := s.watchers.modify wi (fun w => { w with numprocesses := np }) }

def npOf (s : State) (wi : Nat) : Nat := ((s.watchers[wi]?).map (·.numprocesses)).getD 0

/-- `manage_processes`: kill the oldest surplus workers, else spawn the missing ones -/
def manage (s : State) (wi : Nat) : State :=
  let live := procsOf s wi
  let np := npOf s wi
  if live.length > np then reapAll s (live.take (live.length - np))
  else spawnN (np - live.length) s wi

/-! ### histories -/

inductive Op where
  /-- `Arbiter.initialize()`: `sockets.bind_and_listen_all()` -/
  | initialize
  /-- `spawn_process()` of watcher `w` -/
  | spawn (w : Nat)
  /-- the `i`-th live worker dies and is reaped -/
  | die (i : Nat)
  /-- `_restart`: all workers of `w` are killed, then `numprocesses` new ones spawned -/
  | restart (w : Nat)
  /-- graceful `_reload`: `numprocesses` new workers first, then the old ones are killed -/
  | reload (w : Nat)
  | incr (w : Nat) (k : Nat)
  | decr (w : Nat) (k : Nat)
  /-- the daemon opens an unrelated file -/
  | openOther (inheritable : Bool)
  /-- the daemon closes the `i`-th of the unrelated files still open -/
  | closeOther (i : Nat)
  /-- `stop_controller_and_close_sockets()` -/
  | stop
  /-- the socket part of `Arbiter.reload_from_config()`: `new` = the socket sections of the new
      file; `dorder`, `aorder` = the order in which the Python sets `deleted_sn`, `added_sn` are
      iterated -/
  | reloadSockets (new : List Spec) (dorder aorder : List Str)
deriving DecidableEq, Repr

/-! ### `Arbiter.reload_from_config`, sockets -/

/-- the elements of `xs` in the order `order` lists them, the rest behind -/
def reorder (order xs : List Str) : List Str :=
  (order.filter (fun n => xs.contains n)).eraseDups ++ xs.filter (fun n => !order.contains n)

/-- `s = self.get_socket(n); s.close(); del self.sockets[s.name]` -/
def delSock (s : State) (n : Str) : State :=
  match s.socks.find? (fun k => k.name = n) with
  | none => s
  | some k => { closeObj s k with socks := s.socks.erase k }

/-- `s = CircusSocket.load_from_config(cfg); s.bind_and_listen(); self.sockets[s.name] = s`.
    When `bind_and_listen` raises the new object is dropped: its descriptor is closed by the
    finalizer, `CircusSocket.close()` is not called. -/
def addSock (s : State) (k : Spec) : State × Option BindErr :=
  let (s1, fd) := alloc s newSocketDesc
  match bindAndListen s1 k (some fd) with
  | (s2, some e) => (closeFds s2 [fd], some e)
  | (s2, none) => ({ s2 with socks := s2.socks ++ [{ toSpec := k, fd := some fd }] }, none)

/-- `for n in added_sn:`; an `OSError` ends the reload -/
def addLoop (new : List Spec) : State → List Str → State
  | s, [] => s
  | s, n :: ns =>
    match new.find? (fun k => k.name = n) with
    | none => addLoop new s ns
    | some k =>
      match addSock s k with
      | (s1, some _) => s1
      | (s1, none) => addLoop new s1 ns

/-- names of the sockets whose section differs from the `_cfg` of the object in the dict -/
def changedNames (s : State) (new : List Spec) : List Str :=
  (s.socks.filter (fun k => match new.find? (fun k' => k'.name = k.name) with
                            | some k' => k' ≠ k.toSpec
                            | none => false)).map (·.name)

def reloadSockets (s : State) (new : List Spec) (dorder aorder : List Str) : State :=
  let current := s.socks.map (·.name)
  let newSn := new.map (·.name)
  let added0 := newSn.filter (fun n => !current.contains n)
  let deleted0 := current.filter (fun n => !newSn.contains n)
  let changed := changedNames s new
  let s1 := (reorder dorder (deleted0 ++ changed)).foldl delSock s
  addLoop new s1 (reorder aorder (added0 ++ changed))

def step (s : State) : Op → State
  | .initialize =>
    match bindAndListenAll s s.socks with
    | (s1, some _) => s1            -- raised out of `Arbiter.initialize`
    | (s1, none) => { s1 with phase := if s.phase = .fresh then .running else s.phase }
  | .spawn w => (spawnProcess s w).1
  | .die i =>
    match s.procs[i]? with
    | some p => reapProc s p
    | none => s
  | .restart w =>
    let s1 := reapAll s (procsOf s w)
    spawnN (npOf s1 w) s1 w
  | .reload w =>
    match spawnAll (npOf s w) s w with
    | (s1, true) => s1              -- the exception leaves `_reload`
    | (s1, false) => manage s1 w
  | .incr w k => manage (setNp s w (npOf s w + k)) w
  | .decr w k => manage (setNp s w (npOf s w - k)) w
  | .openOther inh =>
    let (s1, fd) := alloc s (otherDesc inh)
    { s1 with others := s1.others ++ [fd] }
  | .closeOther i =>
    match s.others[i]? with
    | some fd => { closeFds s [fd] with others := s.others.eraseIdx i }
    | none => s
  | .stop => { closeAllSocks s with phase := .stopped }
  | .reloadSockets new dorder aorder => reloadSockets s new dorder aorder

def run (s : State) : List Op → State
  | [] => s
  | o :: os => run (step s o) os

/-- the daemon before `Arbiter.initialize`: `t0` is whatever the process has open already, `f0` the
    unix-socket paths that exist already, the `CircusSocket` objects are created in the order of `specs` -/
def setup (t0 : FdTable) (specs : List Spec) (ws : List Watcher) (f0 : List Nat := []) : State :=
  specs.foldl mkSocket
    { fdt := t0, nextId := 1, nextBind := 1, socks := [], watchers := ws, procs := [], nextPid := 1,
      others := [], phase := .fresh, log := [], files := f0, made := [] }

end Circus.Sockets
