import CircusModel.Model.GnuArgs
import CircusModel.Model.Shlex
import CircusModel.Model.FormatArgs
/-
Model of the life of the managed sockets (`[socket:NAME]`, property C07):

* `circus/sockets.py`  : `CircusSocket.__init__` (`socket()`, `set_inheritable(True)`),
  `CircusSocket.bind_and_listen`, `CircusSocket.close`, `CircusSockets` (a dict name -> socket),
  `CircusSockets.bind_and_listen_all`, `CircusSockets.close_all`;
* `circus/arbiter.py`  : `Arbiter.initialize` (-> `bind_and_listen_all`),
  `Arbiter.stop_controller_and_close_sockets` (-> `close_all`);
* `circus/watcher.py`  : `Watcher._get_sockets_fds`, the retry loop of `Watcher.spawn_process`,
  `Watcher.reap_process` (-> `Process.stop` -> `close_output_channels`), and restart / reload /
  incr / decr as the sequences of `spawn_process` / reaping they perform;
* `circus/process.py`  : `Process._get_sockets_fds` (the per-worker `so_reuseport` branch),
  `Process.format_args` as far as the `sockets` table is concerned, the
  `Popen(args, close_fds=not self.use_fds, stdout=PIPE, stderr=PIPE)` call of `Process.spawn` and
  `self._sockets = []` behind it;
* `subprocess`         : which descriptors of the parent a child keeps (PEP 446): with
  `close_fds=True` nothing above 2, with `close_fds=False` exactly the *inheritable* ones; the pipes
  `Popen` makes for `stdout=PIPE` / `stderr=PIPE` (read end kept by the daemon, write end closed in
  the daemon when `Popen` returns).

Kernel: the daemon's descriptor table `fdt` (slot `i` = descriptor number `i`, `none` = free).  A
new descriptor always gets the lowest free number, so the numbers of pipes and unrelated files are
reused across worker generations and move around the managed sockets.  Every `socket()`, `pipe()`
end and `open()` creates a new open file with a fresh identity `id`; every successful `bind()`
gets a fresh serial `bindSer` (0 = never bound), so both a re-created and a re-bound socket are
visible.  The daemon never `dup`s, so descriptor and open file correspond one to one, and what a
child inherits is a sub-table of the daemon's table at the moment of the fork, same numbers.

Parameters (not modelled): all sockets are `SOCK_STREAM` (so `bind_and_listen` listens), `bind`
and `listen` succeed on a fresh socket (no `EADDRINUSE`), `replace = False`; the texts `cmd` /
`args` refer to no other `circus.*` key than `circus.sockets.*` (the general substitution is C13);
`shell = False`; `stdin_socket = None`; the real `Popen` does not fail; hooks are absent.
`IS_WINDOWS` is false.  Descriptors 0..2 (stdio) are outside the child view.
-/
namespace Circus.Sockets
open Circus.GnuArgs Circus.Shlex
open Circus.FormatArgs (Args decimal pyNone)

abbrev Str := List Nat

inductive Kind where
  | sock | other
deriving DecidableEq, Repr

/-- an open file of the daemon seen through its (only) descriptor -/
structure Desc where
  /-- identity of the open file (creation serial) -/
  id : Nat
  kind : Kind
  /-- `os.get_inheritable(fd)` -/
  inheritable : Bool
  /-- `SO_ACCEPTCONN` -/
  listening : Bool
  /-- identity of the address it is bound to -/
  addr : Option Nat
  /-- serial of the `bind()` call that bound it; 0 = never bound -/
  bindSer : Nat
deriving DecidableEq, Repr

abbrev FdTable := List (Option Desc)

namespace FdTable

/-- the descriptor number the next `socket()` / `pipe()` / `open()` returns -/
def lowestFree : FdTable → Nat
  | [] => 0
  | none :: _ => 0
  | some _ :: r => lowestFree r + 1

/-- what descriptor `fd` denotes -/
def get (t : FdTable) (fd : Nat) : Option Desc := (t[fd]?).getD none

/-- slot `fd` := `d`; the table is grown by one when `fd` is its length (never more: `fd` is the
    lowest free number or an open descriptor) -/
def put (t : FdTable) (fd : Nat) (d : Option Desc) : FdTable :=
  if fd < t.length then t.set fd d else t ++ [d]

/-- `close(fd)` -/
def close (t : FdTable) (fd : Nat) : FdTable := t.set fd none

def closeAll (t : FdTable) (fds : List Nat) : FdTable := fds.foldl close t

end FdTable

/-- a `CircusSocket` object -/
structure Sock where
  name : Str
  /-- `self.so_reuseport` -/
  reuseport : Bool
  /-- identity of `(host, port)` / `path` -/
  addr : Nat
  /-- `fileno()`; `none` = closed (Python answers -1) -/
  fd : Option Nat
deriving DecidableEq, Repr

/-- the options of a watcher that matter here -/
structure Watcher where
  useSockets : Bool
  cmd : Str
  args : Args
  numprocesses : Nat
  /-- `stdout_stream is not None`, `stderr_stream is not None` -/
  pipeOut : Bool
  pipeErr : Bool
  maxRetry : Nat
deriving Repr

/-- a live worker (`Watcher.processes` of all watchers, in spawn order) -/
structure Proc where
  pid : Nat
  /-- index of its watcher -/
  w : Nat
  /-- worker id (`Watcher._nextwid`) -/
  wid : Nat
  /-- the read ends the daemon holds (`Popen.stdout`, `Popen.stderr`) -/
  pipeFds : List Nat
deriving DecidableEq, Repr

inductive Phase where
  /-- sockets created, `Arbiter.initialize` not yet run -/
  | fresh
  /-- between `initialize` and `stop_controller_and_close_sockets` -/
  | running
  | stopped
deriving DecidableEq, Repr

/-- one `Popen(...)` call = one worker -/
structure Rec where
  /-- index of the watcher -/
  w : Nat
  /-- ghost: `watcher.use_sockets` -/
  useSockets : Bool
  /-- ghost: phase of the daemon at the call -/
  phase : Phase
  /-- the dict `Process._get_sockets_fds()` returned (`format_kwargs['sockets']`) -/
  socketsFds : List (Str × Option Nat)
  /-- ghost: the `cmd` and `args` the `Process` was constructed with -/
  cmd : Str
  args : Args
  /-- the argument vector -/
  argv : List Str
  /-- `close_fds=` -/
  closeFds : Bool
  /-- the daemon descriptors above 2 the child keeps, under their numbers -/
  inherited : FdTable
  /-- ghost: the per-worker `so_reuseport` descriptors (`Process._sockets`) -/
  temp : List Nat
deriving Repr

structure State where
  fdt : FdTable
  nextId : Nat
  nextBind : Nat
  /-- `arbiter.sockets` (insertion order) -/
  socks : List Sock
  watchers : List Watcher
  procs : List Proc
  nextPid : Nat
  /-- descriptors of unrelated files the daemon has opened, oldest first -/
  others : List Nat
  phase : Phase
  /-- newest first -/
  log : List Rec
deriving Repr

/-! ### kernel calls -/

/-- a call that creates an open file: lowest free number, fresh identity -/
def alloc (s : State) (mk : Nat → Desc) : State × Nat :=
  let fd := s.fdt.lowestFree
  ({ s with fdt := s.fdt.put fd (some (mk s.nextId)), nextId := s.nextId + 1 }, fd)

def closeFds (s : State) (fds : List Nat) : State := { s with fdt := s.fdt.closeAll fds }

/-- `socket()` followed by `set_inheritable(True)` (`CircusSocket.__init__`) -/
def newSocketDesc (id : Nat) : Desc :=
  { id := id, kind := .sock, inheritable := true, listening := false, addr := none, bindSer := 0 }

/-- an end of a `pipe()` / an `open()`ed file -/
def otherDesc (inheritable : Bool) (id : Nat) : Desc :=
  { id := id, kind := .other, inheritable := inheritable, listening := false, addr := none, bindSer := 0 }

/-! ### `circus/sockets.py` -/

/-- `CircusSocket(...)` + `self[sock.name] = sock` for a name that is not yet a key -/
def mkSocket (s : State) (name : Str) (reuseport : Bool) (addr : Nat) : State :=
  let (s1, fd) := alloc s newSocketDesc
  { s1 with socks := s1.socks ++ [{ name := name, reuseport := reuseport, addr := addr, fd := some fd }] }

inductive BindErr where
  /-- `EBADF`: the socket object is closed -/
  | closed
  /-- `EINVAL` (inet) / "already exists" (unix): the socket is bound already -/
  | bound
deriving DecidableEq, Repr

/-- `CircusSocket.bind_and_listen()` on the socket with descriptor `fd` -/
def bindAndListen (s : State) (addr : Nat) (fd : Option Nat) : Except BindErr State :=
  match fd with
  | none => .error .closed
  | some n =>
    match s.fdt.get n with
    | none => .error .closed
    | some d =>
      if d.bindSer ≠ 0 then .error .bound else
      .ok { s with fdt := s.fdt.put n (some { d with addr := some addr, bindSer := s.nextBind, listening := true }),
                   nextBind := s.nextBind + 1 }

/-- `CircusSockets.bind_and_listen_all()`: the first error propagates out of the loop (second
    component), the sockets bound before it stay bound -/
def bindAndListenAll (s : State) : List Sock → State × Option BindErr
  | [] => (s, none)
  | k :: ks =>
    if k.reuseport then bindAndListenAll s ks        -- "should not be bound at this point"
    else match bindAndListen s k.addr k.fd with
      | .error e => (s, some e)
      | .ok s1 => bindAndListenAll s1 ks

/-- `sock.close()` for every socket of the dict (`CircusSockets.close_all`) -/
def closeSock (t : FdTable) (k : Sock) : FdTable :=
  match k.fd with
  | some fd => t.close fd
  | none => t

def closeAllSocks (s : State) : State :=
  { s with fdt := s.socks.foldl closeSock s.fdt,
           socks := s.socks.map (fun k => { k with fd := none }) }

/-! ### `Process._get_sockets_fds` -/

/-- `p in s` for strings -/
def isInfix (p : Str) : Str → Bool
  | [] => p.isEmpty
  | c :: cs => p.isPrefixOf (c :: cs) || isInfix p cs

/-- `"sockets"` -/
def socketsKey : Str := [115, 111, 99, 107, 101, 116, 115]
/-- `"sockets."` -/
def socketsDot : Str := socketsKey ++ [46]
/-- `'circus.sockets.%s' % sn` -/
def socketsRef (sn : Str) : Str := circusDot ++ socketsDot ++ sn

/-- `d[k] = v` -/
def setFd (d : List (Str × Option Nat)) (k : Str) (v : Option Nat) : List (Str × Option Nat) :=
  match d with
  | [] => [(k, v)]
  | (k', v') :: r => if k' = k then (k, v) :: r else (k', v') :: setFd r k v

structure Attempt where
  s : State
  fds : List (Str × Option Nat)
  temp : List Nat

/-- `CircusSocket.load_from_config(s._cfg)` + `bind_and_listen()`: the socket of one worker -/
def newBoundSocket (s : State) (addr : Nat) : State × Nat :=
  let fd := s.fdt.lowestFree
  ({ s with fdt := s.fdt.put fd (some { id := s.nextId, kind := .sock, inheritable := true, listening := true,
                                        addr := some addr, bindSer := s.nextBind }),
            nextId := s.nextId + 1, nextBind := s.nextBind + 1 }, fd)

/-- body of `for sn, s in reuseport_sockets:` -/
def reuseStep (cmd : Str) (a : Attempt) (k : Sock) : Attempt :=
  if isInfix (socketsRef k.name) cmd then
    let (s1, fd) := newBoundSocket a.s k.addr
    { s := s1, fds := setFd a.fds k.name (some fd), temp := a.temp ++ [fd] }
  else a

/-- `Watcher._get_sockets_fds()` -/
def watcherSocketsFds (s : State) : List (Str × Option Nat) := s.socks.map (fun k => (k.name, k.fd))

/-- `Process._get_sockets_fds()` (`watcher.sockets` is the arbiter's dict) -/
def getSocketsFds (s : State) (w : Watcher) : Attempt :=
  (s.socks.filter (·.reuseport)).foldl (reuseStep w.cmd) { s := s, fds := watcherSocketsFds s, temp := [] }

/-! ### `Process.format_args` -/

/-- `str(sock.fileno())` -/
def fdText : Option Nat → Str
  | some n => decimal n
  | none => [45, 49]

/-- the `sockets=` keyword of `replace_gnu_args` -/
def socketsKw (fds : List (Str × Option Nat)) : List (Str × Val) :=
  [(socketsKey, .dict (fds.map (fun nv => (nv.1, fdText nv.2))))]

/-- `format_args(sockets_fds)` with `shell = False` -/
def formatArgv (fds : List (Str × Option Nat)) (cmd : Str) (args : Args) : Except Err (List Str) :=
  let kw := socketsKw fds
  let cmd := replaceGnuArgs kw cmd
  match args with
  | .str a => do
      let a ← split (replaceGnuArgs kw a)
      let c ← split cmd
      pure (c ++ a)
  | .list xs => do
      let a := xs.map (replaceGnuArgs kw)
      let c ← split cmd
      pure (c ++ a)
  | .none => split cmd

/-! ### `Popen` -/

/-- the daemon descriptors above 2 that survive `fork` + `exec` in the child -/
def inherit (closeFds : Bool) (t : FdTable) : FdTable :=
  t.mapIdx (fun i o => if i < 3 then none else if closeFds then none else o.filter (·.inheritable))

/-- `c2pread, c2pwrite = os.pipe()` (both ends non-inheritable) -/
def allocPipe (s : State) : State × Nat × Nat :=
  let (s1, r) := alloc s (otherDesc false)
  let (s2, w) := alloc s1 (otherDesc false)
  (s2, r, w)

/-- the pipes of `stdout=PIPE`, `stderr=PIPE` in the order `Popen._get_handles` makes them:
    `(state, read ends, write ends)` -/
def allocPipes (s : State) (out err : Bool) : State × List Nat × List Nat :=
  let (s1, r1, w1) := if out then (let (x, r, w) := allocPipe s; (x, [r], [w])) else (s, [], [])
  let (s2, r2, w2) := if err then (let (x, r, w) := allocPipe s1; (x, [r], [w])) else (s1, [], [])
  (s2, r1 ++ r2, w1 ++ w2)

/-- `cmd = util.replace_gnu_args(self.cmd, env=self.env)` with `self.env = None` -/
def watcherCmd (w : Watcher) : Str := replaceGnuArgs [([101, 110, 118], .scalar pyNone)] w.cmd

/-- one turn of the `while nb_tries < self.max_retry` loop of `spawn_process`:
    `Process(...)` = `_get_sockets_fds`, `format_args`, `Popen`, `self._sockets = []`.
    `false` = `format_args` raised `ValueError`: the half-built `Process` is dropped, its sockets
    are closed with it, `Popen` has not been called. -/
def trySpawn (s : State) (wi : Nat) (w : Watcher) (wid : Nat) : State × Bool :=
  let a := getSocketsFds s w
  match formatArgv a.fds (watcherCmd w) w.args with
  | .error _ => (closeFds a.s a.temp, false)
  | .ok argv =>
    let (s1, rfds, wfds) := allocPipes a.s w.pipeOut w.pipeErr
    let r : Rec := { w := wi, useSockets := w.useSockets, phase := s.phase, socketsFds := a.fds,
                     cmd := watcherCmd w, args := w.args, argv := argv,
                     closeFds := !w.useSockets, inherited := inherit (!w.useSockets) s1.fdt, temp := a.temp }
    let s2 := closeFds s1 wfds          -- Popen closes the child's ends in the parent
    let s3 := closeFds s2 a.temp        -- self._sockets = []
    ({ s3 with procs := s3.procs ++ [{ pid := s3.nextPid, w := wi, wid := wid, pipeFds := rfds }],
               nextPid := s3.nextPid + 1, log := r :: s3.log }, true)

/-- the retry loop; `false` = `spawn_process` returned `False` -/
def spawnLoop : Nat → State → Nat → Watcher → Nat → State × Bool
  | 0, s, _, _, _ => (s, false)
  | n + 1, s, wi, w, wid =>
    match trySpawn s wi w wid with
    | (s1, true) => (s1, true)
    | (s1, false) => spawnLoop n s1 wi w wid

inductive SpawnRes where
  | ok
  /-- `spawn_process` returned `False` -/
  | failed
  /-- `_nextwid` raised `RuntimeError("Process count > numproceses*2")`: propagates to the caller -/
  | raised
deriving DecidableEq, Repr

def procsOf (s : State) (wi : Nat) : List Proc := s.procs.filter (fun p => p.w == wi)

/-- `Watcher.spawn_process()` of watcher number `wi` -/
def spawnProcess (s : State) (wi : Nat) : State × SpawnRes :=
  match s.watchers[wi]? with
  | none => (s, .raised)
  | some w =>
    match FormatArgs.nextWid w.numprocesses ((procsOf s wi).map (·.wid)) with
    | none => (s, .raised)
    | some wid =>
      match spawnLoop w.maxRetry s wi w wid with
      | (s1, true) => (s1, .ok)
      | (s1, false) => (s1, .failed)

/-- `for i in range(n): spawn_process()`, stopping at the first `False` (`spawn_processes`) or raise -/
def spawnN : Nat → State → Nat → State
  | 0, s, _ => s
  | n + 1, s, wi =>
    match spawnProcess s wi with
    | (s1, .ok) => spawnN n s1 wi
    | (s1, _) => s1

/-- the `for` loop of `_reload`: the result is ignored, an exception ends it (`true`) -/
def spawnAll : Nat → State → Nat → State × Bool
  | 0, s, _ => (s, false)
  | n + 1, s, wi =>
    match spawnProcess s wi with
    | (s1, .raised) => (s1, true)
    | (s1, _) => spawnAll n s1 wi

/-! ### deaths -/

/-- the worker leaves `processes`, `Process.stop()` closes its output channels -/
def reapProc (s : State) (p : Proc) : State :=
  { closeFds s p.pipeFds with procs := s.procs.filter (fun q => q.pid ≠ p.pid) }

def reapAll (s : State) (ps : List Proc) : State := ps.foldl reapProc s

def setNp (s : State) (wi : Nat) (np : Nat) : State :=
  { s with watchers := s.watchers.modify wi (fun w => { w with numprocesses := np }) }

def npOf (s : State) (wi : Nat) : Nat := ((s.watchers[wi]?).map (·.numprocesses)).getD 0

/-- `manage_processes`: kill the oldest surplus workers, else spawn the missing ones -/
def manage (s : State) (wi : Nat) : State :=
  let live := procsOf s wi
  let np := npOf s wi
  if live.length > np then reapAll s (live.take (live.length - np))
  else spawnN (np - live.length) s wi

/-! ### histories -/

inductive Op where
  /-- `Arbiter.initialize()`: `sockets.bind_and_listen_all()` -/
  | initialize
  /-- `spawn_process()` of watcher `w` -/
  | spawn (w : Nat)
  /-- the `i`-th live worker dies and is reaped -/
  | die (i : Nat)
  /-- `_restart`: all workers of `w` are killed, then `numprocesses` new ones spawned -/
  | restart (w : Nat)
  /-- graceful `_reload`: `numprocesses` new workers first, then the old ones are killed -/
  | reload (w : Nat)
  | incr (w : Nat) (k : Nat)
  | decr (w : Nat) (k : Nat)
  /-- the daemon opens an unrelated file -/
  | openOther (inheritable : Bool)
  /-- the daemon closes the `i`-th of the unrelated files still open -/
  | closeOther (i : Nat)
  /-- `stop_controller_and_close_sockets()` -/
  | stop
deriving DecidableEq, Repr

def step (s : State) : Op → State
  | .initialize =>
    match bindAndListenAll s s.socks with
    | (s1, some _) => s1            -- raised out of `Arbiter.initialize`
    | (s1, none) => { s1 with phase := if s.phase = .fresh then .running else s.phase }
  | .spawn w => (spawnProcess s w).1
  | .die i =>
    match s.procs[i]? with
    | some p => reapProc s p
    | none => s
  | .restart w =>
    let s1 := reapAll s (procsOf s w)
    spawnN (npOf s1 w) s1 w
  | .reload w =>
    match spawnAll (npOf s w) s w with
    | (s1, true) => s1              -- the exception leaves `_reload`
    | (s1, false) => manage s1 w
  | .incr w k => manage (setNp s w (npOf s w + k)) w
  | .decr w k => manage (setNp s w (npOf s w - k)) w
  | .openOther inh =>
    let (s1, fd) := alloc s (otherDesc inh)
    { s1 with others := s1.others ++ [fd] }
  | .closeOther i =>
    match s.others[i]? with
    | some fd => { closeFds s [fd] with others := s.others.eraseIdx i }
    | none => s
  | .stop => { closeAllSocks s with phase := .stopped }

def run (s : State) : List Op → State
  | [] => s
  | o :: os => run (step s o) os

/-- a socket of the configuration -/
structure Spec where
  name : Str
  reuseport : Bool
  addr : Nat
deriving DecidableEq, Repr

/-- the daemon before `Arbiter.initialize`: `t0` is whatever the process has open already, the
    `CircusSocket` objects are created in the order of `specs` -/
def setup (t0 : FdTable) (specs : List Spec) (ws : List Watcher) : State :=
  specs.foldl (fun s k => mkSocket s k.name k.reuseport k.addr)
    { fdt := t0, nextId := 1, nextBind := 1, socks := [], watchers := ws, procs := [], nextPid := 1,
      others := [], phase := .fresh, log := [] }

end Circus.Sockets
